/-
Grammar facts about the shape of the trees the expression productions return (used by C01/C17):
which node kinds can sit at the top of the result of each precedence level.
-/
import MesonModel.Lang.RoundTrip

namespace MesonModel.Lang

/-- results of `e8` and below: literals, ids, parenthesised/array/dict, calls, method calls, indexing, or nothing -/
def Node.isPostfix : Node → Bool
  | .boolean .. | .id .. | .number .. | .string .. | .empty .. | .paren .. | .array .. | .dict ..
  | .function .. | .method .. | .index .. => true
  | _ => false

def Node.isUnary : Node → Bool
  | .unop .. => true
  | _ => false

def Node.isArith : Node → Bool
  | .binop (.arith _) .. => true
  | _ => false

def Node.isCmp : Node → Bool
  | .binop (.cmp _) .. => true
  | _ => false

def Node.isTernary : Node → Bool
  | .ternary .. => true
  | _ => false

theorem isPostfix_addWs (n : Node) (ws : List Token) : (n.addWs ws).isPostfix = n.isPostfix := by
  cases n
  case codeblock b pre lines => simp only [Node.addWs]; split <;> rfl
  all_goals rfl

def Returns (f : P Node) (p : Node → Bool) : Prop := ∀ st n st', f st = .ok (n, st') → p n = true

theorem create_returns {nd n : Node} {st st' : PState} (h : create nd st = .ok (n, st')) : n = nd.addWs st.ws :=
  (create_spec h).1

theorem e10_postfix : Returns e10 Node.isPostfix := by
  intro st n st' h
  simp only [e10, bind_ok, cur_ok] at h
  obtain ⟨t, s0, ⟨rfl, rfl⟩, b1, s1, ha1, h⟩ := h
  cases b1
  · simp only [Bool.false_eq_true, if_false, bind_ok] at h
    obtain ⟨b2, s2, ha2, h⟩ := h
    cases b2
    · simp only [Bool.false_eq_true, if_false, bind_ok] at h
      obtain ⟨b3, s3, ha3, h⟩ := h
      cases b3
      · simp only [Bool.false_eq_true, if_false, bind_ok] at h
        obtain ⟨b4, s4, ha4, h⟩ := h
        cases b4
        · simp only [Bool.false_eq_true, if_false, bind_ok] at h
          obtain ⟨o, s5, ha5, h⟩ := h
          cases o
          · simp only [emptyAtCur] at h; cases h; rfl
          · simp only at h
            split at h
            · rw [create_returns h, isPostfix_addWs]; rfl
            · simp only [bind_ok, get_ok] at h
              obtain ⟨_, _, ⟨rfl, rfl⟩, h⟩ := h
              cases hesc : escape s5.names st.cur.value <;> rw [hesc] at h <;> simp only at h
              · simp [fail_ok] at h
              · rw [create_returns h, isPostfix_addWs]; rfl
        · simp only [if_true] at h; rw [create_returns h, isPostfix_addWs]; rfl
      · simp only [if_true] at h; rw [create_returns h, isPostfix_addWs]; rfl
    · simp only [if_true] at h; rw [create_returns h, isPostfix_addWs]; rfl
  · simp only [if_true] at h; rw [create_returns h, isPostfix_addWs]; rfl

theorem e9_postfix (stmt : P Node) (k : Nat) : Returns (e9 stmt k) Node.isPostfix := by
  intro st n st' h
  simp only [e9, bind_ok, cur_ok] at h
  obtain ⟨bs, s0, hbs, b1, s1, ha1, h⟩ := h
  cases b1
  · simp only [Bool.false_eq_true, if_false, bind_ok] at h
    obtain ⟨b2, s2, ha2, h⟩ := h
    cases b2
    · simp only [Bool.false_eq_true, if_false, bind_ok] at h
      obtain ⟨b3, s3, ha3, h⟩ := h
      cases b3
      · simp only [Bool.false_eq_true, if_false] at h
        exact e10_postfix _ _ _ h
      · simp only [if_true, bind_ok, prev_ok] at h
        obtain ⟨_, _, _, _, _, _, _, _, _, _, _, _, _, _, _, hcr⟩ := h
        rw [create_returns hcr, isPostfix_addWs]; rfl
    · simp only [if_true, bind_ok, prev_ok] at h
      obtain ⟨_, _, _, _, _, _, _, _, _, _, _, _, _, _, _, hcr⟩ := h
      rw [create_returns hcr, isPostfix_addWs]; rfl
  · simp only [if_true, bind_ok, prev_ok, pure_ok] at h
    obtain ⟨_, _, _, _, _, _, _, _, _, _, _, _, _, _, _, h⟩ := h
    cases h; rfl

theorem methodCall_postfix (stmt : P Node) (k j : Nat) : ∀ src, Returns (methodCall stmt k j src) Node.isPostfix := by
  induction j with
  | zero => intro src st n st' h; simp [methodCall, fail_ok] at h
  | succ j ih =>
    intro src st n st' h
    simp only [methodCall, bind_ok, prev_ok] at h
    obtain ⟨tk, s1, hpv, dot, s2, hdot, name, s3, hname, h⟩ := h
    split at h
    · split at h
      · simp [raiseAt_ok] at h
      · simp [bind_ok, cur_ok, fail_ok] at h
    · simp only [bind_ok, prev_ok, cur_ok] at h
      obtain ⟨_, s4, hex, tk2, s5, hpv2, lpar, s6, hlp, a, s7, hargs, ct, s8, hct, rpar, s9, hrp, _, s10, hex2,
        m, s11, hcr, b, s12, hdot2, h⟩ := h
      cases b
      · simp only [Bool.false_eq_true, if_false, pure_ok] at h
        cases h
        rw [create_returns hcr, isPostfix_addWs]; rfl
      · simp only [if_true] at h
        exact ih _ _ _ _ h

theorem indexCall_postfix (stmt : P Node) (src : Node) : Returns (indexCall stmt src) Node.isPostfix := by
  intro st n st' h
  simp only [indexCall, bind_ok, prev_ok] at h
  obtain ⟨_, _, _, _, _, _, _, _, _, _, _, _, _, _, _, _, _, _, hcr⟩ := h
  rw [create_returns hcr, isPostfix_addWs]; rfl

theorem e8Loop_postfix (stmt : P Node) (k j : Nat) :
    ∀ l, l.isPostfix = true → Returns (e8Loop stmt k j l) Node.isPostfix := by
  induction j with
  | zero => intro l _ st n st' h; simp [e8Loop, fail_ok] at h
  | succ j ih =>
    intro l hl st n st' h
    simp only [e8Loop, bind_ok] at h
    obtain ⟨d, s1, hdot, h⟩ := h
    cases d
    · simp only [Bool.false_eq_true, if_false, bind_ok, pure_ok, Bool.false_or] at h
      obtain ⟨_, _, hp, b, s3, hb, h⟩ := h
      cases hp
      cases b
      · simp only [Bool.false_eq_true, if_false, bind_ok, pure_ok] at h
        obtain ⟨_, _, hp, h⟩ := h
        cases hp; cases h; exact hl
      · simp only [if_true, bind_ok] at h
        obtain ⟨ix, s4, hix, hloop⟩ := h
        exact ih _ (indexCall_postfix _ _ _ _ _ hix) _ _ _ hloop
    · simp only [if_true, bind_ok, Bool.true_or] at h
      obtain ⟨m, s2, hm, b, s3, hb, h⟩ := h
      have hmp := methodCall_postfix _ _ _ _ _ _ _ hm
      cases b
      · simp only [Bool.false_eq_true, if_false, bind_ok, pure_ok] at h
        obtain ⟨_, _, hp, hloop⟩ := h
        cases hp
        exact ih _ hmp _ _ _ hloop
      · simp only [if_true, bind_ok] at h
        obtain ⟨ix, s4, hix, hloop⟩ := h
        exact ih _ (indexCall_postfix _ _ _ _ _ hix) _ _ _ hloop

/-- `e8` returns a literal, id, bracketed expression, call, method call, indexing, or nothing —
never a unary or binary operator node -/
theorem e8_postfix (stmt : P Node) (k : Nat) : Returns (e8 stmt k) Node.isPostfix := by
  intro st n st' h
  simp only [e8, bind_ok, cur_ok] at h
  obtain ⟨left, s1, h9, bs, s2, hbs, b, s3, hlp, h⟩ := h
  have h9p := e9_postfix _ _ _ _ _ h9
  cases b
  · simp only [Bool.false_eq_true, if_false, bind_ok, pure_ok] at h
    obtain ⟨_, _, hp, hloop⟩ := h
    cases hp
    exact e8Loop_postfix _ _ _ _ h9p _ _ _ hloop
  · simp only [if_true, bind_ok, prev_ok] at h
    obtain ⟨lpar, s4, hl, a, s5, hargs, _, s6, hbe, tk, s7, hpv, rpar, s8, hr, h⟩ := h
    split at h
    · simp [bind_ok, raiseAt_ok] at h
    · simp only [bind_ok] at h
      obtain ⟨fn, s9, hcr, hloop⟩ := h
      exact e8Loop_postfix _ _ _ _ (by rw [create_returns hcr, isPostfix_addWs]; rfl) _ _ _ hloop

/-- `unary_not_stacked`: the operand of a `not` / unary minus node is a postfix expression, never itself a
unary node (`not not a`, `- - a` are not derivable; `-not a` neither) -/
theorem e7_operand_postfix (stmt : P Node) (k : Nat) :
    Returns (e7 stmt k) (fun n => match n with
      | .unop _ _ _ v => v.isPostfix
      | n => n.isPostfix) := by
  intro st n st' h
  simp only [e7, bind_ok] at h
  obtain ⟨b1, s1, ha1, h⟩ := h
  cases b1
  · simp only [Bool.false_eq_true, if_false, bind_ok] at h
    obtain ⟨b2, s2, ha2, h⟩ := h
    cases b2
    · simp only [Bool.false_eq_true, if_false] at h
      have := e8_postfix _ _ _ _ _ h
      cases n <;> simp_all [Node.isPostfix]
    · simp only [if_true, bind_ok, prev_ok, cur_ok] at h
      obtain ⟨tk, s2, hpv, sym, s3, hsym, t, s4, hc, v, s5, hv, hcr⟩ := h
      rw [create_returns hcr]
      simp only [Node.addWs, Node.addWsBase, Node.mapBase]
      exact e8_postfix _ _ _ _ _ hv
  · simp only [if_true, bind_ok, prev_ok, cur_ok] at h
    obtain ⟨tk, s2, hpv, sym, s3, hsym, t, s4, hc, v, s5, hv, hcr⟩ := h
    rw [create_returns hcr]
    simp only [Node.addWs, Node.addWsBase, Node.mapBase]
    exact e8_postfix _ _ _ _ _ hv

/-- the top of an `e7` result is a unary node or a postfix expression -/
def Node.isE7 (n : Node) : Bool := n.isUnary || n.isPostfix

theorem e7_kind (stmt : P Node) (k : Nat) : Returns (e7 stmt k) Node.isE7 := by
  intro st n st' h
  have := e7_operand_postfix stmt k st n st' h
  cases n <;> simp_all [Node.isE7, Node.isUnary, Node.isPostfix]

/-- arithmetic level: an arithmetic node, or what `e7` returns -/
def Node.isE5 (n : Node) : Bool := n.isArith || n.isE7

theorem e6Loop_kind (stmt : P Node) (k j : Nat) : ∀ l, l.isE5 = true → Returns (e6Loop stmt k j l) Node.isE5 := by
  induction j with
  | zero => intro l _ st n st' h; simp [e6Loop, fail_ok] at h
  | succ j ih =>
    intro l hl st n st' h
    simp only [e6Loop, bind_ok] at h
    obtain ⟨o, s1, ha, h⟩ := h
    cases o
    · simp only [pure_ok] at h; cases h; exact hl
    · simp only [bind_ok, prev_ok] at h
      obtain ⟨tk, s2, hpv, sym, s3, hsym, r, s4, hr, nd, s5, hcr, hloop⟩ := h
      refine ih _ ?_ _ _ _ hloop
      rw [create_returns hcr]; rfl

theorem e6_kind (stmt : P Node) (k : Nat) : Returns (e6 stmt k) Node.isE5 := by
  intro st n st' h
  simp only [e6, bind_ok] at h
  obtain ⟨l, s1, hl, hloop⟩ := h
  have := e7_kind _ _ _ _ _ hl
  exact e6Loop_kind _ _ _ _ (by simp [Node.isE5, this]) _ _ _ hloop

theorem e5Loop_kind (stmt : P Node) (k j : Nat) : ∀ l, l.isE5 = true → Returns (e5Loop stmt k j l) Node.isE5 := by
  induction j with
  | zero => intro l _ st n st' h; simp [e5Loop, fail_ok] at h
  | succ j ih =>
    intro l hl st n st' h
    simp only [e5Loop, bind_ok] at h
    obtain ⟨o, s1, ha, h⟩ := h
    cases o
    · simp only [pure_ok] at h; cases h; exact hl
    · simp only [bind_ok, prev_ok] at h
      obtain ⟨tk, s2, hpv, sym, s3, hsym, r, s4, hr, nd, s5, hcr, hloop⟩ := h
      refine ih _ ?_ _ _ _ hloop
      rw [create_returns hcr]; rfl

theorem e5_kind (stmt : P Node) (k : Nat) : Returns (e5 stmt k) Node.isE5 := by
  intro st n st' h
  simp only [e5, bind_ok] at h
  obtain ⟨l, s1, hl, hloop⟩ := h
  exact e5Loop_kind _ _ _ _ (e6_kind _ _ _ _ _ hl) _ _ _ hloop

theorem isE5_not_cmp {n : Node} (h : n.isE5 = true) : n.isCmp = false := by
  cases n <;> simp_all [Node.isE5, Node.isE7, Node.isArith, Node.isUnary, Node.isPostfix, Node.isCmp]
  rename_i k _ _ _ _
  cases k <;> simp_all [Node.isArith, Node.isCmp]

/-- `comparison_not_chained`: both operands of a comparison node built by `e4` are arithmetic-level
expressions, never comparison nodes (`a == b == c`, `a < b in c` are not derivable without parentheses) -/
theorem e4_operands_not_cmp (stmt : P Node) (k : Nat) :
    Returns (e4 stmt k) (fun n => match n with
      | .binop (.cmp _) _ l _ r => !l.isCmp && !r.isCmp
      | n => n.isE5) := by
  intro st n st' h
  simp only [e4, bind_ok] at h
  obtain ⟨left, sA, hleft, o, s1, hany, h⟩ := h
  have hl := e5_kind _ _ _ _ _ hleft
  cases o
  · simp only [bind_ok] at h
    obtain ⟨b, s2, hnot, h⟩ := h
    cases b
    · simp only [Bool.false_eq_true, if_false, pure_ok] at h
      cases h
      have := isE5_not_cmp hl
      cases n <;> simp_all
      rename_i k _ _ _ _
      cases k <;> simp_all [Node.isCmp]
    · simp only [if_true, bind_ok, get_ok, prev_ok] at h
      obtain ⟨_, _, hg, nt, s3, hpv, b2, s4, hin, h⟩ := h
      cases b2
      · simp [bind_ok, cur_ok, fail_ok] at h
      · simp only [if_true, bind_ok, prev_ok, modify_ok] at h
        obtain ⟨it, s5, hpv2, _, s6, hm, h⟩ := h
        split at h
        · simp [fail_ok] at h
        · simp only [bind_ok] at h
          obtain ⟨sym, s7, hsym, r, s8, hr, hcr⟩ := h
          rw [create_returns hcr]
          simp only [Node.addWs, Node.addWsBase, Node.mapBase]
          simp [isE5_not_cmp hl, isE5_not_cmp (e5_kind _ _ _ _ _ hr)]
  · simp only [bind_ok, prev_ok] at h
    obtain ⟨tk, s2, hpv, sym, s3, hsym, r, s4, hr, hcr⟩ := h
    rw [create_returns hcr]
    simp only [Node.addWs, Node.addWsBase, Node.mapBase]
    simp [isE5_not_cmp hl, isE5_not_cmp (e5_kind _ _ _ _ _ hr)]

/-- `ternary_not_nested` (direct form): while `in_ternary` is set, `e1` never returns a ternary node -/
theorem e1_no_ternary_in_ternary (stmt : P Node) (k : Nat) {st st' : PState} {n : Node}
    (h : e1 stmt k st = .ok (n, st')) (hk : Returns (e2 stmt k) (fun n => !n.isTernary))
    (hflag : ∀ s a s', e2 stmt k s = .ok (a, s') → s'.inTernary = s.inTernary)
    (ht : st.inTernary = true) : n.isTernary = false := by
  simp only [e1, bind_ok] at h
  obtain ⟨left, sA, hleft, b1, s1, ha1, h⟩ := h
  have hlt : left.isTernary = false := by simpa using hk _ _ _ hleft
  have hfA : sA.inTernary = true := by rw [hflag _ _ _ hleft]; exact ht
  cases b1
  · cases accept_false ha1
    simp only [Bool.false_eq_true, if_false, bind_ok] at h
    obtain ⟨b2, s2, ha2, h⟩ := h
    cases b2
    · cases accept_false ha2
      simp only [Bool.false_eq_true, if_false, bind_ok] at h
      obtain ⟨b3, s3, ha3, h⟩ := h
      cases b3
      · simp only [Bool.false_eq_true, if_false, pure_ok] at h
        cases h; exact hlt
      · simp only [if_true, bind_ok, get_ok] at h
        obtain ⟨_, _, hg, h⟩ := h
        cases hg
        have hf3 : s3.inTernary = true := by
          rcases accept_spec ha3 with ⟨h', _⟩ | ⟨_, _, _, _, hfl⟩
          · cases h'
          · rw [hfl.tern]; exact hfA
        simp [hf3, raiseAt_ok] at h
    · simp only [if_true, bind_ok, prev_ok] at h
      obtain ⟨tk, s2, hpv, sym, s3, hsym, v, s4, hv, h⟩ := h
      split at h
      · simp [raiseAt_ok] at h
      · rw [create_returns h]; rfl
  · simp only [if_true, bind_ok, prev_ok] at h
    obtain ⟨tk, s2, hpv, sym, s3, hsym, v, s4, hv, h⟩ := h
    split at h
    · simp [raiseAt_ok] at h
    · rw [create_returns h]; rfl

end MesonModel.Lang
