/-
A state invariant every production preserves: once the current token is `eof` the stream is exhausted
(for token lists that contain no `eof` token, as the lexer's never do). Proved compositionally over the
`P` combinators.
-/
import MesonModel.Lang.Parser

namespace MesonModel.Lang

def NoEofTok (ts : List Token) : Prop := ∀ t ∈ ts, t.tid ≠ .eof

def StreamInv (e : Option (Nat × Nat)) (st : PState) : Prop :=
  st.lexErr = e ∧ NoEofTok st.rest ∧ (st.cur.tid = .eof → st.rest = [] ∧ e = none)

def Pres {α} (f : P α) : Prop := ∀ e st a st', f st = .ok (a, st') → StreamInv e st → StreamInv e st'

theorem Pres.bind {α β} {m : P α} {f : α → P β} (hm : Pres m) (hf : ∀ a, Pres (f a)) : Pres (m >>= f) := by
  intro e st b st' h hi
  have : (match m st with | Except.error e => Except.error e | Except.ok (a, s') => f a s') = Except.ok (b, st') := h
  cases hms : m st with
  | error e => rw [hms] at this; cases this
  | ok p =>
    obtain ⟨a, s1⟩ := p
    rw [hms] at this
    exact hf a _ _ _ _ this (hm _ _ _ _ hms hi)

theorem Pres.pure {α} (a : α) : Pres (Pure.pure a : P α) := by
  intro e st b st' h hi
  have : Except.ok (a, st) = Except.ok (b, st') := h
  cases this; exact hi

theorem Pres.fail {α} (e : Err) : Pres (P.fail e : P α) := by
  intro e st b st' h; cases h

theorem Pres.raiseAt {α} (n : Node) : Pres (raiseAt n : P α) := Pres.fail _

theorem Pres.get : Pres P.get := by
  intro e st b st' h hi; cases h; exact hi

theorem Pres.cur : Pres cur := by
  intro e st b st' h hi; cases h; exact hi

theorem Pres.prev : Pres prev := by
  intro e st b st' h hi; cases h; exact hi

theorem Pres.emptyAtCur : Pres emptyAtCur := by
  intro e st b st' h hi; cases h; exact hi

theorem Pres.modify {g : PState → PState}
    (hg : ∀ s, (g s).cur = s.cur ∧ (g s).rest = s.rest ∧ (g s).lexErr = s.lexErr) : Pres (P.modify g) := by
  intro e st b st' h hi
  cases h
  obtain ⟨h1, h2, h3⟩ := hg st
  simp only [StreamInv, h1, h2, h3]; exact hi

theorem Pres.create (n : Node) : Pres (create n) := by
  intro e st b st' h hi; cases h; exact hi

theorem Pres.createSymbol (t : Token) : Pres (createSymbol t) := Pres.create _

theorem Pres.flushWs (n : Node) : Pres (flushWs n) := by
  intro e st b st' h hi; cases h; exact hi

theorem Pres.noteOrder (a : Node) : Pres (noteOrder a) := by
  apply Pres.modify
  intro s; split <;> exact ⟨rfl, rfl, rfl⟩

theorem advance_inv {lexErr : Option (Nat × Nat)} {last : Token} {rest ws : List Token}
    {c : Token} {rest' ws' : List Token}
    (h : advance lexErr last rest ws = .ok (c, rest', ws')) (hn : NoEofTok rest) :
    NoEofTok rest' ∧ (c.tid = .eof → rest' = [] ∧ lexErr = none) := by
  induction rest generalizing last ws with
  | nil =>
    unfold advance at h
    split at h
    · simp at h
    · simp at h; obtain ⟨_, rfl, _⟩ := h
      exact ⟨hn, fun _ => ⟨rfl, rfl⟩⟩
  | cons t rest ih =>
    have hn' : NoEofTok rest := fun x hx => hn x (List.mem_cons_of_mem _ hx)
    have ht : t.tid ≠ .eof := hn t (List.mem_cons_self)
    unfold advance at h
    split at h
    · simp at h; obtain ⟨rfl, rfl, _⟩ := h
      exact ⟨hn', fun he => absurd he ht⟩
    · split at h
      · exact ih h hn'
      · simp at h; obtain ⟨rfl, rfl, _⟩ := h
        exact ⟨hn', fun he => absurd he ht⟩

theorem Pres.getsym : Pres getsym := by
  intro e st b st' h hi
  unfold MesonModel.Lang.getsym at h
  split at h
  · cases h
  · rename_i c rest ws hadv
    cases h
    obtain ⟨he, hn, _⟩ := hi
    have := advance_inv hadv hn
    exact ⟨he, this.1, fun ht => ⟨(this.2 ht).1, by rw [← he]; exact (this.2 ht).2⟩⟩

theorem Pres.accept (t : Tid) : Pres (accept t) := by
  intro e st b st' h hi
  unfold MesonModel.Lang.accept at h
  split at h
  · split at h
    · cases h
    · rename_i u s' hg
      cases h
      exact Pres.getsym _ _ _ _ hg hi
  · cases h; exact hi

theorem Pres.acceptAny (ts : List Tid) : Pres (acceptAny ts) := by
  intro e st b st' h hi
  unfold MesonModel.Lang.acceptAny at h
  split at h
  · split at h
    · cases h
    · rename_i u s' hg
      cases h
      exact Pres.getsym _ _ _ _ hg hi
  · cases h; exact hi

theorem Pres.ite {α} {c : Prop} [Decidable c] {t e : P α} (ht : Pres t) (he : Pres e) :
    Pres (if c then t else e) := by
  split <;> assumption

attribute [irreducible] Pres

/-- structural proof of `Pres` for a `do` block -/
macro "pres_step" : tactic => `(tactic| first
  | exact Pres.pure _ | exact Pres.fail _ | exact Pres.raiseAt _ | exact Pres.get | exact Pres.cur
  | exact Pres.prev | exact Pres.emptyAtCur | exact Pres.create _ | exact Pres.createSymbol _
  | exact Pres.flushWs _ | exact Pres.noteOrder _ | exact Pres.accept _ | exact Pres.acceptAny _
  | exact Pres.modify (fun _ => ⟨rfl, rfl, rfl⟩)
  | assumption
  | apply Pres.bind
  | apply Pres.ite
  | intro _
  | split)

macro "pres" : tactic => `(tactic| repeat' pres_step)

theorem Pres.expect (t : Tid) : Pres (expect t) := by unfold MesonModel.Lang.expect; pres
theorem Pres.blockExpect (t : Tid) : Pres (blockExpect t) := by unfold MesonModel.Lang.blockExpect; pres

theorem Pres.e10 : Pres e10 := by unfold MesonModel.Lang.e10; pres

theorem Pres.argsLoop {stmt : P Node} (hs : Pres stmt) (j : Nat) : ∀ a s, Pres (argsLoop stmt j a s) := by
  induction j with
  | zero => intro a s; unfold MesonModel.Lang.argsLoop; pres
  | succ j ih => intro a s; unfold MesonModel.Lang.argsLoop; have := ih; pres <;> exact ih _ _

theorem Pres.args {stmt : P Node} (hs : Pres stmt) (k : Nat) : Pres (args stmt k) := by
  unfold MesonModel.Lang.args; pres; exact Pres.argsLoop hs k _ _

theorem Pres.kvLoop {stmt : P Node} (hs : Pres stmt) (j : Nat) : ∀ a s, Pres (kvLoop stmt j a s) := by
  induction j with
  | zero => intro a s; unfold MesonModel.Lang.kvLoop; pres
  | succ j ih => intro a s; unfold MesonModel.Lang.kvLoop; pres <;> exact ih _ _

theorem Pres.keyValues {stmt : P Node} (hs : Pres stmt) (k : Nat) : Pres (keyValues stmt k) := by
  unfold MesonModel.Lang.keyValues; pres; exact Pres.kvLoop hs k _ _

theorem Pres.e9 {stmt : P Node} (hs : Pres stmt) (k : Nat) : Pres (e9 stmt k) := by
  have h1 := Pres.args hs k
  have h2 := Pres.keyValues hs k
  have h3 := Pres.e10
  have h4 := fun t => Pres.blockExpect t
  unfold MesonModel.Lang.e9; pres <;> first | exact h4 _ | exact Pres.pure _

theorem Pres.methodCall {stmt : P Node} (hs : Pres stmt) (k : Nat) (j : Nat) : ∀ src, Pres (methodCall stmt k j src) := by
  induction j with
  | zero => intro src; unfold MesonModel.Lang.methodCall; pres
  | succ j ih =>
    intro src
    have h1 := Pres.args hs k
    have h3 := Pres.e10
    unfold MesonModel.Lang.methodCall; pres <;> first | exact Pres.expect _ | exact ih _

theorem Pres.indexCall {stmt : P Node} (hs : Pres stmt) (src : Node) : Pres (indexCall stmt src) := by
  unfold MesonModel.Lang.indexCall; pres <;> exact Pres.expect _

theorem Pres.e8Loop {stmt : P Node} (hs : Pres stmt) (k : Nat) (j : Nat) : ∀ l, Pres (e8Loop stmt k j l) := by
  induction j with
  | zero => intro l; unfold MesonModel.Lang.e8Loop; pres
  | succ j ih =>
    intro l
    unfold MesonModel.Lang.e8Loop
    pres <;> first | exact Pres.methodCall hs k k _ | exact Pres.indexCall hs _ | exact ih _

theorem Pres.e8 {stmt : P Node} (hs : Pres stmt) (k : Nat) : Pres (e8 stmt k) := by
  have h1 := Pres.args hs k
  have h2 := Pres.e9 hs k
  unfold MesonModel.Lang.e8; pres <;> first | exact Pres.blockExpect _ | exact Pres.e8Loop hs k k _

theorem Pres.e7 {stmt : P Node} (hs : Pres stmt) (k : Nat) : Pres (e7 stmt k) := by
  have h1 := Pres.e8 hs k
  unfold MesonModel.Lang.e7; pres

theorem Pres.e6Loop {stmt : P Node} (hs : Pres stmt) (k : Nat) (j : Nat) : ∀ l, Pres (e6Loop stmt k j l) := by
  induction j with
  | zero => intro l; unfold MesonModel.Lang.e6Loop; pres
  | succ j ih =>
    intro l
    have h1 := Pres.e7 hs k
    unfold MesonModel.Lang.e6Loop; pres <;> exact ih _

theorem Pres.e6 {stmt : P Node} (hs : Pres stmt) (k : Nat) : Pres (e6 stmt k) := by
  have h1 := Pres.e7 hs k
  unfold MesonModel.Lang.e6; pres; exact Pres.e6Loop hs k k _

theorem Pres.e5Loop {stmt : P Node} (hs : Pres stmt) (k : Nat) (j : Nat) : ∀ l, Pres (e5Loop stmt k j l) := by
  induction j with
  | zero => intro l; unfold MesonModel.Lang.e5Loop; pres
  | succ j ih =>
    intro l
    have h1 := Pres.e6 hs k
    unfold MesonModel.Lang.e5Loop; pres <;> exact ih _

theorem Pres.e5 {stmt : P Node} (hs : Pres stmt) (k : Nat) : Pres (e5 stmt k) := by
  have h1 := Pres.e6 hs k
  unfold MesonModel.Lang.e5; pres; exact Pres.e5Loop hs k k _

theorem Pres.e4 {stmt : P Node} (hs : Pres stmt) (k : Nat) : Pres (e4 stmt k) := by
  have h1 := Pres.e5 hs k
  unfold MesonModel.Lang.e4; pres

theorem Pres.e3Loop {stmt : P Node} (hs : Pres stmt) (k : Nat) (j : Nat) : ∀ l, Pres (e3Loop stmt k j l) := by
  induction j with
  | zero => intro l; unfold MesonModel.Lang.e3Loop; pres
  | succ j ih =>
    intro l
    have h1 := Pres.e4 hs k
    unfold MesonModel.Lang.e3Loop; pres <;> exact ih _

theorem Pres.e3 {stmt : P Node} (hs : Pres stmt) (k : Nat) : Pres (e3 stmt k) := by
  have h1 := Pres.e4 hs k
  unfold MesonModel.Lang.e3; pres; exact Pres.e3Loop hs k k _

theorem Pres.e2Loop {stmt : P Node} (hs : Pres stmt) (k : Nat) (j : Nat) : ∀ l, Pres (e2Loop stmt k j l) := by
  induction j with
  | zero => intro l; unfold MesonModel.Lang.e2Loop; pres
  | succ j ih =>
    intro l
    have h1 := Pres.e3 hs k
    unfold MesonModel.Lang.e2Loop; pres <;> exact ih _

theorem Pres.e2 {stmt : P Node} (hs : Pres stmt) (k : Nat) : Pres (e2 stmt k) := by
  have h1 := Pres.e3 hs k
  unfold MesonModel.Lang.e2; pres; exact Pres.e2Loop hs k k _

theorem Pres.e1 {stmt : P Node} (hs : Pres stmt) (k : Nat) : Pres (e1 stmt k) := by
  have h1 := Pres.e2 hs k
  unfold MesonModel.Lang.e1; pres <;> exact Pres.expect _

theorem Pres.statement (fuel : Nat) : Pres (statement fuel) := by
  induction fuel with
  | zero => unfold MesonModel.Lang.statement; pres
  | succ m ih => unfold MesonModel.Lang.statement; exact Pres.e1 ih m

theorem Pres.foreachBlock {stmt cb : P Node} (hs : Pres stmt) (hcb : Pres cb) : Pres (foreachBlock stmt cb) := by
  unfold MesonModel.Lang.foreachBlock; pres <;> exact Pres.expect _

theorem Pres.elseifLoop {stmt cb : P Node} (hs : Pres stmt) (hcb : Pres cb) (j : Nat) :
    ∀ ifs, Pres (elseifLoop stmt cb j ifs) := by
  induction j with
  | zero => intro l; unfold MesonModel.Lang.elseifLoop; pres
  | succ j ih =>
    intro l
    unfold MesonModel.Lang.elseifLoop; pres <;> first | exact Pres.expect _ | exact ih _

theorem Pres.elseBlock {cb : P Node} (hcb : Pres cb) : Pres (elseBlock cb) := by
  unfold MesonModel.Lang.elseBlock; pres <;> exact Pres.expect _

theorem Pres.ifBlock {stmt cb : P Node} (hs : Pres stmt) (hcb : Pres cb) (k : Nat) : Pres (ifBlock stmt cb k) := by
  unfold MesonModel.Lang.ifBlock
  pres <;> first | exact Pres.expect _ | exact Pres.elseifLoop hs hcb k _ | exact Pres.elseBlock hcb

theorem Pres.line {stmt cb : P Node} (hs : Pres stmt) (hcb : Pres cb) (k : Nat) : Pres (line stmt cb k) := by
  unfold MesonModel.Lang.line
  pres <;> first | exact Pres.blockExpect _ | exact Pres.expect _ | exact Pres.ifBlock hs hcb k | exact Pres.foreachBlock hs hcb | exact Pres.elseifLoop hs hcb k _ | exact Pres.elseBlock hcb

theorem Pres.codeblockLoop {stmt cb : P Node} (hs : Pres stmt) (hcb : Pres cb) (k : Nat) (j : Nat) :
    ∀ b, Pres (codeblockLoop stmt cb k j b) := by
  induction j with
  | zero => intro b; unfold MesonModel.Lang.codeblockLoop; pres
  | succ j ih =>
    intro b
    unfold MesonModel.Lang.codeblockLoop
    pres <;> first | exact Pres.line hs hcb k | exact ih _ | exact Pres.blockExpect _ | exact Pres.expect _ | exact Pres.elseifLoop hs hcb k _ | exact Pres.elseBlock hcb

theorem Pres.codeblock (fuel : Nat) : Pres (codeblock fuel) := by
  induction fuel with
  | zero => unfold MesonModel.Lang.codeblock; pres
  | succ m ih =>
    unfold MesonModel.Lang.codeblock; pres
    exact Pres.codeblockLoop (Pres.statement m) ih m m _

end MesonModel.Lang
