/-
From the per-production invariants to `Parser(code).parse()`: the raw print of the tree is the printed
form of the whole token list, provided no lossy event happened.
-/
import MesonModel.Lang.RoundTrip
import MesonModel.Lang.StreamInv
import MesonModel.Lang.LexLemmas
import MesonModel.Lang.LexPrinted

namespace MesonModel.Lang

theorem getsym_establishes {st st' : PState} {u : Unit} (h : getsym st = .ok (u, st'))
    (hn : NoEofTok st.rest) : StreamInv st.lexErr st' := by
  unfold getsym at h
  split at h
  · cases h
  · rename_i c rest ws hadv
    cases h
    exact ⟨rfl, advance_inv hadv hn⟩

theorem pres_unfold {α} {f : P α} (h : Pres f) :
    ∀ e st a st', f st = .ok (a, st') → StreamInv e st → StreamInv e st' := by
  unfold Pres at h; exact h

theorem parseToks_roundtrip {names : List (Str × Nat)} {lr : LexResult} {fuel : Nat} {r : ParseOk}
    (h : parseToks names lr fuel = .ok r) (hl : r.lossy = 0) (hne : NoEofTok lr.toks) :
    emit r.tree = restText lr.toks := by
  unfold parseToks at h
  simp only at h
  split at h
  · cases h
  · rename_i u s1 hg
    split at h
    · cases h
    · rename_i block s2 hcb
      split at h
      · cases h
      · rename_i u2 s3 hex
        cases h
        simp only at hl
        have hi1 := getsym_establishes hg hne
        have hi2 := pres_unfold (Pres.codeblock fuel) _ _ _ _ hcb hi1
        have hacc := expect_spec hex
        have htid : s2.cur.tid = .eof ∧ s3.lossy = s2.lossy := by
          rcases accept_spec hacc with ⟨h', _⟩ | ⟨_, ht, _, _, hfl⟩
          · cases h'
          · exact ⟨ht, hfl.dropped⟩
        obtain ⟨d1, w2, t2⟩ := codeblock_emits fuel _ _ _ hcb (by omega)
        have hG1 := (getsym_spec hg).1
        have hrest : s2.rest = [] := (hi2.2.2 htid.1).1
        have hrem2 : rem s2 = [] := by simp [rem, htid.1, hrest, restText, printed]
        show emit block = _
        have : G s1 = restText lr.toks := by rw [hG1]; simp
        rw [← this, t2, hrem2]; simp

/-- a successful parse has seen the whole token stream, and the lexer raised nothing -/
theorem parseToks_lexErr {names : List (Str × Nat)} {lr : LexResult} {fuel : Nat} {r : ParseOk}
    (h : parseToks names lr fuel = .ok r) (hne : NoEofTok lr.toks) : lr.err = none := by
  unfold parseToks at h
  simp only at h
  split at h
  · cases h
  · rename_i u s1 hg
    split at h
    · cases h
    · rename_i block s2 hcb
      split at h
      · cases h
      · rename_i u2 s3 hex
        have hi1 := getsym_establishes hg hne
        have hi2 := pres_unfold (Pres.codeblock fuel) _ _ _ _ hcb hi1
        have htid : s2.cur.tid = .eof := by
          rcases accept_spec (expect_spec hex) with ⟨h', _⟩ | ⟨_, ht, _⟩
          · cases h'
          · exact ht
        exact (hi2.2.2 htid).2

theorem lex_partition (s : Str) : (lex s).texts ++ (lex s).rem = s := by
  unfold lex
  split
  · split
    · simp [LexResult.texts]
    · exact lexGo_partition _ _ _
  · exact lexGo_partition _ _ _

theorem lex_fuel (s : Str) : (lex s).fuelOut = false := by
  unfold lex
  split
  · split
    · rfl
    · exact lexGo_fuel _ _ _ (by omega)
  · exact lexGo_fuel _ _ _ (by simp)

theorem lex_complete (s : Str) (h : (lex s).err = none) : (lex s).texts = s := by
  have hp := lex_partition s
  have hr : (lex s).rem = [] := by
    have hf := lex_fuel s
    unfold lex at h hf ⊢
    split at h
    · split at h
      · simp at h
      · rename_i c cs hb
        simp only [hb] at hf ⊢
        exact lexGo_rem _ _ _ (by simpa [hb] using hf) h
    · exact lexGo_rem _ _ _ hf h
  rw [hr] at hp; simpa using hp

/-- the round trip for the whole pipeline `Parser(code).parse()` then `RawPrinter` -/
theorem parse_roundtrip {s : Str} {names : List (Str × Nat)} {r : ParseOk}
    (h : parseWith names s = .ok r) (hl : r.lossy = 0) : emit r.tree = s := by
  unfold parseWith at h
  simp only at h
  have hp := lex_printed s
  have hne : NoEofTok (lex s).toks := fun t ht => (hp t ht).1
  rw [parseToks_roundtrip h hl hne, restText_eq_texts (fun t ht => (hp t ht).2)]
  exact lex_complete s (parseToks_lexErr h hne)

end MesonModel.Lang
