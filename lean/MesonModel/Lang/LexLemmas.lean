/-
Lemmas about the lexer model: every step consumes a non-empty prefix of the input which is the token's
text; the texts of the tokens followed by the unconsumed remainder are the input; the fuel suffices.
-/
import MesonModel.Lang.Lexer

namespace MesonModel.Lang

theorem lexStep_text {s : Str} {st : LexSt} {t : Token} {st' : LexSt} {n : Nat}
    (h : lexStep s st = .tok t st' n) : t.text = s.take n := by
  unfold lexStep at h
  dsimp only at h
  repeat' split at h
  all_goals (first
    | (simp at h; done)
    | (simp at h; obtain ⟨rfl, _, rfl⟩ := h; simp))

private theorem numHelper (k : Nat) {n : Nat}
    (h : (if k = 0 then some 1 else some (2 + k)) = some n) : 1 ≤ n := by
  split at h <;> (have := Option.some.inj h; omega)

theorem matchSpec_pos {t : Tid} {s : Str} {n : Nat} (h : matchSpec t s = some n) : 1 ≤ n := by
  cases t <;> simp only [matchSpec] at h <;> try (simp at h; done)
  · -- whitespace
    simp only [mWhitespace] at h; split at h <;> simp at h; omega
  · unfold mMultilineF at h; split at h
    · split at h
      · simp [Option.map_eq_some_iff] at h; obtain ⟨a, _, rfl⟩ := h; omega
      · simp at h
    · simp at h
  · unfold mFstring at h; split at h
    · split at h
      · simp [Option.map_eq_some_iff] at h; obtain ⟨a, _, rfl⟩ := h; omega
      · simp at h
    · simp at h
  · unfold mId at h; split at h
    · split at h <;> simp at h; omega
    · simp at h
  · unfold mNumber at h; split at h
    · dsimp only at h
      exact numHelper _ h
    · split at h
      · simp at h; omega
      · split at h <;> simp at h; omega
    · simp at h
  · unfold mEolCont at h; dsimp only at h; repeat' split at h
    all_goals (simp at h; try omega)
  · unfold mMultiline at h; split at h
    · simp [Option.map_eq_some_iff] at h; obtain ⟨a, _, rfl⟩ := h; omega
    · simp at h
  · unfold mComment at h; split at h
    · split at h <;> simp at h; omega
    · simp at h
  · unfold mString at h; split at h
    · split at h
      · simp [Option.map_eq_some_iff] at h; obtain ⟨a, _, rfl⟩ := h; omega
      · simp at h
    · simp at h
  all_goals (unfold mLit2 at h; split at h <;> (try split at h) <;> simp at h <;> omega)

theorem firstMatch_spec {ts : List Tid} {s : Str} {t : Tid} {n : Nat}
    (h : firstMatch ts s = some (t, n)) : matchSpec t s = some n := by
  induction ts with
  | nil => simp [firstMatch] at h
  | cons a as ih =>
    unfold firstMatch at h
    split at h
    · simp at h; obtain ⟨rfl, rfl⟩ := h; assumption
    · exact ih h

theorem lexStep_pos {s : Str} {st : LexSt} {t : Token} {st' : LexSt} {n : Nat}
    (h : lexStep s st = .tok t st' n) : 1 ≤ n := by
  unfold lexStep at h
  dsimp only at h
  split at h
  · rename_i tid m hm
    have := matchSpec_pos (firstMatch_spec hm)
    repeat' split at h
    all_goals (simp at h; obtain ⟨_, _, rfl⟩ := h; assumption)
  · repeat' split at h
    all_goals (first
      | (simp at h; done)
      | (simp at h; obtain ⟨_, _, rfl⟩ := h; omega))

def LexResult.texts (r : LexResult) : Str := (r.toks.map (·.text)).flatten

/-- token texts followed by the untokenised remainder are the input, for any fuel -/
theorem lexGo_partition (fuel : Nat) (s : Str) (st : LexSt) :
    (lexGo fuel s st).texts ++ (lexGo fuel s st).rem = s := by
  induction fuel generalizing s st with
  | zero => simp [lexGo, LexResult.texts]
  | succ k ih =>
    cases s with
    | nil => simp [lexGo, LexResult.texts]
    | cons c cs =>
      simp only [lexGo]
      cases hstep : lexStep (c :: cs) st with
      | err l col => simp [LexResult.texts]
      | tok t st' n =>
        have ht := lexStep_text hstep
        have := ih (List.drop n (c :: cs)) st'
        simp only [LexResult.texts, List.map_cons, List.flatten_cons, List.append_assoc] at this ⊢
        rw [this, ht, List.take_append_drop]

/-- with fuel above the input length the lexer never runs out of fuel -/
theorem lexGo_fuel (fuel : Nat) (s : Str) (st : LexSt) (h : s.length < fuel) :
    (lexGo fuel s st).fuelOut = false := by
  induction fuel generalizing s st with
  | zero => omega
  | succ k ih =>
    cases s with
    | nil => simp [lexGo]
    | cons c cs =>
      simp only [lexGo]
      cases hstep : lexStep (c :: cs) st with
      | err l col => simp
      | tok t st' n =>
        have hp := lexStep_pos hstep
        have : (List.drop n (c :: cs)).length < k := by
          simp only [List.length_drop]; simp only [List.length_cons] at h ⊢; omega
        simpa using ih _ st' this

/-- without an error the whole input is tokenised -/
theorem lexGo_rem (fuel : Nat) (s : Str) (st : LexSt)
    (hf : (lexGo fuel s st).fuelOut = false) (he : (lexGo fuel s st).err = none) :
    (lexGo fuel s st).rem = [] := by
  induction fuel generalizing s st with
  | zero => simp [lexGo] at hf
  | succ k ih =>
    cases s with
    | nil => simp [lexGo]
    | cons c cs =>
      simp only [lexGo] at hf he ⊢
      cases hstep : lexStep (c :: cs) st with
      | err l col => rw [hstep] at he; simp at he
      | tok t st' n =>
        rw [hstep] at hf he
        simp only at hf he ⊢
        exact ih _ st' hf he

/-! ### position of a lexer error -/

theorem lexStep_state {s : Str} {st : LexSt} {t : Token} {st' : LexSt} {n : Nat}
    (h : lexStep s st = .tok t st' n) : st'.loc = st.loc + n ∧ st.lineno ≤ st'.lineno := by
  unfold lexStep at h
  dsimp only at h
  repeat' split at h
  all_goals (first
    | (simp at h; done)
    | (simp at h; obtain ⟨_, rfl, rfl⟩ := h; simp))

theorem lexStep_err {s : Str} {st : LexSt} {l c : Nat} (h : lexStep s st = .err l c) :
    l = st.lineno ∧ c ≤ st.loc := by
  unfold lexStep at h
  dsimp only at h
  repeat' split at h
  all_goals (first
    | (simp at h; done)
    | (simp at h; obtain ⟨rfl, rfl⟩ := h; exact ⟨rfl, Nat.sub_le _ _⟩))

theorem lexGo_err_pos (fuel : Nat) (s : Str) (st : LexSt) {l c : Nat}
    (h : (lexGo fuel s st).err = some (l, c)) : st.lineno ≤ l ∧ c ≤ st.loc + s.length := by
  induction fuel generalizing s st with
  | zero => simp [lexGo] at h
  | succ k ih =>
    cases s with
    | nil => simp [lexGo] at h
    | cons a as =>
      simp only [lexGo] at h
      cases hstep : lexStep (a :: as) st with
      | err l' c' =>
        rw [hstep] at h; simp at h; obtain ⟨rfl, rfl⟩ := h
        obtain ⟨h1, h2⟩ := lexStep_err hstep
        exact ⟨by omega, by omega⟩
      | tok t st' n =>
        rw [hstep] at h; simp only at h
        obtain ⟨hl, hn⟩ := lexStep_state hstep
        cases hd : List.drop n (a :: as) with
        | nil =>
          rw [hd] at h
          cases k <;> simp [lexGo] at h
        | cons b bs =>
          have hlen : n < (a :: as).length := by
            apply Nat.lt_of_not_le
            intro hge
            have : List.drop n (a :: as) = [] := List.drop_eq_nil_of_le hge
            rw [this] at hd; cases hd
          obtain ⟨h1, h2⟩ := ih _ st' h
          refine ⟨by omega, ?_⟩
          rw [List.length_drop] at h2
          omega

end MesonModel.Lang
