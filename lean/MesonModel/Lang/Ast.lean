/-
Node classes of `mesonbuild/mparser.py` (lines 236-675) as one inductive type, with the position fields
the constructors compute, the attached whitespace tokens (`whitespaces`), the symbol children, and
`RawPrinter` (`ast/printer.py` 269-312 over `FullAstVisitor`, `ast/visitor.py` 155-331) as `emit`.
-/
import MesonModel.Lang.Lexer

namespace MesonModel.Lang

/-- `BaseNode` fields. `ws` are the tokens passed to `append_whitespaces` in order; the Python
`whitespaces` attribute is `None` when the list is empty, else a `WhitespaceNode` positioned at the first
token whose `value` is the concatenation. `spanS/spanE` is `ElementaryNode.bytespan` (0 otherwise). -/
structure Base where
  lineno : Nat
  colno : Nat
  endLineno : Nat
  endColno : Nat
  spanS : Nat := 0
  spanE : Nat := 0
  ws : List Token := []
  deriving Repr, DecidableEq, Inhabited

/-- `BaseNode.__init__(lineno, colno, filename)` with default end = start -/
def Base.at (l c : Nat) : Base := { lineno := l, colno := c, endLineno := l, endColno := c }

def Base.ofTok (t : Token) : Base :=
  { lineno := t.lineno, colno := t.colno, endLineno := t.lineno, endColno := t.colno,
    spanS := t.spanStart, spanE := t.spanEnd }

inductive BinKind where
  | or | and
  | cmp (ctype : Str)
  | arith (op : Str)
  deriving Repr, DecidableEq

inductive UnKind where
  | not | uminus
  deriving Repr, DecidableEq

inductive Node where
  | boolean (b : Base) (v : Bool)
  | id (b : Base) (v : Str)
  | number (b : Base) (raw : Str) (v : Nat)
  | string (b : Base) (raw : Str) (v : Str) (multi : Bool) (f : Bool)
  | continue_ (b : Base)
  | break_ (b : Base)
  | symbol (b : Base) (v : Str)
  | empty (b : Base)
  /-- `ArgumentNode`: `kwargs` is the insertion-ordered dict as parallel key/value lists -/
  | args (b : Base) (pos commas colons keys vals : List Node) (orderError : Bool)
  | array (b : Base) (l a r : Node)
  | dict (b : Base) (l a r : Node)
  | binop (k : BinKind) (b : Base) (l op r : Node)
  | unop (k : UnKind) (b : Base) (op v : Node)
  | codeblock (b : Base) (pre : List Token) (lines : List Node)
  | index (b : Base) (obj lb idx rb : Node)
  | method (b : Base) (obj dot name lpar args rpar : Node)
  | function (b : Base) (name lpar args rpar : Node)
  | assign (plus : Bool) (b : Base) (name op value : Node)
  | foreach (b : Base) (kw : Node) (vars commas : List Node) (colon items block endkw : Node)
  | ifnode (b : Base) (kw cond block : Node)
  | elsenode (b : Base) (kw block : Node)
  | ifclause (b : Base) (ifs : List Node) (elseb endif : Node)
  | ternary (b : Base) (c q t col f : Node)
  | paren (b : Base) (l inner r : Node)
  deriving Repr, Inhabited

namespace Node

def base : Node → Base
  | boolean b _ | id b _ | number b _ _ | string b _ _ _ _ | continue_ b | break_ b | symbol b _
  | empty b | args b _ _ _ _ _ _ | array b _ _ _ | dict b _ _ _ | binop _ b _ _ _ | unop _ b _ _
  | codeblock b _ _ | index b _ _ _ _ | method b _ _ _ _ _ _ | function b _ _ _ _ | assign _ b _ _ _
  | foreach b _ _ _ _ _ _ _ | ifnode b _ _ _ | elsenode b _ _ | ifclause b _ _ _
  | ternary b _ _ _ _ _ | paren b _ _ _ => b

def lineno (n : Node) : Nat := n.base.lineno
def colno (n : Node) : Nat := n.base.colno

def mapBase (g : Base → Base) : Node → Node
  | boolean b v => boolean (g b) v
  | id b v => id (g b) v
  | number b r v => number (g b) r v
  | string b r v m f => string (g b) r v m f
  | continue_ b => continue_ (g b)
  | break_ b => break_ (g b)
  | symbol b v => symbol (g b) v
  | empty b => empty (g b)
  | args b p c cl k v o => args (g b) p c cl k v o
  | array b l a r => array (g b) l a r
  | dict b l a r => dict (g b) l a r
  | binop k b l o r => binop k (g b) l o r
  | unop k b o v => unop k (g b) o v
  | codeblock b p ls => codeblock (g b) p ls
  | index b o l i r => index (g b) o l i r
  | method b o d n l a r => method (g b) o d n l a r
  | function b n l a r => function (g b) n l a r
  | assign p b n o v => assign p (g b) n o v
  | foreach b k vs cs c i bl e => foreach (g b) k vs cs c i bl e
  | ifnode b k c bl => ifnode (g b) k c bl
  | elsenode b k bl => elsenode (g b) k bl
  | ifclause b is e en => ifclause (g b) is e en
  | ternary b c q t cl f => ternary (g b) c q t cl f
  | paren b l i r => paren (g b) l i r

/-- `BaseNode.append_whitespaces` for each token of `toks` -/
def addWsBase (toks : List Token) (n : Node) : Node :=
  n.mapBase (fun b => { b with ws := b.ws ++ toks })

def modifyLast {α} (g : α → α) : List α → List α
  | [] => []
  | [a] => [g a]
  | a :: as => a :: modifyLast g as

/-- `append_whitespaces` for each token of `toks`, including the `CodeBlockNode` override (the last line
receives them, else `pre_whitespaces`). Lines of a code block are never code blocks themselves. -/
def addWs (toks : List Token) : Node → Node
  | codeblock b pre lines =>
    if lines.isEmpty then codeblock b (pre ++ toks) lines
    else codeblock b pre (modifyLast (addWsBase toks) lines)
  | n => addWsBase toks n

def isEmpty : Node → Bool
  | empty _ => true
  | _ => false

def isId : Node → Bool
  | id _ _ => true
  | _ => false

def isNumber : Node → Bool
  | number _ _ _ => true
  | _ => false

end Node

def wsText (ws : List Token) : Str := (ws.map (·.value)).flatten

/-! ### RawPrinter -/

/-- `visit_ArgumentNode`, positional part: each argument followed by the next comma, if any is left.
Returns the text and the commas not yet used. -/
def interleavePos : List Str → List Str → Str × List Str
  | [], cs => ([], cs)
  | a :: as, [] => let (t, r) := interleavePos as []; (a ++ t, r)
  | a :: as, c :: cs => let (t, r) := interleavePos as cs; (a ++ c ++ t, r)

/-- keyword part: `zip(kwargs.items(), colons)`, each followed by the next comma, if any is left -/
def interleaveKw : List Str → List Str → List Str → List Str → Str
  | k :: ks, cl :: cls, v :: vs, [] => k ++ cl ++ v ++ interleaveKw ks cls vs []
  | k :: ks, cl :: cls, v :: vs, c :: cs => k ++ cl ++ v ++ c ++ interleaveKw ks cls vs cs
  | _, _, _, _ => []

/-- `zip_longest(varnames, commas)` of `visit_ForeachClauseNode` (never more commas than names) -/
def interleaveVars : List Str → List Str → Str
  | [], _ => []
  | v :: vs, [] => v ++ interleaveVars vs []
  | v :: vs, c :: cs => v ++ c ++ interleaveVars vs cs

mutual
/-- `node.accept(RawPrinter())`; result text -/
def emit : Node → Str
  | .boolean b v => (if v then "true".toList else "false".toList) ++ wsText b.ws
  | .id b v => v ++ wsText b.ws
  | .number b raw _ => raw ++ wsText b.ws
  | .string b raw v multi f =>
    (if f then ['f'] else []) ++
    (if multi then "'''".toList ++ v ++ "'''".toList else ['\''] ++ raw ++ ['\'']) ++ wsText b.ws
  | .continue_ b => "continue".toList ++ wsText b.ws
  | .break_ b => "break".toList ++ wsText b.ws
  | .symbol b v => v ++ wsText b.ws
  | .empty b => wsText b.ws
  | .args b pos commas colons keys vals _ =>
    let (t, rest) := interleavePos (emitL pos) (emitL commas)
    t ++ interleaveKw (emitL keys) (emitL colons) (emitL vals) rest ++ wsText b.ws
  | .array b l a r => emit l ++ emit a ++ emit r ++ wsText b.ws
  | .dict b l a r => emit l ++ emit a ++ emit r ++ wsText b.ws
  | .binop _ b l op r => emit l ++ emit op ++ emit r ++ wsText b.ws
  | .unop _ b op v => emit op ++ emit v ++ wsText b.ws
  | .codeblock b pre lines => wsText pre ++ (emitL lines).flatten ++ wsText b.ws
  | .index b obj lb idx rb => emit obj ++ emit lb ++ emit idx ++ emit rb ++ wsText b.ws
  | .method b obj dot name lpar a rpar =>
    emit obj ++ emit dot ++ emit name ++ emit lpar ++ emit a ++ emit rpar ++ wsText b.ws
  | .function b name lpar a rpar => emit name ++ emit lpar ++ emit a ++ emit rpar ++ wsText b.ws
  | .assign _ b name op value => emit name ++ emit op ++ emit value ++ wsText b.ws
  | .foreach b kw vars commas colon items block endkw =>
    emit kw ++ interleaveVars (emitL vars) (emitL commas) ++ emit colon ++ emit items ++ emit block ++
      emit endkw ++ wsText b.ws
  | .ifnode b kw cond block => emit kw ++ emit cond ++ emit block ++ wsText b.ws
  | .elsenode b kw block => emit kw ++ emit block ++ wsText b.ws
  | .ifclause b ifs elseb endif => (emitL ifs).flatten ++ emit elseb ++ emit endif ++ wsText b.ws
  | .ternary b c q t col f => emit c ++ emit q ++ emit t ++ emit col ++ emit f ++ wsText b.ws
  | .paren b l inner r => emit l ++ emit inner ++ emit r ++ wsText b.ws
def emitL : List Node → List Str
  | [] => []
  | n :: ns => emit n :: emitL ns
end

end MesonModel.Lang
