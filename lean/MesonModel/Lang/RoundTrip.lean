/-
`raw_roundtrip`, production by production (DESIGN §4 C02): every production `f` satisfies `Emits f`.
-/
import MesonModel.Lang.ArgsLemmas

namespace MesonModel.Lang

/-- the ghost-output-stream invariant of a production -/
def Emits (f : P Node) : Prop :=
  ∀ st n st', f st = .ok (n, st') → st'.lossy = 0 →
    st.lossy = 0 ∧ (n.isEmpty = true → emit n = []) ∧
    (st.ws = [] → st'.ws = [] ∧ rem st = emit n ++ rem st')

theorem create_spec {n n' : Node} {st st' : PState} (h : create n st = .ok (n', st')) :
    n' = n.addWs st.ws ∧ st'.ws = [] ∧ rem st' = rem st ∧ st'.lossy = st.lossy := by
  simp [create] at h; obtain ⟨rfl, rfl⟩ := h
  exact ⟨rfl, rfl, rfl, rfl⟩

theorem isEmpty_addWs (n : Node) (ws : List Token) : (n.addWs ws).isEmpty = n.isEmpty := by
  cases n
  case codeblock b pre lines => simp only [Node.addWs]; split <;> rfl
  all_goals rfl

/-- `accept t` succeeded and the next action is a `create`: the token and its trailing trivia leave the stream -/
theorem accept_create {t : Tid} {st s1 s2 : PState} {nd n : Node}
    (ha : accept t st = .ok (true, s1)) (hc : create nd s1 = .ok (n, s2))
    (hne : t ≠ .eol) (hbc : nd.blockClean) :
    s2.lossy = st.lossy ∧ st.cur.tid = t ∧ s1.prev = st.cur ∧
      emit n = emit nd ++ wsText s1.ws ∧ s2.ws = [] ∧ n.isEmpty = nd.isEmpty ∧
      (st.ws = [] → rem st = printed st.cur ++ (wsText s1.ws ++ rem s2)) := by
  rcases accept_spec ha with ⟨h, _⟩ | ⟨_, htid, hG, hprev, hfl⟩
  · cases h
  · obtain ⟨rfl, hws2, hrem, hd⟩ := create_spec hc
    refine ⟨by rw [hd, hfl.dropped], htid, hprev, emit_addWs _ _ hbc, hws2, isEmpty_addWs _ _, fun hws => ?_⟩
    have := G_consume hws (by rw [htid]; exact hne) hG
    rw [this, G, hrem]

theorem acceptAny_create {ts : List Tid} {st s1 s2 : PState} {nd n : Node} {tid : Tid}
    (ha : acceptAny ts st = .ok (some tid, s1)) (hc : create nd s1 = .ok (n, s2))
    (hne : Tid.eol ∉ ts) (hbc : nd.blockClean) :
    s2.lossy = st.lossy ∧ st.cur.tid = tid ∧ tid ∈ ts ∧ s1.prev = st.cur ∧
      emit n = emit nd ++ wsText s1.ws ∧ s2.ws = [] ∧ n.isEmpty = nd.isEmpty ∧
      (st.ws = [] → rem st = printed st.cur ++ (wsText s1.ws ++ rem s2)) := by
  rcases acceptAny_spec ha with ⟨h, _⟩ | ⟨htid, hmem, hG, hprev, hfl⟩
  · cases h
  · obtain ⟨rfl, hws2, hrem, hd⟩ := create_spec hc
    have htid' : st.cur.tid = tid := by simpa using htid.symm
    refine ⟨by rw [hd, hfl.dropped], htid', htid' ▸ hmem, hprev, emit_addWs _ _ hbc, hws2, isEmpty_addWs _ _,
      fun hws => ?_⟩
    have := G_consume hws (by intro h; rw [h] at hmem; exact hne hmem) hG
    rw [this, G, hrem]

theorem accept_false {t : Tid} {st s1 : PState} (ha : accept t st = .ok (false, s1)) : s1 = st := by
  rcases accept_spec ha with ⟨_, h, _⟩ | ⟨h, _⟩
  · exact h
  · cases h

theorem acceptAny_none {ts : List Tid} {st s1 : PState} (ha : acceptAny ts st = .ok (none, s1)) : s1 = st := by
  rcases acceptAny_spec ha with ⟨_, h⟩ | ⟨h, _⟩
  · exact h
  · cases h

theorem stringTids_eq : stringTids = [.fstring, .multilineFstring, .multilineString, .string] := by decide

/-- closing tactic for a leaf: the node built from the accepted token prints as the token -/
macro "leaf_close" h1:ident h2:ident h4:ident h5:ident h6:ident h7:ident : tactic => `(tactic|
  (refine ⟨by omega, ?_, fun hws => ⟨$h5, ?_⟩⟩
   · rw [$h6:ident]; simp [Node.isEmpty]
   · rw [$h7:ident hws, $h4:ident]
     try simp only [show (Tid.fstring == Tid.fstring || Tid.fstring == Tid.multilineFstring) = true from rfl,
       show (Tid.multilineFstring == Tid.fstring || Tid.multilineFstring == Tid.multilineFstring) = true from rfl,
       show (Tid.multilineString == Tid.fstring || Tid.multilineString == Tid.multilineFstring) = false from rfl,
       show (Tid.string == Tid.fstring || Tid.string == Tid.multilineFstring) = false from rfl]
     simp [printed, $h2:ident, emit_boolean, emit_id, emit_number, emit_string, emit_symbol, Base.ofTok,
       List.append_assoc]))

theorem e10_emits : Emits e10 := by
  intro st n st' h hd
  simp only [e10, bind_ok, cur_ok] at h
  obtain ⟨t, s0, ⟨rfl, rfl⟩, b1, s1, ha1, h⟩ := h
  cases b1
  case true =>
    simp only [if_true] at h
    obtain ⟨h1, h2, h3, h4, h5, h6, h7⟩ := accept_create ha1 h (by decide) trivial
    leaf_close h1 h2 h4 h5 h6 h7
  case false =>
    cases accept_false ha1
    simp only [Bool.false_eq_true, if_false, bind_ok] at h
    obtain ⟨b2, s2, ha2, h⟩ := h
    cases b2
    case true =>
      simp only [if_true] at h
      obtain ⟨h1, h2, h3, h4, h5, h6, h7⟩ := accept_create ha2 h (by decide) trivial
      leaf_close h1 h2 h4 h5 h6 h7
    case false =>
      cases accept_false ha2
      simp only [Bool.false_eq_true, if_false, bind_ok] at h
      obtain ⟨b3, s3, ha3, h⟩ := h
      cases b3
      case true =>
        simp only [if_true] at h
        obtain ⟨h1, h2, h3, h4, h5, h6, h7⟩ := accept_create ha3 h (by decide) trivial
        leaf_close h1 h2 h4 h5 h6 h7
      case false =>
        cases accept_false ha3
        simp only [Bool.false_eq_true, if_false, bind_ok] at h
        obtain ⟨b4, s4, ha4, h⟩ := h
        cases b4
        case true =>
          simp only [if_true] at h
          obtain ⟨h1, h2, h3, h4, h5, h6, h7⟩ := accept_create ha4 h (by decide) trivial
          leaf_close h1 h2 h4 h5 h6 h7
        case false =>
          cases accept_false ha4
          simp only [Bool.false_eq_true, if_false, bind_ok] at h
          obtain ⟨o, s5, ha5, h⟩ := h
          cases o
          case none =>
            cases acceptAny_none ha5
            simp only [emptyAtCur] at h
            cases h
            refine ⟨hd, fun _ => by simp [emit_empty, Base.at], fun hws => ⟨hws, by simp [emit_empty, Base.at]⟩⟩
          case some tid =>
            simp only at h
            have hmem : tid ∈ stringTids := by
              rcases acceptAny_spec ha5 with ⟨h', _⟩ | ⟨h', hm, _⟩
              · cases h'
              · cases h'; exact hm
            rw [stringTids_eq] at hmem
            simp only [List.mem_cons, List.mem_nil_iff, or_false] at hmem
            rcases hmem with rfl | rfl | rfl | rfl
            · -- fstring
              simp only [show (Tid.fstring == Tid.multilineString || Tid.fstring == Tid.multilineFstring) = false from rfl,
                Bool.false_eq_true, if_false, bind_ok, get_ok] at h
              obtain ⟨_, _, ⟨rfl, rfl⟩, h⟩ := h
              cases hesc : escape s5.names st.cur.value <;> rw [hesc] at h <;> simp only at h
              · simp [fail_ok] at h
              · obtain ⟨h1, h2, _, h3, h4, h5, h6, h7⟩ := acceptAny_create ha5 h (by decide) trivial
                leaf_close h1 h2 h4 h5 h6 h7
            · simp only [show (Tid.multilineFstring == Tid.multilineString || Tid.multilineFstring == Tid.multilineFstring) = true from rfl,
                if_true] at h
              obtain ⟨h1, h2, _, h3, h4, h5, h6, h7⟩ := acceptAny_create ha5 h (by decide) trivial
              leaf_close h1 h2 h4 h5 h6 h7
            · simp only [show (Tid.multilineString == Tid.multilineString || Tid.multilineString == Tid.multilineFstring) = true from rfl,
                if_true] at h
              obtain ⟨h1, h2, _, h3, h4, h5, h6, h7⟩ := acceptAny_create ha5 h (by decide) trivial
              leaf_close h1 h2 h4 h5 h6 h7
            · simp only [show (Tid.string == Tid.multilineString || Tid.string == Tid.multilineFstring) = false from rfl,
                Bool.false_eq_true, if_false, bind_ok, get_ok] at h
              obtain ⟨_, _, ⟨rfl, rfl⟩, h⟩ := h
              cases hesc : escape s5.names st.cur.value <;> rw [hesc] at h <;> simp only at h
              · simp [fail_ok] at h
              · obtain ⟨h1, h2, _, h3, h4, h5, h6, h7⟩ := acceptAny_create ha5 h (by decide) trivial
                leaf_close h1 h2 h4 h5 h6 h7

/-! ### symbols -/

/-- token ids whose node prints the token's `value` verbatim -/
def plainTid (x : Tid) : Bool :=
  !(x == .string || x == .fstring || x == .multilineString || x == .multilineFstring || x == .kTrue ||
    x == .kFalse || x == .kContinue || x == .kBreak || x == .eof || x == .eol)

theorem printed_plain {t : Token} (h : plainTid t.tid = true) : printed t = t.value := by
  unfold printed
  split <;> simp_all [plainTid]

theorem emit_symbolOf (t : Token) : emit (symbolOf t) = t.value := by
  simp [symbolOf, emit_symbol, Base.ofTok]

/-- `if self.accept(t): sym = self.create_node(SymbolNode, self.previous)` -/
theorem sym_after_accept {t : Tid} {st s1 s2 : PState} {o : Node}
    (ha : accept t st = .ok (true, s1)) (hc : createSymbol s1.prev s1 = .ok (o, s2))
    (hp : plainTid t = true) :
    s2.lossy = st.lossy ∧ s2.ws = [] ∧ (st.ws = [] → rem st = emit o ++ rem s2) := by
  have hne : t ≠ .eol := by intro h; subst h; simp [plainTid] at hp
  obtain ⟨h1, h2, h3, h4, h5, _, h7⟩ := accept_create ha hc hne trivial
  refine ⟨h1, h5, fun hws => ?_⟩
  rw [h7 hws, h4, h3, emit_symbolOf, printed_plain (by rw [h2]; exact hp)]
  simp [List.append_assoc]

theorem sym_after_acceptAny {ts : List Tid} {tid : Tid} {st s1 s2 : PState} {o : Node}
    (ha : acceptAny ts st = .ok (some tid, s1)) (hc : createSymbol s1.prev s1 = .ok (o, s2))
    (hp : ∀ x ∈ ts, plainTid x = true) :
    s2.lossy = st.lossy ∧ s2.ws = [] ∧ (st.ws = [] → rem st = emit o ++ rem s2) := by
  have hne : Tid.eol ∉ ts := by intro h; have := hp _ h; simp [plainTid] at this
  obtain ⟨h1, h2, hm, h3, h4, h5, _, h7⟩ := acceptAny_create ha hc hne trivial
  refine ⟨h1, h5, fun hws => ?_⟩
  rw [h7 hws, h4, h3, emit_symbolOf, printed_plain (by rw [h2]; exact hp _ hm)]
  simp [List.append_assoc]

/-- invariant of a `while self.accept(op): left = create_node(BinOp, left, op, operand())` loop -/
def LoopEmits (f : Node → P Node) : Prop :=
  ∀ left st n st', f left st = .ok (n, st') → st'.lossy = 0 →
    st.lossy = 0 ∧ (n.isEmpty = true → n = left) ∧
    (st.ws = [] → st'.ws = [] ∧ ∃ X, emit n = emit left ++ X ∧ rem st = X ++ rem st')

theorem emits_of_loop {first : P Node} {loop : Node → P Node} (h1 : Emits first) (h2 : LoopEmits loop) :
    Emits (do let left ← first; loop left) := by
  intro st n st' h hd
  simp only [bind_ok] at h
  obtain ⟨left, s1, hf, hl⟩ := h
  obtain ⟨d1, e1, t1⟩ := h2 _ _ _ _ hl hd
  obtain ⟨d0, e0, t0⟩ := h1 _ _ _ hf d1
  refine ⟨d0, fun hn => ?_, fun hws => ?_⟩
  · have := e1 hn; subst this; exact e0 hn
  · obtain ⟨w1, r1⟩ := t0 hws
    obtain ⟨w2, X, hX, r2⟩ := t1 w1
    exact ⟨w2, by rw [r1, r2, hX]; simp [List.append_assoc]⟩

theorem muldiv_plain : ∀ x ∈ muldivTids, plainTid x = true := by decide
theorem addsub_plain : ∀ x ∈ addsubTids, plainTid x = true := by decide
theorem comparison_plain : ∀ x ∈ comparisonTids, plainTid x = true := by decide

theorem e6Loop_emits {stmt : P Node} {k : Nat} (h7 : Emits (e7 stmt k)) (j : Nat) :
    LoopEmits (e6Loop stmt k j) := by
  induction j with
  | zero => intro left st n st' h; simp [e6Loop, fail_ok] at h
  | succ j ih =>
    intro left st n st' h hd
    simp only [e6Loop, bind_ok] at h
    obtain ⟨o, s1, ha, h⟩ := h
    cases o
    case none =>
      cases acceptAny_none ha
      simp only [pure_ok] at h
      cases h
      exact ⟨hd, fun _ => rfl, fun hws => ⟨hws, [], by simp, by simp⟩⟩
    case some op =>
      simp only [bind_ok, prev_ok] at h
      obtain ⟨tk, s2, hpv, sym, s3, hsym, r, s4, hr, nd, s5, hcr, hloop⟩ := h
      cases hpv
      obtain ⟨dl, el, tl⟩ := ih _ _ _ _ hloop hd
      obtain ⟨rfl, hw5, hrem5, hd5⟩ := create_spec hcr
      obtain ⟨dr, er, tr⟩ := h7 _ _ _ hr (by omega)
      obtain ⟨ds, ws3, ts⟩ := sym_after_acceptAny ha hsym muldiv_plain
      refine ⟨by omega, fun hn => ?_, fun hws => ?_⟩
      · have := el hn; subst this; simp [Node.addWs, Node.addWsBase, Node.mapBase, Node.isEmpty] at hn
      · obtain ⟨w4, r4⟩ := tr ws3
        obtain ⟨w6, X, hX, r6⟩ := tl hw5
        refine ⟨w6, emit sym ++ emit r ++ X, ?_, ?_⟩
        · rw [hX, emit_addWs (.binop _ _ _ _ _) _ trivial, w4]; simp [emit_binop, Base.at, List.append_assoc]
        · rw [ts hws, r4, ← hrem5, r6]; simp [List.append_assoc]

theorem e6_emits {stmt : P Node} {k : Nat} (h7 : Emits (e7 stmt k)) : Emits (e6 stmt k) :=
  emits_of_loop h7 (e6Loop_emits h7 k)

theorem e5Loop_emits {stmt : P Node} {k : Nat} (h7 : Emits (e6 stmt k)) (j : Nat) :
    LoopEmits (e5Loop stmt k j) := by
  induction j with
  | zero => intro left st n st' h; simp [e5Loop, fail_ok] at h
  | succ j ih =>
    intro left st n st' h hd
    simp only [e5Loop, bind_ok] at h
    obtain ⟨o, s1, ha, h⟩ := h
    cases o
    case none =>
      cases acceptAny_none ha
      simp only [pure_ok] at h
      cases h
      exact ⟨hd, fun _ => rfl, fun hws => ⟨hws, [], by simp, by simp⟩⟩
    case some op =>
      simp only [bind_ok, prev_ok] at h
      obtain ⟨tk, s2, hpv, sym, s3, hsym, r, s4, hr, nd, s5, hcr, hloop⟩ := h
      cases hpv
      obtain ⟨dl, el, tl⟩ := ih _ _ _ _ hloop hd
      obtain ⟨rfl, hw5, hrem5, hd5⟩ := create_spec hcr
      obtain ⟨dr, er, tr⟩ := h7 _ _ _ hr (by omega)
      obtain ⟨ds, ws3, ts⟩ := sym_after_acceptAny ha hsym addsub_plain
      refine ⟨by omega, fun hn => ?_, fun hws => ?_⟩
      · have := el hn; subst this; simp [Node.addWs, Node.addWsBase, Node.mapBase, Node.isEmpty] at hn
      · obtain ⟨w4, r4⟩ := tr ws3
        obtain ⟨w6, X, hX, r6⟩ := tl hw5
        refine ⟨w6, emit sym ++ emit r ++ X, ?_, ?_⟩
        · rw [hX, emit_addWs (.binop _ _ _ _ _) _ trivial, w4]; simp [emit_binop, Base.at, List.append_assoc]
        · rw [ts hws, r4, ← hrem5, r6]; simp [List.append_assoc]

theorem e5_emits {stmt : P Node} {k : Nat} (h6 : Emits (e6 stmt k)) : Emits (e5 stmt k) :=
  emits_of_loop h6 (e5Loop_emits h6 k)

/-- `op = create_node(SymbolNode, previous); return create_node(Unary, self.current, op, self.e8())` -/
theorem e7_emits {stmt : P Node} {k : Nat} (h8 : Emits (e8 stmt k)) : Emits (e7 stmt k) := by
  intro st n st' h hd
  simp only [e7, bind_ok] at h
  obtain ⟨b1, s1, ha1, h⟩ := h
  cases b1
  case true =>
    simp only [if_true, bind_ok, prev_ok, cur_ok] at h
    obtain ⟨tk, s2, hpv, sym, s3, hsym, t, s4, hc, v, s5, hv, hcr⟩ := h
    cases hpv; cases hc
    obtain ⟨rfl, hw6, hrem6, hd6⟩ := create_spec hcr
    obtain ⟨dv, ev, tv⟩ := h8 _ _ _ hv (by omega)
    obtain ⟨ds, ws3, ts⟩ := sym_after_accept ha1 hsym (by decide)
    refine ⟨by omega, fun hn => ?_, fun hws => ?_⟩
    · simp [Node.addWs, Node.addWsBase, Node.mapBase, Node.isEmpty] at hn
    · obtain ⟨w5, r5⟩ := tv ws3
      refine ⟨hw6, ?_⟩
      rw [emit_addWs (.unop _ _ _ _) _ trivial, w5, ts hws, r5, hrem6]
      simp [emit_unop, Base.at, List.append_assoc]
  case false =>
    cases accept_false ha1
    simp only [Bool.false_eq_true, if_false, bind_ok] at h
    obtain ⟨b2, s2, ha2, h⟩ := h
    cases b2
    case true =>
      simp only [if_true, bind_ok, prev_ok, cur_ok] at h
      obtain ⟨tk, s2, hpv, sym, s3, hsym, t, s4, hc, v, s5, hv, hcr⟩ := h
      cases hpv; cases hc
      obtain ⟨rfl, hw6, hrem6, hd6⟩ := create_spec hcr
      obtain ⟨dv, ev, tv⟩ := h8 _ _ _ hv (by omega)
      obtain ⟨ds, ws3, ts⟩ := sym_after_accept ha2 hsym (by decide)
      refine ⟨by omega, fun hn => ?_, fun hws => ?_⟩
      · simp [Node.addWs, Node.addWsBase, Node.mapBase, Node.isEmpty] at hn
      · obtain ⟨w5, r5⟩ := tv ws3
        refine ⟨hw6, ?_⟩
        rw [emit_addWs (.unop _ _ _ _) _ trivial, w5, ts hws, r5, hrem6]
        simp [emit_unop, Base.at, List.append_assoc]
    case false =>
      cases accept_false ha2
      simp only [Bool.false_eq_true, if_false] at h
      exact h8 _ _ _ h hd

theorem raiseAt_ok {α} (n : Node) (st : PState) (r : α × PState) : (raiseAt n : P α) st = .ok r ↔ False := by
  simp [raiseAt, fail_ok]

theorem e3Loop_emits {stmt : P Node} {k : Nat} (h4 : Emits (e4 stmt k)) (j : Nat) :
    LoopEmits (e3Loop stmt k j) := by
  induction j with
  | zero => intro left st n st' h; simp [e3Loop, fail_ok] at h
  | succ j ih =>
    intro left st n st' h hd
    simp only [e3Loop, bind_ok] at h
    obtain ⟨b, s1, ha, h⟩ := h
    cases b
    case false =>
      cases accept_false ha
      simp only [Bool.false_eq_true, if_false, pure_ok] at h
      cases h
      exact ⟨hd, fun _ => rfl, fun hws => ⟨hws, [], by simp, by simp⟩⟩
    case true =>
      simp only [if_true, bind_ok, prev_ok] at h
      obtain ⟨tk, s2, hpv, sym, s3, hsym, h⟩ := h
      cases hpv
      split at h
      · simp [raiseAt_ok] at h
      · simp only [bind_ok] at h
        obtain ⟨r, s4, hr, nd, s5, hcr, hloop⟩ := h
        obtain ⟨dl, el, tl⟩ := ih _ _ _ _ hloop hd
        obtain ⟨rfl, hw5, hrem5, hd5⟩ := create_spec hcr
        obtain ⟨dr, er, tr⟩ := h4 _ _ _ hr (by omega)
        obtain ⟨ds, ws3, ts⟩ := sym_after_accept ha hsym (by decide)
        refine ⟨by omega, fun hn => ?_, fun hws => ?_⟩
        · have := el hn; subst this; simp [Node.addWs, Node.addWsBase, Node.mapBase, Node.isEmpty] at hn
        · obtain ⟨w4, r4⟩ := tr ws3
          obtain ⟨w6, X, hX, r6⟩ := tl hw5
          refine ⟨w6, emit sym ++ emit r ++ X, ?_, ?_⟩
          · rw [hX, emit_addWs (.binop _ _ _ _ _) _ trivial, w4]; simp [emit_binop, Base.at, List.append_assoc]
          · rw [ts hws, r4, ← hrem5, r6]; simp [List.append_assoc]

theorem e3_emits {stmt : P Node} {k : Nat} (h4 : Emits (e4 stmt k)) : Emits (e3 stmt k) :=
  emits_of_loop h4 (e3Loop_emits h4 k)

theorem e2Loop_emits {stmt : P Node} {k : Nat} (h4 : Emits (e3 stmt k)) (j : Nat) :
    LoopEmits (e2Loop stmt k j) := by
  induction j with
  | zero => intro left st n st' h; simp [e2Loop, fail_ok] at h
  | succ j ih =>
    intro left st n st' h hd
    simp only [e2Loop, bind_ok] at h
    obtain ⟨b, s1, ha, h⟩ := h
    cases b
    case false =>
      cases accept_false ha
      simp only [Bool.false_eq_true, if_false, pure_ok] at h
      cases h
      exact ⟨hd, fun _ => rfl, fun hws => ⟨hws, [], by simp, by simp⟩⟩
    case true =>
      simp only [if_true, bind_ok, prev_ok] at h
      obtain ⟨tk, s2, hpv, sym, s3, hsym, h⟩ := h
      cases hpv
      split at h
      · simp [raiseAt_ok] at h
      · simp only [bind_ok] at h
        obtain ⟨r, s4, hr, nd, s5, hcr, hloop⟩ := h
        obtain ⟨dl, el, tl⟩ := ih _ _ _ _ hloop hd
        obtain ⟨rfl, hw5, hrem5, hd5⟩ := create_spec hcr
        obtain ⟨dr, er, tr⟩ := h4 _ _ _ hr (by omega)
        obtain ⟨ds, ws3, ts⟩ := sym_after_accept ha hsym (by decide)
        refine ⟨by omega, fun hn => ?_, fun hws => ?_⟩
        · have := el hn; subst this; simp [Node.addWs, Node.addWsBase, Node.mapBase, Node.isEmpty] at hn
        · obtain ⟨w4, r4⟩ := tr ws3
          obtain ⟨w6, X, hX, r6⟩ := tl hw5
          refine ⟨w6, emit sym ++ emit r ++ X, ?_, ?_⟩
          · rw [hX, emit_addWs (.binop _ _ _ _ _) _ trivial, w4]; simp [emit_binop, Base.at, List.append_assoc]
          · rw [ts hws, r4, ← hrem5, r6]; simp [List.append_assoc]

theorem e2_emits {stmt : P Node} {k : Nat} (h4 : Emits (e3 stmt k)) : Emits (e2 stmt k) :=
  emits_of_loop h4 (e2Loop_emits h4 k)

/-! ### `e4`: comparison, `not in`, and the path that loses a `not` -/

theorem advance_ws_prefix {lexErr : Option (Nat × Nat)} {last : Token} {rest ws : List Token}
    {c : Token} {rest' ws' : List Token}
    (h : advance lexErr last rest ws = .ok (c, rest', ws')) : ∃ extra, ws' = ws ++ extra := by
  induction rest generalizing last ws with
  | nil =>
    unfold advance at h
    split at h
    · simp at h
    · simp at h; exact ⟨[], by simp [h.2.2]⟩
  | cons t rest ih =>
    unfold advance at h
    split at h
    · simp at h; exact ⟨[t], h.2.2.symm⟩
    · split at h
      · obtain ⟨e, he⟩ := ih h
        exact ⟨t :: e, by rw [he]; simp⟩
      · simp at h; exact ⟨[], by simp [h.2.2]⟩

theorem accept_ws_prefix {t : Tid} {st st' : PState} (h : accept t st = .ok (true, st')) :
    ∃ extra, st'.ws = st.ws ++ extra := by
  unfold accept at h
  split at h
  · split at h
    · simp at h
    · rename_i u s' hg
      simp at h; subst h
      unfold getsym at hg
      split at hg
      · simp at hg
      · rename_i c rest ws hadv
        simp at hg; subst hg
        exact advance_ws_prefix hadv
  · simp at h

theorem notin_step {sA s1 s2 s4 : PState} {o : Node}
    (ha1 : accept .kNot sA = .ok (true, s1)) (ha2 : accept .kIn s1 = .ok (true, s2))
    (hc : createSymbol { s1.prev with spanEnd := s2.prev.spanEnd,
                                       value := s1.prev.value ++ wsText s1.ws ++ s2.prev.value }
            { s2 with ws := s2.ws.drop s1.ws.length } = .ok (o, s4)) :
    s4.lossy = sA.lossy ∧ s4.ws = [] ∧ (sA.ws = [] → rem sA = emit o ++ rem s4) := by
  rcases accept_spec ha1 with ⟨h, _⟩ | ⟨_, htid1, hG1, hprev1, hfl1⟩
  · cases h
  rcases accept_spec ha2 with ⟨h, _⟩ | ⟨_, htid2, hG2, hprev2, hfl2⟩
  · cases h
  obtain ⟨extra, hex⟩ := accept_ws_prefix ha2
  obtain ⟨rfl, hw4, hrem4, hd4⟩ := create_spec hc
  refine ⟨by rw [hd4]; show s2.lossy = _; rw [hfl2.dropped, hfl1.dropped], hw4, fun hws => ?_⟩
  have e1 : rem sA = printed sA.cur ++ G s1 := G_consume hws (by rw [htid1]; decide) hG1
  have p1 : printed sA.cur = sA.cur.value := printed_plain (by rw [htid1]; decide)
  have p2 : printed s1.cur = s1.cur.value := printed_plain (by rw [htid2]; decide)
  have e2 : rem s1 = s1.cur.value ++ restText s1.rest := by simp [rem, htid2, p2]
  have e3 : restText s1.rest = wsText extra ++ rem s2 := by
    have : wsText s1.ws ++ restText s1.rest = wsText s1.ws ++ (wsText extra ++ rem s2) := by
      rw [← hG2, G, hex, wsText_append]; simp [List.append_assoc]
    exact List.append_cancel_left this
  have e4 : rem s4 = rem s2 := by rw [hrem4]; rfl
  rw [emit_addWs (symbolOf _) _ trivial, emit_symbolOf, e1, p1, G, e2, e3, e4, hprev1, hprev2]
  simp [hex, List.append_assoc]

theorem e4_emits {stmt : P Node} {k : Nat} (h5 : Emits (e5 stmt k)) : Emits (e4 stmt k) := by
  intro st n st' h hd
  simp only [e4, bind_ok] at h
  obtain ⟨left, sA, hleft, o, s1, hany, h⟩ := h
  cases o
  case some op =>
    simp only [bind_ok, prev_ok] at h
    obtain ⟨tk, s2, hpv, sym, s3, hsym, r, s4, hr, hcr⟩ := h
    cases hpv
    obtain ⟨rfl, hw5, hrem5, hd5⟩ := create_spec hcr
    obtain ⟨dr, er, tr⟩ := h5 _ _ _ hr (by omega)
    obtain ⟨ds, ws3, ts⟩ := sym_after_acceptAny hany hsym comparison_plain
    obtain ⟨dl, el, tl⟩ := h5 _ _ _ hleft (by omega)
    refine ⟨dl, fun hn => ?_, fun hws => ?_⟩
    · simp [Node.addWs, Node.addWsBase, Node.mapBase, Node.isEmpty] at hn
    · obtain ⟨wA, rA⟩ := tl hws
      obtain ⟨w4, r4⟩ := tr ws3
      refine ⟨hw5, ?_⟩
      rw [emit_addWs (.binop _ _ _ _ _) _ trivial, w4, rA, ts wA, r4, hrem5]
      simp [emit_binop, Base.at, List.append_assoc]
  case none =>
    cases acceptAny_none hany
    simp only [bind_ok] at h
    obtain ⟨b, s2, hnot, h⟩ := h
    cases b
    case false =>
      cases accept_false hnot
      simp only [Bool.false_eq_true, if_false, pure_ok] at h
      cases h
      exact h5 _ _ _ hleft hd
    case true =>
      simp only [if_true, bind_ok, get_ok, prev_ok] at h
      obtain ⟨_, _, hg, nt, s3, hpv, b2, s4, hin, h⟩ := h
      cases hg; cases hpv
      cases b2
      case false =>
        cases accept_false hin
        simp [bind_ok, cur_ok, fail_ok] at h
      case true =>
        simp only [if_true, bind_ok, prev_ok, modify_ok] at h
        obtain ⟨it, s5, hpv2, _, s6, hm, h⟩ := h
        cases hpv2; cases hm
        split at h
        · simp [fail_ok] at h
        · simp only [bind_ok] at h
          obtain ⟨sym, s7, hsym, r, s8, hr, hcr⟩ := h
          obtain ⟨rfl, hw9, hrem9, hd9⟩ := create_spec hcr
          obtain ⟨dr, er, tr⟩ := h5 _ _ _ hr (by omega)
          obtain ⟨ds, ws7, ts⟩ := notin_step hnot hin hsym
          obtain ⟨dl, el, tl⟩ := h5 _ _ _ hleft (by omega)
          refine ⟨dl, fun hn => ?_, fun hws => ?_⟩
          · simp [Node.addWs, Node.addWsBase, Node.mapBase, Node.isEmpty] at hn
          · obtain ⟨wA, rA⟩ := tl hws
            obtain ⟨w8, r8⟩ := tr ws7
            refine ⟨hw9, ?_⟩
            rw [emit_addWs (.binop _ _ _ _ _) _ trivial, w8, rA, ts wA, r8, hrem9]
            simp [emit_binop, Base.at, List.append_assoc]

/-! ### `e1`: assignment, `+=`, ternary -/

theorem expect_spec {t : Tid} {st st' : PState} {u : Unit} (h : expect t st = .ok (u, st')) :
    accept t st = .ok (true, st') := by
  simp only [expect, bind_ok] at h
  obtain ⟨b, s1, ha, h⟩ := h
  cases b
  · simp [bind_ok, get_ok, fail_ok] at h
  · simp only [if_true, pure_ok] at h; cases h; exact ha

theorem blockExpect_spec {t : Tid} {st st' : PState} {u : Unit} (h : blockExpect t st = .ok (u, st')) :
    accept t st = .ok (true, st') := by
  simp only [blockExpect, bind_ok] at h
  obtain ⟨b, s1, ha, h⟩ := h
  cases b
  · simp [bind_ok, get_ok, fail_ok] at h
  · simp only [if_true, pure_ok] at h; cases h; exact ha

theorem e1_emits {stmt : P Node} {k : Nat} (hs : Emits stmt) (h2 : Emits (e2 stmt k)) : Emits (e1 stmt k) := by
  intro st n st' h hd
  simp only [e1, bind_ok] at h
  obtain ⟨left, sA, hleft, b1, s1, ha1, h⟩ := h
  cases b1
  case true =>
    simp only [if_true, bind_ok, prev_ok] at h
    obtain ⟨tk, s2, hpv, sym, s3, hsym, v, s4, hv, h⟩ := h
    cases hpv
    split at h
    · simp [raiseAt_ok] at h
    · obtain ⟨rfl, hw5, hrem5, hd5⟩ := create_spec h
      obtain ⟨dv, ev, tv⟩ := hs _ _ _ hv (by omega)
      obtain ⟨ds, ws3, ts⟩ := sym_after_accept ha1 hsym (by decide)
      obtain ⟨dl, el, tl⟩ := h2 _ _ _ hleft (by omega)
      refine ⟨dl, fun hn => ?_, fun hws => ?_⟩
      · simp [Node.addWs, Node.addWsBase, Node.mapBase, Node.isEmpty] at hn
      · obtain ⟨wA, rA⟩ := tl hws
        obtain ⟨w4, r4⟩ := tv ws3
        refine ⟨hw5, ?_⟩
        rw [emit_addWs (.assign _ _ _ _ _) _ trivial, w4, rA, ts wA, r4, hrem5]
        simp [emit_assign, Base.at, List.append_assoc]
  case false =>
    cases accept_false ha1
    simp only [Bool.false_eq_true, if_false, bind_ok] at h
    obtain ⟨b2, s2, ha2, h⟩ := h
    cases b2
    case true =>
      simp only [if_true, bind_ok, prev_ok] at h
      obtain ⟨tk, s2, hpv, sym, s3, hsym, v, s4, hv, h⟩ := h
      cases hpv
      split at h
      · simp [raiseAt_ok] at h
      · obtain ⟨rfl, hw5, hrem5, hd5⟩ := create_spec h
        obtain ⟨dv, ev, tv⟩ := hs _ _ _ hv (by omega)
        obtain ⟨ds, ws3, ts⟩ := sym_after_accept ha2 hsym (by decide)
        obtain ⟨dl, el, tl⟩ := h2 _ _ _ hleft (by omega)
        refine ⟨dl, fun hn => ?_, fun hws => ?_⟩
        · simp [Node.addWs, Node.addWsBase, Node.mapBase, Node.isEmpty] at hn
        · obtain ⟨wA, rA⟩ := tl hws
          obtain ⟨w4, r4⟩ := tv ws3
          refine ⟨hw5, ?_⟩
          rw [emit_addWs (.assign _ _ _ _ _) _ trivial, w4, rA, ts wA, r4, hrem5]
          simp [emit_assign, Base.at, List.append_assoc]
    case false =>
      cases accept_false ha2
      simp only [Bool.false_eq_true, if_false, bind_ok] at h
      obtain ⟨b3, s3, ha3, h⟩ := h
      cases b3
      case false =>
        cases accept_false ha3
        simp only [Bool.false_eq_true, if_false, pure_ok] at h
        cases h
        exact h2 _ _ _ hleft hd
      case true =>
        simp only [if_true, bind_ok, get_ok] at h
        obtain ⟨_, _, hg, h⟩ := h
        cases hg
        split at h
        · simp [raiseAt_ok] at h
        · simp only [bind_ok, prev_ok, modify_ok] at h
          obtain ⟨tk, s4, hpv, q, s5, hq, _, s6, hm, t, s7, ht, _, s8, hcol, tk2, s9, hpv2, c, s10, hc, f, s11, hf,
            _, s12, hm2, hcr⟩ := h
          cases hpv; cases hm; cases hpv2; cases hm2
          obtain ⟨rfl, hwE, hremE, hdE⟩ := create_spec hcr
          have hd11 : s11.lossy = 0 := by have := hdE; simp at this; omega
          obtain ⟨df, ef, tf⟩ := hs _ _ _ hf hd11
          obtain ⟨dc, wc, tc⟩ := sym_after_accept (expect_spec hcol) hc (by decide)
          obtain ⟨dt, et, tt⟩ := hs _ _ _ ht (by omega)
          obtain ⟨dq, wq, tq⟩ := sym_after_accept ha3 hq (by decide)
          have hd5 : s5.lossy = 0 := by simpa using dt
          obtain ⟨dl, el, tl⟩ := h2 _ _ _ hleft (by omega)
          refine ⟨dl, fun hn => ?_, fun hws => ?_⟩
          · simp [Node.addWs, Node.addWsBase, Node.mapBase, Node.isEmpty] at hn
          · obtain ⟨wA, rA⟩ := tl hws
            obtain ⟨w7, r7⟩ := tt wq
            obtain ⟨w11, r11⟩ := tf wc
            refine ⟨hwE, ?_⟩
            have hq' := tq wA
            have hc' := tc w7
            rw [emit_addWs (.ternary _ _ _ _ _ _) _ trivial]
            simp only [rem] at *
            simp_all [emit_ternary, Base.at, List.append_assoc]

/-! ### `args()` and `key_values()` -/

/-- the `ArgumentNode` at the head of the loop: positional arguments each with their comma, then keyword
arguments each with colon and comma, no order error, no whitespace of its own; `T` is its text -/
def ArgsShape (a : Node) (T : Str) : Prop :=
  ∃ b pos C1 C2 colons keys vals, a = .args b pos (C1 ++ C2) colons keys vals false ∧ b.ws = [] ∧
    C1.length = pos.length ∧ C2.length = keys.length ∧ colons.length = keys.length ∧
    vals.length = keys.length ∧
    T = zipcat (emitL pos) (emitL C1) ++ kwcat (emitL keys) (emitL colons) (emitL vals) (emitL C2)

theorem ArgsShape.emit {a : Node} {T : Str} (h : ArgsShape a T) : emit a = T := by
  obtain ⟨b, pos, C1, C2, colons, keys, vals, rfl, hb, h1, h2, h3, h4, rfl⟩ := h
  rw [emit_args, emitL_append, interleavePos_balanced _ _ _ (by simp [emitL_length, h1])]
  simp only
  rw [interleaveKw_balanced _ _ _ _ (by simp [emitL_length, h3]) (by simp [emitL_length, h4])
    (by simp [emitL_length, h2]), hb]
  simp

theorem noteOrder_spec {a : Node} {st st' : PState} {u : Unit} (h : noteOrder a st = .ok (u, st'))
    (hd : st'.lossy = 0) : argsHasKw a = false ∧ st' = st := by
  simp only [noteOrder, modify_ok] at h
  cases h
  split at hd
  · simp at hd
  · rename_i hk; exact ⟨by simpa using hk, by simp [hk]⟩

/-- what the loop appends after `a` and the already parsed statement `s` -/
def ArgsLoopEmits (stmt : P Node) (f : Node → Node → P Node) : Prop :=
  ∀ a s st n st', f a s st = .ok (n, st') → st'.lossy = 0 →
    st.lossy = 0 ∧
    (∀ T, ArgsShape a T → (s.isEmpty = true → emit s = []) → st.ws = [] →
      st'.ws = [] ∧ ∃ X, emit n = T ++ emit s ++ X ∧ rem st = X ++ rem st')

theorem argsLoop_emits {stmt : P Node} (hs : Emits stmt) (j : Nat) :
    ArgsLoopEmits stmt (argsLoop stmt j) := by
  induction j with
  | zero => intro a s st n st' h; simp [argsLoop, fail_ok] at h
  | succ j ih =>
    intro a s st n st' h hd
    simp only [argsLoop] at h
    split at h
    · -- s is empty: return a
      rename_i hse
      simp only [pure_ok] at h; cases h
      refine ⟨hd, fun T hT he hws => ⟨hws, [], ?_, by simp⟩⟩
      rw [hT.emit, he hse]; simp
    · rename_i hse
      simp only [bind_ok] at h
      obtain ⟨b1, s1, ha1, h⟩ := h
      cases b1
      case true =>
        -- comma
        simp only [if_true, bind_ok, prev_ok] at h
        obtain ⟨tk, s2, hpv, c, s3, hc, _, s4, hno, s', s5, hs', hloop⟩ := h
        cases hpv
        obtain ⟨dl, tl⟩ := ih _ _ _ _ _ hloop hd
        obtain ⟨ds, es, ts⟩ := hs _ _ _ hs' dl
        obtain ⟨hkw, rfl⟩ := noteOrder_spec hno ds
        obtain ⟨dc, wc, tc⟩ := sym_after_accept ha1 hc (by decide)
        refine ⟨by omega, fun T hT he hws => ?_⟩
        obtain ⟨b, pos, C1, C2, colons, keys, vals, rfl, hb, h1, h2, h3, h4, rfl⟩ := hT
        have hk : keys = [] := by
          cases keys with
          | nil => rfl
          | cons k ks => simp [argsHasKw] at hkw
        subst hk
        have hC2 : C2 = [] := by cases C2 with | nil => rfl | cons x xs => simp at h2
        subst hC2
        have hcl : colons = [] := by cases colons with | nil => rfl | cons x xs => simp at h3
        have hvl : vals = [] := by cases vals with | nil => rfl | cons x xs => simp at h4
        subst hcl; subst hvl
        have hse' : s.isEmpty = false := by simpa using hse
        have hshape : ArgsShape (argsAppend (argsAddComma (.args b pos (C1 ++ []) [] [] [] false) c) s)
            (zipcat (emitL pos) (emitL C1) ++ emit s ++ emit c) := by
          refine ⟨b, pos ++ [s], C1 ++ [c], [], [], [], [], ?_, hb, by simp [h1], rfl, rfl, rfl, ?_⟩
          · simp [argsAppend, argsAddComma, hse']
          · simp [emitL_snoc, zipcat_snoc _ _ _ _ (by simp [emitL_length, h1] : (emitL C1).length = (emitL pos).length),
              kwcat, emitL_nil]
        obtain ⟨w5, r5⟩ := ts wc
        obtain ⟨w6, X, hX, r6⟩ := tl _ hshape es w5
        refine ⟨w6, emit c ++ emit s' ++ X, ?_, ?_⟩
        · rw [hX]; simp [kwcat, emitL_nil, List.append_assoc]
        · rw [tc hws, r5, r6]; simp [List.append_assoc]
      case false =>
        cases accept_false ha1
        simp only [Bool.false_eq_true, if_false, bind_ok] at h
        obtain ⟨b2, s2, ha2, h⟩ := h
        cases b2
        case false =>
          -- last positional argument
          cases accept_false ha2
          simp only [Bool.false_eq_true, if_false, bind_ok, pure_ok] at h
          obtain ⟨_, s3, hno, h⟩ := h
          cases h
          obtain ⟨hkw, rfl⟩ := noteOrder_spec hno hd
          refine ⟨hd, fun T hT he hws => ⟨hws, [], ?_, by simp⟩⟩
          obtain ⟨b, pos, C1, C2, colons, keys, vals, rfl, hb, h1, h2, h3, h4, rfl⟩ := hT
          have hk : keys = [] := by
            cases keys with
            | nil => rfl
            | cons k ks => simp [argsHasKw] at hkw
          subst hk
          have hC2 : C2 = [] := by cases C2 with | nil => rfl | cons x xs => simp at h2
          subst hC2
          have hcl : colons = [] := by cases colons with | nil => rfl | cons x xs => simp at h3
          have hvl : vals = [] := by cases vals with | nil => rfl | cons x xs => simp at h4
          subst hcl; subst hvl
          have hse' : s.isEmpty = false := by simpa using hse
          simp only [argsAppend, hse', Bool.false_eq_true, if_false, List.append_nil]
          rw [emit_args, emitL_snoc, interleavePos_last _ _ _ (by simp [emitL_length, h1])]
          simp [interleaveKw, emitL_nil, kwcat, hb]
        case true =>
          -- keyword argument
          simp only [if_true, bind_ok, prev_ok] at h
          obtain ⟨tk, s3, hpv, c, s4, hc, h⟩ := h
          cases hpv
          split at h
          · simp [raiseAt_ok] at h
          · simp only [bind_ok] at h
            obtain ⟨v, s5, hv, b3, s6, ha3, h⟩ := h
            cases b3
            case false =>
              cases accept_false ha3
              simp only [Bool.false_eq_true, Bool.not_false, if_true, pure_ok] at h
              cases h
              obtain ⟨dv, ev, tv⟩ := hs _ _ _ hv hd
              obtain ⟨dc, wc, tc⟩ := sym_after_accept ha2 hc (by decide)
              refine ⟨by omega, fun T hT he hws => ?_⟩
              obtain ⟨b, pos, C1, C2, colons, keys, vals, rfl, hb, h1, h2, h3, h4, rfl⟩ := hT
              obtain ⟨w5, r5⟩ := tv wc
              refine ⟨w5, emit c ++ emit v, ?_, ?_⟩
              · simp only [argsSetKw, argsAddColon]
                rw [emit_args, emitL_append, interleavePos_balanced _ _ _ (by simp [emitL_length, h1])]
                simp only
                rw [emitL_snoc, emitL_snoc, emitL_snoc,
                  interleaveKw_last _ _ _ _ _ _ _ (by simp [emitL_length, h3]) (by simp [emitL_length, h4])
                    (by simp [emitL_length, h2]), hb]
                simp [List.append_assoc]
              · rw [tc hws, r5]; simp [List.append_assoc]
            case true =>
              simp only [Bool.not_true, Bool.false_eq_true, if_false, bind_ok, prev_ok] at h
              obtain ⟨tk2, s7, hpv2, c2, s8, hc2, s', s9, hs', hloop⟩ := h
              cases hpv2
              obtain ⟨dl, tl⟩ := ih _ _ _ _ _ hloop hd
              obtain ⟨ds, es, ts⟩ := hs _ _ _ hs' dl
              obtain ⟨dc2, wc2, tc2⟩ := sym_after_accept ha3 hc2 (by decide)
              obtain ⟨dv, ev, tv⟩ := hs _ _ _ hv (by omega)
              obtain ⟨dc, wc, tc⟩ := sym_after_accept ha2 hc (by decide)
              refine ⟨by omega, fun T hT he hws => ?_⟩
              obtain ⟨b, pos, C1, C2, colons, keys, vals, rfl, hb, h1, h2, h3, h4, rfl⟩ := hT
              have hshape : ArgsShape
                  (argsAddComma (argsSetKw (argsAddColon (.args b pos (C1 ++ C2) colons keys vals false) c) s v) c2)
                  (zipcat (emitL pos) (emitL C1) ++ kwcat (emitL keys) (emitL colons) (emitL vals) (emitL C2) ++
                    emit s ++ emit c ++ emit v ++ emit c2) := by
                refine ⟨b, pos, C1, C2 ++ [c2], colons ++ [c], keys ++ [s], vals ++ [v], ?_, hb, h1,
                  by simp [h2], by simp [h3], by simp [h4], ?_⟩
                · simp [argsAddComma, argsSetKw, argsAddColon, List.append_assoc]
                · rw [emitL_snoc, emitL_snoc, emitL_snoc, emitL_snoc,
                    kwcat_snoc _ _ _ _ _ _ _ _ (by simp [emitL_length, h3]) (by simp [emitL_length, h4])
                      (by simp [emitL_length, h2])]
                  simp [List.append_assoc]
              obtain ⟨w5, r5⟩ := tv wc
              obtain ⟨w9, r9⟩ := ts wc2
              obtain ⟨w10, X, hX, r10⟩ := tl _ hshape es w9
              refine ⟨w10, emit c ++ emit v ++ emit c2 ++ emit s' ++ X, ?_, ?_⟩
              · rw [hX]; simp [List.append_assoc]
              · rw [tc hws, r5, tc2 w5, r9, r10]; simp [List.append_assoc]

/-- `Emits` without the clause about empty nodes (for productions that never return an `EmptyNode`) -/
def EmitsT (f : P Node) : Prop :=
  ∀ st n st', f st = .ok (n, st') → st'.lossy = 0 →
    st.lossy = 0 ∧ (st.ws = [] → st'.ws = [] ∧ rem st = emit n ++ rem st')

theorem Emits.toT {f : P Node} (h : Emits f) : EmitsT f :=
  fun st n st' hf hd => ⟨(h st n st' hf hd).1, (h st n st' hf hd).2.2⟩

theorem emptyArgs_shape (l c : Nat) : ArgsShape (Node.addWs [] (.args (Base.at l c) [] [] [] [] [] false)) [] :=
  ⟨Base.at l c, [], [], [], [], [], [], by simp [Node.addWs, Node.addWsBase, Node.mapBase, Base.at],
    rfl, rfl, rfl, rfl, rfl, by simp [zipcat, kwcat, emitL_nil]⟩

theorem args_emits {stmt : P Node} (hs : Emits stmt) (k : Nat) : EmitsT (args stmt k) := by
  intro st n st' h hd
  simp only [args, bind_ok, cur_ok] at h
  obtain ⟨s, s1, hs1, c, s2, hc, a, s3, hcr, hloop⟩ := h
  cases hc
  obtain ⟨dl, tl⟩ := argsLoop_emits hs k _ _ _ _ _ hloop hd
  obtain ⟨rfl, hw3, hrem3, hd3⟩ := create_spec hcr
  obtain ⟨ds, es, ts⟩ := hs _ _ _ hs1 (by omega)
  refine ⟨ds, fun hws => ?_⟩
  obtain ⟨w1, r1⟩ := ts hws
  rw [w1] at tl
  obtain ⟨w4, X, hX, r4⟩ := tl _ (emptyArgs_shape _ _) es hw3
  exact ⟨w4, by rw [r1, ← hrem3, r4, hX]; simp [List.append_assoc]⟩

theorem kvLoop_emits {stmt : P Node} (hs : Emits stmt) (j : Nat) :
    ArgsLoopEmits stmt (kvLoop stmt j) := by
  induction j with
  | zero => intro a s st n st' h; simp [kvLoop, fail_ok] at h
  | succ j ih =>
    intro a s st n st' h hd
    simp only [kvLoop] at h
    split at h
    · rename_i hse
      simp only [pure_ok] at h; cases h
      refine ⟨hd, fun T hT he hws => ⟨hws, [], ?_, by simp⟩⟩
      rw [hT.emit, he hse]; simp
    · rename_i hse
      simp only [bind_ok] at h
      obtain ⟨b2, s2, ha2, h⟩ := h
      cases b2
      case false =>
        simp [raiseAt_ok] at h
      case true =>
        simp only [if_true, bind_ok, prev_ok] at h
        obtain ⟨tk, s3, hpv, c, s4, hc, v, s5, hv, h⟩ := h
        cases hpv
        split at h
        · simp [raiseAt_ok] at h
        · simp only [bind_ok] at h
          obtain ⟨b3, s6, ha3, h⟩ := h
          cases b3
          case false =>
            cases accept_false ha3
            simp only [Bool.false_eq_true, Bool.not_false, if_true, pure_ok] at h
            cases h
            obtain ⟨dv, ev, tv⟩ := hs _ _ _ hv hd
            obtain ⟨dc, wc, tc⟩ := sym_after_accept ha2 hc (by decide)
            refine ⟨by omega, fun T hT he hws => ?_⟩
            obtain ⟨b, pos, C1, C2, colons, keys, vals, rfl, hb, h1, h2, h3, h4, rfl⟩ := hT
            obtain ⟨w5, r5⟩ := tv wc
            refine ⟨w5, emit c ++ emit v, ?_, ?_⟩
            · simp only [argsSetKw, argsAddColon]
              rw [emit_args, emitL_append, interleavePos_balanced _ _ _ (by simp [emitL_length, h1])]
              simp only
              rw [emitL_snoc, emitL_snoc, emitL_snoc,
                interleaveKw_last _ _ _ _ _ _ _ (by simp [emitL_length, h3]) (by simp [emitL_length, h4])
                  (by simp [emitL_length, h2]), hb]
              simp [List.append_assoc]
            · rw [tc hws, r5]; simp [List.append_assoc]
          case true =>
            simp only [Bool.not_true, Bool.false_eq_true, if_false, bind_ok, prev_ok] at h
            obtain ⟨tk2, s7, hpv2, c2, s8, hc2, s', s9, hs', hloop⟩ := h
            cases hpv2
            obtain ⟨dl, tl⟩ := ih _ _ _ _ _ hloop hd
            obtain ⟨ds, es, ts⟩ := hs _ _ _ hs' dl
            obtain ⟨dc2, wc2, tc2⟩ := sym_after_accept ha3 hc2 (by decide)
            obtain ⟨dv, ev, tv⟩ := hs _ _ _ hv (by omega)
            obtain ⟨dc, wc, tc⟩ := sym_after_accept ha2 hc (by decide)
            refine ⟨by omega, fun T hT he hws => ?_⟩
            obtain ⟨b, pos, C1, C2, colons, keys, vals, rfl, hb, h1, h2, h3, h4, rfl⟩ := hT
            have hshape : ArgsShape
                (argsAddComma (argsSetKw (argsAddColon (.args b pos (C1 ++ C2) colons keys vals false) c) s v) c2)
                (zipcat (emitL pos) (emitL C1) ++ kwcat (emitL keys) (emitL colons) (emitL vals) (emitL C2) ++
                  emit s ++ emit c ++ emit v ++ emit c2) := by
              refine ⟨b, pos, C1, C2 ++ [c2], colons ++ [c], keys ++ [s], vals ++ [v], ?_, hb, h1,
                by simp [h2], by simp [h3], by simp [h4], ?_⟩
              · simp [argsAddComma, argsSetKw, argsAddColon, List.append_assoc]
              · rw [emitL_snoc, emitL_snoc, emitL_snoc, emitL_snoc,
                  kwcat_snoc _ _ _ _ _ _ _ _ (by simp [emitL_length, h3]) (by simp [emitL_length, h4])
                    (by simp [emitL_length, h2])]
                simp [List.append_assoc]
            obtain ⟨w5, r5⟩ := tv wc
            obtain ⟨w9, r9⟩ := ts wc2
            obtain ⟨w10, X, hX, r10⟩ := tl _ hshape es w9
            refine ⟨w10, emit c ++ emit v ++ emit c2 ++ emit s' ++ X, ?_, ?_⟩
            · rw [hX]; simp [List.append_assoc]
            · rw [tc hws, r5, tc2 w5, r9, r10]; simp [List.append_assoc]

theorem keyValues_emits {stmt : P Node} (hs : Emits stmt) (k : Nat) : EmitsT (keyValues stmt k) := by
  intro st n st' h hd
  simp only [keyValues, bind_ok, cur_ok] at h
  obtain ⟨s, s1, hs1, c, s2, hc, a, s3, hcr, hloop⟩ := h
  cases hc
  obtain ⟨dl, tl⟩ := kvLoop_emits hs k _ _ _ _ _ hloop hd
  obtain ⟨rfl, hw3, hrem3, hd3⟩ := create_spec hcr
  obtain ⟨ds, es, ts⟩ := hs _ _ _ hs1 (by omega)
  refine ⟨ds, fun hws => ?_⟩
  obtain ⟨w1, r1⟩ := ts hws
  rw [w1] at tl
  obtain ⟨w4, X, hX, r4⟩ := tl _ (emptyArgs_shape _ _) es hw3
  exact ⟨w4, by rw [r1, ← hrem3, r4, hX]; simp [List.append_assoc]⟩

/-! ### `e9`, `e8`, method calls and indexing -/

/-- as `sym_after_accept`, for `block_start = self.current; if self.accept(t): create_node(SymbolNode, block_start)` -/
theorem sym_after_accept' {t : Tid} {st s1 s2 : PState} {o : Node}
    (ha : accept t st = .ok (true, s1)) (hc : createSymbol st.cur s1 = .ok (o, s2))
    (hp : plainTid t = true) :
    s2.lossy = st.lossy ∧ s2.ws = [] ∧ (st.ws = [] → rem st = emit o ++ rem s2) := by
  have : s1.prev = st.cur := by
    rcases accept_spec ha with ⟨h, _⟩ | ⟨_, _, _, hprev, _⟩
    · cases h
    · exact hprev
  rw [← this] at hc
  exact sym_after_accept ha hc hp

theorem e9_emits {stmt : P Node} (hs : Emits stmt) (k : Nat) : Emits (e9 stmt k) := by
  intro st n st' h hd
  simp only [e9, bind_ok, cur_ok] at h
  obtain ⟨bs, s0, hbs, b1, s1, ha1, h⟩ := h
  cases hbs
  cases b1
  case true =>
    simp only [if_true, bind_ok, prev_ok, pure_ok] at h
    obtain ⟨lpar, s2, hl, e, s3, he, _, s4, hbe, tk, s5, hpv, rpar, s6, hr, h⟩ := h
    cases hpv; cases h
    obtain ⟨dr, wr, tr⟩ := sym_after_accept (blockExpect_spec hbe) hr (by decide)
    obtain ⟨de, ee, te⟩ := hs _ _ _ he (by omega)
    obtain ⟨dl, wl, tl⟩ := sym_after_accept' ha1 hl (by decide)
    refine ⟨by omega, fun hn => by simp [Node.isEmpty] at hn, fun hws => ?_⟩
    obtain ⟨w3, r3⟩ := te wl
    refine ⟨wr, ?_⟩
    rw [tl hws, r3, tr w3]; simp [emit_paren, List.append_assoc]
  case false =>
    cases accept_false ha1
    simp only [Bool.false_eq_true, if_false, bind_ok] at h
    obtain ⟨b2, s2, ha2, h⟩ := h
    cases b2
    case true =>
      simp only [if_true, bind_ok, prev_ok] at h
      obtain ⟨lb, s3, hl, a, s4, hargs, _, s5, hbe, tk, s6, hpv, rb, s7, hr, hcr⟩ := h
      cases hpv
      obtain ⟨rfl, hw8, hrem8, hd8⟩ := create_spec hcr
      obtain ⟨dr, wr, tr⟩ := sym_after_accept (blockExpect_spec hbe) hr (by decide)
      obtain ⟨da, ta⟩ := args_emits hs k _ _ _ hargs (by omega)
      obtain ⟨dl, wl, tl⟩ := sym_after_accept' ha2 hl (by decide)
      refine ⟨by omega, fun hn => ?_, fun hws => ?_⟩
      · simp [Node.addWs, Node.addWsBase, Node.mapBase, Node.isEmpty] at hn
      · obtain ⟨w4, r4⟩ := ta wl
        refine ⟨hw8, ?_⟩
        rw [emit_addWs (.array _ _ _ _) _ trivial, wr, tl hws, r4, tr w4, hrem8]
        simp [emit_array, List.append_assoc]
    case false =>
      cases accept_false ha2
      simp only [Bool.false_eq_true, if_false, bind_ok] at h
      obtain ⟨b3, s3, ha3, h⟩ := h
      cases b3
      case true =>
        simp only [if_true, bind_ok, prev_ok] at h
        obtain ⟨lb, s3, hl, a, s4, hargs, _, s5, hbe, tk, s6, hpv, rb, s7, hr, hcr⟩ := h
        cases hpv
        obtain ⟨rfl, hw8, hrem8, hd8⟩ := create_spec hcr
        obtain ⟨dr, wr, tr⟩ := sym_after_accept (blockExpect_spec hbe) hr (by decide)
        obtain ⟨da, ta⟩ := keyValues_emits hs k _ _ _ hargs (by omega)
        obtain ⟨dl, wl, tl⟩ := sym_after_accept' ha3 hl (by decide)
        refine ⟨by omega, fun hn => ?_, fun hws => ?_⟩
        · simp [Node.addWs, Node.addWsBase, Node.mapBase, Node.isEmpty] at hn
        · obtain ⟨w4, r4⟩ := ta wl
          refine ⟨hw8, ?_⟩
          rw [emit_addWs (.dict _ _ _ _) _ trivial, wr, tl hws, r4, tr w4, hrem8]
          simp [emit_dict, List.append_assoc]
      case false =>
        cases accept_false ha3
        simp only [Bool.false_eq_true, if_false] at h
        exact e10_emits _ _ _ h hd

/-- `index_call`, entered right after `accept('lbracket')` -/
theorem indexCall_emits {stmt : P Node} (hs : Emits stmt) {source : Node} {s0 st st' : PState} {n : Node}
    (ha : accept .lbracket s0 = .ok (true, st)) (h : indexCall stmt source st = .ok (n, st'))
    (hd : st'.lossy = 0) :
    s0.lossy = 0 ∧ n.isEmpty = false ∧
      (s0.ws = [] → st'.ws = [] ∧ ∃ X, emit n = emit source ++ X ∧ rem s0 = X ++ rem st') := by
  simp only [indexCall, bind_ok, prev_ok] at h
  obtain ⟨tk, s1, hpv, lb, s2, hl, idx, s3, hi, _, s4, hex, tk2, s5, hpv2, rb, s6, hr, hcr⟩ := h
  cases hpv; cases hpv2
  obtain ⟨rfl, hw7, hrem7, hd7⟩ := create_spec hcr
  obtain ⟨dr, wr, tr⟩ := sym_after_accept (expect_spec hex) hr (by decide)
  obtain ⟨di, ei, ti⟩ := hs _ _ _ hi (by omega)
  obtain ⟨dl, wl, tl⟩ := sym_after_accept ha hl (by decide)
  refine ⟨by omega, by simp [Node.addWs, Node.addWsBase, Node.mapBase, Node.isEmpty], fun hws => ?_⟩
  obtain ⟨w3, r3⟩ := ti wl
  refine ⟨hw7, emit lb ++ emit idx ++ emit rb, ?_, ?_⟩
  · rw [emit_addWs (.index _ _ _ _ _) _ trivial, wr]; simp [emit_index, Base.at, List.append_assoc]
  · rw [tl hws, r3, tr w3, hrem7]; simp [List.append_assoc]

theorem create_nows {nd n : Node} {st st' : PState} (h : create nd st = .ok (n, st')) (hws : st.ws = [])
    (hbc : nd.blockClean) : emit n = emit nd ∧ st' = st := by
  simp [create] at h; obtain ⟨rfl, rfl⟩ := h
  refine ⟨by rw [emit_addWs _ _ hbc, hws]; simp, ?_⟩
  cases st; simp_all

/-- `method_call`, entered right after `accept('dot')` -/
theorem methodCall_emits {stmt : P Node} (hs : Emits stmt) (k : Nat) (j : Nat) :
    ∀ {source : Node} {s0 st st' : PState} {n : Node},
    accept .dot s0 = .ok (true, st) → methodCall stmt k j source st = .ok (n, st') → st'.lossy = 0 →
    s0.lossy = 0 ∧ n.isEmpty = false ∧
      (s0.ws = [] → st'.ws = [] ∧ ∃ X, emit n = emit source ++ X ∧ rem s0 = X ++ rem st') := by
  induction j with
  | zero => intro source s0 st st' n _ h; simp [methodCall, fail_ok] at h
  | succ j ih =>
    intro source s0 st st' n ha h hd
    simp only [methodCall, bind_ok, prev_ok] at h
    obtain ⟨tk, s1, hpv, dot, s2, hdot, name, s3, hname, h⟩ := h
    cases hpv
    split at h
    · split at h
      · simp [raiseAt_ok] at h
      · simp [bind_ok, cur_ok, fail_ok] at h
    · simp only [bind_ok, prev_ok, cur_ok] at h
      obtain ⟨_, s4, hex, tk2, s5, hpv2, lpar, s6, hlp, a, s7, hargs, ct, s8, hct, rpar, s9, hrp, _, s10, hex2,
        m, s11, hcr, b, s12, hdot2, h⟩ := h
      cases hpv2; cases hct
      -- the tail: either another `.name(...)` or done
      have tail : s11.lossy = 0 ∧ n.isEmpty = false ∧
          (s11.ws = [] → st'.ws = [] ∧ ∃ X, emit n = emit m ++ X ∧ rem s11 = X ++ rem st') := by
        cases b
        case true =>
          simp only [if_true] at h
          exact ih hdot2 h hd
        case false =>
          cases accept_false hdot2
          simp only [Bool.false_eq_true, if_false, pure_ok] at h
          cases h
          obtain ⟨rfl, _, _, _⟩ := create_spec hcr
          exact ⟨hd, by simp [Node.addWs, Node.addWsBase, Node.mapBase, Node.isEmpty],
            fun hws => ⟨hws, [], by simp, by simp⟩⟩
      obtain ⟨d11, ne, tt⟩ := tail
      obtain ⟨dm1, _, _, hem, wm, _, tm⟩ := accept_create (expect_spec hex2) hcr (by decide) trivial
      obtain ⟨_, _, _, d9⟩ := create_spec hrp
      obtain ⟨da, ta⟩ := args_emits hs k _ _ _ hargs (by omega)
      obtain ⟨dlp, wlp, tlp⟩ := sym_after_accept (expect_spec hex) hlp (by decide)
      obtain ⟨dn, en, tn⟩ := e10_emits _ _ _ hname (by omega)
      obtain ⟨dd, wd, td⟩ := sym_after_accept ha hdot (by decide)
      refine ⟨by omega, ne, fun hws => ?_⟩
      obtain ⟨w3, r3⟩ := tn wd
      obtain ⟨w7, r7⟩ := ta wlp
      obtain ⟨erp, hs9⟩ := create_nows hrp w7 trivial
      have w9 : s9.ws = [] := by rw [hs9]; exact w7
      have r9 : rem s7 = rem s9 := by rw [hs9]
      obtain ⟨wE, X, hX, rE⟩ := tt wm
      have p1 : printed s9.cur = s9.cur.value := printed_plain (by
        rcases accept_spec (expect_spec hex2) with ⟨h', _⟩ | ⟨_, ht, _⟩
        · cases h'
        · rw [ht]; decide)
      refine ⟨wE, emit dot ++ emit name ++ emit lpar ++ emit a ++ s9.cur.value ++ wsText s10.ws ++ X, ?_, ?_⟩
      · rw [hX, hem, emit_method, erp, emit_symbolOf, hs9]; simp [List.append_assoc]
      · rw [td hws, r3, tlp w3, r7, r9, tm w9, p1, rE]; simp [List.append_assoc]

theorem LoopEmits_refl_step {left n : Node} {st st' : PState} (h : (n, st') = (left, st)) (hd : st'.lossy = 0) :
    st.lossy = 0 ∧ (n.isEmpty = true → n = left) ∧
      (st.ws = [] → st'.ws = [] ∧ ∃ X, emit n = emit left ++ X ∧ rem st = X ++ rem st') := by
  cases h
  exact ⟨hd, fun _ => rfl, fun hws => ⟨hws, [], by simp, by simp⟩⟩

theorem e8Loop_emits {stmt : P Node} (hs : Emits stmt) (k : Nat) (j : Nat) :
    LoopEmits (e8Loop stmt k j) := by
  induction j with
  | zero => intro left st n st' h; simp [e8Loop, fail_ok] at h
  | succ j ih =>
    intro left st n st' h hd
    simp only [e8Loop, bind_ok] at h
    obtain ⟨d, s1, hdot, h⟩ := h
    cases d
    case true =>
      simp only [if_true, bind_ok, Bool.true_or] at h
      obtain ⟨m, s2, hm, b, s3, hb, h⟩ := h
      cases b
      case true =>
        simp only [if_true, bind_ok] at h
        obtain ⟨ix, s4, hix, hloop⟩ := h
        obtain ⟨dl, el, tl⟩ := ih _ _ _ _ hloop hd
        obtain ⟨di, nei, ti⟩ := indexCall_emits hs hb hix dl
        obtain ⟨dm, nem, tm⟩ := methodCall_emits hs k k hdot hm di
        refine ⟨dm, fun hn => ?_, fun hws => ?_⟩
        · have := el hn; subst this; simp [nei] at hn
        · obtain ⟨w2, X1, hX1, r1⟩ := tm hws
          obtain ⟨w4, X2, hX2, r2⟩ := ti w2
          obtain ⟨w5, X3, hX3, r3⟩ := tl w4
          exact ⟨w5, X1 ++ X2 ++ X3, by rw [hX3, hX2, hX1]; simp [List.append_assoc],
            by rw [r1, r2, r3]; simp [List.append_assoc]⟩
      case false =>
        cases accept_false hb
        simp only [Bool.false_eq_true, if_false, bind_ok, pure_ok] at h
        obtain ⟨_, _, hp, hloop⟩ := h
        cases hp
        obtain ⟨dl, el, tl⟩ := ih _ _ _ _ hloop hd
        obtain ⟨dm, nem, tm⟩ := methodCall_emits hs k k hdot hm dl
        refine ⟨dm, fun hn => ?_, fun hws => ?_⟩
        · have := el hn; subst this; simp [nem] at hn
        · obtain ⟨w2, X1, hX1, r1⟩ := tm hws
          obtain ⟨w5, X3, hX3, r3⟩ := tl w2
          exact ⟨w5, X1 ++ X3, by rw [hX3, hX1]; simp [List.append_assoc],
            by rw [r1, r3]; simp [List.append_assoc]⟩
    case false =>
      cases accept_false hdot
      simp only [Bool.false_eq_true, if_false, bind_ok, pure_ok, Bool.false_or] at h
      obtain ⟨_, _, hp, b, s3, hb, h⟩ := h
      cases hp
      cases b
      case true =>
        simp only [if_true, bind_ok] at h
        obtain ⟨ix, s4, hix, hloop⟩ := h
        obtain ⟨dl, el, tl⟩ := ih _ _ _ _ hloop hd
        obtain ⟨di, nei, ti⟩ := indexCall_emits hs hb hix dl
        refine ⟨di, fun hn => ?_, fun hws => ?_⟩
        · have := el hn; subst this; simp [nei] at hn
        · obtain ⟨w4, X2, hX2, r2⟩ := ti hws
          obtain ⟨w5, X3, hX3, r3⟩ := tl w4
          exact ⟨w5, X2 ++ X3, by rw [hX3, hX2]; simp [List.append_assoc],
            by rw [r2, r3]; simp [List.append_assoc]⟩
      case false =>
        cases accept_false hb
        simp only [Bool.false_eq_true, if_false, bind_ok, pure_ok] at h
        obtain ⟨_, _, hp, h⟩ := h
        cases hp
        exact LoopEmits_refl_step h hd

theorem e8_emits {stmt : P Node} (hs : Emits stmt) (k : Nat) : Emits (e8 stmt k) := by
  intro st n st' h hd
  simp only [e8, bind_ok, cur_ok] at h
  obtain ⟨left, s1, h9, bs, s2, hbs, b, s3, hlp, h⟩ := h
  cases hbs
  cases b
  case false =>
    cases accept_false hlp
    simp only [Bool.false_eq_true, if_false, bind_ok, pure_ok] at h
    obtain ⟨_, _, hp, hloop⟩ := h
    cases hp
    obtain ⟨dl, el, tl⟩ := e8Loop_emits hs k k _ _ _ _ hloop hd
    obtain ⟨d9, e9', t9⟩ := e9_emits hs k _ _ _ h9 dl
    refine ⟨d9, fun hn => ?_, fun hws => ?_⟩
    · have := el hn; subst this; exact e9' hn
    · obtain ⟨w1, r1⟩ := t9 hws
      obtain ⟨w2, X, hX, r2⟩ := tl w1
      exact ⟨w2, by rw [r1, r2, hX]; simp [List.append_assoc]⟩
  case true =>
    simp only [if_true, bind_ok, prev_ok] at h
    obtain ⟨lpar, s4, hl, a, s5, hargs, _, s6, hbe, tk, s7, hpv, rpar, s8, hr, h⟩ := h
    cases hpv
    split at h
    · simp [bind_ok, raiseAt_ok] at h
    · simp only [bind_ok] at h
      obtain ⟨fn, s9, hcr, hloop⟩ := h
      obtain ⟨dl, el, tl⟩ := e8Loop_emits hs k k _ _ _ _ hloop hd
      obtain ⟨rfl, hw9, hrem9, hd9⟩ := create_spec hcr
      obtain ⟨dr, wr, tr⟩ := sym_after_accept (blockExpect_spec hbe) hr (by decide)
      obtain ⟨da, ta⟩ := args_emits hs k _ _ _ hargs (by omega)
      obtain ⟨dlp, wlp, tlp⟩ := sym_after_accept' hlp hl (by decide)
      obtain ⟨d9, e9', t9⟩ := e9_emits hs k _ _ _ h9 (by omega)
      refine ⟨d9, fun hn => ?_, fun hws => ?_⟩
      · have := el hn; subst this; simp [Node.addWs, Node.addWsBase, Node.mapBase, Node.isEmpty] at hn
      · obtain ⟨w1, r1⟩ := t9 hws
        obtain ⟨w5, r5⟩ := ta wlp
        obtain ⟨wE, X, hX, rE⟩ := tl hw9
        refine ⟨wE, ?_⟩
        rw [hX, emit_addWs (.function _ _ _ _ _) _ trivial, wr, r1, tlp w1, r5, tr w5, ← hrem9, rE]
        simp [emit_function, List.append_assoc]

/-- `statement()` for every fuel -/
theorem statement_emits (fuel : Nat) : Emits (statement fuel) := by
  induction fuel with
  | zero => intro st n st' h; simp [statement, fail_ok] at h
  | succ m ih =>
    have h8 := e8_emits ih m
    have h7 := e7_emits h8
    have h6 := e6_emits h7
    have h5 := e5_emits h6
    have h4 := e4_emits h5
    have h3 := e3_emits h4
    have h2 := e2_emits h3
    exact e1_emits ih h2

/-! ### blocks -/

/-- invariant of `codeblock()`: entered with anything pending, leaves nothing pending -/
def EmitsB (cb : P Node) : Prop :=
  ∀ st n st', cb st = .ok (n, st') → st'.lossy = 0 →
    st.lossy = 0 ∧ st'.ws = [] ∧ G st = emit n ++ rem st'

theorem accept_G {t : Tid} {st s1 : PState} (ha : accept t st = .ok (true, s1)) (hp : plainTid t = true) :
    s1.lossy = st.lossy ∧ (st.ws = [] → rem st = st.cur.value ++ G s1) := by
  rcases accept_spec ha with ⟨h, _⟩ | ⟨_, htid, hG, _, hfl⟩
  · cases h
  · refine ⟨hfl.dropped, fun hws => ?_⟩
    have hne : st.cur.tid ≠ .eol := by rw [htid]; intro h; subst h; simp [plainTid] at hp
    rw [G_consume hws hne hG, printed_plain (by rw [htid]; exact hp)]

/-- `self.expect('eol')`: the newline was pushed on `current_ws` when it became current -/
theorem accept_eol_G {st s1 : PState} (ha : accept .eol st = .ok (true, s1)) :
    s1.lossy = st.lossy ∧ G st = G s1 := by
  rcases accept_spec ha with ⟨h, _⟩ | ⟨_, htid, hG, _, hfl⟩
  · cases h
  · exact ⟨hfl.dropped, by rw [hG]; simp [G, rem, htid]⟩

theorem G_of_ws_nil {st : PState} (h : st.ws = []) : G st = rem st := by simp [G, h]

/-- result of a block statement whose closing keyword is still the current token -/
def OpenBlock (s0 : PState) (n : Node) (st' : PState) : Prop :=
  s0.lossy = 0 ∧ (n.isEmpty = false ∧ n.isBlock = false) ∧
    (s0.ws = [] → st'.ws = [] ∧ ∃ pre, emit n = pre ++ st'.cur.value ∧ rem s0 = pre ++ rem st')

theorem isBlock_addWs (n : Node) (ws : List Token) : (n.addWs ws).isBlock = n.isBlock := by
  cases n
  case codeblock b pre lines => simp only [Node.addWs]; split <;> rfl
  all_goals rfl

theorem foreach_tail {stmt cb : P Node} (hs : Emits stmt) (hcb : EmitsB cb) {kw : Node} {vars commas : List Node}
    {s : PState} {n : Node} {st' : PState}
    (h : (do
            expect Tid.colon
            let colon ← createSymbol (← prev)
            let items ← stmt
            let block ← cb
            let endkw ← createSymbol (← cur)
            create (Node.foreach (Base.at kw.lineno kw.colno) kw vars commas colon items block endkw)) s =
          .ok (n, st')) (hd : st'.lossy = 0) :
    s.lossy = 0 ∧ (n.isEmpty = false ∧ n.isBlock = false) ∧
      (s.ws = [] → st'.ws = [] ∧ ∃ X, emit n = emit kw ++ interleaveVars (emitL vars) (emitL commas) ++ X ++ st'.cur.value ∧
        rem s = X ++ rem st') := by
  simp only [bind_ok, prev_ok, cur_ok] at h
  obtain ⟨_, s1, hex, tk, s2, hpv, colon, s3, hcol, items, s4, hit, block, s5, hb, ct, s6, hct, endkw, s7, hek, hcr⟩ := h
  cases hpv; cases hct
  obtain ⟨rfl, hw8, hrem8, hd8⟩ := create_spec hcr
  obtain ⟨_, _, _, d7⟩ := create_spec hek
  obtain ⟨db, wb, tb⟩ := hcb _ _ _ hb (by omega)
  obtain ⟨di, ei, ti⟩ := hs _ _ _ hit db
  obtain ⟨dc, wc, tc⟩ := sym_after_accept (expect_spec hex) hcol (by decide)
  refine ⟨by omega, ⟨by simp [Node.addWs, Node.addWsBase, Node.mapBase, Node.isEmpty],
    by rw [isBlock_addWs]; rfl⟩, fun hws => ?_⟩
  obtain ⟨w4, r4⟩ := ti wc
  obtain ⟨eek, hs7⟩ := create_nows hek wb trivial
  have w7 : s7.ws = [] := by rw [hs7]; exact wb
  obtain ⟨ecr, hs8⟩ := create_nows hcr w7 trivial
  refine ⟨hw8, emit colon ++ emit items ++ emit block, ?_, ?_⟩
  · rw [ecr, emit_foreach, eek, emit_symbolOf, hs8, hs7]; simp [Base.at, List.append_assoc]
  · rw [tc hws, r4, ← G_of_ws_nil w4, tb, hs8, hs7]; simp [List.append_assoc]

theorem id_after_expect {s s1 s2 : PState} {u : Unit} {v : Node} (hex : expect .id s = .ok (u, s1))
    (hcr : create (Node.id (Base.ofTok s1.prev) s1.prev.value) s1 = .ok (v, s2)) :
    s2.lossy = s.lossy ∧ s2.ws = [] ∧ (s.ws = [] → rem s = emit v ++ rem s2) := by
  obtain ⟨h1, h2, h3, h4, h5, _, h7⟩ := accept_create (expect_spec hex) hcr (by decide) trivial
  refine ⟨h1, h5, fun hws => ?_⟩
  rw [h7 hws, h4, h3, emit_id, printed_plain (by rw [h2]; decide)]
  simp [Base.ofTok, List.append_assoc]

theorem foreachBlock_emits {stmt cb : P Node} (hs : Emits stmt) (hcb : EmitsB cb) {s0 st st' : PState} {n : Node}
    (ha : accept .kForeach s0 = .ok (true, st)) (h : foreachBlock stmt cb st = .ok (n, st'))
    (hd : st'.lossy = 0) : OpenBlock s0 n st' := by
  simp only [foreachBlock, bind_ok, prev_ok] at h
  obtain ⟨tk, s1, hpv, kw, s2, hkw, _, s3, hex, p, s4, hpv2, v1, s5, hv1, b, s6, hcm, h⟩ := h
  cases hpv; cases hpv2
  cases b
  case false =>
    cases accept_false hcm
    simp only [Bool.false_eq_true, if_false, bind_ok, pure_ok] at h
    obtain ⟨_, _, hp, h⟩ := h
    cases hp
    obtain ⟨dt, ne, tt⟩ := foreach_tail (kw := kw) (vars := [v1]) (commas := []) hs hcb
      (by simp only [bind_ok]; exact h) hd
    obtain ⟨dv, wv, tv⟩ := id_after_expect hex hv1
    obtain ⟨dk, wk, tk⟩ := sym_after_accept ha hkw (by decide)
    refine ⟨by omega, ne, fun hws => ?_⟩
    obtain ⟨wE, X, hX, rE⟩ := tt wv
    refine ⟨wE, emit kw ++ emit v1 ++ X, ?_, ?_⟩
    · rw [hX]; simp [interleaveVars, emitL_cons, emitL_nil, List.append_assoc]
    · rw [tk hws, tv wk, rE]; simp [List.append_assoc]
  case true =>
    simp only [if_true, bind_ok, prev_ok, pure_ok] at h
    obtain ⟨tk2, s7, hpv3, c, s8, hc, _, s9, hex2, p2, s10, hpv4, v2, s11, hv2, _, _, hp, h⟩ := h
    cases hpv3; cases hpv4; cases hp
    obtain ⟨dt, ne, tt⟩ := foreach_tail (kw := kw) (vars := [v1, v2]) (commas := [c]) hs hcb
      (by simp only [bind_ok, prev_ok]; exact h) hd
    obtain ⟨dv2, wv2, tv2⟩ := id_after_expect hex2 hv2
    obtain ⟨dc, wc, tc⟩ := sym_after_accept hcm hc (by decide)
    obtain ⟨dv, wv, tv⟩ := id_after_expect hex hv1
    obtain ⟨dk, wk, tk⟩ := sym_after_accept ha hkw (by decide)
    refine ⟨by omega, ne, fun hws => ?_⟩
    obtain ⟨wE, X, hX, rE⟩ := tt wv2
    refine ⟨wE, emit kw ++ emit v1 ++ emit c ++ emit v2 ++ X, ?_, ?_⟩
    · rw [hX]; simp [interleaveVars, emitL_cons, emitL_nil, List.append_assoc]
    · rw [tk hws, tv wk, tc wv, tv2 wc, rE]; simp [List.append_assoc]

theorem elseifLoop_emits {stmt cb : P Node} (hs : Emits stmt) (hcb : EmitsB cb) (j : Nat) :
    ∀ {ifs ifs' : List Node} {st st' : PState}, elseifLoop stmt cb j ifs st = .ok (ifs', st') → st'.lossy = 0 →
      st.lossy = 0 ∧ (st.ws = [] → st'.ws = [] ∧
        ∃ X, (emitL ifs').flatten = (emitL ifs).flatten ++ X ∧ rem st = X ++ rem st') := by
  induction j with
  | zero => intro ifs ifs' st st' h; simp [elseifLoop, fail_ok] at h
  | succ j ih =>
    intro ifs ifs' st st' h hd
    simp only [elseifLoop, bind_ok] at h
    obtain ⟨b, s1, ha, h⟩ := h
    cases b
    case false =>
      cases accept_false ha
      simp only [Bool.false_eq_true, if_false, pure_ok] at h
      cases h
      exact ⟨hd, fun hws => ⟨hws, [], by simp, by simp⟩⟩
    case true =>
      simp only [if_true, bind_ok, prev_ok] at h
      obtain ⟨tk, s2, hpv, kw, s3, hkw, c, s4, hc, _, s5, hex, b, s6, hb, nd, s7, hcr, hloop⟩ := h
      cases hpv
      obtain ⟨dl, tl⟩ := ih hloop hd
      obtain ⟨_, _, _, d7⟩ := create_spec hcr
      obtain ⟨db, wb, tb⟩ := hcb _ _ _ hb (by omega)
      obtain ⟨de, ge⟩ := accept_eol_G (expect_spec hex)
      obtain ⟨dc, ec, tc⟩ := hs _ _ _ hc (by omega)
      obtain ⟨dk, wk, tk⟩ := sym_after_accept ha hkw (by decide)
      refine ⟨by omega, fun hws => ?_⟩
      obtain ⟨w4, r4⟩ := tc wk
      obtain ⟨ecr, hs7⟩ := create_nows hcr wb trivial
      have w7 : s7.ws = [] := by rw [hs7]; exact wb
      obtain ⟨wE, X, hX, rE⟩ := tl w7
      refine ⟨wE, emit kw ++ emit c ++ emit b ++ X, ?_, ?_⟩
      · rw [hX, emitL_snoc, ecr, emit_ifnode]; simp [Base.at, List.append_assoc]
      · rw [tk hws, r4, ← G_of_ws_nil w4, ge, tb, ← hs7, rE]; simp [List.append_assoc]

theorem elseBlock_emits {cb : P Node} (hcb : EmitsB cb) {st st' : PState} {n : Node}
    (h : elseBlock cb st = .ok (n, st')) (hd : st'.lossy = 0) :
    st.lossy = 0 ∧ (st.ws = [] → st'.ws = [] ∧ rem st = emit n ++ rem st') := by
  simp only [elseBlock, bind_ok] at h
  obtain ⟨b, s1, ha, h⟩ := h
  cases b
  case false =>
    cases accept_false ha
    simp only [Bool.false_eq_true, if_false, emptyAtCur] at h
    cases h
    exact ⟨hd, fun hws => ⟨hws, by simp [emit_empty, Base.at]⟩⟩
  case true =>
    simp only [if_true, bind_ok, prev_ok, pure_ok] at h
    obtain ⟨tk, s2, hpv, kw, s3, hkw, _, s4, hex, b, s5, hb, h⟩ := h
    cases hpv; cases h
    obtain ⟨db, wb, tb⟩ := hcb _ _ _ hb hd
    obtain ⟨de, ge⟩ := accept_eol_G (expect_spec hex)
    obtain ⟨dk, wk, tk⟩ := sym_after_accept ha hkw (by decide)
    refine ⟨by omega, fun hws => ⟨wb, ?_⟩⟩
    rw [tk hws, ← G_of_ws_nil wk, ge, tb]; simp [emit_elsenode, Base.at, List.append_assoc]

theorem ifBlock_emits {stmt cb : P Node} (hs : Emits stmt) (hcb : EmitsB cb) (k : Nat) {s0 st st' : PState} {n : Node}
    (ha : accept .kIf s0 = .ok (true, st)) (h : ifBlock stmt cb k st = .ok (n, st'))
    (hd : st'.lossy = 0) : OpenBlock s0 n st' := by
  simp only [ifBlock, bind_ok, prev_ok, cur_ok, pure_ok] at h
  obtain ⟨tk, s1, hpv, kw, s2, hkw, c, s3, hc, clause, s4, hcl, _, s5, hex, b, s6, hb, first, s7, hf,
    ifs, s8, hifs, elseb, s9, hel, ct, s10, hct, endif, s11, hen, h⟩ := h
  cases hpv; cases hct; cases h
  obtain ⟨_, _, _, d11⟩ := create_spec hen
  obtain ⟨del, tel⟩ := elseBlock_emits hcb hel (by omega)
  obtain ⟨dif, tif⟩ := elseifLoop_emits hs hcb k hifs del
  obtain ⟨_, _, _, d7⟩ := create_spec hf
  obtain ⟨db, wb, tb⟩ := hcb _ _ _ hb (by omega)
  obtain ⟨de, ge⟩ := accept_eol_G (expect_spec hex)
  obtain ⟨_, _, _, d4⟩ := create_spec hcl
  obtain ⟨dc, ec, tc⟩ := hs _ _ _ hc (by omega)
  obtain ⟨dk, wk, tk⟩ := sym_after_accept ha hkw (by decide)
  refine ⟨by omega, ⟨rfl, rfl⟩, fun hws => ?_⟩
  obtain ⟨w3, r3⟩ := tc wk
  have hclause : clause = Node.addWs s3.ws
      (.ifclause (Base.at c.lineno c.colno) [] (.empty (Base.at c.lineno c.colno)) (.empty (Base.at 0 0))) :=
    (create_spec hcl).1
  have hs4 : s4 = s3 := (create_nows hcl w3 trivial).2
  have hcw : clause.base.ws = [] := by
    rw [hclause, w3]; simp [Node.addWs, Node.addWsBase, Node.mapBase, Node.base, Base.at]
  obtain ⟨ef, hs7⟩ := create_nows hf wb trivial
  have w7 : s7.ws = [] := by rw [hs7]; exact wb
  obtain ⟨w8, X, hX, r8⟩ := tif w7
  obtain ⟨w9, r9⟩ := tel w8
  obtain ⟨een, hs11⟩ := create_nows hen w9 trivial
  refine ⟨by rw [hs11]; exact w9, emit kw ++ emit c ++ emit b ++ X ++ emit elseb, ?_, ?_⟩
  · rw [emit_ifclause, hX, emitL_cons, emitL_nil, ef, emit_ifnode, een, emit_symbolOf, hcw, hs11]
    simp [Base.at, List.append_assoc]
  · rw [tk hws, r3, ← G_of_ws_nil w3, ← hs4, ge, tb, ← hs7, r8, r9, hs11]; simp [List.append_assoc]

/-- a line may leave the trivia after its closing keyword pending -/
def EmitsLine (f : P Node) : Prop :=
  ∀ st n st', f st = .ok (n, st') → st'.lossy = 0 →
    st.lossy = 0 ∧ (n.isEmpty = true → emit n = []) ∧
    (st.ws = [] → rem st = emit n ++ G st')

theorem openBlock_close {t : Tid} {s0 st1 st' : PState} {n : Node} {u : Unit}
    (ho : st1.lossy = 0 → OpenBlock s0 n st1)
    (hbe : blockExpect t st1 = .ok (u, st')) (hp : plainTid t = true) (hd : st'.lossy = 0) :
    s0.lossy = 0 ∧ (n.isEmpty = false ∧ n.isBlock = false) ∧ (s0.ws = [] → rem s0 = emit n ++ G st') := by
  obtain ⟨da, ta⟩ := accept_G (blockExpect_spec hbe) hp
  obtain ⟨d0, ne, t0⟩ := ho (by omega)
  refine ⟨d0, ne, fun hws => ?_⟩
  obtain ⟨w1, pre, hpre, r1⟩ := t0 hws
  rw [r1, ta w1, hpre]; simp [List.append_assoc]

theorem line_emits {stmt cb : P Node} (hs : Emits stmt) (hcb : EmitsB cb) (k : Nat) :
    EmitsLine (line stmt cb k) := by
  intro st n st' h hd
  simp only [line, bind_ok, cur_ok] at h
  obtain ⟨bs, s0, hbs, h⟩ := h
  cases hbs
  split at h
  · simp only [emptyAtCur] at h; cases h
    exact ⟨hd, fun _ => by simp [emit_empty, Base.at], fun hws => by simp [emit_empty, Base.at, G, hws]⟩
  · simp only [bind_ok] at h
    obtain ⟨b1, s1, ha1, h⟩ := h
    cases b1
    case true =>
      simp only [if_true, bind_ok, pure_ok] at h
      obtain ⟨nd, s2, hif, _, s3, hbe, h⟩ := h
      cases h
      obtain ⟨d0, ne, t0⟩ := openBlock_close (fun hd' => ifBlock_emits hs hcb k ha1 hif hd') hbe (by decide) hd
      exact ⟨d0, fun hn => by simp [ne.1] at hn, t0⟩
    case false =>
      cases accept_false ha1
      simp only [Bool.false_eq_true, if_false, bind_ok] at h
      obtain ⟨b2, s2, ha2, h⟩ := h
      cases b2
      case true =>
        simp only [if_true, bind_ok, pure_ok] at h
        obtain ⟨nd, s3, hfe, _, s4, hbe, h⟩ := h
        cases h
        obtain ⟨d0, ne, t0⟩ := openBlock_close (fun hd' => foreachBlock_emits hs hcb ha2 hfe hd') hbe (by decide) hd
        exact ⟨d0, fun hn => by simp [ne.1] at hn, t0⟩
      case false =>
        cases accept_false ha2
        simp only [Bool.false_eq_true, if_false, bind_ok] at h
        obtain ⟨b3, s3, ha3, h⟩ := h
        cases b3
        case true =>
          simp only [if_true, bind_ok, cur_ok] at h
          obtain ⟨c, s4, hc, hcr⟩ := h
          cases hc
          obtain ⟨h1, h2, h3, h4, h5, h6, h7⟩ := accept_create ha3 hcr (by decide) trivial
          refine ⟨by omega, fun hn => by rw [h6] at hn; simp [Node.isEmpty] at hn, fun hws => ?_⟩
          rw [h7 hws, h4, G_of_ws_nil h5]; simp [printed, h2, emit_continue, Base.ofTok, List.append_assoc]
        case false =>
          cases accept_false ha3
          simp only [Bool.false_eq_true, if_false, bind_ok] at h
          obtain ⟨b4, s4, ha4, h⟩ := h
          cases b4
          case true =>
            simp only [if_true, bind_ok, cur_ok] at h
            obtain ⟨c, s5, hc, hcr⟩ := h
            cases hc
            obtain ⟨h1, h2, h3, h4, h5, h6, h7⟩ := accept_create ha4 hcr (by decide) trivial
            refine ⟨by omega, fun hn => by rw [h6] at hn; simp [Node.isEmpty] at hn, fun hws => ?_⟩
            rw [h7 hws, h4, G_of_ws_nil h5]; simp [printed, h2, emit_break, Base.ofTok, List.append_assoc]
          case false =>
            cases accept_false ha4
            simp only [Bool.false_eq_true, if_false] at h
            obtain ⟨d0, e0, t0⟩ := hs _ _ _ h hd
            exact ⟨d0, e0, fun hws => by obtain ⟨w, r⟩ := t0 hws; rw [r, G_of_ws_nil w]⟩

/-- the block under construction: a `CodeBlockNode` without whitespace of its own -/
def IsOpenBlock (n : Node) : Prop := ∃ b pre lines, n = .codeblock b pre lines ∧ b.ws = []

theorem IsOpenBlock.clean {n : Node} (h : IsOpenBlock n) : n.blockClean := by
  obtain ⟨b, pre, lines, rfl, hb⟩ := h; exact hb

theorem IsOpenBlock.addWs {n : Node} (h : IsOpenBlock n) (ws : List Token) : IsOpenBlock (n.addWs ws) := by
  obtain ⟨b, pre, lines, rfl, hb⟩ := h
  simp only [Node.addWs]
  split
  · exact ⟨b, _, _, rfl, hb⟩
  · exact ⟨b, _, _, rfl, hb⟩

theorem flushWs_spec {block n : Node} {st st' : PState} (h : flushWs block st = .ok (n, st')) :
    n = block.addWs st.ws ∧ st'.ws = [] ∧ rem st' = rem st ∧ st'.lossy = st.lossy := by
  simp [flushWs] at h; obtain ⟨rfl, rfl⟩ := h
  exact ⟨rfl, rfl, rfl, rfl⟩

theorem blockAppendLine_spec {block l : Node} (hb : IsOpenBlock block) (he : l.isEmpty = true → emit l = []) :
    IsOpenBlock (blockAppendLine block l) ∧ emit (blockAppendLine block l) = emit block ++ emit l := by
  obtain ⟨b, pre, lines, rfl, hbw⟩ := hb
  simp only [blockAppendLine]
  split
  · rename_i hl
    exact ⟨⟨b, pre, lines, rfl, hbw⟩, by rw [he hl]; simp⟩
  · exact ⟨⟨b, pre, _, rfl, hbw⟩, by simp [emit_codeblock, emitL_snoc, hbw, List.append_assoc]⟩

theorem codeblockLoop_emits {stmt cb : P Node} (hs : Emits stmt) (hcb : EmitsB cb) (k : Nat) (j : Nat) :
    ∀ {block n : Node} {st st' : PState}, codeblockLoop stmt cb k j block st = .ok (n, st') → st'.lossy = 0 →
      st.lossy = 0 ∧ st'.ws = [] ∧
        (IsOpenBlock block → ∃ X, emit n = emit block ++ X ∧ G st = X ++ rem st') := by
  induction j with
  | zero => intro block n st st' h; simp [codeblockLoop, fail_ok] at h
  | succ j ih =>
    intro block n st st' h hd
    simp only [codeblockLoop, bind_ok] at h
    obtain ⟨b1, s1, hfl, l, s2, hl, b, s3, ha, h⟩ := h
    obtain ⟨rfl, w1, r1, d1⟩ := flushWs_spec hfl
    cases b
    case true =>
      simp only [if_true] at h
      obtain ⟨d3, wE, tE⟩ := ih h hd
      obtain ⟨de, ge⟩ := accept_eol_G ha
      obtain ⟨dl, el, tl⟩ := line_emits hs hcb k _ _ _ hl (by omega)
      refine ⟨by omega, wE, fun hb => ?_⟩
      have hb1 := hb.addWs st.ws
      obtain ⟨hb2, e2⟩ := blockAppendLine_spec hb1 el
      obtain ⟨X, hX, rX⟩ := tE hb2
      refine ⟨wsText st.ws ++ emit l ++ X, ?_, ?_⟩
      · rw [hX, e2, emit_addWs _ _ hb.clean]; simp [List.append_assoc]
      · rw [G, ← r1, tl w1, ge, rX]; simp [List.append_assoc]
    case false =>
      cases accept_false ha
      simp only [Bool.false_eq_true, if_false] at h
      obtain ⟨rfl, wE, rE, dE⟩ := flushWs_spec h
      obtain ⟨dl, el, tl⟩ := line_emits hs hcb k _ _ _ hl (by omega)
      refine ⟨by omega, wE, fun hb => ?_⟩
      have hb1 := hb.addWs st.ws
      obtain ⟨hb2, e2⟩ := blockAppendLine_spec hb1 el
      refine ⟨wsText st.ws ++ emit l ++ wsText s2.ws, ?_, ?_⟩
      · rw [emit_addWs _ _ hb2.clean, e2, emit_addWs _ _ hb.clean]; simp [List.append_assoc]
      · rw [G, ← r1, tl w1, G, rE]; simp [List.append_assoc]

/-- `codeblock()` for every fuel -/
theorem codeblock_emits (fuel : Nat) : EmitsB (codeblock fuel) := by
  induction fuel with
  | zero => intro st n st' h; simp [codeblock, fail_ok] at h
  | succ m ih =>
    intro st n st' h hd
    simp only [codeblock, bind_ok, cur_ok] at h
    obtain ⟨c, s0, hc, block, s1, hcr, hloop⟩ := h
    cases hc
    obtain ⟨dl, wE, tE⟩ := codeblockLoop_emits (statement_emits m) ih m m hloop hd
    obtain ⟨rfl, w1, r1, d1⟩ := create_spec hcr
    refine ⟨by omega, wE, ?_⟩
    have hb : IsOpenBlock (Node.addWs st.ws (.codeblock (Base.at st.cur.lineno st.cur.colno) [] [])) :=
      IsOpenBlock.addWs ⟨_, _, _, rfl, rfl⟩ _
    obtain ⟨X, hX, rX⟩ := tE hb
    have hclean : (Node.codeblock (Base.at st.cur.lineno st.cur.colno) [] []).blockClean := rfl
    rw [hX, emit_addWs _ _ hclean, G, ← r1, ← G_of_ws_nil w1, rX]
    simp [emit_codeblock, emitL_nil, Base.at, List.append_assoc]

end MesonModel.Lang
