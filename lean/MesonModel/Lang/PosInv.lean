/-
`parser_error_located`, stage A: every position the parser can put into a `ParseException` /
`BlockParseException`, and the position of every node it returns, is the start position of a token of the
stream, the end position of one (the `eof` token is placed there), the lexer's error position, or `0:0`
(the dummy token before the first `getsym`). `V` is that set, as a parameter.
-/
import MesonModel.Lang.ParserLemmas

namespace MesonModel.Lang

section
variable (V : Nat × Nat → Prop)

def TokS (t : Token) : Prop := V (t.lineno, t.colno)
def TokE (t : Token) : Prop := V (t.lineno, t.colno + t.spanEnd - t.spanStart)
def NodeOk (n : Node) : Prop := V (n.base.lineno, n.base.colno)

def ErrOk : Err → Prop
  | .parse l c => V (l, c)
  | .block l c => V (l, c)
  | _ => True

def SOk (st : PState) : Prop :=
  (TokS V st.cur ∧ TokE V st.cur) ∧ TokS V st.prev ∧ (∀ t ∈ st.rest, TokS V t ∧ TokE V t) ∧
    (∀ p, st.lexErr = some p → V p)

def Val {α} (f : P α) (Q : α → Prop) : Prop :=
  ∀ st, SOk V st → (∀ e, f st = .error e → ErrOk V e) ∧ ∀ a st', f st = .ok (a, st') → SOk V st' ∧ Q a

variable {V}

theorem Val.bind {α β} {m : P α} {f : α → P β} {Q1 : α → Prop} {Q : β → Prop}
    (hm : Val V m Q1) (hf : ∀ a, Q1 a → Val V (f a) Q) : Val V (m >>= f) Q := by
  intro st hs
  obtain ⟨m1, m2⟩ := hm st hs
  have hb : (m >>= f) st = (match m st with | Except.error e => Except.error e | Except.ok (a, s') => f a s') := rfl
  cases hms : m st with
  | error e =>
    rw [hms] at hb
    refine ⟨fun e' he => ?_, fun b st' he => ?_⟩
    · rw [hb] at he; cases he; exact m1 e hms
    · rw [hb] at he; cases he
  | ok p =>
    obtain ⟨a, s1⟩ := p
    rw [hms] at hb
    obtain ⟨g1, q1⟩ := m2 a s1 hms
    obtain ⟨f1, f2⟩ := hf a q1 s1 g1
    exact ⟨fun e' he => by rw [hb] at he; exact f1 e' he, fun b st' he => by rw [hb] at he; exact f2 b st' he⟩

theorem Val.weaken {α} {f : P α} {Q Q' : α → Prop} (h : Val V f Q) (hq : ∀ a, Q a → Q' a) : Val V f Q' :=
  fun st hs => ⟨(h st hs).1, fun a st' hf => ⟨((h st hs).2 a st' hf).1, hq a ((h st hs).2 a st' hf).2⟩⟩

theorem Val.pure {α} {a : α} {Q : α → Prop} (h : Q a) : Val V (Pure.pure a : P α) Q := by
  intro st hs
  refine ⟨fun e he => ?_, fun b st' he => ?_⟩
  · have : (Except.ok (a, st) : Except Err (α × PState)) = Except.error e := he
    cases this
  · have : (Except.ok (a, st) : Except Err (α × PState)) = Except.ok (b, st') := he
    cases this; exact ⟨hs, h⟩

theorem Val.fail {α} {e : Err} {Q : α → Prop} (he : ErrOk V e) : Val V (P.fail e : P α) Q := by
  intro st _
  refine ⟨fun e' h => ?_, fun b st' h => ?_⟩
  · have : (Except.error e : Except Err (α × PState)) = Except.error e' := h
    cases this; exact he
  · cases h

theorem Val.raiseAt {α} {n : Node} {Q : α → Prop} (h : NodeOk V n) : Val V (raiseAt n : P α) Q :=
  Val.fail h

/-- total primitive that keeps `cur`, `prev`, `rest`, `lexErr` -/
theorem Val.prim {α} {f : P α} {Q : α → Prop}
    (h : ∀ st, SOk V st → ∃ a st', f st = .ok (a, st') ∧ st'.cur = st.cur ∧ st'.prev = st.prev ∧
      st'.rest = st.rest ∧ st'.lexErr = st.lexErr ∧ Q a) : Val V f Q := by
  intro st hs
  obtain ⟨a, st', hf, hc, hp, hr, hl, hq⟩ := h st hs
  refine ⟨fun e he => (by rw [hf] at he; cases he), fun b s2 hb => ?_⟩
  rw [hf] at hb; cases hb
  exact ⟨by simp only [SOk, hc, hp, hr, hl]; exact hs, hq⟩

theorem Val.get : Val V P.get (fun s => TokS V s.cur) := Val.prim fun st hs => ⟨st, st, rfl, rfl, rfl, rfl, rfl, hs.1.1⟩
theorem Val.cur : Val V cur (TokS V) := Val.prim fun st hs => ⟨st.cur, st, rfl, rfl, rfl, rfl, rfl, hs.1.1⟩
theorem Val.prev : Val V prev (TokS V) := Val.prim fun st hs => ⟨st.prev, st, rfl, rfl, rfl, rfl, rfl, hs.2.1⟩
theorem Val.emptyAtCur : Val V emptyAtCur (NodeOk V) :=
  Val.prim fun st hs => ⟨_, st, rfl, rfl, rfl, rfl, rfl, hs.1.1⟩
theorem Val.modify {g : PState → PState}
    (hg : ∀ s, (g s).cur = s.cur ∧ (g s).prev = s.prev ∧ (g s).rest = s.rest ∧ (g s).lexErr = s.lexErr) :
    Val V (P.modify g) (fun _ => True) :=
  Val.prim fun st _ => ⟨(), g st, rfl, (hg st).1, (hg st).2.1, (hg st).2.2.1, (hg st).2.2.2, trivial⟩
theorem Val.noteOrder (a : Node) : Val V (noteOrder a) (fun _ => True) := by
  apply Val.modify
  intro s; split <;> exact ⟨rfl, rfl, rfl, rfl⟩

theorem base_addWs (n : Node) (ws : List Token) :
    (n.addWs ws).base.lineno = n.base.lineno ∧ (n.addWs ws).base.colno = n.base.colno := by
  cases n
  case codeblock b pre lines => simp only [Node.addWs]; split <;> exact ⟨rfl, rfl⟩
  all_goals exact ⟨rfl, rfl⟩

theorem Val.create {n : Node} (h : NodeOk V n) : Val V (create n) (NodeOk V) :=
  Val.prim fun st _ => ⟨_, _, rfl, rfl, rfl, rfl, rfl, by
    simp only [NodeOk, (base_addWs n st.ws).1, (base_addWs n st.ws).2]; exact h⟩

theorem Val.createSymbol {t : Token} (h : TokS V t) : Val V (createSymbol t) (NodeOk V) :=
  Val.create h

theorem Val.flushWs {n : Node} (h : NodeOk V n) : Val V (flushWs n) (NodeOk V) :=
  Val.prim fun st _ => ⟨_, _, rfl, rfl, rfl, rfl, rfl, by
    simp only [NodeOk, (base_addWs n st.ws).1, (base_addWs n st.ws).2]; exact h⟩

/-! ### token consumption -/

theorem advance_val {lexErr : Option (Nat × Nat)} {last : Token} {rest ws : List Token}
    (hl : TokE V last) (hr : ∀ t ∈ rest, TokS V t ∧ TokE V t) (he : ∀ p, lexErr = some p → V p) :
    (∀ e, advance lexErr last rest ws = .error e → ErrOk V e) ∧
    ∀ c rest' ws', advance lexErr last rest ws = .ok (c, rest', ws') →
      (TokS V c ∧ TokE V c) ∧ ∀ t ∈ rest', TokS V t ∧ TokE V t := by
  induction rest generalizing last ws with
  | nil =>
    unfold advance
    split
    · rename_i l c
      exact ⟨fun e h => (by cases h; exact he _ rfl), fun c r w h => (by cases h)⟩
    · refine ⟨fun e h => (by cases h), fun c r w h => ?_⟩
      cases h
      refine ⟨⟨?_, ?_⟩, fun t ht => by cases ht⟩
      · simpa [TokS, TokE, eofFrom] using hl
      · simp only [TokE, eofFrom]; simpa [TokE] using hl
  | cons t rest ih =>
    have ht := hr t List.mem_cons_self
    have hr' : ∀ x ∈ rest, TokS V x ∧ TokE V x := fun x hx => hr x (List.mem_cons_of_mem _ hx)
    unfold advance
    split
    · exact ⟨fun e h => (by cases h), fun c r w h => (by cases h; exact ⟨ht, hr'⟩)⟩
    · split
      · exact ih ht.2 hr'
      · exact ⟨fun e h => (by cases h), fun c r w h => (by cases h; exact ⟨ht, hr'⟩)⟩

theorem Val.getsym : Val V getsym (fun _ => True) := by
  intro st hs
  obtain ⟨hc, hp, hr, he⟩ := hs
  obtain ⟨a1, a2⟩ := advance_val (ws := st.ws) hc.2 hr he
  refine ⟨fun e h => ?_, fun u st' h => ?_⟩
  · unfold MesonModel.Lang.getsym at h
    split at h
    · rename_i e' hadv; cases h; exact a1 _ hadv
    · cases h
  · unfold MesonModel.Lang.getsym at h
    split at h
    · cases h
    · rename_i c rest ws hadv
      cases h
      obtain ⟨b1, b2⟩ := a2 _ _ _ hadv
      exact ⟨⟨b1, hc.1, b2, he⟩, trivial⟩

theorem Val.accept (t : Tid) : Val V (accept t) (fun _ => True) := by
  intro st hs
  obtain ⟨g1, g2⟩ := Val.getsym (V := V) st hs
  refine ⟨fun e h => ?_, fun b st' h => ?_⟩
  · unfold MesonModel.Lang.accept at h
    split at h
    · split at h
      · rename_i e' hg; cases h; exact g1 _ hg
      · cases h
    · cases h
  · unfold MesonModel.Lang.accept at h
    split at h
    · split at h
      · cases h
      · rename_i u s' hg; cases h; exact ⟨(g2 _ _ hg).1, trivial⟩
    · cases h; exact ⟨hs, trivial⟩

theorem Val.acceptAny (ts : List Tid) : Val V (acceptAny ts) (fun _ => True) := by
  intro st hs
  obtain ⟨g1, g2⟩ := Val.getsym (V := V) st hs
  refine ⟨fun e h => ?_, fun b st' h => ?_⟩
  · unfold MesonModel.Lang.acceptAny at h
    split at h
    · split at h
      · rename_i e' hg; cases h; exact g1 _ hg
      · cases h
    · cases h
  · unfold MesonModel.Lang.acceptAny at h
    split at h
    · split at h
      · cases h
      · rename_i u s' hg; cases h; exact ⟨(g2 _ _ hg).1, trivial⟩
    · cases h; exact ⟨hs, trivial⟩

theorem Val.ite {α} {c : Prop} [Decidable c] {t e : P α} {Q : α → Prop}
    (ht : Val V t Q) (he : Val V e Q) : Val V (if c then t else e) Q := by
  split <;> assumption

/-! `Node.base` on constructors (never unfold it on variables) -/
@[simp] theorem base_boolean (b v) : (Node.boolean b v).base = b := rfl
@[simp] theorem base_id (b v) : (Node.id b v).base = b := rfl
@[simp] theorem base_number (b r v) : (Node.number b r v).base = b := rfl
@[simp] theorem base_string (b r v m f) : (Node.string b r v m f).base = b := rfl
@[simp] theorem base_continue (b) : (Node.continue_ b).base = b := rfl
@[simp] theorem base_break (b) : (Node.break_ b).base = b := rfl
@[simp] theorem base_symbol (b v) : (Node.symbol b v).base = b := rfl
@[simp] theorem base_empty (b) : (Node.empty b).base = b := rfl
@[simp] theorem base_args (b p c cl k v o) : (Node.args b p c cl k v o).base = b := rfl
@[simp] theorem base_array (b l a r) : (Node.array b l a r).base = b := rfl
@[simp] theorem base_dict (b l a r) : (Node.dict b l a r).base = b := rfl
@[simp] theorem base_binop (k b l o r) : (Node.binop k b l o r).base = b := rfl
@[simp] theorem base_unop (k b o v) : (Node.unop k b o v).base = b := rfl
@[simp] theorem base_codeblock (b p ls) : (Node.codeblock b p ls).base = b := rfl
@[simp] theorem base_index (b o l i r) : (Node.index b o l i r).base = b := rfl
@[simp] theorem base_method (b o d n l a r) : (Node.method b o d n l a r).base = b := rfl
@[simp] theorem base_function (b n l a r) : (Node.function b n l a r).base = b := rfl
@[simp] theorem base_assign (p b n o v) : (Node.assign p b n o v).base = b := rfl
@[simp] theorem base_foreach (b k vs cs c i bl e) : (Node.foreach b k vs cs c i bl e).base = b := rfl
@[simp] theorem base_ifnode (b k c bl) : (Node.ifnode b k c bl).base = b := rfl
@[simp] theorem base_elsenode (b k bl) : (Node.elsenode b k bl).base = b := rfl
@[simp] theorem base_ifclause (b is e en) : (Node.ifclause b is e en).base = b := rfl
@[simp] theorem base_ternary (b c q t cl f) : (Node.ternary b c q t cl f).base = b := rfl
@[simp] theorem base_paren (b l i r) : (Node.paren b l i r).base = b := rfl

theorem base_blockAppendLine (b l : Node) : (blockAppendLine b l).base = b.base := by
  cases b <;> simp only [blockAppendLine]
  split <;> rfl

theorem Val.elim {α} {f : P α} {Q : α → Prop} (h : Val V f Q) :
    ∀ st, SOk V st → (∀ e, f st = .error e → ErrOk V e) ∧ ∀ a st', f st = .ok (a, st') → SOk V st' ∧ Q a := h

attribute [irreducible] Val

macro "nodeok" : tactic => `(tactic| first
  | trivial
  | assumption
  | (simp only [NodeOk, TokS, ErrOk, Node.lineno, Node.colno, base_boolean, base_id, base_number, base_string, base_continue, base_break, base_symbol, base_empty, base_args, base_array, base_dict, base_binop, base_unop, base_codeblock, base_index, base_method, base_function, base_assign, base_foreach, base_ifnode, base_elsenode, base_ifclause, base_ternary, base_paren, Base.at, Base.ofTok, symbolOf,
      base_blockAppendLine] at * <;> first | done | assumption | trivial)
  | (dsimp only at * <;>
      simp only [NodeOk, TokS, ErrOk, Node.lineno, Node.colno, base_boolean, base_id, base_number, base_string, base_continue, base_break, base_symbol, base_empty, base_args, base_array, base_dict, base_binop, base_unop, base_codeblock, base_index, base_method, base_function, base_assign, base_foreach, base_ifnode, base_elsenode, base_ifclause, base_ternary, base_paren, Base.at, Base.ofTok, symbolOf,
        base_blockAppendLine] at * <;> first | done | assumption | trivial))

syntax "val_extra" : tactic
macro_rules | `(tactic| val_extra) => `(tactic| fail "no extra rule")

set_option hygiene false in
macro "val_ih" : tactic => `(tactic| (apply ih <;> first | assumption | nodeok))

macro "val_step0" : tactic => `(tactic| first
  | exact Val.get | exact Val.cur | exact Val.prev | exact Val.emptyAtCur | exact Val.noteOrder _
  | exact Val.accept _ | exact Val.acceptAny _
  | (with_reducible apply Val.modify; intro _; exact ⟨rfl, rfl, rfl, rfl⟩)
  | (with_reducible apply Val.create; nodeok)
  | (with_reducible apply Val.createSymbol; nodeok)
  | (with_reducible apply Val.flushWs; nodeok)
  | (with_reducible apply Val.raiseAt; nodeok)
  | (with_reducible apply Val.fail; nodeok)
  | (with_reducible apply Val.pure (Q := NodeOk _); nodeok)
  | exact Val.pure (Q := fun _ => True) trivial
  | (with_reducible apply Val.pure; nodeok)
  | assumption
  | val_extra
  | val_ih
  | with_reducible apply Val.bind
  | intro _ _
  | dsimp only
  | simp only [↓reduceIte, Bool.false_eq_true, Bool.not_true, Bool.not_false]
  | with_reducible apply Val.ite
  | split)

theorem Val.expect (t : Tid) : Val V (expect t) (fun _ => True) := by
  unfold MesonModel.Lang.expect; repeat' val_step0

theorem Val.blockExpect (t : Tid) : Val V (blockExpect t) (fun _ => True) := by
  unfold MesonModel.Lang.blockExpect; repeat' val_step0

macro "val_step" : tactic => `(tactic| first
  | exact Val.expect _ | exact Val.blockExpect _
  | val_step0)

macro "val" : tactic => `(tactic| repeat' val_step)

theorem e10_val : Val V e10 (NodeOk V) := by
  unfold e10; val

section
variable {stmt : P Node} (hs : Val V stmt (NodeOk V))
include hs

theorem argsLoop_val (j : Nat) : ∀ a s, NodeOk V s → Val V (argsLoop stmt j a s) (fun _ => True) := by
  induction j with
  | zero => intro a s _; unfold argsLoop; val
  | succ j ih =>
    intro a s hsn
    have he := Val.expect (V := V)
    unfold argsLoop; val

macro_rules | `(tactic| val_extra) => `(tactic| (apply argsLoop_val <;> first | assumption | nodeok))

theorem args_val (k : Nat) : Val V (args stmt k) (fun _ => True) := by
  unfold args; val

macro_rules | `(tactic| val_extra) => `(tactic| (apply args_val <;> first | assumption | nodeok))

theorem kvLoop_val (j : Nat) : ∀ a s, NodeOk V s → Val V (kvLoop stmt j a s) (fun _ => True) := by
  induction j with
  | zero => intro a s _; unfold kvLoop; val
  | succ j ih =>
    intro a s hsn
    unfold kvLoop; val

macro_rules | `(tactic| val_extra) => `(tactic| (apply kvLoop_val <;> first | assumption | nodeok))

theorem keyValues_val (k : Nat) : Val V (keyValues stmt k) (fun _ => True) := by
  unfold keyValues; val

macro_rules | `(tactic| val_extra) => `(tactic| (apply keyValues_val <;> first | assumption | nodeok))

theorem e9_val (k : Nat) : Val V (e9 stmt k) (NodeOk V) := by
  have h1 := args_val hs k
  have h2 := keyValues_val hs k
  have h3 := e10_val (V := V)
  have h4 := fun t => Val.blockExpect (V := V) t
  unfold e9; val

macro_rules | `(tactic| val_extra) => `(tactic| (apply e9_val <;> first | assumption | nodeok))

theorem methodCall_val (k j : Nat) : ∀ src, NodeOk V src → Val V (methodCall stmt k j src) (NodeOk V) := by
  induction j with
  | zero => intro src _; unfold methodCall; val
  | succ j ih =>
    intro src hsrc
    have h1 := args_val hs k
    have h3 := e10_val (V := V)
    have h4 := fun t => Val.expect (V := V) t
    unfold methodCall; val

macro_rules | `(tactic| val_extra) => `(tactic| (apply methodCall_val <;> first | assumption | nodeok))

theorem indexCall_val (src : Node) (hsrc : NodeOk V src) : Val V (indexCall stmt src) (NodeOk V) := by
  have h4 := fun t => Val.expect (V := V) t
  unfold indexCall; val

macro_rules | `(tactic| val_extra) => `(tactic| (apply indexCall_val <;> first | assumption | nodeok))

theorem e8Loop_val (k j : Nat) : ∀ l, NodeOk V l → Val V (e8Loop stmt k j l) (NodeOk V) := by
  induction j with
  | zero => intro l _; unfold e8Loop; val
  | succ j ih =>
    intro l hl
    unfold e8Loop; val

macro_rules | `(tactic| val_extra) => `(tactic| (apply e8Loop_val <;> first | assumption | nodeok))

theorem e8_val (k : Nat) : Val V (e8 stmt k) (NodeOk V) := by
  have h1 := args_val hs k
  have h2 := e9_val hs k
  have h4 := fun t => Val.blockExpect (V := V) t
  unfold e8; val

macro_rules | `(tactic| val_extra) => `(tactic| (apply e8_val <;> first | assumption | nodeok))

theorem e7_val (k : Nat) : Val V (e7 stmt k) (NodeOk V) := by
  have h1 := e8_val hs k
  unfold e7; val

macro_rules | `(tactic| val_extra) => `(tactic| (apply e7_val <;> first | assumption | nodeok))

theorem e6Loop_val (k j : Nat) : ∀ l, NodeOk V l → Val V (e6Loop stmt k j l) (NodeOk V) := by
  induction j with
  | zero => intro l _; unfold e6Loop; val
  | succ j ih =>
    intro l hl
    have h1 := e7_val hs k
    unfold e6Loop; val

macro_rules | `(tactic| val_extra) => `(tactic| (apply e6Loop_val <;> first | assumption | nodeok))

theorem e6_val (k : Nat) : Val V (e6 stmt k) (NodeOk V) := by
  have h1 := e7_val hs k
  unfold e6; val

macro_rules | `(tactic| val_extra) => `(tactic| (apply e6_val <;> first | assumption | nodeok))

theorem e5Loop_val (k j : Nat) : ∀ l, NodeOk V l → Val V (e5Loop stmt k j l) (NodeOk V) := by
  induction j with
  | zero => intro l _; unfold e5Loop; val
  | succ j ih =>
    intro l hl
    have h1 := e6_val hs k
    unfold e5Loop; val

macro_rules | `(tactic| val_extra) => `(tactic| (apply e5Loop_val <;> first | assumption | nodeok))

theorem e5_val (k : Nat) : Val V (e5 stmt k) (NodeOk V) := by
  have h1 := e6_val hs k
  unfold e5; val

macro_rules | `(tactic| val_extra) => `(tactic| (apply e5_val <;> first | assumption | nodeok))

theorem e4_val (k : Nat) : Val V (e4 stmt k) (NodeOk V) := by
  have h1 := e5_val hs k
  unfold e4; val

macro_rules | `(tactic| val_extra) => `(tactic| (apply e4_val <;> first | assumption | nodeok))

theorem e3Loop_val (k j : Nat) : ∀ l, NodeOk V l → Val V (e3Loop stmt k j l) (NodeOk V) := by
  induction j with
  | zero => intro l _; unfold e3Loop; val
  | succ j ih =>
    intro l hl
    have h1 := e4_val hs k
    unfold e3Loop; val

macro_rules | `(tactic| val_extra) => `(tactic| (apply e3Loop_val <;> first | assumption | nodeok))

theorem e3_val (k : Nat) : Val V (e3 stmt k) (NodeOk V) := by
  have h1 := e4_val hs k
  unfold e3; val

macro_rules | `(tactic| val_extra) => `(tactic| (apply e3_val <;> first | assumption | nodeok))

theorem e2Loop_val (k j : Nat) : ∀ l, NodeOk V l → Val V (e2Loop stmt k j l) (NodeOk V) := by
  induction j with
  | zero => intro l _; unfold e2Loop; val
  | succ j ih =>
    intro l hl
    have h1 := e3_val hs k
    unfold e2Loop; val

macro_rules | `(tactic| val_extra) => `(tactic| (apply e2Loop_val <;> first | assumption | nodeok))

theorem e2_val (k : Nat) : Val V (e2 stmt k) (NodeOk V) := by
  have h1 := e3_val hs k
  unfold e2; val

macro_rules | `(tactic| val_extra) => `(tactic| (apply e2_val <;> first | assumption | nodeok))

theorem e1_val (k : Nat) : Val V (e1 stmt k) (NodeOk V) := by
  have h1 := e2_val hs k
  have h4 := fun t => Val.expect (V := V) t
  unfold e1; val

macro_rules | `(tactic| val_extra) => `(tactic| (apply e1_val <;> first | assumption | nodeok))

end

theorem statement_val (n : Nat) : Val V (statement n) (NodeOk V) := by
  induction n with
  | zero => unfold statement; val
  | succ m ih => unfold statement; exact e1_val ih m

macro_rules | `(tactic| val_extra) => `(tactic| (apply statement_val <;> first | assumption | nodeok))

section
variable {stmt cb : P Node} (hs : Val V stmt (NodeOk V)) (hcb : Val V cb (NodeOk V))
include hs hcb

theorem foreachBlock_val : Val V (foreachBlock stmt cb) (NodeOk V) := by
  have h4 := fun t => Val.expect (V := V) t
  unfold foreachBlock; val

macro_rules | `(tactic| val_extra) => `(tactic| (apply foreachBlock_val <;> first | assumption | nodeok))

theorem elseifLoop_val (j : Nat) : ∀ ifs, Val V (elseifLoop stmt cb j ifs) (fun _ => True) := by
  induction j with
  | zero => intro ifs; unfold elseifLoop; val
  | succ j ih =>
    intro ifs
    have h4 := fun t => Val.expect (V := V) t
    unfold elseifLoop; val

macro_rules | `(tactic| val_extra) => `(tactic| (apply elseifLoop_val <;> first | assumption | nodeok))

omit hs in
theorem elseBlock_val : Val V (elseBlock cb) (NodeOk V) := by
  have h4 := fun t => Val.expect (V := V) t
  unfold elseBlock; val

macro_rules | `(tactic| val_extra) => `(tactic| (apply elseBlock_val <;> first | assumption | nodeok))

theorem ifBlock_val (k : Nat) : Val V (ifBlock stmt cb k) (NodeOk V) := by
  have h4 := fun t => Val.expect (V := V) t
  have h5 := fun ifs => elseifLoop_val hs hcb k ifs
  have h6 := elseBlock_val hcb
  unfold ifBlock; val

macro_rules | `(tactic| val_extra) => `(tactic| (apply ifBlock_val <;> first | assumption | nodeok))

theorem line_val (k : Nat) : Val V (line stmt cb k) (NodeOk V) := by
  have h4 := fun t => Val.blockExpect (V := V) t
  have h5 := ifBlock_val hs hcb k
  have h6 := foreachBlock_val hs hcb
  unfold line; val

macro_rules | `(tactic| val_extra) => `(tactic| (apply line_val <;> first | assumption | nodeok))

theorem codeblockLoop_val (k j : Nat) : ∀ b, NodeOk V b → Val V (codeblockLoop stmt cb k j b) (NodeOk V) := by
  induction j with
  | zero => intro b _; unfold codeblockLoop; val
  | succ j ih =>
    intro b hb
    have h5 := line_val hs hcb k
    unfold codeblockLoop; val

macro_rules | `(tactic| val_extra) => `(tactic| (apply codeblockLoop_val <;> first | assumption | nodeok))

end

theorem codeblock_val (n : Nat) : Val V (codeblock n) (NodeOk V) := by
  induction n with
  | zero => unfold codeblock; val
  | succ m ih =>
    have hst := statement_val (V := V) m
    unfold codeblock; val

macro_rules | `(tactic| val_extra) => `(tactic| (apply codeblock_val <;> first | assumption | nodeok))

/-- stage A for `Parser(...).parse()` -/
theorem parseToks_errOk {names : List (Str × Nat)} {lr : LexResult} {fuel : Nat} {e : Err}
    (h0 : V (0, 0)) (ht : ∀ t ∈ lr.toks, TokS V t ∧ TokE V t) (he : ∀ p, lr.err = some p → V p)
    (h : parseToks names lr fuel = .error e) : ErrOk V e := by
  unfold parseToks at h
  simp only at h
  have hs0 : SOk V { cur := initialTok, prev := initialTok, ws := [], rest := lr.toks, lexErr := lr.err,
                     names := names } :=
    ⟨⟨h0, h0⟩, h0, ht, he⟩
  obtain ⟨g1, g2⟩ := (Val.getsym (V := V)).elim _ hs0
  split at h
  · rename_i e' hg; cases h; exact g1 _ hg
  · rename_i u s1 hg
    obtain ⟨hs1, _⟩ := g2 _ _ hg
    obtain ⟨c1, c2⟩ := (codeblock_val (V := V) fuel).elim _ hs1
    split at h
    · rename_i e' hc; cases h; exact c1 _ hc
    · rename_i block s2 hc
      obtain ⟨hs2, _⟩ := c2 _ _ hc
      split at h
      · rename_i e' hex; cases h
        exact ((Val.expect (V := V) .eof).elim _ hs2).1 _ hex
      · cases h

end

end MesonModel.Lang
