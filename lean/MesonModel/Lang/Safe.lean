/-
`fuel_suffices` and unreachability of the `AttributeError` path of `e4`, in one compositional predicate.

`Steps f R d`: started in a state whose token stream has no `not` token immediately followed by an `in`
token (`Good`) and at most `R` tokens left, `f` can only fail with a *located* error (never `fuel`, never
`notInNoWs`), and when it succeeds with `a` the stream is still `Good` and at least `d a` tokens were
consumed. Every recursion of the parser happens after a token was consumed, which is what makes the fuel
`token count + 3` sufficient.
-/
import MesonModel.Lang.ParserLemmas

namespace MesonModel.Lang

def Err.isLocated : Err → Bool
  | .parse _ _ => true
  | .block _ _ => true
  | _ => false

/-- tokens not yet consumed (the current one, unless it is `eof`, and the rest of the stream) -/
def tokLeft (st : PState) : Nat := (if st.cur.tid == .eof then 0 else 1) + st.rest.length

/-- no `not` token is immediately followed by an `in` token -/
def NoAdj : List Token → Prop
  | a :: b :: rest => ¬(a.tid = .kNot ∧ b.tid = .kIn) ∧ NoAdj (b :: rest)
  | _ => True

def Good (st : PState) : Prop := NoAdj (st.cur :: st.rest)

def Ok1 {α} (f : P α) (st : PState) (d : α → Nat) : Prop :=
  (∀ e, f st = .error e → e.isLocated = true) ∧
  ∀ a st', f st = .ok (a, st') → Good st' ∧ tokLeft st' + d a ≤ tokLeft st

def Steps {α} (f : P α) (R : Nat) (d : α → Nat) : Prop :=
  ∀ st, Good st → tokLeft st ≤ R → Ok1 f st d

theorem NoAdj.tail {a : Token} {l : List Token} (h : NoAdj (a :: l)) : NoAdj l := by
  cases l with
  | nil => trivial
  | cons b rest => exact h.2

theorem NoAdj.single (a : Token) : NoAdj [a] := trivial

theorem Steps.mono {α} {f : P α} {R R' : Nat} {d : α → Nat} (h : Steps f R d) (hr : R' ≤ R) : Steps f R' d :=
  fun st hg ht => h st hg (Nat.le_trans ht hr)

theorem Steps.weaken {α} {f : P α} {R : Nat} {d : α → Nat} (h : Steps f R d) : Steps f R (fun _ => 0) := by
  intro st hg ht
  obtain ⟨h1, h2⟩ := h st hg ht
  exact ⟨h1, fun a st' hf => ⟨(h2 a st' hf).1, by have := (h2 a st' hf).2; show tokLeft st' + 0 ≤ tokLeft st; omega⟩⟩

theorem Steps.pure {α} (a : α) (R : Nat) : Steps (Pure.pure a : P α) R (fun _ => 0) := by
  intro st hg _
  refine ⟨fun e h => ?_, fun b st' h => ?_⟩
  · have : (Except.ok (a, st) : Except Err (α × PState)) = Except.error e := h
    cases this
  · have : (Except.ok (a, st) : Except Err (α × PState)) = Except.ok (b, st') := h
    cases this; exact ⟨hg, Nat.le_refl _⟩

theorem Steps.fail {α} {e : Err} (he : e.isLocated = true) (R : Nat) (d : α → Nat) : Steps (P.fail e : P α) R d := by
  intro st _ _
  refine ⟨fun e' h => ?_, fun b st' h => ?_⟩
  · have : (Except.error e : Except Err (α × PState)) = Except.error e' := h
    cases this; exact he
  · cases h

theorem Steps.raiseAt {α} (n : Node) (R : Nat) (d : α → Nat) : Steps (raiseAt n : P α) R d :=
  Steps.fail rfl R d

/-- a state-preserving (on `cur`/`rest`) total primitive -/
theorem Steps.prim {α} {f : P α} (R : Nat)
    (h : ∀ st, ∃ a st', f st = .ok (a, st') ∧ st'.cur = st.cur ∧ st'.rest = st.rest) :
    Steps f R (fun _ => 0) := by
  intro st hg _
  obtain ⟨a, st', hf, hc, hr⟩ := h st
  refine ⟨fun e he => (by rw [hf] at he; cases he), fun b s2 hb => ?_⟩
  rw [hf] at hb; cases hb
  exact ⟨by simp only [Good, hc, hr]; exact hg, by simp only [tokLeft, hc, hr]; exact Nat.le_refl _⟩

theorem Steps.get (R : Nat) : Steps P.get R (fun _ => 0) := Steps.prim R fun st => ⟨st, st, rfl, rfl, rfl⟩
theorem Steps.cur (R : Nat) : Steps cur R (fun _ => 0) := Steps.prim R fun st => ⟨st.cur, st, rfl, rfl, rfl⟩
theorem Steps.prev (R : Nat) : Steps prev R (fun _ => 0) := Steps.prim R fun st => ⟨st.prev, st, rfl, rfl, rfl⟩
theorem Steps.emptyAtCur (R : Nat) : Steps emptyAtCur R (fun _ => 0) :=
  Steps.prim R fun st => ⟨_, st, rfl, rfl, rfl⟩
theorem Steps.create (n : Node) (R : Nat) : Steps (create n) R (fun _ => 0) :=
  Steps.prim R fun st => ⟨_, _, rfl, rfl, rfl⟩
theorem Steps.createSymbol (t : Token) (R : Nat) : Steps (createSymbol t) R (fun _ => 0) := Steps.create _ R
theorem Steps.flushWs (n : Node) (R : Nat) : Steps (flushWs n) R (fun _ => 0) :=
  Steps.prim R fun st => ⟨_, _, rfl, rfl, rfl⟩
theorem Steps.modify {g : PState → PState} (hg : ∀ s, (g s).cur = s.cur ∧ (g s).rest = s.rest) (R : Nat) :
    Steps (P.modify g) R (fun _ => 0) :=
  Steps.prim R fun st => ⟨(), g st, rfl, (hg st).1, (hg st).2⟩
theorem Steps.noteOrder (a : Node) (R : Nat) : Steps (noteOrder a) R (fun _ => 0) := by
  apply Steps.modify
  intro s; split <;> exact ⟨rfl, rfl⟩

theorem Steps.bind {α β} {m : P α} {f : α → P β} {R : Nat} {d1 : α → Nat} {d : β → Nat}
    (hm : Steps m R d1) (hf : ∀ a, Steps (f a) (R - d1 a) d) : Steps (m >>= f) R d := by
  intro st hg ht
  obtain ⟨m1, m2⟩ := hm st hg ht
  have hb : (m >>= f) st = (match m st with | Except.error e => Except.error e | Except.ok (a, s') => f a s') := rfl
  cases hms : m st with
  | error e =>
    rw [hms] at hb
    refine ⟨fun e' he => ?_, fun b st' he => ?_⟩
    · rw [hb] at he; cases he; exact m1 e hms
    · rw [hb] at he; cases he
  | ok p =>
    obtain ⟨a, s1⟩ := p
    rw [hms] at hb
    obtain ⟨g1, t1⟩ := m2 a s1 hms
    obtain ⟨f1, f2⟩ := hf a s1 g1 (by omega)
    refine ⟨fun e' he => ?_, fun b st' he => ?_⟩
    · rw [hb] at he; exact f1 e' he
    · rw [hb] at he
      obtain ⟨g2, t2⟩ := f2 b st' he
      exact ⟨g2, by omega⟩

theorem Steps.bind0 {α β} {m : P α} {f : α → P β} {R : Nat} {d : β → Nat}
    (hm : Steps m R (fun _ => 0)) (hf : ∀ a, Steps (f a) R d) : Steps (m >>= f) R d :=
  Steps.bind hm (fun a => by simpa using hf a)

/-! ### token consumption -/

theorem advance_good {lexErr : Option (Nat × Nat)} {last : Token} {rest ws : List Token}
    {c : Token} {rest' ws' : List Token}
    (h : advance lexErr last rest ws = .ok (c, rest', ws')) (hn : NoAdj rest) :
    NoAdj (c :: rest') ∧ (if c.tid == .eof then 0 else 1) + rest'.length ≤ rest.length ∧
      (ws' = [] → c.tid ≠ .eof → ∃ r, rest = c :: r) := by
  induction rest generalizing last ws with
  | nil =>
    unfold advance at h
    split at h
    · simp at h
    · simp at h; obtain ⟨rfl, rfl, rfl⟩ := h
      exact ⟨trivial, by simp [eofFrom], fun _ hc => absurd rfl hc⟩
  | cons t rest ih =>
    unfold advance at h
    split at h
    · simp at h; obtain ⟨rfl, rfl, rfl⟩ := h
      exact ⟨hn, by simp only [List.length_cons]; split <;> omega, fun _ _ => ⟨_, rfl⟩⟩
    · split at h
      · obtain ⟨h1, h2, h3⟩ := ih h hn.tail
        refine ⟨h1, Nat.le_succ_of_le h2, fun hw => ?_⟩
        -- the pending list grew by `t`, so it cannot be empty
        exfalso
        have := advance_ws_len h
        simp [hw] at this
      · simp at h; obtain ⟨rfl, rfl, rfl⟩ := h
        exact ⟨hn, by simp only [List.length_cons]; split <;> omega, fun _ _ => ⟨_, rfl⟩⟩
where
  advance_ws_len {lexErr : Option (Nat × Nat)} {last : Token} {rest ws : List Token}
      {c : Token} {rest' ws' : List Token}
      (h : advance lexErr last rest ws = .ok (c, rest', ws')) : ws.length ≤ ws'.length := by
    induction rest generalizing last ws with
    | nil =>
      unfold advance at h
      split at h
      · simp at h
      · simp at h; simp [h.2.2]
    | cons t rest ih =>
      unfold advance at h
      split at h
      · simp at h; simp [← h.2.2]
      · split at h
        · have := ih h; simp at this; omega
        · simp at h; simp [h.2.2]

theorem getsym_good {st st' : PState} {u : Unit} (h : getsym st = .ok (u, st')) (hg : Good st) :
    Good st' ∧ (if st'.cur.tid == .eof then 0 else 1) + st'.rest.length ≤ st.rest.length ∧
      (st'.ws = [] → st'.cur.tid ≠ .eof → ∃ r, st.rest = st'.cur :: r) := by
  unfold getsym at h
  split at h
  · cases h
  · rename_i c rest ws hadv
    cases h
    exact advance_good hadv hg.tail

theorem getsym_located {st : PState} {e : Err} (h : getsym st = .error e) : e.isLocated = true := by
  unfold getsym at h
  split at h
  · rename_i e' hadv
    cases h
    -- `advance` only raises the lexer's located error
    have : ∀ (rest : List Token) (last : Token) (ws : List Token) (e : Err),
        advance st.lexErr last rest ws = .error e → e.isLocated = true := by
      intro rest
      induction rest with
      | nil =>
        intro last ws e h
        unfold advance at h
        split at h
        · cases h; rfl
        · cases h
      | cons t rest ih =>
        intro last ws e h
        unfold advance at h
        split at h
        · cases h
        · split at h
          · exact ih _ _ _ h
          · cases h
    exact this _ _ _ _ hadv
  · cases h

theorem accept_ok1 {t : Tid} (ht : t ≠ .eof) (st : PState) (hg : Good st) :
    Ok1 (accept t) st (fun b => if b then 1 else 0) := by
  refine ⟨fun e' he => ?_, fun b st' he => ?_⟩
  · unfold accept at he
    split at he
    · split at he
      · rename_i e hgs; cases he; exact getsym_located hgs
      · cases he
    · cases he
  · unfold accept at he
    split at he
    · rename_i hc
      have hne : (st.cur.tid == Tid.eof) = false := by
        have : st.cur.tid = t := by simpa using hc
        simp [this, ht]
      split at he
      · cases he
      · rename_i u s1 hgs
        cases he
        obtain ⟨g1, l1, _⟩ := getsym_good hgs hg
        refine ⟨g1, ?_⟩
        simp only [tokLeft, hne, if_true]
        simp only [Bool.false_eq_true, if_false]
        omega
    · cases he
      exact ⟨hg, by simp⟩

theorem acceptAny_ok1 {ts : List Tid} (ht : Tid.eof ∉ ts) (st : PState) (hg : Good st) :
    Ok1 (acceptAny ts) st (fun o => if o.isSome then 1 else 0) := by
  refine ⟨fun e' he => ?_, fun b st' he => ?_⟩
  · unfold acceptAny at he
    split at he
    · split at he
      · rename_i e hgs; cases he; exact getsym_located hgs
      · cases he
    · cases he
  · unfold acceptAny at he
    split at he
    · rename_i hc
      have hne : (st.cur.tid == Tid.eof) = false := by
        have hm : st.cur.tid ∈ ts := by simpa using hc
        cases h : st.cur.tid == Tid.eof
        · rfl
        · have : st.cur.tid = .eof := by simpa using h
          rw [this] at hm; exact absurd hm ht
      split at he
      · cases he
      · rename_i u s1 hgs
        cases he
        obtain ⟨g1, l1, _⟩ := getsym_good hgs hg
        refine ⟨g1, ?_⟩
        simp only [tokLeft, hne, Option.isSome_some, if_true]
        simp only [Bool.false_eq_true, if_false]
        omega
    · cases he
      exact ⟨hg, by simp⟩

theorem Steps.acceptR {t : Tid} (ht : t ≠ .eof) (R : Nat) :
    Steps (MesonModel.Lang.accept t) R (fun b => if b then 1 else 0) :=
  fun st hg _ => accept_ok1 ht st hg

/-- pointwise bind rule: the continuation may use what is known about the intermediate state -/
theorem Ok1.bind {α β} {m : P α} {f : α → P β} {st : PState} {d1 : α → Nat} {d : β → Nat}
    (hm : Ok1 m st d1)
    (hf : ∀ a s1, m st = .ok (a, s1) → Good s1 → tokLeft s1 + d1 a ≤ tokLeft st → Ok1 (f a) s1 d) :
    Ok1 (m >>= f) st d := by
  obtain ⟨m1, m2⟩ := hm
  have hb : (m >>= f) st = (match m st with | Except.error e => Except.error e | Except.ok (a, s') => f a s') := rfl
  cases hms : m st with
  | error e =>
    rw [hms] at hb
    refine ⟨fun e' he => ?_, fun b st' he => ?_⟩
    · rw [hb] at he; cases he; exact m1 e hms
    · rw [hb] at he; cases he
  | ok p =>
    obtain ⟨a, s1⟩ := p
    rw [hms] at hb
    obtain ⟨g1, t1⟩ := m2 a s1 hms
    obtain ⟨f1, f2⟩ := hf a s1 hms g1 t1
    refine ⟨fun e' he => ?_, fun b st' he => ?_⟩
    · rw [hb] at he; exact f1 e' he
    · rw [hb] at he
      obtain ⟨g2, t2⟩ := f2 b st' he
      exact ⟨g2, by omega⟩

theorem Steps.bind_accept {β} {t : Tid} {f : Bool → P β} {R : Nat} {d : β → Nat} (ht : t ≠ .eof)
    (h1 : 1 ≤ R → Steps (f true) (R - 1) d) (h0 : Steps (f false) R d) :
    Steps (MesonModel.Lang.accept t >>= f) R d := by
  intro st hg hR
  refine Ok1.bind (accept_ok1 ht st hg) (fun a s1 _ g1 t1 => ?_)
  cases a
  · exact h0 s1 g1 (by simp at t1; omega)
  · simp at t1
    exact h1 (by omega) s1 g1 (by omega)

theorem Steps.bind_acceptAny {β} {ts : List Tid} {f : Option Tid → P β} {R : Nat} {d : β → Nat}
    (ht : Tid.eof ∉ ts)
    (h1 : ∀ tid, 1 ≤ R → Steps (f (some tid)) (R - 1) d) (h0 : Steps (f none) R d) :
    Steps (MesonModel.Lang.acceptAny ts >>= f) R d := by
  intro st hg hR
  refine Ok1.bind (acceptAny_ok1 ht st hg) (fun a s1 _ g1 t1 => ?_)
  cases a with
  | none => exact h0 s1 g1 (by simp at t1; omega)
  | some tid =>
    simp at t1
    exact h1 tid (by omega) s1 g1 (by omega)

theorem bind_err {α β} (m : P α) (f : α → P β) (st : PState) (e : Err) :
    (m >>= f) st = .error e ↔ m st = .error e ∨ ∃ a s1, m st = .ok (a, s1) ∧ f a s1 = .error e := by
  show (match m st with | Except.error e => Except.error e | Except.ok (a, s') => f a s') = Except.error e ↔ _
  cases h : m st with
  | error e' => simp
  | ok p =>
    obtain ⟨a, s1⟩ := p
    simp only [Except.ok.injEq, Prod.mk.injEq, reduceCtorEq, false_or]
    constructor
    · intro h; exact ⟨a, s1, ⟨rfl, rfl⟩, h⟩
    · rintro ⟨a', s', ⟨rfl, rfl⟩, h⟩; exact h

theorem expect_ok1 {t : Tid} (ht : t ≠ .eof) (st : PState) (hg : Good st) : Ok1 (expect t) st (fun _ => 1) := by
  obtain ⟨a1, a2⟩ := accept_ok1 ht st hg
  refine ⟨fun e he => ?_, fun u st' he => ?_⟩
  · simp only [expect, bind_err] at he
    rcases he with he | ⟨b, s1, hacc, he⟩
    · exact a1 e he
    · cases b
      · simp only [Bool.false_eq_true, if_false, bind_err, get_ok] at he
        rcases he with he | ⟨_, _, _, he⟩
        · cases he
        · cases he; rfl
      · simp only [if_true] at he; cases he
  · simp only [expect, bind_ok] at he
    obtain ⟨b, s1, hacc, he⟩ := he
    cases b
    · simp [bind_ok, get_ok, fail_ok] at he
    · simp only [if_true, pure_ok] at he
      cases he
      simpa using a2 true st' hacc

theorem blockExpect_ok1 {t : Tid} (ht : t ≠ .eof) (st : PState) (hg : Good st) :
    Ok1 (blockExpect t) st (fun _ => 1) := by
  obtain ⟨a1, a2⟩ := accept_ok1 ht st hg
  refine ⟨fun e he => ?_, fun u st' he => ?_⟩
  · simp only [blockExpect, bind_err] at he
    rcases he with he | ⟨b, s1, hacc, he⟩
    · exact a1 e he
    · cases b
      · simp only [Bool.false_eq_true, if_false, bind_err, get_ok] at he
        rcases he with he | ⟨_, _, _, he⟩
        · cases he
        · cases he; rfl
      · simp only [if_true] at he; cases he
  · simp only [blockExpect, bind_ok] at he
    obtain ⟨b, s1, hacc, he⟩ := he
    cases b
    · simp [bind_ok, get_ok, fail_ok] at he
    · simp only [if_true, pure_ok] at he
      cases he
      simpa using a2 true st' hacc

theorem Steps.bind_expect {β} {t : Tid} {f : Unit → P β} {R : Nat} {d : β → Nat} (ht : t ≠ .eof)
    (h1 : ∀ u, 1 ≤ R → Steps (f u) (R - 1) d) : Steps (MesonModel.Lang.expect t >>= f) R d := by
  intro st hg hR
  refine Ok1.bind (expect_ok1 ht st hg) (fun a s1 _ g1 t1 => ?_)
  exact h1 a (by omega) s1 g1 (by omega)

theorem Steps.bind_blockExpect {β} {t : Tid} {f : Unit → P β} {R : Nat} {d : β → Nat} (ht : t ≠ .eof)
    (h1 : ∀ u, 1 ≤ R → Steps (f u) (R - 1) d) : Steps (MesonModel.Lang.blockExpect t >>= f) R d := by
  intro st hg hR
  refine Ok1.bind (blockExpect_ok1 ht st hg) (fun a s1 _ g1 t1 => ?_)
  exact h1 a (by omega) s1 g1 (by omega)

theorem Steps.ite {α} {c : Prop} [Decidable c] {t e : P α} {R : Nat} {d : α → Nat}
    (ht : Steps t R d) (he : Steps e R d) : Steps (if c then t else e) R d := by
  split <;> assumption

/-! ### the productions -/

theorem Steps.unfold {α} {f : P α} {R : Nat} {d : α → Nat} (h : Steps f R d) :
    ∀ st, Good st → tokLeft st ≤ R → Ok1 f st d := h

theorem Steps.of {α} {f : P α} {R : Nat} {d : α → Nat} (h : ∀ st, Good st → tokLeft st ≤ R → Ok1 f st d) :
    Steps f R d := h

attribute [irreducible] Steps

macro "steps_step" : tactic => `(tactic| first
  | exact Steps.pure _ _ | exact Steps.fail rfl _ _ | exact Steps.raiseAt _ _ _
  | exact Steps.get _ | exact Steps.cur _ | exact Steps.prev _ | exact Steps.emptyAtCur _
  | exact Steps.create _ _ | exact Steps.createSymbol _ _ | exact Steps.flushWs _ _
  | exact Steps.noteOrder _ _
  | (with_reducible apply Steps.modify; intro _; exact ⟨rfl, rfl⟩)
  | assumption
  | with_reducible apply Steps.bind_accept (by decide)
  | with_reducible apply Steps.bind_acceptAny (by decide)
  | with_reducible apply Steps.bind_expect (by decide)
  | with_reducible apply Steps.bind_blockExpect (by decide)
  | with_reducible apply Steps.bind0
  | intro _
  | dsimp only
  | simp only [↓reduceIte, Bool.false_eq_true, Bool.not_true, Bool.not_false, Bool.or_self, Bool.true_or,
      Bool.or_true, Bool.false_or, Bool.or_false]
  | with_reducible apply Steps.ite
  | split)

macro "steps" : tactic => `(tactic| repeat' steps_step)

abbrev Z {α} : α → Nat := fun _ => 0

theorem e10_steps (R : Nat) : Steps e10 R Z := by
  unfold e10 Z; steps

section
variable {stmt : P Node} (B : Nat) (hs : ∀ R', R' < B → Steps stmt R' Z)
include hs

theorem argsLoop_steps (j : Nat) : ∀ R, R < B → R + 1 ≤ j → ∀ a s, Steps (argsLoop stmt j a s) R Z := by
  induction j with
  | zero => intro R _ h; omega
  | succ j ih =>
    intro R hR hj a s
    unfold argsLoop Z; steps
    all_goals first
      | (refine hs _ ?_ <;> omega)
      | (refine ih _ ?_ ?_ _ _ <;> omega)

theorem args_steps (k : Nat) : ∀ R, R < B → R + 1 ≤ k → Steps (args stmt k) R Z := by
  intro R hR hk
  unfold args Z; steps
  all_goals first
    | (refine hs _ ?_ <;> omega)
    | (refine argsLoop_steps B hs k _ ?_ ?_ _ _ <;> omega)

theorem kvLoop_steps (j : Nat) : ∀ R, R < B → R + 1 ≤ j → ∀ a s, Steps (kvLoop stmt j a s) R Z := by
  induction j with
  | zero => intro R _ h; omega
  | succ j ih =>
    intro R hR hj a s
    unfold kvLoop Z; steps
    all_goals first
      | (refine hs _ ?_ <;> omega)
      | (refine ih _ ?_ ?_ _ _ <;> omega)

theorem keyValues_steps (k : Nat) : ∀ R, R < B → R + 1 ≤ k → Steps (keyValues stmt k) R Z := by
  intro R hR hk
  unfold keyValues Z; steps
  all_goals first
    | (refine hs _ ?_ <;> omega)
    | (refine kvLoop_steps B hs k _ ?_ ?_ _ _ <;> omega)

theorem e9_steps (k : Nat) : ∀ R, R ≤ B → R ≤ k → Steps (e9 stmt k) R Z := by
  intro R hR hk
  unfold e9 Z; steps
  all_goals first
    | (refine hs _ ?_ <;> omega)
    | exact e10_steps _
    | (refine args_steps B hs k _ ?_ ?_ <;> omega)
    | (refine keyValues_steps B hs k _ ?_ ?_ <;> omega)
    | (refine argsLoop_steps B hs k _ ?_ ?_ _ _ <;> omega)
    | (refine kvLoop_steps B hs k _ ?_ ?_ _ _ <;> omega)

theorem methodCall_steps (k j : Nat) : ∀ R, R < B → R + 1 ≤ k → R + 1 ≤ j → ∀ src, Steps (methodCall stmt k j src) R Z := by
  induction j with
  | zero => intro R _ _ h; omega
  | succ j ih =>
    intro R hR hk hj src
    unfold methodCall Z; steps
    all_goals first
      | exact e10_steps _
      | (refine hs _ ?_ <;> omega)
      | (refine args_steps B hs k _ ?_ ?_ <;> omega)
      | (refine argsLoop_steps B hs k _ ?_ ?_ _ _ <;> omega)
      | (refine ih _ ?_ ?_ ?_ _ <;> omega)

theorem indexCall_steps (src : Node) : ∀ R, R < B → Steps (indexCall stmt src) R Z := by
  intro R hR
  unfold indexCall Z; steps
  all_goals (refine hs _ ?_ <;> omega)

theorem e8Loop_steps (k j : Nat) : ∀ R, R ≤ B → R + 1 ≤ k → R + 1 ≤ j → ∀ l, Steps (e8Loop stmt k j l) R Z := by
  induction j with
  | zero => intro R _ _ h; omega
  | succ j ih =>
    intro R hR hk hj l
    unfold e8Loop Z; steps
    all_goals first
      | (refine methodCall_steps B hs k k _ ?_ ?_ ?_ _ <;> omega)
      | (refine indexCall_steps B hs _ _ ?_ <;> omega)
      | (refine ih _ ?_ ?_ ?_ _ <;> omega)

theorem e8_steps (k : Nat) : ∀ R, R ≤ B → R + 1 ≤ k → Steps (e8 stmt k) R Z := by
  intro R hR hk
  unfold e8 Z; steps
  all_goals first
    | (refine e9_steps B hs k _ ?_ ?_ <;> omega)
    | (refine args_steps B hs k _ ?_ ?_ <;> omega)
    | (refine argsLoop_steps B hs k _ ?_ ?_ _ _ <;> omega)
    | (refine hs _ ?_ <;> omega)
    | (refine e8Loop_steps B hs k k _ ?_ ?_ ?_ _ <;> omega)

theorem e7_steps (k : Nat) : ∀ R, R ≤ B → R + 1 ≤ k → Steps (e7 stmt k) R Z := by
  intro R hR hk
  unfold e7 Z; steps
  all_goals (refine e8_steps B hs k _ ?_ ?_ <;> omega)

theorem e6Loop_steps (k j : Nat) : ∀ R, R ≤ B → R + 1 ≤ k → R + 1 ≤ j → ∀ l, Steps (e6Loop stmt k j l) R Z := by
  induction j with
  | zero => intro R _ _ h; omega
  | succ j ih =>
    intro R hR hk hj l
    unfold e6Loop Z; steps
    all_goals first
      | (refine e7_steps B hs k _ ?_ ?_ <;> omega)
      | (refine ih _ ?_ ?_ ?_ _ <;> omega)

theorem e6_steps (k : Nat) : ∀ R, R ≤ B → R + 1 ≤ k → Steps (e6 stmt k) R Z := by
  intro R hR hk
  unfold e6 Z; steps
  all_goals first
    | (refine e7_steps B hs k _ ?_ ?_ <;> omega)
    | (refine e6Loop_steps B hs k k _ ?_ ?_ ?_ _ <;> omega)

theorem e5Loop_steps (k j : Nat) : ∀ R, R ≤ B → R + 1 ≤ k → R + 1 ≤ j → ∀ l, Steps (e5Loop stmt k j l) R Z := by
  induction j with
  | zero => intro R _ _ h; omega
  | succ j ih =>
    intro R hR hk hj l
    unfold e5Loop Z; steps
    all_goals first
      | (refine e6_steps B hs k _ ?_ ?_ <;> omega)
      | (refine ih _ ?_ ?_ ?_ _ <;> omega)

theorem e5_steps (k : Nat) : ∀ R, R ≤ B → R + 1 ≤ k → Steps (e5 stmt k) R Z := by
  intro R hR hk
  unfold e5 Z; steps
  all_goals first
    | (refine e6_steps B hs k _ ?_ ?_ <;> omega)
    | (refine e5Loop_steps B hs k k _ ?_ ?_ ?_ _ <;> omega)

omit hs in
theorem Ok1.bind_det {α β} {m : P α} {f : α → P β} {st : PState} {a : α} {d : β → Nat}
    (hm : m st = .ok (a, st)) (h : Ok1 (f a) st d) : Ok1 (m >>= f) st d := by
  have : (m >>= f) st = f a st := by
    show (match m st with | Except.error e => Except.error e | Except.ok (a, s') => f a s') = _
    rw [hm]
  unfold Ok1; rw [this]; exact h

omit hs in
theorem accept_true_info {t : Tid} {st s1 : PState} (h : accept t st = .ok (true, s1)) (hg : Good st) :
    st.cur.tid = t ∧ (s1.ws = [] → s1.cur.tid ≠ .eof → ∃ r, st.rest = s1.cur :: r) := by
  unfold accept at h
  split at h
  · rename_i hc
    split at h
    · cases h
    · rename_i u s' hgs
      cases h
      exact ⟨by simpa using hc, (getsym_good hgs hg).2.2⟩
  · cases h

/-- `e4`: the `AttributeError` path needs a `not` token immediately followed by an `in` token -/
theorem e4_steps (k : Nat) : ∀ R, R ≤ B → R + 1 ≤ k → Steps (e4 stmt k) R Z := by
  intro R hR hk
  apply Steps.of
  intro st hg hRst
  unfold e4
  refine Ok1.bind ((e5_steps B hs k R hR hk).unfold st hg hRst) (fun left sA _ gA tA => ?_)
  refine Ok1.bind (acceptAny_ok1 (by decide) sA gA) (fun o s1 _ g1 t1 => ?_)
  cases o with
  | some op =>
    simp at t1
    refine Steps.unfold (R := R - 1) ?_ s1 g1 (by omega)
    dsimp only
    have h5 := e5_steps B hs k (R - 1) (by omega) (by omega)
    unfold Z at h5 ⊢
    steps
  | none =>
    dsimp only
    refine Ok1.bind (accept_ok1 (by decide) s1 g1) (fun b s2 hnot g2 t2 => ?_)
    cases b with
    | false => exact (Steps.pure left R).unfold s2 g2 (by simp at t1 t2; omega)
    | true =>
      simp at t1 t2
      obtain ⟨hnt, hadj⟩ := accept_true_info hnot g1
      simp only [if_true]
      -- `ws = self.current_ws.copy(); not_token = self.previous`
      refine Ok1.bind_det (a := s2) rfl ?_
      refine Ok1.bind_det (a := s2.prev) rfl ?_
      refine Ok1.bind (accept_ok1 (by decide) s2 g2) (fun b s3 hin g3 t3 => ?_)
      cases b with
      | false =>
        refine Steps.unfold (R := R) ?_ s3 g3 (by simp at t3; omega)
        simp only [Bool.false_eq_true, if_false]
        unfold Z; steps
      | true =>
        simp at t3
        obtain ⟨hit, _⟩ := accept_true_info hin g2
        have hws : s2.ws.isEmpty = false := by
          cases hw : s2.ws with
          | cons a as => rfl
          | nil =>
            exfalso
            obtain ⟨r, hr⟩ := hadj hw (by rw [hit]; decide)
            have : NoAdj (s1.cur :: s2.cur :: r) := by rw [← hr]; exact g1
            exact this.1 ⟨hnt, hit⟩
        refine Steps.unfold (R := R - 1 - 1) ?_ s3 g3 (by omega)
        simp only [if_true, hws, Bool.false_eq_true, if_false]
        have h5 := e5_steps B hs k (R - 1 - 1) (by omega) (by omega)
        unfold Z at h5 ⊢
        steps

theorem e3Loop_steps (k j : Nat) : ∀ R, R ≤ B → R + 1 ≤ k → R + 1 ≤ j → ∀ l, Steps (e3Loop stmt k j l) R Z := by
  induction j with
  | zero => intro R _ _ h; omega
  | succ j ih =>
    intro R hR hk hj l
    unfold e3Loop Z; steps
    all_goals first
      | (refine e4_steps B hs k _ ?_ ?_ <;> omega)
      | (refine ih _ ?_ ?_ ?_ _ <;> omega)

theorem e3_steps (k : Nat) : ∀ R, R ≤ B → R + 1 ≤ k → Steps (e3 stmt k) R Z := by
  intro R hR hk
  unfold e3 Z; steps
  all_goals first
    | (refine e4_steps B hs k _ ?_ ?_ <;> omega)
    | (refine e3Loop_steps B hs k k _ ?_ ?_ ?_ _ <;> omega)

theorem e2Loop_steps (k j : Nat) : ∀ R, R ≤ B → R + 1 ≤ k → R + 1 ≤ j → ∀ l, Steps (e2Loop stmt k j l) R Z := by
  induction j with
  | zero => intro R _ _ h; omega
  | succ j ih =>
    intro R hR hk hj l
    unfold e2Loop Z; steps
    all_goals first
      | (refine e3_steps B hs k _ ?_ ?_ <;> omega)
      | (refine ih _ ?_ ?_ ?_ _ <;> omega)

theorem e2_steps (k : Nat) : ∀ R, R ≤ B → R + 1 ≤ k → Steps (e2 stmt k) R Z := by
  intro R hR hk
  unfold e2 Z; steps
  all_goals first
    | (refine e3_steps B hs k _ ?_ ?_ <;> omega)
    | (refine e2Loop_steps B hs k k _ ?_ ?_ ?_ _ <;> omega)

theorem e1_steps (k : Nat) : ∀ R, R ≤ B → R + 1 ≤ k → Steps (e1 stmt k) R Z := by
  intro R hR hk
  unfold e1 Z; steps
  all_goals first
    | (refine e2_steps B hs k _ ?_ ?_ <;> omega)
    | (refine hs _ ?_ <;> omega)

end

/-- `statement()` never runs out of fuel when the fuel exceeds the number of tokens left by two -/
theorem statement_steps (n : Nat) : ∀ R, R + 2 ≤ n → Steps (statement n) R Z := by
  induction n with
  | zero => intro R h; omega
  | succ m ih =>
    intro R hR
    unfold statement
    exact e1_steps R (fun R' h => ih R' (by omega)) m R (Nat.le_refl _) (by omega)

section
variable {stmt cb : P Node} (B : Nat) (hs : ∀ R', R' ≤ B → Steps stmt R' Z) (hcb : ∀ R', R' < B → Steps cb R' Z)
include hs hcb

theorem foreachBlock_steps : ∀ R, R ≤ B → Steps (foreachBlock stmt cb) R Z := by
  intro R hR
  unfold foreachBlock Z; steps
  all_goals first
    | (refine hs _ ?_ <;> omega)
    | (refine hcb _ ?_ <;> omega)

theorem elseifLoop_steps (j : Nat) : ∀ R, R ≤ B → R + 1 ≤ j → ∀ ifs, Steps (elseifLoop stmt cb j ifs) R Z := by
  induction j with
  | zero => intro R _ h; omega
  | succ j ih =>
    intro R hR hj ifs
    unfold elseifLoop Z; steps
    all_goals first
      | (refine hs _ ?_ <;> omega)
      | (refine hcb _ ?_ <;> omega)
      | (refine ih _ ?_ ?_ _ <;> omega)

omit hs in
theorem elseBlock_steps : ∀ R, R ≤ B → Steps (elseBlock cb) R Z := by
  intro R hR
  unfold elseBlock Z; steps
  all_goals (refine hcb _ ?_ <;> omega)

theorem ifBlock_steps (k : Nat) : ∀ R, R < B → R + 1 ≤ k → Steps (ifBlock stmt cb k) R Z := by
  intro R hR hk
  unfold ifBlock Z; steps
  all_goals first
    | (refine hs _ ?_ <;> omega)
    | (refine hcb _ ?_ <;> omega)
    | (refine elseifLoop_steps B hs hcb k _ ?_ ?_ _ <;> omega)
    | (refine elseBlock_steps B hcb _ ?_ <;> omega)

theorem line_steps (k : Nat) : ∀ R, R ≤ B → R + 1 ≤ k → Steps (line stmt cb k) R Z := by
  intro R hR hk
  unfold line Z; steps
  all_goals first
    | (refine hs _ ?_ <;> omega)
    | (refine ifBlock_steps B hs hcb k _ ?_ ?_ <;> omega)
    | (refine foreachBlock_steps B hs hcb _ ?_ <;> omega)

theorem codeblockLoop_steps (k j : Nat) : ∀ R, R ≤ B → R + 1 ≤ k → R + 1 ≤ j → ∀ b, Steps (codeblockLoop stmt cb k j b) R Z := by
  induction j with
  | zero => intro R _ _ h; omega
  | succ j ih =>
    intro R hR hk hj b
    unfold codeblockLoop Z; steps
    all_goals first
      | (refine line_steps B hs hcb k _ ?_ ?_ <;> omega)
      | (refine ih _ ?_ ?_ ?_ _ <;> omega)

end

/-- `codeblock()` never runs out of fuel when the fuel exceeds the number of tokens left by three -/
theorem codeblock_steps (n : Nat) : ∀ R, R + 3 ≤ n → Steps (codeblock n) R Z := by
  induction n with
  | zero => intro R h; omega
  | succ m ih =>
    intro R hR
    unfold codeblock Z; steps
    exact codeblockLoop_steps R (fun R' h => statement_steps m R' (by omega)) (fun R' h => ih R' (by omega))
      m m R (Nat.le_refl _) (by omega) (by omega) _

theorem accept_err_located {t : Tid} {st : PState} {e : Err} (he : accept t st = .error e) : e.isLocated = true := by
  unfold accept at he
  split at he
  · split at he
    · rename_i e' hgs; cases he; exact getsym_located hgs
    · cases he
  · cases he

theorem expect_err_located {t : Tid} {st : PState} {e : Err} (he : expect t st = .error e) : e.isLocated = true := by
  simp only [expect, bind_err] at he
  rcases he with he | ⟨b, s1, hacc, he⟩
  · exact accept_err_located he
  · cases b
    · simp only [Bool.false_eq_true, if_false, bind_err, get_ok] at he
      rcases he with he | ⟨_, _, _, he⟩
      · cases he
      · cases he; rfl
    · simp only [if_true] at he; cases he

/-- `fuel_suffices` + no `AttributeError`: with the default fuel, on a token list without adjacent `not`,`in`,
the only way `Parser(...).parse()` fails is a located error -/
theorem parseToks_located {names : List (Str × Nat)} {lr : LexResult} {e : Err}
    (hn : NoAdj lr.toks) (h : parseToks names lr (defaultFuel lr) = .error e) : e.isLocated = true := by
  unfold parseToks at h
  simp only at h
  split at h
  · rename_i e' hg; cases h; exact getsym_located hg
  · rename_i u s1 hg
    have hg0 : Good { cur := initialTok, prev := initialTok, ws := [], rest := lr.toks, lexErr := lr.err,
                      names := names } := by
      show NoAdj (initialTok :: lr.toks)
      cases hl : lr.toks with
      | nil => trivial
      | cons a as => rw [hl] at hn; exact ⟨fun h => by simp [initialTok] at h, hn⟩
    obtain ⟨g1, l1, _⟩ := getsym_good hg hg0
    have hcb := (codeblock_steps (defaultFuel lr) lr.toks.length (by simp [defaultFuel])).unfold s1 g1
      (by simpa [tokLeft] using l1)
    split at h
    · rename_i e' hc; cases h; exact hcb.1 _ hc
    · rename_i block s2 hc
      split at h
      · rename_i e' hex; cases h; exact expect_err_located hex
      · cases h

end MesonModel.Lang
