/-
`fuel_suffices` and unreachability of the `AttributeError` path of `e4`, in one compositional predicate.

`Steps f R d`: started in a state whose token stream has no `not` token immediately followed by an `in`
token (`Good`) and at most `R` tokens left, `f` can only fail with a *located* error (never `fuel`, never
`notInNoWs`), and when it succeeds with `a` the stream is still `Good` and at least `d a` tokens were
consumed. Every recursion of the parser happens after a token was consumed, which is what makes the fuel
`token count + 3` sufficient.
-/
import MesonModel.Lang.ParserLemmas

namespace MesonModel.Lang

def Err.isLocated : Err → Bool
  | .parse _ _ => true
  | .block _ _ => true
  | _ => false

/-- tokens not yet consumed (the current one, unless it is `eof`, and the rest of the stream) -/
def tokLeft (st : PState) : Nat := (if st.cur.tid == .eof then 0 else 1) + st.rest.length

/-- no `not` token is immediately followed by an `in` token -/
def NoAdj : List Token → Prop
  | a :: b :: rest => ¬(a.tid = .kNot ∧ b.tid = .kIn) ∧ NoAdj (b :: rest)
  | _ => True

def Good (st : PState) : Prop := NoAdj (st.cur :: st.rest)

def Ok1 {α} (f : P α) (st : PState) (d : α → Nat) : Prop :=
  (∀ e, f st = .error e → e.isLocated = true) ∧
  ∀ a st', f st = .ok (a, st') → Good st' ∧ tokLeft st' + d a ≤ tokLeft st

def Steps {α} (f : P α) (R : Nat) (d : α → Nat) : Prop :=
  ∀ st, Good st → tokLeft st ≤ R → Ok1 f st d

theorem NoAdj.tail {a : Token} {l : List Token} (h : NoAdj (a :: l)) : NoAdj l := by
  cases l with
  | nil => trivial
  | cons b rest => exact h.2

theorem NoAdj.single (a : Token) : NoAdj [a] := trivial

theorem Steps.mono {α} {f : P α} {R R' : Nat} {d : α → Nat} (h : Steps f R d) (hr : R' ≤ R) : Steps f R' d :=
  fun st hg ht => h st hg (Nat.le_trans ht hr)

theorem Steps.weaken {α} {f : P α} {R : Nat} {d : α → Nat} (h : Steps f R d) : Steps f R (fun _ => 0) := by
  intro st hg ht
  obtain ⟨h1, h2⟩ := h st hg ht
  exact ⟨h1, fun a st' hf => ⟨(h2 a st' hf).1, by have := (h2 a st' hf).2; show tokLeft st' + 0 ≤ tokLeft st; omega⟩⟩

theorem Steps.pure {α} (a : α) (R : Nat) : Steps (Pure.pure a : P α) R (fun _ => 0) := by
  intro st hg _
  refine ⟨fun e h => ?_, fun b st' h => ?_⟩
  · have : (Except.ok (a, st) : Except Err (α × PState)) = Except.error e := h
    cases this
  · have : (Except.ok (a, st) : Except Err (α × PState)) = Except.ok (b, st') := h
    cases this; exact ⟨hg, Nat.le_refl _⟩

theorem Steps.fail {α} {e : Err} (he : e.isLocated = true) (R : Nat) (d : α → Nat) : Steps (P.fail e : P α) R d := by
  intro st _ _
  refine ⟨fun e' h => ?_, fun b st' h => ?_⟩
  · have : (Except.error e : Except Err (α × PState)) = Except.error e' := h
    cases this; exact he
  · cases h

theorem Steps.raiseAt {α} (n : Node) (R : Nat) (d : α → Nat) : Steps (raiseAt n : P α) R d :=
  Steps.fail rfl R d

/-- a state-preserving (on `cur`/`rest`) total primitive -/
theorem Steps.prim {α} {f : P α} (R : Nat)
    (h : ∀ st, ∃ a st', f st = .ok (a, st') ∧ st'.cur = st.cur ∧ st'.rest = st.rest) :
    Steps f R (fun _ => 0) := by
  intro st hg _
  obtain ⟨a, st', hf, hc, hr⟩ := h st
  refine ⟨fun e he => (by rw [hf] at he; cases he), fun b s2 hb => ?_⟩
  rw [hf] at hb; cases hb
  exact ⟨by simp only [Good, hc, hr]; exact hg, by simp only [tokLeft, hc, hr]; exact Nat.le_refl _⟩

theorem Steps.get (R : Nat) : Steps P.get R (fun _ => 0) := Steps.prim R fun st => ⟨st, st, rfl, rfl, rfl⟩
theorem Steps.cur (R : Nat) : Steps cur R (fun _ => 0) := Steps.prim R fun st => ⟨st.cur, st, rfl, rfl, rfl⟩
theorem Steps.prev (R : Nat) : Steps prev R (fun _ => 0) := Steps.prim R fun st => ⟨st.prev, st, rfl, rfl, rfl⟩
theorem Steps.emptyAtCur (R : Nat) : Steps emptyAtCur R (fun _ => 0) :=
  Steps.prim R fun st => ⟨_, st, rfl, rfl, rfl⟩
theorem Steps.create (n : Node) (R : Nat) : Steps (create n) R (fun _ => 0) :=
  Steps.prim R fun st => ⟨_, _, rfl, rfl, rfl⟩
theorem Steps.createSymbol (t : Token) (R : Nat) : Steps (createSymbol t) R (fun _ => 0) := Steps.create _ R
theorem Steps.flushWs (n : Node) (R : Nat) : Steps (flushWs n) R (fun _ => 0) :=
  Steps.prim R fun st => ⟨_, _, rfl, rfl, rfl⟩
theorem Steps.modify {g : PState → PState} (hg : ∀ s, (g s).cur = s.cur ∧ (g s).rest = s.rest) (R : Nat) :
    Steps (P.modify g) R (fun _ => 0) :=
  Steps.prim R fun st => ⟨(), g st, rfl, (hg st).1, (hg st).2⟩
theorem Steps.noteOrder (a : Node) (R : Nat) : Steps (noteOrder a) R (fun _ => 0) := by
  apply Steps.modify
  intro s; split <;> exact ⟨rfl, rfl⟩

theorem Steps.bind {α β} {m : P α} {f : α → P β} {R : Nat} {d1 : α → Nat} {d : β → Nat}
    (hm : Steps m R d1) (hf : ∀ a, Steps (f a) (R - d1 a) d) : Steps (m >>= f) R d := by
  intro st hg ht
  obtain ⟨m1, m2⟩ := hm st hg ht
  have hb : (m >>= f) st = (match m st with | Except.error e => Except.error e | Except.ok (a, s') => f a s') := rfl
  cases hms : m st with
  | error e =>
    rw [hms] at hb
    refine ⟨fun e' he => ?_, fun b st' he => ?_⟩
    · rw [hb] at he; cases he; exact m1 e hms
    · rw [hb] at he; cases he
  | ok p =>
    obtain ⟨a, s1⟩ := p
    rw [hms] at hb
    obtain ⟨g1, t1⟩ := m2 a s1 hms
    obtain ⟨f1, f2⟩ := hf a s1 g1 (by omega)
    refine ⟨fun e' he => ?_, fun b st' he => ?_⟩
    · rw [hb] at he; exact f1 e' he
    · rw [hb] at he
      obtain ⟨g2, t2⟩ := f2 b st' he
      exact ⟨g2, by omega⟩

theorem Steps.bind0 {α β} {m : P α} {f : α → P β} {R : Nat} {d : β → Nat}
    (hm : Steps m R (fun _ => 0)) (hf : ∀ a, Steps (f a) R d) : Steps (m >>= f) R d :=
  Steps.bind hm (fun a => by simpa using hf a)

/-! ### token consumption -/

theorem advance_good {lexErr : Option (Nat × Nat)} {last : Token} {rest ws : List Token}
    {c : Token} {rest' ws' : List Token}
    (h : advance lexErr last rest ws = .ok (c, rest', ws')) (hn : NoAdj rest) :
    NoAdj (c :: rest') ∧ (if c.tid == .eof then 0 else 1) + rest'.length ≤ rest.length ∧
      (ws' = ws → c.tid ≠ .eof → ∃ r, rest = c :: r) := by
  induction rest generalizing last ws with
  | nil =>
    unfold advance at h
    split at h
    · simp at h
    · simp at h; obtain ⟨rfl, rfl, rfl⟩ := h
      exact ⟨trivial, by simp [eofFrom], fun _ hc => absurd rfl hc⟩
  | cons t rest ih =>
    unfold advance at h
    split at h
    · simp at h; obtain ⟨rfl, rfl, rfl⟩ := h
      exact ⟨hn, by simp only [List.length_cons]; split <;> omega, fun _ _ => ⟨_, rfl⟩⟩
    · split at h
      · obtain ⟨h1, h2, h3⟩ := ih h hn.tail
        refine ⟨h1, Nat.le_succ_of_le h2, fun hw => ?_⟩
        -- the pending list grew by `t`, so it cannot be unchanged
        exfalso
        have := advance_ws_len h
        simp [hw] at this
        omega
      · simp at h; obtain ⟨rfl, rfl, rfl⟩ := h
        exact ⟨hn, by simp only [List.length_cons]; split <;> omega, fun _ _ => ⟨_, rfl⟩⟩
where
  advance_ws_len {lexErr : Option (Nat × Nat)} {last : Token} {rest ws : List Token}
      {c : Token} {rest' ws' : List Token}
      (h : advance lexErr last rest ws = .ok (c, rest', ws')) : ws.length ≤ ws'.length := by
    induction rest generalizing last ws with
    | nil =>
      unfold advance at h
      split at h
      · simp at h
      · simp at h; simp [h.2.2]
    | cons t rest ih =>
      unfold advance at h
      split at h
      · simp at h; simp [← h.2.2]
      · split at h
        · have := ih h; simp at this; omega
        · simp at h; simp [h.2.2]

theorem getsym_good {st st' : PState} {u : Unit} (h : getsym st = .ok (u, st')) (hg : Good st) :
    Good st' ∧ (if st'.cur.tid == .eof then 0 else 1) + st'.rest.length ≤ st.rest.length ∧
      (st'.ws = st.ws → st'.cur.tid ≠ .eof → ∃ r, st.rest = st'.cur :: r) := by
  unfold getsym at h
  split at h
  · cases h
  · rename_i c rest ws hadv
    cases h
    exact advance_good hadv hg.tail

theorem getsym_located {st : PState} {e : Err} (h : getsym st = .error e) : e.isLocated = true := by
  unfold getsym at h
  split at h
  · rename_i e' hadv
    cases h
    -- `advance` only raises the lexer's located error
    have : ∀ (rest : List Token) (last : Token) (ws : List Token) (e : Err),
        advance st.lexErr last rest ws = .error e → e.isLocated = true := by
      intro rest
      induction rest with
      | nil =>
        intro last ws e h
        unfold advance at h
        split at h
        · cases h; rfl
        · cases h
      | cons t rest ih =>
        intro last ws e h
        unfold advance at h
        split at h
        · cases h
        · split at h
          · exact ih _ _ _ h
          · cases h
    exact this _ _ _ _ hadv
  · cases h

theorem accept_ok1 {t : Tid} (ht : t ≠ .eof) (st : PState) (hg : Good st) :
    Ok1 (accept t) st (fun b => if b then 1 else 0) := by
  refine ⟨fun e' he => ?_, fun b st' he => ?_⟩
  · unfold accept at he
    split at he
    · split at he
      · rename_i e hgs; cases he; exact getsym_located hgs
      · cases he
    · cases he
  · unfold accept at he
    split at he
    · rename_i hc
      have hne : (st.cur.tid == Tid.eof) = false := by
        have : st.cur.tid = t := by simpa using hc
        simp [this, ht]
      split at he
      · cases he
      · rename_i u s1 hgs
        cases he
        obtain ⟨g1, l1, _⟩ := getsym_good hgs hg
        refine ⟨g1, ?_⟩
        simp only [tokLeft, hne, if_true]
        simp only [Bool.false_eq_true, if_false]
        omega
    · cases he
      exact ⟨hg, by simp⟩

theorem acceptAny_ok1 {ts : List Tid} (ht : Tid.eof ∉ ts) (st : PState) (hg : Good st) :
    Ok1 (acceptAny ts) st (fun o => if o.isSome then 1 else 0) := by
  refine ⟨fun e' he => ?_, fun b st' he => ?_⟩
  · unfold acceptAny at he
    split at he
    · split at he
      · rename_i e hgs; cases he; exact getsym_located hgs
      · cases he
    · cases he
  · unfold acceptAny at he
    split at he
    · rename_i hc
      have hne : (st.cur.tid == Tid.eof) = false := by
        have hm : st.cur.tid ∈ ts := by simpa using hc
        cases h : st.cur.tid == Tid.eof
        · rfl
        · have : st.cur.tid = .eof := by simpa using h
          rw [this] at hm; exact absurd hm ht
      split at he
      · cases he
      · rename_i u s1 hgs
        cases he
        obtain ⟨g1, l1, _⟩ := getsym_good hgs hg
        refine ⟨g1, ?_⟩
        simp only [tokLeft, hne, Option.isSome_some, if_true]
        simp only [Bool.false_eq_true, if_false]
        omega
    · cases he
      exact ⟨hg, by simp⟩

theorem Steps.acceptR {t : Tid} (ht : t ≠ .eof) (R : Nat) :
    Steps (MesonModel.Lang.accept t) R (fun b => if b then 1 else 0) :=
  fun st hg _ => accept_ok1 ht st hg

/-- pointwise bind rule: the continuation may use what is known about the intermediate state -/
theorem Ok1.bind {α β} {m : P α} {f : α → P β} {st : PState} {d1 : α → Nat} {d : β → Nat}
    (hm : Ok1 m st d1)
    (hf : ∀ a s1, m st = .ok (a, s1) → Good s1 → tokLeft s1 + d1 a ≤ tokLeft st → Ok1 (f a) s1 d) :
    Ok1 (m >>= f) st d := by
  obtain ⟨m1, m2⟩ := hm
  have hb : (m >>= f) st = (match m st with | Except.error e => Except.error e | Except.ok (a, s') => f a s') := rfl
  cases hms : m st with
  | error e =>
    rw [hms] at hb
    refine ⟨fun e' he => ?_, fun b st' he => ?_⟩
    · rw [hb] at he; cases he; exact m1 e hms
    · rw [hb] at he; cases he
  | ok p =>
    obtain ⟨a, s1⟩ := p
    rw [hms] at hb
    obtain ⟨g1, t1⟩ := m2 a s1 hms
    obtain ⟨f1, f2⟩ := hf a s1 hms g1 t1
    refine ⟨fun e' he => ?_, fun b st' he => ?_⟩
    · rw [hb] at he; exact f1 e' he
    · rw [hb] at he
      obtain ⟨g2, t2⟩ := f2 b st' he
      exact ⟨g2, by omega⟩

theorem Steps.bind_accept {β} {t : Tid} {f : Bool → P β} {R : Nat} {d : β → Nat} (ht : t ≠ .eof)
    (h1 : 1 ≤ R → Steps (f true) (R - 1) d) (h0 : Steps (f false) R d) :
    Steps (MesonModel.Lang.accept t >>= f) R d := by
  intro st hg hR
  refine Ok1.bind (accept_ok1 ht st hg) (fun a s1 _ g1 t1 => ?_)
  cases a
  · exact h0 s1 g1 (by simp at t1; omega)
  · simp at t1
    exact h1 (by omega) s1 g1 (by omega)

theorem Steps.bind_acceptAny {β} {ts : List Tid} {f : Option Tid → P β} {R : Nat} {d : β → Nat}
    (ht : Tid.eof ∉ ts)
    (h1 : ∀ tid, 1 ≤ R → Steps (f (some tid)) (R - 1) d) (h0 : Steps (f none) R d) :
    Steps (MesonModel.Lang.acceptAny ts >>= f) R d := by
  intro st hg hR
  refine Ok1.bind (acceptAny_ok1 ht st hg) (fun a s1 _ g1 t1 => ?_)
  cases a with
  | none => exact h0 s1 g1 (by simp at t1; omega)
  | some tid =>
    simp at t1
    exact h1 tid (by omega) s1 g1 (by omega)

theorem bind_err {α β} (m : P α) (f : α → P β) (st : PState) (e : Err) :
    (m >>= f) st = .error e ↔ m st = .error e ∨ ∃ a s1, m st = .ok (a, s1) ∧ f a s1 = .error e := by
  show (match m st with | Except.error e => Except.error e | Except.ok (a, s') => f a s') = Except.error e ↔ _
  cases h : m st with
  | error e' => simp
  | ok p =>
    obtain ⟨a, s1⟩ := p
    simp only [Except.ok.injEq, Prod.mk.injEq, reduceCtorEq, false_or]
    constructor
    · intro h; exact ⟨a, s1, ⟨rfl, rfl⟩, h⟩
    · rintro ⟨a', s', ⟨rfl, rfl⟩, h⟩; exact h

theorem expect_ok1 {t : Tid} (ht : t ≠ .eof) (st : PState) (hg : Good st) : Ok1 (expect t) st (fun _ => 1) := by
  obtain ⟨a1, a2⟩ := accept_ok1 ht st hg
  refine ⟨fun e he => ?_, fun u st' he => ?_⟩
  · simp only [expect, bind_err] at he
    rcases he with he | ⟨b, s1, hacc, he⟩
    · exact a1 e he
    · cases b
      · simp only [Bool.false_eq_true, if_false, bind_err, get_ok] at he
        rcases he with he | ⟨_, _, _, he⟩
        · cases he
        · cases he; rfl
      · simp only [if_true] at he; cases he
  · simp only [expect, bind_ok] at he
    obtain ⟨b, s1, hacc, he⟩ := he
    cases b
    · simp [bind_ok, get_ok, fail_ok] at he
    · simp only [if_true, pure_ok] at he
      cases he
      simpa using a2 true st' hacc

theorem blockExpect_ok1 {t : Tid} (ht : t ≠ .eof) (st : PState) (hg : Good st) :
    Ok1 (blockExpect t) st (fun _ => 1) := by
  obtain ⟨a1, a2⟩ := accept_ok1 ht st hg
  refine ⟨fun e he => ?_, fun u st' he => ?_⟩
  · simp only [blockExpect, bind_err] at he
    rcases he with he | ⟨b, s1, hacc, he⟩
    · exact a1 e he
    · cases b
      · simp only [Bool.false_eq_true, if_false, bind_err, get_ok] at he
        rcases he with he | ⟨_, _, _, he⟩
        · cases he
        · cases he; rfl
      · simp only [if_true] at he; cases he
  · simp only [blockExpect, bind_ok] at he
    obtain ⟨b, s1, hacc, he⟩ := he
    cases b
    · simp [bind_ok, get_ok, fail_ok] at he
    · simp only [if_true, pure_ok] at he
      cases he
      simpa using a2 true st' hacc

theorem Steps.bind_expect {β} {t : Tid} {f : Unit → P β} {R : Nat} {d : β → Nat} (ht : t ≠ .eof)
    (h1 : ∀ u, 1 ≤ R → Steps (f u) (R - 1) d) : Steps (MesonModel.Lang.expect t >>= f) R d := by
  intro st hg hR
  refine Ok1.bind (expect_ok1 ht st hg) (fun a s1 _ g1 t1 => ?_)
  exact h1 a (by omega) s1 g1 (by omega)

theorem Steps.bind_blockExpect {β} {t : Tid} {f : Unit → P β} {R : Nat} {d : β → Nat} (ht : t ≠ .eof)
    (h1 : ∀ u, 1 ≤ R → Steps (f u) (R - 1) d) : Steps (MesonModel.Lang.blockExpect t >>= f) R d := by
  intro st hg hR
  refine Ok1.bind (blockExpect_ok1 ht st hg) (fun a s1 _ g1 t1 => ?_)
  exact h1 a (by omega) s1 g1 (by omega)

theorem Steps.ite {α} {c : Prop} [Decidable c] {t e : P α} {R : Nat} {d : α → Nat}
    (ht : Steps t R d) (he : Steps e R d) : Steps (if c then t else e) R d := by
  split <;> assumption

/-! ### the productions -/

macro "steps_step" : tactic => `(tactic| first
  | exact Steps.pure _ _ | exact Steps.fail rfl _ _ | exact Steps.raiseAt _ _ _
  | exact Steps.get _ | exact Steps.cur _ | exact Steps.prev _ | exact Steps.emptyAtCur _
  | exact Steps.create _ _ | exact Steps.createSymbol _ _ | exact Steps.flushWs _ _
  | exact Steps.noteOrder _ _
  | exact Steps.modify (fun _ => ⟨rfl, rfl⟩) _
  | assumption
  | apply Steps.bind_accept (by decide)
  | apply Steps.bind_acceptAny (by decide)
  | apply Steps.bind_expect (by decide)
  | apply Steps.bind_blockExpect (by decide)
  | apply Steps.bind0
  | intro _
  | (dsimp only; done)
  | (progress dsimp only)
  | (progress simp only [↓reduceIte, Bool.false_eq_true, Bool.not_true, Bool.not_false])
  | apply Steps.ite
  | split)

macro "steps" : tactic => `(tactic| repeat' steps_step)

abbrev Z {α} : α → Nat := fun _ => 0

theorem e10_steps (R : Nat) : Steps e10 R Z := by
  unfold e10 Z; steps

end MesonModel.Lang
