/-
The `in_ternary` flag: every production leaves it as it found it (`e1` sets it while it parses the two
branches of a ternary and resets it), and while it is set `e1` never returns a ternary node.
-/
import MesonModel.Lang.ShapeLemmas

namespace MesonModel.Lang

def PT {α} (f : P α) : Prop := ∀ st a st', f st = .ok (a, st') → st'.inTernary = st.inTernary

theorem PT.bind {α β} {m : P α} {f : α → P β} (hm : PT m) (hf : ∀ a, PT (f a)) : PT (m >>= f) := by
  intro st b st' h
  simp only [bind_ok] at h
  obtain ⟨a, s1, h1, h2⟩ := h
  rw [hf a _ _ _ h2, hm _ _ _ h1]

theorem PT.pure {α} (a : α) : PT (Pure.pure a : P α) := by
  intro st b st' h; simp only [pure_ok] at h; cases h; rfl

theorem PT.fail {α} (e : Err) : PT (P.fail e : P α) := by
  intro st b st' h; simp [fail_ok] at h

theorem PT.raiseAt {α} (n : Node) : PT (raiseAt n : P α) := PT.fail _

theorem PT.prim {α} {f : P α} (h : ∀ st a st', f st = .ok (a, st') → st'.inTernary = st.inTernary) : PT f := h

theorem PT.get : PT P.get := fun st a st' h => by cases h; rfl
theorem PT.cur : PT cur := fun st a st' h => by cases h; rfl
theorem PT.prev : PT prev := fun st a st' h => by cases h; rfl
theorem PT.emptyAtCur : PT emptyAtCur := fun st a st' h => by cases h; rfl
theorem PT.create (n : Node) : PT (create n) := fun st a st' h => by cases h; rfl
theorem PT.createSymbol (t : Token) : PT (createSymbol t) := PT.create _
theorem PT.flushWs (n : Node) : PT (flushWs n) := fun st a st' h => by cases h; rfl
theorem PT.modify {g : PState → PState} (hg : ∀ s, (g s).inTernary = s.inTernary) : PT (P.modify g) :=
  fun st a st' h => by cases h; exact hg st
theorem PT.noteOrder (a : Node) : PT (noteOrder a) := by
  apply PT.modify; intro s; split <;> rfl

theorem PT.accept (t : Tid) : PT (accept t) := by
  intro st b st' h
  rcases accept_spec h with ⟨_, rfl, _⟩ | ⟨_, _, _, _, hfl⟩
  · rfl
  · exact hfl.tern

theorem PT.acceptAny (ts : List Tid) : PT (acceptAny ts) := by
  intro st b st' h
  rcases acceptAny_spec h with ⟨_, rfl⟩ | ⟨_, _, _, _, hfl⟩
  · rfl
  · exact hfl.tern

theorem PT.ite {α} {c : Prop} [Decidable c] {t e : P α} (ht : PT t) (he : PT e) : PT (if c then t else e) := by
  split <;> assumption

theorem PT.elim {α} {f : P α} (h : PT f) : ∀ st a st', f st = .ok (a, st') → st'.inTernary = st.inTernary := h
theorem PT.intro {α} {f : P α} (h : ∀ st a st', f st = .ok (a, st') → st'.inTernary = st.inTernary) : PT f := h

attribute [irreducible] PT

syntax "pt_extra" : tactic
macro_rules | `(tactic| pt_extra) => `(tactic| fail "no extra rule")

set_option hygiene false in
macro "pt_ih" : tactic => `(tactic| exact ih _)

macro "pt_step" : tactic => `(tactic| first
  | exact PT.pure _ | exact PT.fail _ | exact PT.raiseAt _ | exact PT.get | exact PT.cur | exact PT.prev
  | exact PT.emptyAtCur | exact PT.create _ | exact PT.createSymbol _ | exact PT.flushWs _ | exact PT.noteOrder _
  | exact PT.accept _ | exact PT.acceptAny _
  | (with_reducible apply PT.modify; intro _; rfl)
  | assumption
  | pt_extra
  | pt_ih
  | with_reducible apply PT.bind
  | with_reducible apply PT.ite
  | intro _
  | split)

macro "pt" : tactic => `(tactic| repeat' pt_step)

theorem PT.expect (t : Tid) : PT (expect t) := by unfold MesonModel.Lang.expect; pt
theorem PT.blockExpect (t : Tid) : PT (blockExpect t) := by unfold MesonModel.Lang.blockExpect; pt
macro_rules | `(tactic| pt_extra) => `(tactic| first | exact PT.expect _ | exact PT.blockExpect _)

theorem e10_pt : PT e10 := by unfold e10; pt
macro_rules | `(tactic| pt_extra) => `(tactic| exact e10_pt)

section
variable {stmt : P Node} (hs : PT stmt)
include hs

theorem argsLoop_pt (j : Nat) : ∀ a s, PT (argsLoop stmt j a s) := by
  induction j with
  | zero => intro a s; unfold argsLoop; pt
  | succ j ih => intro a s; unfold argsLoop; pt <;> exact ih _ _
theorem args_pt (k : Nat) : PT (args stmt k) := by
  unfold args; pt; exact argsLoop_pt hs k _ _
theorem kvLoop_pt (j : Nat) : ∀ a s, PT (kvLoop stmt j a s) := by
  induction j with
  | zero => intro a s; unfold kvLoop; pt
  | succ j ih => intro a s; unfold kvLoop; pt <;> exact ih _ _
theorem keyValues_pt (k : Nat) : PT (keyValues stmt k) := by
  unfold keyValues; pt; exact kvLoop_pt hs k _ _
theorem e9_pt (k : Nat) : PT (e9 stmt k) := by
  have h1 := args_pt hs k
  have h2 := keyValues_pt hs k
  unfold e9; pt
theorem methodCall_pt (k j : Nat) : ∀ src, PT (methodCall stmt k j src) := by
  induction j with
  | zero => intro src; unfold methodCall; pt
  | succ j ih => intro src; have h1 := args_pt hs k; unfold methodCall; pt
theorem indexCall_pt (src : Node) : PT (indexCall stmt src) := by
  unfold indexCall; pt
theorem e8Loop_pt (k j : Nat) : ∀ l, PT (e8Loop stmt k j l) := by
  induction j with
  | zero => intro l; unfold e8Loop; pt
  | succ j ih =>
    intro l
    have h1 := fun src => methodCall_pt hs k k src
    have h2 := fun src => indexCall_pt hs src
    unfold e8Loop; pt <;> first | exact h1 _ | exact h2 _
theorem e8_pt (k : Nat) : PT (e8 stmt k) := by
  have h1 := args_pt hs k
  have h2 := e9_pt hs k
  unfold e8; pt; all_goals exact e8Loop_pt hs k k _
theorem e7_pt (k : Nat) : PT (e7 stmt k) := by
  have h1 := e8_pt hs k
  unfold e7; pt
theorem e6Loop_pt (k j : Nat) : ∀ l, PT (e6Loop stmt k j l) := by
  induction j with
  | zero => intro l; unfold e6Loop; pt
  | succ j ih => intro l; have h1 := e7_pt hs k; unfold e6Loop; pt
theorem e6_pt (k : Nat) : PT (e6 stmt k) := by
  have h1 := e7_pt hs k
  unfold e6; pt; all_goals exact e6Loop_pt hs k k _
theorem e5Loop_pt (k j : Nat) : ∀ l, PT (e5Loop stmt k j l) := by
  induction j with
  | zero => intro l; unfold e5Loop; pt
  | succ j ih => intro l; have h1 := e6_pt hs k; unfold e5Loop; pt
theorem e5_pt (k : Nat) : PT (e5 stmt k) := by
  have h1 := e6_pt hs k
  unfold e5; pt; all_goals exact e5Loop_pt hs k k _
theorem e4_pt (k : Nat) : PT (e4 stmt k) := by
  have h1 := e5_pt hs k
  unfold e4; pt
theorem e3Loop_pt (k j : Nat) : ∀ l, PT (e3Loop stmt k j l) := by
  induction j with
  | zero => intro l; unfold e3Loop; pt
  | succ j ih => intro l; have h1 := e4_pt hs k; unfold e3Loop; pt
theorem e3_pt (k : Nat) : PT (e3 stmt k) := by
  have h1 := e4_pt hs k
  unfold e3; pt; all_goals exact e3Loop_pt hs k k _
theorem e2Loop_pt (k j : Nat) : ∀ l, PT (e2Loop stmt k j l) := by
  induction j with
  | zero => intro l; unfold e2Loop; pt
  | succ j ih => intro l; have h1 := e3_pt hs k; unfold e2Loop; pt
theorem e2_pt (k : Nat) : PT (e2 stmt k) := by
  have h1 := e3_pt hs k
  unfold e2; pt; all_goals exact e2Loop_pt hs k k _

theorem e1_pt (k : Nat) : PT (e1 stmt k) := by
  have h2 := e2_pt hs k
  apply PT.intro
  intro st n st' h
  simp only [e1, bind_ok] at h
  obtain ⟨left, sA, hleft, b1, s1, ha1, h⟩ := h
  have fA := h2.elim _ _ _ hleft
  have f1 := (PT.accept _).elim _ _ _ ha1
  cases b1
  case true =>
    simp only [if_true, bind_ok, prev_ok] at h
    obtain ⟨tk, s2, hpv, sym, s3, hsym, v, s4, hv, h⟩ := h
    cases hpv
    split at h
    · simp [raiseAt_ok] at h
    · rw [(PT.create _).elim _ _ _ h, hs.elim _ _ _ hv, (PT.createSymbol _).elim _ _ _ hsym, f1, fA]
  case false =>
    simp only [Bool.false_eq_true, if_false, bind_ok] at h
    obtain ⟨b2, s2, ha2, h⟩ := h
    have f2 := (PT.accept _).elim _ _ _ ha2
    cases b2
    case true =>
      simp only [if_true, bind_ok, prev_ok] at h
      obtain ⟨tk, s3, hpv, sym, s4, hsym, v, s5, hv, h⟩ := h
      cases hpv
      split at h
      · simp [raiseAt_ok] at h
      · rw [(PT.create _).elim _ _ _ h, hs.elim _ _ _ hv, (PT.createSymbol _).elim _ _ _ hsym, f2, f1, fA]
    case false =>
      simp only [Bool.false_eq_true, if_false, bind_ok] at h
      obtain ⟨b3, s3, ha3, h⟩ := h
      have f3 := (PT.accept _).elim _ _ _ ha3
      cases b3
      case false =>
        simp only [Bool.false_eq_true, if_false, pure_ok] at h
        cases h
        rw [f3, f2, f1, fA]
      case true =>
        simp only [if_true, bind_ok, get_ok] at h
        obtain ⟨_, _, hg, h⟩ := h
        cases hg
        split at h
        · simp [raiseAt_ok] at h
        · rename_i hflag
          simp only [bind_ok, prev_ok, modify_ok] at h
          obtain ⟨tk, s4, hpv, q, s5, hq, _, s6, hm, t, s7, ht, _, s8, hcol, tk2, s9, hpv2, c, s10, hc, f, s11, hf,
            _, s12, hm2, hcr⟩ := h
          cases hpv; cases hm; cases hpv2; cases hm2
          rw [(PT.create _).elim _ _ _ hcr]
          -- reset to false, which is what the flag was when the `?` was accepted
          have : s3.inTernary = false := by simpa using hflag
          show false = st.inTernary
          rw [← this, f3, f2, f1, fA]

end

theorem statement_pt (n : Nat) : PT (statement n) := by
  induction n with
  | zero => unfold statement; pt
  | succ m ih => unfold statement; exact e1_pt ih m

/-! ### what can sit at the top of an `e2` result -/

theorem e3Loop_notTernary (stmt : P Node) (k j : Nat) :
    ∀ l, l.isTernary = false → Returns (e3Loop stmt k j l) (fun n => !n.isTernary) := by
  induction j with
  | zero => intro l _ st n st' h; simp [e3Loop, fail_ok] at h
  | succ j ih =>
    intro l hl st n st' h
    simp only [e3Loop, bind_ok] at h
    obtain ⟨b, s1, ha, h⟩ := h
    cases b
    · simp only [Bool.false_eq_true, if_false, pure_ok] at h; cases h; simp [hl]
    · simp only [if_true, bind_ok, prev_ok] at h
      obtain ⟨tk, s2, hpv, sym, s3, hsym, h⟩ := h
      split at h
      · simp [raiseAt_ok] at h
      · simp only [bind_ok] at h
        obtain ⟨r, s4, hr, nd, s5, hcr, hloop⟩ := h
        refine ih _ ?_ _ _ _ hloop
        rw [create_returns hcr]; rfl

theorem e4_notTernary (stmt : P Node) (k : Nat) : Returns (e4 stmt k) (fun n => !n.isTernary) := by
  intro st n st' h
  have := e4_operands_not_cmp stmt k st n st' h
  cases n <;> simp_all [Node.isTernary, Node.isE5, Node.isE7, Node.isArith, Node.isUnary, Node.isPostfix]

theorem e3_notTernary (stmt : P Node) (k : Nat) : Returns (e3 stmt k) (fun n => !n.isTernary) := by
  intro st n st' h
  simp only [e3, bind_ok] at h
  obtain ⟨l, s1, hl, hloop⟩ := h
  have := e4_notTernary _ _ _ _ _ hl
  exact e3Loop_notTernary _ _ _ _ (by simpa using this) _ _ _ hloop

theorem e2Loop_notTernary (stmt : P Node) (k j : Nat) :
    ∀ l, l.isTernary = false → Returns (e2Loop stmt k j l) (fun n => !n.isTernary) := by
  induction j with
  | zero => intro l _ st n st' h; simp [e2Loop, fail_ok] at h
  | succ j ih =>
    intro l hl st n st' h
    simp only [e2Loop, bind_ok] at h
    obtain ⟨b, s1, ha, h⟩ := h
    cases b
    · simp only [Bool.false_eq_true, if_false, pure_ok] at h; cases h; simp [hl]
    · simp only [if_true, bind_ok, prev_ok] at h
      obtain ⟨tk, s2, hpv, sym, s3, hsym, h⟩ := h
      split at h
      · simp [raiseAt_ok] at h
      · simp only [bind_ok] at h
        obtain ⟨r, s4, hr, nd, s5, hcr, hloop⟩ := h
        refine ih _ ?_ _ _ _ hloop
        rw [create_returns hcr]; rfl

theorem e2_notTernary (stmt : P Node) (k : Nat) : Returns (e2 stmt k) (fun n => !n.isTernary) := by
  intro st n st' h
  simp only [e2, bind_ok] at h
  obtain ⟨l, s1, hl, hloop⟩ := h
  have := e3_notTernary _ _ _ _ _ hl
  exact e2Loop_notTernary _ _ _ _ (by simpa using this) _ _ _ hloop

/-- `ternary_not_nested`: while `in_ternary` is set — i.e. anywhere inside the two branches of a ternary,
at any nesting depth, parentheses included — `statement()` never returns a ternary node -/
theorem statement_no_ternary_in_ternary (n : Nat) {st st' : PState} {nd : Node}
    (h : statement n st = .ok (nd, st')) (ht : st.inTernary = true) : nd.isTernary = false := by
  cases n with
  | zero => simp [statement, fail_ok] at h
  | succ m =>
    unfold statement at h
    exact e1_no_ternary_in_ternary (statement m) m h (e2_notTernary _ _)
      (fun s a s' hs => (e2_pt (statement_pt m) m).elim s a s' hs) ht


end MesonModel.Lang
