/-
Model of `mesonbuild/mparser.py` `Lexer` (lines 102-234): the ordered regex table (hand matchers, one per
pattern), the single-character table, bracket counters that turn `eol` into `whitespace`, keyword
promotion, `lineno`/`line_start`/`col` bookkeeping including multi-line strings and `\`-continuations.
Core Lean only.  Strings are `List Char`; offsets are code-point indices exactly as in Python `str`.

Domain note: `\d` in the number pattern is modelled on ASCII digits only (non-ASCII digits are outside
the validated domain, DESIGN §2.3).
-/
import MesonModel.Py.Str
import MesonModel.Generated.LexTables

namespace MesonModel.Lang
open MesonModel.Py

abbrev Str := List Char

/-- token ids (`Token.tid`): regex-table names, single-character names, keywords, `eof` -/
inductive Tid where
  | whitespace | multilineFstring | fstring | id | number | eolCont | multilineString | comment
  | string | plusassign | equal | nequal | le | ge
  | eol | lparen | rparen | lbracket | rbracket | lcurl | rcurl | dblquote | comma | dot | plus
  | dash | star | percent | fslash | colon | assign | lt | gt | questionmark
  | kTrue | kFalse | kIf | kElse | kElif | kEndif | kAnd | kOr | kNot | kForeach | kEndforeach
  | kIn | kContinue | kBreak | kTestcase | kEndtestcase
  | eof
  deriving DecidableEq, Repr, Inhabited

def Tid.name : Tid → String
  | .whitespace => "whitespace" | .multilineFstring => "multiline_fstring" | .fstring => "fstring"
  | .id => "id" | .number => "number" | .eolCont => "eol_cont" | .multilineString => "multiline_string"
  | .comment => "comment" | .string => "string" | .plusassign => "plusassign" | .equal => "equal"
  | .nequal => "nequal" | .le => "le" | .ge => "ge" | .eol => "eol" | .lparen => "lparen"
  | .rparen => "rparen" | .lbracket => "lbracket" | .rbracket => "rbracket" | .lcurl => "lcurl"
  | .rcurl => "rcurl" | .dblquote => "dblquote" | .comma => "comma" | .dot => "dot" | .plus => "plus"
  | .dash => "dash" | .star => "star" | .percent => "percent" | .fslash => "fslash" | .colon => "colon"
  | .assign => "assign" | .lt => "lt" | .gt => "gt" | .questionmark => "questionmark"
  | .kTrue => "true" | .kFalse => "false" | .kIf => "if" | .kElse => "else" | .kElif => "elif"
  | .kEndif => "endif" | .kAnd => "and" | .kOr => "or" | .kNot => "not" | .kForeach => "foreach"
  | .kEndforeach => "endforeach" | .kIn => "in" | .kContinue => "continue" | .kBreak => "break"
  | .kTestcase => "testcase" | .kEndtestcase => "endtestcase"
  | .eof => "eof"

def allTids : List Tid :=
  [.whitespace, .multilineFstring, .fstring, .id, .number, .eolCont, .multilineString, .comment,
   .string, .plusassign, .equal, .nequal, .le, .ge, .eol, .lparen, .rparen, .lbracket, .rbracket,
   .lcurl, .rcurl, .dblquote, .comma, .dot, .plus, .dash, .star, .percent, .fslash, .colon, .assign,
   .lt, .gt, .questionmark, .kTrue, .kFalse, .kIf, .kElse, .kElif, .kEndif, .kAnd, .kOr, .kNot,
   .kForeach, .kEndforeach, .kIn, .kContinue, .kBreak, .kTestcase, .kEndtestcase, .eof]

def Tid.ofName (s : String) : Option Tid := allTids.find? (fun t => t.name == s)

/-- `Token` of mparser.py.  `text` is `code[bytespan[0]:bytespan[1]]` (not a Python field; it is what
the partition theorem speaks about). `value` is the Python `value` (quotes stripped for strings). -/
structure Token where
  tid : Tid
  lineStart : Nat
  lineno : Nat
  colno : Nat
  spanStart : Nat
  spanEnd : Nat
  value : Str
  text : Str
  deriving DecidableEq, Repr, Inhabited

/-! ### tables (from `Generated.LexTables`, i.e. from the live Python objects) -/

def keywordTable : List (Str × Tid) :=
  Generated.LexTables.keywords.filterMap (fun k => (Tid.ofName k).map (fun t => (k.toList, t)))

def tokenSpecTids : List Tid := Generated.LexTables.tokenSpec.filterMap Tid.ofName

def singleCharTable : List (Nat × Tid) :=
  Generated.LexTables.singleChar.filterMap (fun (c, n) => (Tid.ofName n).map (fun t => (c, t)))

/-- every name in the generated tables is a token id the model knows (checked by `decide` in Props) -/
def tablesKnown : Bool :=
  Generated.LexTables.keywords.all (fun k => (Tid.ofName k).isSome) &&
  Generated.LexTables.tokenSpec.all (fun k => (Tid.ofName k).isSome) &&
  Generated.LexTables.singleChar.all (fun (_, k) => (Tid.ofName k).isSome)

def lookupKeyword (v : Str) : Option Tid := (keywordTable.find? (fun p => p.1 == v)).map (·.2)

def lookupSingle (c : Char) : Option Tid := (singleCharTable.find? (fun p => p.1 == c.toNat)).map (·.2)

/-! ### one matcher per regular expression; each returns the length of the match at the head of `s` -/

def isBlank (c : Char) : Bool := c == ' ' || c == '\t'
def isIdStart (c : Char) : Bool := isAlpha c || c == '_'
def isBin (c : Char) : Bool := c == '0' || c == '1'
def isOct (c : Char) : Bool := 48 ≤ c.toNat && c.toNat ≤ 55
def isHex (c : Char) : Bool :=
  isDigit c || (65 ≤ c.toNat && c.toNat ≤ 70) || (97 ≤ c.toNat && c.toNat ≤ 102)
def notNl (c : Char) : Bool := c != '\n'

/-- `[ \t]+` -/
def mWhitespace (s : Str) : Option Nat :=
  let n := (s.takeWhile isBlank).length
  if n = 0 then none else some n

/-- `[_a-zA-Z][_0-9a-zA-Z]*` -/
def mId : Str → Option Nat
  | c :: cs => if isIdStart c then some (1 + (cs.takeWhile isWord).length) else none
  | [] => none

/-- `0[bB][01]+|0[oO][0-7]+|0[xX][0-9a-fA-F]+|0|[1-9]\d*` (ordered alternation) -/
def mNumber : Str → Option Nat
  | '0' :: c :: cs =>
    let k :=
      if c == 'b' || c == 'B' then (cs.takeWhile isBin).length
      else if c == 'o' || c == 'O' then (cs.takeWhile isOct).length
      else if c == 'x' || c == 'X' then (cs.takeWhile isHex).length
      else 0
    if k = 0 then some 1 else some (2 + k)
  | c :: cs =>
    if c == '0' then some 1
    else if isDigit c then some (1 + (cs.takeWhile isDigit).length) else none
  | [] => none

/-- body of `'([^'\\]|(\\.))*'` after the opening quote: length up to and including the closing quote.
The two alternatives start with disjoint characters, so backtracking never finds another match. -/
def scanStr : Str → Option Nat
  | [] => none
  | c :: cs =>
    if c == '\'' then some 1
    else if c == '\\' then
      match cs with
      | [] => none
      | d :: ds => if d == '\n' then none else (scanStr ds).map (· + 2)
    else (scanStr cs).map (· + 1)

/-- `'([^'\\]|(\\.))*'` -/
def mString : Str → Option Nat
  | c :: cs => if c == '\'' then (scanStr cs).map (· + 1) else none
  | [] => none

/-- `f'([^'\\]|(\\.))*'` -/
def mFstring : Str → Option Nat
  | c :: d :: cs => if c == 'f' && d == '\'' then (scanStr cs).map (· + 2) else none
  | _ => none

/-- index of the first `'''` -/
def findTriple : Str → Option Nat
  | [] => none
  | c :: cs =>
    if c == '\'' && cs.take 2 == ['\'', '\''] then some 0
    else (findTriple cs).map (· + 1)

/-- `'''(.|\n)*?'''` (lazy: shortest, i.e. up to the first closing triple) -/
def mMultiline (s : Str) : Option Nat :=
  if s.take 3 == ['\'', '\'', '\''] then (findTriple (s.drop 3)).map (· + 6) else none

/-- `f'''(.|\n)*?'''` -/
def mMultilineF : Str → Option Nat
  | c :: cs => if c == 'f' then (mMultiline cs).map (· + 1) else none
  | [] => none

/-- `\\[ \t]*(#.*)?\n` -/
def mEolCont : Str → Option Nat
  | c :: cs =>
    if c == '\\' then
      let b := (cs.takeWhile isBlank).length
      match cs.drop b with
      | d :: r =>
        if d == '\n' then some (b + 2)
        else if d == '#' then
          let k := (r.takeWhile notNl).length
          match r.drop k with
          | e :: _ => if e == '\n' then some (b + k + 3) else none
          | [] => none
        else none
      | [] => none
    else none
  | [] => none

/-- `#.*` -/
def mComment : Str → Option Nat
  | c :: cs => if c == '#' then some (1 + (cs.takeWhile notNl).length) else none
  | [] => none

def mLit2 (a b : Char) : Str → Option Nat
  | c :: d :: _ => if c == a && d == b then some 2 else none
  | _ => none

/-- the matcher of a named entry of `token_specification` -/
def matchSpec : Tid → Str → Option Nat
  | .whitespace => mWhitespace
  | .multilineFstring => mMultilineF
  | .fstring => mFstring
  | .id => mId
  | .number => mNumber
  | .eolCont => mEolCont
  | .multilineString => mMultiline
  | .comment => mComment
  | .string => mString
  | .plusassign => mLit2 '+' '='
  | .equal => mLit2 '=' '='
  | .nequal => mLit2 '!' '='
  | .le => mLit2 '<' '='
  | .ge => mLit2 '>' '='
  | _ => fun _ => none

/-- the `for (tid, reg) in self.token_specification` loop: first entry that matches -/
def firstMatch : List Tid → Str → Option (Tid × Nat)
  | [], _ => none
  | t :: ts, s =>
    match matchSpec t s with
    | some n => some (t, n)
    | none => firstMatch ts s

/-! ### the `lex` generator -/

structure LexSt where
  loc : Nat := 0
  lineStart : Nat := 0
  lineno : Nat := 1
  par : Int := 0
  bracket : Int := 0
  curl : Int := 0
  deriving Repr, DecidableEq

inductive LexStep where
  | tok (t : Token) (st : LexSt) (n : Nat)
  | err (lineno colno : Nat)

def countNl (s : Str) : Nat := (s.filter (· == '\n')).length

/-- `len(value.split('\n')[-1])` -/
def lastLineLen (s : Str) : Nat := (s.reverse.takeWhile notNl).length

/-- `value[a:-b]` for `a + b ≤ len` -/
def sliceMid (a b : Nat) (s : Str) : Str := (s.drop a).take (s.length - a - b)

/-- one iteration of the `while loc < len(self.code)` loop; `s` is `code[loc:]` and is non-empty -/
def lexStep (s : Str) (st : LexSt) : LexStep :=
  let col := st.loc - st.lineStart
  let mk (tid : Tid) (n : Nat) (value : Str) : Token :=
    { tid := tid, lineStart := st.lineStart, lineno := st.lineno, colno := col,
      spanStart := st.loc, spanEnd := st.loc + n, value := value, text := s.take n }
  match firstMatch tokenSpecTids s with
  | some (tid, n) =>
    let text := s.take n
    let loc' := st.loc + n
    match tid with
    | .id =>
      match lookupKeyword text with
      | some k => .tok (mk k n text) { st with loc := loc' } n
      | none => .tok (mk .id n text) { st with loc := loc' } n
    | .string =>
      -- a newline inside a single-quoted string: warning, and the line bookkeeping follows it
      let nl := countNl text
      let st' : LexSt := if nl > 0 then
          { st with loc := loc', lineno := st.lineno + nl, lineStart := loc' - lastLineLen text }
        else { st with loc := loc' }
      .tok (mk .string n (sliceMid 1 1 text)) st' n
    | .fstring =>
      let nl := countNl text
      let st' : LexSt := if nl > 0 then
          { st with loc := loc', lineno := st.lineno + nl, lineStart := loc' - lastLineLen text }
        else { st with loc := loc' }
      .tok (mk .fstring n (sliceMid 2 1 text)) st' n
    | .multilineString =>
      let v := sliceMid 3 3 text
      let nl := countNl v
      let st' : LexSt := if nl > 0 then
          { st with loc := loc', lineno := st.lineno + nl, lineStart := loc' - lastLineLen v - 3 }
        else { st with loc := loc' }
      .tok (mk .multilineString n v) st' n
    | .multilineFstring =>
      let v := sliceMid 4 3 text
      let nl := countNl v
      let st' : LexSt := if nl > 0 then
          { st with loc := loc', lineno := st.lineno + nl, lineStart := loc' - lastLineLen v - 3 }
        else { st with loc := loc' }
      .tok (mk .multilineFstring n v) st' n
    | .eolCont =>
      .tok (mk .whitespace n text) { st with loc := loc', lineno := st.lineno + 1, lineStart := loc' } n
    | t => .tok (mk t n text) { st with loc := loc' } n
  | none =>
    match s with
    | [] => .err st.lineno col   -- not reached: the caller only passes non-empty input
    | c :: _ =>
      match lookupSingle c with
      | none => .err st.lineno (st.loc - st.lineStart)          -- KeyError -> ParseException
      | some tid =>
        let loc' := st.loc + 1
        match tid with
        | .lparen => .tok (mk tid 1 [c]) { st with loc := loc', par := st.par + 1 } 1
        | .rparen => .tok (mk tid 1 [c]) { st with loc := loc', par := st.par - 1 } 1
        | .lbracket => .tok (mk tid 1 [c]) { st with loc := loc', bracket := st.bracket + 1 } 1
        | .rbracket => .tok (mk tid 1 [c]) { st with loc := loc', bracket := st.bracket - 1 } 1
        | .lcurl => .tok (mk tid 1 [c]) { st with loc := loc', curl := st.curl + 1 } 1
        | .rcurl => .tok (mk tid 1 [c]) { st with loc := loc', curl := st.curl - 1 } 1
        | .dblquote => .err st.lineno col
        | .eol =>
          let tid' := if st.par > 0 || st.bracket > 0 || st.curl > 0 then Tid.whitespace else Tid.eol
          .tok (mk tid' 1 [c]) { st with loc := loc', lineno := st.lineno + 1, lineStart := loc' } 1
        | t => .tok (mk t 1 [c]) { st with loc := loc' } 1

/-- result of running the generator to exhaustion -/
structure LexResult where
  toks : List Token
  /-- `ParseException(lineno, colno)` raised by the lexer after yielding `toks` -/
  err : Option (Nat × Nat)
  /-- the part of the input that was not tokenised (non-empty only with `err`) -/
  rem : Str
  fuelOut : Bool := false
  deriving Repr

def lexGo : Nat → Str → LexSt → LexResult
  | 0, s, _ => { toks := [], err := none, rem := s, fuelOut := true }
  | fuel + 1, s, st =>
    match s with
    | [] => { toks := [], err := none, rem := [] }
    | _ :: _ =>
      match lexStep s st with
      | .err l c => { toks := [], err := some (l, c), rem := s }
      | .tok t st' n =>
        let r := lexGo fuel (s.drop n) st'
        { r with toks := t :: r.toks }

/-- U+FEFF -/
def bom : Char := Char.ofNat 0xFEFF

/-- `Lexer.__init__` + `lex`: a leading BOM is rejected with `lineno=0, colno=0` before any token -/
def lex (s : Str) : LexResult :=
  match s with
  | c :: _ => if c == bom then { toks := [], err := some (0, 0), rem := s }
              else lexGo (s.length + 1) s {}
  | [] => lexGo 1 s {}

end MesonModel.Lang
