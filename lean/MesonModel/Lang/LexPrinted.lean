/-
Every token the lexer yields prints back as its own text (`printed t = t.text`) and is not `eof`.
-/
import MesonModel.Lang.LexLemmas
import MesonModel.Lang.ParserLemmas

namespace MesonModel.Lang

theorem take_succ_of_getElem? {l : Str} {k : Nat} {c : Char} (h : l[k]? = some c) :
    l.take (k + 1) = l.take k ++ [c] := by
  rw [List.take_add_one, h]; rfl

theorem scanStr_spec : ∀ (k : Nat) (cs : Str) (m : Nat), cs.length ≤ k → scanStr cs = some m →
    1 ≤ m ∧ m ≤ cs.length ∧ cs[m - 1]? = some '\'' := by
  intro k
  induction k with
  | zero =>
    intro cs m hk h
    have : cs = [] := by cases cs <;> simp_all
    subst this; simp [scanStr] at h
  | succ k ih =>
    intro cs m hk h
    cases cs with
    | nil => simp [scanStr] at h
    | cons c cs =>
      unfold scanStr at h
      split at h
      · rename_i hc
        simp at h; subst h
        simp at hc; simp [hc]
      · split at h
        · cases cs with
          | nil => simp at h
          | cons d ds =>
            simp only at h
            split at h
            · simp at h
            · simp [Option.map_eq_some_iff] at h
              obtain ⟨a, ha, rfl⟩ := h
              obtain ⟨h1, h2, h3⟩ := ih ds a (by simp at hk; omega) ha
              refine ⟨by omega, by simp; omega, ?_⟩
              have : a + 2 - 1 = (a - 1) + 2 := by omega
              rw [this]; simpa using h3
        · simp [Option.map_eq_some_iff] at h
          obtain ⟨a, ha, rfl⟩ := h
          obtain ⟨h1, h2, h3⟩ := ih cs a (by simp at hk; omega) ha
          refine ⟨by omega, by simp; omega, ?_⟩
          have : a + 1 - 1 = (a - 1) + 1 := by omega
          rw [this]; simpa using h3

theorem take_quote {cs : Str} {m : Nat} (h1 : 1 ≤ m) (h2 : m ≤ cs.length) (h3 : cs[m - 1]? = some '\'') :
    cs.take m = cs.take (m - 1) ++ ['\''] := by
  have : m = (m - 1) + 1 := by omega
  rw [this, take_succ_of_getElem? h3]; simp

theorem quoted_slice {cs : Str} {m : Nat} (h1 : 1 ≤ m) (h2 : m ≤ cs.length) (h3 : cs[m - 1]? = some '\'') :
    ['\''] ++ sliceMid 1 1 (('\'' :: cs).take (m + 1)) ++ ['\''] = ('\'' :: cs).take (m + 1) := by
  have hl : (cs.take m).length = m := by simp; omega
  simp only [List.take_succ_cons, sliceMid, List.drop_succ_cons, List.drop_zero, List.length_cons, hl]
  rw [List.take_take, show min (m + 1 - 1 - 1) m = m - 1 by omega, take_quote h1 h2 h3]
  simp

theorem fquoted_slice {cs : Str} {m : Nat} (h1 : 1 ≤ m) (h2 : m ≤ cs.length) (h3 : cs[m - 1]? = some '\'') :
    ['f'] ++ (['\''] ++ sliceMid 2 1 (('f' :: '\'' :: cs).take (m + 2)) ++ ['\'']) =
      ('f' :: '\'' :: cs).take (m + 2) := by
  have hl : (cs.take m).length = m := by simp; omega
  simp only [List.take_succ_cons, sliceMid, List.drop_succ_cons, List.drop_zero, List.length_cons, hl]
  rw [List.take_take, show min (m + 1 + 1 - 2 - 1) m = m - 1 by omega, take_quote h1 h2 h3]
  simp

theorem findTriple_spec : ∀ (cs : Str) (i : Nat), findTriple cs = some i →
    i + 3 ≤ cs.length ∧ (cs.drop i).take 3 = ['\'', '\'', '\''] := by
  intro cs
  induction cs with
  | nil => intro i h; simp [findTriple] at h
  | cons c cs ih =>
    intro i h
    unfold findTriple at h
    split at h
    · rename_i hc
      simp at h; subst h
      simp at hc
      obtain ⟨rfl, h2⟩ := hc
      match cs, h2 with
      | a :: b :: rest, h2 => simp at h2; simp [h2]
    · simp [Option.map_eq_some_iff] at h
      obtain ⟨a, ha, rfl⟩ := h
      obtain ⟨h1, h2⟩ := ih a ha
      exact ⟨by simp; omega, by simpa using h2⟩

theorem triple_slice {rest : Str} {i : Nat} (h1 : i + 3 ≤ rest.length)
    (h2 : (rest.drop i).take 3 = ['\'', '\'', '\'']) :
    "'''".toList ++ sliceMid 3 3 (('\'' :: '\'' :: '\'' :: rest).take (i + 6)) ++ "'''".toList =
      ('\'' :: '\'' :: '\'' :: rest).take (i + 6) := by
  have e1 : rest.take (i + 3) = rest.take i ++ ['\'', '\'', '\''] := by
    rw [← h2, ← List.take_add]
  have hl : (rest.take (i + 3)).length = i + 3 := by simp; omega
  have : i + 6 = (i + 3) + 1 + 1 + 1 := by omega
  rw [this]
  simp only [List.take_succ_cons, sliceMid, List.drop_succ_cons, List.drop_zero, List.length_cons, hl]
  rw [List.take_take, show min (i + 3 + 1 + 1 + 1 - 3 - 3) (i + 3) = i by omega, e1]
  simp

/-- facts about the generated keyword table: a keyword token prints as its own text and is not `eof` -/
def kwEntryOk (p : Str × Tid) : Bool :=
  (printed { tid := p.2, lineStart := 0, lineno := 0, colno := 0, spanStart := 0, spanEnd := 0,
             value := p.1, text := p.1 } == p.1) && p.2 != .eof

theorem keywordTable_ok : keywordTable.all kwEntryOk = true := by decide

theorem printed_congr (a b : Token) (h1 : a.tid = b.tid) (h2 : a.value = b.value) : printed a = printed b := by
  unfold printed; rw [h1, h2]

theorem lookupKeyword_spec {v : Str} {k : Tid} (h : lookupKeyword v = some k) :
    k ≠ .eof ∧ ∀ t : Token, t.tid = k → t.value = v → printed t = v := by
  unfold lookupKeyword at h
  simp [Option.map_eq_some_iff] at h
  obtain ⟨a, hf⟩ := h
  have hmem := List.mem_of_find?_eq_some hf
  have hp := List.find?_some hf
  simp at hp; subst hp
  have := List.all_eq_true.mp keywordTable_ok _ hmem
  simp only [kwEntryOk, Bool.and_eq_true, beq_iff_eq, bne_iff_ne] at this
  refine ⟨this.2, fun t ht hv => ?_⟩
  rw [← this.1]
  exact printed_congr _ _ ht hv

def singleEntryOk (p : Nat × Tid) : Bool :=
  p.2 != .eof && p.2 != .string && p.2 != .fstring && p.2 != .multilineString && p.2 != .multilineFstring &&
    p.2 != .kTrue && p.2 != .kFalse && p.2 != .kContinue && p.2 != .kBreak

theorem singleCharTable_ok : singleCharTable.all singleEntryOk = true := by decide

theorem lookupSingle_spec {c : Char} {k : Tid} (h : lookupSingle c = some k) : singleEntryOk (c.toNat, k) = true := by
  unfold lookupSingle at h
  simp [Option.map_eq_some_iff] at h
  obtain ⟨a, hf⟩ := h
  have hmem := List.mem_of_find?_eq_some hf
  have := List.all_eq_true.mp singleCharTable_ok _ hmem
  simpa [singleEntryOk] using this

theorem printed_of_ok {t : Token} {n : Nat} (h : singleEntryOk (n, t.tid) = true) : t.tid ≠ .eof ∧ printed t = t.value := by
  simp [singleEntryOk] at h
  refine ⟨h.1.1.1.1.1.1.1.1, ?_⟩
  unfold printed
  split <;> simp_all

theorem ftriple_slice {rest : Str} {i : Nat} (h1 : i + 3 ≤ rest.length)
    (h2 : (rest.drop i).take 3 = ['\'', '\'', '\'']) :
    ['f'] ++ ("'''".toList ++ sliceMid 4 3 (('f' :: '\'' :: '\'' :: '\'' :: rest).take (i + 7)) ++ "'''".toList) =
      ('f' :: '\'' :: '\'' :: '\'' :: rest).take (i + 7) := by
  have e1 : rest.take (i + 3) = rest.take i ++ ['\'', '\'', '\''] := by
    rw [← h2, ← List.take_add]
  have hl : (rest.take (i + 3)).length = i + 3 := by simp; omega
  have : i + 7 = (i + 3) + 1 + 1 + 1 + 1 := by omega
  rw [this]
  simp only [List.take_succ_cons, sliceMid, List.drop_succ_cons, List.drop_zero, List.length_cons, hl]
  rw [List.take_take, show min (i + 3 + 1 + 1 + 1 + 1 - 4 - 3) (i + 3) = i by omega, e1]
  simp

theorem mString_spec {s : Str} {n : Nat} (h : mString s = some n) :
    ∃ cs m, s = '\'' :: cs ∧ n = m + 1 ∧ 1 ≤ m ∧ m ≤ cs.length ∧ cs[m - 1]? = some '\'' := by
  unfold mString at h
  split at h
  · rename_i c cs
    split at h
    · rename_i hc
      simp at hc; subst hc
      simp [Option.map_eq_some_iff] at h
      obtain ⟨a, ha, rfl⟩ := h
      obtain ⟨h1, h2, h3⟩ := scanStr_spec _ cs a (Nat.le_refl _) ha
      exact ⟨cs, a, rfl, rfl, h1, h2, h3⟩
    · simp at h
  · simp at h

theorem mFstring_spec {s : Str} {n : Nat} (h : mFstring s = some n) :
    ∃ cs m, s = 'f' :: '\'' :: cs ∧ n = m + 2 ∧ 1 ≤ m ∧ m ≤ cs.length ∧ cs[m - 1]? = some '\'' := by
  unfold mFstring at h
  split at h
  · rename_i c d cs
    split at h
    · rename_i hc
      simp at hc; obtain ⟨rfl, rfl⟩ := hc
      simp [Option.map_eq_some_iff] at h
      obtain ⟨a, ha, rfl⟩ := h
      obtain ⟨h1, h2, h3⟩ := scanStr_spec _ cs a (Nat.le_refl _) ha
      exact ⟨cs, a, rfl, rfl, h1, h2, h3⟩
    · simp at h
  · simp at h

theorem mMultiline_spec {s : Str} {n : Nat} (h : mMultiline s = some n) :
    ∃ rest i, s = '\'' :: '\'' :: '\'' :: rest ∧ n = i + 6 ∧ i + 3 ≤ rest.length ∧
      (rest.drop i).take 3 = ['\'', '\'', '\''] := by
  unfold mMultiline at h
  split at h
  · rename_i hc
    simp [Option.map_eq_some_iff] at h
    obtain ⟨a, ha, rfl⟩ := h
    match s, hc, ha with
    | x :: y :: z :: rest, hc, ha =>
      simp at hc
      obtain ⟨rfl, rfl, rfl⟩ := hc
      obtain ⟨h1, h2⟩ := findTriple_spec _ a (by simpa using ha)
      exact ⟨rest, a, rfl, rfl, h1, h2⟩
  · simp at h

theorem mMultilineF_spec {s : Str} {n : Nat} (h : mMultilineF s = some n) :
    ∃ rest i, s = 'f' :: '\'' :: '\'' :: '\'' :: rest ∧ n = i + 7 ∧ i + 3 ≤ rest.length ∧
      (rest.drop i).take 3 = ['\'', '\'', '\''] := by
  unfold mMultilineF at h
  split at h
  · rename_i c cs
    split at h
    · rename_i hc
      simp at hc; subst hc
      simp [Option.map_eq_some_iff] at h
      obtain ⟨a, ha, rfl⟩ := h
      obtain ⟨rest, i, rfl, rfl, h1, h2⟩ := mMultiline_spec ha
      exact ⟨rest, i, rfl, rfl, h1, h2⟩
    · simp at h
  · simp at h

theorem lexStep_printed {s : Str} {st : LexSt} {t : Token} {st' : LexSt} {n : Nat}
    (h : lexStep s st = .tok t st' n) : t.tid ≠ .eof ∧ printed t = t.text := by
  unfold lexStep at h
  dsimp only at h
  split at h
  · rename_i tid m hm
    have hspec := firstMatch_spec hm
    cases tid <;> simp only [matchSpec] at hspec <;> try (simp at hspec; done)
    case id =>
      simp only at h
      split at h
      · rename_i k hk
        obtain ⟨h1, h2⟩ := lookupKeyword_spec hk
        simp at h; obtain ⟨rfl, _, _⟩ := h
        exact ⟨h1, h2 _ rfl rfl⟩
      · simp at h; obtain ⟨rfl, _, _⟩ := h
        exact ⟨by simp, by simp [printed]⟩
    case string =>
      obtain ⟨cs, a, rfl, rfl, h1, h2, h3⟩ := mString_spec hspec
      simp at h; obtain ⟨rfl, _, _⟩ := h
      refine ⟨by simp, ?_⟩
      simp only [printed]
      exact quoted_slice h1 h2 h3
    case fstring =>
      obtain ⟨cs, a, rfl, rfl, h1, h2, h3⟩ := mFstring_spec hspec
      simp at h; obtain ⟨rfl, _, _⟩ := h
      refine ⟨by simp, ?_⟩
      simp only [printed]
      exact fquoted_slice h1 h2 h3
    case multilineString =>
      obtain ⟨rest, i, rfl, rfl, h1, h2⟩ := mMultiline_spec hspec
      simp only at h
      split at h <;> (simp at h; obtain ⟨rfl, _, _⟩ := h; exact ⟨by simp, by simp only [printed]; exact triple_slice h1 h2⟩)
    case multilineFstring =>
      obtain ⟨rest, i, rfl, rfl, h1, h2⟩ := mMultilineF_spec hspec
      simp only at h
      split at h <;> (simp at h; obtain ⟨rfl, _, _⟩ := h; exact ⟨by simp, by simp only [printed]; exact ftriple_slice h1 h2⟩)
    all_goals (simp at h; obtain ⟨rfl, _, _⟩ := h; exact ⟨by simp, by simp [printed]⟩)
  · split at h
    · simp at h
    · rename_i c cs
      split at h
      · simp at h
      · rename_i tid hl
        have hok := lookupSingle_spec hl
        simp [singleEntryOk] at hok
        repeat' split at h
        all_goals (first
          | (simp at h; done)
          | (simp at h; obtain ⟨rfl, _, _⟩ := h
             refine ⟨by simp_all, ?_⟩
             unfold printed
             split <;> simp_all))

theorem lexGo_printed (fuel : Nat) (s : Str) (st : LexSt) :
    ∀ t ∈ (lexGo fuel s st).toks, t.tid ≠ .eof ∧ printed t = t.text := by
  induction fuel generalizing s st with
  | zero => simp [lexGo]
  | succ k ih =>
    cases s with
    | nil => simp [lexGo]
    | cons c cs =>
      simp only [lexGo]
      cases hstep : lexStep (c :: cs) st with
      | err l col => simp
      | tok t st' n =>
        intro x hx
        simp only [List.mem_cons] at hx
        rcases hx with rfl | hx
        · exact lexStep_printed hstep
        · exact ih _ _ x hx

theorem lex_printed (s : Str) : ∀ t ∈ (lex s).toks, t.tid ≠ .eof ∧ printed t = t.text := by
  unfold lex
  split
  · split
    · simp
    · exact lexGo_printed _ _ _
  · exact lexGo_printed _ _ _

theorem restText_eq_texts {ts : List Token} (h : ∀ t ∈ ts, printed t = t.text) :
    restText ts = (ts.map (·.text)).flatten := by
  induction ts with
  | nil => rfl
  | cons a as ih =>
    simp only [restText, List.map_cons, List.flatten_cons]
    rw [h a List.mem_cons_self]
    congr 1
    exact ih (fun t ht => h t (List.mem_cons_of_mem _ ht))

end MesonModel.Lang
