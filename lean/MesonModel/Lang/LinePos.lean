/-
Line/column arithmetic on texts: `lineOff s l` is the offset at which line `l` (1-based) starts;
`lineStartOf p` is the offset just after the last newline of a prefix `p`.
-/
import MesonModel.Lang.LexLemmas

namespace MesonModel.Lang

/-- offset of the first character of line `l` (lines are 1-based; `0` is treated like `1`) -/
def lineOff : Str → Nat → Nat
  | _, 0 => 0
  | _, 1 => 0
  | [], _ + 2 => 0
  | c :: cs, l + 2 => 1 + (if c == '\n' then lineOff cs (l + 1) else lineOff cs (l + 2))

/-- offset just after the last newline of `p` (0 when there is none) -/
def lineStartOf (p : Str) : Nat := p.length - lastLineLen p

/-- a line/column position that addresses a point of the text: the line exists and its offset plus the
column does not pass the end of the text -/
def InText (s : Str) (p : Nat × Nat) : Prop := p.1 ≤ countNl s + 1 ∧ lineOff s p.1 + p.2 ≤ s.length

theorem countNl_append (a b : Str) : countNl (a ++ b) = countNl a + countNl b := by
  simp [countNl, List.filter_append]

theorem countNl_cons (c : Char) (s : Str) : countNl (c :: s) = (if c == '\n' then 1 else 0) + countNl s := by
  simp only [countNl, List.filter_cons]; split <;> simp <;> omega

/-- forward-recursive form of `lastLineLen` -/
def lll : Str → Nat
  | [] => 0
  | c :: cs => if 0 < countNl cs then lll cs else (if c == '\n' then cs.length else cs.length + 1)

theorem takeWhile_snoc_length {α} (p : α → Bool) (l : List α) (c : α) :
    ((l ++ [c]).takeWhile p).length =
      if l.all p then l.length + (if p c then 1 else 0) else (l.takeWhile p).length := by
  induction l with
  | nil => simp [List.takeWhile]; split <;> simp_all
  | cons a as ih =>
    simp only [List.cons_append, List.takeWhile_cons, List.all_cons]
    cases ha : p a
    · simp
    · simp only [if_true, List.length_cons, Bool.true_and, ih]
      split
      · omega
      · rfl

theorem all_notNl_reverse (s : Str) : s.reverse.all notNl = decide (countNl s = 0) := by
  induction s with
  | nil => simp [countNl]
  | cons c cs ih =>
    simp only [List.reverse_cons, List.all_append, ih, List.all_cons, List.all_nil, Bool.and_true, countNl_cons]
    cases hc : c == '\n'
    · have : c ≠ '\n' := by simpa using hc
      simp [notNl, this]
    · have : c = '\n' := by simpa using hc
      simp [notNl, this]

theorem lastLineLen_eq_lll (s : Str) : lastLineLen s = lll s := by
  induction s with
  | nil => rfl
  | cons c cs ih =>
    unfold lastLineLen at ih ⊢
    rw [List.reverse_cons, takeWhile_snoc_length, all_notNl_reverse, lll]
    by_cases h0 : countNl cs = 0
    · simp only [h0, decide_true, if_true, List.length_reverse, Nat.lt_irrefl, if_false]
      cases hc : c == '\n'
      · have : c ≠ '\n' := by simpa using hc
        simp [notNl, this]
      · have : c = '\n' := by simpa using hc
        simp [notNl, this]
    · have : 0 < countNl cs := by omega
      simp only [h0, decide_false, Bool.false_eq_true, if_false, this, if_true, ih]

theorem lll_nonl (b : Str) (h : countNl b = 0) : lll b = b.length := by
  induction b with
  | nil => rfl
  | cons c cs ih =>
    rw [countNl_cons] at h
    have hc : (c == '\n') = false := by
      cases hcc : c == '\n'
      · rfl
      · simp [hcc] at h
    have h0 : countNl cs = 0 := by omega
    simp [lll, h0, hc]

theorem lll_append_nl (a b : Str) (h : 0 < countNl b) : lll (a ++ b) = lll b := by
  induction a with
  | nil => rfl
  | cons c cs ih =>
    have : 0 < countNl (cs ++ b) := by rw [countNl_append]; omega
    simp [lll, this, ih]

theorem lll_append_nonl (a b : Str) (h : countNl b = 0) : lll (a ++ b) = lll a + b.length := by
  induction a with
  | nil => simp [lll, lll_nonl b h]
  | cons c cs ih =>
    have hcn : countNl (cs ++ b) = countNl cs := by rw [countNl_append]; omega
    simp only [List.cons_append, lll, hcn]
    split
    · rw [ih]
    · split <;> simp <;> omega

theorem lastLineLen_le (s : Str) : lastLineLen s ≤ s.length := by
  rw [lastLineLen_eq_lll]
  induction s with
  | nil => simp [lll]
  | cons c cs ih => simp only [lll]; split <;> (try split) <;> simp <;> omega

theorem lastLineLen_append_nonl (a b : Str) (h : countNl b = 0) : lastLineLen (a ++ b) = lastLineLen a + b.length := by
  simp only [lastLineLen_eq_lll]; exact lll_append_nonl a b h

theorem lastLineLen_append_nl (a b : Str) (h : 0 < countNl b) : lastLineLen (a ++ b) = lastLineLen b := by
  simp only [lastLineLen_eq_lll]; exact lll_append_nl a b h

theorem lineStartOf_append_nonl (a b : Str) (h : countNl b = 0) : lineStartOf (a ++ b) = lineStartOf a := by
  unfold lineStartOf
  rw [lastLineLen_append_nonl a b h]
  have := lastLineLen_le a
  simp; omega

theorem lineStartOf_append_nl (a b : Str) (h : 0 < countNl b) :
    lineStartOf (a ++ b) = a.length + b.length - lastLineLen b := by
  unfold lineStartOf
  rw [lastLineLen_append_nl a b h]; simp

theorem lineStartOf_le (p : Str) : lineStartOf p ≤ p.length := Nat.sub_le _ _

/-- the start of line `countNl p + 1` of `p ++ q` is just after the last newline of `p` -/
theorem lineOff_prefix (p q : Str) : lineOff (p ++ q) (countNl p + 1) = lineStartOf p := by
  induction p with
  | nil => simp [countNl, lineOff, lineStartOf, lastLineLen]
  | cons c p ih =>
    have hle := lastLineLen_le p
    by_cases hc : (c == '\n') = true
    · have h1 : countNl (c :: p) = countNl p + 1 := by rw [countNl_cons]; simp [hc]; omega
      rw [h1]
      show lineOff (c :: (p ++ q)) (countNl p + 2) = _
      simp only [lineOff, hc, if_true, ih]
      by_cases hp : 0 < countNl p
      · have := lastLineLen_append_nl [c] p hp
        simp only [List.singleton_append] at this
        simp only [lineStartOf, this, List.length_cons]; omega
      · have hp0 : countNl p = 0 := by omega
        have := lastLineLen_append_nonl [c] p hp0
        simp only [List.singleton_append] at this
        have h2 : lastLineLen [c] = 0 := by
          have : c = '\n' := by simpa using hc
          subst this; rfl
        have h3 : lastLineLen p = p.length := by
          have := lastLineLen_append_nonl [] p hp0
          simpa [lastLineLen] using this
        simp only [lineStartOf, this, h2, h3, List.length_cons]; omega
    · have hc' : (c == '\n') = false := by simpa using hc
      have h1 : countNl (c :: p) = countNl p := by rw [countNl_cons]; simp [hc']
      rw [h1]
      by_cases hp : 0 < countNl p
      · obtain ⟨k, hk⟩ : ∃ k, countNl p = k + 1 := ⟨countNl p - 1, by omega⟩
        rw [hk] at ih ⊢
        show lineOff (c :: (p ++ q)) (k + 2) = _
        simp only [lineOff, hc', Bool.false_eq_true, if_false, ih]
        have := lastLineLen_append_nl [c] p hp
        simp only [List.singleton_append] at this
        simp only [lineStartOf, this, List.length_cons]; omega
      · have hp0 : countNl p = 0 := by omega
        rw [hp0]
        have := lastLineLen_append_nonl [c] p hp0
        simp only [List.singleton_append] at this
        have h2 : lastLineLen [c] = 1 := by
          rw [lastLineLen_eq_lll]; simp [lll, countNl, hc']
        show lineOff (c :: (p ++ q)) 1 = _
        simp only [lineOff, lineStartOf, this, h2, List.length_cons]; omega

/-- a position described by a prefix of the text: line = newlines in the prefix + 1, column = distance from
the last newline of the prefix (plus an extent that stays inside the text) -/
theorem inText_of_prefix (p q : Str) (extra : Nat) (h : extra ≤ q.length) :
    InText (p ++ q) (countNl p + 1, p.length - lineStartOf p + extra) := by
  refine ⟨by simp only [countNl_append]; omega, ?_⟩
  show lineOff (p ++ q) (countNl p + 1) + _ ≤ _
  rw [lineOff_prefix]
  have := lineStartOf_le p
  simp only [List.length_append]; omega

end MesonModel.Lang
