/-
The lexer never yields a `not` token immediately followed by an `in` token: after an identifier/keyword the
next character is not an identifier character, while an `in` token starts with one (`notin` is one `id`).
-/
import MesonModel.Lang.LexPrinted
import MesonModel.Lang.Safe

namespace MesonModel.Lang
open MesonModel.Py

theorem drop_takeWhile_head {p : Char → Bool} : ∀ (l : Str) (c : Char) (cs : Str),
    l.drop (l.takeWhile p).length = c :: cs → p c = false := by
  intro l
  induction l with
  | nil => intro c cs h; simp at h
  | cons a as ih =>
    intro c cs h
    by_cases hp : p a = true
    · simp [List.takeWhile, hp] at h; exact ih c cs h
    · simp [List.takeWhile, hp] at h
      obtain ⟨rfl, _⟩ := h
      simpa using hp

theorem mId_spec {s : Str} {n : Nat} (h : mId s = some n) :
    ∃ c cs, s = c :: cs ∧ isIdStart c = true ∧ n = 1 + (cs.takeWhile isWord).length := by
  unfold mId at h
  split at h
  · rename_i c cs
    split at h
    · rename_i hc
      simp at h
      exact ⟨c, cs, rfl, hc, by omega⟩
    · simp at h
  · simp at h

theorem isWord_of_isIdStart {c : Char} (h : isIdStart c = true) : isWord c = true := by
  simp [isIdStart, isWord, isAlnum] at *
  rcases h with h | h
  · exact Or.inl (Or.inr h)
  · exact Or.inr h

def singleNoKw (p : Nat × Tid) : Bool := p.2 != .kIn && p.2 != .kNot

theorem singleCharTable_noKw : singleCharTable.all singleNoKw = true := by decide

theorem lookupSingle_noKw {c : Char} {k : Tid} (h : lookupSingle c = some k) : k ≠ .kIn ∧ k ≠ .kNot := by
  unfold lookupSingle at h
  simp [Option.map_eq_some_iff] at h
  obtain ⟨a, hf⟩ := h
  have hmem := List.mem_of_find?_eq_some hf
  have := List.all_eq_true.mp singleCharTable_noKw _ hmem
  simpa [singleNoKw] using this

/-- a token with a keyword id (`in`, `not`) comes from the identifier pattern -/
theorem lexStep_kw {s : Str} {st : LexSt} {t : Token} {st' : LexSt} {n : Nat}
    (h : lexStep s st = .tok t st' n) (hk : t.tid = .kIn ∨ t.tid = .kNot) : mId s = some n := by
  unfold lexStep at h
  dsimp only at h
  split at h
  · rename_i tid m hm
    have hspec := firstMatch_spec hm
    cases tid <;> simp only [matchSpec] at hspec <;> try (simp at hspec; done)
    case id =>
      simp only at h
      split at h <;> (simp at h; obtain ⟨_, _, rfl⟩ := h; exact hspec)
    all_goals (
      exfalso
      simp only at h
      repeat' split at h
      all_goals (first
        | (simp at h; done)
        | (simp at h; obtain ⟨rfl, _, _⟩ := h; simp_all)))
  · exfalso
    split at h
    · simp at h
    · split at h
      · simp at h
      · rename_i tid hl
        obtain ⟨h1, h2⟩ := lookupSingle_noKw hl
        repeat' split at h
        all_goals (first
          | (simp at h; done)
          | (simp at h; obtain ⟨rfl, _, _⟩ := h; simp_all))

theorem lexGo_noAdj (fuel : Nat) : ∀ (s : Str) (st : LexSt),
    NoAdj (lexGo fuel s st).toks ∧
    (∀ t ts, (lexGo fuel s st).toks = t :: ts → t.tid = .kIn → ∃ c cs, s = c :: cs ∧ isWord c = true) := by
  induction fuel with
  | zero => intro s st; simp [lexGo, NoAdj]
  | succ k ih =>
    intro s st
    cases s with
    | nil => simp [lexGo, NoAdj]
    | cons a as =>
      simp only [lexGo]
      cases hstep : lexStep (a :: as) st with
      | err l col => simp [NoAdj]
      | tok t st' n =>
        simp only
        obtain ⟨ih1, ih2⟩ := ih (List.drop n (a :: as)) st'
        refine ⟨?_, ?_⟩
        · cases hr : (lexGo k (List.drop n (a :: as)) st').toks with
          | nil => trivial
          | cons b rest =>
            rw [hr] at ih1
            refine ⟨fun ⟨hnot, hin⟩ => ?_, ih1⟩
            obtain ⟨c, cs, hd, hw⟩ := ih2 b rest hr hin
            obtain ⟨c0, cs0, hs, _, hn⟩ := mId_spec (lexStep_kw hstep (Or.inr hnot))
            cases hs
            have : as.drop (as.takeWhile isWord).length = c :: cs := by
              rw [← hd, hn]; simp [Nat.add_comm]
            have := drop_takeWhile_head _ _ _ this
            rw [hw] at this; cases this
        · intro t' ts ht hin
          cases ht
          obtain ⟨c0, cs0, hs, hst, _⟩ := mId_spec (lexStep_kw hstep (Or.inl hin))
          exact ⟨c0, cs0, hs, isWord_of_isIdStart hst⟩

theorem lex_noAdj (s : Str) : NoAdj (lex s).toks := by
  unfold lex
  split
  · split
    · trivial
    · exact (lexGo_noAdj _ _ _).1
  · exact (lexGo_noAdj _ _ _).1

/-- `no_internal_error`: for every string the model outcome is accept or a located error -/
theorem parse_error_located {s : Str} {names : List (Str × Nat)} {e : Err}
    (h : parseWith names s = .error e) : e.isLocated = true :=
  parseToks_located (lex_noAdj s) h

end MesonModel.Lang
