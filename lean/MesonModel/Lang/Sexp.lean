/-
Canonical S-expression rendering of a parsed tree (every node, symbol and whitespace child with its
position fields). Used by the driver for the correspondence with the real parser (`harness/c02.py`
renders the real objects in the same format) and reusable by other areas (C16/C17).

Format:  string  = `s` + code points joined by `.`          (empty string: `s`)
         base    = `lineno:colno:end_lineno:end_colno`
         ws      = `w-` (None) | `w<lineno>:<colno>:<string>`
         node    = `(Kind base fields… children… ws)`;  lists are `[a b c]`
-/
import MesonModel.Lang.Parser

namespace MesonModel.Lang

def strS (s : Str) : String := "s" ++ ".".intercalate (s.map (fun c => toString c.toNat))

def baseS (b : Base) : String := s!"{b.lineno}:{b.colno}:{b.endLineno}:{b.endColno}"

def spanS (b : Base) : String := s!"{b.spanS}:{b.spanE}"

def wsS (ws : List Token) : String :=
  match ws with
  | [] => "w-"
  | t :: _ => s!"w{t.lineno}:{t.colno}:{strS (wsText ws)}"

def boolS (b : Bool) : String := if b then "1" else "0"

mutual
def sexp : Node → String
  | .boolean b v => s!"(Bool {baseS b} {spanS b} {boolS v} {wsS b.ws})"
  | .id b v => s!"(Id {baseS b} {spanS b} {strS v} {wsS b.ws})"
  | .number b raw v => s!"(Num {baseS b} {spanS b} {strS raw} {v} {wsS b.ws})"
  | .string b raw v m f => s!"(Str {baseS b} {spanS b} {strS raw} {strS v} {boolS m} {boolS f} {wsS b.ws})"
  | .continue_ b => s!"(Continue {baseS b} {spanS b} {wsS b.ws})"
  | .break_ b => s!"(Break {baseS b} {spanS b} {wsS b.ws})"
  | .symbol b v => s!"(Sym {baseS b} {spanS b} {strS v} {wsS b.ws})"
  | .empty b => s!"(Empty {baseS b} {wsS b.ws})"
  | .args b pos commas colons keys vals oe =>
    s!"(Args {baseS b} [{sexpL pos}] [{sexpL commas}] [{sexpL colons}] [{sexpL keys}] [{sexpL vals}] {boolS oe} {wsS b.ws})"
  | .array b l a r => s!"(Array {baseS b} {sexp l} {sexp a} {sexp r} {wsS b.ws})"
  | .dict b l a r => s!"(Dict {baseS b} {sexp l} {sexp a} {sexp r} {wsS b.ws})"
  | .binop k b l op r =>
    let head := match k with
      | .or => "Or " ++ baseS b
      | .and => "And " ++ baseS b
      | .cmp c => "Cmp " ++ baseS b ++ " " ++ strS c
      | .arith o => "Arith " ++ baseS b ++ " " ++ strS o
    s!"({head} {sexp l} {sexp op} {sexp r} {wsS b.ws})"
  | .unop k b op v =>
    let name := match k with | .not => "Not" | .uminus => "UMinus"
    s!"({name} {baseS b} {sexp op} {sexp v} {wsS b.ws})"
  | .codeblock b pre lines => s!"(Block {baseS b} {wsS pre} [{sexpL lines}] {wsS b.ws})"
  | .index b obj lb idx rb => s!"(Index {baseS b} {sexp obj} {sexp lb} {sexp idx} {sexp rb} {wsS b.ws})"
  | .method b obj dot name lpar a rpar =>
    s!"(Method {baseS b} {sexp obj} {sexp dot} {sexp name} {sexp lpar} {sexp a} {sexp rpar} {wsS b.ws})"
  | .function b name lpar a rpar =>
    s!"(Func {baseS b} {sexp name} {sexp lpar} {sexp a} {sexp rpar} {wsS b.ws})"
  | .assign p b name op value =>
    let nm := if p then "PlusAssign" else "Assign"
    s!"({nm} {baseS b} {sexp name} {sexp op} {sexp value} {wsS b.ws})"
  | .foreach b kw vars commas colon items block endkw =>
    s!"(Foreach {baseS b} {sexp kw} [{sexpL vars}] [{sexpL commas}] {sexp colon} {sexp items} {sexp block} {sexp endkw} {wsS b.ws})"
  | .ifnode b kw cond block => s!"(If {baseS b} {sexp kw} {sexp cond} {sexp block} {wsS b.ws})"
  | .elsenode b kw block => s!"(Else {baseS b} {sexp kw} {sexp block} {wsS b.ws})"
  | .ifclause b ifs elseb endif => s!"(IfClause {baseS b} [{sexpL ifs}] {sexp elseb} {sexp endif} {wsS b.ws})"
  | .ternary b c q t col f =>
    s!"(Ternary {baseS b} {sexp c} {sexp q} {sexp t} {sexp col} {sexp f} {wsS b.ws})"
  | .paren b l inner r => s!"(Paren {baseS b} {sexp l} {sexp inner} {sexp r} {wsS b.ws})"
def sexpL : List Node → String
  | [] => ""
  | [n] => sexp n
  | n :: ns => sexp n ++ " " ++ sexpL ns
end

def tokS (t : Token) : String :=
  s!"{t.tid.name}:{t.lineStart}:{t.lineno}:{t.colno}:{t.spanStart}:{t.spanEnd}:{strS t.value}"

def errS : Err → String
  | .parse l c => s!"ERR:ParseException:{l}:{c}"
  | .block l c => s!"ERR:BlockParseException:{l}:{c}"
  | .notInNoWs => "ERR:AttributeError"
  | .fuel => "ERR:FUEL"

end MesonModel.Lang
