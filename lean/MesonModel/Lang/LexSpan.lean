/-
Lexer facts for `span_exact`: the `bytespan` starts of the tokens are the running sum of the text lengths
(so the tokens from any point on print the corresponding suffix of the input), and a `)` / `]` token is one
character long.
-/
import MesonModel.Lang.LexPos
import MesonModel.Lang.LexPrinted

namespace MesonModel.Lang

/-- the tokens start one after the other, the first at offset `p` -/
def OffChain : Nat → List Token → Prop
  | _, [] => True
  | p, t :: ts => t.spanStart = p ∧ OffChain (p + t.text.length) ts

theorem lexGo_chain (fuel : Nat) : ∀ (s : Str) (st : LexSt), OffChain st.loc (lexGo fuel s st).toks := by
  induction fuel with
  | zero => intro s st; simp [lexGo, OffChain]
  | succ k ih =>
    intro s st
    cases s with
    | nil => simp [lexGo, OffChain]
    | cons a as =>
      simp only [lexGo]
      cases hstep : lexStep (a :: as) st with
      | err l col => simp [OffChain]
      | tok t st' n =>
        simp only
        have hle := lexStep_le hstep
        obtain ⟨⟨_, _, p3, _⟩, heff⟩ := lexStep_line hstep
        have ht := lexStep_text hstep
        have hlen : t.text.length = n := by
          rw [ht, List.length_take]; exact Nat.min_eq_left hle
        refine ⟨p3, ?_⟩
        have := ih ((a :: as).drop n) st'
        rw [heff.1] at this
        rw [hlen]; exact this

theorem lex_chain (s : Str) : OffChain 0 (lex s).toks := by
  unfold lex
  split
  · split
    · simp [OffChain]
    · exact lexGo_chain _ _ {}
  · exact lexGo_chain _ _ {}

/-! ### closing brackets are single characters -/

def kwNotClose (p : Str × Tid) : Bool := p.2 != .rparen && p.2 != .rbracket

theorem keywordTable_notClose : keywordTable.all kwNotClose = true := by decide

theorem lookupKeyword_notClose {v : Str} {k : Tid} (h : lookupKeyword v = some k) : k ≠ .rparen ∧ k ≠ .rbracket := by
  unfold lookupKeyword at h
  simp [Option.map_eq_some_iff] at h
  obtain ⟨a, hf⟩ := h
  have hmem := List.mem_of_find?_eq_some hf
  have := List.all_eq_true.mp keywordTable_notClose _ hmem
  simpa [kwNotClose] using this

theorem lexStep_close {s : Str} {st : LexSt} {t : Token} {st' : LexSt} {n : Nat}
    (h : lexStep s st = .tok t st' n) (hc : t.tid = .rparen ∨ t.tid = .rbracket) : n = 1 := by
  unfold lexStep at h
  dsimp only at h
  split at h
  · rename_i tid m hm
    have hspec := firstMatch_spec hm
    cases tid <;> simp only [matchSpec] at hspec <;> try (simp at hspec; done)
    case id =>
      simp only at h
      split at h
      · rename_i k hk
        have hk' := lookupKeyword_notClose hk
        injection h with h1 h2 h3
        subst h1
        simp only at hc
        rcases hc with hc | hc
        · exact absurd hc hk'.1
        · exact absurd hc hk'.2
      · injection h with h1 h2 h3
        subst h1
        simp at hc
    all_goals (simp only at h; injection h with h1 h2 h3; subst h1; simp at hc)
  · split at h
    · simp at h
    · rename_i c cs
      split at h
      · simp at h
      · repeat' split at h
        all_goals (first
          | (simp at h; done)
          | (injection h with h1 h2 h3; exact h3.symm))

theorem lexGo_close (fuel : Nat) (s : Str) (st : LexSt) :
    ∀ t ∈ (lexGo fuel s st).toks, (t.tid = .rparen ∨ t.tid = .rbracket) → t.text.length = 1 := by
  induction fuel generalizing s st with
  | zero => simp [lexGo]
  | succ k ih =>
    cases s with
    | nil => simp [lexGo]
    | cons c cs =>
      simp only [lexGo]
      cases hstep : lexStep (c :: cs) st with
      | err l col => simp
      | tok t st' n =>
        intro x hx hc
        simp only [List.mem_cons] at hx
        rcases hx with rfl | hx
        · have := lexStep_close hstep hc
          rw [lexStep_text hstep, this]; rfl
        · exact ih _ _ x hx hc

theorem lex_close (s : Str) :
    ∀ t ∈ (lex s).toks, (t.tid = .rparen ∨ t.tid = .rbracket) → t.text.length = 1 := by
  unfold lex
  split
  · split
    · simp
    · exact lexGo_close _ _ _
  · exact lexGo_close _ _ _

end MesonModel.Lang
