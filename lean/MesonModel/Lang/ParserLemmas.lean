/-
Ghost-output-stream lemmas for the parser model (DESIGN §4 C02, proof method of `raw_roundtrip`).

`printed t` is what `RawPrinter` emits for the node built from token `t`. `rem st` is the printed form of
the tokens the parser has not consumed yet; `st.ws` (pending whitespace) is text that has been consumed
but is not attached to a node yet. Every production `f` satisfies `Emits f`:

    f st = ok (n, st')  →  no `not` was dropped  →  st.ws = []  →  st'.ws = [] ∧ rem st = emit n ++ rem st'
-/
import MesonModel.Lang.Parser

namespace MesonModel.Lang

/-- text the raw printer produces for the node built from a token -/
def printed (t : Token) : Str :=
  match t.tid with
  | .string => ['\''] ++ t.value ++ ['\'']
  | .fstring => ['f'] ++ (['\''] ++ t.value ++ ['\''])
  | .multilineString => "'''".toList ++ t.value ++ "'''".toList
  | .multilineFstring => ['f'] ++ ("'''".toList ++ t.value ++ "'''".toList)
  | .kTrue => "true".toList
  | .kFalse => "false".toList
  | .kContinue => "continue".toList
  | .kBreak => "break".toList
  | .eof => []
  | _ => t.value

def restText (ts : List Token) : Str := (ts.map printed).flatten

/-- printed form of the part of the token stream not yet consumed (an `eol` that is current has already
been pushed on `current_ws`) -/
def rem (st : PState) : Str :=
  (if st.cur.tid == .eol then [] else printed st.cur) ++ restText st.rest

theorem wsText_append (a b : List Token) : wsText (a ++ b) = wsText a ++ wsText b := by
  simp [wsText]

@[simp] theorem wsText_nil : wsText [] = [] := rfl

theorem printed_trivia {t : Token} (h : isTrivia t.tid = true) : printed t = t.value := by
  unfold isTrivia at h
  unfold printed
  split <;> simp_all

theorem printed_eofFrom (c : Token) : printed (eofFrom c) = [] := rfl

/-! ### `P` monad plumbing -/

theorem bind_ok {α β} (m : P α) (f : α → P β) (st : PState) (r : β × PState) :
    (m >>= f) st = .ok r ↔ ∃ a s1, m st = .ok (a, s1) ∧ f a s1 = .ok r := by
  show (match m st with | Except.error e => Except.error e | Except.ok (a, s') => f a s') = Except.ok r ↔ _
  cases h : m st with
  | error e => simp
  | ok p =>
    obtain ⟨a, s1⟩ := p
    simp only [Except.ok.injEq, Prod.mk.injEq]
    constructor
    · intro h; exact ⟨a, s1, ⟨rfl, rfl⟩, h⟩
    · rintro ⟨a', s', ⟨rfl, rfl⟩, h⟩; exact h

theorem pure_ok {α} (a : α) (st : PState) (r : α × PState) :
    (pure a : P α) st = .ok r ↔ r = (a, st) := by
  show Except.ok (a, st) = .ok r ↔ _
  constructor
  · intro h; cases h; rfl
  · intro h; subst h; rfl

theorem fail_ok {α} (e : Err) (st : PState) (r : α × PState) : (P.fail e : P α) st = .ok r ↔ False := by
  simp [P.fail]

theorem get_ok (st : PState) (r : PState × PState) : P.get st = .ok r ↔ r = (st, st) := by
  simp only [P.get]; constructor
  · intro h; cases h; rfl
  · intro h; subst h; rfl

theorem modify_ok (g : PState → PState) (st : PState) (r : Unit × PState) :
    P.modify g st = .ok r ↔ r = ((), g st) := by
  simp only [P.modify]; constructor
  · intro h; cases h; rfl
  · intro h; subst h; rfl

theorem cur_ok (st : PState) (r : Token × PState) : cur st = .ok r ↔ r = (st.cur, st) := by
  simp only [cur]; constructor
  · intro h; cases h; rfl
  · intro h; subst h; rfl

theorem prev_ok (st : PState) (r : Token × PState) : prev st = .ok r ↔ r = (st.prev, st) := by
  simp only [prev]; constructor
  · intro h; cases h; rfl
  · intro h; subst h; rfl

/-! ### `getsym`, `accept` -/

theorem advance_text {lexErr : Option (Nat × Nat)} {last : Token} {rest ws : List Token}
    {c : Token} {rest' ws' : List Token}
    (h : advance lexErr last rest ws = .ok (c, rest', ws')) :
    wsText ws' ++ ((if c.tid == .eol then [] else printed c) ++ restText rest') = wsText ws ++ restText rest := by
  induction rest generalizing last ws with
  | nil =>
    unfold advance at h
    split at h
    · simp at h
    · simp at h; obtain ⟨rfl, rfl, rfl⟩ := h
      simp [restText, eofFrom, printed]
  | cons t rest ih =>
    unfold advance at h
    split at h
    · rename_i he
      simp at h; obtain ⟨rfl, rfl, rfl⟩ := h
      have : isTrivia t.tid = true := by simp [isTrivia, he]
      simp [he, wsText_append, restText, printed_trivia this, wsText]
    · split at h
      · rename_i he ht
        have := ih h
        rw [this]
        simp [wsText_append, restText, printed_trivia ht, wsText]
      · rename_i he ht
        simp at h; obtain ⟨rfl, rfl, rfl⟩ := h
        simp [he, restText]

/-- the text still to be produced: pending whitespace, then the unconsumed tokens -/
def G (st : PState) : Str := wsText st.ws ++ rem st

structure SameFlags (st st' : PState) : Prop where
  dropped : st'.lossy = st.lossy
  tern : st'.inTernary = st.inTernary
  names : st'.names = st.names
  lexErr : st'.lexErr = st.lexErr

theorem SameFlags.refl (st : PState) : SameFlags st st := ⟨rfl, rfl, rfl, rfl⟩

theorem getsym_spec {st st' : PState} {u : Unit} (h : getsym st = .ok (u, st')) :
    G st' = wsText st.ws ++ restText st.rest ∧ st'.prev = st.cur ∧ SameFlags st st' := by
  unfold getsym at h
  split at h
  · simp at h
  · rename_i c rest ws hadv
    simp at h; subst h
    exact ⟨by simpa [G, rem] using advance_text hadv, rfl, ⟨rfl, rfl, rfl, rfl⟩⟩

theorem accept_spec {t : Tid} {st st' : PState} {b : Bool} (h : accept t st = .ok (b, st')) :
    (b = false ∧ st' = st ∧ st.cur.tid ≠ t) ∨
    (b = true ∧ st.cur.tid = t ∧ G st' = wsText st.ws ++ restText st.rest ∧ st'.prev = st.cur ∧
      SameFlags st st') := by
  unfold accept at h
  split at h
  · rename_i ht
    split at h
    · simp at h
    · rename_i u s' hg
      simp at h; obtain ⟨rfl, rfl⟩ := h
      have := getsym_spec hg
      exact Or.inr ⟨rfl, by simpa using ht, this.1, this.2.1, this.2.2⟩
  · rename_i ht
    simp at h; obtain ⟨rfl, rfl⟩ := h
    exact Or.inl ⟨rfl, rfl, by simpa using ht⟩

theorem acceptAny_spec {ts : List Tid} {st st' : PState} {o : Option Tid}
    (h : acceptAny ts st = .ok (o, st')) :
    (o = none ∧ st' = st) ∨
    (o = some st.cur.tid ∧ st.cur.tid ∈ ts ∧ G st' = wsText st.ws ++ restText st.rest ∧
      st'.prev = st.cur ∧ SameFlags st st') := by
  unfold acceptAny at h
  split at h
  · rename_i ht
    split at h
    · simp at h
    · rename_i u s' hg
      simp at h; obtain ⟨rfl, rfl⟩ := h
      have := getsym_spec hg
      exact Or.inr ⟨rfl, by simpa using ht, this.1, this.2.1, this.2.2⟩
  · simp at h; obtain ⟨rfl, rfl⟩ := h
    exact Or.inl ⟨rfl, rfl⟩

/-- consuming the current (non-`eol`) token with nothing pending: its printed form leaves `rem` -/
theorem G_consume {st st' : PState} (hws : st.ws = []) (hne : st.cur.tid ≠ .eol)
    (hG : G st' = wsText st.ws ++ restText st.rest) : rem st = printed st.cur ++ G st' := by
  simp [rem, hG, hws, hne]

end MesonModel.Lang
