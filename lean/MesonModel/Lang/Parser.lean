/-
Model of `mesonbuild/mparser.py` `Parser` (lines 721-1130): `getsym` with the pending-whitespace list
`current_ws`, `create_node` attachment, `accept`/`expect`/`block_expect`, and the recursive-descent
productions `e1 … e10`, `args`, `key_values`, `method_call`, `index_call`, `foreachblock`, `ifblock`,
`elseifblock`, `elseblock`, `line`, `codeblock`, `parse`.

Every production is written as in the Python source, statement by statement, in a state-and-exception
monad `P`. Recursion is open: each production takes the recursive entry points (`stmt` for `statement()`,
`cb` for `codeblock()`) as parameters, and `statement`/`codeblock` tie the knot by recursion on fuel.
Loops (`while self.accept(...)`) recurse on a loop-fuel argument.  Every exception the real code raises is a
constructor of `Err` (the `UnicodeDecodeError` of `StringNode.escape` and the `TypeError` of an unhashable
dict key are caught by the parser and re-raised as located `ParseException`s).
-/
import MesonModel.Lang.Ast

namespace MesonModel.Lang
open MesonModel.Py

inductive EscErr where
  | illegalCodepoint   -- `\UXXXXXXXX` above 0x10FFFF: UnicodeDecodeError "illegal Unicode character"
  | unknownName        -- `\N{...}` not in the Unicode name table: UnicodeDecodeError "unknown Unicode character name"
  deriving Repr, DecidableEq

inductive Err where
  | parse (lineno colno : Nat)      -- ParseException
  | block (lineno colno : Nat)      -- BlockParseException
  | notInNoWs                       -- AttributeError in e4 (`temp_node.whitespaces` is None); unreachable after the lexer
  | fuel                            -- model artefact: recursion fuel exhausted
  deriving Repr, DecidableEq

/-! ### `StringNode.escape` and `int(value, base=0)` -/

def hexDigit (c : Char) : Nat :=
  if isDigit c then c.toNat - 48 else if c.toNat ≥ 97 then c.toNat - 87 else c.toNat - 55

def hexNat (s : Str) : Nat := s.foldl (fun a c => a * 16 + hexDigit c) 0
def octNat (s : Str) : Nat := s.foldl (fun a c => a * 8 + (c.toNat - 48)) 0
def binNat (s : Str) : Nat := s.foldl (fun a c => a * 2 + (c.toNat - 48)) 0

/-- `int(s, base=0)` on the strings the number pattern produces -/
def parseInt : Str → Nat
  | '0' :: c :: cs =>
    if c == 'b' || c == 'B' then binNat cs
    else if c == 'o' || c == 'O' then octNat cs
    else if c == 'x' || c == 'X' then hexNat cs
    else natOfDigits ('0' :: c :: cs)
  | s => natOfDigits s

def hexEsc (n : Nat) (r : Str) : Option (Except EscErr Char × Nat) :=
  let h := r.take n
  if h.length = n && h.all isHex then
    let v := hexNat h
    some (if v > 0x10FFFF then .error .illegalCodepoint else .ok (Char.ofNat v), n + 1)
  else none

/-- one alternative of `ESCAPE_SEQUENCE_SINGLE_RE` at a backslash; `cs` is the text after the backslash.
Returns the decoded character (or the error `codecs.decode` raises) and the number of characters of
`cs` consumed. -/
def escAt (names : List (Str × Nat)) : Str → Option (Except EscErr Char × Nat)
  | [] => none
  | c :: r =>
    if c == 'U' then hexEsc 8 r
    else if c == 'u' then hexEsc 4 r
    else if c == 'x' then hexEsc 2 r
    else if isOct c then
      let o := ((c :: r).take 3).takeWhile isOct
      some (.ok (Char.ofNat (octNat o)), o.length)
    else if c == 'N' then
      match r with
      | '{' :: r' =>
        let name := r'.takeWhile (· != '}')
        if name.length > 0 && (r'.drop name.length).head? == some '}' then
          some (match names.find? (fun p => p.1 == name) with
                | some p => .ok (Char.ofNat p.2)
                | none => .error .unknownName, name.length + 3)
        else none
      | _ => none
    else if c == '\\' then some (.ok '\\', 1)
    else if c == '\'' then some (.ok '\'', 1)
    else if c == 'a' then some (.ok (Char.ofNat 7), 1)
    else if c == 'b' then some (.ok (Char.ofNat 8), 1)
    else if c == 'f' then some (.ok (Char.ofNat 12), 1)
    else if c == 'n' then some (.ok '\n', 1)
    else if c == 'r' then some (.ok '\r', 1)
    else if c == 't' then some (.ok '\t', 1)
    else if c == 'v' then some (.ok (Char.ofNat 11), 1)
    else none

/-- `ESCAPE_SEQUENCE_SINGLE_RE.sub(decode_match, raw)` -/
def escapeGo (names : List (Str × Nat)) : Nat → Str → Except EscErr Str
  | 0, s => .ok s
  | _ + 1, [] => .ok []
  | fuel + 1, c :: cs =>
    if c == '\\' then
      match escAt names cs with
      | some (r, k) =>
        match r with
        | .error e => .error e
        | .ok ch => (escapeGo names fuel (cs.drop k)).map (ch :: ·)
      | none => (escapeGo names fuel cs).map (c :: ·)
    else (escapeGo names fuel cs).map (c :: ·)

def escape (names : List (Str × Nat)) (s : Str) : Except EscErr Str := escapeGo names (s.length + 1) s

/-! ### parser state and monad -/

structure PState where
  cur : Token
  prev : Token
  /-- `current_ws` -/
  ws : List Token
  /-- tokens the generator has not yielded yet -/
  rest : List Token
  /-- exception the generator raises after `rest` -/
  lexErr : Option (Nat × Nat)
  inTernary : Bool := false
  /-- resolved `\N{name}` escapes (the Unicode name table is a parameter of the model) -/
  names : List (Str × Nat) := []
  /-- ghost: number of events after which the tree cannot print back as the source — a positional argument
  appended after a keyword argument (`ArgumentNode.order_error`) -/
  lossy : Nat := 0
  deriving Repr

def P (α : Type) := PState → Except Err (α × PState)

instance : Monad P where
  pure a := fun s => .ok (a, s)
  bind m f := fun s =>
    match m s with
    | .error e => .error e
    | .ok (a, s') => f a s'

def P.fail {α} (e : Err) : P α := fun _ => .error e
def P.get : P PState := fun s => .ok (s, s)
def P.modify (g : PState → PState) : P Unit := fun s => .ok ((), g s)

def initialTok : Token :=
  { tid := .eof, lineStart := 0, lineno := 0, colno := 0, spanStart := 0, spanEnd := 0, value := [], text := [] }

/-- the `eof` token built in the `except StopIteration` branch of `getsym` from the last `self.current` -/
def eofFrom (c : Token) : Token :=
  { tid := .eof, lineStart := c.lineStart, lineno := c.lineno,
    colno := c.colno + c.spanEnd - c.spanStart, spanStart := 0, spanEnd := 0, value := [], text := [] }

def isTrivia (t : Tid) : Bool := t == .eol || t == .comment || t == .whitespace

/-- the body of `getsym`: pull tokens, push trivia on `current_ws`, stop at an `eol` or a real token.
`last` is `self.current` at the moment `next()` raises `StopIteration`. -/
def advance (lexErr : Option (Nat × Nat)) : Token → List Token → List Token →
    Except Err (Token × List Token × List Token)
  | last, [], ws =>
    match lexErr with
    | some (l, c) => .error (.parse l c)
    | none => .ok (eofFrom last, [], ws)
  | _, t :: rest, ws =>
    if t.tid == .eol then .ok (t, rest, ws ++ [t])
    else if isTrivia t.tid then advance lexErr t rest (ws ++ [t])
    else .ok (t, rest, ws)

def getsym : P Unit := fun s =>
  match advance s.lexErr s.cur s.rest s.ws with
  | .error e => .error e
  | .ok (c, rest, ws) => .ok ((), { s with prev := s.cur, cur := c, rest := rest, ws := ws })

def accept (t : Tid) : P Bool := fun s =>
  if s.cur.tid == t then
    match getsym s with
    | .error e => .error e
    | .ok (_, s') => .ok (true, s')
  else .ok (false, s)

/-- `accept_any`: the accepted tid, or `none` for `''` -/
def acceptAny (ts : List Tid) : P (Option Tid) := fun s =>
  if ts.contains s.cur.tid then
    match getsym s with
    | .error e => .error e
    | .ok (_, s') => .ok (some s.cur.tid, s')
  else .ok (none, s)

def expect (t : Tid) : P Unit := do
  if ← accept t then pure ()
  else do
    let s ← P.get
    P.fail (.parse s.cur.lineno s.cur.colno)

def blockExpect (t : Tid) : P Unit := do
  if ← accept t then pure ()
  else do
    let s ← P.get
    P.fail (.block s.cur.lineno s.cur.colno)

/-- `create_node`: the freshly constructed node receives every pending whitespace token -/
def create (n : Node) : P Node := fun s => .ok (n.addWs s.ws, { s with ws := [] })

def symbolOf (t : Token) : Node := .symbol (Base.ofTok t) t.value

def createSymbol (t : Token) : P Node := create (symbolOf t)

def cur : P Token := fun s => .ok (s.cur, s)
def prev : P Token := fun s => .ok (s.prev, s)

def emptyAtCur : P Node := fun s => .ok (.empty (Base.at s.cur.lineno s.cur.colno), s)

def raiseAt (n : Node) : P α := P.fail (.parse n.lineno n.colno)

/-! ### tables -/

def tidsOf (m : List (String × String)) : List Tid := m.filterMap (fun p => Tid.ofName p.1)

def comparisonTids : List Tid := tidsOf Generated.LexTables.comparisonMap
def addsubTids : List Tid := tidsOf Generated.LexTables.addsubMap
def muldivTids : List Tid := tidsOf Generated.LexTables.muldivMap
def stringTids : List Tid := Generated.LexTables.allStrings.filterMap Tid.ofName

def lookupOp (m : List (String × String)) (t : Tid) : Str :=
  match m.find? (fun p => p.1 == t.name) with
  | some p => p.2.toList
  | none => []

/-! ### hashing of dict keys (`@dataclass(unsafe_hash=True)` on every class but `EmptyNode`) -/

/-- `hash(node)` succeeds: no `EmptyNode` is reachable through fields that take part in the hash -/
def hashable : Node → Bool
  | .empty _ => false
  | .binop _ _ l _ r => hashable l && hashable r
  | .unop _ _ _ v => hashable v
  | .index _ obj _ idx _ => hashable obj && hashable idx
  | .method _ obj _ _ _ _ _ => hashable obj
  | .assign _ _ _ _ v => hashable v
  | .ternary _ c _ t _ f => hashable c && hashable t && hashable f
  | .paren _ _ inner _ => hashable inner
  | _ => true

/-! ### productions -/

/-- `e10` -/
def e10 : P Node := do
  let t ← cur
  if ← accept .kTrue then create (.boolean (Base.ofTok t) true)
  else if ← accept .kFalse then create (.boolean (Base.ofTok t) false)
  else if ← accept .id then create (.id (Base.ofTok t) t.value)
  else if ← accept .number then create (.number (Base.ofTok t) t.value (parseInt t.value))
  else
    match ← acceptAny stringTids with
    | some tid =>
      let multi := tid == .multilineString || tid == .multilineFstring
      let f := tid == .fstring || tid == .multilineFstring
      if multi then create (.string (Base.ofTok t) t.value t.value multi f)
      else
        let s ← P.get
        match escape s.names t.value with
        | .error _ => P.fail (.parse t.lineno t.colno)   -- `except UnicodeDecodeError: raise ParseException(.., t.lineno, t.colno)`
        | .ok v => create (.string (Base.ofTok t) t.value v multi f)
    | none => emptyAtCur

/-- `ArgumentNode.append` -/
def argsAppend (a : Node) (s : Node) : Node :=
  match a with
  | .args b pos commas colons keys vals oe =>
    .args b (if s.isEmpty then pos else pos ++ [s]) commas colons keys vals (oe || keys.length > 0)
  | n => n

def argsAddComma (a : Node) (c : Node) : Node :=
  match a with
  | .args b pos commas colons keys vals oe => .args b pos (commas ++ [c]) colons keys vals oe
  | n => n

def argsAddColon (a : Node) (c : Node) : Node :=
  match a with
  | .args b pos commas colons keys vals oe => .args b pos commas (colons ++ [c]) keys vals oe
  | n => n

/-- `kwargs[name] = value` (keys carry their positions, so two keys of one call are never equal) -/
def argsSetKw (a : Node) (k v : Node) : Node :=
  match a with
  | .args b pos commas colons keys vals oe => .args b pos commas colons (keys ++ [k]) (vals ++ [v]) oe
  | n => n

def argsHasKw : Node → Bool
  | .args _ _ _ _ keys _ _ => keys.length > 0
  | _ => false

/-- ghost: record that `ArgumentNode.append` is about to set `order_error` -/
def noteOrder (a : Node) : P Unit :=
  P.modify (fun st => if argsHasKw a then { st with lossy := st.lossy + 1 } else st)

/-- the `while not isinstance(s, EmptyNode)` loop of `args()` -/
def argsLoop (stmt : P Node) : Nat → Node → Node → P Node
  | 0, _, _ => P.fail .fuel
  | k + 1, a, s => do
    if s.isEmpty then pure a
    else if ← accept .comma then
      let c ← createSymbol (← prev)
      noteOrder a
      let a := argsAppend (argsAddComma a c) s
      let s' ← stmt
      argsLoop stmt k a s'
    else if ← accept .colon then
      let c ← createSymbol (← prev)
      let a := argsAddColon a c
      if !s.isId then
        raiseAt s
      else
        let v ← stmt
        let a := argsSetKw a s v
        if !(← accept .comma) then pure a
        else
          let c ← createSymbol (← prev)
          let a := argsAddComma a c
          let s' ← stmt
          argsLoop stmt k a s'
    else do
      noteOrder a
      pure (argsAppend a s)

/-- `args()` -/
def args (stmt : P Node) (k : Nat) : P Node := do
  let s ← stmt
  let c ← cur
  let a ← create (.args (Base.at c.lineno c.colno) [] [] [] [] [] false)
  argsLoop stmt k a s

/-- the loop of `key_values()` -/
def kvLoop (stmt : P Node) : Nat → Node → Node → P Node
  | 0, _, _ => P.fail .fuel
  | k + 1, a, s => do
    if s.isEmpty then pure a
    else if ← accept .colon then
      let c ← createSymbol (← prev)
      let a := argsAddColon a c
      let v ← stmt
      if !hashable s then raiseAt s   -- `except TypeError: raise ParseException('Invalid dictionary key.', .., s.lineno, s.colno)`
      else
        let a := argsSetKw a s v
        if !(← accept .comma) then pure a
        else
          let c ← createSymbol (← prev)
          let a := argsAddComma a c
          let s' ← stmt
          kvLoop stmt k a s'
    else raiseAt s

/-- `key_values()` -/
def keyValues (stmt : P Node) (k : Nat) : P Node := do
  let s ← stmt
  let c ← cur
  let a ← create (.args (Base.at c.lineno c.colno) [] [] [] [] [] false)
  kvLoop stmt k a s

/-- `e9` -/
def e9 (stmt : P Node) (k : Nat) : P Node := do
  let blockStart ← cur
  if ← accept .lparen then
    let lpar ← createSymbol blockStart
    let e ← stmt
    blockExpect .rparen
    let rpar ← createSymbol (← prev)
    pure (.paren { lineno := lpar.lineno, colno := lpar.colno, endLineno := rpar.lineno,
                   endColno := rpar.colno + 1 } lpar e rpar)
  else if ← accept .lbracket then
    let lb ← createSymbol blockStart
    let a ← args stmt k
    blockExpect .rbracket
    let rb ← createSymbol (← prev)
    create (.array { lineno := lb.lineno, colno := lb.colno, endLineno := rb.lineno,
                     endColno := rb.colno + 1 } lb a rb)
  else if ← accept .lcurl then
    let lc ← createSymbol blockStart
    let a ← keyValues stmt k
    blockExpect .rcurl
    let rc ← createSymbol (← prev)
    create (.dict { lineno := lc.lineno, colno := lc.colno, endLineno := rc.lineno,
                    endColno := rc.colno + 1 } lc a rc)
  else e10

/-- `method_call` (the `dot` has just been accepted) -/
def methodCall (stmt : P Node) (k : Nat) : Nat → Node → P Node
  | 0, _ => P.fail .fuel
  | j + 1, source => do
    let dot ← createSymbol (← prev)
    let name ← e10
    if !name.isId then
      if source.isNumber && name.isNumber then raiseAt source
      else
        let c ← cur
        P.fail (.parse c.lineno c.colno)
    else
      expect .lparen
      let lpar ← createSymbol (← prev)
      let a ← args stmt k
      let rpar ← createSymbol (← cur)
      expect .rparen
      let m ← create (.method { lineno := name.lineno, colno := name.colno, endLineno := rpar.lineno,
                                endColno := rpar.colno + 1 } source dot name lpar a rpar)
      if ← accept .dot then methodCall stmt k j m
      else pure m

/-- `index_call` (the `lbracket` has just been accepted) -/
def indexCall (stmt : P Node) (source : Node) : P Node := do
  let lb ← createSymbol (← prev)
  let idx ← stmt
  expect .rbracket
  let rb ← createSymbol (← prev)
  create (.index (Base.at source.lineno source.colno) source lb idx rb)

/-- the `while go_again` loop of `e8` -/
def e8Loop (stmt : P Node) (k : Nat) : Nat → Node → P Node
  | 0, _ => P.fail .fuel
  | j + 1, left => do
    let d ← accept .dot
    let left ← if d then methodCall stmt k k left else pure left
    let b ← accept .lbracket
    let left ← if b then indexCall stmt left else pure left
    if d || b then e8Loop stmt k j left else pure left

/-- `e8` -/
def e8 (stmt : P Node) (k : Nat) : P Node := do
  let left ← e9 stmt k
  let blockStart ← cur
  let left ←
    if ← accept .lparen then
      let lpar ← createSymbol blockStart
      let a ← args stmt k
      blockExpect .rparen
      let rpar ← createSymbol (← prev)
      if !left.isId then raiseAt left
      else
        create (.function { lineno := left.lineno, colno := left.colno, endLineno := rpar.base.endLineno,
                            endColno := rpar.base.endColno + 1 } left lpar a rpar)
    else pure left
  e8Loop stmt k k left

/-- `e7`: note that the unary node is positioned at the token *after* the operator
(`self.current` is evaluated before `self.e8()` runs) -/
def e7 (stmt : P Node) (k : Nat) : P Node := do
  if ← accept .kNot then
    let op ← createSymbol (← prev)
    let t ← cur
    let v ← e8 stmt k
    create (.unop .not (Base.at t.lineno t.colno) op v)
  else if ← accept .dash then
    let op ← createSymbol (← prev)
    let t ← cur
    let v ← e8 stmt k
    create (.unop .uminus (Base.at t.lineno t.colno) op v)
  else e8 stmt k

def e6Loop (stmt : P Node) (k : Nat) : Nat → Node → P Node
  | 0, _ => P.fail .fuel
  | j + 1, left => do
    match ← acceptAny muldivTids with
    | some op =>
      let o ← createSymbol (← prev)
      let r ← e7 stmt k
      let n ← create (.binop (.arith (lookupOp Generated.LexTables.muldivMap op))
                        (Base.at left.lineno left.colno) left o r)
      e6Loop stmt k j n
    | none => pure left

def e6 (stmt : P Node) (k : Nat) : P Node := do
  let left ← e7 stmt k
  e6Loop stmt k k left

def e5Loop (stmt : P Node) (k : Nat) : Nat → Node → P Node
  | 0, _ => P.fail .fuel
  | j + 1, left => do
    match ← acceptAny addsubTids with
    | some op =>
      let o ← createSymbol (← prev)
      let r ← e6 stmt k
      let n ← create (.binop (.arith (lookupOp Generated.LexTables.addsubMap op))
                        (Base.at left.lineno left.colno) left o r)
      e5Loop stmt k j n
    | none => pure left

def e5 (stmt : P Node) (k : Nat) : P Node := do
  let left ← e6 stmt k
  e5Loop stmt k k left

/-- `e4`, including the `not in` token merge; a `not` that no `in` follows is a located error -/
def e4 (stmt : P Node) (k : Nat) : P Node := do
  let left ← e5 stmt k
  match ← acceptAny comparisonTids with
  | some op =>
    let o ← createSymbol (← prev)
    let r ← e5 stmt k
    create (.binop (.cmp (lookupOp Generated.LexTables.comparisonMap op))
              (Base.at left.lineno left.colno) left o r)
  | none =>
    if ← accept .kNot then
      let ws := (← P.get).ws
      let notTok ← prev
      if ← accept .kIn then
        let inTok ← prev
        P.modify (fun s => { s with ws := s.ws.drop ws.length })
        if ws.isEmpty then P.fail .notInNoWs
        else
          let tok : Token := { notTok with spanEnd := inTok.spanEnd,
                                           value := notTok.value ++ wsText ws ++ inTok.value }
          let o ← createSymbol tok
          let r ← e5 stmt k
          create (.binop (.cmp "not in".toList) (Base.at left.lineno left.colno) left o r)
      else do
        let c ← cur
        P.fail (.parse c.lineno c.colno)   -- 'Expecting "in" after "not".'
    else pure left

def e3Loop (stmt : P Node) (k : Nat) : Nat → Node → P Node
  | 0, _ => P.fail .fuel
  | j + 1, left => do
    if ← accept .kAnd then
      let o ← createSymbol (← prev)
      if left.isEmpty then raiseAt left
      else
        let r ← e4 stmt k
        let n ← create (.binop .and (Base.at left.lineno left.colno) left o r)
        e3Loop stmt k j n
    else pure left

def e3 (stmt : P Node) (k : Nat) : P Node := do
  let left ← e4 stmt k
  e3Loop stmt k k left

def e2Loop (stmt : P Node) (k : Nat) : Nat → Node → P Node
  | 0, _ => P.fail .fuel
  | j + 1, left => do
    if ← accept .kOr then
      let o ← createSymbol (← prev)
      if left.isEmpty then raiseAt left
      else
        let r ← e3 stmt k
        let n ← create (.binop .or (Base.at left.lineno left.colno) left o r)
        e2Loop stmt k j n
    else pure left

def e2 (stmt : P Node) (k : Nat) : P Node := do
  let left ← e3 stmt k
  e2Loop stmt k k left

/-- `e1`; `stmt` is also the recursive `self.e1()` -/
def e1 (stmt : P Node) (k : Nat) : P Node := do
  let left ← e2 stmt k
  if ← accept .plusassign then
    let o ← createSymbol (← prev)
    let v ← stmt
    if !left.isId then raiseAt left
    else create (.assign true (Base.at left.lineno left.colno) left o v)
  else if ← accept .assign then
    let o ← createSymbol (← prev)
    let v ← stmt
    if !left.isId then raiseAt left
    else create (.assign false (Base.at left.lineno left.colno) left o v)
  else if ← accept .questionmark then
    if (← P.get).inTernary then raiseAt left
    else
      let q ← createSymbol (← prev)
      P.modify (fun s => { s with inTernary := true })
      let t ← stmt
      expect .colon
      let c ← createSymbol (← prev)
      let f ← stmt
      P.modify (fun s => { s with inTernary := false })
      create (.ternary (Base.at left.lineno left.colno) left q t c f)
  else pure left

/-- `statement()` = `e1()`, by recursion on fuel -/
def statement : Nat → P Node
  | 0 => P.fail .fuel
  | n + 1 => e1 (statement n) n

/-! ### blocks -/

/-- `foreachblock` (`foreach` has just been accepted) -/
def foreachBlock (stmt cb : P Node) : P Node := do
  let kw ← createSymbol (← prev)
  expect .id
  let p ← prev
  let v1 ← create (.id (Base.ofTok p) p.value)
  let (vars, commas) ←
    if ← accept .comma then do
      let c ← createSymbol (← prev)
      expect .id
      let p ← prev
      let v2 ← create (.id (Base.ofTok p) p.value)
      pure ([v1, v2], [c])
    else pure (([v1], []) : List Node × List Node)
  expect .colon
  let colon ← createSymbol (← prev)
  let items ← stmt
  let block ← cb
  let endkw ← createSymbol (← cur)
  create (.foreach (Base.at kw.lineno kw.colno) kw vars commas colon items block endkw)

/-- `elseifblock` -/
def elseifLoop (stmt cb : P Node) : Nat → List Node → P (List Node)
  | 0, _ => P.fail .fuel
  | j + 1, ifs => do
    if ← accept .kElif then
      let kw ← createSymbol (← prev)
      let s ← stmt
      expect .eol
      let b ← cb
      let n ← create (.ifnode (Base.at s.lineno s.colno) kw s b)
      elseifLoop stmt cb j (ifs ++ [n])
    else pure ifs

/-- `elseblock` -/
def elseBlock (cb : P Node) : P Node := do
  if ← accept .kElse then
    let kw ← createSymbol (← prev)
    expect .eol
    let b ← cb
    pure (.elsenode (Base.at b.lineno b.colno) kw b)
  else emptyAtCur

/-- `ifblock` (`if` has just been accepted). The `IfClauseNode` is created (and receives pending
whitespace) before its parts exist; the parts are filled in afterwards. -/
def ifBlock (stmt cb : P Node) (k : Nat) : P Node := do
  let kw ← createSymbol (← prev)
  let cond ← stmt
  let clause ← create (.ifclause (Base.at cond.lineno cond.colno) [] (.empty (Base.at cond.lineno cond.colno))
                         (.empty (Base.at 0 0)))
  expect .eol
  let block ← cb
  let first ← create (.ifnode (Base.at clause.lineno clause.colno) kw cond block)
  let ifs ← elseifLoop stmt cb k [first]
  let elseb ← elseBlock cb
  let endif ← createSymbol (← cur)
  pure (.ifclause clause.base ifs elseb endif)

/-- `line()` -/
def line (stmt cb : P Node) (k : Nat) : P Node := do
  let blockStart ← cur
  if blockStart.tid == .eol then emptyAtCur
  else if ← accept .kIf then
    let n ← ifBlock stmt cb k
    blockExpect .kEndif
    pure n
  else if ← accept .kForeach then
    let n ← foreachBlock stmt cb
    blockExpect .kEndforeach
    pure n
  else if ← accept .kContinue then
    let c ← cur
    create (.continue_ (Base.ofTok c))
  else if ← accept .kBreak then
    let c ← cur
    create (.break_ (Base.ofTok c))
  else stmt

/-- move `current_ws` into the block (`block.append_whitespaces` for each pending token) -/
def flushWs (block : Node) : P Node := fun s => .ok (block.addWs s.ws, { s with ws := [] })

def blockAppendLine (block : Node) (l : Node) : Node :=
  match block with
  | .codeblock b pre lines => if l.isEmpty then block else .codeblock b pre (lines ++ [l])
  | n => n

/-- the `while cond` loop of `codeblock()` -/
def codeblockLoop (stmt cb : P Node) (k : Nat) : Nat → Node → P Node
  | 0, _ => P.fail .fuel
  | j + 1, block => do
    let block ← flushWs block
    let l ← line stmt cb k
    let block := blockAppendLine block l
    if ← accept .eol then codeblockLoop stmt cb k j block
    else flushWs block

/-- `codeblock()`, by recursion on fuel -/
def codeblock : Nat → P Node
  | 0 => P.fail .fuel
  | n + 1 => do
    let c ← cur
    let block ← create (.codeblock (Base.at c.lineno c.colno) [] [])
    codeblockLoop (statement n) (codeblock n) n n block

/-- result of `Parser(code, file).parse()` -/
structure ParseOk where
  tree : Node
  lossy : Nat
  deriving Repr

/-- `Parser.__init__` + `parse()` on a lexer result -/
def parseToks (names : List (Str × Nat)) (lr : LexResult) (fuel : Nat) : Except Err ParseOk :=
  let s0 : PState := { cur := initialTok, prev := initialTok, ws := [], rest := lr.toks,
                       lexErr := lr.err, names := names }
  match getsym s0 with
  | .error e => .error e
  | .ok (_, s1) =>
    match codeblock fuel s1 with
    | .error e => .error e
    | .ok (block, s2) =>
      match expect .eof s2 with
      | .error e => .error e
      | .ok (_, s3) => .ok { tree := block, lossy := s3.lossy }

/-- default fuel: one more than the number of tokens plus a constant for the entry points -/
def defaultFuel (lr : LexResult) : Nat := lr.toks.length + 3

def parseWith (names : List (Str × Nat)) (s : Str) : Except Err ParseOk :=
  let lr := lex s
  parseToks names lr (defaultFuel lr)

def parse (s : Str) : Except Err ParseOk := parseWith [] s

end MesonModel.Lang
