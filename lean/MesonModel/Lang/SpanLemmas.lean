/-
Structural lemmas about `Spans` (every call / array node below a node has an exact extent): one unfolding
per node kind, and invariance under `append_whitespaces`.
-/
import MesonModel.Lang.SpanDefs

namespace MesonModel.Lang

variable {s : Str}

theorem spans_of_sub {n : Node} {L : List Node} (h : sub n = n :: L) :
    Spans s n ↔ SpanExact s n ∧ ∀ m ∈ L, SpanExact s m := by
  unfold Spans; rw [h]; exact List.forall_mem_cons

theorem spanExactB_iff (n : Node) : spanExactB s n = true ↔ SpanExact s n := by
  cases n <;> simp [spanExactB, SpanExact]

theorem spansL_nil : SpansL s [] := by intro m hm; cases hm

theorem spansL_cons (n : Node) (ns : List Node) : SpansL s (n :: ns) ↔ Spans s n ∧ SpansL s ns := by
  show (∀ m ∈ sub n ++ subL ns, SpanExact s m) ↔ _
  exact List.forall_mem_append

theorem spansL_append (a b : List Node) : SpansL s (a ++ b) ↔ SpansL s a ∧ SpansL s b := by
  induction a with
  | nil => simp [spansL_nil]
  | cons x xs ih => simp only [List.cons_append, spansL_cons, ih, and_assoc]

theorem spansL_snoc (a : List Node) (n : Node) : SpansL s (a ++ [n]) ↔ SpansL s a ∧ Spans s n := by
  rw [spansL_append, spansL_cons]; simp [spansL_nil]

theorem spansL_iff (l : List Node) : SpansL s l ↔ ∀ n ∈ l, Spans s n := by
  induction l with
  | nil => simp [spansL_nil]
  | cons x xs ih => simp [spansL_cons, ih]

/-! ### leaves -/

theorem spans_boolean (b v) : Spans s (.boolean b v) := by intro m hm; cases hm with | head => trivial | tail _ h => cases h
theorem spans_id (b v) : Spans s (.id b v) := by intro m hm; cases hm with | head => trivial | tail _ h => cases h
theorem spans_number (b r v) : Spans s (.number b r v) := by intro m hm; cases hm with | head => trivial | tail _ h => cases h
theorem spans_string (b r v m' f) : Spans s (.string b r v m' f) := by
  intro m hm; cases hm with | head => trivial | tail _ h => cases h
theorem spans_continue (b) : Spans s (.continue_ b) := by intro m hm; cases hm with | head => trivial | tail _ h => cases h
theorem spans_break (b) : Spans s (.break_ b) := by intro m hm; cases hm with | head => trivial | tail _ h => cases h
theorem spans_symbol (b v) : Spans s (.symbol b v) := by intro m hm; cases hm with | head => trivial | tail _ h => cases h
theorem spans_empty (b) : Spans s (.empty b) := by intro m hm; cases hm with | head => trivial | tail _ h => cases h

/-! ### inner nodes -/

theorem spans_args (b pos commas colons keys vals oe) :
    Spans s (.args b pos commas colons keys vals oe) ↔
      SpansL s pos ∧ SpansL s commas ∧ SpansL s colons ∧ SpansL s keys ∧ SpansL s vals := by
  rw [spans_of_sub (L := subL pos ++ subL commas ++ subL colons ++ subL keys ++ subL vals) rfl]
  have : SpanExact s (.args b pos commas colons keys vals oe) := trivial
  simp only [this, true_and, List.forall_mem_append, SpansL, and_assoc]

theorem spans_array (b l a r) :
    Spans s (.array b l a r) ↔ SpanExact s (.array b l a r) ∧ Spans s l ∧ Spans s a ∧ Spans s r := by
  rw [spans_of_sub (L := sub l ++ sub a ++ sub r) rfl]
  simp only [List.forall_mem_append, Spans, and_assoc]

theorem spans_dict (b l a r) : Spans s (.dict b l a r) ↔ Spans s l ∧ Spans s a ∧ Spans s r := by
  rw [spans_of_sub (L := sub l ++ sub a ++ sub r) rfl]
  have : SpanExact s (.dict b l a r) := trivial
  simp only [this, true_and, List.forall_mem_append, Spans, and_assoc]

theorem spans_binop (k b l o r) : Spans s (.binop k b l o r) ↔ Spans s l ∧ Spans s o ∧ Spans s r := by
  rw [spans_of_sub (L := sub l ++ sub o ++ sub r) rfl]
  have : SpanExact s (.binop k b l o r) := trivial
  simp only [this, true_and, List.forall_mem_append, Spans, and_assoc]

theorem spans_unop (k b o v) : Spans s (.unop k b o v) ↔ Spans s o ∧ Spans s v := by
  rw [spans_of_sub (L := sub o ++ sub v) rfl]
  have : SpanExact s (.unop k b o v) := trivial
  simp only [this, true_and, List.forall_mem_append, Spans, and_assoc]

theorem spans_codeblock (b pre lines) : Spans s (.codeblock b pre lines) ↔ SpansL s lines := by
  rw [spans_of_sub (L := subL lines) rfl]
  have : SpanExact s (.codeblock b pre lines) := trivial
  simp only [this, true_and, SpansL]

theorem spans_index (b o l i r) : Spans s (.index b o l i r) ↔ Spans s o ∧ Spans s l ∧ Spans s i ∧ Spans s r := by
  rw [spans_of_sub (L := sub o ++ sub l ++ sub i ++ sub r) rfl]
  have : SpanExact s (.index b o l i r) := trivial
  simp only [this, true_and, List.forall_mem_append, Spans, and_assoc]

theorem spans_method (b o d n l a r) :
    Spans s (.method b o d n l a r) ↔
      SpanExact s (.method b o d n l a r) ∧ Spans s o ∧ Spans s d ∧ Spans s n ∧ Spans s l ∧ Spans s a ∧ Spans s r := by
  rw [spans_of_sub (L := sub o ++ sub d ++ sub n ++ sub l ++ sub a ++ sub r) rfl]
  simp only [List.forall_mem_append, Spans, and_assoc]

theorem spans_function (b n l a r) :
    Spans s (.function b n l a r) ↔
      SpanExact s (.function b n l a r) ∧ Spans s n ∧ Spans s l ∧ Spans s a ∧ Spans s r := by
  rw [spans_of_sub (L := sub n ++ sub l ++ sub a ++ sub r) rfl]
  simp only [List.forall_mem_append, Spans, and_assoc]

theorem spans_assign (p b n o v) : Spans s (.assign p b n o v) ↔ Spans s n ∧ Spans s o ∧ Spans s v := by
  rw [spans_of_sub (L := sub n ++ sub o ++ sub v) rfl]
  have : SpanExact s (.assign p b n o v) := trivial
  simp only [this, true_and, List.forall_mem_append, Spans, and_assoc]

theorem spans_foreach (b kw vars commas colon items block endkw) :
    Spans s (.foreach b kw vars commas colon items block endkw) ↔
      Spans s kw ∧ SpansL s vars ∧ SpansL s commas ∧ Spans s colon ∧ Spans s items ∧ Spans s block ∧
        Spans s endkw := by
  rw [spans_of_sub (L := sub kw ++ subL vars ++ subL commas ++ sub colon ++ sub items ++ sub block ++ sub endkw) rfl]
  have : SpanExact s (.foreach b kw vars commas colon items block endkw) := trivial
  simp only [this, true_and, List.forall_mem_append, Spans, SpansL, and_assoc]

theorem spans_ifnode (b kw c bl) : Spans s (.ifnode b kw c bl) ↔ Spans s kw ∧ Spans s c ∧ Spans s bl := by
  rw [spans_of_sub (L := sub kw ++ sub c ++ sub bl) rfl]
  have : SpanExact s (.ifnode b kw c bl) := trivial
  simp only [this, true_and, List.forall_mem_append, Spans, and_assoc]

theorem spans_elsenode (b kw bl) : Spans s (.elsenode b kw bl) ↔ Spans s kw ∧ Spans s bl := by
  rw [spans_of_sub (L := sub kw ++ sub bl) rfl]
  have : SpanExact s (.elsenode b kw bl) := trivial
  simp only [this, true_and, List.forall_mem_append, Spans, and_assoc]

theorem spans_ifclause (b ifs e en) : Spans s (.ifclause b ifs e en) ↔ SpansL s ifs ∧ Spans s e ∧ Spans s en := by
  rw [spans_of_sub (L := subL ifs ++ sub e ++ sub en) rfl]
  have : SpanExact s (.ifclause b ifs e en) := trivial
  simp only [this, true_and, List.forall_mem_append, Spans, SpansL, and_assoc]

theorem spans_ternary (b c q t cl f) :
    Spans s (.ternary b c q t cl f) ↔ Spans s c ∧ Spans s q ∧ Spans s t ∧ Spans s cl ∧ Spans s f := by
  rw [spans_of_sub (L := sub c ++ sub q ++ sub t ++ sub cl ++ sub f) rfl]
  have : SpanExact s (.ternary b c q t cl f) := trivial
  simp only [this, true_and, List.forall_mem_append, Spans, and_assoc]

theorem spans_paren (b l i r) : Spans s (.paren b l i r) ↔ Spans s l ∧ Spans s i ∧ Spans s r := by
  rw [spans_of_sub (L := sub l ++ sub i ++ sub r) rfl]
  have : SpanExact s (.paren b l i r) := trivial
  simp only [this, true_and, List.forall_mem_append, Spans, and_assoc]

/-! ### `append_whitespaces` changes no extent and no child -/

theorem spans_addWsBase (n : Node) (ws : List Token) : Spans s (n.addWsBase ws) ↔ Spans s n := by
  cases n <;> simp only [Node.addWsBase, Node.mapBase]
  case boolean => simp only [spans_boolean]
  case id => simp only [spans_id]
  case number => simp only [spans_number]
  case string => simp only [spans_string]
  case continue_ => simp only [spans_continue]
  case break_ => simp only [spans_break]
  case symbol => simp only [spans_symbol]
  case empty => simp only [spans_empty]
  case args => simp only [spans_args]
  case array => simp only [spans_array]; exact Iff.rfl
  case dict => simp only [spans_dict]
  case binop => simp only [spans_binop]
  case unop => simp only [spans_unop]
  case codeblock => simp only [spans_codeblock]
  case index => simp only [spans_index]
  case method => simp only [spans_method]; exact Iff.rfl
  case function => simp only [spans_function]; exact Iff.rfl
  case assign => simp only [spans_assign]
  case foreach => simp only [spans_foreach]
  case ifnode => simp only [spans_ifnode]
  case elsenode => simp only [spans_elsenode]
  case ifclause => simp only [spans_ifclause]
  case ternary => simp only [spans_ternary]
  case paren => simp only [spans_paren]

theorem spansL_modifyLast (ls : List Node) (ws : List Token) :
    SpansL s (Node.modifyLast (Node.addWsBase ws) ls) ↔ SpansL s ls := by
  induction ls with
  | nil => exact Iff.rfl
  | cons a as ih =>
    cases as with
    | nil => simp only [Node.modifyLast, spansL_cons, spans_addWsBase]
    | cons b bs =>
      simp only [Node.modifyLast, spansL_cons] at ih ⊢
      rw [ih]

theorem spans_addWs (n : Node) (ws : List Token) : Spans s (n.addWs ws) ↔ Spans s n := by
  cases n
  case codeblock b pre lines =>
    simp only [Node.addWs]
    split
    · simp only [spans_codeblock]
    · simp only [spans_codeblock, spansL_modifyLast]
  all_goals exact spans_addWsBase _ _

end MesonModel.Lang
