/-
Structural lemmas about `Spans` (every call / array node below a node has an exact extent): one unfolding
per node kind, and invariance under `append_whitespaces`.
-/
import MesonModel.Lang.SpanDefs

namespace MesonModel.Lang

variable {s : Str}

theorem spans_of_sub {n : Node} {L : List Node} (h : sub n = n :: L) :
    Spans s n ↔ SpanExact s n ∧ ∀ m ∈ L, SpanExact s m := by
  unfold Spans; rw [h]; exact List.forall_mem_cons

theorem spanExactB_iff (n : Node) : spanExactB s n = true ↔ SpanExact s n := by
  simp [spanExactB]

theorem spansL_nil : SpansL s [] := by intro m hm; cases hm

theorem spansL_cons (n : Node) (ns : List Node) : SpansL s (n :: ns) ↔ Spans s n ∧ SpansL s ns := by
  show (∀ m ∈ sub n ++ subL ns, SpanExact s m) ↔ _
  exact List.forall_mem_append

theorem spansL_append (a b : List Node) : SpansL s (a ++ b) ↔ SpansL s a ∧ SpansL s b := by
  induction a with
  | nil => simp [spansL_nil]
  | cons x xs ih => simp only [List.cons_append, spansL_cons, ih, and_assoc]

theorem spansL_snoc (a : List Node) (n : Node) : SpansL s (a ++ [n]) ↔ SpansL s a ∧ Spans s n := by
  rw [spansL_append, spansL_cons]; simp [spansL_nil]

theorem spansL_iff (l : List Node) : SpansL s l ↔ ∀ n ∈ l, Spans s n := by
  induction l with
  | nil => simp [spansL_nil]
  | cons x xs ih => simp [spansL_cons, ih]

/-! ### leaves -/

theorem spans_leaf {n : Node} (h : sub n = [n]) : Spans s n ↔ SpanExact s n := by
  unfold Spans; rw [h]; simp

theorem spans_boolean (b v) : Spans s (.boolean b v) ↔ NoEnd b := spans_leaf rfl
theorem spans_id (b v) : Spans s (.id b v) ↔ NoEnd b := spans_leaf rfl
theorem spans_number (b r v) : Spans s (.number b r v) ↔ NoEnd b := spans_leaf rfl
theorem spans_string (b r v m' f) : Spans s (.string b r v m' f) ↔ NoEnd b := spans_leaf rfl
theorem spans_continue (b) : Spans s (.continue_ b) ↔ NoEnd b := spans_leaf rfl
theorem spans_break (b) : Spans s (.break_ b) ↔ NoEnd b := spans_leaf rfl
theorem spans_symbol (b v) : Spans s (.symbol b v) ↔ NoEnd b := spans_leaf rfl
theorem spans_empty (b) : Spans s (.empty b) ↔ NoEnd b := spans_leaf rfl

theorem noEnd_ofTok (t : Token) : NoEnd (Base.ofTok t) := ⟨rfl, rfl⟩
theorem noEnd_at (l c : Nat) : NoEnd (Base.at l c) := ⟨rfl, rfl⟩

/-! ### inner nodes -/

theorem spans_args (b pos commas colons keys vals oe) :
    Spans s (.args b pos commas colons keys vals oe) ↔
      NoEnd b ∧ oe = false ∧ SpansL s pos ∧ SpansL s commas ∧ SpansL s colons ∧ SpansL s keys ∧ SpansL s vals := by
  rw [spans_of_sub (L := subL pos ++ subL commas ++ subL colons ++ subL keys ++ subL vals) rfl]
  simp only [SpanExact, Node.base, List.forall_mem_append, SpansL, and_assoc]

theorem spans_array (b l a r) :
    Spans s (.array b l a r) ↔ SpanExact s (.array b l a r) ∧ Spans s l ∧ Spans s a ∧ Spans s r := by
  rw [spans_of_sub (L := sub l ++ sub a ++ sub r) rfl]
  simp only [List.forall_mem_append, Spans, and_assoc]

theorem spans_dict (b l a r) : Spans s (.dict b l a r) ↔ SpanExact s (.dict b l a r) ∧ Spans s l ∧ Spans s a ∧ Spans s r := by
  rw [spans_of_sub (L := sub l ++ sub a ++ sub r) rfl]
  simp only [List.forall_mem_append, Spans, and_assoc]

theorem spans_binop (k b l o r) : Spans s (.binop k b l o r) ↔ NoEnd b ∧ Spans s l ∧ Spans s o ∧ Spans s r := by
  rw [spans_of_sub (L := sub l ++ sub o ++ sub r) rfl]
  simp only [SpanExact, Node.base, List.forall_mem_append, Spans, and_assoc]

theorem spans_unop (k b o v) : Spans s (.unop k b o v) ↔ NoEnd b ∧ Spans s o ∧ Spans s v := by
  rw [spans_of_sub (L := sub o ++ sub v) rfl]
  simp only [SpanExact, Node.base, List.forall_mem_append, Spans, and_assoc]

theorem spans_codeblock (b pre lines) : Spans s (.codeblock b pre lines) ↔ NoEnd b ∧ SpansL s lines := by
  rw [spans_of_sub (L := subL lines) rfl]
  simp only [SpanExact, Node.base, SpansL]

theorem spans_index (b o l i r) : Spans s (.index b o l i r) ↔ NoEnd b ∧ Spans s o ∧ Spans s l ∧ Spans s i ∧ Spans s r := by
  rw [spans_of_sub (L := sub o ++ sub l ++ sub i ++ sub r) rfl]
  simp only [SpanExact, Node.base, List.forall_mem_append, Spans, and_assoc]

theorem spans_method (b o d n l a r) :
    Spans s (.method b o d n l a r) ↔
      SpanExact s (.method b o d n l a r) ∧ Spans s o ∧ Spans s d ∧ Spans s n ∧ Spans s l ∧ Spans s a ∧ Spans s r := by
  rw [spans_of_sub (L := sub o ++ sub d ++ sub n ++ sub l ++ sub a ++ sub r) rfl]
  simp only [List.forall_mem_append, Spans, and_assoc]

theorem spans_function (b n l a r) :
    Spans s (.function b n l a r) ↔
      SpanExact s (.function b n l a r) ∧ Spans s n ∧ Spans s l ∧ Spans s a ∧ Spans s r := by
  rw [spans_of_sub (L := sub n ++ sub l ++ sub a ++ sub r) rfl]
  simp only [List.forall_mem_append, Spans, and_assoc]

theorem spans_assign (p b n o v) : Spans s (.assign p b n o v) ↔ NoEnd b ∧ Spans s n ∧ Spans s o ∧ Spans s v := by
  rw [spans_of_sub (L := sub n ++ sub o ++ sub v) rfl]
  simp only [SpanExact, Node.base, List.forall_mem_append, Spans, and_assoc]

theorem spans_foreach (b kw vars commas colon items block endkw) :
    Spans s (.foreach b kw vars commas colon items block endkw) ↔
      NoEnd b ∧ Spans s kw ∧ SpansL s vars ∧ SpansL s commas ∧ Spans s colon ∧ Spans s items ∧ Spans s block ∧
        Spans s endkw := by
  rw [spans_of_sub (L := sub kw ++ subL vars ++ subL commas ++ sub colon ++ sub items ++ sub block ++ sub endkw) rfl]
  simp only [SpanExact, Node.base, List.forall_mem_append, Spans, SpansL, and_assoc]

theorem spans_ifnode (b kw c bl) : Spans s (.ifnode b kw c bl) ↔ NoEnd b ∧ Spans s kw ∧ Spans s c ∧ Spans s bl := by
  rw [spans_of_sub (L := sub kw ++ sub c ++ sub bl) rfl]
  simp only [SpanExact, Node.base, List.forall_mem_append, Spans, and_assoc]

theorem spans_elsenode (b kw bl) : Spans s (.elsenode b kw bl) ↔ NoEnd b ∧ Spans s kw ∧ Spans s bl := by
  rw [spans_of_sub (L := sub kw ++ sub bl) rfl]
  simp only [SpanExact, Node.base, List.forall_mem_append, Spans, and_assoc]

theorem spans_ifclause (b ifs e en) : Spans s (.ifclause b ifs e en) ↔ NoEnd b ∧ SpansL s ifs ∧ Spans s e ∧ Spans s en := by
  rw [spans_of_sub (L := subL ifs ++ sub e ++ sub en) rfl]
  simp only [SpanExact, Node.base, List.forall_mem_append, Spans, SpansL, and_assoc]

theorem spans_ternary (b c q t cl f) :
    Spans s (.ternary b c q t cl f) ↔ NoEnd b ∧ Spans s c ∧ Spans s q ∧ Spans s t ∧ Spans s cl ∧ Spans s f := by
  rw [spans_of_sub (L := sub c ++ sub q ++ sub t ++ sub cl ++ sub f) rfl]
  simp only [SpanExact, Node.base, List.forall_mem_append, Spans, and_assoc]

theorem spans_paren (b l i r) : Spans s (.paren b l i r) ↔ SpanExact s (.paren b l i r) ∧ Spans s l ∧ Spans s i ∧ Spans s r := by
  rw [spans_of_sub (L := sub l ++ sub i ++ sub r) rfl]
  simp only [List.forall_mem_append, Spans, and_assoc]

/-! ### `append_whitespaces` changes no extent and no child -/

theorem spans_addWsBase (n : Node) (ws : List Token) : Spans s (n.addWsBase ws) ↔ Spans s n := by
  cases n <;> simp only [Node.addWsBase, Node.mapBase]
  case boolean => simp only [spans_boolean]; exact Iff.rfl
  case id => simp only [spans_id]; exact Iff.rfl
  case number => simp only [spans_number]; exact Iff.rfl
  case string => simp only [spans_string]; exact Iff.rfl
  case continue_ => simp only [spans_continue]; exact Iff.rfl
  case break_ => simp only [spans_break]; exact Iff.rfl
  case symbol => simp only [spans_symbol]; exact Iff.rfl
  case empty => simp only [spans_empty]; exact Iff.rfl
  case args => simp only [spans_args]; exact Iff.rfl
  case array => simp only [spans_array]; exact Iff.rfl
  case dict => simp only [spans_dict]; exact Iff.rfl
  case binop => simp only [spans_binop]; exact Iff.rfl
  case unop => simp only [spans_unop]; exact Iff.rfl
  case codeblock => simp only [spans_codeblock]; exact Iff.rfl
  case index => simp only [spans_index]; exact Iff.rfl
  case method => simp only [spans_method]; exact Iff.rfl
  case function => simp only [spans_function]; exact Iff.rfl
  case assign => simp only [spans_assign]; exact Iff.rfl
  case foreach => simp only [spans_foreach]; exact Iff.rfl
  case ifnode => simp only [spans_ifnode]; exact Iff.rfl
  case elsenode => simp only [spans_elsenode]; exact Iff.rfl
  case ifclause => simp only [spans_ifclause]; exact Iff.rfl
  case ternary => simp only [spans_ternary]; exact Iff.rfl
  case paren => simp only [spans_paren]; exact Iff.rfl

theorem spansL_modifyLast (ls : List Node) (ws : List Token) :
    SpansL s (Node.modifyLast (Node.addWsBase ws) ls) ↔ SpansL s ls := by
  induction ls with
  | nil => exact Iff.rfl
  | cons a as ih =>
    cases as with
    | nil => simp only [Node.modifyLast, spansL_cons, spans_addWsBase]
    | cons b bs =>
      simp only [Node.modifyLast, spansL_cons] at ih ⊢
      rw [ih]

theorem spans_addWs (n : Node) (ws : List Token) : Spans s (n.addWs ws) ↔ Spans s n := by
  cases n
  case codeblock b pre lines =>
    simp only [Node.addWs]
    split
    · simp only [spans_codeblock]
    · simp only [spans_codeblock, spansL_modifyLast]
  all_goals exact spans_addWsBase _ _

end MesonModel.Lang
