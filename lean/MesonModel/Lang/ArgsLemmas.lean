/-
`visit_ArgumentNode` on argument lists in the shape the parser builds them: every positional argument
followed by its comma, then every keyword argument (`key colon value`) followed by its comma, the last
comma optional.
-/
import MesonModel.Lang.EmitLemmas

namespace MesonModel.Lang

/-- text of complete `item comma` pairs -/
def zipcat : List Str → List Str → Str
  | p :: ps, c :: cs => p ++ c ++ zipcat ps cs
  | _, _ => []

/-- text of complete `key colon value comma` groups -/
def kwcat : List Str → List Str → List Str → List Str → Str
  | k :: ks, cl :: cls, v :: vs, c :: cs => k ++ cl ++ v ++ c ++ kwcat ks cls vs cs
  | _, _, _, _ => []

theorem interleavePos_balanced (P C1 C2 : List Str) (h : C1.length = P.length) :
    interleavePos P (C1 ++ C2) = (zipcat P C1, C2) := by
  induction P generalizing C1 with
  | nil => cases C1 <;> simp_all [interleavePos, zipcat]
  | cons p ps ih =>
    cases C1 with
    | nil => simp at h
    | cons c cs =>
      simp only [List.length_cons, Nat.add_right_cancel_iff] at h
      simp [interleavePos, zipcat, ih cs h, List.append_assoc]

theorem interleavePos_last (P C1 : List Str) (p : Str) (h : C1.length = P.length) :
    interleavePos (P ++ [p]) C1 = (zipcat P C1 ++ p, []) := by
  induction P generalizing C1 with
  | nil => cases C1 <;> simp_all [interleavePos, zipcat]
  | cons q qs ih =>
    cases C1 with
    | nil => simp at h
    | cons c cs =>
      simp only [List.length_cons, Nat.add_right_cancel_iff] at h
      simp [interleavePos, zipcat, ih cs h, List.append_assoc]

theorem zipcat_snoc (P C : List Str) (p c : Str) (h : C.length = P.length) :
    zipcat (P ++ [p]) (C ++ [c]) = zipcat P C ++ p ++ c := by
  induction P generalizing C with
  | nil => cases C <;> simp_all [zipcat]
  | cons q qs ih =>
    cases C with
    | nil => simp at h
    | cons d ds =>
      simp only [List.length_cons, Nat.add_right_cancel_iff] at h
      simp [zipcat, ih ds h, List.append_assoc]

theorem interleaveKw_balanced (K CL V C : List Str)
    (h1 : CL.length = K.length) (h2 : V.length = K.length) (h3 : C.length = K.length) :
    interleaveKw K CL V C = kwcat K CL V C := by
  induction K generalizing CL V C with
  | nil => cases CL <;> cases V <;> cases C <;> simp_all [interleaveKw, kwcat]
  | cons k ks ih =>
    cases CL with
    | nil => simp at h1
    | cons cl cls =>
      cases V with
      | nil => simp at h2
      | cons v vs =>
        cases C with
        | nil => simp at h3
        | cons c cs =>
          simp only [List.length_cons, Nat.add_right_cancel_iff] at h1 h2 h3
          simp [interleaveKw, kwcat, ih cls vs cs h1 h2 h3]

theorem interleaveKw_last (K CL V C : List Str) (k cl v : Str)
    (h1 : CL.length = K.length) (h2 : V.length = K.length) (h3 : C.length = K.length) :
    interleaveKw (K ++ [k]) (CL ++ [cl]) (V ++ [v]) C = kwcat K CL V C ++ k ++ cl ++ v := by
  induction K generalizing CL V C with
  | nil => cases CL <;> cases V <;> cases C <;> simp_all [interleaveKw, kwcat]
  | cons q qs ih =>
    cases CL with
    | nil => simp at h1
    | cons cl' cls =>
      cases V with
      | nil => simp at h2
      | cons v' vs =>
        cases C with
        | nil => simp at h3
        | cons c cs =>
          simp only [List.length_cons, Nat.add_right_cancel_iff] at h1 h2 h3
          simp [interleaveKw, kwcat, ih cls vs cs h1 h2 h3, List.append_assoc]

theorem kwcat_snoc (K CL V C : List Str) (k cl v c : Str)
    (h1 : CL.length = K.length) (h2 : V.length = K.length) (h3 : C.length = K.length) :
    kwcat (K ++ [k]) (CL ++ [cl]) (V ++ [v]) (C ++ [c]) = kwcat K CL V C ++ k ++ cl ++ v ++ c := by
  induction K generalizing CL V C with
  | nil => cases CL <;> cases V <;> cases C <;> simp_all [kwcat]
  | cons q qs ih =>
    cases CL with
    | nil => simp at h1
    | cons cl' cls =>
      cases V with
      | nil => simp at h2
      | cons v' vs =>
        cases C with
        | nil => simp at h3
        | cons c' cs =>
          simp only [List.length_cons, Nat.add_right_cancel_iff] at h1 h2 h3
          simp [kwcat, ih cls vs cs h1 h2 h3, List.append_assoc]

theorem emitL_length (l : List Node) : (emitL l).length = l.length := by
  induction l with
  | nil => rfl
  | cons a as ih => simp [emitL_cons, ih]

theorem emitL_snoc (l : List Node) (n : Node) : emitL (l ++ [n]) = emitL l ++ [emit n] := by
  rw [emitL_append]; rfl

end MesonModel.Lang
