/-
C06 — model of the configure-time emitters whose input is an *unordered* Python collection.

Every `set`/`dict`-keyed-by-hash the real code iterates is represented by a `List` that stands for
the iteration order the run happened to get (hash seed, object addresses).  "Independent of hash
randomisation" is then invariance of the emitter under `List.Perm` of that argument.  Identifiers
minted during configuration (`uuid.uuid4()`) are an explicit `fresh : Nat → Str` parameter.

Python sources mirrored (pinned in harness/c06.py):
  mesonbuild/backend/ninjabackend.py   ninja_quote, NinjaBuildElement.write (header line), NinjaBuild.write
  mesonbuild/utils/core.py             EnvironmentVariables.hash
  mesonbuild/backend/backends.py       Backend.get_executable_serialisation (scratch file name),
                                       Backend.create_test_serialisation (`depends`, LD_LIBRARY_PATH)
  mesonbuild/utils/universal.py        _dump_c_header, replace_if_different
  mesonbuild/options.py                OptionKey.__lt__ (8af551c), OptionKey.__str__
  mesonbuild/coredata.py               CoreData.add_lang_args … `for key in comp.base_options`
  mesonbuild/mintro.py                 _list_buildoptions/add_keys, get_test_list, list_targets (dependencies),
                                       list_install_plan (exclude_*), write_intro_info
  mesonbuild/dependencies/base.py      Dependency.__init__ (`name = f'dep{uuid4().int}'`)
  mesonbuild/depfile.py                DepFile.get_all_dependencies
  mesonbuild/modules/pkgconfig.py      DependenciesHelper.format_vreq, format_reqs
  mesonbuild/dependencies/detect.py    get_dep_identifier (list-valued keywords);  build.py GeneratedList.depends
  mesonbuild/compilers/compilers.py    CompileResult, Compiler.cached_compile;  mixins/gnu.py GnuCompiler.has_arguments
Core Lean only (no Mathlib): this file is compiled into the native driver.
-/
namespace MesonModel.Det

abbrev Str := List Char

/-! ### Python `str` ordering and `sorted` -/

/-- Python `a <= b` on `str`: lexicographic by code point -/
def strLe : Str → Str → Bool
  | [], _ => true
  | _ :: _, [] => false
  | a :: as, b :: bs =>
    if a.toNat < b.toNat then true
    else if b.toNat < a.toNat then false
    else strLe as bs

/-- Python `sorted(l)` for elements that only implement `<`: a *stable* sort that places `a` before
`b` unless `b < a`. (Core `List.mergeSort` is stable; timsort is stable; for a strict weak order the
stable result is unique, the tie measures this on every run.) -/
def pySortedBy {α} (lt : α → α → Bool) (l : List α) : List α :=
  l.mergeSort (fun a b => !(lt b a))

/-- `sorted(l)` on strings (`b < a` is `not (a <= b)`) -/
def sortedStrs (l : List Str) : List Str := l.mergeSort strLe

def join (sep : Str) (l : List Str) : Str := List.intercalate sep l

/-! ### `ninja_quote` and the header line of `NinjaBuildElement.write` -/

inductive EmitError where
  | newlineInNinjaText      -- MesonException('Ninja does not support newlines in rules…')
  | unknownConfType (k : Str) -- MesonException('Unknown data type in configuration file entry: ' + k)
  deriving Repr, DecidableEq

/-- `ninja_quote(text, is_build_line)` -/
def ninjaQuote (buildLine : Bool) (t : Str) : Except EmitError Str :=
  if t.contains '\n' then .error .newlineInNinjaText
  else if t.contains ' ' || t.contains '$' || (buildLine && t.contains ':') then
    .ok (t.flatMap fun c =>
      if c = '$' || c = ' ' || c = '\n' || (buildLine && c = ':') then ['$', c] else [c])
  else .ok t

/-- a `NinjaBuildElement`; `deps`/`orderdeps` are Python sets: the lists are their iteration order -/
structure BuildElem where
  outs : List Str
  implicitOuts : List Str
  rule : Str
  useRsp : Bool            -- value of `_should_use_rspfile` (a function of the ordered fields only)
  ins : List Str
  deps : List Str
  orderdeps : List Str
  deriving Repr, DecidableEq

def quoteAll (l : List Str) : Except EmitError (List Str) := l.mapM (ninjaQuote true)

/-- the `build …` line produced by `NinjaBuildElement.write` (before the `elems` lines) -/
def buildLine (e : BuildElem) : Except EmitError Str := do
  let ins ← quoteAll e.ins
  let outs ← quoteAll e.outs
  let imp ← quoteAll e.implicitOuts
  let implicitOuts := join [' '] imp
  let implicitOuts := if implicitOuts.isEmpty then [] else " | ".toList ++ implicitOuts
  let rulename := if e.useRsp then e.rule ++ "_RSP".toList else e.rule
  let line := "build ".toList ++ join [' '] outs ++ implicitOuts ++ ": ".toList ++ rulename ++ [' '] ++ join [' '] ins
  let line ← if e.deps.length > 0 then do
      let q ← quoteAll (sortedStrs e.deps)
      pure (line ++ " | ".toList ++ join [' '] q)
    else pure line
  let line ← if e.orderdeps.length > 0 then do
      let q ← quoteAll (sortedStrs e.orderdeps)
      pure (line ++ " || ".toList ++ join [' '] q)
    else pure line
  let line := line ++ ['\n']
  pure (line.map fun c => if c = '\\' then '/' else c)

/-- `NinjaBuild.write`: rule texts in insertion order, then build statements in insertion order -/
def ninjaWrite (rules : List Str) (builds : List BuildElem) : Except EmitError Str := do
  let bs ← builds.mapM buildLine
  pure (rules.flatten ++ bs.flatten)

/-! ### exe-wrapper pickle name (`meson_exe_<basename>_<sha1>.dat`) -/

/-- one recorded operation of an `EnvironmentVariables` object: (method name, variable, values, separator) -/
structure EnvOp where
  kind : Str
  name : Str
  values : List Str
  sep : Str
  deriving Repr, DecidableEq

/-- the bytes `EnvironmentVariables.hash` feeds to the hasher (after cc8eeba):
`repr((ops, sorted(self.unset_vars)))` — the operations are a list in program order, `unset_vars` is a
set (`unsetIter` = its iteration order).  `R` is Python's `repr` of that pair (opaque). -/
def envHashInput (R : List EnvOp × List Str → Str) (ops : List EnvOp) (unsetIter : List Str) : Str :=
  R (ops, sortedStrs unsetIter)

/-- things that vary between runs / call sites but are not content of the serialisation -/
structure GenCtx where
  wrappersSoFar : Nat
  fresh : Nat → Str

/-- `H` is the SHA-1 hex digest (opaque); reprs are `str(es.cmd_args)` etc. -/
def wrapperName (H : Str → Str) (R : List EnvOp × List Str → Str) (_ctx : GenCtx) (basename : Str)
    (env : Option (List EnvOp × List Str)) (cmdArgsRepr workdirRepr captureRepr feedRepr : Str) : Str :=
  let e := match env with | some v => envHashInput R v.1 v.2 | none => []
  "meson_exe_".toList ++ basename ++ ['_'] ++ H (e ++ cmdArgsRepr ++ workdirRepr ++ captureRepr ++ feedRepr)
    ++ ".dat".toList

/-! ### `_dump_c_header` -/

inductive ConfVal where
  | bool (b : Bool)
  | int (i : Int)
  | str (s : Str)
  | other                  -- anything else stored in ConfigurationData.values
  deriving Repr, DecidableEq

def cPrelude (mid : Str) : Str :=
  "/*\n * Autogenerated by the Meson build system.\n * Do not edit, your changes will be lost.\n */\n\n".toList
    ++ mid ++ "\n\n".toList

def nasmPrelude : Str :=
  "; Autogenerated by the Meson build system.\n; Do not edit, your changes will be lost.\n\n".toList

def intRepr (i : Int) : Str := (toString i).toList

/-- `entries` = `cdata.values.items()` in dict order (keys distinct): key ↦ (value, description).
`nasm = false` is output_format 'c'. Descriptions for nasm are assumed to hold no line break. -/
def dumpCHeader (nasm : Bool) (macroName : Str) (entries : List (Str × ConfVal × Str)) : Except EmitError Str := do
  let prelude :=
    if nasm then nasmPrelude
    else if !macroName.isEmpty then
      cPrelude ("#ifndef ".toList ++ macroName ++ "\n#define ".toList ++ macroName)
    else cPrelude "#pragma once".toList
  let prefix_ : Str := if nasm then ['%'] else ['#']
  let body ← (sortedStrs (entries.map Prod.fst)).mapM fun k =>
    match entries.lookup k with
    | none => pure []                         -- unreachable: k is a key
    | some (v, desc) =>
      let d : Str := if desc.isEmpty then []
        else if nasm then "; ".toList ++ desc ++ ['\n'] else "/* ".toList ++ desc ++ " */\n".toList
      match v with
      | .bool true => pure (d ++ prefix_ ++ "define ".toList ++ k ++ "\n\n".toList)
      | .bool false => pure (d ++ prefix_ ++ "undef ".toList ++ k ++ "\n\n".toList)
      | .int i => pure (d ++ prefix_ ++ "define ".toList ++ k ++ [' '] ++ intRepr i ++ "\n\n".toList)
      | .str s => pure (d ++ prefix_ ++ "define ".toList ++ k ++ [' '] ++ s ++ "\n\n".toList)
      | .other => throw (.unknownConfType k)
  let tail : Str := if !nasm && !macroName.isEmpty then "#endif\n".toList else []
  pure (prelude ++ body.flatten ++ tail)

/-! ### option keys, `sorted(opts.items())` in `_list_buildoptions.add_keys` -/

structure OptKey where
  sub : Option Str        -- OptionKey.subproject (None = global, '' = top project)
  machine : Nat           -- MachineChoice.BUILD = 0, HOST = 1
  name : Str
  deriving Repr, DecidableEq

/-- tuple `<` on `(subproject, machine, name)` for two keys that both have a subproject -/
def tupleLt (s₁ : Str) (m₁ : Nat) (n₁ : Str) (s₂ : Str) (m₂ : Nat) (n₂ : Str) : Bool :=
  if s₁ ≠ s₂ then !strLe s₂ s₁
  else if m₁ ≠ m₂ then m₁ < m₂
  else !strLe n₂ n₁

/-- `OptionKey.__lt__` (after 8af551c): a key without subproject sorts before every key with one;
otherwise the tuples `(subproject, machine, name)` are compared (for two `None` subprojects the first
components are equal, so machine and name decide) -/
def optKeyLt (a b : OptKey) : Bool :=
  match a.sub, b.sub with
  | none, some _ => true
  | some _, none => false
  | none, none => if a.machine ≠ b.machine then a.machine < b.machine else !strLe b.name a.name
  | some s₁, some s₂ => tupleLt s₁ a.machine a.name s₂ b.machine b.name

/-- `OptionKey.__str__` -/
def OptKey.show (k : OptKey) : Str :=
  let out := if k.machine = 0 then "build.".toList ++ k.name else k.name
  match k.sub with
  | some s => s ++ [':'] ++ out
  | none => out

inductive OptKind where
  | dir | test | core | backend | base | compiler | project | other
  deriving Repr, DecidableEq

/-- `add_keys(opts, section)`: rows `(str(key), section)` in `sorted(opts.items())` order -/
def addKeys (opts : List OptKey) (section_ : Str) : List (Str × Str) :=
  (pySortedBy optKeyLt opts).map fun k => (k.show, section_)

/-- `for key in comp.base_options: if key not in optstore: add_system_option(key, …)`;
`baseIter` is the iteration order of the *set* `Compiler.base_options` -/
def addBaseOptions (store : List (OptKey × OptKind)) (baseIter : List OptKey) : List (OptKey × OptKind) :=
  baseIter.foldl (fun s k => if s.any (fun e => e.1 = k) then s else s ++ [(k, .base)]) store

def keysOf (store : List (OptKey × OptKind)) (kind : OptKind) : List OptKey :=
  (store.filter fun e => e.2 = kind).map Prod.fst

/-- `_list_buildoptions(coredata)` reduced to (name, section) rows; `store` = `optstore.items()`
(a dict: insertion order).  `sorted(…, key=machine)` before the compiler section is stable. -/
def listBuildoptions (store : List (OptKey × OptKind)) : List (Str × Str) :=
  let comp := (keysOf store .compiler).mergeSort (fun a b => a.machine ≤ b.machine)
  addKeys (keysOf store .core) "core".toList ++
  addKeys (keysOf store .backend) "backend".toList ++
  addKeys (keysOf store .base) "base".toList ++
  addKeys comp "compiler".toList ++
  addKeys (keysOf store .dir) "directory".toList ++
  addKeys ((keysOf store .project).map fun k => if k.sub = some [] then { k with sub := none } else k) "user".toList ++
  addKeys (keysOf store .test) "test".toList

/-- configure, then introspect: the store before compiler initialisation, then the base options in
set-iteration order -/
def introBuildoptions (store : List (OptKey × OptKind)) (baseIter : List OptKey) : List (Str × Str) :=
  listBuildoptions (addBaseOptions store baseIter)

/-! ### `create_test_serialisation`: `depends` and `LD_LIBRARY_PATH` -/

/-- `sorted(x.get_id() for x in depends)` (after 41e7e99) where `depends` is a `set` of targets; the
argument is the set's iteration order, already mapped to target ids -/
def testDepends (dependsIter : List Str) : List Str := sortedStrs dependsIter

/-- `t_env.prepend('LD_LIBRARY_PATH', sorted(ld_lib_path), ':')` on an empty environment;
`ldIter` = iteration order of the `set` of directories -/
def ldLibraryPath (ldIter : List Str) : Str := join [':'] (sortedStrs ldIter)

/-! ### `list_targets`: `dependencies` (names of external deps) -/

inductive DepRef where
  | named (n : Str)       -- dependency found by name: `name` was set by the finder
  | anon (serial : Nat)   -- `declare_dependency()`: `name = f'dep{uuid4().int}'`, the serial-th id minted
  deriving Repr, DecidableEq

def depName (fresh : Nat → Str) : DepRef → Str
  | .named n => n
  | .anon i => "dep".toList ++ fresh i

/-- `'dependencies': [d.name for d in target.external_deps]` -/
def targetDependencies (fresh : Nat → Str) (deps : List DepRef) : List Str := deps.map (depName fresh)

/-! ### `list_install_plan`: `exclude_files` / `exclude_dirs` -/

/-- `entry['exclude_dirs'] = sorted(exclude_dirs)`, `entry['exclude_files'] = sorted(exclude_files)`
(after 41e7e99) — `exclude` holds two `set`s -/
def installPlanExcludes (filesIter dirsIter : List Str) : List Str × List Str :=
  (sortedStrs dirsIter, sortedStrs filesIter)

/-! ### `DepFile.get_all_dependencies` (mesonbuild/depfile.py) — feeds `build_def_files`, hence the
`build build.ninja: REGENERATE_BUILD …` inputs and intro-buildsystem_files.json -/

/-- `set(l)` as a list without repetitions -/
def dedup (l : List Str) : List Str := l.foldr (fun a acc => if a ∈ acc then acc else a :: acc) []

/-- `sorted(set(l))` -/
def sortedSet (l : List Str) : List Str := sortedStrs (dedup l)

/-- `self.depfile`: target ↦ `Target.deps` (a set; the list is its iteration order); `[]` when absent -/
def depsAt (df : List (Str × List Str)) (t : Str) : List Str := (df.lookup t).getD []

/-- the method as written: depth-first walk with a shared `visited` set, every level returns
`sorted(deps)`.  Returns (result, visited).  (`Target` is a one-field NamedTuple, hence always truthy:
only a missing entry returns `[]`.) -/
def allDepsDfs (df : List (Str × List Str)) : Nat → Str → List Str → List Str × List Str
  | 0, _, visited => ([], visited)
  | fuel + 1, name, visited =>
    if name ∈ visited then ([], visited)
    else
      let visited := name :: visited
      match df.lookup name with
      | none => ([], visited)
      | some ds =>
        let st := ds.foldl (fun (st : List Str × List Str) d =>
          let r := allDepsDfs df fuel d st.2
          (st.1 ++ r.1, r.2)) (ds, visited)
        (sortedSet st.1, st.2)

def getAllDependenciesDfs (df : List (Str × List Str)) (name : Str) : List Str :=
  (allDepsDfs df (df.length + 2) name []).1

/-- the same function stated without the walk: the sorted set of the dependencies of every entry
reachable from `name` (`df.length` rounds reach every entry; compared with the walk and with the
implementation on every run) -/
def stepSet (df : List (Str × List Str)) (S : List Str) : List Str := S ++ S.flatMap (depsAt df)

def reachN (df : List (Str × List Str)) : Nat → List Str → List Str
  | 0, S => S
  | n + 1, S => reachN df n (stepSet df S)

def getAllDependencies (df : List (Str × List Str)) (name : Str) : List Str :=
  sortedSet ((reachN df df.length [name]).flatMap (depsAt df))

/-! ### `DependenciesHelper.format_reqs` (modules/pkgconfig.py): the `Requires:` lines of a .pc file -/

/-- `format_vreq`: '>=1.0' becomes '>= 1.0' (first matching operator of the fixed list) -/
def formatVreq (v : Str) : Str :=
  match ([">=", "<=", "!=", "==", "=", ">", "<"].map String.toList).find? (fun op => op.isPrefixOf v) with
  | some op => op ++ [' '] ++ v.drop op.length
  | none => v

/-- `format_reqs(reqs)`: `reqs` is the ordered list of required names; `vreqs name` is the iteration order
of the *set* `version_reqs[name]` (`[]` when absent or empty) -/
def formatReqs (reqs : List Str) (vreqs : Str → List Str) : Str :=
  join ", ".toList (reqs.flatMap fun name =>
    if (vreqs name).isEmpty then [name]
    else (sortedStrs (vreqs name)).map fun v => name ++ [' '] ++ formatVreq v)

/-- on record, not the code: the same without `sorted()` -/
def formatReqsUnsorted (reqs : List Str) (vreqs : Str → List Str) : Str :=
  join ", ".toList (reqs.flatMap fun name =>
    if (vreqs name).isEmpty then [name]
    else (vreqs name).map fun v => name ++ [' '] ++ formatVreq v)

/-! ### the dependency cache key (`get_dep_identifier`) and `GeneratedList.depends` -/

/-- a list-valued keyword of `dependency()` inside the cache key: `tuple(sorted(frozenset(value)))`
(after 0cba8d8); the key is pickled into coredata.dat, so it has to be the same in every process -/
def depIdentifierListValue (value : List Str) : List Str := sortedSet value

/-- on record, not the code: `tuple(frozenset(value))` — `iter` is the order a process iterates the set in -/
def depIdentifierListValueUnsorted (iter : List Str) : List Str := iter

/-- `GeneratedList.depends` is an OrderedSet (after 089f6af): the targets in the order `process()` got them,
first occurrence kept -/
def genlistDepends (added : List Str) : List Str :=
  added.foldl (fun acc a => if a ∈ acc then acc else acc ++ [a]) []

/-! ### cached compiler checks: `Compiler.cached_compile`, `coredata.compiler_check_cache` -/

/-- `CompileResult` as far as verdicts read it -/
structure CheckResult where
  returncode : Int
  stdout : Str
  stderr : Str
  deriving Repr, DecidableEq

def isInfix (p : Str) : Str → Bool
  | [] => p.isEmpty
  | c :: cs => p.isPrefixOf (c :: cs) || isInfix p cs

/-- `GnuLikeCompiler.has_arguments`: exit status, *and* the stderr note GNU compilers print (with exit
status 0) for an option of the other language -/
def gnuHasArguments (langIsC : Bool) (r : CheckResult) : Bool :=
  r.returncode == 0 &&
    !(isInfix (if langIsC then "is valid for C++/ObjC++".toList else "is valid for C/ObjC".toList) r.stderr)

/-- `cached_compile`: the cached result when the key is present, else run the compiler and remember -/
def cachedCompile {K} [DecidableEq K] (cache : List (K × CheckResult)) (run : K → CheckResult) (k : K) :
    CheckResult × List (K × CheckResult) :=
  match cache.lookup k with
  | some r => (r, cache)
  | none => (run k, (k, run k) :: cache)

/-- what the next process finds in coredata.dat: every result through `__getstate__`/`__setstate__` -/
def saveLoad {K} (pickle : CheckResult → CheckResult) (cache : List (K × CheckResult)) : List (K × CheckResult) :=
  cache.map fun e => (e.1, pickle e.2)

/-- the verdict of a check in a fresh build directory … -/
def freshVerdict {K} [DecidableEq K] (v : CheckResult → Bool) (run : K → CheckResult) (k : K) : Bool :=
  v (cachedCompile [] run k).1

/-- … and the verdict of the same check on `setup --reconfigure` (cache written by the fresh run) -/
def reconfigureVerdict {K} [DecidableEq K] (v : CheckResult → Bool) (pickle : CheckResult → CheckResult)
    (run : K → CheckResult) (k : K) : Bool :=
  v (cachedCompile (saveLoad pickle (cachedCompile [] run k).2) run k).1

/-- on record, not the code: a `__getstate__` that drops stderr -/
def dropStderr (r : CheckResult) : CheckResult := { r with stderr := [] }

/-! ### files: `replace_if_different`, `os.replace`, in-place rewrite; a reconfigure -/

structure FileSt where
  content : Str
  mtime : Nat
  mode : Nat := 420        -- permission bits; 420 = 0o644, what `open(p, 'w')` gives a new file
  deriving Repr, DecidableEq

/-- a file system: path ↦ state (first match wins), and a clock that advances on every write -/
structure FS where
  files : List (Str × FileSt)
  clock : Nat
  deriving Repr, DecidableEq

def FS.get (fs : FS) (p : Str) : Option FileSt := fs.files.lookup p

def FS.set (fs : FS) (p : Str) (st : FileSt) : FS :=
  { fs with files := (p, st) :: fs.files.filter (fun e => e.1 ≠ p) }

def FS.remove (fs : FS) (p : Str) : FS :=
  { fs with files := fs.files.filter (fun e => e.1 ≠ p) }

def defaultMode : Nat := 420

/-- the mode a file has after `open(p, 'w')`: truncating keeps the inode's mode, creating gives the default -/
def FS.writeMode (fs : FS) (p : Str) : Nat :=
  match fs.get p with
  | some st => st.mode
  | none => defaultMode

/-- `open(p, 'w').write(c)`: new or truncated file, stamped with the advanced clock -/
def FS.write (fs : FS) (p : Str) (c : Str) : FS :=
  let t := fs.clock + 1
  { (fs.set p ⟨c, t, fs.writeMode p⟩) with clock := t }

/-- `shutil.copymode(src, dst)`: permission bits only; mtime and content stay -/
def FS.copymode (fs : FS) (src dst : Str) : FS :=
  match fs.get src, fs.get dst with
  | some s, some d => fs.set dst { d with mode := s.mode }
  | _, _ => fs

/-- `os.replace(tmp, dst)` (tmp exists) -/
def FS.replace (fs : FS) (tmp dst : Str) : FS :=
  match fs.get tmp with
  | none => fs
  | some st => (fs.remove tmp).set dst st

/-- `replace_if_different(dst, dst_tmp)` -/
def replaceIfDifferent (fs : FS) (dst tmp : Str) : FS :=
  match fs.get dst, fs.get tmp with
  | some d, some t => if d.content = t.content then fs.remove tmp else fs.replace tmp dst
  | none, some _ => fs.replace tmp dst           -- FileNotFoundError → different
  | _, none => fs                                -- (the tmp file always exists in the callers)

def tmpOf (p : Str) : Str := p ++ ['~']

/-- the file part of `do_conf_file(src, dst, …)` as at HEAD: write `dst~`, `shutil.copymode(src, dst~)`,
then `replace_if_different(dst, dst~)` — the comparison looks at contents only -/
def doConfFile (fs : FS) (src dst : Str) (c : Str) : FS :=
  replaceIfDifferent ((fs.write (tmpOf dst) c).copymode src (tmpOf dst)) dst (tmpOf dst)

/-- on record, *not* the code: a `replace_if_different` that also treats a mode mismatch as "different" … -/
def replaceIfDifferentModeSensitive (fs : FS) (dst tmp : Str) : FS :=
  match fs.get dst, fs.get tmp with
  | some d, some t => if d.content = t.content ∧ d.mode = t.mode then fs.remove tmp else fs.replace tmp dst
  | none, some _ => fs.replace tmp dst
  | _, none => fs

/-- … combined with the swapped order (replace first, `copymode(src, dst)` afterwards): the temporary has
the default mode, the existing output the template's mode, so an unchanged output of a template with a
non-default mode is replaced on every run -/
def doConfFileSwapped (fs : FS) (src dst : Str) (c : Str) : FS :=
  (replaceIfDifferentModeSensitive (fs.write (tmpOf dst) c) dst (tmpOf dst)).copymode src dst

/-- the three ways configure-time writers put text on disk -/
inductive Writer where
  | viaReplaceIfDifferent   -- configure_file, dump_conf_header, cmake package files, pch,
                            -- and (after 880fde3) pkg-config files and depmf.json
  | viaReplace              -- build.ninja (`build.ninja~` → os.replace), write_intro_info (tmp_dump.json → os.replace)
  | inPlace                 -- compile_commands.json (`open(…, 'wb')` in generate_compdb), cmd_line.txt
  deriving Repr, DecidableEq

def writeOut (fs : FS) (w : Writer) (p : Str) (c : Str) : FS :=
  match w with
  | .viaReplaceIfDifferent => replaceIfDifferent (fs.write (tmpOf p) c) p (tmpOf p)
  | .viaReplace => (fs.write (tmpOf p) c).replace (tmpOf p) p
  | .inPlace => fs.write p c

/-- a configuration run as far as the file system is concerned: the outputs it writes, in order -/
def configure (fs : FS) (outs : List (Writer × Str × Str)) : FS :=
  outs.foldl (fun fs o => writeOut fs o.1 o.2.1 o.2.2) fs

end MesonModel.Det
