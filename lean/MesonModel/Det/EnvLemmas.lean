/-
Lemmas for the environment part of the C06 model: dictionaries read through `.get` only are compared as
mappings (`DictEq`); extending different keys commutes; the loops of `_set_default_options_from_env`
respect `DictEq`, hence the iteration order of the language sets does not reach any value.
-/
import MesonModel.Det.FsLemmas
import MesonModel.Det.EnvModel

namespace MesonModel.Det
open List

/-- two dicts that answer every `.get(key)` alike -/
def DictEq (d₁ d₂ : OptDict) : Prop := ∀ k, d₁.lookup k = d₂.lookup k

theorem DictEq.rfl' (d : OptDict) : DictEq d d := fun _ => rfl

theorem DictEq.trans' {a b c : OptDict} (h₁ : DictEq a b) (h₂ : DictEq b c) : DictEq a c :=
  fun k => (h₁ k).trans (h₂ k)

theorem lookup_dictExtend (d : OptDict) (k k' : OptKey) (p : List Str) :
    (dictExtend d k p).lookup k' = if k' = k then some ((d.lookup k).getD [] ++ p) else d.lookup k' := by
  induction d with
  | nil =>
    by_cases h : k' = k
    · subst h; simp [dictExtend]
    · have : (k' == k) = false := by simp [h]
      simp [dictExtend, lookup_cons, this, h]
  | cons e es ih =>
    obtain ⟨k₀, v⟩ := e
    by_cases h0 : k₀ = k
    · subst h0
      by_cases h : k' = k₀
      · subst h; simp [dictExtend]
      · have : (k' == k₀) = false := by simp [h]
        simp [dictExtend, lookup_cons, this, h]
    · have h0' : (k == k₀) = false := by simp; exact fun e => h0 e.symm
      by_cases h : k' = k₀
      · subst h
        simp [dictExtend, h0]
      · have e1 : (k' == k₀) = false := by simp [h]
        simp only [dictExtend, h0, if_false, lookup_cons, e1, h0']
        exact ih

theorem lookup_dictDel (d : OptDict) (k k' : OptKey) :
    (dictDel d k).lookup k' = if k' = k then none else d.lookup k' := by
  unfold dictDel
  induction d with
  | nil => simp
  | cons e es ih =>
    obtain ⟨k₀, v⟩ := e
    by_cases h0 : k₀ = k
    · subst h0
      by_cases h : k' = k₀
      · subst h; simpa using ih
      · have : (k' == k₀) = false := by simp [h]
        simp only [ne_eq, not_true_eq_false, decide_false, Bool.false_eq_true, not_false_eq_true,
          filter_cons_of_neg, lookup_cons, this]
        simpa [h] using ih
    · have hf : filter (fun e : OptKey × List Str => decide (e.1 ≠ k)) ((k₀, v) :: es)
          = (k₀, v) :: filter (fun e : OptKey × List Str => decide (e.1 ≠ k)) es := by
        simp [filter_cons, h0]
      rw [hf]
      by_cases h : k' = k₀
      · subst h; simp [h0]
      · have : (k' == k₀) = false := by simp [h]
        simp only [lookup_cons, this]
        exact ih

theorem dictExtend_congr {d₁ d₂ : OptDict} (h : DictEq d₁ d₂) (k : OptKey) (p : List Str) :
    DictEq (dictExtend d₁ k p) (dictExtend d₂ k p) := by
  intro k'
  rw [lookup_dictExtend, lookup_dictExtend, h k, h k']

/-- extending two keys by the same list commutes (as mappings) -/
theorem dictExtend_comm (d : OptDict) (k₁ k₂ : OptKey) (p : List Str) :
    DictEq (dictExtend (dictExtend d k₁ p) k₂ p) (dictExtend (dictExtend d k₂ p) k₁ p) := by
  intro k'
  by_cases a : k₁ = k₂
  · subst a; rfl
  · have a' : ¬ k₂ = k₁ := fun e => a e.symm
    simp only [lookup_dictExtend]
    by_cases b : k' = k₁
    · subst b; simp [a, a']
    · by_cases c : k' = k₂
      · subst c; simp [a, a']
      · simp [b, c]

theorem foldl_dictExtend_congr (f : Str → OptKey) (p : List Str) (l : List Str) {d₁ d₂ : OptDict}
    (h : DictEq d₁ d₂) :
    DictEq (l.foldl (fun d x => dictExtend d (f x) p) d₁) (l.foldl (fun d x => dictExtend d (f x) p) d₂) := by
  induction l generalizing d₁ d₂ with
  | nil => exact h
  | cons x l ih => exact ih (dictExtend_congr h _ _)

/-- `for lang in <set>: env_opts[key(lang)].extend(p)`: the resulting mapping does not depend on the order
in which the set is iterated -/
theorem foldl_dictExtend_perm (f : Str → OptKey) (p : List Str) {l₁ l₂ : List Str} (pl : l₁ ~ l₂)
    {d₁ d₂ : OptDict} (h : DictEq d₁ d₂) :
    DictEq (l₁.foldl (fun d x => dictExtend d (f x) p) d₁) (l₂.foldl (fun d x => dictExtend d (f x) p) d₂) := by
  induction pl generalizing d₁ d₂ with
  | nil => exact h
  | cons x _ ih => exact ih (dictExtend_congr h _ _)
  | swap x y l =>
    simp only [foldl_cons]
    apply foldl_dictExtend_congr
    exact (dictExtend_comm d₁ (f y) (f x) p).trans' (dictExtend_congr (dictExtend_congr h _ _) _ _)
  | trans _ _ ih₁ ih₂ => exact (ih₁ h).trans' (ih₂ (DictEq.rfl' _))

/-- the configuration with the two language sets iterated in another order -/
def EnvCfg.reorder (c : EnvCfg) (ld cpp : List Str) : EnvCfg := { c with ldLangs := ld, cppLangs := cpp }

theorem envStep_congr (c : EnvCfg) {ld cpp : List Str} (pl : c.ldLangs ~ ld) (pc : c.cppLangs ~ cpp)
    (look : Str → Option Str) {d₁ d₂ : OptDict} (h : DictEq d₁ d₂) (o : (Str × Str) × Nat) :
    DictEq (envStep c look d₁ o) (envStep (c.reorder ld cpp) look d₂ o) := by
  unfold envStep
  simp only [EnvCfg.reorder]
  cases getEnvVarL look c.isCross o.2 o.1.1 with
  | none => exact h
  | some v =>
    simp only []
    have hp : parseEnvValue { c with ldLangs := ld, cppLangs := cpp } o.2 o.1.2 v = parseEnvValue c o.2 o.1.2 v := rfl
    rw [hp]
    by_cases f : c.firstInvocation = true
    · simp only [f, Bool.not_true, Bool.false_eq_true, if_false]
      by_cases a : o.1.2 = "ldflags".toList
      · simp only [a, if_true]
        exact foldl_dictExtend_perm _ _ pl h
      · simp only [a, if_false]
        by_cases b : o.1.2 = "cppflags".toList
        · simp only [b, if_true]
          exact foldl_dictExtend_perm _ _ pc h
        · simp only [b, if_false]
          exact dictExtend_congr h _ _
    · have f' : c.firstInvocation = false := by simpa using f
      simp only [f', Bool.not_false, if_true]
      exact h

theorem foldl_envStep_congr (c : EnvCfg) {ld cpp : List Str} (pl : c.ldLangs ~ ld) (pc : c.cppLangs ~ cpp)
    (look : Str → Option Str) (l : List ((Str × Str) × Nat)) {d₁ d₂ : OptDict} (h : DictEq d₁ d₂) :
    DictEq (l.foldl (envStep c look) d₁) (l.foldl (envStep (c.reorder ld cpp) look) d₂) := by
  induction l generalizing d₁ d₂ with
  | nil => exact h
  | cons o l ih => exact ih (envStep_congr c pl pc look h o)

theorem moveStep_congr (opts : OptDict) {e₁ e₂ : OptDict} (h : DictEq e₁ e₂) (o : (Str × Str) × Nat) :
    (moveStep (opts, e₁) o).1 = (moveStep (opts, e₂) o).1 ∧
    DictEq (moveStep (opts, e₁) o).2 (moveStep (opts, e₂) o).2 := by
  unfold moveStep
  simp only []
  rw [h (envKey o.2 o.1.2)]
  cases e₂.lookup (envKey o.2 o.1.2) with
  | none => exact ⟨rfl, h⟩
  | some v =>
    simp only []
    by_cases g : hasKey opts (envKey o.2 o.1.2) = true
    · simp only [g, if_true]; exact ⟨trivial, h⟩
    · have g' : hasKey opts (envKey o.2 o.1.2) = false := by simpa using g
      simp only [g', Bool.false_eq_true, if_false]
      refine ⟨trivial, ?_⟩
      intro k
      rw [lookup_dictDel, lookup_dictDel, h k]

theorem foldl_moveStep_congr (l : List ((Str × Str) × Nat)) (opts : OptDict) {e₁ e₂ : OptDict}
    (h : DictEq e₁ e₂) :
    (l.foldl moveStep (opts, e₁)).1 = (l.foldl moveStep (opts, e₂)).1 ∧
    DictEq (l.foldl moveStep (opts, e₁)).2 (l.foldl moveStep (opts, e₂)).2 := by
  induction l generalizing opts e₁ e₂ with
  | nil => exact ⟨rfl, h⟩
  | cons o l ih =>
    simp only [foldl_cons]
    obtain ⟨a, b⟩ := moveStep_congr opts h o
    have e1 : moveStep (opts, e₁) o = ((moveStep (opts, e₁) o).1, (moveStep (opts, e₁) o).2) := rfl
    have e2 : moveStep (opts, e₂) o = ((moveStep (opts, e₁) o).1, (moveStep (opts, e₂) o).2) := by rw [a]
    rw [e1, e2]
    exact ih _ b

/-- `sorted(s)` of a set given by two enumerations without repetitions -/
theorem sortedStrs_set_ext {l₁ l₂ : List Str} (n₁ : l₁.Nodup) (n₂ : l₂.Nodup) (h : ∀ x, x ∈ l₁ ↔ x ∈ l₂) :
    sortedStrs l₁ = sortedStrs l₂ :=
  sortedStrs_perm ((perm_ext_iff_of_nodup n₁ n₂).mpr h)

end MesonModel.Det
