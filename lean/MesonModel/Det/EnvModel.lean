/-
C06 — model of the code that turns *environment variables* into option values and compiler / linker
arguments, and of two more emitters that print a Python `set`.

`os.environ` is an association list with unique names: the order of the list is the order in which the
process enumerates its variables (`envp` order).  Python sets (`LANGUAGES_USING_LDFLAGS`,
`LANGUAGES_USING_CPPFLAGS`, `rpath_dirs_to_remove`, `infiles`) are lists standing for the iteration order the
run happened to get.  "Independent of the order of environment variables / of hash randomisation" is
invariance under `List.Perm` of those arguments.

Python sources mirrored (pinned in harness/c06.py):
  mesonbuild/environment.py           _get_env_var, Environment._set_default_options_from_env,
                                      Environment.add_lang_args, NON_LANG_ENV_OPTIONS
  mesonbuild/compilers/compilers.py   CFLAGS_MAPPING, LANGUAGES_USING_LDFLAGS, LANGUAGES_USING_CPPFLAGS
                                      (tables: parameters of the model, passed from the live module on every run)
  mesonbuild/mintro.py                list_install_plan: `build_rpaths`
  mesonbuild/backend/ninjabackend.py  NinjaBackend.generate_dependency_scan_target: the `depaccumulate` statement
Core Lean only (no Mathlib): compiled into the native driver.
-/
import MesonModel.Det.Model

namespace MesonModel.Det

/-- `os.environ`: name ↦ value, names distinct; list order = enumeration order of the process environment -/
abbrev EnvMap := List (Str × Str)

/-- a Python dict `OptionKey ↦ list[str]` in insertion order -/
abbrev OptDict := List (OptKey × List Str)

/-- `_get_env_var(for_machine, is_cross, var_name)` stated over `os.environ.get`: the candidates are
`[var + '_FOR_BUILD']` for the build machine of a cross build, `[var]` otherwise; first one with a value.
`machine`: MachineChoice.BUILD = 0, HOST = 1. -/
def getEnvVarL (look : Str → Option Str) (isCross : Bool) (machine : Nat) (var : Str) : Option Str :=
  let candidates := if machine = 0 then (if isCross then [var ++ "_FOR_BUILD".toList] else [var]) else [var]
  candidates.findSome? look

/-- `str.split(sep)` / `re.split(':|;', s)`: cut at every separator, empty fields kept -/
def splitOnChars (seps : List Char) (s : Str) : List Str :=
  let r := s.foldr (fun c (acc : Str × List Str) =>
    if c ∈ seps then ([], acc.1 :: acc.2) else (c :: acc.1, acc.2)) ([], [])
  r.1 :: r.2

/-- `list(OrderedSet(l))`: first occurrence kept -/
def orderedSet (l : List Str) : List Str := genlistDepends l

/-- the constant tables and the per-run facts `_set_default_options_from_env` reads besides `os.environ` -/
structure EnvCfg where
  isCross : Bool
  firstInvocation : Bool
  /-- `self.machines[for_machine].is_windows()` -/
  isWindows : Nat → Bool
  /-- `os.pathsep` -/
  pathsep : Char
  /-- `split_args` (shlex; opaque: passed as a table by the tie) -/
  split : Str → List Str
  /-- `CFLAGS_MAPPING.items()`: (language, variable) in dict order -/
  langFlags : List (Str × Str)
  /-- `NON_LANG_ENV_OPTIONS`: (variable, key name) -/
  nonLang : List (Str × Str)
  /-- iteration order of the *set* `LANGUAGES_USING_LDFLAGS` -/
  ldLangs : List Str
  /-- iteration order of the *set* `LANGUAGES_USING_CPPFLAGS` -/
  cppLangs : List Str

/-- value of one variable → list of strings, as in the loop body (duplicates of the path variables removed,
empty elements filtered out) -/
def parseEnvValue (c : EnvCfg) (machine : Nat) (keyname : Str) (v : Str) : List Str :=
  let l :=
    if keyname = "cmake_prefix_path".toList then
      orderedSet (if c.isWindows machine then splitOnChars [c.pathsep] v else splitOnChars [':', ';'] v)
    else if keyname = "pkg_config_path".toList then orderedSet (splitOnChars [c.pathsep] v)
    else c.split v
  l.filter (fun e => !e.isEmpty)

/-- `env_opts[key].extend(p)` on a `defaultdict(list)`: in place when the key is there, else a new last entry -/
def dictExtend : OptDict → OptKey → List Str → OptDict
  | [], k, p => [(k, p)]
  | (k', v) :: d, k, p => if k' = k then (k', v ++ p) :: d else (k', v) :: dictExtend d k p

/-- `del d[key]` -/
def dictDel (d : OptDict) (k : OptKey) : OptDict := d.filter (fun e => e.1 ≠ k)

def hasKey (d : OptDict) (k : OptKey) : Bool := (d.lookup k).isSome

/-- `OptionKey(name, machine=for_machine)` (no subproject; the key names of the tables are plain names —
the tie checks that on the live tables) -/
def envKey (machine : Nat) (name : Str) : OptKey := ⟨none, machine, name⟩

/-- `opts`: `[(v, f'{k}_args') for k, v in CFLAGS_MAPPING.items()] + NON_LANG_ENV_OPTIONS` -/
def envOptsTable (c : EnvCfg) : List (Str × Str) :=
  c.langFlags.map (fun e => (e.2, e.1 ++ "_args".toList)) ++ c.nonLang

/-- `itertools.product(l, MachineChoice)` -/
def withMachines {α} (l : List α) : List (α × Nat) := l.flatMap fun x => [(x, 0), (x, 1)]

/-- body of the first loop for one `((evar, keyname), for_machine)` -/
def envStep (c : EnvCfg) (look : Str → Option Str) (d : OptDict) (o : (Str × Str) × Nat) : OptDict :=
  match getEnvVarL look c.isCross o.2 o.1.1 with
  | none => d
  | some v =>
    let p := parseEnvValue c o.2 o.1.2 v
    if !c.firstInvocation then d
    else if o.1.2 = "ldflags".toList then
      c.ldLangs.foldl (fun d lang => dictExtend d (envKey o.2 (lang ++ "_link_args".toList)) p) d
    else if o.1.2 = "cppflags".toList then
      c.cppLangs.foldl (fun d lang => dictExtend d (envKey o.2 (lang ++ "_args".toList)) p) d
    else dictExtend d (envKey o.2 o.1.2) p

/-- body of the second loop: a non-language option found in the environment moves to `self.options` unless
a machine file / the command line already set it.  State: (`self.options`, `env_opts`). -/
def moveStep (st : OptDict × OptDict) (o : (Str × Str) × Nat) : OptDict × OptDict :=
  let key := envKey o.2 o.1.2
  match st.2.lookup key with
  | some v => if hasKey st.1 key then st else (st.1 ++ [(key, v)], dictDel st.2 key)
  | none => st

/-- `Environment._set_default_options_from_env` over `os.environ.get` (`look`): returns (`self.options`,
`self.env_opts`) — `self.env_opts` is `{}` at the only call site (`Environment.__init__`), so the final
`self.env_opts.update(env_opts)` makes it a copy of `env_opts` in the same order. -/
def setDefaultOptionsFromEnvL (c : EnvCfg) (look : Str → Option Str) (options : OptDict) : OptDict × OptDict :=
  let envOpts := (withMachines (envOptsTable c)).foldl (envStep c look) []
  (withMachines c.nonLang).foldl moveStep (options, envOpts)

/-- the function on the process environment as enumerated -/
def setDefaultOptionsFromEnv (c : EnvCfg) (env : EnvMap) (options : OptDict) : OptDict × OptDict :=
  setDefaultOptionsFromEnvL c (fun k => env.lookup k) options

/-- on record, *not* the code (the shape of a seeded change that was caught by the whole-system leg only):
walk `os.environ` once and handle the known variables that are present, in the order they are met
(`_FOR_BUILD` suffix stripped, first occurrence kept) -/
def envOptsTableWalk (c : EnvCfg) (env : EnvMap) : List (Str × Str) :=
  let strip := fun (n : Str) =>
    if "_FOR_BUILD".toList.isSuffixOf n then n.take (n.length - 10) else n
  (orderedSet (env.map fun e => strip e.1)).filterMap fun n =>
    ((envOptsTable c).lookup n).map fun k => (n, k)

def setDefaultOptionsFromEnvWalk (c : EnvCfg) (env : EnvMap) (options : OptDict) : OptDict × OptDict :=
  let envOpts := (withMachines (envOptsTableWalk c env)).foldl (envStep c (fun k => env.lookup k)) []
  (withMachines c.nonLang).foldl moveStep (options, envOpts)

/-! ### `Environment.add_lang_args`: `<lang>_args` / `<lang>_link_args` of one language and machine -/

/-- `pendingArgs` / `pendingLink`: `optstore.get_pending_value(key)` (command line, machine file; `none` when
nothing is pending); `envOpts`: `self.env_opts`, read with `.get(key, [])` only; `linkerDriver`:
`comp.USED_FOR_SEPARATE_LINKING_STEP`.  Returns (`<lang>_args`, `<lang>_link_args`). -/
def addLangArgs (pendingArgs pendingLink : Option (List Str)) (envOpts : OptDict) (lang : Str) (machine : Nat)
    (linkerDriver : Bool) : List Str × List Str :=
  let comp := match pendingArgs with
    | some v => v
    | none => (envOpts.lookup (envKey machine (lang ++ "_args".toList))).getD []
  let link := match pendingLink with
    | some v => v
    | none => (envOpts.lookup (envKey machine (lang ++ "_link_args".toList))).getD []
  (comp, if linkerDriver && pendingArgs.isNone then link ++ comp else link)

/-- environment → arguments of a language, end to end (nothing pending for it) -/
def langArgsFromEnv (c : EnvCfg) (env : EnvMap) (lang : Str) (machine : Nat) (linkerDriver : Bool) :
    List Str × List Str :=
  addLangArgs none none (setDefaultOptionsFromEnv c env []).2 lang machine linkerDriver

/-! ### two more emitters that print a set -/

/-- `list_install_plan`: `'build_rpaths': sorted(x.decode('utf8') for x in target.rpath_dirs_to_remove)`;
the argument is the iteration order of the set (of bytes; decoding is injective on valid UTF-8) -/
def installPlanBuildRpaths (removeIter : List Str) : List Str := sortedStrs removeIter

/-- `generate_dependency_scan_target`, the `depaccumulate` statement: `infiles` is a set filled from the linked
targets (`linkedIter`: their scan files in visiting order, repetitions possible) and updated with a set
comprehension over the object dependencies (`odIter`); inputs are `[json_file] + sorted(infiles)` -/
def depaccumulateInputs (jsonFile : Str) (linkedIter odIter : List Str) : List Str :=
  jsonFile :: sortedSet (linkedIter ++ odIter)

def depaccumulateLine (depscanFile jsonFile : Str) (linkedIter odIter : List Str) : Except EmitError Str :=
  buildLine { outs := [depscanFile], implicitOuts := [], rule := "depaccumulate".toList, useRsp := false,
              ins := depaccumulateInputs jsonFile linkedIter odIter, deps := [], orderdeps := [] }

/-! ### the tables as they are in the source (compared with the live modules on every run: driver command
`envtable`; a difference is a failed obligation) -/

def liveLangFlags : List (Str × Str) :=
  [("c", "CFLAGS"), ("cpp", "CXXFLAGS"), ("cuda", "CUFLAGS"), ("objc", "OBJCFLAGS"), ("objcpp", "OBJCXXFLAGS"),
   ("fortran", "FFLAGS"), ("d", "DFLAGS"), ("vala", "VALAFLAGS"), ("rust", "RUSTFLAGS"), ("cython", "CYTHONFLAGS"),
   ("cs", "CSFLAGS")].map fun e => (e.1.toList, e.2.toList)

def liveNonLang : List (Str × Str) :=
  [("PKG_CONFIG_PATH", "pkg_config_path"), ("CMAKE_PREFIX_PATH", "cmake_prefix_path"), ("LDFLAGS", "ldflags"),
   ("CPPFLAGS", "cppflags")].map fun e => (e.1.toList, e.2.toList)

/-- members of the set `LANGUAGES_USING_LDFLAGS`, in the order of the source text -/
def liveLdLangs : List Str := ["objcpp", "cpp", "objc", "c", "fortran", "d", "cuda"].map String.toList

/-- members of the set `LANGUAGES_USING_CPPFLAGS`, in the order of the source text -/
def liveCppLangs : List Str := ["c", "cpp", "objc", "objcpp"].map String.toList

/-- a native first configuration on a POSIX machine with the live tables; `split_args` stands in as
"cut at blanks" (exact for values without quotes and backslashes) -/
def liveCfg : EnvCfg :=
  { isCross := false, firstInvocation := true, isWindows := fun _ => false, pathsep := ':',
    split := splitOnChars [' '], langFlags := liveLangFlags, nonLang := liveNonLang,
    ldLangs := liveLdLangs, cppLangs := liveCppLangs }

end MesonModel.Det
