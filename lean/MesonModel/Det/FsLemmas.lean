/-
File-system lemmas for the C06 model: what each configure-time writer does to `FS.get`.
-/
import MesonModel.Det.Lemmas

namespace MesonModel.Det
open List

theorem lookup_filter_ne (l : List (Str × FileSt)) (p q : Str) :
    (l.filter (fun e => e.1 ≠ p)).lookup q = if q = p then none else l.lookup q := by
  induction l with
  | nil => simp
  | cons e es ih =>
    obtain ⟨k, v⟩ := e
    by_cases hk : k = p
    · subst hk
      by_cases hq : q = k
      · subst hq; simpa using ih
      · have : (q == k) = false := by simp [hq]
        simp only [ne_eq, not_true_eq_false, decide_false, Bool.false_eq_true, not_false_eq_true,
          filter_cons_of_neg, lookup_cons, this]
        simpa [hq] using ih
    · have hf : filter (fun e : Str × FileSt => decide (e.1 ≠ p)) ((k, v) :: es)
          = (k, v) :: filter (fun e : Str × FileSt => decide (e.1 ≠ p)) es := by
        simp [filter_cons, hk]
      rw [hf]
      by_cases hq : q = k
      · subst hq; simp [hk]
      · have : (q == k) = false := by simp [hq]
        simp only [lookup_cons, this]
        exact ih

@[simp] theorem get_set (fs : FS) (p q : Str) (st : FileSt) :
    (fs.set p st).get q = if q = p then some st else fs.get q := by
  unfold FS.set FS.get
  by_cases h : q = p
  · subst h; simp
  · have : (q == p) = false := by simp [h]
    simp only [lookup_cons, this, h, if_false]
    rw [lookup_filter_ne]; simp [h]

@[simp] theorem get_remove (fs : FS) (p q : Str) :
    (fs.remove p).get q = if q = p then none else fs.get q := by
  unfold FS.remove FS.get
  exact lookup_filter_ne _ _ _

@[simp] theorem get_write (fs : FS) (p q c : Str) :
    (fs.write p c).get q = if q = p then some ⟨c, fs.clock + 1, fs.writeMode p⟩ else fs.get q := by
  unfold FS.write
  have : ∀ (g : FS) (n : Nat), ({ g with clock := n } : FS).get q = g.get q := fun _ _ => rfl
  rw [this, get_set]

@[simp] theorem clock_write (fs : FS) (p c : Str) : (fs.write p c).clock = fs.clock + 1 := rfl
@[simp] theorem clock_set (fs : FS) (p : Str) (st : FileSt) : (fs.set p st).clock = fs.clock := rfl
@[simp] theorem clock_remove (fs : FS) (p : Str) : (fs.remove p).clock = fs.clock := rfl

theorem get_replace (fs : FS) (tmp dst q : Str) (st : FileSt) (h : fs.get tmp = some st) :
    (fs.replace tmp dst).get q = if q = dst then some st else if q = tmp then none else fs.get q := by
  unfold FS.replace
  rw [h]; simp

theorem tmpOf_ne (p : Str) : tmpOf p ≠ p := by
  intro h
  have := congrArg List.length h
  simp [tmpOf] at this

/-- `replace_if_different` seen through `get`, when both files exist -/
theorem get_replaceIfDifferent (fs : FS) (dst tmp q : Str) (d t : FileSt)
    (hd : fs.get dst = some d) (ht : fs.get tmp = some t) (hne : tmp ≠ dst) :
    (replaceIfDifferent fs dst tmp).get q =
      if q = tmp then none
      else if q = dst then (if d.content = t.content then some d else some t)
      else fs.get q := by
  unfold replaceIfDifferent
  rw [hd, ht]
  by_cases hc : d.content = t.content
  · simp only [hc, if_true, get_remove]
    by_cases h1 : q = tmp
    · simp [h1]
    · by_cases h2 : q = dst
      · subst h2; simp [h1, hd]
      · simp [h1, h2]
  · simp only [hc, if_false]
    rw [get_replace _ _ _ _ t ht]
    by_cases h2 : q = dst
    · subst h2
      have : ¬ q = tmp := fun e => hne e.symm
      simp [this]
    · simp [h2]

theorem get_replaceIfDifferent_new (fs : FS) (dst tmp q : Str) (t : FileSt)
    (hd : fs.get dst = none) (ht : fs.get tmp = some t) :
    (replaceIfDifferent fs dst tmp).get q =
      if q = dst then some t else if q = tmp then none else fs.get q := by
  unfold replaceIfDifferent
  rw [hd, ht]
  exact get_replace _ _ _ _ t ht

/-- every writer, seen through `get`, on a file that already exists and with no stale tmp file -/
theorem get_writeOut (fs : FS) (w : Writer) (p c q : Str) (old : FileSt)
    (hp : fs.get p = some old) :
    (writeOut fs w p c).get q =
      match w with
      | .viaReplaceIfDifferent =>
        if q = tmpOf p then none
        else if q = p then (if old.content = c then some old else some ⟨c, fs.clock + 1, fs.writeMode (tmpOf p)⟩)
        else fs.get q
      | .viaReplace =>
        if q = p then some ⟨c, fs.clock + 1, fs.writeMode (tmpOf p)⟩ else if q = tmpOf p then none else fs.get q
      | .inPlace => if q = p then some ⟨c, fs.clock + 1, fs.writeMode p⟩ else fs.get q := by
  have hne := tmpOf_ne p
  cases w with
  | viaReplaceIfDifferent =>
    simp only [writeOut]
    have h1 : (fs.write (tmpOf p) c).get p = some old := by
      have : ¬ p = tmpOf p := fun e => hne e.symm
      rw [get_write]; simp [this, hp]
    have h2 : (fs.write (tmpOf p) c).get (tmpOf p) = some ⟨c, fs.clock + 1, fs.writeMode (tmpOf p)⟩ := by
      rw [get_write]; simp
    rw [get_replaceIfDifferent _ _ _ _ old ⟨c, fs.clock + 1, fs.writeMode (tmpOf p)⟩ h1 h2 hne]
    by_cases a : q = tmpOf p
    · simp [a]
    · by_cases b : q = p
      · simp [a, b]
      · simp [a, b, get_write]
  | viaReplace =>
    simp only [writeOut]
    have h2 : (fs.write (tmpOf p) c).get (tmpOf p) = some ⟨c, fs.clock + 1, fs.writeMode (tmpOf p)⟩ := by
      rw [get_write]; simp
    rw [get_replace _ _ _ _ _ h2]
    by_cases b : q = p
    · simp [b]
    · by_cases a : q = tmpOf p
      · simp [a, b]
      · simp [a, b, get_write]
  | inPlace => simp only [writeOut, get_write]

theorem get_copymode (fs : FS) (src dst q : Str) (s d : FileSt) (hs : fs.get src = some s) (hd : fs.get dst = some d) :
    (fs.copymode src dst).get q = if q = dst then some { d with mode := s.mode } else fs.get q := by
  unfold FS.copymode
  rw [hs, hd]
  simp

@[simp] theorem clock_copymode (fs : FS) (src dst : Str) : (fs.copymode src dst).clock = fs.clock := by
  unfold FS.copymode
  split <;> rfl

end MesonModel.Det
