/-
Helper lemmas for the C06 model: Python string order is a total order, sorting with a total order
forgets the input order (`Perm` ⇒ equal results), dict lookups do not depend on item order.
-/
import MesonModel.Det.Model

namespace MesonModel.Det
open List

/-- a total (linear) preorder given as a Bool-valued `≤` that is antisymmetric -/
structure TotalLe {α} (le : α → α → Bool) : Prop where
  total : ∀ a b, (le a b || le b a) = true
  trans : ∀ a b c, le a b = true → le b c = true → le a c = true
  antisymm : ∀ a b, le a b = true → le b a = true → a = b

/-! ### strLe -/

theorem strLe_refl (a : Str) : strLe a a = true := by
  induction a with
  | nil => rfl
  | cons x xs ih => simp [strLe, ih]

theorem strLe_total' (a b : Str) : (strLe a b || strLe b a) = true := by
  induction a generalizing b with
  | nil => simp [strLe]
  | cons x xs ih =>
    cases b with
    | nil => simp [strLe]
    | cons y ys =>
      simp only [strLe]
      by_cases h1 : x.toNat < y.toNat
      · simp [h1]
      · by_cases h2 : y.toNat < x.toNat
        · simp [h1, h2]
        · simp only [h1, h2, if_false]; exact ih ys

theorem strLe_trans' (a b c : Str) : strLe a b = true → strLe b c = true → strLe a c = true := by
  induction a generalizing b c with
  | nil => intros; simp [strLe]
  | cons x xs ih =>
    cases b with
    | nil => simp [strLe]
    | cons y ys =>
      cases c with
      | nil => simp [strLe]
      | cons z zs =>
        simp only [strLe]
        intro h1 h2
        by_cases xy : x.toNat < y.toNat
        · by_cases yz : y.toNat < z.toNat
          · have : x.toNat < z.toNat := by omega
            simp [this]
          · by_cases zy : z.toNat < y.toNat
            · simp [yz, zy] at h2
            · have : x.toNat < z.toNat := by omega
              simp [this]
        · by_cases yx : y.toNat < x.toNat
          · simp [xy, yx] at h1
          · simp only [xy, yx, if_false] at h1
            have exy : x.toNat = y.toNat := by omega
            by_cases yz : y.toNat < z.toNat
            · have : x.toNat < z.toNat := by omega
              simp [this]
            · by_cases zy : z.toNat < y.toNat
              · simp [yz, zy] at h2
              · simp only [yz, zy, if_false] at h2
                have h3 : ¬ x.toNat < z.toNat := by omega
                have h4 : ¬ z.toNat < x.toNat := by omega
                simp only [h3, h4, if_false]
                exact ih ys zs h1 h2

theorem strLe_antisymm' (a b : Str) : strLe a b = true → strLe b a = true → a = b := by
  induction a generalizing b with
  | nil => cases b <;> simp [strLe]
  | cons x xs ih =>
    cases b with
    | nil => simp [strLe]
    | cons y ys =>
      simp only [strLe]
      intro h1 h2
      by_cases xy : x.toNat < y.toNat
      · have : ¬ y.toNat < x.toNat := by omega
        simp [xy, this] at h2
      · by_cases yx : y.toNat < x.toNat
        · simp [xy, yx] at h1
        · simp only [xy, yx, if_false] at h1 h2
          have : x = y := Char.toNat_inj.mp (by omega)
          rw [this, ih ys h1 h2]

theorem strLe_totalLe : TotalLe strLe := ⟨strLe_total', strLe_trans', strLe_antisymm'⟩

/-! ### sorting forgets the input order -/

theorem mergeSort_eq_of_perm {α} {le : α → α → Bool} (h : TotalLe le) {l₁ l₂ : List α}
    (p : l₁ ~ l₂) : l₁.mergeSort le = l₂.mergeSort le := by
  apply Perm.eq_of_pairwise (le := fun a b => le a b = true)
  · intro a b _ _ hab hba; exact h.antisymm a b hab hba
  · exact pairwise_mergeSort h.trans h.total l₁
  · exact pairwise_mergeSort h.trans h.total l₂
  · exact (mergeSort_perm l₁ le).trans (p.trans (mergeSort_perm l₂ le).symm)

theorem sortedStrs_perm {l₁ l₂ : List Str} (p : l₁ ~ l₂) : sortedStrs l₁ = sortedStrs l₂ :=
  mergeSort_eq_of_perm strLe_totalLe p

theorem sortedStrs_perm_self (l : List Str) : sortedStrs l ~ l := mergeSort_perm l strLe

theorem pySortedBy_perm_self {α} (lt : α → α → Bool) (l : List α) : pySortedBy lt l ~ l :=
  mergeSort_perm l _

/-! ### dict lookups do not depend on item order -/

theorem lookup_eq_some_iff_mem {α β} [BEq α] [LawfulBEq α] {l : List (α × β)}
    (nd : (l.map Prod.fst).Nodup) (k : α) (v : β) : l.lookup k = some v ↔ (k, v) ∈ l := by
  induction l with
  | nil => simp
  | cons e es ih =>
    obtain ⟨k', v'⟩ := e
    simp only [map_cons, nodup_cons] at nd
    by_cases hk : k = k'
    · subst hk
      simp only [lookup_cons_self, Option.some.injEq, mem_cons, Prod.mk.injEq, true_and]
      constructor
      · intro h; exact Or.inl h.symm
      · rintro (h | h)
        · exact h.symm
        · exact absurd (mem_map_of_mem (f := Prod.fst) h) nd.1
    · have : (k == k') = false := by simp [hk]
      rw [lookup_cons, this]
      simp only [mem_cons, Prod.mk.injEq, hk, false_and, false_or]
      exact ih nd.2

theorem lookup_perm {α β} [BEq α] [LawfulBEq α] {l₁ l₂ : List (α × β)}
    (nd : (l₁.map Prod.fst).Nodup) (p : l₁ ~ l₂) (k : α) : l₁.lookup k = l₂.lookup k := by
  have nd₂ : (l₂.map Prod.fst).Nodup := (p.map Prod.fst).nodup_iff.mp nd
  apply Option.ext
  intro v
  rw [lookup_eq_some_iff_mem nd, lookup_eq_some_iff_mem nd₂]
  exact p.mem_iff

/-! ### lexicographic products of total orders (for the option-key order) -/

def lexLe {α β} [DecidableEq α] (le₁ : α → α → Bool) (le₂ : β → β → Bool) (x y : α × β) : Bool :=
  if x.1 = y.1 then le₂ x.2 y.2 else le₁ x.1 y.1

theorem lexLe_totalLe {α β} [DecidableEq α] {le₁ : α → α → Bool} {le₂ : β → β → Bool}
    (h₁ : TotalLe le₁) (h₂ : TotalLe le₂) : TotalLe (lexLe le₁ le₂) := by
  refine ⟨?_, ?_, ?_⟩
  · rintro ⟨a, b⟩ ⟨a', b'⟩
    simp only [lexLe]
    by_cases h : a = a'
    · subst h; simpa using h₂.total b b'
    · have h' : ¬ a' = a := fun e => h e.symm
      simpa [h, h'] using h₁.total a a'
  · rintro ⟨a, b⟩ ⟨a', b'⟩ ⟨a'', b''⟩
    simp only [lexLe]
    intro p q
    by_cases h : a = a'
    · subst h
      by_cases g : a = a''
      · subst g; simp only [if_true] at p q ⊢; exact h₂.trans _ _ _ p q
      · simpa [g] using q
    · simp only [h, if_false] at p
      by_cases g : a' = a''
      · subst g; simpa [h] using p
      · simp only [g, if_false] at q
        by_cases k : a = a''
        · subst k; exact absurd (h₁.antisymm _ _ p q) h
        · simp only [k, if_false]; exact h₁.trans _ _ _ p q
  · rintro ⟨a, b⟩ ⟨a', b'⟩
    simp only [lexLe]
    intro p q
    by_cases h : a = a'
    · subst h; simp only [if_true] at p q; rw [h₂.antisymm _ _ p q]
    · have h' : ¬ a' = a := fun e => h e.symm
      simp only [h, h', if_false] at p q
      exact absurd (h₁.antisymm _ _ p q) h

theorem natLe_totalLe : TotalLe (fun a b : Nat => decide (a ≤ b)) := by
  refine ⟨?_, ?_, ?_⟩
  · intro a b; simp only [Bool.or_eq_true, decide_eq_true_eq]; omega
  · intro a b c; simp only [decide_eq_true_eq]; omega
  · intro a b; simp only [decide_eq_true_eq]; omega

/-- `None` first, then strings in order -/
def optStrLe : Option Str → Option Str → Bool
  | none, _ => true
  | some _, none => false
  | some a, some b => strLe a b

theorem optStrLe_totalLe : TotalLe optStrLe := by
  refine ⟨?_, ?_, ?_⟩
  · intro a b; cases a <;> cases b <;> simp [optStrLe, strLe_total']
  · intro a b c; cases a <;> cases b <;> cases c <;> simp [optStrLe]; exact strLe_trans' _ _ _
  · intro a b; cases a <;> cases b <;> simp [optStrLe]; exact strLe_antisymm' _ _

/-- pulling a total order back along an injective map -/
theorem TotalLe.comap {α β} {le : β → β → Bool} (h : TotalLe le) (f : α → β)
    (inj : ∀ a b, f a = f b → a = b) : TotalLe (fun a b => le (f a) (f b)) :=
  ⟨fun a b => h.total _ _, fun a b c => h.trans _ _ _, fun a b p q => inj _ _ (h.antisymm _ _ p q)⟩

def OptKey.tuple (k : OptKey) : Option Str × Nat × Str := (k.sub, k.machine, k.name)

def keyLe (a b : OptKey) : Bool :=
  lexLe optStrLe (lexLe (fun a b : Nat => decide (a ≤ b)) strLe) a.tuple b.tuple

theorem keyLe_totalLe : TotalLe keyLe :=
  (lexLe_totalLe optStrLe_totalLe (lexLe_totalLe natLe_totalLe strLe_totalLe)).comap OptKey.tuple
    (by rintro ⟨s, m, n⟩ ⟨s', m', n'⟩ h; simp only [OptKey.tuple, Prod.mk.injEq] at h; simp [h])

theorem decide_lt_eq_not_le (a b : Nat) : decide (b < a) = !decide (a ≤ b) := by
  by_cases h : a ≤ b
  · have : ¬ b < a := by omega
    simp [h, this]
  · have : b < a := by omega
    simp [h, this]

/-- `OptionKey.__lt__` is exactly the strict part of the total order `keyLe` -/
theorem optKeyLt_eq (a b : OptKey) : (!optKeyLt b a) = keyLe a b := by
  obtain ⟨sa, ma, na⟩ := a
  obtain ⟨sb, mb, nb⟩ := b
  cases sa <;> cases sb <;>
    simp only [optKeyLt, keyLe, lexLe, OptKey.tuple, optStrLe, tupleLt]
  · by_cases hm : ma = mb
    · subst hm; simp
    · have : ¬ mb = ma := fun e => hm e.symm
      simp [hm, this, decide_lt_eq_not_le]
      all_goals (exact decide_eq_decide.mpr Iff.rfl)
  · simp
  · simp
  · rename_i x y
    by_cases hs : x = y
    · subst hs
      by_cases hm : ma = mb
      · subst hm; simp
      · have : ¬ mb = ma := fun e => hm e.symm
        simp [hm, this, decide_lt_eq_not_le]
        all_goals (exact decide_eq_decide.mpr Iff.rfl)
    · have h' : ¬ y = x := fun e => hs e.symm
      simp [hs, h']

theorem pySortedBy_optKeyLt_eq (l : List OptKey) : pySortedBy optKeyLt l = l.mergeSort keyLe := by
  unfold pySortedBy
  congr 1
  funext a b
  exact optKeyLt_eq a b

theorem pySortedBy_optKeyLt_perm {l₁ l₂ : List OptKey} (p : l₁ ~ l₂) :
    pySortedBy optKeyLt l₁ = pySortedBy optKeyLt l₂ := by
  rw [pySortedBy_optKeyLt_eq, pySortedBy_optKeyLt_eq]
  exact mergeSort_eq_of_perm keyLe_totalLe p

/-! ### `sorted(set(·))` depends only on membership; depfile closure -/

theorem mem_dedup (l : List Str) (x : Str) : x ∈ dedup l ↔ x ∈ l := by
  induction l with
  | nil => simp [dedup]
  | cons a as ih =>
    simp only [dedup, foldr_cons] at ih ⊢
    by_cases h : a ∈ foldr (fun a acc => if a ∈ acc then acc else a :: acc) [] as
    · simp only [h, if_true, mem_cons]
      constructor
      · intro hx; exact Or.inr (ih.mp hx)
      · rintro (rfl | hx)
        · exact h
        · exact ih.mpr hx
    · simp only [h, if_false, mem_cons, ih]

theorem nodup_dedup (l : List Str) : (dedup l).Nodup := by
  induction l with
  | nil => simp [dedup]
  | cons a as ih =>
    simp only [dedup, foldr_cons] at ih ⊢
    by_cases h : a ∈ foldr (fun a acc => if a ∈ acc then acc else a :: acc) [] as
    · simpa [h] using ih
    · rw [if_neg h]
      exact nodup_cons.mpr ⟨h, ih⟩

theorem sortedSet_ext {l₁ l₂ : List Str} (h : ∀ x, x ∈ l₁ ↔ x ∈ l₂) : sortedSet l₁ = sortedSet l₂ := by
  unfold sortedSet
  apply sortedStrs_perm
  rw [perm_ext_iff_of_nodup (nodup_dedup l₁) (nodup_dedup l₂)]
  intro x
  rw [mem_dedup, mem_dedup]
  exact h x

theorem mem_sortedSet (l : List Str) (x : Str) : x ∈ sortedSet l ↔ x ∈ l := by
  unfold sortedSet
  rw [(sortedStrs_perm_self (dedup l)).mem_iff, mem_dedup]

theorem mem_stepSet (df : List (Str × List Str)) (S : List Str) (x : Str) :
    x ∈ stepSet df S ↔ x ∈ S ∨ ∃ t, t ∈ S ∧ x ∈ depsAt df t := by
  simp [stepSet, mem_append, mem_flatMap]

theorem reachN_ext {df₁ df₂ : List (Str × List Str)}
    (h : ∀ t x, x ∈ depsAt df₁ t ↔ x ∈ depsAt df₂ t) (n : Nat) {S₁ S₂ : List Str}
    (hs : ∀ x, x ∈ S₁ ↔ x ∈ S₂) : ∀ x, x ∈ reachN df₁ n S₁ ↔ x ∈ reachN df₂ n S₂ := by
  induction n generalizing S₁ S₂ with
  | zero => exact hs
  | succ n ih =>
    simp only [reachN]
    apply ih
    intro x
    rw [mem_stepSet, mem_stepSet]
    constructor
    · rintro (hx | ⟨t, ht, hx⟩)
      · exact Or.inl ((hs x).mp hx)
      · exact Or.inr ⟨t, (hs t).mp ht, (h t x).mp hx⟩
    · rintro (hx | ⟨t, ht, hx⟩)
      · exact Or.inl ((hs x).mpr hx)
      · exact Or.inr ⟨t, (hs t).mpr ht, (h t x).mpr hx⟩

theorem depsAt_perm {df₁ df₂ : List (Str × List Str)} (nd : (df₁.map Prod.fst).Nodup) (p : df₁ ~ df₂)
    (t : Str) : depsAt df₁ t = depsAt df₂ t := by
  unfold depsAt
  rw [lookup_perm nd p t]

/-! ### adding the base options to the store commutes with permutations -/

def baseStep (s : List (OptKey × OptKind)) (k : OptKey) : List (OptKey × OptKind) :=
  if s.any (fun e => e.1 = k) then s else s ++ [(k, .base)]

theorem addBaseOptions_eq (s : List (OptKey × OptKind)) (b : List OptKey) :
    addBaseOptions s b = b.foldl baseStep s := rfl

theorem any_key_perm {s₁ s₂ : List (OptKey × OptKind)} (p : s₁ ~ s₂) (k : OptKey) :
    s₁.any (fun e => decide (e.1 = k)) = s₂.any (fun e => decide (e.1 = k)) := by
  rw [Bool.eq_iff_iff]
  simp only [any_eq_true]
  constructor
  · rintro ⟨e, he, h⟩; exact ⟨e, p.mem_iff.mp he, h⟩
  · rintro ⟨e, he, h⟩; exact ⟨e, p.mem_iff.mpr he, h⟩

theorem baseStep_perm {s₁ s₂ : List (OptKey × OptKind)} (p : s₁ ~ s₂) (k : OptKey) :
    baseStep s₁ k ~ baseStep s₂ k := by
  unfold baseStep
  rw [any_key_perm p k]
  split
  · exact p
  · exact p.append_right _

theorem baseStep_comm (s : List (OptKey × OptKind)) (x y : OptKey) :
    baseStep (baseStep s x) y ~ baseStep (baseStep s y) x := by
  unfold baseStep
  by_cases hx : s.any (fun e => decide (e.1 = x)) = true <;>
  by_cases hy : s.any (fun e => decide (e.1 = y)) = true <;>
  by_cases hxy : x = y <;>
  simp_all [any_append, Perm.refl]
  have : ¬ y = x := fun e => hxy e.symm
  simp only [this, if_false]
  exact Perm.append_left _ (Perm.swap _ _ _)

theorem foldl_baseStep_perm_store {s₁ s₂ : List (OptKey × OptKind)} (p : s₁ ~ s₂) (l : List OptKey) :
    l.foldl baseStep s₁ ~ l.foldl baseStep s₂ := by
  induction l generalizing s₁ s₂ with
  | nil => exact p
  | cons x l ih => exact ih (baseStep_perm p x)

theorem addBaseOptions_perm {s₁ s₂ : List (OptKey × OptKind)} {b₁ b₂ : List OptKey}
    (ps : s₁ ~ s₂) (pb : b₁ ~ b₂) : addBaseOptions s₁ b₁ ~ addBaseOptions s₂ b₂ := by
  rw [addBaseOptions_eq, addBaseOptions_eq]
  induction pb generalizing s₁ s₂ with
  | nil => exact ps
  | cons x _ ih => exact ih (baseStep_perm ps x)
  | swap x y l =>
    simp only [foldl_cons]
    exact foldl_baseStep_perm_store ((baseStep_comm s₁ y x).trans (baseStep_perm (baseStep_perm ps x) y)) l
  | trans _ _ ih₁ ih₂ => exact (ih₁ ps).trans (ih₂ (Perm.refl _))

end MesonModel.Det
