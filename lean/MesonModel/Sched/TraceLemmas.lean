/-
Trace-level facts of the scheduler model: start counts, cut conditions, tallies, progress.
-/
import MesonModel.Sched.Lemmas

namespace MesonModel.Sched
open TestResult

/-! ### how often a test starts -/

theorem started_upd (f : Nat → St) (i : Nat) (v : St) (h : v.started = (f i).started) (j : Nat) :
    (upd f i v j).started = (f j).started := by
  by_cases e : j = i
  · subst e; simp [h]
  · rw [upd_ne _ _ e]

theorem step_started {c : Config} {s s' : State} {l : Label} (hi : Inv c s) (hs : step c s l = some s') (j : Nat) :
    (s'.st j).started = ((s.st j).started || decide (l = .acquireStart j)) ∧
    (l = .acquireStart j → (s.st j).started = false) := by
  cases l with
  | launch =>
    simp only [step] at hs
    have hnl := hi.notLaunched s.next (Nat.le_refl _)
    have key := started_upd s.st s.next .waiting (by simp [hnl, St.started]) j
    split at hs
    · split at hs
      · split at hs <;> cases hs <;> simp [key]
      · split at hs
        · cases hs; simp [key]
        · cases hs
    · cases hs
  | serialDone =>
    simp only [step] at hs
    split at hs
    · cases hs; simp
    · cases hs
  | loopEnd =>
    simp only [step] at hs
    split at hs
    · cases hs; simp
    · cases hs
  | allDone =>
    simp only [step] at hs
    split at hs
    · cases hs; simp
    · cases hs
  | acquireStart i =>
    simp only [step] at hs
    split at hs
    · rename_i hg
      cases hs
      by_cases e : j = i
      · subst e; simp [hg.1, St.started]
      · have : ¬ i = j := fun q => e q.symm
        simp [upd_ne _ _ e, this]
    · cases hs
  | acquireSkip i =>
    simp only [step] at hs
    split at hs
    · rename_i hg
      cases hs
      simp [started_upd s.st i .skipped (by simp [hg.1, St.started]) j]
    · cases hs
  | finish i r =>
    simp only [step] at hs
    split at hs
    · rename_i creq hrun
      have key := started_upd s.st i (.done r) (by simp [hrun, St.started]) j
      split at hs
      · split at hs <;> cases hs <;> simp [key]
      · cases hs
    · cases hs

theorem startCount_snoc (i : Nat) (tr : List Label) (l : Label) :
    startCount i (tr ++ [l]) = startCount i tr + (if l = .acquireStart i then 1 else 0) := by
  simp only [startCount, List.filter_append, List.length_append]
  by_cases h : l = .acquireStart i <;> simp [h]

theorem Exec.startCount_eq {c : Config} {tr : List Label} {s : State} (h : Exec c tr s) (i : Nat) :
    startCount i tr = if (s.st i).started then 1 else 0 := by
  induction h with
  | nil => simp [startCount, init, St.started]
  | snoc hprev hs ih =>
    rename_i tr s l s'
    rw [startCount_snoc, ih]
    obtain ⟨a, b⟩ := step_started hprev.inv hs i
    by_cases e : l = .acquireStart i
    · rw [a, b e]; simp [e]
    · rw [a]; simp [e]

/-! ### results and tallies -/

theorem resultsOf_append (a b : List Label) : resultsOf (a ++ b) = resultsOf a ++ resultsOf b := by
  induction a with
  | nil => rfl
  | cons x xs ih => cases x <;> simp [resultsOf, ih]

theorem tallyOf_snoc (rs : List TestResult) (r : TestResult) : tallyOf (rs ++ [r]) = (tallyOf rs).add! r := by
  simp [tallyOf, List.foldl_append]

theorem step_tally {c : Config} {s s' : State} {l : Label} (hs : step c s l = some s') :
    s'.tally = match l with
      | .finish _ r => s.tally.add! r
      | _ => s.tally := by
  cases l with
  | launch =>
    simp only [step] at hs
    split at hs
    · split at hs
      · split at hs <;> cases hs <;> rfl
      · split at hs
        · cases hs; rfl
        · cases hs
    · cases hs
  | serialDone => simp only [step] at hs; split at hs <;> cases hs; rfl
  | loopEnd => simp only [step] at hs; split at hs <;> cases hs; rfl
  | allDone => simp only [step] at hs; split at hs <;> cases hs; rfl
  | acquireStart i => simp only [step] at hs; split at hs <;> cases hs; rfl
  | acquireSkip i => simp only [step] at hs; split at hs <;> cases hs; rfl
  | finish i r =>
    simp only [step] at hs
    split at hs
    · split at hs
      · split at hs <;> cases hs <;> rfl
      · cases hs
    · cases hs

theorem Exec.tally_eq {c : Config} {tr : List Label} {s : State} (h : Exec c tr s) :
    s.tally = tallyOf (resultsOf tr) := by
  induction h with
  | nil => rfl
  | snoc hprev hs ih =>
    rename_i tr s l s'
    rw [step_tally hs, resultsOf_append]
    cases l <;> simp [resultsOf, ih, tallyOf_snoc]

/-- results that reach `process_test_result` are finished ones -/
theorem Exec.results_finished {c : Config} {tr : List Label} {s : State} (h : Exec c tr s) :
    ∀ r ∈ resultsOf tr, r.isFinished = true := by
  induction h with
  | nil => simp [resultsOf]
  | snoc hprev hs ih =>
    rename_i tr s l s'
    rw [resultsOf_append]
    intro r hr
    rcases List.mem_append.mp hr with h1 | h1
    · exact ih r h1
    · cases l with
      | finish i r' =>
        simp [resultsOf] at h1
        subst h1
        simp only [step] at hs
        split at hs
        · split at hs
          · rename_i hg; exact hg.1
          · cases hs
        · cases hs
      | _ => simp [resultsOf] at h1

end MesonModel.Sched
