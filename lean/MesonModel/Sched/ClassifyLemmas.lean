/-
Lemmas about tallies (`process_test_result`, `total_failure_count`).
-/
import MesonModel.Sched.Classify

namespace MesonModel.Sched
open TestResult

/-- results counted under `fail_count` -/
def TestResult.countsAsFail : TestResult → Bool
  | FAIL | ERROR | INTERRUPT => true
  | _ => false

/-- folding `process_test_result` over results adds, to each counter, the number of results of its class -/
theorem foldl_add! (rs : List TestResult) (t : Tally) :
    rs.foldl Tally.add! t =
      { ok := t.ok + rs.countP (· == OK),
        expectedFail := t.expectedFail + rs.countP (· == EXPECTEDFAIL),
        fail := t.fail + rs.countP TestResult.countsAsFail,
        unexpectedPass := t.unexpectedPass + rs.countP (· == UNEXPECTEDPASS),
        skip := t.skip + rs.countP (· == SKIP),
        ignored := t.ignored + rs.countP (· == IGNORED),
        timeout := t.timeout + rs.countP (· == TIMEOUT) } := by
  induction rs generalizing t with
  | nil => simp
  | cons r rs ih =>
    rw [List.foldl_cons, ih]
    cases r <;> simp [Tally.add!, Tally.add, List.countP_cons, TestResult.countsAsFail] <;> omega

theorem countP_bad (rs : List TestResult) :
    rs.countP TestResult.isBad =
      rs.countP TestResult.countsAsFail + rs.countP (· == UNEXPECTEDPASS) + rs.countP (· == TIMEOUT) := by
  induction rs with
  | nil => simp
  | cons r rs ih =>
    simp only [List.countP_cons, ih]
    cases r <;> simp [TestResult.isBad, TestResult.countsAsFail] <;> omega

theorem totalFailures_tallyOf (rs : List TestResult) :
    (tallyOf rs).totalFailures = rs.countP TestResult.isBad := by
  rw [tallyOf, foldl_add!, countP_bad]
  simp [Tally.totalFailures]

end MesonModel.Sched
