/-
Lemmas about selection by positional arguments.
-/
import MesonModel.Sched.Args
import MesonModel.Sched.SelectLemmas

namespace MesonModel.Sched

/-- what the generator yields is the test list filtered by "some pattern matches" -/
theorem filterMap_find_eq_filter {α β} (m : α → β → Bool) (pats : List β) (tests : List α) :
    tests.filterMap (fun t => (pats.find? (fun p => m t p)).map (fun _ => t)) =
      tests.filter (fun t => pats.any (fun p => m t p)) := by
  induction tests with
  | nil => rfl
  | cons t ts ih =>
    rw [List.filterMap_cons, List.filter_cons, ih]
    cases hf : pats.find? (fun p => m t p) with
    | none =>
      have : pats.any (fun p => m t p) = false := by
        rw [List.find?_eq_none] at hf
        simp only [List.any_eq_false]
        intro p hp; simpa using hf p hp
      simp [this]
    | some p =>
      have : pats.any (fun p => m t p) = true := by
        rw [List.any_eq_true]
        exact ⟨p, List.mem_of_find?_eq_some hf, List.find?_some hf⟩
      simp [this]

theorem testsFromArgs_ok {α β} {m : α → β → Bool} {pats : List β} {tests out : List α}
    (h : testsFromArgs m pats tests = .ok out) : out = tests.filter (fun t => pats.any (fun p => m t p)) := by
  unfold testsFromArgs at h
  split at h
  · cases h
  · simp only [Except.ok.injEq] at h
    rw [← h, filterMap_find_eq_filter]

theorem testsFromArgs_error_iff {α β} (m : α → β → Bool) (pats : List β) (tests : List α) :
    testsFromArgs m pats tests = .error .noMatch ↔ ∃ p ∈ pats, ∀ t ∈ tests, m t p = false := by
  unfold testsFromArgs
  constructor
  · intro h
    split at h
    · rename_i hc
      rw [List.any_eq_true] at hc
      obtain ⟨p, hp, hq⟩ := hc
      refine ⟨p, hp, ?_⟩
      simpa using hq
    · cases h
  · rintro ⟨p, hp, hq⟩
    have : pats.any (fun p => !(tests.any (fun t => m t p))) = true := by
      rw [List.any_eq_true]
      exact ⟨p, hp, by simpa using hq⟩
    simp [this]

/-! ### the matcher -/

theorem globMatch_star (s : Str) : globMatch ['*'] s = true := by
  induction s with
  | nil => simp [globMatch]
  | cons c s ih => simp [globMatch, ih]

/-- a pattern without `*` and `?` matches exactly itself -/
theorem globMatch_literal (p : Str) (hp : ∀ c ∈ p, c ≠ '*' ∧ c ≠ '?') (s : Str) :
    globMatch p s = true ↔ p = s := by
  induction p generalizing s with
  | nil => cases s <;> simp [globMatch]
  | cons a p ih =>
    have ha := hp a (List.mem_cons_self ..)
    have ih' := ih (fun c hc => hp c (List.mem_cons_of_mem _ hc))
    cases s with
    | nil =>
      rw [globMatch]
      · simp
      · intro h; exact ha.1 h
    | cons c s =>
      rw [globMatch]
      · simp [ha.2, ih']
      · intro h; exact ha.1 h

theorem splitSuite_contains (a : Str) : a.contains ':' = true ↔ ':' ∈ a := by simp

end MesonModel.Sched
