/-
When may a test be left unstarted?  Invariants about `interrupted`, `--maxfail` and the failure cut of
`--repeat`; and progress of the scheduler model.
-/
import MesonModel.Sched.TraceLemmas

namespace MesonModel.Sched
open TestResult

theorem Tally.add!_fail_ge (t : Tally) (r : TestResult) : t.fail ≤ (t.add! r).fail := by
  cases r <;> simp [Tally.add!, Tally.add]

/-- `interrupted` and the `--repeat` failure condition never switch back off -/
theorem step_mono {c : Config} {s s' : State} {l : Label} (hs : step c s l = some s') :
    (s.interrupted = true → s'.interrupted = true) ∧ (repeatFailed c s = true → repeatFailed c s' = true) := by
  have key : ∀ r, repeatFailed c s = true →
      (c.repeatGt1 && decide ((s.tally.add! r).fail > 0)) = true := by
    intro r h
    simp [repeatFailed, State.failCount] at h ⊢
    have := Tally.add!_fail_ge s.tally r
    exact ⟨h.1, by omega⟩
  cases l with
  | launch =>
    simp only [step] at hs
    split at hs
    · split at hs
      · split at hs <;> cases hs <;> exact ⟨id, id⟩
      · split at hs
        · cases hs; exact ⟨id, id⟩
        · cases hs
    · cases hs
  | serialDone => simp only [step] at hs; split at hs <;> cases hs; exact ⟨id, id⟩
  | loopEnd => simp only [step] at hs; split at hs <;> cases hs; exact ⟨id, id⟩
  | allDone => simp only [step] at hs; split at hs <;> cases hs; exact ⟨id, id⟩
  | acquireStart i => simp only [step] at hs; split at hs <;> cases hs; exact ⟨id, id⟩
  | acquireSkip i => simp only [step] at hs; split at hs <;> cases hs; exact ⟨id, id⟩
  | finish i r =>
    simp only [step] at hs
    split at hs
    · split at hs
      · split at hs <;> cases hs
        · exact ⟨fun _ => rfl, key r⟩
        · exact ⟨id, key r⟩
      · cases hs
    · cases hs

/-- what one step can do to the status of one task -/
inductive Trans (c : Config) (s s' : State) (l : Label) : St → St → Prop
  | same (x : St) : Trans c s s' l x x
  | launch : Trans c s s' l .notLaunched .waiting
  | start : Trans c s s' l .waiting (.running false)
  | skip : (s.interrupted = true ∨ repeatFailed c s = true) → Trans c s s' l .waiting .skipped
  | finish (creq : Bool) (i : Nat) (r : TestResult) : l = .finish i r → r.isFinished = true →
      Trans c s s' l (.running creq) (.done r)
  | cancel (x : St) : c.maxfail > 0 → s'.interrupted = true → Trans c s s' l x (cancelSt x)

private theorem trans_upd {c : Config} {s s' : State} {l : Label} (f : Nat → St) (i : Nat) (v : St)
    (h : Trans c s s' l (f i) v) (j : Nat) : Trans c s s' l (f j) (upd f i v j) := by
  by_cases e : j = i
  · subst e; simpa using h
  · rw [upd_ne _ _ e]; exact .same _

theorem step_pointwise {c : Config} {s s' : State} {l : Label} (hi : Inv c s) (hs : step c s l = some s') :
    (∀ j, Trans c s s' l (s.st j) (s'.st j)) ∧
    (s'.interrupted = true → s.interrupted = true ∨ (0 < c.maxfail ∧ c.maxfail ≤ s'.failCount)) := by
  cases l with
  | launch =>
    simp only [step] at hs
    have hnl := hi.notLaunched s.next (Nat.le_refl _)
    have key : ∀ s'' j, Trans c s s'' .launch (s.st j) (upd s.st s.next .waiting j) :=
      fun s'' j => trans_upd _ _ _ (by rw [hnl]; exact .launch) j
    split at hs
    · split at hs
      · split at hs <;> cases hs <;> exact ⟨key _, Or.inl⟩
      · split at hs
        · cases hs; exact ⟨key _, Or.inl⟩
        · cases hs
    · cases hs
  | serialDone => simp only [step] at hs; split at hs <;> cases hs; exact ⟨fun _ => .same _, Or.inl⟩
  | loopEnd => simp only [step] at hs; split at hs <;> cases hs; exact ⟨fun _ => .same _, Or.inl⟩
  | allDone => simp only [step] at hs; split at hs <;> cases hs; exact ⟨fun _ => .same _, Or.inl⟩
  | acquireStart i =>
    simp only [step] at hs
    split at hs
    · rename_i hg
      cases hs
      exact ⟨fun j => trans_upd _ _ _ (by rw [hg.1]; exact .start) j, Or.inl⟩
    · cases hs
  | acquireSkip i =>
    simp only [step] at hs
    split at hs
    · rename_i hg
      cases hs
      have hc : s.interrupted = true ∨ repeatFailed c s = true := hg.2.2
      exact ⟨fun j => trans_upd _ _ _ (by rw [hg.1]; exact .skip hc) j, Or.inl⟩
    · cases hs
  | finish i r =>
    simp only [step] at hs
    split at hs
    · rename_i creq hrun
      split at hs
      · rename_i hfin
        split at hs
        · rename_i hmf
          cases hs
          refine ⟨?_, fun _ => Or.inr ⟨hmf.1, hmf.2.1⟩⟩
          intro j
          by_cases e : j = i
          · subst e
            simp only [upd_same, cancelSt]
            rw [hrun]; exact .finish _ _ _ rfl hfin.1
          · simp only [upd_ne _ _ e]
            exact .cancel _ hmf.1 rfl
        · cases hs
          exact ⟨fun j => trans_upd _ _ _ (by rw [hrun]; exact .finish _ _ _ rfl hfin.1) j, Or.inl⟩
      · cases hs
    · cases hs

/-- where the main coroutine can be after a step -/
theorem step_main {c : Config} {s s' : State} {l : Label} (hs : step c s l = some s') :
    ((s'.main = .final ∨ s'.main = .finished) →
      s'.next = c.n ∨ repeatFailed c s = true ∨ ((s.main = .final ∨ s.main = .finished) ∧ s'.next = s.next)) ∧
    (s'.main = .finished →
      (∀ j, j < s'.next → (s'.st j).isTerminal = true) ∨
      (s.main = .finished ∧ s'.next = s.next ∧ TaskMono s.st s'.st)) := by
  cases hl : l.isMain with
  | false =>
    obtain ⟨a, b, d⟩ := task_step hl hs
    refine ⟨fun h => Or.inr (Or.inr ⟨by rw [← b]; exact h, a⟩), fun h => Or.inr ⟨by rw [← b]; exact h, a, d⟩⟩
  | true =>
    cases l with
    | acquireStart i | acquireSkip i | finish i r => simp [Label.isMain] at hl
    | launch =>
      simp only [step] at hs
      split at hs
      · rename_i hg
        split at hs
        · split at hs
          · rename_i hrf
            cases hs
            exact ⟨fun _ => Or.inr (Or.inl hrf), fun h => by cases h⟩
          · cases hs
            refine ⟨fun h => ?_, fun h => ?_⟩
            · simp [hg.1] at h
            · simp [hg.1] at h
        · split at hs
          · cases hs
            refine ⟨fun h => ?_, fun h => ?_⟩
            · simp at h
            · simp at h
          · cases hs
      · cases hs
    | serialDone =>
      simp only [step] at hs
      split at hs
      · cases hs
        refine ⟨fun h => ?_, fun h => ?_⟩
        · by_cases hrf : repeatFailed c s = true
          · exact Or.inr (Or.inl hrf)
          · simp [hrf] at h
        · by_cases hrf : repeatFailed c s = true <;> simp [hrf] at h
      · cases hs
    | loopEnd =>
      simp only [step] at hs
      split at hs
      · rename_i hg
        cases hs
        exact ⟨fun _ => Or.inl hg.2, fun h => by cases h⟩
      · cases hs
    | allDone =>
      simp only [step] at hs
      split at hs
      · rename_i hg
        cases hs
        refine ⟨fun _ => Or.inr (Or.inr ⟨Or.inl hg.1, rfl⟩), fun _ => Or.inl ?_⟩
        exact (allTerminalBelow_iff _ _).mp hg.2
      · cases hs

structure CutInv (c : Config) (s : State) : Prop where
  /-- without `--maxfail` nothing is ever cancelled -/
  noMaxfail : c.maxfail = 0 →
    s.interrupted = false ∧ ∀ j, s.st j ≠ .cancelled ∧ s.st j ≠ .running true
  /-- a task only returns without running after an interruption or a failure under `--repeat` -/
  skipped : ∀ j, s.st j = .skipped → s.interrupted = true ∨ repeatFailed c s = true
  /-- the loop is only left at its end or by the `--repeat` failure `break` -/
  finalNext : (s.main = .final ∨ s.main = .finished) → s.next = c.n ∨ repeatFailed c s = true
  /-- `_run_tests` only returns when every created task is done -/
  finishedTerminal : s.main = .finished → ∀ j, j < s.next → (s.st j).isTerminal = true
  /-- the run is only interrupted by `--maxfail`, after that many failures were counted -/
  interruptedWhy : s.interrupted = true → 0 < c.maxfail ∧ c.maxfail ≤ s.failCount
  /-- a task is only cancelled by an interruption -/
  cancelledWhy : ∀ j, s.st j = .cancelled ∨ s.st j = .running true → s.interrupted = true

theorem CutInv.init (c : Config) : CutInv c (init c) := by
  refine ⟨?_, ?_, ?_, ?_, ?_, ?_⟩ <;> simp [Sched.init]

theorem step_fail_mono {c : Config} {s s' : State} {l : Label} (hs : step c s l = some s') :
    s.failCount ≤ s'.failCount := by
  have := step_tally hs
  unfold State.failCount
  rw [this]
  cases l <;> first | exact Nat.le_refl _ | exact Tally.add!_fail_ge _ _

theorem CutInv.step {c : Config} {s s' : State} {l : Label} (hi : Inv c s) (h : CutInv c s)
    (hs : step c s l = some s') : CutInv c s' := by
  obtain ⟨mI, mR⟩ := step_mono hs
  obtain ⟨pw, pint⟩ := step_pointwise hi hs
  obtain ⟨pm1, pm2⟩ := step_main hs
  refine ⟨?_, ?_, ?_, ?_, ?_, ?_⟩
  · intro hm
    obtain ⟨h1, h2⟩ := h.noMaxfail hm
    refine ⟨?_, ?_⟩
    · cases hq : s'.interrupted with
      | false => rfl
      | true =>
        rcases pint hq with h3 | h3
        · rw [h1] at h3; cases h3
        · omega
    · intro j
      have t := pw j
      have o := h2 j
      generalize s.st j = x at t o
      generalize s'.st j = y at t
      cases t with
      | same => exact o
      | launch => simp
      | start => simp
      | skip => simp
      | finish => simp
      | cancel _ hc _ => omega
  · intro j hj
    have t := pw j
    have old : s.st j = .skipped → s'.interrupted = true ∨ repeatFailed c s' = true := by
      intro hx
      rcases h.skipped j hx with h2 | h2
      · exact Or.inl (mI h2)
      · exact Or.inr (mR h2)
    generalize s.st j = x at t old
    generalize s'.st j = y at t hj
    cases t with
    | same => exact old hj
    | launch => cases hj
    | start => cases hj
    | skip hg =>
      rcases hg with h2 | h2
      · exact Or.inl (mI h2)
      · exact Or.inr (mR h2)
    | finish => cases hj
    | cancel _ hc _ =>
      apply old
      cases x <;> simp [cancelSt] at hj ⊢
  · intro hf
    rcases pm1 hf with h1 | h1 | ⟨h1, h2⟩
    · exact Or.inl h1
    · exact Or.inr (mR h1)
    · rcases h.finalNext h1 with h3 | h3
      · exact Or.inl (by rw [h2]; exact h3)
      · exact Or.inr (mR h3)
  · intro hf
    rcases pm2 hf with h1 | ⟨h1, h2, h3⟩
    · exact h1
    · intro j hj
      rw [h2] at hj
      exact (h3 j).2.1 (h.finishedTerminal h1 j hj)
  · intro hq
    rcases pint hq with h1 | h1
    · obtain ⟨a, b⟩ := h.interruptedWhy h1
      exact ⟨a, Nat.le_trans b (step_fail_mono hs)⟩
    · exact h1
  · intro j hj
    have t := pw j
    have old : (s.st j = .cancelled ∨ s.st j = .running true) → s'.interrupted = true :=
      fun hx => mI (h.cancelledWhy j hx)
    generalize s.st j = x at t old
    generalize s'.st j = y at t hj
    cases t with
    | same => exact old hj
    | launch => simp at hj
    | start => simp at hj
    | skip => simp at hj
    | finish => simp at hj
    | cancel _ _ hint => exact hint

theorem Exec.cutInv {c : Config} {tr : List Label} {s : State} (h : Exec c tr s) : CutInv c s := by
  induction h with
  | nil => exact CutInv.init c
  | snoc hprev hs ih => exact ih.step hprev.inv hs

/-- every `done r` status comes from a processed, finished result -/
theorem Exec.done_processed {c : Config} {tr : List Label} {s : State} (h : Exec c tr s) :
    ∀ i r, s.st i = .done r → r.isFinished = true ∧ r ∈ resultsOf tr := by
  induction h with
  | nil => intro i r hq; simp [Sched.init] at hq
  | snoc hprev hs ih =>
    rename_i tr0 s0 l s1
    intro i r hq
    have t := (step_pointwise hprev.inv hs).1 i
    rw [resultsOf_append]
    have old : s0.st i = .done r → r.isFinished = true ∧ r ∈ resultsOf tr0 ++ resultsOf [l] :=
      fun hx => ⟨(ih i r hx).1, List.mem_append_left _ (ih i r hx).2⟩
    generalize s0.st i = x at t old
    generalize s1.st i = y at t hq
    cases t with
    | same => exact old hq
    | launch => cases hq
    | start => cases hq
    | skip => cases hq
    | cancel _ _ _ =>
      apply old
      cases x <;> simp [cancelSt] at hq ⊢
      exact hq
    | finish creq i' r' hl hfin =>
      cases hq
      subst hl
      exact ⟨hfin, List.mem_append_right _ (by simp [resultsOf])⟩

/-! ### progress -/

/-- some task with index below `k` is running, decided by search -/
theorem exists_running_or_none (f : Nat → St) (k : Nat) :
    (∃ j, j < k ∧ (f j).isRunning = true) ∨ cnt f k = 0 := by
  induction k with
  | zero => right; rfl
  | succ k ih =>
    rcases ih with ⟨j, hj, hr⟩ | h0
    · exact Or.inl ⟨j, by omega, hr⟩
    · cases hr : (f k).isRunning with
      | true => exact Or.inl ⟨k, by omega, hr⟩
      | false => right; simp [cnt, h0, hr]

/-- whenever some task is active, a task step is enabled (given at least one job slot exists) -/
theorem active_progress {c : Config} {s : State} (hi : Inv c s) (hj : JobInv c s) (hjobs : 1 ≤ c.jobs)
    {i : Nat} (ha : (s.st i).isActive = true) : ∃ l s', step c s l = some s' := by
  rcases exists_running_or_none s.st c.n with ⟨j, _, hr⟩ | h0
  · -- a running test can always finish
    cases hx : s.st j with
    | running creq =>
      cases creq with
      | true =>
        refine ⟨.finish j INTERRUPT, ?_⟩
        simp only [step, hx]
        rw [if_pos (by simp [TestResult.isFinished])]
        split <;> exact ⟨_, rfl⟩
      | false =>
        refine ⟨.finish j OK, ?_⟩
        simp only [step, hx]
        rw [if_pos (by simp [TestResult.isFinished])]
        split <;> exact ⟨_, rfl⟩
    | _ => rw [hx] at hr; simp [St.isRunning] at hr
  · -- nobody runs: all slots are free, the waiting task can take one
    have hsem : s.sem = c.jobs := by unfold JobInv at hj; omega
    rcases St.active_cases ha with hw | hr
    · by_cases hc : s.interrupted = true ∨ repeatFailed c s = true
      · refine ⟨.acquireSkip i, ?_⟩
        simp only [step]
        rw [if_pos ⟨hw, by omega, hc⟩]
        exact ⟨_, rfl⟩
      · refine ⟨.acquireStart i, ?_⟩
        simp only [step]
        rw [if_pos ⟨hw, by omega, hc⟩]
        exact ⟨_, rfl⟩
    · have li : i < c.n := by
        apply Nat.lt_of_not_le
        intro hle
        have := hi.notLaunched i (Nat.le_trans hi.next_le hle)
        rw [this] at hr; cases hr
      have := cnt_pos li hr
      omega

end MesonModel.Sched
