/-
Lemmas about the reporting state (`Report`): totals, log, exit status and `collected_failures` for every sequence
of processed results and every point at which `maxfail_reached` comes on; and the link to the scheduler model.
-/
import MesonModel.Sched.Report
import MesonModel.Sched.ClassifyLemmas
import MesonModel.Sched.TraceLemmas

namespace MesonModel.Sched
open TestResult

theorem Tally.add_finished (t : Tally) {r : TestResult} (h : r.isFinished = true) :
    t.add r = some (t.add! r) := by
  cases r <;> simp_all [Tally.add, Tally.add!, TestResult.isFinished]

theorem Tally.add_some_finished {t t' : Tally} {r : TestResult} (h : t.add r = some t') :
    r.isFinished = true ∧ t' = t.add! r := by
  cases r <;> simp_all [Tally.add, Tally.add!, TestResult.isFinished]

/-! ### the printed rows add up to the sum of the counters -/

theorem sum_filter_zero (l : List (Nat × Nat)) (p : Nat × Nat → Bool) (h : ∀ x ∈ l, p x = false → x.2 = 0) :
    ((l.filter p).map (·.2)).sum = (l.map (·.2)).sum := by
  induction l with
  | nil => rfl
  | cons x xs ih =>
    have ih' := ih (fun y hy => h y (List.mem_cons_of_mem _ hy))
    by_cases hp : p x = true
    · simp [List.filter_cons, hp, ih']
    · have h0 := h x (List.mem_cons_self ..) (by simpa using hp)
      simp [List.filter_cons, hp, ih', h0]

theorem Tally.printedTotal_eq_total (t : Tally) : t.printedTotal = t.total := by
  unfold Tally.printedTotal Tally.summaryRows
  rw [sum_filter_zero]
  · simp [Tally.total]; omega
  · intro x hx hp
    simp only [List.mem_cons, List.not_mem_nil, or_false] at hx
    rcases hx with h | h | h | h | h | h | h <;> subst h <;> simp at hp <;> omega

theorem Tally.total_add! (t : Tally) {r : TestResult} (h : r.isFinished = true) :
    (t.add! r).total = t.total + 1 := by
  cases r <;> simp_all [Tally.add, Tally.add!, Tally.total, TestResult.isFinished] <;> omega

theorem total_foldl (rs : List TestResult) (t : Tally) (h : ∀ r ∈ rs, r.isFinished = true) :
    (rs.foldl Tally.add! t).total = t.total + rs.length := by
  induction rs generalizing t with
  | nil => simp
  | cons r rs ih =>
    rw [List.foldl_cons, ih _ (fun x hx => h x (List.mem_cons_of_mem _ hx)),
      Tally.total_add! t (h r (List.mem_cons_self ..))]
    simp; omega

theorem total_tallyOf (rs : List TestResult) (h : ∀ r ∈ rs, r.isFinished = true) :
    (tallyOf rs).total = rs.length := by
  rw [tallyOf, total_foldl rs _ h]; simp [Tally.total]

/-! ### one operation -/

theorem Report.apply_result {m : Nat} {h h1 : Report} {r : TestResult} (hs : h.apply m (.result r) = some h1) :
    r.isFinished = true ∧ h1.tally = h.tally.add! r ∧ h1.logged = h.logged ++ [r] ∧
    h1.collected = (if isBadResult h.maxfailReached r then h.collected ++ [r] else h.collected) ∧
    h1.maxfailReached = (h.maxfailReached || decide (m > 0 ∧ h1.tally.fail ≥ m ∧ r.isBad = true)) := by
  simp only [Report.apply, Report.process] at hs
  cases hadd : h.tally.add r with
  | none => rw [hadd] at hs; simp at hs
  | some t =>
    rw [hadd] at hs
    obtain ⟨hf, ht⟩ := Tally.add_some_finished hadd
    simp only [Option.map_some, Option.some.injEq] at hs
    subst hs
    unfold Report.afterResult
    by_cases hc : m > 0 ∧ t.fail ≥ m ∧ r.isBad = true
    · simp [hc, hf, ht.symm]
    · simp [hc, hf, ht.symm]

theorem Report.apply_reach {m : Nat} {h h1 : Report} (hs : h.apply m .reach = some h1) :
    h1 = { h with maxfailReached := true } := by
  simp only [Report.apply, Option.some.injEq] at hs
  exact hs.symm

theorem Report.apply_result_total (m : Nat) (h : Report) {r : TestResult} (hf : r.isFinished = true) :
    ∃ h1, h.apply m (.result r) = some h1 := by
  simp [Report.apply, Report.process, Tally.add_finished _ hf]

theorem Report.run_append (m : Nat) (h : Report) (a b : List ROp) :
    Report.run m h (a ++ b) = (Report.run m h a).bind (fun h1 => Report.run m h1 b) := by
  induction a generalizing h with
  | nil => simp [Report.run]
  | cons x xs ih =>
    simp only [List.cons_append, Report.run]
    cases h.apply m x with
    | none => simp
    | some h1 => simp [ih]

theorem ropResults_append (a b : List ROp) : ropResults (a ++ b) = ropResults a ++ ropResults b := by
  induction a with
  | nil => rfl
  | cons x xs ih => cases x <;> simp [ropResults, ih]

theorem ropResults_map (rs : List TestResult) : ropResults (rs.map .result) = rs := by
  induction rs with
  | nil => rfl
  | cons r rs ih => simp [ropResults, ih]

/-! ### a whole run: counters and log -/

/-- a run that does not hit the `sys.exit` branch processed finished results only; its counters are the fold of
the results, and the loggers got exactly the results, in order — wherever `maxfail_reached` came on -/
theorem Report.run_tally {m : Nat} {ops : List ROp} {h h' : Report} (hr : Report.run m h ops = some h') :
    (∀ r ∈ ropResults ops, r.isFinished = true) ∧
    h'.tally = (ropResults ops).foldl Tally.add! h.tally ∧
    h'.logged = h.logged ++ ropResults ops := by
  induction ops generalizing h with
  | nil => simp only [Report.run, Option.some.injEq] at hr; subst hr; simp [ropResults]
  | cons op ops ih =>
    simp only [Report.run] at hr
    cases ha : h.apply m op with
    | none => rw [ha] at hr; simp at hr
    | some h1 =>
      rw [ha] at hr
      simp only [Option.bind_some] at hr
      obtain ⟨f, t, l⟩ := ih hr
      cases op with
      | result r =>
        obtain ⟨hf, ht, hl, _, _⟩ := Report.apply_result ha
        refine ⟨?_, ?_, ?_⟩
        · intro x hx
          simp only [ropResults, List.mem_cons] at hx
          rcases hx with e | e
          · subst e; exact hf
          · exact f x e
        · simp [ropResults, t, ht]
        · simp [ropResults, l, hl]
      | reach =>
        have := Report.apply_reach ha
        subst this
        exact ⟨by simpa [ropResults] using f, by simpa [ropResults] using t, by simpa [ropResults] using l⟩

/-- finished results never hit the `sys.exit` branch -/
theorem Report.run_total (m : Nat) (ops : List ROp) (h : Report) (hf : ∀ r ∈ ropResults ops, r.isFinished = true) :
    ∃ h', Report.run m h ops = some h' := by
  induction ops generalizing h with
  | nil => exact ⟨h, rfl⟩
  | cons op ops ih =>
    cases op with
    | result r =>
      obtain ⟨h1, e⟩ := Report.apply_result_total m h (hf r (by simp [ropResults]))
      obtain ⟨h2, e2⟩ := ih h1 (fun x hx => hf x (by simp [ropResults, hx]))
      exact ⟨h2, by simp [Report.run, e, e2]⟩
    | reach =>
      obtain ⟨h2, e2⟩ := ih { h with maxfailReached := true } (fun x hx => hf x (by simpa [ropResults] using hx))
      exact ⟨h2, by simp [Report.run, Report.apply, e2]⟩

/-! ### `collected_failures` -/

theorem isBadResult_bad {b : Bool} {r : TestResult} (h : isBadResult b r = true) : r.isBad = true := by
  simp only [isBadResult, Bool.and_eq_true] at h; exact h.1

theorem isBadResult_of_bad_ne {b : Bool} {r : TestResult} (h : r.isBad = true) (hn : r ≠ INTERRUPT) :
    isBadResult b r = true := by
  cases r <;> simp_all [isBadResult, TestResult.isBad]

theorem isBadResult_false_flag {r : TestResult} (h : r.isBad = true) : isBadResult false r = true := by
  simp [isBadResult, h]

/-- everything in the list of failures is a bad result that was processed (or was there before) -/
theorem Report.run_collected_sub {m : Nat} {ops : List ROp} {h h' : Report} (hr : Report.run m h ops = some h') :
    ∀ r ∈ h'.collected, r ∈ h.collected ∨ (r ∈ ropResults ops ∧ r.isBad = true) := by
  induction ops generalizing h with
  | nil => simp only [Report.run, Option.some.injEq] at hr; subst hr; intro r hr; exact Or.inl hr
  | cons op ops ih =>
    simp only [Report.run] at hr
    cases ha : h.apply m op with
    | none => rw [ha] at hr; simp at hr
    | some h1 =>
      rw [ha] at hr
      simp only [Option.bind_some] at hr
      intro r hrc
      rcases ih hr r hrc with h2 | ⟨h2, h3⟩
      · cases op with
        | result r0 =>
          obtain ⟨_, _, _, hc, _⟩ := Report.apply_result ha
          rw [hc] at h2
          split at h2
          · rename_i hb
            rcases List.mem_append.mp h2 with h4 | h4
            · exact Or.inl h4
            · simp only [List.mem_singleton] at h4
              subst h4
              exact Or.inr ⟨by simp [ropResults], isBadResult_bad hb⟩
          · exact Or.inl h2
        | reach =>
          have := Report.apply_reach ha
          subst this
          exact Or.inl h2
      · refine Or.inr ⟨?_, h3⟩
        cases op <;> simp [ropResults, h2]

/-- nothing is ever removed from the list of failures, and every processed bad result other than INTERRUPT is
in it — whatever the flag was at the time -/
theorem Report.run_collected_sup {m : Nat} {ops : List ROp} {h h' : Report} (hr : Report.run m h ops = some h') :
    (∀ r ∈ h.collected, r ∈ h'.collected) ∧
    (∀ r ∈ ropResults ops, r.isBad = true → r ≠ INTERRUPT → r ∈ h'.collected) := by
  induction ops generalizing h with
  | nil => simp only [Report.run, Option.some.injEq] at hr; subst hr; simp [ropResults]
  | cons op ops ih =>
    simp only [Report.run] at hr
    cases ha : h.apply m op with
    | none => rw [ha] at hr; simp at hr
    | some h1 =>
      rw [ha] at hr
      simp only [Option.bind_some] at hr
      obtain ⟨k1, k2⟩ := ih hr
      cases op with
      | result r0 =>
        obtain ⟨_, _, _, hc, _⟩ := Report.apply_result ha
        have sub : ∀ r ∈ h.collected, r ∈ h1.collected := by
          intro r hx; rw [hc]; split
          · exact List.mem_append_left _ hx
          · exact hx
        refine ⟨fun r hx => k1 r (sub r hx), ?_⟩
        intro r hx hb hn
        simp only [ropResults, List.mem_cons] at hx
        rcases hx with e | e
        · subst e
          apply k1
          rw [hc, if_pos (isBadResult_of_bad_ne hb hn)]
          simp
        · exact k2 r e hb hn
      | reach =>
        have := Report.apply_reach ha
        subst this
        exact ⟨fun r hx => k1 r hx, fun r hx => k2 r (by simpa [ropResults] using hx)⟩

/-- under the rule of `run_test` (the flag comes on only right after a bad result was processed, no outside
switch) the flag implies a non-empty list of failures, and so does every processed bad result -/
theorem Report.run_results_collected {m : Nat} {rs : List TestResult} {h h' : Report}
    (hi : h.maxfailReached = true → h.collected ≠ [])
    (hr : Report.run m h (rs.map .result) = some h') :
    (h'.maxfailReached = true → h'.collected ≠ []) ∧
    ((∃ r ∈ rs, r.isBad = true) → h'.collected ≠ []) := by
  induction rs generalizing h with
  | nil =>
    simp only [List.map_nil, Report.run, Option.some.injEq] at hr; subst hr
    exact ⟨hi, by simp⟩
  | cons r0 rs ih =>
    simp only [List.map_cons, Report.run] at hr
    cases ha : h.apply m (.result r0) with
    | none => rw [ha] at hr; simp at hr
    | some h1 =>
      rw [ha] at hr
      simp only [Option.bind_some] at hr
      obtain ⟨_, _, _, hc, hfl⟩ := Report.apply_result ha
      -- a bad result leaves the list non-empty: appended when the flag is off, non-empty already when it is on
      have bad_ne : r0.isBad = true → h1.collected ≠ [] := by
        intro hb
        rw [hc]
        cases hflag : h.maxfailReached with
        | false => rw [if_pos (isBadResult_false_flag hb)]; simp
        | true =>
          split
          · simp
          · exact hi hflag
      have hi1 : h1.maxfailReached = true → h1.collected ≠ [] := by
        intro hq
        rw [hfl] at hq
        simp only [Bool.or_eq_true, decide_eq_true_eq] at hq
        rcases hq with hq | ⟨_, _, hb⟩
        · rw [hc]; split
          · simp
          · exact hi hq
        · exact bad_ne hb
      obtain ⟨k1, k2⟩ := ih hi1 hr
      refine ⟨k1, ?_⟩
      rintro ⟨r, hmem, hb⟩
      simp only [List.mem_cons] at hmem
      rcases hmem with e | e
      · subst e
        have := (Report.run_collected_sup hr).1
        intro hnil
        have hne := bad_ne hb
        cases hq : h1.collected with
        | nil => exact hne hq
        | cons x xs =>
          have := this x (by rw [hq]; simp)
          rw [hnil] at this; cases this
      · exact k2 ⟨r, e, hb⟩

/-! ### the scheduler's counters and flag are this reporting state -/

theorem step_flag {c : Config} {s s' : State} {l : Label} (hs : step c s l = some s') :
    s'.maxfailReached = match l with
      | .finish _ r =>
        (s.maxfailReached || decide (c.maxfail > 0 ∧ (s.tally.add! r).fail ≥ c.maxfail ∧ r.isBad = true))
      | _ => s.maxfailReached := by
  cases l with
  | launch =>
    simp only [step] at hs
    split at hs
    · split at hs
      · split at hs <;> cases hs <;> rfl
      · split at hs
        · cases hs; rfl
        · cases hs
    · cases hs
  | serialDone => simp only [step] at hs; split at hs <;> cases hs; rfl
  | loopEnd => simp only [step] at hs; split at hs <;> cases hs; rfl
  | allDone => simp only [step] at hs; split at hs <;> cases hs; rfl
  | acquireStart i => simp only [step] at hs; split at hs <;> cases hs; rfl
  | acquireSkip i => simp only [step] at hs; split at hs <;> cases hs; rfl
  | finish i r =>
    simp only [step] at hs
    split at hs
    · split at hs
      · split at hs
        · rename_i hc; cases hs; simp [hc]
        · rename_i hc; cases hs; simp [hc]
      · cases hs
    · cases hs

/-- for every schedule: the scheduler state's counters and `maxfail_reached` are what the reporting state gets
when it is fed the processed results in order under the `run_test` rule -/
theorem Exec.report {c : Config} {tr : List Label} {s : State} (h : Exec c tr s) :
    ∃ rp, Report.run c.maxfail {} ((resultsOf tr).map .result) = some rp ∧
      rp.tally = s.tally ∧ rp.maxfailReached = s.maxfailReached ∧ rp.logged = resultsOf tr := by
  induction h with
  | nil => exact ⟨{}, rfl, rfl, rfl, rfl⟩
  | snoc hprev hs ih =>
    rename_i tr s l s'
    obtain ⟨rp, hrun, ht, hfl, hlg⟩ := ih
    have htl := step_tally hs
    have hfg := step_flag hs
    rw [resultsOf_append, List.map_append, Report.run_append, hrun]
    simp only [Option.bind_some]
    cases l with
    | finish i r =>
      have hfin : r.isFinished = true := (hprev.snoc hs).results_finished r (by
        rw [resultsOf_append]; simp [resultsOf])
      obtain ⟨h1, e1⟩ := Report.apply_result_total c.maxfail rp hfin
      obtain ⟨_, a2, a3, _, a5⟩ := Report.apply_result e1
      refine ⟨h1, by simp [resultsOf, Report.run, e1], ?_, ?_, ?_⟩
      · simp only at htl; rw [a2, ht, htl]
      · simp only at hfg; rw [a5, a2, hfl, ht, hfg]
      · rw [a3, hlg]; simp [resultsOf]
    | launch => exact ⟨rp, by simp [resultsOf, Report.run], by rw [ht, htl], by rw [hfl, hfg], by simp [resultsOf, hlg]⟩
    | serialDone => exact ⟨rp, by simp [resultsOf, Report.run], by rw [ht, htl], by rw [hfl, hfg], by simp [resultsOf, hlg]⟩
    | loopEnd => exact ⟨rp, by simp [resultsOf, Report.run], by rw [ht, htl], by rw [hfl, hfg], by simp [resultsOf, hlg]⟩
    | allDone => exact ⟨rp, by simp [resultsOf, Report.run], by rw [ht, htl], by rw [hfl, hfg], by simp [resultsOf, hlg]⟩
    | acquireStart i => exact ⟨rp, by simp [resultsOf, Report.run], by rw [ht, htl], by rw [hfl, hfg], by simp [resultsOf, hlg]⟩
    | acquireSkip i => exact ⟨rp, by simp [resultsOf, Report.run], by rw [ht, htl], by rw [hfl, hfg], by simp [resultsOf, hlg]⟩

end MesonModel.Sched
