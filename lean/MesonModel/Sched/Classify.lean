/-
Model of the result classification and tallying code of `mesonbuild/mtest.py`:
`TestResult` (+ `is_ok`, `is_bad`, `is_finished`), `TestRunExitCode.complete`, `TestRunTAP.complete`,
`TestRun._complete` (expected_fail inversion), the result that `TestSubprocess.wait` leaves behind
(RUNNING / TIMEOUT / INTERRUPT), `TestHarness.process_test_result`, `total_failure_count`, the exit status
of `doit`, and the lines `summary()` prints.  Core Lean only.
-/
import MesonModel.Generated.SchedTables

namespace MesonModel.Sched

/-- `class TestResult(enum.Enum)` -/
inductive TestResult where
  | PENDING | RUNNING | OK | TIMEOUT | INTERRUPT | SKIP | FAIL | EXPECTEDFAIL | UNEXPECTEDPASS | ERROR | IGNORED
  deriving DecidableEq, Repr, Inhabited

namespace TestResult

def all : List TestResult :=
  [PENDING, RUNNING, OK, TIMEOUT, INTERRUPT, SKIP, FAIL, EXPECTEDFAIL, UNEXPECTEDPASS, ERROR, IGNORED]

def name : TestResult → String
  | PENDING => "PENDING" | RUNNING => "RUNNING" | OK => "OK" | TIMEOUT => "TIMEOUT"
  | INTERRUPT => "INTERRUPT" | SKIP => "SKIP" | FAIL => "FAIL" | EXPECTEDFAIL => "EXPECTEDFAIL"
  | UNEXPECTEDPASS => "UNEXPECTEDPASS" | ERROR => "ERROR" | IGNORED => "IGNORED"

def ofName? (s : String) : Option TestResult := all.find? (fun r => r.name == s)

/-- `is_ok`: `self in {OK, EXPECTEDFAIL}` -/
def isOk : TestResult → Bool
  | OK | EXPECTEDFAIL => true
  | _ => false

/-- `is_bad`: `self in {FAIL, TIMEOUT, INTERRUPT, UNEXPECTEDPASS, ERROR}` -/
def isBad : TestResult → Bool
  | FAIL | TIMEOUT | INTERRUPT | UNEXPECTEDPASS | ERROR => true
  | _ => false

/-- `is_finished`: `self not in {PENDING, RUNNING}` -/
def isFinished : TestResult → Bool
  | PENDING | RUNNING => false
  | _ => true

end TestResult

open TestResult

/-- what ended the wait for the test process (`TestSubprocess.wait`): it exited by itself, the time limit
passed (the process group is then killed) or the task was cancelled -/
inductive WaitOutcome where
  | exited | timedOut | cancelled
  deriving DecidableEq, Repr

/-- `TestRun.res` after `TestSubprocess.wait` (`start()` had set RUNNING) -/
def afterWait : WaitOutcome → TestResult
  | .exited => RUNNING
  | .timedOut => TIMEOUT
  | .cancelled => INTERRUPT

/-- `TestRun._complete` for a protocol that needs no parsing, not interactive:
RUNNING becomes OK, then the expected_fail inversion of OK / FAIL only -/
def completeBase (expectedFail : Bool) (res : TestResult) : TestResult :=
  let res := if res = RUNNING then OK else res
  if expectedFail && (res = OK || res = FAIL) then
    (if res = OK then UNEXPECTEDPASS else EXPECTEDFAIL)
  else res

/-- `TestRunExitCode.complete` followed by `TestRun._complete`.
`expectedExit` is `test.expected_exitcode` (`None` and `0` both mean 0: `expected_exitcode or 0`). -/
def completeExitCode (res : TestResult) (rc : Int) (expectedExit : Option Int) (expectedFail : Bool) :
    TestResult :=
  let res1 :=
    if res ≠ RUNNING then res
    else if rc = expectedExit.getD 0 then OK
    else if rc = Generated.gnuSkipReturncode then SKIP
    else if rc = Generated.gnuErrorReturncode then ERROR
    else FAIL
  completeBase expectedFail res1

/-- `TestRunTAP.complete` followed by `TestRun._complete` (`res` is what `parse` left) -/
def completeTap (res : TestResult) (rc : Int) (expectedFail : Bool) : TestResult :=
  let res1 := if rc ≠ 0 && !res.isBad then ERROR else res
  completeBase expectedFail res1

/-- a run of an exit-code test from process end to final classification -/
def classifyRun (w : WaitOutcome) (rc : Int) (expectedExit : Option Int) (expectedFail : Bool) : TestResult :=
  completeExitCode (afterWait w) rc expectedExit expectedFail

/-! ### tallies -/

/-- the seven counters of `TestHarness` printed by `summary()` -/
structure Tally where
  ok : Nat := 0
  expectedFail : Nat := 0
  fail : Nat := 0
  unexpectedPass : Nat := 0
  skip : Nat := 0
  ignored : Nat := 0
  timeout : Nat := 0
  deriving DecidableEq, Repr

/-- `process_test_result` (counter part); `none` is the `sys.exit('Unknown test result …')` branch -/
def Tally.add (t : Tally) : TestResult → Option Tally
  | TIMEOUT => some { t with timeout := t.timeout + 1 }
  | SKIP => some { t with skip := t.skip + 1 }
  | IGNORED => some { t with ignored := t.ignored + 1 }
  | OK => some { t with ok := t.ok + 1 }
  | FAIL | ERROR | INTERRUPT => some { t with fail := t.fail + 1 }
  | EXPECTEDFAIL => some { t with expectedFail := t.expectedFail + 1 }
  | UNEXPECTEDPASS => some { t with unexpectedPass := t.unexpectedPass + 1 }
  | PENDING | RUNNING => none

/-- total version used by the scheduler model (results there are finished by construction) -/
def Tally.add! (t : Tally) (r : TestResult) : Tally := (t.add r).getD t

def tallyOf (rs : List TestResult) : Tally := rs.foldl Tally.add! {}

/-- `total_failure_count` -/
def Tally.totalFailures (t : Tally) : Nat := t.fail + t.unexpectedPass + t.timeout

/-- the return value of `doit` -/
def Tally.exitStatus (t : Tally) : Nat := if t.totalFailures > 0 then 1 else 0

/-- rows of `summary()` in print order: label index 0..6 with its count; `Ok` and `Fail` always, others only
when positive -/
def Tally.summaryRows (t : Tally) : List (Nat × Nat) :=
  [(0, t.ok), (1, t.expectedFail), (2, t.fail), (3, t.unexpectedPass), (4, t.skip), (5, t.ignored), (6, t.timeout)].filter
    (fun p => p.2 > 0 || p.1 = 0 || p.1 = 2)

end MesonModel.Sched
