/-
Model of the scheduler `TestHarness._run_tests` of `mesonbuild/mtest.py` as a labelled transition system.

    for runner in runners:
        if not runner.is_parallel: await complete_all(futures)       -- `launch` guard
        future = ensure_future(run_test(runner)); futures.append(..)  -- `launch`
        if not runner.is_parallel: await complete(future)             -- `Main.waitSerial`, `serialDone`
        if repeat > 1 and fail_count: break                           -- in `launch` / `serialDone`
    await complete_all(futures)                                       -- `Main.final`, `allDone`

    async def run_test(test):
        async with semaphore:                                         -- `acquireStart` / `acquireSkip`
            if interrupted or (repeat > 1 and fail_count): return     -- `acquireSkip`
            res = await test.run(self)                                -- running … `finish i res` (env chooses res)
            process_test_result(res)                                  -- a started test always gets here: a
                                                                      -- cancellation is absorbed in wait/_run_cmd
            if maxfail and fail_count >= maxfail and res.res.is_bad():
                maxfail_reached = True; cancel_all_tests()            -- inside `finish`

asyncio is cooperative: code between two `await`s is atomic, which is what makes atomic transitions
faithful.  The semaphore is modelled without its FIFO order (any waiting task may acquire), and `launch`
may interleave freely with task steps, so the model has *more* schedules than asyncio can produce; the
theorems hold for all of them.  Signal handlers (SIGINT / SIGTERM) are not modelled.
-/
import MesonModel.Sched.Classify

namespace MesonModel.Sched
open TestResult

/-- everything `_run_tests` reads from its environment -/
structure Config where
  /-- `options.num_processes` (after `doit` clamped it) -/
  jobs : Nat
  /-- `options.repeat > 1` -/
  repeatGt1 : Bool
  /-- `options.maxfail` (0 = disabled) -/
  maxfail : Nat
  /-- `runner.is_parallel` of each runner, in list order -/
  par : List Bool

def Config.n (c : Config) : Nat := c.par.length
def Config.isPar (c : Config) (i : Nat) : Bool := c.par.getD i true

/-- life cycle of the task `run_test(runner i)` -/
inductive St where
  /-- no task yet -/
  | notLaunched
  /-- task created, has not got the semaphore -/
  | waiting
  /-- inside `await test.run(self)`; the flag says `future.cancel()` was called on it -/
  | running (cancelReq : Bool)
  /-- `test.run` returned this result and it was processed -/
  | done (r : TestResult)
  /-- got the semaphore and returned at once (interrupted / failure under --repeat) -/
  | skipped
  /-- cancelled before it got the semaphore: the test never started -/
  | cancelled
  deriving DecidableEq, Repr

def St.isRunning : St → Bool
  | .running _ => true
  | _ => false

def St.isActive : St → Bool
  | .waiting | .running _ => true
  | _ => false

/-- the future of the task is done -/
def St.isTerminal : St → Bool
  | .done _ | .skipped | .cancelled => true
  | _ => false

/-- the test program was started -/
def St.started : St → Bool
  | .running _ | .done _ => true
  | _ => false

/-- where the coroutine `_run_tests` itself is -/
inductive Main where
  /-- at the head of the `for` loop, about to handle runner `next` -/
  | top
  /-- in `await complete(future)` for the non-parallel runner `next - 1` -/
  | waitSerial
  /-- in the final `await complete_all(futures)` -/
  | final
  /-- returned -/
  | finished
  deriving DecidableEq, Repr

structure State where
  /-- number of runners for which a task has been created -/
  next : Nat
  main : Main
  st : Nat → St
  /-- free slots of the semaphore -/
  sem : Nat
  tally : Tally
  interrupted : Bool
  maxfailReached : Bool

def State.failCount (s : State) : Nat := s.tally.fail

def init (c : Config) : State :=
  { next := 0, main := .top, st := fun _ => .notLaunched, sem := c.jobs, tally := {},
    interrupted := false, maxfailReached := false }

def upd (f : Nat → St) (i : Nat) (v : St) : Nat → St := fun j => if j = i then v else f j

/-- every task with index below `k` has a done future -/
def allTerminalBelow (f : Nat → St) : Nat → Bool
  | 0 => true
  | k + 1 => (f k).isTerminal && allTerminalBelow f k

/-- `repeat > 1 and fail_count` -/
def repeatFailed (c : Config) (s : State) : Bool := c.repeatGt1 && decide (s.failCount > 0)

/-- `future.cancel()` for every future in `running_tests` -/
def cancelSt : St → St
  | .waiting => .cancelled
  | .running _ => .running true
  | x => x

inductive Label where
  | launch
  | serialDone
  | loopEnd
  | allDone
  | acquireStart (i : Nat)
  | acquireSkip (i : Nat)
  | finish (i : Nat) (r : TestResult)
  deriving DecidableEq, Repr

/-- the transition function: `none` = the label is not enabled in this state -/
def step (c : Config) (s : State) : Label → Option State
  | .launch =>
    if s.main = .top ∧ s.next < c.n then
      if c.isPar s.next then
        -- parallel: create the task, check the break condition, go on
        let s1 := { s with st := upd s.st s.next .waiting, next := s.next + 1 }
        some (if repeatFailed c s then { s1 with main := .final } else s1)
      else if allTerminalBelow s.st s.next then
        some { s with st := upd s.st s.next .waiting, next := s.next + 1, main := .waitSerial }
      else none
    else none
  | .serialDone =>
    if s.main = .waitSerial ∧ (s.st (s.next - 1)).isTerminal then
      some { s with main := if repeatFailed c s then .final else .top }
    else none
  | .loopEnd =>
    if s.main = .top ∧ s.next = c.n then some { s with main := .final } else none
  | .allDone =>
    if s.main = .final ∧ allTerminalBelow s.st s.next then some { s with main := .finished } else none
  | .acquireStart i =>
    if s.st i = .waiting ∧ s.sem > 0 ∧ ¬ (s.interrupted ∨ repeatFailed c s) then
      some { s with st := upd s.st i (.running false), sem := s.sem - 1 }
    else none
  | .acquireSkip i =>
    if s.st i = .waiting ∧ s.sem > 0 ∧ (s.interrupted ∨ repeatFailed c s) then
      some { s with st := upd s.st i .skipped }
    else none
  | .finish i r =>
    match s.st i with
    | .running creq =>
      -- a cancelled test reports INTERRUPT, or TIMEOUT when the cancellation met it while it was being
      -- killed for its time limit; nothing else is ever reported as INTERRUPT (signals are not modelled)
      if r.isFinished ∧ (r = INTERRUPT → creq = true) ∧ (creq = true → r = INTERRUPT ∨ r = TIMEOUT) then
        let t := s.tally.add! r
        let st1 := upd s.st i (.done r)
        if c.maxfail > 0 ∧ t.fail ≥ c.maxfail ∧ r.isBad then
          some { s with tally := t, sem := s.sem + 1, st := fun j => cancelSt (st1 j),
                        interrupted := true, maxfailReached := true }
        else
          some { s with tally := t, sem := s.sem + 1, st := st1 }
      else none
    | _ => none

/-- executions: `Exec c tr s` — the label sequence `tr` (oldest first) leads from `init c` to `s` -/
inductive Exec (c : Config) : List Label → State → Prop where
  | nil : Exec c [] (init c)
  | snoc {tr s l s'} : Exec c tr s → step c s l = some s' → Exec c (tr ++ [l]) s'

def Reach (c : Config) (s : State) : Prop := ∃ tr, Exec c tr s

/-- number of tasks with index below `k` whose test is running -/
def cnt (f : Nat → St) : Nat → Nat
  | 0 => 0
  | k + 1 => cnt f k + (if (f k).isRunning then 1 else 0)

/-- number of tests running -/
def countRunning (c : Config) (s : State) : Nat := cnt s.st c.n

/-- how often the test of runner `i` was started in a label sequence -/
def startCount (i : Nat) (tr : List Label) : Nat := (tr.filter (fun l => decide (l = .acquireStart i))).length

/-- the results processed in a label sequence, in order -/
def resultsOf : List Label → List TestResult
  | [] => []
  | .finish _ r :: tr => r :: resultsOf tr
  | _ :: tr => resultsOf tr

/-! ### configuration built by `doit` / `SingleTestRunner.__init__` -/

/-- `doit`: `num_processes = min(num_processes, len(tests) * repeat)`; runners = tests repeated;
`SingleTestRunner`: `is_parallel = test.is_parallel and num_processes > 1` (not interactive) -/
def mkConfig (jobsRequested reps maxfail : Nat) (declaredPar : List Bool) : Config :=
  let jobs := min jobsRequested (declaredPar.length * reps)
  { jobs := jobs, repeatGt1 := decide (reps > 1), maxfail := maxfail,
    par := ((List.replicate reps declaredPar).flatten).map (fun p => p && decide (jobs > 1)) }

/-! ### replay of an observed event log (driver command `trace`) -/

/-- events observable from outside: a test program starts; the harness processes a result -/
inductive Event where
  | start (i : Nat)
  | result (i : Nat) (r : TestResult)
  deriving Repr

/-- one enabled step of the main coroutine, if any -/
def mainStep (c : Config) (s : State) : Option State :=
  match step c s .launch with
  | some s' => some s'
  | none =>
    match step c s .serialDone with
    | some s' => some s'
    | none =>
      match step c s .loopEnd with
      | some s' => some s'
      | none => step c s .allDone

/-- perform every enabled `acquireSkip` for tasks below `k` (silent: such a task can never start) -/
def skipAll (c : Config) (s : State) : Nat → State
  | 0 => s
  | k + 1 =>
    let s1 := skipAll c s k
    match step c s1 (.acquireSkip k) with
    | some s2 => s2
    | none => s1

/-- advance the main coroutine (and silent skips) until task `i` exists; fuel bounds the main steps -/
def advanceUntilLaunched (c : Config) (i : Nat) : Nat → State → Option State
  | 0, s => if s.st i = .notLaunched then none else some s
  | fuel + 1, s =>
    if s.st i ≠ .notLaunched then some s
    else
      match mainStep c (skipAll c s c.n) with
      | some s' => advanceUntilLaunched c i fuel s'
      | none => none

inductive ReplayErr where
  /-- the test started although the main loop could not yet have created its task -/
  | notLaunchable
  /-- the test started while the semaphore had no free slot, or after an interruption / repeat failure -/
  | startNotEnabled
  /-- a result for a test that is not running, or a result the model forbids for it -/
  | resultNotEnabled
  /-- the log ended but the model cannot reach `finished` without further test activity -/
  | notFinished
  deriving Repr, DecidableEq

def replayEvent (c : Config) (s : State) : Event → Except ReplayErr State
  | .start i =>
    match advanceUntilLaunched c i (2 * c.n + 4) s with
    | none => .error .notLaunchable
    | some s1 =>
      match step c s1 (.acquireStart i) with
      | some s2 => .ok s2
      | none => .error .startNotEnabled
  | .result i r =>
    match step c s (.finish i r) with
    | some s1 => .ok s1
    | none => .error .resultNotEnabled

/-- run main steps and silent skips to completion -/
def drain (c : Config) : Nat → State → State
  | 0, s => s
  | fuel + 1, s =>
    let s1 := skipAll c s c.n
    match mainStep c s1 with
    | some s2 => drain c fuel s2
    | none => s1

/-- replay a whole log; answer the final state or the index of the first illegal event -/
def replay (c : Config) (evs : List Event) : Except (Nat × ReplayErr) State :=
  let rec go (k : Nat) (s : State) : List Event → Except (Nat × ReplayErr) State
    | [] =>
      let s1 := drain c (2 * c.n + 4) s
      if s1.main = .finished then .ok s1 else .error (k, .notFinished)
    | e :: es =>
      match replayEvent c s e with
      | .ok s1 => go (k + 1) s1 es
      | .error err => .error (k, err)
  go 0 (init c) evs

end MesonModel.Sched
