/-
Invariants of the scheduler transition system (helper lemmas for Props/C12.lean).
-/
import MesonModel.Sched.Model

namespace MesonModel.Sched
open TestResult

/-! ### small facts -/

theorem allTerminalBelow_iff (f : Nat → St) (k : Nat) :
    allTerminalBelow f k = true ↔ ∀ j, j < k → (f j).isTerminal = true := by
  induction k with
  | zero => simp [allTerminalBelow]
  | succ k ih =>
    simp only [allTerminalBelow, Bool.and_eq_true, ih]
    constructor
    · rintro ⟨h1, h2⟩ j hj
      by_cases h : j = k
      · subst h; exact h1
      · exact h2 j (by omega)
    · intro h
      exact ⟨h k (by omega), fun j hj => h j (by omega)⟩

theorem St.terminal_not_active {x : St} (h : x.isTerminal = true) : x.isActive = false := by
  cases x <;> simp_all [St.isTerminal, St.isActive]

theorem St.running_active {x : St} (h : x.isRunning = true) : x.isActive = true := by
  cases x <;> simp_all [St.isRunning, St.isActive]

theorem St.active_cases {x : St} (h : x.isActive = true) : x = .waiting ∨ x.isRunning = true := by
  cases x <;> simp_all [St.isRunning, St.isActive]

theorem St.not_terminal_cases (x : St) (h : x.isTerminal = false) : x = .notLaunched ∨ x.isActive = true := by
  cases x <;> simp_all [St.isTerminal, St.isActive]

@[simp] theorem cancelSt_notLaunched (x : St) : cancelSt x = .notLaunched ↔ x = .notLaunched := by
  cases x <;> simp [cancelSt]

theorem cancelSt_terminal (x : St) (h : x.isTerminal = true) : (cancelSt x).isTerminal = true := by
  cases x <;> simp_all [cancelSt, St.isTerminal]

theorem cancelSt_active (x : St) (h : (cancelSt x).isActive = true) : x.isActive = true := by
  cases x <;> simp_all [cancelSt, St.isActive]

@[simp] theorem cancelSt_running (x : St) : (cancelSt x).isRunning = x.isRunning := by
  cases x <;> simp [cancelSt, St.isRunning]

@[simp] theorem cancelSt_started (x : St) : (cancelSt x).started = x.started := by
  cases x <;> simp [cancelSt, St.started]

@[simp] theorem upd_same (f : Nat → St) (i : Nat) (v : St) : upd f i v i = v := by simp [upd]

theorem upd_ne (f : Nat → St) {i j : Nat} (v : St) (h : j ≠ i) : upd f i v j = f j := by simp [upd, h]

/-! ### which labels belong to the main coroutine, which to tasks -/

def Label.isMain : Label → Bool
  | .launch | .serialDone | .loopEnd | .allDone => true
  | _ => false

/-- what a task step may do to the status table -/
def TaskMono (f g : Nat → St) : Prop :=
  ∀ j, (g j = .notLaunched ↔ f j = .notLaunched) ∧ ((f j).isTerminal = true → (g j).isTerminal = true) ∧
    ((g j).isActive = true → (f j).isActive = true)

theorem taskMono_upd (f : Nat → St) (i : Nat) (v : St) (h1 : f i ≠ .notLaunched) (h2 : v ≠ .notLaunched)
    (h3 : (f i).isTerminal = false) (h4 : v.isActive = true → (f i).isActive = true) : TaskMono f (upd f i v) := by
  intro j
  by_cases h : j = i
  · subst h; simp [upd, h1, h2, h3]; exact h4
  · simp [upd, h]

theorem taskMono_cancel {f g : Nat → St} (h : TaskMono f g) : TaskMono f (fun j => cancelSt (g j)) := by
  intro j
  obtain ⟨a, b, c⟩ := h j
  refine ⟨by simp [a], fun t => cancelSt_terminal _ (b t), fun t => c (cancelSt_active _ t)⟩

/-- every task step leaves `next` and `main` alone and is monotone on the status table -/
theorem task_step {c : Config} {s s' : State} {l : Label} (hl : l.isMain = false) (hs : step c s l = some s') :
    s'.next = s.next ∧ s'.main = s.main ∧ TaskMono s.st s'.st := by
  cases l with
  | launch | serialDone | loopEnd | allDone => simp [Label.isMain] at hl
  | acquireStart i =>
    simp only [step] at hs
    split at hs
    · rename_i h
      cases hs
      refine ⟨rfl, rfl, taskMono_upd _ _ _ ?_ ?_ ?_ ?_⟩ <;> simp [h.1, St.isTerminal, St.isActive]
    · cases hs
  | acquireSkip i =>
    simp only [step] at hs
    split at hs
    · rename_i h
      cases hs
      refine ⟨rfl, rfl, taskMono_upd _ _ _ ?_ ?_ ?_ ?_⟩ <;> simp [h.1, St.isTerminal, St.isActive]
    · cases hs
  | finish i r =>
    simp only [step] at hs
    split at hs
    · rename_i creq hrun
      split at hs
      · have hm : TaskMono s.st (upd s.st i (.done r)) := by
          refine taskMono_upd _ _ _ ?_ ?_ ?_ ?_ <;> simp [hrun, St.isTerminal, St.isActive]
        split at hs
        · cases hs
          exact ⟨rfl, rfl, taskMono_cancel hm⟩
        · cases hs
          exact ⟨rfl, rfl, hm⟩
      · cases hs
    · cases hs

/-! ### structural invariant and serial discipline -/

structure Inv (c : Config) (s : State) : Prop where
  next_le : s.next ≤ c.n
  notLaunched : ∀ j, s.next ≤ j → s.st j = .notLaunched
  launched : ∀ j, j < s.next → s.st j ≠ .notLaunched
  waitSerial : s.main = .waitSerial →
    1 ≤ s.next ∧ c.isPar (s.next - 1) = false ∧ ∀ j, j + 1 < s.next → (s.st j).isTerminal = true
  serialActive : ∀ j, j < s.next → c.isPar j = false → (s.st j).isActive = true →
    s.main = .waitSerial ∧ j + 1 = s.next

theorem Inv.init (c : Config) : Inv c (init c) := by
  refine ⟨by simp [Sched.init], by simp [Sched.init], by simp [Sched.init], by simp [Sched.init], by simp [Sched.init]⟩

theorem Inv.task {c : Config} {s s' : State} (h : Inv c s) (hn : s'.next = s.next) (hm : s'.main = s.main)
    (ht : TaskMono s.st s'.st) : Inv c s' := by
  refine ⟨by rw [hn]; exact h.next_le, ?_, ?_, ?_, ?_⟩
  · intro j hj
    rw [hn] at hj
    exact (ht j).1.2 (h.notLaunched j hj)
  · intro j hj hq
    rw [hn] at hj
    exact h.launched j hj ((ht j).1.1 hq)
  · intro hw
    rw [hm] at hw
    obtain ⟨a, b, d⟩ := h.waitSerial hw
    rw [hn]
    exact ⟨a, b, fun j hj => (ht j).2.1 (d j hj)⟩
  · intro j hj hp ha
    rw [hn] at hj
    have := h.serialActive j hj hp ((ht j).2.2 ha)
    rw [hn, hm]; exact this

theorem Inv.step {c : Config} {s s' : State} {l : Label} (h : Inv c s) (hs : step c s l = some s') : Inv c s' := by
  cases hl : l.isMain with
  | false =>
    obtain ⟨a, b, d⟩ := task_step hl hs
    exact h.task a b d
  | true =>
    cases l with
    | acquireStart i | acquireSkip i | finish i r => simp [Label.isMain] at hl
    | launch =>
      simp only [MesonModel.Sched.step] at hs
      split at hs
      · rename_i hg
        obtain ⟨hmain, hlt⟩ := hg
        split at hs
        · -- parallel runner
          rename_i hpar
          have key : Inv c { s with st := upd s.st s.next .waiting, next := s.next + 1 } := by
            refine ⟨Nat.succ_le_of_lt hlt, ?_, ?_, ?_, ?_⟩
            · intro j hj
              simp only at hj
              simp only
              rw [upd_ne _ _ (by omega)]
              exact h.notLaunched j (by omega)
            · intro j hj
              simp only at hj
              simp only
              by_cases e : j = s.next
              · subst e; simp
              · rw [upd_ne _ _ e]; exact h.launched j (by omega)
            · intro hw; simp only at hw; rw [hmain] at hw; cases hw
            · intro j hj hp ha
              simp only at hj ha
              by_cases e : j = s.next
              · subst e; rw [hpar] at hp; cases hp
              · rw [upd_ne _ _ e] at ha
                have := (h.serialActive j (by omega) hp ha).1
                rw [hmain] at this; cases this
          split at hs
          · cases hs
            refine ⟨key.next_le, key.notLaunched, key.launched, ?_, ?_⟩
            · intro hw; cases hw
            · intro j hj hp ha
              have := (key.serialActive j hj hp ha).1
              simp only at this; rw [hmain] at this; cases this
          · cases hs; exact key
        · split at hs
          · -- non-parallel runner: everything before it is done
            rename_i hpar hall
            rw [allTerminalBelow_iff] at hall
            cases hs
            refine ⟨Nat.succ_le_of_lt hlt, ?_, ?_, ?_, ?_⟩
            · intro j hj
              simp only at hj
              simp only
              rw [upd_ne _ _ (by omega)]
              exact h.notLaunched j (by omega)
            · intro j hj
              simp only at hj
              simp only
              by_cases e : j = s.next
              · subst e; simp
              · rw [upd_ne _ _ e]; exact h.launched j (by omega)
            · intro _
              simp only
              refine ⟨by omega, by simpa using hpar, ?_⟩
              intro j hj
              rw [upd_ne _ _ (by omega)]
              exact hall j (by omega)
            · intro j hj hp ha
              simp only at hj ha
              simp only
              by_cases e : j = s.next
              · subst e; simp
              · rw [upd_ne _ _ e] at ha
                have := St.terminal_not_active (hall j (by omega))
                rw [this] at ha; cases ha
          · cases hs
      · cases hs
    | serialDone =>
      simp only [MesonModel.Sched.step] at hs
      split at hs
      · rename_i hg
        obtain ⟨hmain, hterm⟩ := hg
        cases hs
        refine ⟨h.next_le, h.notLaunched, h.launched, ?_, ?_⟩
        · intro hw
          simp only at hw
          split at hw <;> cases hw
        · intro j hj hp ha
          obtain ⟨_, e⟩ := h.serialActive j hj hp ha
          have : s.next - 1 = j := by omega
          rw [this] at hterm
          have := St.terminal_not_active hterm
          rw [this] at ha; cases ha
      · cases hs
    | loopEnd =>
      simp only [MesonModel.Sched.step] at hs
      split at hs
      · rename_i hg
        cases hs
        refine ⟨h.next_le, h.notLaunched, h.launched, ?_, ?_⟩
        · intro hw; cases hw
        · intro j hj hp ha
          have := (h.serialActive j hj hp ha).1
          rw [hg.1] at this; cases this
      · cases hs
    | allDone =>
      simp only [MesonModel.Sched.step] at hs
      split at hs
      · rename_i hg
        cases hs
        refine ⟨h.next_le, h.notLaunched, h.launched, ?_, ?_⟩
        · intro hw; cases hw
        · intro j hj hp ha
          have := (h.serialActive j hj hp ha).1
          rw [hg.1] at this; cases this
      · cases hs

theorem Exec.inv {c : Config} {tr : List Label} {s : State} (h : Exec c tr s) : Inv c s := by
  induction h with
  | nil => exact Inv.init c
  | snoc _ hs ih => exact ih.step hs

/-- the heart of serial exclusion: an active non-parallel task is the only active task -/
theorem Inv.serial_alone {c : Config} {s : State} (h : Inv c s) {i j : Nat}
    (hp : c.isPar i = false) (hi : (s.st i).isActive = true) (hj : (s.st j).isActive = true) : i = j := by
  have li : i < s.next := by
    apply Nat.lt_of_not_le
    intro hle
    have := h.notLaunched i hle
    rw [this] at hi; cases hi
  have lj : j < s.next := by
    apply Nat.lt_of_not_le
    intro hle
    have := h.notLaunched j hle
    rw [this] at hj; cases hj
  obtain ⟨hw, e⟩ := h.serialActive i li hp hi
  obtain ⟨_, _, ht⟩ := h.waitSerial hw
  apply Classical.byContradiction
  intro hne
  have : j + 1 < s.next := by omega
  have := St.terminal_not_active (ht j this)
  rw [this] at hj; cases hj

/-! ### counting running tests -/

theorem cnt_congr {f g : Nat → St} {k : Nat} (h : ∀ j, j < k → (f j).isRunning = (g j).isRunning) :
    cnt f k = cnt g k := by
  induction k with
  | zero => rfl
  | succ k ih =>
    simp only [cnt]
    rw [ih (fun j hj => h j (by omega)), h k (by omega)]

theorem cnt_upd_ge (f : Nat → St) (i : Nat) (v : St) {k : Nat} (h : k ≤ i) : cnt (upd f i v) k = cnt f k := by
  apply cnt_congr
  intro j hj
  rw [upd_ne _ _ (by omega)]

theorem cnt_upd (f : Nat → St) (i : Nat) (v : St) {k : Nat} (h : i < k) :
    cnt (upd f i v) k + (if (f i).isRunning then 1 else 0) = cnt f k + (if v.isRunning then 1 else 0) := by
  induction k with
  | zero => omega
  | succ k ih =>
    simp only [cnt]
    by_cases e : i = k
    · subst e
      rw [cnt_upd_ge _ _ _ (Nat.le_refl _), upd_same]
      omega
    · rw [upd_ne _ _ (fun q => e q.symm)]
      have := ih (by omega)
      omega

theorem cnt_cancel (f : Nat → St) (k : Nat) : cnt (fun j => cancelSt (f j)) k = cnt f k :=
  cnt_congr (fun j _ => by simp)

theorem cnt_pos {f : Nat → St} {i k : Nat} (h : i < k) (hr : (f i).isRunning = true) : 1 ≤ cnt f k := by
  induction k with
  | zero => omega
  | succ k ih =>
    simp only [cnt]
    by_cases e : i = k
    · subst e; simp [hr]
    · have := ih (by omega); omega

theorem cnt_le (f : Nat → St) (k : Nat) : cnt f k ≤ k := by
  induction k with
  | zero => simp [cnt]
  | succ k ih => simp only [cnt]; split <;> omega

/-- semaphore accounting: running tests + free slots = jobs -/
def JobInv (c : Config) (s : State) : Prop := cnt s.st c.n + s.sem = c.jobs

theorem JobInv.step {c : Config} {s s' : State} {l : Label} (hi : Inv c s) (h : JobInv c s)
    (hs : step c s l = some s') : JobInv c s' := by
  have lt_of_launched : ∀ i, s.st i ≠ .notLaunched → i < c.n := by
    intro i hne
    apply Nat.lt_of_not_le
    intro hle
    exact hne (hi.notLaunched i (Nat.le_trans hi.next_le hle))
  unfold JobInv at *
  cases l with
  | launch =>
    simp only [MesonModel.Sched.step] at hs
    have hnl := hi.notLaunched s.next (Nat.le_refl _)
    have hc : cnt (upd s.st s.next .waiting) c.n = cnt s.st c.n := by
      apply cnt_congr
      intro j _
      by_cases e : j = s.next
      · subst e; simp [hnl, St.isRunning]
      · rw [upd_ne _ _ e]
    split at hs
    · split at hs
      · split at hs <;> cases hs <;> simpa [hc] using h
      · split at hs
        · cases hs; simpa [hc] using h
        · cases hs
    · cases hs
  | serialDone =>
    simp only [MesonModel.Sched.step] at hs
    split at hs
    · cases hs; exact h
    · cases hs
  | loopEnd =>
    simp only [MesonModel.Sched.step] at hs
    split at hs
    · cases hs; exact h
    · cases hs
  | allDone =>
    simp only [MesonModel.Sched.step] at hs
    split at hs
    · cases hs; exact h
    · cases hs
  | acquireStart i =>
    simp only [MesonModel.Sched.step] at hs
    split at hs
    · rename_i hg
      cases hs
      have := cnt_upd s.st i (.running false) (lt_of_launched i (by simp [hg.1]))
      simp [hg.1, St.isRunning] at this
      simp only
      omega
    · cases hs
  | acquireSkip i =>
    simp only [MesonModel.Sched.step] at hs
    split at hs
    · rename_i hg
      cases hs
      have := cnt_upd s.st i .skipped (lt_of_launched i (by simp [hg.1]))
      simp [hg.1, St.isRunning] at this
      simp only
      omega
    · cases hs
  | finish i r =>
    simp only [MesonModel.Sched.step] at hs
    split at hs
    · rename_i creq hrun
      have := cnt_upd s.st i (.done r) (lt_of_launched i (by simp [hrun]))
      simp [hrun, St.isRunning] at this
      split at hs
      · split at hs
        · cases hs
          simp only
          rw [cnt_cancel]
          omega
        · cases hs
          simp only
          omega
      · cases hs
    · cases hs

theorem Exec.jobInv {c : Config} {tr : List Label} {s : State} (h : Exec c tr s) : JobInv c s := by
  induction h with
  | nil => simp [JobInv, init]; exact (by
      have : ∀ k, cnt (fun _ => St.notLaunched) k = 0 := by
        intro k; induction k with
        | zero => rfl
        | succ k ih => simp [cnt, ih, St.isRunning]
      exact this _)
  | snoc hprev hs ih => exact ih.step hprev.inv hs

end MesonModel.Sched
