/-
Soundness of the trace checker `replay` (driver command `trace`): an accepted event log is the observable
projection of a genuine execution of the transition system that ends with `_run_tests` returned.
-/
import MesonModel.Sched.Model

namespace MesonModel.Sched

/-- what an outside observer sees of a label sequence -/
def observe : List Label → List Event
  | [] => []
  | .acquireStart i :: tr => .start i :: observe tr
  | .finish i r :: tr => .result i r :: observe tr
  | _ :: tr => observe tr

theorem observe_append (a b : List Label) : observe (a ++ b) = observe a ++ observe b := by
  induction a with
  | nil => rfl
  | cons x xs ih => cases x <;> simp [observe, ih]

/-- `Path c s ls s'`: the labels `ls`, each enabled in turn, lead from `s` to `s'` -/
inductive Path (c : Config) : State → List Label → State → Prop where
  | nil (s : State) : Path c s [] s
  | cons {s s1 s2 : State} {l : Label} {ls : List Label} :
      step c s l = some s1 → Path c s1 ls s2 → Path c s (l :: ls) s2

theorem Path.trans {c : Config} {s s1 s2 : State} {a b : List Label} (h1 : Path c s a s1) (h2 : Path c s1 b s2) :
    Path c s (a ++ b) s2 := by
  induction h1 with
  | nil => simpa using h2
  | cons hs _ ih => exact .cons hs (ih h2)

theorem Path.single {c : Config} {s s' : State} {l : Label} (h : step c s l = some s') : Path c s [l] s' :=
  .cons h (.nil _)

theorem Exec.append_path {c : Config} {tr : List Label} {s s' : State} {ls : List Label}
    (h : Exec c tr s) (p : Path c s ls s') : Exec c (tr ++ ls) s' := by
  induction p generalizing tr with
  | nil => simpa using h
  | cons hs _ ih =>
    have := ih (h.snoc hs)
    simpa using this

/-- a silent path: nothing observable happens -/
def SilentPath (c : Config) (s s' : State) : Prop := ∃ ls, Path c s ls s' ∧ observe ls = []

theorem SilentPath.refl (c : Config) (s : State) : SilentPath c s s := ⟨[], .nil _, rfl⟩

theorem SilentPath.trans {c : Config} {s s1 s2 : State} (h1 : SilentPath c s s1) (h2 : SilentPath c s1 s2) :
    SilentPath c s s2 := by
  obtain ⟨a, pa, oa⟩ := h1
  obtain ⟨b, pb, ob⟩ := h2
  exact ⟨a ++ b, pa.trans pb, by rw [observe_append, oa, ob]; rfl⟩

theorem mainStep_silent {c : Config} {s s' : State} (h : mainStep c s = some s') : SilentPath c s s' := by
  unfold mainStep at h
  split at h
  · rename_i s1 h1; cases h; exact ⟨[.launch], .single h1, rfl⟩
  · split at h
    · rename_i s1 h1; cases h; exact ⟨[.serialDone], .single h1, rfl⟩
    · split at h
      · rename_i s1 h1; cases h; exact ⟨[.loopEnd], .single h1, rfl⟩
      · exact ⟨[.allDone], .single h, rfl⟩

theorem skipAll_silent (c : Config) (s : State) (k : Nat) : SilentPath c s (skipAll c s k) := by
  induction k with
  | zero => exact .refl c s
  | succ k ih =>
    simp only [skipAll]
    split
    · rename_i s2 h2
      exact ih.trans ⟨[.acquireSkip k], .single h2, rfl⟩
    · exact ih

theorem advance_silent {c : Config} {i : Nat} (fuel : Nat) {s s' : State}
    (h : advanceUntilLaunched c i fuel s = some s') : SilentPath c s s' := by
  induction fuel generalizing s with
  | zero =>
    simp only [advanceUntilLaunched] at h
    split at h
    · cases h
    · cases h; exact .refl c _
  | succ fuel ih =>
    simp only [advanceUntilLaunched] at h
    split at h
    · cases h; exact .refl c _
    · split at h
      · rename_i s1 h1
        exact ((skipAll_silent c s c.n).trans (mainStep_silent h1)).trans (ih h)
      · cases h

theorem drain_silent (c : Config) (fuel : Nat) (s : State) : SilentPath c s (drain c fuel s) := by
  induction fuel generalizing s with
  | zero => exact .refl c s
  | succ fuel ih =>
    simp only [drain]
    have h0 : SilentPath c s (skipAll c s c.n) := skipAll_silent c s c.n
    split
    · rename_i s2 h2
      exact (h0.trans (mainStep_silent h2)).trans (ih s2)
    · exact h0

theorem replayEvent_path {c : Config} {s s' : State} {e : Event} (h : replayEvent c s e = .ok s') :
    ∃ ls, Path c s ls s' ∧ observe ls = [e] := by
  cases e with
  | start i =>
    simp only [replayEvent] at h
    split at h
    · cases h
    · rename_i s1 h1
      split at h
      · rename_i s2 h2
        cases h
        obtain ⟨ls, p, o⟩ := advance_silent _ h1
        exact ⟨ls ++ [.acquireStart i], p.trans (.single h2), by rw [observe_append, o]; rfl⟩
      · cases h
  | result i r =>
    simp only [replayEvent] at h
    split at h
    · rename_i s1 h1
      cases h
      exact ⟨[.finish i r], .single h1, rfl⟩
    · cases h

theorem replay_go_path {c : Config} (evs : List Event) {k : Nat} {s s' : State}
    (h : replay.go c k s evs = .ok s') :
    ∃ ls, Path c s ls s' ∧ observe ls = evs ∧ s'.main = .finished := by
  induction evs generalizing k s with
  | nil =>
    simp only [replay.go] at h
    split at h
    · rename_i hm
      cases h
      obtain ⟨ls, p, o⟩ := drain_silent c (2 * c.n + 4) s
      exact ⟨ls, p, o, hm⟩
    · cases h
  | cons e es ih =>
    simp only [replay.go] at h
    split at h
    · rename_i s1 h1
      obtain ⟨a, pa, oa⟩ := replayEvent_path h1
      obtain ⟨b, pb, ob, hm⟩ := ih h
      exact ⟨a ++ b, pa.trans pb, by rw [observe_append, oa, ob]; rfl, hm⟩
    · cases h

/-- an accepted log is what an observer sees of a complete execution of the transition system -/
theorem replay_sound {c : Config} {evs : List Event} {s : State} (h : replay c evs = .ok s) :
    ∃ tr, Exec c tr s ∧ observe tr = evs ∧ s.main = .finished := by
  obtain ⟨ls, p, o, hm⟩ := replay_go_path evs h
  exact ⟨ls, by simpa using Exec.nil.append_path p, o, hm⟩

end MesonModel.Sched
