/-
Model of test selection in `TestHarness.get_tests`: `split_suite_string`, `test_in_suites`, `test_suitable`
(suite part and `--exclude` names; no test setup), and `--slice i/n` (`tests[i-1::n]`).  Core Lean only.
-/
namespace MesonModel.Sched

abbrev Str := List Char

/-- `split_suite_string`: split at the first `:`; no colon gives `(suite, "")` -/
def splitSuite : Str → Str × Str
  | [] => ([], [])
  | c :: cs =>
    if c = ':' then ([], cs)
    else let (a, b) := splitSuite cs; (c :: a, b)

/-- the three-way rule in the body of the loops of `test_in_suites` -/
def suiteMatches (sel : Str) (prjst : Str) : Bool :=
  let (prjMatch, stMatch) := splitSuite sel
  let (prj, st) := splitSuite prjst
  if stMatch.isEmpty then (prjMatch == prj || prjMatch == st)
  else if prjMatch.isEmpty then st == stMatch
  else prj == prjMatch && st == stMatch

/-- `test_in_suites(test, suites)`: two nested loops with early `return True` -/
def testInSuites (testSuites : List Str) (suites : List Str) : Bool :=
  suites.any (fun sel => testSuites.any (fun prjst => suiteMatches sel prjst))

structure TestDesc where
  name : Str
  project : Str
  suites : List Str

/-- `test_suitable` with `options.setup` empty -/
def testSuitable (mainProject : Str) (includeSuites excludeSuites : List Str) (excluded : List Str)
    (t : TestDesc) : Bool :=
  if testInSuites t.suites excludeSuites then false
  else if mainProject == t.project && excluded.contains t.name then false
  else if excluded.contains (t.project ++ [':'] ++ t.name) then false
  else if !includeSuites.isEmpty then testInSuites t.suites includeSuites
  else true

/-- Python `l[start::step]` for `step ≥ 1`: walk the list with a countdown to the next pick -/
def strideFrom {α} (step : Nat) : Nat → List α → List α
  | _, [] => []
  | 0, x :: xs => x :: strideFrom step (step - 1) xs
  | k + 1, _ :: xs => strideFrom step k xs

/-- `tests[our_slice - 1::nslices]` -/
def pySlice {α} (l : List α) (ourSlice nslices : Nat) : List α := strideFrom nslices (ourSlice - 1) l

inductive SelectErr where
  /-- `number of slices (n) exceeds number of tests` -/
  | tooManySlices
  deriving DecidableEq, Repr

/-- the tail of `get_tests`: filter, then slice (`slice = some (i, n)` with `1 ≤ i ≤ n` from `test_slice`) -/
def getTests {α} (suitable : α → Bool) (slice : Option (Nat × Nat)) (tests : List α) :
    Except SelectErr (List α) :=
  let ts := tests.filter suitable
  match slice with
  | none => .ok ts
  | some (i, n) => if n > ts.length then .error .tooManySlices else .ok (pySlice ts i n)

end MesonModel.Sched
