/-
Lemmas about `--slice` (`pySlice`) and suite selection.
-/
import MesonModel.Sched.Select

namespace MesonModel.Sched

/-! ### slices -/

theorem strideFrom_nil {α} (n k : Nat) : strideFrom n k ([] : List α) = [] := by
  cases k <;> rfl

theorem flatMap_strideFrom_nil {α} (n : Nat) (ks : List Nat) :
    ks.flatMap (fun k => strideFrom n k ([] : List α)) = [] := by
  induction ks with
  | nil => rfl
  | cons k ks ih => simp [List.flatMap_cons, strideFrom_nil, ih]

/-- dealing a list into `m+1` strided sub-lists loses and duplicates nothing -/
theorem strides_perm {α} (m : Nat) (l : List α) :
    ((List.range (m + 1)).flatMap (fun k => strideFrom (m + 1) k l)).Perm l := by
  induction l with
  | nil => rw [flatMap_strideFrom_nil]
  | cons x xs ih =>
    rw [List.range_succ_eq_map, List.flatMap_cons, List.flatMap_map]
    -- slice 0 takes `x`; every other slice just moves its countdown
    have h0 : strideFrom (m + 1) 0 (x :: xs) = x :: strideFrom (m + 1) m xs := by simp [strideFrom]
    have hk : (fun a => strideFrom (m + 1) (Nat.succ a) (x :: xs)) = (fun a => strideFrom (m + 1) a xs) := by
      funext a; simp [strideFrom]
    rw [h0, hk, List.cons_append]
    apply List.Perm.cons
    rw [List.range_succ, List.flatMap_append] at ih
    simp only [List.flatMap_cons, List.flatMap_nil, List.append_nil] at ih
    exact List.perm_append_comm.trans ih

theorem strideFrom_map {α β} (f : α → β) (n k : Nat) (l : List α) :
    strideFrom n k (l.map f) = (strideFrom n k l).map f := by
  induction l generalizing k with
  | nil => simp [strideFrom_nil]
  | cons x xs ih =>
    cases k with
    | zero => simp [strideFrom, ih]
    | succ k => simp [strideFrom, ih]

theorem strideFrom_sublist {α} (n k : Nat) (l : List α) : (strideFrom n k l).Sublist l := by
  induction l generalizing k with
  | nil => rw [strideFrom_nil]; exact List.Sublist.refl _
  | cons x xs ih =>
    cases k with
    | zero => simp only [strideFrom]; exact (ih _).cons_cons _
    | succ k => simp only [strideFrom]; exact (ih _).cons _

theorem nodup_flatMap_disjoint {α β} (f : α → List β) (L : List α) (h : (L.flatMap f).Nodup) :
    ∀ a ∈ L, ∀ b ∈ L, a ≠ b → ∀ x, x ∈ f a → x ∉ f b := by
  induction L with
  | nil => intro a ha; cases ha
  | cons c L ih =>
    rw [List.flatMap_cons, List.nodup_append] at h
    obtain ⟨_, h2, h3⟩ := h
    intro a ha b hb hne x hxa hxb
    rcases List.mem_cons.mp ha with rfl | ha'
    · rcases List.mem_cons.mp hb with rfl | hb'
      · exact hne rfl
      · exact h3 x hxa x (List.mem_flatMap.mpr ⟨b, hb', hxb⟩) rfl
    · rcases List.mem_cons.mp hb with rfl | hb'
      · exact h3 x hxb x (List.mem_flatMap.mpr ⟨a, ha', hxa⟩) rfl
      · exact ih h2 a ha' b hb' hne x hxa hxb

/-! ### suites -/

theorem splitSuite_no_colon (s : Str) (h : ':' ∉ s) : splitSuite s = (s, []) := by
  induction s with
  | nil => rfl
  | cons c cs ih =>
    have hc : c ≠ ':' := fun e => h (by simp [e])
    have hcs : ':' ∉ cs := fun e => h (by simp [e])
    simp [splitSuite, hc, ih hcs]

theorem splitSuite_colon (a b : Str) (h : ':' ∉ a) : splitSuite (a ++ ':' :: b) = (a, b) := by
  induction a with
  | nil => simp [splitSuite]
  | cons c cs ih =>
    have hc : c ≠ ':' := fun e => h (by simp [e])
    have hcs : ':' ∉ cs := fun e => h (by simp [e])
    simp [splitSuite, hc, ih hcs]

end MesonModel.Sched
