/-
Lemmas about the two cuts of a run: a failure under `--repeat`, and `--maxfail`.  After the cut no further test
is started, for every schedule.
-/
import MesonModel.Sched.ReportLemmas
import MesonModel.Sched.ConfigLemmas

namespace MesonModel.Sched
open TestResult

/-- the last step of an execution -/
theorem Exec.snoc_inv {c : Config} {tr : List Label} {l : Label} {s' : State} (h : Exec c (tr ++ [l]) s') :
    ∃ s, Exec c tr s ∧ step c s l = some s' := by
  generalize ht : tr ++ [l] = t at h
  cases h with
  | nil => simp at ht
  | snoc hp hs =>
    rename_i tr0 s0 l0
    obtain ⟨e1, e2⟩ := List.append_inj' ht rfl
    simp only [List.cons.injEq, and_true] at e2
    subst e1; subst e2
    exact ⟨s0, hp, hs⟩

theorem step_interrupted {c : Config} {s s' : State} {l : Label} (hs : step c s l = some s') :
    s'.interrupted = match l with
      | .finish _ r =>
        (s.interrupted || decide (c.maxfail > 0 ∧ (s.tally.add! r).fail ≥ c.maxfail ∧ r.isBad = true))
      | _ => s.interrupted := by
  cases l with
  | launch =>
    simp only [step] at hs
    split at hs
    · split at hs
      · split at hs <;> cases hs <;> rfl
      · split at hs
        · cases hs; rfl
        · cases hs
    · cases hs
  | serialDone => simp only [step] at hs; split at hs <;> cases hs; rfl
  | loopEnd => simp only [step] at hs; split at hs <;> cases hs; rfl
  | allDone => simp only [step] at hs; split at hs <;> cases hs; rfl
  | acquireStart i => simp only [step] at hs; split at hs <;> cases hs; rfl
  | acquireSkip i => simp only [step] at hs; split at hs <;> cases hs; rfl
  | finish i r =>
    simp only [step] at hs
    split at hs
    · split at hs
      · split at hs
        · rename_i hc; cases hs; simp [hc]
        · rename_i hc; cases hs; simp [hc]
      · cases hs
    · cases hs

theorem Tally.add!_fail (t : Tally) (r : TestResult) :
    (t.add! r).fail = t.fail + (if r.countsAsFail then 1 else 0) := by
  cases r <;> simp [Tally.add!, Tally.add, TestResult.countsAsFail]

theorem countsAsFail_bad {r : TestResult} (h : r.countsAsFail = true) : r.isBad = true := by
  cases r <;> simp_all [TestResult.countsAsFail, TestResult.isBad]

/-- once `fail_count` has reached `--maxfail`, the run is interrupted (the result that brought the counter there
is FAIL, ERROR or INTERRUPT, hence bad, hence triggers `cancel_all_tests`) -/
theorem Exec.maxfail_interrupts {c : Config} {tr : List Label} {s : State} (h : Exec c tr s)
    (hm : c.maxfail > 0) (hf : s.tally.fail ≥ c.maxfail) : s.interrupted = true := by
  induction h with
  | nil => simp [init] at hf; omega
  | snoc hprev hs ih =>
    rename_i tr s l s'
    have ht := step_tally hs
    have hi := step_interrupted hs
    cases l with
    | finish i r =>
      simp only at ht hi
      rw [hi]
      by_cases hb : r.countsAsFail = true
      · have : c.maxfail > 0 ∧ (s.tally.add! r).fail ≥ c.maxfail ∧ r.isBad = true :=
          ⟨hm, by rw [← ht]; exact hf, countsAsFail_bad hb⟩
        simp [this]
      · have e : (s.tally.add! r).fail = s.tally.fail := by rw [Tally.add!_fail]; simp [hb]
        rw [ht, e] at hf
        simp [ih hf]
    | launch => simp only at ht hi; rw [hi]; exact ih (by rw [← ht]; exact hf)
    | serialDone => simp only at ht hi; rw [hi]; exact ih (by rw [← ht]; exact hf)
    | loopEnd => simp only at ht hi; rw [hi]; exact ih (by rw [← ht]; exact hf)
    | allDone => simp only at ht hi; rw [hi]; exact ih (by rw [← ht]; exact hf)
    | acquireStart i => simp only at ht hi; rw [hi]; exact ih (by rw [← ht]; exact hf)
    | acquireSkip i => simp only at ht hi; rw [hi]; exact ih (by rw [← ht]; exact hf)

/-- a test can only be started while the run is neither interrupted nor failed under `--repeat` -/
theorem step_acquireStart_guard {c : Config} {s s' : State} {i : Nat} (hs : step c s (.acquireStart i) = some s') :
    s.interrupted = false ∧ repeatFailed c s = false := by
  simp only [step] at hs
  split at hs
  · rename_i hg
    obtain ⟨_, _, h3⟩ := hg
    constructor
    · cases hq : s.interrupted with
      | false => rfl
      | true => exact absurd (Or.inl hq) h3
    · cases hq : repeatFailed c s with
      | false => rfl
      | true => exact absurd (Or.inr hq) h3
  · cases hs

theorem fail_tallyOf (rs : List TestResult) : (tallyOf rs).fail = rs.countP TestResult.countsAsFail := by
  rw [tallyOf, foldl_add!]; simp

/-! ### every processed result belongs to a test that was started, and no test is processed twice -/

def St.isDone : St → Bool
  | .done _ => true
  | _ => false

/-- the label is the processing of a result of runner `i` -/
def Label.isFinishOf (i : Nat) : Label → Bool
  | .finish j _ => j == i
  | _ => false

/-- how many results of runner `i` were processed in a label sequence -/
def finishCount (i : Nat) (tr : List Label) : Nat := (tr.filter (Label.isFinishOf i)).length

@[simp] theorem isDone_cancelSt (x : St) : (cancelSt x).isDone = x.isDone := by
  cases x <;> rfl

theorem isDone_upd (f : Nat → St) (i : Nat) (v : St) (h : v.isDone = (f i).isDone) (j : Nat) :
    (upd f i v j).isDone = (f j).isDone := by
  by_cases e : j = i
  · subst e; simp [h]
  · rw [upd_ne _ _ e]

theorem step_isDone {c : Config} {s s' : State} {l : Label} (hi : Inv c s) (hs : step c s l = some s') (j : Nat) :
    (s'.st j).isDone = ((s.st j).isDone || l.isFinishOf j) ∧
    (l.isFinishOf j = true → (s.st j).isRunning = true) := by
  cases l with
  | launch =>
    simp only [step] at hs
    have hnl := hi.notLaunched s.next (Nat.le_refl _)
    have key := isDone_upd s.st s.next .waiting (by simp [hnl, St.isDone]) j
    split at hs
    · split at hs
      · split at hs <;> cases hs <;> simp [key, Label.isFinishOf]
      · split at hs
        · cases hs; simp [key, Label.isFinishOf]
        · cases hs
    · cases hs
  | serialDone => simp only [step] at hs; split at hs <;> cases hs; simp [Label.isFinishOf]
  | loopEnd => simp only [step] at hs; split at hs <;> cases hs; simp [Label.isFinishOf]
  | allDone => simp only [step] at hs; split at hs <;> cases hs; simp [Label.isFinishOf]
  | acquireStart i =>
    simp only [step] at hs
    split at hs
    · rename_i hg
      cases hs
      simp [isDone_upd s.st i (.running false) (by simp [hg.1, St.isDone]) j, Label.isFinishOf]
    · cases hs
  | acquireSkip i =>
    simp only [step] at hs
    split at hs
    · rename_i hg
      cases hs
      simp [isDone_upd s.st i .skipped (by simp [hg.1, St.isDone]) j, Label.isFinishOf]
    · cases hs
  | finish i r =>
    simp only [step] at hs
    split at hs
    · rename_i creq hrun
      have hj : (upd s.st i (.done r) j).isDone = ((s.st j).isDone || (i == j)) := by
        by_cases e : j = i
        · subst e; simp [St.isDone]
        · have : ¬ i = j := fun q => e q.symm
          rw [upd_ne _ _ e]; simp [this]
      have hrun' : (i == j) = true → (s.st j).isRunning = true := by
        intro e
        have : i = j := by simpa using e
        subst this; rw [hrun]; rfl
      split at hs
      · split at hs <;> cases hs <;> exact ⟨by simp [hj, Label.isFinishOf], by simpa [Label.isFinishOf] using hrun'⟩
      · cases hs
    · cases hs

theorem finishCount_snoc (i : Nat) (tr : List Label) (l : Label) :
    finishCount i (tr ++ [l]) = finishCount i tr + (if l.isFinishOf i then 1 else 0) := by
  simp only [finishCount, List.filter_append, List.length_append]
  by_cases h : l.isFinishOf i = true <;> simp [h]

theorem St.running_not_done {x : St} (h : x.isRunning = true) : x.isDone = false := by
  cases x <;> simp_all [St.isRunning, St.isDone]

/-- the number of processed results of runner `i` is 1 if its task is done, else 0 -/
theorem Exec.finishCount_eq {c : Config} {tr : List Label} {s : State} (h : Exec c tr s) (i : Nat) :
    finishCount i tr = if (s.st i).isDone then 1 else 0 := by
  induction h with
  | nil => simp [finishCount, init, St.isDone]
  | snoc hprev hs ih =>
    rename_i tr s l s'
    rw [finishCount_snoc, ih]
    obtain ⟨a, b⟩ := step_isDone hprev.inv hs i
    by_cases e : l.isFinishOf i = true
    · rw [a, St.running_not_done (b e)]; simp [e]
    · rw [a]; simp [e]

theorem St.done_started {x : St} (h : x.isDone = true) : x.started = true := by
  cases x <;> simp_all [St.isDone, St.started]

theorem St.started_terminal_done {x : St} (h : x.started = true) (ht : x.isTerminal = true) : x.isDone = true := by
  cases x <;> simp_all [St.isDone, St.started, St.isTerminal]

end MesonModel.Sched
