/-
The configuration `doit` builds: runner `k` of the repeated list is test `k % len`.
-/
import MesonModel.Sched.Model

namespace MesonModel.Sched

theorem length_flatten_replicate {α} (l : List α) (r : Nat) :
    (List.replicate r l).flatten.length = r * l.length := by
  induction r with
  | zero => simp
  | succ r ih => simp [List.replicate_succ, ih, Nat.succ_mul, Nat.add_comm]

theorem flatten_replicate_getElem? {α} (l : List α) (r k : Nat) (h : k < r * l.length) :
    (List.replicate r l).flatten[k]? = l[k % l.length]? := by
  induction r generalizing k with
  | zero => simp at h
  | succ r ih =>
    rw [List.replicate_succ, List.flatten_cons, List.getElem?_append]
    split
    · rename_i hk; rw [Nat.mod_eq_of_lt hk]
    · rename_i hk
      have hk' : l.length ≤ k := Nat.le_of_not_lt hk
      rw [ih (k - l.length) (by rw [Nat.succ_mul] at h; omega), ← Nat.mod_eq_sub_mod hk']

theorem mkConfig_n (j r m : Nat) (d : List Bool) : (mkConfig j r m d).n = r * d.length := by
  simp [mkConfig, Config.n, length_flatten_replicate]

theorem mkConfig_jobs_le (j r m : Nat) (d : List Bool) : (mkConfig j r m d).jobs ≤ j := by
  simp [mkConfig]; exact Nat.min_le_left _ _

/-- a test declared non-parallel gives non-parallel runners in every repetition -/
theorem mkConfig_isPar_false (j r m : Nat) (d : List Bool) (k : Nat) (hk : k < (mkConfig j r m d).n)
    (hd : d[k % d.length]? = some false) : (mkConfig j r m d).isPar k = false := by
  rw [mkConfig_n] at hk
  simp only [Config.isPar, mkConfig, List.getD_eq_getElem?_getD, List.getElem?_map,
    flatten_replicate_getElem? d r k hk, hd]
  simp

/-- with one job every runner is non-parallel -/
theorem mkConfig_isPar_jobs1 (j r m : Nat) (d : List Bool) (k : Nat) (hk : k < (mkConfig j r m d).n)
    (hj : (mkConfig j r m d).jobs ≤ 1) : (mkConfig j r m d).isPar k = false := by
  have hk' := hk
  rw [mkConfig_n] at hk'
  have : ¬ (min j (d.length * r) > 1) := by
    simp [mkConfig] at hj; omega
  have hlt : k % d.length < d.length := Nat.mod_lt _ (by
    rcases Nat.eq_zero_or_pos d.length with h0 | h0
    · rw [h0] at hk'; simp at hk'
    · exact h0)
  simp only [Config.isPar, mkConfig, List.getD_eq_getElem?_getD, List.getElem?_map,
    flatten_replicate_getElem? d r k hk', List.getElem?_eq_getElem hlt]
  simp [this]

end MesonModel.Sched
