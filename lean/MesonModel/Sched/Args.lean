/-
Model of selection by positional test-name arguments, `TestHarness.tests_from_args` of `mesonbuild/mtest.py`
(`meson test NAME…`), and of `get_tests` with it:

    patterns = {}
    for arg in self.options.args:
        if ':' in arg:
            subproj, name = arg.split(':', maxsplit=1)
            if name == '': name = '*'
            if subproj == '': subproj = '*'
        else:
            subproj, name = '*', arg
        patterns[(subproj, name)] = False
    for t in tests:
        for subproj, name in list(patterns):            -- first matching pattern
            if fnmatch(t.project_name, subproj) and fnmatch(t.name, name):
                patterns[(subproj, name)] = True; yield t; break
    for (subproj, name), was_used in patterns.items():
        if not was_used:
            if some t in tests matches it: warning (another pattern took the test)
            else: raise MesonException('… test name does not match any test')

    get_tests:  tests = [suitable]; if args: tests = list(tests_from_args(tests)); if slice: …

`patterns` is a dict: duplicate arguments collapse, which cannot change the result (a test is looked up against the
patterns until the first hit), so the model keeps the plain list.  `fnmatch` is modelled for `*`, `?` and literal
characters (POSIX: case-sensitive); `[`-classes are outside the validated domain.  Core Lean only.
-/
import MesonModel.Sched.Select

namespace MesonModel.Sched

/-- `fnmatch.fnmatch(name, pat)` for patterns made of `*`, `?` and literal characters -/
def globMatch : (pat : Str) → (s : Str) → Bool
  | [], [] => true
  | [], _ :: _ => false
  | '*' :: p, [] => globMatch p []
  | '*' :: p, c :: s => globMatch p (c :: s) || globMatch ('*' :: p) s
  | _ :: _, [] => false
  | a :: p, c :: s => (a == '?' || a == c) && globMatch p s
termination_by pat s => pat.length + s.length

/-- the pattern pair `(subproj, name)` an argument stands for -/
def argPattern (arg : Str) : Str × Str :=
  if arg.contains ':' then
    let (sp, nm) := splitSuite arg          -- `arg.split(':', maxsplit=1)`
    (if sp.isEmpty then ['*'] else sp, if nm.isEmpty then ['*'] else nm)
  else (['*'], arg)

/-- `fnmatch(t.project_name, subproj) and fnmatch(t.name, name)` -/
def patMatches (t : TestDesc) (p : Str × Str) : Bool := globMatch p.1 t.project && globMatch p.2 t.name

inductive ArgsErr where
  /-- `… test name does not match any test` -/
  | noMatch
  deriving DecidableEq, Repr

/-- the generator `tests_from_args`, for any test type and any matching relation: each test is looked up against
the patterns until the first hit and yielded once; afterwards a pattern that matches no test at all is an error -/
def testsFromArgs {α β} (m : α → β → Bool) (pats : List β) (tests : List α) : Except ArgsErr (List α) :=
  let out := tests.filterMap (fun t => (pats.find? (fun p => m t p)).map (fun _ => t))
  if pats.any (fun p => !(tests.any (fun t => m t p))) then .error .noMatch else .ok out

inductive GetErr where
  | noMatch
  | tooManySlices
  deriving DecidableEq, Repr

/-- `get_tests` with positional arguments (`args = []` = none given) -/
def getTestsArgs {α β} (suitable : α → Bool) (m : α → β → Bool) (pats : List β) (slice : Option (Nat × Nat))
    (tests : List α) : Except GetErr (List α) :=
  let ts := tests.filter suitable
  match (if pats.isEmpty then Except.ok ts else testsFromArgs m pats ts) with
  | .error _ => .error .noMatch
  | .ok ts1 =>
    match slice with
    | none => .ok ts1
    | some (i, n) => if n > ts1.length then .error .tooManySlices else .ok (pySlice ts1 i n)

end MesonModel.Sched
