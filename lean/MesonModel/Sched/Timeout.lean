/-
Model of the time-limit arithmetic of `SingleTestRunner.__init__` and of what `TestSubprocess.wait` makes of it
(`mesonbuild/mtest.py`):

    if self.options.interactive or self.test.timeout is None or self.test.timeout <= 0:
        timeout = None
    elif self.options.timeout_multiplier is None:
        timeout = self.test.timeout
    elif self.options.timeout_multiplier <= 0:
        timeout = None
    else:
        timeout = self.test.timeout * self.options.timeout_multiplier

    # TestSubprocess.wait
    try:    await complete_all(self.all_futures, timeout=test.timeout)     -- None = wait for ever
    except asyncio.TimeoutError:   …kill…; test.res = TestResult.TIMEOUT
    except asyncio.CancelledError: …kill…; test.res = TestResult.INTERRUPT

`test.timeout` is an `int` (or None); `--timeout-multiplier` is parsed by `float`.  The model takes the multiplier
as a fraction `num / den` (`den > 0`) and keeps the limit as a fraction with the same denominator, so that no
rounding enters (the correspondence stream uses multipliers `k/4`, for which the float product is exact).
Core Lean only.
-/
import MesonModel.Sched.Classify

namespace MesonModel.Sched
open TestResult

/-- a non-negative-denominator fraction `num / den` -/
structure Frac where
  num : Int
  den : Nat
  deriving DecidableEq, Repr

/-- `SingleTestRunner.__init__`: the limit handed to `TestRun` (`none` = no limit) -/
def runnerTimeout (interactive : Bool) (testTimeout : Option Int) (mult : Option Frac) : Option Frac :=
  if interactive then none
  else match testTimeout with
    | none => none
    | some t =>
      if t ≤ 0 then none
      else match mult with
        | none => some ⟨t, 1⟩
        | some m => if m.num ≤ 0 then none else some ⟨t * m.num, m.den⟩

/-- a duration of `dur` seconds (a whole number in the virtual-clock stream) exceeds the limit `num/den` -/
def Frac.ltNat (f : Frac) (dur : Nat) : Bool := decide (f.num < (dur : Int) * (f.den : Int))

/-- … or falls short of it -/
def Frac.gtNat (f : Frac) (dur : Nat) : Bool := decide ((dur : Int) * (f.den : Int) < f.num)

/-- what ends `TestSubprocess.wait` for a test program that would run `dur` seconds, when nobody cancels it:
`none` is the exact tie `dur = limit` (both callbacks are due in the same loop iteration; either may win) -/
def waitOutcome (limit : Option Frac) (dur : Nat) : Option WaitOutcome :=
  match limit with
  | none => some .exited
  | some f => if f.ltNat dur then some .timedOut else if f.gtNat dur then some .exited else none

end MesonModel.Sched
