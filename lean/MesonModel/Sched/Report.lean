/-
Model of the *reporting state* of `TestHarness` in `mesonbuild/mtest.py` — what the totals of the summary, the
"Summary of Failures" list, the log files and the exit status are made of, including the `--maxfail` flag:

    def process_test_result(self, result):
        if result.res is TestResult.TIMEOUT: self.timeout_count += 1
        elif … (one counter per class; FAIL, ERROR and INTERRUPT share fail_count)
        else: sys.exit('Unknown test result encountered')
        if self.is_bad_result(result): self.collected_failures.append(result)
        for l in self.loggers: l.log(self, result)                -- console line, testlog.json, junit, txt

    def is_bad_result(self, result):
        return result.res.is_bad() and not (result.res is TestResult.INTERRUPT and self.maxfail_reached)

    # tail of `run_test` in `_run_tests`
        self.process_test_result(res)
        if maxfail and self.fail_count >= maxfail and res.res.is_bad():
            self.maxfail_reached = True; cancel_all_tests()

    summary()              -- prints the seven counters (Classify: `Tally.summaryRows`)
    total_failure_count()  -- fail_count + unexpectedpass_count + timeout_count; doit returns 1 iff > 0

The counters are plain counters: they do not depend on `maxfail_reached`, only `collected_failures` does (tests
that meson itself interrupted after --maxfail was reached are left out of the list of failures, but they were
run, are printed, logged and counted).  Core Lean only.
-/
import MesonModel.Sched.Classify

namespace MesonModel.Sched
open TestResult

/-- `TestHarness.is_bad_result` -/
def isBadResult (maxfailReached : Bool) (r : TestResult) : Bool :=
  r.isBad && !(r == INTERRUPT && maxfailReached)

/-- the reporting state of a `TestHarness` -/
structure Report where
  /-- the seven `*_count` attributes -/
  tally : Tally := {}
  /-- `collected_failures` (the `res` of each collected run, in order) -/
  collected : List TestResult := []
  /-- `maxfail_reached` -/
  maxfailReached : Bool := false
  /-- what every logger was handed by `l.log(self, result)`, in order (one testlog.json line each) -/
  logged : List TestResult := []
  deriving Repr, DecidableEq

/-- `process_test_result`; `none` is the `sys.exit('Unknown test result …')` branch -/
def Report.process (h : Report) (r : TestResult) : Option Report :=
  match h.tally.add r with
  | none => none
  | some t =>
    some { h with tally := t,
                  collected := if isBadResult h.maxfailReached r then h.collected ++ [r] else h.collected,
                  logged := h.logged ++ [r] }

/-- the two lines of `run_test` that follow `process_test_result(res)` (`maxfail = options.maxfail`) -/
def Report.afterResult (maxfail : Nat) (h : Report) (r : TestResult) : Report :=
  if maxfail > 0 ∧ h.tally.fail ≥ maxfail ∧ r.isBad = true then { h with maxfailReached := true } else h

/-- what can happen to the reporting state: a result is processed (by `run_test`, so followed by the maxfail
test), or `maxfail_reached` is switched on at an arbitrary point (the theorems hold for *every* point at which
the flag may come on, not only for the points `run_test` chooses) -/
inductive ROp where
  | result (r : TestResult)
  | reach
  deriving Repr, DecidableEq

def Report.apply (maxfail : Nat) (h : Report) : ROp → Option Report
  | .result r => (h.process r).map (fun h1 => h1.afterResult maxfail r)
  | .reach => some { h with maxfailReached := true }

/-- a whole run of the reporting state -/
def Report.run (maxfail : Nat) : Report → List ROp → Option Report
  | h, [] => some h
  | h, op :: ops => (h.apply maxfail op).bind (fun h1 => Report.run maxfail h1 ops)

/-- the results among the operations, in order -/
def ropResults : List ROp → List TestResult
  | [] => []
  | .result r :: ops => r :: ropResults ops
  | .reach :: ops => ropResults ops

/-- sum of all seven counters -/
def Tally.total (t : Tally) : Nat :=
  t.ok + t.expectedFail + t.fail + t.unexpectedPass + t.skip + t.ignored + t.timeout

/-- sum of the numbers `summary()` prints -/
def Tally.printedTotal (t : Tally) : Nat := (t.summaryRows.map (·.2)).sum

/-- `total_failure_count()` / return value of `doit` on the reporting state -/
def Report.exitStatus (h : Report) : Nat := h.tally.exitStatus

end MesonModel.Sched
