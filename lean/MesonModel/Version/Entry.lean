import MesonModel.Version.Gate

/-!
# The entry points through which a build file reaches version comparison, and condition expressions

Every wrapper is modelled construct by construct from the source named above it.  Core Lean only.

```python
# mesonbuild/interpreter/primitives/string.py
class StringHolder:
    def version_compare_method(self, args, kwargs):
        ...FeatureNew.single_use(...)                       # logging only
        return version_compare_many(self.held_object, args[0])[0]

class MesonVersionStringHolder(StringHolder):
    def version_compare_method(self, args, kwargs):
        unsupported = False
        for constraint in args[0]:
            if constraint.strip().startswith('!'):
                unsupported = True
                break
        ...FeatureNew.single_use(...)                       # logging only
        if unsupported:
            mlog.debug(...)
        else:
            self.interpreter.tmp_meson_version = version_check_to_range(args[0])
        return version_compare_many(self.held_object, args[0])[0]
```
-/

namespace MesonModel.Version
open MesonModel.Py

/-- `constraint.strip().startswith('!')` -/
def isUnsupported (c : List Char) : Bool := startsWith (strip c) ['!']

/-- the `for … if … break` loop of `MesonVersionStringHolder.version_compare_method` -/
def scanUnsupported : List (List Char) → Bool
  | [] => false
  | c :: cs => if isUnsupported c then true else scanUnsupported cs

/-- `StringHolder.version_compare_method` -/
def strCompare (v : List Char) (cs : List (List Char)) : Bool := (versionCompareMany v cs).1

/-- `MesonVersionStringHolder.version_compare_method`: the returned value and `tmp_meson_version` afterwards -/
def mvCompare (v : List Char) (cs : List (List Char)) (tmp : GTmp) : Bool × GTmp :=
  let tmp' := if scanUnsupported cs then tmp else some (versionCheckToRange cs)
  ((versionCompareMany v cs).1, tmp')

/-- the variant in which the scan for `!=` is fused with the evaluation (one walk over the constraints, `break`
at the first `!=`): that constraint and everything after it are never evaluated -/
def mvCompareFusedGo (v : List Char) : Bool → List (List Char) → Bool
  | acc, [] => acc
  | acc, c :: cs => if isUnsupported c then acc else mvCompareFusedGo v (versionCompare v c && acc) cs

def mvCompareFused (v : List Char) (cs : List (List Char)) : Bool := mvCompareFusedGo v true cs

def undefinedWord : List Char := "undefined".toList

/-- `DependencyFallbacksHolder._check_version(wanted, found)` (interpreter/dependencyfallbacks.py):
`if not wanted: return True; return not (found == 'undefined' or not version_compare_many(found, wanted)[0])` -/
def depCheck (found : List Char) (wanted : List (List Char)) : Bool :=
  if wanted.isEmpty then true
  else !(decide (found = undefinedWord) || !(versionCompareMany found wanted).1)

/-- `subproject(…, version:)` (interpreter.py, both the cached and the first-configuration path):
`if kwargs['version']: if pv == 'undefined' or not version_compare_many(pv, wanted)[0]: raise`;
`true` = accepted -/
def subprojectCheck (pv : List Char) (wanted : List (List Char)) : Bool :=
  if wanted.isEmpty then true
  else !(decide (pv = undefinedWord) || !(versionCompareMany pv wanted).1)

/-- `Interpreter.check_program_version`: `if wanted: is_found, … = version_compare_many(version, wanted)` -/
def programCheck (version : List Char) (wanted : List (List Char)) : Bool :=
  if wanted.isEmpty then true else (versionCompareMany version wanted).1

/-- `ExternalDependency._check_version` for a found dependency: an unknown (empty) version never satisfies a
requirement, otherwise `version_compare_many(self.version, self.version_reqs)` -/
def extDepCheck (version : List Char) (reqs : List (List Char)) : Bool :=
  if reqs.isEmpty then true
  else if version.isEmpty then false
  else (versionCompareMany version reqs).1

/-- `Interpreter.handle_meson_version(pv)`: raises (`none`) unless `version_compare(stable_version, pv)`,
else records `version_check_to_range([pv])` as the project's range -/
def handleMesonVersion (stable pv : List Char) : Option Range :=
  if versionCompare stable pv then some (versionCheckToRange [pv]) else none

/-! ## Condition expressions

```python
# mesonbuild/interpreterbase/interpreterbase.py
def evaluate_notstatement(self, cur):
    prev_meson_version = self.tmp_meson_version
    v = self.evaluate_statement(cur.value)
    # a version check under `not` holds when the block does NOT run
    self.tmp_meson_version = prev_meson_version
    ...
    return self._holderify(v.operator_call(MesonOperator.NOT, None))

def evaluate_andstatement(self, cur):
    l = self.evaluate_statement(cur.left)
    l_bool = l.operator_call(MesonOperator.BOOL, None)
    if not l_bool:
        return self._holderify(l_bool)
    r = self.evaluate_statement(cur.right)
    return self._holderify(r.operator_call(MesonOperator.BOOL, None))

def evaluate_orstatement(self, cur):
    prev_meson_version = self.tmp_meson_version
    l = self.evaluate_statement(cur.left)
    l_bool = l.operator_call(MesonOperator.BOOL, None)
    if l_bool:
        return self._holderify(l_bool)
    # the left operand is false: a version check it made does not hold
    self.tmp_meson_version = prev_meson_version
    r = self.evaluate_statement(cur.right)
    return self._holderify(r.operator_call(MesonOperator.BOOL, None))

def evaluate_comparison(self, node):
    prev_meson_version = self.tmp_meson_version
    val1 = self.evaluate_statement(node.left)
    val2 = self.evaluate_statement(node.right)
    # the result of a comparison does not say that a version check made by an operand holds
    self.tmp_meson_version = prev_meson_version
    ...
    return self._holderify(val1.operator_call(op, _unholder(val2)))
```

`v` is the running version (`meson.version()`); a parenthesised expression evaluates its inner expression. -/

inductive GExpr where
  /-- `meson.version().version_compare(cs…)` -/
  | check (cs : List (List Char))
  /-- any condition that makes no version check, abstracted to its truth value -/
  | plain (b : Bool)
  | not (e : GExpr)
  | and (a b : GExpr)
  | or (a b : GExpr)
  /-- `e == true/false` (`ne = false`) or `e != true/false` (`ne = true`) -/
  | cmpb (e : GExpr) (lit : Bool) (ne : Bool)
  deriving Repr

/-- `evaluate_statement` on a condition: truth value and `tmp_meson_version` afterwards -/
def evalExpr (v : List Char) : GExpr → GTmp → Bool × GTmp
  | .check cs, tmp => mvCompare v cs tmp
  | .plain b, tmp => (b, tmp)
  | .not e, tmp => (!(evalExpr v e tmp).1, tmp)
  | .and a b, tmp =>
    let l := evalExpr v a tmp
    if l.1 then evalExpr v b l.2 else (false, l.2)
  | .or a b, tmp =>
    let l := evalExpr v a tmp
    if l.1 then (true, l.2) else evalExpr v b tmp
  | .cmpb e lit ne, tmp => ((((evalExpr v e tmp).1 == lit) != ne), tmp)

/-- the variant without the three restores (what the code did before the repair): `tmp_meson_version` keeps
whatever the last evaluated version check recorded, whether that check counts positively or not -/
def evalExprNoRestore (v : List Char) : GExpr → GTmp → Bool × GTmp
  | .check cs, tmp => mvCompare v cs tmp
  | .plain b, tmp => (b, tmp)
  | .not e, tmp => let r := evalExprNoRestore v e tmp; (!r.1, r.2)
  | .and a b, tmp =>
    let l := evalExprNoRestore v a tmp
    if l.1 then evalExprNoRestore v b l.2 else (false, l.2)
  | .or a b, tmp =>
    let l := evalExprNoRestore v a tmp
    if l.1 then (true, l.2) else evalExprNoRestore v b l.2
  | .cmpb e lit ne, tmp => let r := evalExprNoRestore v e tmp; (((r.1 == lit) != ne), r.2)

/-- the clause condition `evaluate_if` sees: `self.tmp_meson_version = None`, then the condition is evaluated -/
def GExpr.toCond (v : List Char) (e : GExpr) : GCond :=
  let r := evalExpr v e none
  ⟨r.2, r.1⟩

def GExpr.toCondNoRestore (v : List Char) (e : GExpr) : GCond :=
  let r := evalExprNoRestore v e none
  ⟨r.2, r.1⟩

/-- reference truth value of a condition: each check is the conjunction of its constraints -/
def GExpr.truth (v : List Char) : GExpr → Bool
  | .check cs => cs.all (fun c => versionCompare v c)
  | .plain b => b
  | .not e => !(e.truth v)
  | .and a b => a.truth v && b.truth v
  | .or a b => a.truth v || b.truth v
  | .cmpb e lit ne => ((e.truth v == lit) != ne)

/-- the constraint lists of the checks that count positively (not under `not`, not inside a comparison) -/
def GExpr.posChecks : GExpr → List (List (List Char))
  | .check cs => [cs]
  | .plain _ => []
  | .not _ => []
  | .and a b => a.posChecks ++ b.posChecks
  | .or a b => a.posChecks ++ b.posChecks
  | .cmpb _ _ _ => []

/-! ## A predicate on every clause condition of a block -/

mutual
  def GStmt.AllConds (P : GCond → Prop) : GStmt → Prop
    | .probe _ => True
    | .ifs cs => cs.AllConds P
    | .exit _ => True
    | .loop1 b => b.AllConds P
    | .loop2 b => b.AllConds P
  def GBlock.AllConds (P : GCond → Prop) : GBlock → Prop
    | .nil => True
    | .cons s b => s.AllConds P ∧ b.AllConds P
  def GClauses.AllConds (P : GCond → Prop) : GClauses → Prop
    | .els b => b.AllConds P
    | .cons c b cs => P c ∧ b.AllConds P ∧ cs.AllConds P
end

/-- a clause condition is sound for the version `x` that is running: when it evaluated true, the range it
recorded (if any) contains `x` -/
def CondSound (x : Ver) (c : GCond) : Prop :=
  c.val = true → ∀ r, c.own = some r → r.contains x = true

/-- `tmp_meson_version` is sound for the running version `x`: unset, or a range containing `x` -/
def SoundTmp (x : Ver) (tmp : GTmp) : Prop := ∀ r, tmp = some r → r.contains x = true

end MesonModel.Version
