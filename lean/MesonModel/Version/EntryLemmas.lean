import MesonModel.Version.Entry
import MesonModel.Version.GateLemmas

namespace MesonModel.Version

theorem scanUnsupported_eq_any (cs : List (List Char)) : scanUnsupported cs = cs.any isUnsupported := by
  induction cs with
  | nil => rfl
  | cons c cs ih =>
    simp only [scanUnsupported, List.any_cons]
    cases isUnsupported c <;> simp [ih]

theorem compareMany_fst (v : List Char) (cs : List (List Char)) :
    (versionCompareMany v cs).1 = cs.all (fun c => versionCompare v c) := by
  simp only [versionCompareMany]
  rw [Bool.eq_iff_iff]
  simp [List.filter_eq_nil_iff]

mutual
  theorem GStmt.AllConds.mono {P Q : GCond → Prop} (h : ∀ c, P c → Q c) (s : GStmt) (hs : s.AllConds P) :
      s.AllConds Q := by
    cases s with
    | probe n => trivial
    | ifs cs => simp only [GStmt.AllConds] at hs ⊢; exact GClauses.AllConds.mono h cs hs
    | exit k => trivial
    | loop1 body => simp only [GStmt.AllConds] at hs ⊢; exact GBlock.AllConds.mono h body hs
    | loop2 body => simp only [GStmt.AllConds] at hs ⊢; exact GBlock.AllConds.mono h body hs
  theorem GBlock.AllConds.mono {P Q : GCond → Prop} (h : ∀ c, P c → Q c) (b : GBlock) (hb : b.AllConds P) :
      b.AllConds Q := by
    cases b with
    | nil => trivial
    | cons s b =>
      simp only [GBlock.AllConds] at hb ⊢
      exact ⟨GStmt.AllConds.mono h s hb.1, GBlock.AllConds.mono h b hb.2⟩
  theorem GClauses.AllConds.mono {P Q : GCond → Prop} (h : ∀ c, P c → Q c) (cs : GClauses)
      (hc : cs.AllConds P) : cs.AllConds Q := by
    cases cs with
    | els b => simp only [GClauses.AllConds] at hc ⊢; exact GBlock.AllConds.mono h b hc
    | cons c b cs =>
      simp only [GClauses.AllConds] at hc ⊢
      exact ⟨h c hc.1, GBlock.AllConds.mono h b hc.2.1, GClauses.AllConds.mono h cs hc.2.2⟩
end

/-- every range on the path of an executed probe contains `x`, when every clause condition is sound for `x` -/
def PathsOk (x : Ver) (ps : GPaths) : Prop := ∀ p ∈ ps, ∀ q ∈ p.2, q.contains x = true

theorem PathsOk.append {x : Ver} {a b : GPaths} (ha : PathsOk x a) (hb : PathsOk x b) : PathsOk x (a ++ b) := by
  intro p hp
  rcases List.mem_append.1 hp with h | h
  · exact ha p h
  · exact hb p h

theorem PathsOk.addPath {x : Ver} {ps : GPaths} (o : Option Range) (ho : ∀ r, o = some r → r.contains x = true)
    (h : PathsOk x ps) : PathsOk x (addPath o ps) := by
  cases o with
  | none => exact h
  | some r =>
    intro p hp q hq
    simp only [MesonModel.Version.addPath, List.mem_map] at hp
    obtain ⟨p0, hp0, rfl⟩ := hp
    simp only [List.mem_cons] at hq
    rcases hq with rfl | hq
    · exact ho _ rfl
    · exact h p0 hp0 q hq

mutual
  theorem pathsStmt_ok (x : Ver) (s : GStmt) (h : s.AllConds (CondSound x)) : PathsOk x (pathsStmt s).1 := by
    cases s with
    | probe n => intro p hp q hq; simp [pathsStmt] at hp; subst hp; simp at hq
    | ifs cs => simp only [pathsStmt]; exact pathsClauses_ok x cs (by simpa [GStmt.AllConds] using h)
    | exit k => intro p hp; simp [pathsStmt] at hp
    | loop1 body =>
      simp only [pathsStmt]; exact pathsBlock_ok x body (by simpa [GStmt.AllConds] using h)
    | loop2 body =>
      have hb := pathsBlock_ok x body (by simpa [GStmt.AllConds] using h)
      simp only [pathsStmt]
      split
      · exact hb
      · exact hb.append hb
  theorem pathsBlock_ok (x : Ver) (b : GBlock) (h : b.AllConds (CondSound x)) : PathsOk x (pathsBlock b).1 := by
    cases b with
    | nil => intro p hp; simp [pathsBlock] at hp
    | cons s b =>
      simp only [GBlock.AllConds] at h
      have h1 := pathsStmt_ok x s h.1
      have h2 := pathsBlock_ok x b h.2
      simp only [pathsBlock]
      split
      · exact h1.append h2
      · exact h1
  theorem pathsClauses_ok (x : Ver) (cs : GClauses) (h : cs.AllConds (CondSound x)) :
      PathsOk x (pathsClauses cs).1 := by
    cases cs with
    | els b => simp only [pathsClauses]; exact pathsBlock_ok x b (by simpa [GClauses.AllConds] using h)
    | cons c b cs =>
      simp only [GClauses.AllConds] at h
      simp only [pathsClauses]
      cases hv : c.val with
      | true =>
        simp only [if_true]
        exact PathsOk.addPath c.own (h.1 hv) (pathsBlock_ok x b h.2.1)
      | false =>
        simp only [Bool.false_eq_true, if_false]
        exact pathsClauses_ok x cs h.2.2
end

end MesonModel.Version
