import MesonModel.Version.Model

/-!
# How `InterpreterBase.evaluate_if` applies the range algebra (mesonbuild/interpreterbase/interpreterbase.py)

```python
def evaluate_if(self, node):
    for i in node.ifs:
        self.tmp_meson_version = None                      # reset per clause
        result = self.evaluate_statement(i.condition)      # meson.version().version_compare(c) sets tmp_meson_version
        ...
        prev_meson_version = mesonlib.project_meson_versions[self.subproject]
        if self.tmp_meson_version and isinstance(prev_meson_version, mesonlib.Range):
            ...
            mesonlib.project_meson_versions[self.subproject] = prev_meson_version.intersect(self.tmp_meson_version)
        try:
            if res:
                self.evaluate_codeblock(i.block)
                return None
        finally:
            mesonlib.project_meson_versions[self.subproject] = prev_meson_version
    if not isinstance(node.elseblock, mparser.EmptyNode):
        self.evaluate_codeblock(node.elseblock.block)
```

The model abstracts a condition to what matters here: the range its `meson.version().version_compare(...)` call
records (if it makes one) and its truth value.  `tmp_meson_version` is an interpreter attribute, so it is threaded
through the whole evaluation as state, exactly as in the code (it is NOT restored at the end of a statement).
A `probe n` statement logs the project range in force when it runs (what a `FeatureNew` check would read).
-/

namespace MesonModel.Version

/-- a clause condition: the range recorded by its version check (if any) and its truth value -/
structure GCond where
  own : Option Range
  val : Bool
  deriving Repr

/-- how a block is left early: `break`, `continue` (caught by the enclosing `foreach`) or `subdir_done()`
(caught by nothing inside the file) -/
inductive GSig where
  | none | brk | cont | done
  deriving DecidableEq, Repr

mutual
  inductive GStmt where
    | probe (n : Nat)
    | ifs (cs : GClauses)
    | exit (k : GSig)
    /-- `foreach` over a one-element list -/
    | loop1 (body : GBlock)
    /-- `foreach` over a two-element list -/
    | loop2 (body : GBlock)
  inductive GBlock where
    | nil
    | cons (s : GStmt) (b : GBlock)
  /-- the clauses of one `if` statement, ending in its else block (empty when there is none) -/
  inductive GClauses where
    | els (b : GBlock)
    | cons (c : GCond) (b : GBlock) (cs : GClauses)
end

abbrev GLog := List (Nat × Range)

/-- interpreter state relevant here: `tmp_meson_version` -/
abbrev GTmp := Option Range

structure GRes where
  log : GLog
  tmp : GTmp
  sig : GSig

/-- what `evaluate_foreach` does with the way one iteration ended: `(stop iterating, signal passed on)` -/
def GSig.afterIteration : GSig → Bool × GSig
  | .none => (false, .none)
  | .cont => (false, .none)
  | .brk => (true, .none)
  | .done => (true, .done)

mutual
  /-- `evaluate_statement` on the statement kinds of the abstraction; `cur` is
  `project_meson_versions[subproject]`: the `finally` clause of `evaluate_if` restores it however the block
  is left, hence it is lexically scoped here and not returned -/
  def runStmt : GStmt → Range → GTmp → GRes
    | .probe n, cur, tmp => ⟨[(n, cur)], tmp, .none⟩
    | .ifs cs, cur, tmp => runClauses cs cur tmp
    | .exit k, _, tmp => ⟨[], tmp, k⟩
    | .loop1 body, cur, tmp =>
      let r := runBlock body cur tmp
      ⟨r.log, r.tmp, r.sig.afterIteration.2⟩
    | .loop2 body, cur, tmp =>
      let r1 := runBlock body cur tmp
      if r1.sig.afterIteration.1 then ⟨r1.log, r1.tmp, r1.sig.afterIteration.2⟩
      else
        let r2 := runBlock body cur r1.tmp
        ⟨r1.log ++ r2.log, r2.tmp, r2.sig.afterIteration.2⟩
  /-- `evaluate_codeblock`: a signal ends the block -/
  def runBlock : GBlock → Range → GTmp → GRes
    | .nil, _, tmp => ⟨[], tmp, .none⟩
    | .cons s b, cur, tmp =>
      let r1 := runStmt s cur tmp
      if r1.sig = .none then
        let r2 := runBlock b cur r1.tmp
        ⟨r1.log ++ r2.log, r2.tmp, r2.sig⟩
      else r1
  /-- the `for i in node.ifs` loop of `evaluate_if`, then the else block -/
  def runClauses : GClauses → Range → GTmp → GRes
    | .els b, cur, tmp => runBlock b cur tmp
    | .cons c b cs, cur, _tmp =>
      -- self.tmp_meson_version = None; evaluating the condition sets it when it contains a version check
      let tmp1 : GTmp := c.own
      let narrowed := match tmp1 with
        | some r => cur.intersect r
        | none => cur
      if c.val then runBlock b narrowed tmp1
      else runClauses cs cur tmp1
end

/-! the variant in which the reset is hoisted out of the loop (one reset per `if` statement):
`tmp_meson_version` of an earlier clause survives into later clauses of the same statement
(signals are irrelevant to it and ignored) -/
mutual
  def runStmtH : GStmt → Range → GTmp → GLog × GTmp
    | .probe n, cur, tmp => ([(n, cur)], tmp)
    | .ifs cs, cur, _tmp => runClausesH cs cur none
    | .exit _, _, tmp => ([], tmp)
    | .loop1 body, cur, tmp => runBlockH body cur tmp
    | .loop2 body, cur, tmp =>
      let r1 := runBlockH body cur tmp
      let r2 := runBlockH body cur r1.2
      (r1.1 ++ r2.1, r2.2)
  def runBlockH : GBlock → Range → GTmp → GLog × GTmp
    | .nil, _, tmp => ([], tmp)
    | .cons s b, cur, tmp =>
      let r1 := runStmtH s cur tmp
      let r2 := runBlockH b cur r1.2
      (r1.1 ++ r2.1, r2.2)
  def runClausesH : GClauses → Range → GTmp → GLog × GTmp
    | .els b, cur, tmp => runBlockH b cur tmp
    | .cons c b cs, cur, tmp =>
      let tmp1 : GTmp := match c.own with
        | some r => some r
        | none => tmp
      let narrowed := match tmp1 with
        | some r => cur.intersect r
        | none => cur
      if c.val then runBlockH b narrowed tmp1
      else runClausesH cs cur tmp1
end

/-! the variant in which the range is restored only when the block ends normally or with an error
(`except Exception` instead of `finally`): `break`, `continue` and `subdir_done()` are `BaseException`s, so
the narrowed range stays in force.  Here the range in force is interpreter STATE and is returned. -/
mutual
  def runStmtL : GStmt → Range → GTmp → GRes × Range
    | .probe n, cur, tmp => (⟨[(n, cur)], tmp, .none⟩, cur)
    | .ifs cs, cur, tmp => runClausesL cs cur tmp
    | .exit k, cur, tmp => (⟨[], tmp, k⟩, cur)
    | .loop1 body, cur, tmp =>
      let r := runBlockL body cur tmp
      (⟨r.1.log, r.1.tmp, r.1.sig.afterIteration.2⟩, r.2)
    | .loop2 body, cur, tmp =>
      let r1 := runBlockL body cur tmp
      if r1.1.sig.afterIteration.1 then (⟨r1.1.log, r1.1.tmp, r1.1.sig.afterIteration.2⟩, r1.2)
      else
        let r2 := runBlockL body r1.2 r1.1.tmp
        (⟨r1.1.log ++ r2.1.log, r2.1.tmp, r2.1.sig.afterIteration.2⟩, r2.2)
  def runBlockL : GBlock → Range → GTmp → GRes × Range
    | .nil, cur, tmp => (⟨[], tmp, .none⟩, cur)
    | .cons s b, cur, tmp =>
      let r1 := runStmtL s cur tmp
      if r1.1.sig = .none then
        let r2 := runBlockL b r1.2 r1.1.tmp
        (⟨r1.1.log ++ r2.1.log, r2.1.tmp, r2.1.sig⟩, r2.2)
      else r1
  def runClausesL : GClauses → Range → GTmp → GRes × Range
    | .els b, cur, tmp => runBlockL b cur tmp
    | .cons c b cs, cur, _tmp =>
      let tmp1 : GTmp := c.own
      let narrowed := match tmp1 with
        | some r => cur.intersect r
        | none => cur
      if c.val then
        let r := runBlockL b narrowed tmp1
        -- restored only when no signal passes through
        (r.1, if r.1.sig = .none then cur else r.2)
      else runClausesL cs cur tmp1
end

/-! ## Specification: each executed probe with the version checks of the clauses enclosing it -/

abbrev GPaths := List (Nat × List Range)

def addPath (r : Option Range) (ps : GPaths) : GPaths :=
  match r with
  | some r => ps.map (fun p => (p.1, r :: p.2))
  | none => ps

/-! reference evaluation of the control flow alone (no ranges, no interpreter state) -/
mutual
  def pathsStmt : GStmt → GPaths × GSig
    | .probe n => ([(n, [])], .none)
    | .ifs cs => pathsClauses cs
    | .exit k => ([], k)
    | .loop1 body =>
      let r := pathsBlock body
      (r.1, r.2.afterIteration.2)
    | .loop2 body =>
      let r := pathsBlock body
      if r.2.afterIteration.1 then (r.1, r.2.afterIteration.2)
      else (r.1 ++ r.1, r.2.afterIteration.2)
  def pathsBlock : GBlock → GPaths × GSig
    | .nil => ([], .none)
    | .cons s b =>
      let r1 := pathsStmt s
      if r1.2 = .none then
        let r2 := pathsBlock b
        (r1.1 ++ r2.1, r2.2)
      else r1
  def pathsClauses : GClauses → GPaths × GSig
    | .els b => pathsBlock b
    | .cons c b cs =>
      if c.val then
        let r := pathsBlock b
        (addPath c.own r.1, r.2)
      else pathsClauses cs
end

/-- the range a probe must see: the range in force outside, narrowed by the enclosing checks from the
outside in -/
def narrow (cur : Range) (path : List Range) : Range := path.foldl Range.intersect cur

end MesonModel.Version
