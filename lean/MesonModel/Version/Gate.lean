import MesonModel.Version.Model

/-!
# How `InterpreterBase.evaluate_if` applies the range algebra (mesonbuild/interpreterbase/interpreterbase.py)

```python
def evaluate_if(self, node):
    for i in node.ifs:
        self.tmp_meson_version = None                      # reset per clause
        result = self.evaluate_statement(i.condition)      # meson.version().version_compare(c) sets tmp_meson_version
        ...
        prev_meson_version = mesonlib.project_meson_versions[self.subproject]
        if self.tmp_meson_version and isinstance(prev_meson_version, mesonlib.Range):
            ...
            mesonlib.project_meson_versions[self.subproject] = prev_meson_version.intersect(self.tmp_meson_version)
        try:
            if res:
                self.evaluate_codeblock(i.block)
                return None
        finally:
            mesonlib.project_meson_versions[self.subproject] = prev_meson_version
    if not isinstance(node.elseblock, mparser.EmptyNode):
        self.evaluate_codeblock(node.elseblock.block)
```

The model abstracts a condition to what matters here: the range its `meson.version().version_compare(...)` call
records (if it makes one) and its truth value.  `tmp_meson_version` is an interpreter attribute, so it is threaded
through the whole evaluation as state, exactly as in the code (it is NOT restored at the end of a statement).
A `probe n` statement logs the project range in force when it runs (what a `FeatureNew` check would read).
-/

namespace MesonModel.Version

/-- a clause condition: the range recorded by its version check (if any) and its truth value -/
structure GCond where
  own : Option Range
  val : Bool
  deriving Repr

mutual
  inductive GStmt where
    | probe (n : Nat)
    | ifs (cs : GClauses)
  inductive GBlock where
    | nil
    | cons (s : GStmt) (b : GBlock)
  /-- the clauses of one `if` statement, ending in its else block (empty when there is none) -/
  inductive GClauses where
    | els (b : GBlock)
    | cons (c : GCond) (b : GBlock) (cs : GClauses)
end

abbrev GLog := List (Nat × Range)

/-- interpreter state relevant here: `tmp_meson_version` -/
abbrev GTmp := Option Range

mutual
  /-- `evaluate_statement` on the two statement kinds of the abstraction; `cur` is
  `project_meson_versions[subproject]` (restored by the callee, hence not returned) -/
  def runStmt : GStmt → Range → GTmp → GLog × GTmp
    | .probe n, cur, tmp => ([(n, cur)], tmp)
    | .ifs cs, cur, tmp => runClauses cs cur tmp
  /-- `evaluate_codeblock` -/
  def runBlock : GBlock → Range → GTmp → GLog × GTmp
    | .nil, _, tmp => ([], tmp)
    | .cons s b, cur, tmp =>
      let r1 := runStmt s cur tmp
      let r2 := runBlock b cur r1.2
      (r1.1 ++ r2.1, r2.2)
  /-- the `for i in node.ifs` loop of `evaluate_if`, then the else block -/
  def runClauses : GClauses → Range → GTmp → GLog × GTmp
    | .els b, cur, tmp => runBlock b cur tmp
    | .cons c b cs, cur, _tmp =>
      -- self.tmp_meson_version = None; evaluating the condition sets it when it contains a version check
      let tmp1 : GTmp := c.own
      let narrowed := match tmp1 with
        | some r => cur.intersect r
        | none => cur
      if c.val then runBlock b narrowed tmp1
      else runClauses cs cur tmp1
end

/-! the variant in which the reset is hoisted out of the loop (one reset per `if` statement):
`tmp_meson_version` of an earlier clause survives into later clauses of the same statement -/
mutual
  def runStmtH : GStmt → Range → GTmp → GLog × GTmp
    | .probe n, cur, tmp => ([(n, cur)], tmp)
    | .ifs cs, cur, _tmp => runClausesH cs cur none
  def runBlockH : GBlock → Range → GTmp → GLog × GTmp
    | .nil, _, tmp => ([], tmp)
    | .cons s b, cur, tmp =>
      let r1 := runStmtH s cur tmp
      let r2 := runBlockH b cur r1.2
      (r1.1 ++ r2.1, r2.2)
  def runClausesH : GClauses → Range → GTmp → GLog × GTmp
    | .els b, cur, tmp => runBlockH b cur tmp
    | .cons c b cs, cur, tmp =>
      let tmp1 : GTmp := match c.own with
        | some r => some r
        | none => tmp
      let narrowed := match tmp1 with
        | some r => cur.intersect r
        | none => cur
      if c.val then runBlockH b narrowed tmp1
      else runClausesH cs cur tmp1
end

/-! ## Specification: each executed probe with the version checks of the clauses enclosing it -/

abbrev GPaths := List (Nat × List Range)

def addPath (r : Option Range) (ps : GPaths) : GPaths :=
  match r with
  | some r => ps.map (fun p => (p.1, r :: p.2))
  | none => ps

mutual
  def pathsStmt : GStmt → GPaths
    | .probe n => [(n, [])]
    | .ifs cs => pathsClauses cs
  def pathsBlock : GBlock → GPaths
    | .nil => []
    | .cons s b => pathsStmt s ++ pathsBlock b
  def pathsClauses : GClauses → GPaths
    | .els b => pathsBlock b
    | .cons c b cs =>
      if c.val then addPath c.own (pathsBlock b) else pathsClauses cs
end

/-- the range a probe must see: the range in force outside, narrowed by the enclosing checks from the
outside in -/
def narrow (cur : Range) (path : List Range) : Range := path.foldl Range.intersect cur

end MesonModel.Version
