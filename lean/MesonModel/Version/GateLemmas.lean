import MesonModel.Version.Gate
import MesonModel.Version.RangeLemmas

namespace MesonModel.Version

def render (cur : Range) (ps : GPaths) : GLog := ps.map (fun p => (p.1, narrow cur p.2))

theorem render_append (cur : Range) (a b : GPaths) : render cur (a ++ b) = render cur a ++ render cur b := by
  simp [render]

theorem render_addPath_some (cur r : Range) (ps : GPaths) :
    render cur (addPath (some r) ps) = render (cur.intersect r) ps := by
  simp [render, addPath, narrow, List.map_map, Function.comp_def]

theorem render_addPath_none (cur : Range) (ps : GPaths) : render cur (addPath none ps) = render cur ps := rfl

mutual
  theorem runStmt_log (s : GStmt) (cur : Range) (tmp : GTmp) :
      (runStmt s cur tmp).1 = render cur (pathsStmt s) := by
    cases s with
    | probe n => simp [runStmt, pathsStmt, render, narrow]
    | ifs cs => simp only [runStmt, pathsStmt]; exact runClauses_log cs cur tmp
  theorem runBlock_log (b : GBlock) (cur : Range) (tmp : GTmp) :
      (runBlock b cur tmp).1 = render cur (pathsBlock b) := by
    cases b with
    | nil => simp [runBlock, pathsBlock, render]
    | cons s b =>
      simp only [runBlock, pathsBlock, render_append]
      rw [runStmt_log s cur tmp, runBlock_log b cur _]
  theorem runClauses_log (cs : GClauses) (cur : Range) (tmp : GTmp) :
      (runClauses cs cur tmp).1 = render cur (pathsClauses cs) := by
    cases cs with
    | els b => simp only [runClauses, pathsClauses]; exact runBlock_log b cur tmp
    | cons c b cs =>
      simp only [runClauses, pathsClauses]
      cases hv : c.val with
      | true =>
        simp only [if_true]
        cases ho : c.own with
        | none => simp only [render_addPath_none]; exact runBlock_log b cur _
        | some r => simp only [render_addPath_some]; exact runBlock_log b _ _
      | false =>
        simp only [Bool.false_eq_true, if_false]
        exact runClauses_log cs cur _
end

/-- membership in a range narrowed along a path: in the outer range and in every check of the path -/
theorem mem_narrow (cur : Range) (path : List Range) (x : Ver) :
    (narrow cur path).contains x = true ↔ (cur.contains x = true ∧ ∀ r ∈ path, r.contains x = true) := by
  induction path generalizing cur with
  | nil => simp [narrow]
  | cons r rest ih =>
    have h := ih (cur.intersect r)
    simp only [narrow, List.foldl_cons] at h ⊢
    rw [h]
    simp only [Range.contains_iff]
    rw [Range.mem_intersect]
    simp only [List.mem_cons, forall_eq_or_imp, Range.contains_iff]
    constructor
    · rintro ⟨⟨a, b⟩, c⟩; exact ⟨a, b, c⟩
    · rintro ⟨a, b, c⟩; exact ⟨⟨a, b⟩, c⟩

end MesonModel.Version
