import MesonModel.Version.Gate
import MesonModel.Version.RangeLemmas

namespace MesonModel.Version

def render (cur : Range) (ps : GPaths) : GLog := ps.map (fun p => (p.1, narrow cur p.2))

theorem render_append (cur : Range) (a b : GPaths) : render cur (a ++ b) = render cur a ++ render cur b := by
  simp [render]

theorem render_addPath_some (cur r : Range) (ps : GPaths) :
    render cur (addPath (some r) ps) = render (cur.intersect r) ps := by
  simp [render, addPath, narrow, List.map_map, Function.comp_def]

theorem render_addPath_none (cur : Range) (ps : GPaths) : render cur (addPath none ps) = render cur ps := rfl

/-- the model agrees with the reference evaluation: same probes in the same order, each under the outer
range narrowed along its path, and the same way of leaving -/
def Agrees (r : GRes) (cur : Range) (p : GPaths × GSig) : Prop := r.log = render cur p.1 ∧ r.sig = p.2

mutual
  theorem runStmt_spec (s : GStmt) (cur : Range) (tmp : GTmp) :
      Agrees (runStmt s cur tmp) cur (pathsStmt s) := by
    cases s with
    | probe n => simp [Agrees, runStmt, pathsStmt, render, narrow]
    | ifs cs => simp only [runStmt, pathsStmt]; exact runClauses_spec cs cur tmp
    | exit k => simp [Agrees, runStmt, pathsStmt, render]
    | loop1 body =>
      have h := runBlock_spec body cur tmp
      simp only [runStmt, pathsStmt, Agrees] at h ⊢
      exact ⟨h.1, by rw [h.2]⟩
    | loop2 body =>
      have h1 := runBlock_spec body cur tmp
      simp only [runStmt, pathsStmt, Agrees] at h1 ⊢
      rw [h1.2]
      by_cases hs : (pathsBlock body).2.afterIteration.1 = true
      · simp only [hs, if_true]; exact ⟨h1.1, trivial⟩
      · simp only [hs]
        have h2 := runBlock_spec body cur (runBlock body cur tmp).tmp
        simp only [Agrees] at h2
        simp only [Bool.false_eq_true, if_false, render_append]
        exact ⟨by rw [h1.1, h2.1], by rw [h2.2]⟩
  theorem runBlock_spec (b : GBlock) (cur : Range) (tmp : GTmp) :
      Agrees (runBlock b cur tmp) cur (pathsBlock b) := by
    cases b with
    | nil => simp [Agrees, runBlock, pathsBlock, render]
    | cons s b =>
      have h1 := runStmt_spec s cur tmp
      simp only [Agrees] at h1
      simp only [runBlock, pathsBlock, Agrees]
      rw [h1.2]
      by_cases hs : (pathsStmt s).2 = GSig.none
      · simp only [hs, if_true]
        have h2 := runBlock_spec b cur (runStmt s cur tmp).tmp
        simp only [Agrees] at h2
        simp only [render_append]
        exact ⟨by rw [h1.1, h2.1], h2.2⟩
      · simp only [hs, if_false]; exact ⟨h1.1, h1.2⟩
  theorem runClauses_spec (cs : GClauses) (cur : Range) (tmp : GTmp) :
      Agrees (runClauses cs cur tmp) cur (pathsClauses cs) := by
    cases cs with
    | els b => simp only [runClauses, pathsClauses]; exact runBlock_spec b cur tmp
    | cons c b cs =>
      simp only [runClauses, pathsClauses]
      cases hv : c.val with
      | true =>
        simp only [if_true]
        cases ho : c.own with
        | none =>
          have h := runBlock_spec b cur none
          simp only [Agrees, render_addPath_none] at h ⊢; exact h
        | some r =>
          have h := runBlock_spec b (cur.intersect r) (some r)
          simp only [Agrees, render_addPath_some] at h ⊢; exact h
      | false =>
        simp only [Bool.false_eq_true, if_false]
        exact runClauses_spec cs cur _
end

theorem runBlock_log (b : GBlock) (cur : Range) (tmp : GTmp) :
    (runBlock b cur tmp).log = render cur (pathsBlock b).1 := (runBlock_spec b cur tmp).1

/-- membership in a range narrowed along a path: in the outer range and in every check of the path -/
theorem mem_narrow (cur : Range) (path : List Range) (x : Ver) :
    (narrow cur path).contains x = true ↔ (cur.contains x = true ∧ ∀ r ∈ path, r.contains x = true) := by
  induction path generalizing cur with
  | nil => simp [narrow]
  | cons r rest ih =>
    have h := ih (cur.intersect r)
    simp only [narrow, List.foldl_cons] at h ⊢
    rw [h]
    simp only [Range.contains_iff]
    rw [Range.mem_intersect]
    simp only [List.mem_cons, forall_eq_or_imp, Range.contains_iff]
    constructor
    · rintro ⟨⟨a, b⟩, c⟩; exact ⟨a, b, c⟩
    · rintro ⟨a, b, c⟩; exact ⟨⟨a, b⟩, c⟩

end MesonModel.Version
