import MesonModel.Version.Lemmas
namespace MesonModel.Version

/-- membership as a proposition over the strict order -/
def Range.Mem (r : Range) (x : Ver) : Prop :=
  r.isEmpty = false ∧
  (∀ m, r.min = some m → if r.minEq then ¬ Lt x m else Lt m x) ∧
  (∀ m, r.max = some m → if r.maxEq then ¬ Lt m x else Lt x m)

theorem Range.contains_iff (r : Range) (x : Ver) : r.contains x = true ↔ r.Mem x := by
  unfold Range.contains Range.Mem
  have := Lt.total x
  rcases r with ⟨mn, mne, mx, mxe, ie⟩
  cases ie <;> cases mn <;> cases mx <;> cases mne <;> cases mxe <;>
    simp [vlt_eq, vle_eq, vgt_eq, vge_eq] <;> grind [Lt.irrefl, Lt.trans, Lt.total]

end MesonModel.Version

namespace MesonModel.Version

theorem Range.mem_postInit (r : Range) (x : Ver) (h : r.isEmpty = false) :
    r.postInit.Mem x ↔ r.Mem x := by
  unfold Range.postInit Range.Mem
  rcases r with ⟨mn, mne, mx, mxe, ie⟩
  simp only at h
  subst h
  cases mn with
  | none => simp
  | some a =>
    cases mx with
    | none => simp
    | some b =>
      simp only [vlt_eq, veq_eq]
      have t := Lt.total a b
      have t1 := Lt.total x a
      have t2 := Lt.total x b
      by_cases hab : Lt a b
      · simp [hab]
      · by_cases hab' : a = b
        · subst hab'
          cases mne <;> cases mxe <;> simp [Lt.irrefl] <;> grind [Lt.irrefl, Lt.trans]
        · simp [hab, hab']
          cases mne <;> cases mxe <;> simp <;> grind [Lt.irrefl, Lt.trans]

/-- lower-bound constraint a pair `(v, eq)` expresses -/
def lowerOk (v : Ver) (eq : Bool) (x : Ver) : Prop := if eq then ¬ Lt x v else Lt v x
def upperOk (v : Ver) (eq : Bool) (x : Ver) : Prop := if eq then ¬ Lt v x else Lt x v

theorem Range.intersectMin_isEmpty (r : Range) (v : Ver) (eq : Bool) :
    (r.intersectMin v eq).isEmpty = r.isEmpty := by
  unfold Range.intersectMin; split <;> (try split) <;> (try split) <;> rfl

theorem Range.intersectMax_isEmpty (r : Range) (v : Ver) (eq : Bool) :
    (r.intersectMax v eq).isEmpty = r.isEmpty := by
  unfold Range.intersectMax; split <;> (try split) <;> (try split) <;> rfl

theorem Range.mem_intersectMin (r : Range) (v : Ver) (eq : Bool) (x : Ver) :
    (r.intersectMin v eq).Mem x ↔ r.Mem x ∧ lowerOk v eq x := by
  unfold Range.intersectMin Range.Mem lowerOk
  rcases r with ⟨mn, mne, mx, mxe, ie⟩
  cases mn with
  | none => simp; grind
  | some a =>
    simp only [vgt_eq, veq_eq]
    have t := Lt.total a v
    have t1 := Lt.total x a
    have t2 := Lt.total x v
    by_cases hav : Lt a v
    · simp [hav]
      cases mne <;> cases eq <;> simp <;> grind [Lt.irrefl, Lt.trans]
    · by_cases hav' : v = a
      · subst hav'
        simp [Lt.irrefl]
        cases mne <;> cases eq <;> simp <;> grind [Lt.irrefl, Lt.trans]
      · simp [hav, hav']
        cases mne <;> cases eq <;> simp <;> grind [Lt.irrefl, Lt.trans]

theorem Range.mem_intersectMax (r : Range) (v : Ver) (eq : Bool) (x : Ver) :
    (r.intersectMax v eq).Mem x ↔ r.Mem x ∧ upperOk v eq x := by
  unfold Range.intersectMax Range.Mem upperOk
  rcases r with ⟨mn, mne, mx, mxe, ie⟩
  cases mx with
  | none => simp; grind
  | some a =>
    simp only [vlt_eq, veq_eq]
    have t := Lt.total a v
    have t1 := Lt.total x a
    have t2 := Lt.total x v
    by_cases hav : Lt v a
    · simp [hav]
      cases mxe <;> cases eq <;> simp <;> grind [Lt.irrefl, Lt.trans]
    · by_cases hav' : v = a
      · subst hav'
        simp [Lt.irrefl]
        cases mxe <;> cases eq <;> simp <;> grind [Lt.irrefl, Lt.trans]
      · simp [hav, hav']
        cases mxe <;> cases eq <;> simp <;> grind [Lt.irrefl, Lt.trans]

theorem Range.mem_of_bounds (r : Range) (x : Ver) :
    r.Mem x ↔ r.isEmpty = false ∧ (∀ m, r.min = some m → lowerOk m r.minEq x) ∧
      (∀ m, r.max = some m → upperOk m r.maxEq x) := Iff.rfl

/-- `x ∈ a.intersect(b)  ↔  x ∈ a ∧ x ∈ b`, for every pair of `Range` field values, including
ones `__post_init__` would never leave behind. -/
theorem Range.mem_intersect (a b : Range) (x : Ver) :
    (a.intersect b).Mem x ↔ a.Mem x ∧ b.Mem x := by
  unfold Range.intersect
  by_cases hb : b.isEmpty = true
  · simp [hb, Range.Mem]
  · by_cases ha : a.isEmpty = true
    · simp [hb, ha, Range.Mem]
    · simp only [hb, ha, Bool.false_eq_true, if_false]
      have hb' : b.isEmpty = false := by simpa using hb
      have ha' : a.isEmpty = false := by simpa using ha
      rw [Range.mem_postInit]
      · rcases b with ⟨bmn, bmne, bmx, bmxe, bie⟩
        simp only at hb'
        subst hb'
        cases bmn <;> cases bmx <;>
          simp only [Range.mem_intersectMin, Range.mem_intersectMax] <;>
          simp [Range.Mem, lowerOk, upperOk, and_assoc]
      · cases b.min <;> cases b.max <;>
          simp [Range.intersectMin_isEmpty, Range.intersectMax_isEmpty, ha']

end MesonModel.Version
