/-
Helper lemmas for the version model: the comparison is a strict total order on token tuples.
-/
import MesonModel.Version.Model

namespace MesonModel.Version

/-- what makes a three-way comparison a strict total order -/
structure CmpLaws {α} (cmp : α → α → Ordering) : Prop where
  eq_iff : ∀ a b, cmp a b = .eq ↔ a = b
  swap : ∀ a b, cmp b a = (cmp a b).swap
  trans : ∀ a b c, cmp a b = .lt → cmp b c = .lt → cmp a c = .lt

theorem natCmpLaws : CmpLaws (fun a b : Nat => compare a b) where
  eq_iff a b := by simp
  swap a b := by rw [Nat.compare_swap]
  trans a b c h1 h2 := by
    rw [Nat.compare_eq_lt] at *; omega

theorem charCmpLaws : CmpLaws charCmp where
  eq_iff a b := by
    unfold charCmp; rw [Nat.compare_eq_eq]
    constructor
    · intro h; exact Char.toNat_inj.mp h
    · intro h; rw [h]
  swap a b := by unfold charCmp; rw [Nat.compare_swap]
  trans a b c h1 h2 := by
    unfold charCmp at *; rw [Nat.compare_eq_lt] at *; omega

theorem lexCmpLaws {α} {cmp : α → α → Ordering} (h : CmpLaws cmp) : CmpLaws (lexCmp cmp) where
  eq_iff a b := by
    induction a generalizing b with
    | nil => cases b <;> simp [lexCmp]
    | cons x xs ih =>
      cases b with
      | nil => simp [lexCmp]
      | cons y ys =>
        simp only [lexCmp]
        have := h.eq_iff x y
        cases hc : cmp x y <;> simp_all
        all_goals (intro hxy; simp_all)
  swap a b := by
    induction a generalizing b with
    | nil => cases b <;> simp [lexCmp, Ordering.swap]
    | cons x xs ih =>
      cases b with
      | nil => simp [lexCmp, Ordering.swap]
      | cons y ys =>
        simp only [lexCmp]
        have := h.swap x y
        cases hc : cmp x y <;> simp_all [Ordering.swap]
  trans a b c := by
    induction a generalizing b c with
    | nil =>
      cases b <;> cases c <;> simp [lexCmp]
    | cons x xs ih =>
      cases b with
      | nil => simp [lexCmp]
      | cons y ys =>
        cases c with
        | nil =>
          simp only [lexCmp]
          cases cmp y x <;> cases cmp x y <;> simp
        | cons z zs =>
          simp only [lexCmp]
          intro h1 h2
          have e1 := h.eq_iff x y
          have e2 := h.eq_iff y z
          have e3 := h.eq_iff x z
          have t := h.trans x y z
          cases hxy : cmp x y <;> cases hyz : cmp y z <;> simp_all
          · exact ih _ _ h1 h2

theorem tokCmpLaws : CmpLaws tokCmp where
  eq_iff a b := by
    cases a <;> cases b <;> simp [tokCmp]
    · exact (lexCmpLaws charCmpLaws).eq_iff _ _
  swap a b := by
    cases a <;> cases b <;> simp only [tokCmp, Ordering.swap]
    · exact natCmpLaws.swap _ _
    · exact (lexCmpLaws charCmpLaws).swap _ _
  trans a b c := by
    cases a <;> cases b <;> cases c <;> simp [tokCmp]
    · intro h1 h2; rw [Nat.compare_eq_lt] at *; omega
    · exact (lexCmpLaws charCmpLaws).trans _ _ _

theorem vcmpLaws : CmpLaws vcmp := lexCmpLaws tokCmpLaws

theorem vcmp_eq_iff (a b : Ver) : vcmp a b = .eq ↔ a = b := vcmpLaws.eq_iff a b
theorem vcmp_swap (a b : Ver) : vcmp b a = (vcmp a b).swap := vcmpLaws.swap a b
theorem vcmp_trans (a b c : Ver) : vcmp a b = .lt → vcmp b c = .lt → vcmp a c = .lt :=
  vcmpLaws.trans a b c
theorem vcmp_self (a : Ver) : vcmp a a = .eq := (vcmp_eq_iff a a).mpr rfl

theorem vcmp_gt_iff (a b : Ver) : vcmp a b = .gt ↔ vcmp b a = .lt := by
  rw [vcmp_swap a b]; cases vcmp a b <;> simp [Ordering.swap]

/-- The strict order as a `Prop`, used to state the Range lemmas. -/
def Lt (a b : Ver) : Prop := vcmp a b = .lt

theorem Lt.irrefl (a : Ver) : ¬ Lt a a := by simp [Lt, vcmp_self]
theorem Lt.trans {a b c : Ver} : Lt a b → Lt b c → Lt a c := vcmp_trans a b c
theorem Lt.asymm {a b : Ver} : Lt a b → ¬ Lt b a := fun h1 h2 => Lt.irrefl a (Lt.trans h1 h2)
theorem Lt.total (a b : Ver) : Lt a b ∨ a = b ∨ Lt b a := by
  unfold Lt
  have h1 := vcmp_eq_iff a b
  have h2 := vcmp_gt_iff a b
  cases h : vcmp a b <;> simp_all

instance (a b : Ver) : Decidable (Lt a b) := inferInstanceAs (Decidable (vcmp a b = .lt))

theorem vlt_eq (a b : Ver) : vlt a b = decide (Lt a b) := by
  rw [Bool.eq_iff_iff, decide_eq_true_iff]; simp [vlt, Lt]
theorem vgt_eq (a b : Ver) : vgt a b = decide (Lt b a) := by
  rw [Bool.eq_iff_iff, decide_eq_true_iff]; simp [vgt, Lt, vcmp_gt_iff]
theorem vle_eq (a b : Ver) : vle a b = !decide (Lt b a) := by
  rw [Bool.eq_iff_iff, Bool.not_eq_true', decide_eq_false_iff_not]; simp [vle, Lt, ← vcmp_gt_iff]
theorem vge_eq (a b : Ver) : vge a b = !decide (Lt a b) := by
  rw [Bool.eq_iff_iff, Bool.not_eq_true', decide_eq_false_iff_not]; simp [vge, Lt]
theorem veq_eq (a b : Ver) : veq a b = decide (a = b) := rfl

theorem vlt_iff (a b : Ver) : vlt a b = true ↔ Lt a b := by simp [vlt, Lt]
theorem vgt_iff (a b : Ver) : vgt a b = true ↔ Lt b a := by
  simp [vgt, Lt, vcmp_gt_iff]
theorem vle_iff (a b : Ver) : vle a b = true ↔ ¬ Lt b a := by
  simp [vle, Lt, ← vcmp_gt_iff]
theorem vge_iff (a b : Ver) : vge a b = true ↔ ¬ Lt a b := by simp [vge, Lt]
theorem veq_iff (a b : Ver) : veq a b = true ↔ a = b := by simp [veq]
theorem vne_iff (a b : Ver) : vne a b = true ↔ a ≠ b := by simp [vne, veq]

end MesonModel.Version
