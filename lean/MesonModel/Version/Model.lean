/-
Model of `mesonbuild/utils/universal.py` `Version`, `_version_extract_cmpop`, `version_compare`,
`version_compare_many`, `Range`, `version_check_to_range`, `version_compare_condition_with_min`.
Core Lean only (no Mathlib) so that the driver links as a native executable.
-/
import MesonModel.Py.Str

namespace MesonModel.Version
open MesonModel.Py

/-- one element of `Version._v`: `int(m.group(1))` or `m.group(2)` -/
inductive Tok where
  | num (n : Nat)
  | alpha (s : List Char)
  deriving DecidableEq, Repr

abbrev Ver := List Tok

/-- the run the `finditer` scanner is currently inside -/
inductive Run where
  | none
  | digits (acc : Nat)
  | letters (rev : List Char)

def flush : Run → List Tok
  | .none => []
  | .digits n => [.num n]
  | .letters r => [.alpha r.reverse]

/-- `_VERSION_TOK_RE.finditer(s)`: maximal digit runs and maximal ASCII-letter runs, everything
else separates. -/
def tokenizeGo : Run → List Char → List Tok
  | r, [] => flush r
  | r, c :: cs =>
    if isDigit c then
      match r with
      | .digits n => tokenizeGo (.digits (n * 10 + digitVal c)) cs
      | _ => flush r ++ tokenizeGo (.digits (digitVal c)) cs
    else if isAlpha c then
      match r with
      | .letters l => tokenizeGo (.letters (c :: l)) cs
      | _ => flush r ++ tokenizeGo (.letters [c]) cs
    else flush r ++ tokenizeGo .none cs

def tokenize (s : List Char) : Ver := tokenizeGo .none s

/-- lexicographic comparison where a proper prefix is smaller (Python `str`/`zip`+`len`) -/
def lexCmp {α} (cmp : α → α → Ordering) : List α → List α → Ordering
  | [], [] => .eq
  | [], _ :: _ => .lt
  | _ :: _, [] => .gt
  | a :: as, b :: bs =>
    match cmp a b with
    | .eq => lexCmp cmp as bs
    | o => o

def charCmp (a b : Char) : Ordering := compare a.toNat b.toNat

/-- `Version.__cmp` on one position: a non-digit sequence sorts before a digit sequence -/
def tokCmp : Tok → Tok → Ordering
  | .num a, .num b => compare a b
  | .alpha a, .alpha b => lexCmp charCmp a b
  | .num _, .alpha _ => .gt
  | .alpha _, .num _ => .lt

/-- `Version.__cmp`: walk `zip`, then compare lengths -/
def vcmp (a b : Ver) : Ordering := lexCmp tokCmp a b

def vlt (a b : Ver) : Bool := vcmp a b == .lt
def vgt (a b : Ver) : Bool := vcmp a b == .gt
def vle (a b : Ver) : Bool := vcmp a b != .gt
def vge (a b : Ver) : Bool := vcmp a b != .lt
/-- `__eq__` is tuple equality of `_v`, not `__cmp` -/
def veq (a b : Ver) : Bool := decide (a = b)
def vne (a b : Ver) : Bool := !veq a b
/-- `__hash__` = `hash(self._v)`: a function of the token tuple only -/
def hashKey (a : Ver) : Ver := a

inductive CmpOp where
  | ge | le | ne | eq | gt | lt
  deriving DecidableEq, Repr

def CmpOp.apply : CmpOp → Ver → Ver → Bool
  | .ge => vge | .le => vle | .ne => vne | .eq => veq | .gt => vgt | .lt => vlt

/-- `_version_extract_cmpop` -/
def extractCmpOp (s : List Char) : CmpOp × List Char :=
  if startsWith s ['>', '='] then (.ge, strip (s.drop 2))
  else if startsWith s ['<', '='] then (.le, strip (s.drop 2))
  else if startsWith s ['!', '='] then (.ne, strip (s.drop 2))
  else if startsWith s ['=', '='] then (.eq, strip (s.drop 2))
  else if startsWith s ['='] then (.eq, strip (s.drop 1))
  else if startsWith s ['>'] then (.gt, strip (s.drop 1))
  else if startsWith s ['<'] then (.lt, strip (s.drop 1))
  else (.eq, strip s)

/-- `version_compare` -/
def versionCompare (v1 v2 : List Char) : Bool :=
  let (op, w) := extractCmpOp v2
  op.apply (tokenize v1) (tokenize w)

/-- `version_compare_many`: (all hold, not_found, found) -/
def versionCompareMany (v1 : List Char) (conds : List (List Char)) :
    Bool × List (List Char) × List (List Char) :=
  let nf := conds.filter (fun c => !versionCompare v1 c)
  let f := conds.filter (fun c => versionCompare v1 c)
  (nf.isEmpty, nf, f)

/-- `Range` dataclass -/
structure Range where
  min : Option Ver := none
  minEq : Bool := false
  max : Option Ver := none
  maxEq : Bool := false
  isEmpty : Bool := false
  deriving DecidableEq, Repr

/-- `Range.__contains__` -/
def Range.contains (r : Range) (x : Ver) : Bool :=
  if r.isEmpty then false
  else if (match r.min with
           | some m => if r.minEq then vlt x m else vle x m
           | none => false) then false
  else if (match r.max with
           | some m => if r.maxEq then vgt x m else vge x m
           | none => false) then false
  else true

/-- `Range.__post_init__` -/
def Range.postInit (r : Range) : Range :=
  match r.min, r.max with
  | some mn, some mx =>
    let r := { r with isEmpty := false }
    if vlt mn mx then r
    else if veq mn mx && r.minEq && r.maxEq then r
    else { r with min := none, max := none, isEmpty := true }
  | _, _ => r

/-- the dataclass constructor (`__init__` then `__post_init__`) -/
def Range.new (min : Option Ver) (minEq : Bool) (max : Option Ver) (maxEq : Bool)
    (isEmpty : Bool := false) : Range :=
  Range.postInit { min, minEq, max, maxEq, isEmpty }

def Range.intersectMin (r : Range) (v : Ver) (eq : Bool) : Range :=
  match r.min with
  | none => { r with min := some v, minEq := eq }
  | some m =>
    if vgt v m then { r with min := some v, minEq := eq }
    else if veq v m then { r with minEq := eq && r.minEq }
    else r

def Range.intersectMax (r : Range) (v : Ver) (eq : Bool) : Range :=
  match r.max with
  | none => { r with max := some v, maxEq := eq }
  | some m =>
    if vlt v m then { r with max := some v, maxEq := eq }
    else if veq v m then { r with maxEq := eq && r.maxEq }
    else r

/-- `Range.intersect` -/
def Range.intersect (self x : Range) : Range :=
  if x.isEmpty then x
  else if self.isEmpty then self
  else
    let r := self
    let r := match x.min with
      | some m => r.intersectMin m x.minEq
      | none => r
    let r := match x.max with
      | some m => r.intersectMax m x.maxEq
      | none => r
    r.postInit

/-- `Range.always` -/
def Range.always (self inner : Range) : Option Bool :=
  let narrowed := self.intersect inner
  if narrowed.isEmpty then some false
  else if narrowed = self then some true
  else none

/-- the range one check contributes inside `version_check_to_range` -/
def checkRange (start : Range) (op : CmpOp) (v : Ver) : Range :=
  match op with
  | .ge => Range.new (some v) true none false
  | .gt => Range.new (some v) false none false
  | .le => Range.new none false (some v) true
  | .lt => Range.new none false (some v) false
  | .eq => Range.new (some v) true (some v) true
  | .ne =>
    let r : Range := Range.new none false none false
    let r := if start.min = some v then Range.new (some v) false none false else r
    if start.max = some v then r.intersect (Range.new none false (some v) false) else r

/-- `version_check_to_range` -/
def versionCheckToRange (checks : List (List Char)) (start : Range := {}) : Range :=
  checks.foldl (fun st x =>
    let (op, w) := extractCmpOp x
    st.intersect (checkRange st op (tokenize w))) start

/-- `version_compare_condition_with_min` on an already built range -/
def condWithMinRange (cond : Range) (minimum : List Char) : Bool :=
  match cond.min with
  | none => cond.isEmpty
  | some m => vle (tokenize minimum) m

def condWithMin (cond : List Char) (minimum : List Char) : Bool :=
  condWithMinRange (versionCheckToRange [cond]) minimum

end MesonModel.Version
