/-
Tokenizer lemmas: separators (in particular the whitespace `str.strip()` removes) never change
the token tuple, so `version_compare`'s `strip()` is invisible to the order.
-/
import MesonModel.Version.Model

namespace MesonModel.Version
open MesonModel.Py

def isSep (c : Char) : Bool := !isDigit c && !isAlpha c

theorem isSpace_isSep (c : Char) (h : isSpace c = true) : isSep c = true := by
  unfold isSpace at h
  unfold isSep isDigit isAlpha
  simp at h ⊢
  omega

theorem tokenizeGo_sep_cons (r : Run) (c : Char) (cs : List Char) (h : isSep c = true) :
    tokenizeGo r (c :: cs) = flush r ++ tokenizeGo .none cs := by
  unfold isSep at h
  simp at h
  simp [tokenizeGo, h.1, h.2]

theorem flush_none : flush .none = [] := rfl

theorem tokenizeGo_append_sep (r : Run) (s : List Char) (c : Char) (h : isSep c = true) :
    tokenizeGo r (s ++ [c]) = tokenizeGo r s := by
  induction s generalizing r with
  | nil =>
    rw [List.nil_append, tokenizeGo_sep_cons r c [] h]
    simp [tokenizeGo, flush]
  | cons x xs ih =>
    simp only [List.cons_append, tokenizeGo]
    split
    · split <;> simp [ih]
    · split
      · split <;> simp [ih]
      · simp [ih]

theorem tokenizeGo_append_seps (r : Run) (s t : List Char) (h : ∀ c ∈ t, isSep c = true) :
    tokenizeGo r (s ++ t) = tokenizeGo r s := by
  induction t generalizing s with
  | nil => simp
  | cons c t ih =>
    have : s ++ c :: t = (s ++ [c]) ++ t := by simp
    rw [this, ih _ (fun d hd => h d (by simp [hd]))]
    exact tokenizeGo_append_sep r s c (h c (by simp))

theorem tokenize_dropWhile_seps (s : List Char) :
    tokenize (s.dropWhile isSpace) = tokenize s := by
  induction s with
  | nil => rfl
  | cons c cs ih =>
    simp only [List.dropWhile]
    cases hc : isSpace c with
    | false => rfl
    | true =>
      simp only []
      rw [ih]
      unfold tokenize
      rw [tokenizeGo_sep_cons .none c cs (isSpace_isSep c hc)]
      simp [flush]

theorem tokenize_lstrip (s : List Char) : tokenize (lstrip s) = tokenize s :=
  tokenize_dropWhile_seps s

theorem tokenize_rstrip (s : List Char) : tokenize (rstrip s) = tokenize s := by
  unfold rstrip
  have hs : s = (s.reverse.dropWhile isSpace).reverse ++ (s.reverse.takeWhile isSpace).reverse := by
    rw [← List.reverse_append, List.takeWhile_append_dropWhile, List.reverse_reverse]
  conv => rhs; rw [hs]
  unfold tokenize
  rw [tokenizeGo_append_seps]
  intro c hc
  rw [List.mem_reverse] at hc
  have hall := @List.all_takeWhile _ isSpace s.reverse
  rw [List.all_eq_true] at hall
  exact isSpace_isSep c (hall c hc)

/-- `strip()` never changes the token tuple -/
theorem tokenize_strip (s : List Char) : tokenize (strip s) = tokenize s := by
  unfold strip; rw [tokenize_rstrip, tokenize_lstrip]

end MesonModel.Version
