/-
C15 — "introspection files describe the build that was generated".

The introspection JSON files (`mesonbuild/mintro.py`) and the files the tools really consume
(`build.ninja`, `meson-private/meson_test_setup.dat`, `meson-private/install.dat`, the values `get_option()`
returned, the build-definition files that were opened) are reduced by the harness to flat records of strings.
This file states what it means for the two sides to *agree* (relations in `Prop`, written from the property
statement) and gives executable Boolean checkers for them; `Props/C15.lean` proves that every checker is sound
and complete for its relation and that the set-like relations do not depend on the order of their arguments.

The small pieces of Meson that sit between the two sides are modelled construct by construct:
* `getEnv`      — `EnvironmentVariables.get_env` (utils/core.py) on a given base environment;
* `destUsed`    — the destination `meson install` computes for an `InstallData` record
                  (minstall.py `install_targets` / `install_headers` / `install_data` / `install_man` /
                  `install_subdirs` with `get_destdir_path`, empty DESTDIR);
* `expandDest`  — the meaning of the `{prefix}`, `{bindir}`, … placeholders of `intro-install_plan.json`
                  (docs/markdown/IDE-integration.md, backends.py `_get_install_dir_name` family);
* `rowNameFor`  — the name under which `intro-buildoptions.json` lists the option a (sub)project reads.

Core Lean only (linked into `mvdriver-intro`).
-/
namespace MesonModel.Intro

abbrev Str := List Char

/-! ### strings and paths -/

def startsWith (s p : Str) : Bool := p.isPrefixOf s

/-- `p in s` for strings -/
def hasInfix : Str → Str → Bool
  | [], p => p.isEmpty
  | c :: s, p => p.isPrefixOf (c :: s) || hasInfix s p

/-- `os.path.basename` (POSIX): the text after the last `/` -/
def basename (s : Str) : Str :=
  (s.reverse.takeWhile (· != '/')).reverse

def isAbs (s : Str) : Bool := startsWith s ['/']

/-- `os.path.join(a, b)` (POSIX, two arguments) -/
def joinPath (a b : Str) : Str :=
  if isAbs b then b
  else if a.isEmpty then b
  else if a.getLast? == some '/' then a ++ b
  else a ++ '/' :: b

/-- collapse repeated `/` -/
def squeeze : Str → Str
  | '/' :: '/' :: r => squeeze ('/' :: r)
  | c :: r => c :: squeeze r
  | [] => []

/-- light normalisation used to compare destinations: repeated slashes collapsed, trailing slash dropped
(`.` and `..` are kept as written on both sides) -/
def normDest (s : Str) : Str :=
  let t := squeeze s
  if t.length > 1 && t.getLast? == some '/' then t.dropLast else t

/-- set equality of two lists -/
def SameSet {α} (a b : List α) : Prop := ∀ x, x ∈ a ↔ x ∈ b

def sameSetB {α} [DecidableEq α] (a b : List α) : Bool :=
  a.all (fun x => decide (x ∈ b)) && b.all (fun x => decide (x ∈ a))

/-! ### targets vs build.ninja -/

/-- a build statement: rule name, explicit outputs, explicit inputs (paths made absolute by the harness) -/
structure Edge where
  rule : Str
  outs : List Str
  ins : List Str
  exe : List Str := []     -- the words of the rule's command in front of `$ARGS` (the compiler that is run)
  args : List Str := []    -- the words of the statement's `ARGS` binding
  deriving DecidableEq, Repr

/-- one compile group of `target_sources`: language, compiler command, parameters, sources ++ generated_sources -/
structure Group where
  language : Str
  compiler : List Str
  params : List Str
  srcs : List Str
  deriving DecidableEq, Repr

inductive TKind where
  | build    -- executable / static library / shared library / shared module: compile + link statements
  | custom   -- custom_target: one command statement
  | phony    -- run_target / alias_target: a phony statement
  | other    -- anything else (jar, …): only the file names are compared
  deriving DecidableEq, Repr

/-- one entry of intro-targets.json -/
structure Target where
  id : Str
  kind : TKind
  files : List Str          -- `filename`
  priv : Str                -- private directory of the target with trailing slash (`filename[0] + ".p/"`)
  srcs : List Str           -- all `sources` ++ `generated_sources` of the `target_sources` blocks
  groups : List Group := [] -- the compile groups of `target_sources` (blocks that have a `language`)
  deriving DecidableEq, Repr

def phonyRule : Str := "phony".toList

/-- `<lang>_COMPILER…` rules (ninjabackend.py `compiler_to_rule_name`) -/
def isCompileRule (r : Str) : Bool := hasInfix r "_COMPILER".toList

/-- the statement is of the kind that can produce files of target `t` -/
def producesFor (t : Target) (e : Edge) : Bool :=
  if t.kind = .phony then e.rule == phonyRule else !(e.rule == phonyRule)

/-- compile statements of `t`: compile rule, some output inside the private directory of `t` -/
def isCompileFor (t : Target) (e : Edge) : Bool :=
  isCompileRule e.rule && e.outs.any (fun o => startsWith o t.priv)

/-- statement touches a file of `t` -/
def touches (t : Target) (e : Edge) : Bool := e.outs.any (fun o => decide (o ∈ t.files))

/-- the inputs consumed on behalf of `t` -/
def consumed (t : Target) (es : List Edge) : List Str :=
  match t.kind with
  | .build => (es.filter (isCompileFor t)).flatMap (·.ins)
  | .custom => (es.filter (fun e => producesFor t e && touches t e)).flatMap (·.ins)
  | .phony => []
  | .other => t.srcs

/-- every reported file is produced, by statements that produce nothing else -/
def FilesExact (t : Target) (es : List Edge) : Prop :=
  (∀ f ∈ t.files, ∃ e ∈ es, producesFor t e = true ∧ f ∈ e.outs) ∧
  (∀ e ∈ es, producesFor t e = true → (∃ o ∈ e.outs, o ∈ t.files) → ∀ o ∈ e.outs, o ∈ t.files)

def SourcesExact (t : Target) (es : List Edge) : Prop := SameSet t.srcs (consumed t es)

/-- the statement runs the compiler of the group: rule `<language>_COMPILER…`, the group's compiler command, the
group's parameters as `ARGS` -/
def groupMatches (g : Group) (e : Edge) : Bool :=
  startsWith e.rule (g.language ++ "_COMPILER".toList) && decide (e.exe = g.compiler) && decide (e.args = g.params)

/-- per-group agreement: every source of a group is consumed by a compile statement of the target that runs the
group's compiler with the group's parameters, and every input of a compile statement of the target is listed in
such a group -/
def GroupsExact (t : Target) (es : List Edge) : Prop :=
  t.kind = .build →
    (∀ g ∈ t.groups, ∀ s ∈ g.srcs, ∃ e ∈ es, isCompileFor t e = true ∧ s ∈ e.ins ∧ groupMatches g e = true) ∧
    (∀ e ∈ es, isCompileFor t e = true → ∀ i ∈ e.ins, ∃ g ∈ t.groups, i ∈ g.srcs ∧ groupMatches g e = true)

def TargetOk (t : Target) (es : List Edge) : Prop := FilesExact t es ∧ SourcesExact t es ∧ GroupsExact t es

/-- a link or command statement that makes a user-visible file (not inside a private directory, not one of the
backend's own `meson-internal__*` helpers) -/
def isTargetEdge (e : Edge) : Bool :=
  (hasInfix e.rule "_LINKER".toList || startsWith e.rule "CUSTOM_COMMAND".toList) &&
  e.outs.all (fun o => !hasInfix o ".p/".toList && !startsWith (basename o) "meson-internal__".toList)

/-- intro-targets.json agrees with build.ninja -/
def AgreesTargets (ts : List Target) (es : List Edge) : Prop :=
  (∀ t ∈ ts, TargetOk t es) ∧
  (∀ e ∈ es, isTargetEdge e = true → ∃ t ∈ ts, ∃ o ∈ e.outs, o ∈ t.files)

def checkFiles (t : Target) (es : List Edge) : Bool :=
  t.files.all (fun f => es.any (fun e => producesFor t e && decide (f ∈ e.outs))) &&
  es.all (fun e => !(producesFor t e) || !(touches t e) || e.outs.all (fun o => decide (o ∈ t.files)))

def checkSources (t : Target) (es : List Edge) : Bool := sameSetB t.srcs (consumed t es)

def checkGroups (t : Target) (es : List Edge) : Bool :=
  !decide (t.kind = .build) ||
    (t.groups.all (fun g => g.srcs.all (fun s =>
        es.any (fun e => isCompileFor t e && decide (s ∈ e.ins) && groupMatches g e))) &&
     es.all (fun e => !isCompileFor t e ||
        e.ins.all (fun i => t.groups.any (fun g => decide (i ∈ g.srcs) && groupMatches g e))))

def checkTarget (t : Target) (es : List Edge) : Bool := checkFiles t es && checkSources t es && checkGroups t es

def checkClaimed (ts : List Target) (es : List Edge) : Bool :=
  es.all (fun e => !(isTargetEdge e) || ts.any (fun t => touches t e))

def checkTargets (ts : List Target) (es : List Edge) : Bool :=
  ts.all (fun t => checkTarget t es) && checkClaimed ts es

/-! ### tests vs the serialised test records -/

inductive EnvMethod where
  | set | append | prepend
  deriving DecidableEq, Repr

structure EnvOp where
  method : EnvMethod
  name : Str
  values : List Str
  sep : Str
  deriving DecidableEq, Repr

def lookup (env : List (Str × Str)) (k : Str) : Option Str :=
  match env with
  | [] => none
  | (a, v) :: r => if a = k then some v else lookup r k

/-- `dict[k] = v` on an insertion-ordered dict -/
def assign (env : List (Str × Str)) (k v : Str) : List (Str × Str) :=
  match env with
  | [] => [(k, v)]
  | (a, w) :: r => if a = k then (a, v) :: r else (a, w) :: assign r k v

/-- `sep.join(xs)` -/
def joinSep (sep : Str) : List Str → Str
  | [] => []
  | [x] => x
  | x :: r => x ++ sep ++ joinSep sep r

/-- `EnvironmentVariables._set/_append/_prepend` (default_value = None) -/
def applyOp (env : List (Str × Str)) (op : EnvOp) : Str :=
  match op.method with
  | .set => joinSep op.sep op.values
  | .append =>
    match lookup env op.name with
    | none => joinSep op.sep op.values
    | some cur => joinSep op.sep (cur :: op.values)
  | .prepend =>
    match lookup env op.name with
    | none => joinSep op.sep op.values
    | some cur => joinSep op.sep (op.values ++ [cur])

/-- `EnvironmentVariables.get_env(base)` (no unset variables: `unset` cannot reach a test) -/
def getEnv (ops : List EnvOp) (base : List (Str × Str)) : List (Str × Str) :=
  ops.foldl (fun env op => assign env op.name (applyOp env op)) base

/-- a pickled `TestSerialisation` (scalars rendered by the harness: `None`, decimal, `True`/`False`) -/
structure SerTest where
  name : Str
  fname : List Str
  cmdArgs : List Str
  env : List EnvOp
  workdir : Str
  timeout : Str
  suite : List Str
  isParallel : Str
  priority : Str
  protocol : Str
  depends : List Str
  extraPaths : List Str
  deriving DecidableEq, Repr

/-- an entry of intro-tests.json / intro-benchmarks.json -/
structure IntroTest where
  name : Str
  cmd : List Str
  env : List (Str × Str)
  workdir : Str
  timeout : Str
  suite : List Str
  isParallel : Str
  priority : Str
  protocol : Str
  depends : List Str
  extraPaths : List Str
  deriving DecidableEq, Repr

/-- the entry describes what `meson test` will use -/
def AgreesTest (i : IntroTest) (s : SerTest) : Prop :=
  i.name = s.name ∧ i.cmd = s.fname ++ s.cmdArgs ∧ SameSet i.env (getEnv s.env []) ∧
  i.workdir = s.workdir ∧ i.timeout = s.timeout ∧ i.suite = s.suite ∧ i.isParallel = s.isParallel ∧
  i.priority = s.priority ∧ i.protocol = s.protocol ∧ SameSet i.depends s.depends ∧ i.extraPaths = s.extraPaths

def checkTest (i : IntroTest) (s : SerTest) : Bool :=
  decide (i.name = s.name) && decide (i.cmd = s.fname ++ s.cmdArgs) && sameSetB i.env (getEnv s.env []) &&
  decide (i.workdir = s.workdir) && decide (i.timeout = s.timeout) && decide (i.suite = s.suite) &&
  decide (i.isParallel = s.isParallel) && decide (i.priority = s.priority) && decide (i.protocol = s.protocol) &&
  sameSetB i.depends s.depends && decide (i.extraPaths = s.extraPaths)

/-- two lists related position by position (same length) -/
inductive AllPairs {α β} (R : α → β → Prop) : List α → List β → Prop where
  | nil : AllPairs R [] []
  | cons {a b as bs} : R a b → AllPairs R as bs → AllPairs R (a :: as) (b :: bs)

/-- entry by entry, in the order `meson test` reads them; every dependency id names a target of intro-targets.json -/
def AgreesTests (is : List IntroTest) (ss : List SerTest) (targetIds : List Str) : Prop :=
  AllPairs AgreesTest is ss ∧ ∀ i ∈ is, ∀ d ∈ i.depends, d ∈ targetIds

def checkForall2 : List IntroTest → List SerTest → Bool
  | [], [] => true
  | i :: is, s :: ss => checkTest i s && checkForall2 is ss
  | _, _ => false

def checkTests (is : List IntroTest) (ss : List SerTest) (targetIds : List Str) : Bool :=
  checkForall2 is ss && is.all (fun i => i.depends.all (fun d => decide (d ∈ targetIds)))

/-! ### test dependencies vs build.ninja (a witness that does not come from the test serialisation) -/

/-- what a test uses: its `depends` ids and the words of its command line resolved to absolute paths -/
structure TestUse where
  depends : List Str
  paths : List Str
  deriving DecidableEq, Repr

/-- id and files of an intro-targets.json entry -/
structure TargetFiles where
  id : Str
  files : List Str
  deriving DecidableEq, Repr

def firstOutput (ts : List TargetFiles) (id : Str) : Option Str :=
  match ts.find? (fun t => decide (t.id = id)) with
  | some t => t.files.head?
  | none => none

/-- the files `ninja` is asked for when the dependencies of all tests are built -/
def dependsOutputs (us : List TestUse) (ts : List TargetFiles) : List Str :=
  (us.flatMap (·.depends)).filterMap (firstOutput ts)

/-- the `depends` of all tests name exactly the targets behind `build meson-test-prereq: phony …`
(`meson-benchmark-prereq` for benchmarks) -/
def AgreesPrereq (us : List TestUse) (ts : List TargetFiles) (prereq : List Str) : Prop :=
  SameSet (dependsOutputs us ts) prereq

def checkPrereq (us : List TestUse) (ts : List TargetFiles) (prereq : List Str) : Bool :=
  sameSetB (dependsOutputs us ts) prereq

/-- every built file on a test's command line is made by a target the test depends on -/
def CmdCovered (us : List TestUse) (ts : List TargetFiles) : Prop :=
  ∀ u ∈ us, ∀ p ∈ u.paths, ∀ t ∈ ts, p ∈ t.files → t.id ∈ u.depends

def checkCmdCovered (us : List TestUse) (ts : List TargetFiles) : Bool :=
  us.all (fun u => u.paths.all (fun p => ts.all (fun t => !decide (p ∈ t.files) || decide (t.id ∈ u.depends))))

def AgreesTestDeps (us : List TestUse) (ts : List TargetFiles) (prereq : List Str) : Prop :=
  AgreesPrereq us ts prereq ∧ CmdCovered us ts

def checkTestDeps (us : List TestUse) (ts : List TargetFiles) (prereq : List Str) : Bool :=
  checkPrereq us ts prereq && checkCmdCovered us ts

/-! ### install plan / installed vs install.dat -/

inductive IKind where
  | targets | data | headers | man | subdirs | symlinks
  deriving DecidableEq, Repr

/-- a record of `InstallData` (install.dat) -/
structure InstRec where
  kind : IKind
  dataType : Str       -- `data_type` ("" when None)
  path : Str           -- source: absolute path (`build_dir/fname` for targets, the link name for symlinks)
  installPath : Str    -- `outdir` for targets, `install_path` otherwise
  tag : Str            -- "" when None or empty
  subproject : Str
  deriving DecidableEq, Repr

/-- section of intro-install_plan.json the record belongs to (`data_type or key`) -/
def sectionOf (r : InstRec) : Str :=
  if !r.dataType.isEmpty then r.dataType else
  match r.kind with
  | .targets => "targets".toList | .data => "data".toList | .headers => "headers".toList
  | .man => "man".toList | .subdirs => "install_subdirs".toList | .symlinks => "symlinks".toList

/-- `get_destdir_path('', prefix, p)` -/
def underPrefix (pfx p : Str) : Str := if isAbs p then p else joinPath pfx p

/-- the destination `meson install` writes the record to (DESTDIR empty) -/
def destUsed (pfx : Str) (r : InstRec) : Str :=
  match r.kind with
  | .targets => joinPath (underPrefix pfx r.installPath) (basename r.path)
  | .headers => joinPath (underPrefix pfx r.installPath) (basename r.path)
  | .symlinks => underPrefix pfx r.path
  | _ => underPrefix pfx r.installPath

/-- split `{name}rest` -/
def splitPlaceholder (d : Str) : Option (Str × Str) :=
  match d with
  | '{' :: r =>
    let n := r.takeWhile (· != '}')
    let rest := r.dropWhile (· != '}')
    match rest with
    | '}' :: tail => some (n, tail)
    | _ => none
  | _ => none

/-- meaning of a `destination` of intro-install_plan.json: `dirs` maps placeholder names (without braces) to the
option values; a destination without placeholder is relative to the prefix -/
def expandDest (dirs : List (Str × Str)) (pfx : Str) (d : Str) : Option Str :=
  match splitPlaceholder d with
  | none => some (underPrefix pfx d)
  | some (n, tail) =>
    let rest := tail.dropWhile (· == '/')
    if n = "prefix".toList then some (joinPath pfx rest)
    else match lookup dirs n with
      | none => none
      | some v => some (joinPath (underPrefix pfx v) rest)

structure PlanEntry where
  sect : Str
  path : Str
  dest : Str
  tag : Str
  subproject : Str
  deriving DecidableEq, Repr

/-- the plan entry names the record with the destination, tag and subproject `meson install` uses -/
def Matches (dirs : List (Str × Str)) (pfx : Str) (p : PlanEntry) (r : InstRec) : Prop :=
  p.sect = sectionOf r ∧ p.path = r.path ∧
  (expandDest dirs pfx p.dest).map normDest = some (normDest (destUsed pfx r)) ∧
  p.tag = r.tag ∧ p.subproject = r.subproject

instance (dirs pfx p r) : Decidable (Matches dirs pfx p r) := by unfold Matches; infer_instance

/-- every installed thing is named, and nothing else -/
def AgreesPlan (dirs : List (Str × Str)) (pfx : Str) (plan : List PlanEntry) (recs : List InstRec) : Prop :=
  (∀ r ∈ recs, ∃ p ∈ plan, Matches dirs pfx p r) ∧ (∀ p ∈ plan, ∃ r ∈ recs, Matches dirs pfx p r)

def checkPlan (dirs : List (Str × Str)) (pfx : Str) (plan : List PlanEntry) (recs : List InstRec) : Bool :=
  recs.all (fun r => plan.any (fun p => decide (Matches dirs pfx p r))) &&
  plan.all (fun p => recs.any (fun r => decide (Matches dirs pfx p r)))

/-- key under which intro-installed.json lists a record -/
def installedKey (r : InstRec) : Str :=
  match r.kind with
  | .symlinks => basename r.path
  | _ => r.path

def InstalledMatches (pfx : Str) (kv : Str × Str) (r : InstRec) : Prop :=
  kv.1 = installedKey r ∧ normDest kv.2 = normDest (destUsed pfx r)

instance (pfx kv r) : Decidable (InstalledMatches pfx kv r) := by unfold InstalledMatches; infer_instance

def AgreesInstalled (pfx : Str) (inst : List (Str × Str)) (recs : List InstRec) : Prop :=
  (∀ r ∈ recs, ∃ kv ∈ inst, InstalledMatches pfx kv r) ∧ (∀ kv ∈ inst, ∃ r ∈ recs, InstalledMatches pfx kv r)

def checkInstalled (pfx : Str) (inst : List (Str × Str)) (recs : List InstRec) : Bool :=
  recs.all (fun r => inst.any (fun kv => decide (InstalledMatches pfx kv r))) &&
  inst.all (fun kv => recs.any (fun r => decide (InstalledMatches pfx kv r)))

/-- both install files agree with install.dat -/
def AgreesInstall (dirs : List (Str × Str)) (pfx : Str) (plan : List PlanEntry) (inst : List (Str × Str))
    (planRecs instRecs : List InstRec) : Prop :=
  AgreesPlan dirs pfx plan planRecs ∧ AgreesInstalled pfx inst instRecs

def checkInstall (dirs : List (Str × Str)) (pfx : Str) (plan : List PlanEntry) (inst : List (Str × Str))
    (planRecs instRecs : List InstRec) : Bool :=
  checkPlan dirs pfx plan planRecs && checkInstalled pfx inst instRecs

/-- no two entries of one section share a source path: what a JSON object keyed by path can hold -/
def KeysUnique (plan : List PlanEntry) : Prop :=
  ∀ p ∈ plan, ∀ q ∈ plan, p.sect = q.sect → p.path = q.path → p = q

/-! ### build options vs get_option() -/

/-- a row of intro-buildoptions.json (value rendered like `'@0@'.format(value)`) -/
structure OptRow where
  name : Str
  value : Str
  deriving DecidableEq, Repr

/-- a `get_option(name)` result observed while (sub)project `sub` was interpreted -/
structure Observed where
  sub : Str            -- "" for the top-level project
  name : Str
  builtin : Bool       -- not a project option (builtin / base / compiler option)
  value : Str
  deriving DecidableEq, Repr

def hasRow (rows : List OptRow) (n : Str) : Bool := rows.any (fun r => decide (r.name = n))

/-- the row that describes the option a project read.  A project is addressed as `<project>:<name>`, the top-level
project by the empty name (`:<name>`): such a row holds the value of an override for that project alone.  Without such
a row a builtin option is described by the global row `<name>`; a project option of the top-level project is listed as
`<name>`; a `build.` option without row of its own (native build) by the host row. -/
def rowNameFor (rows : List OptRow) (o : Observed) : Str :=
  let q := o.sub ++ ':' :: o.name
  if o.builtin then
    -- native build: a `build.` option without rows of its own is described by the host rows (`P:name`, else `name`)
    let nm := if startsWith o.name "build.".toList && !hasRow rows o.name && !hasRow rows q then o.name.drop 6 else o.name
    let q' := o.sub ++ ':' :: nm
    if hasRow rows q' then q' else nm
  else if o.sub.isEmpty then o.name else q

/-- every observed option is listed, and every row of that name shows the value get_option() returned -/
def AgreesOption (rows : List OptRow) (o : Observed) : Prop :=
  (∃ r ∈ rows, r.name = rowNameFor rows o) ∧ ∀ r ∈ rows, r.name = rowNameFor rows o → r.value = o.value

def AgreesOptions (rows : List OptRow) (obs : List Observed) : Prop := ∀ o ∈ obs, AgreesOption rows o

def checkOption (rows : List OptRow) (o : Observed) : Bool :=
  hasRow rows (rowNameFor rows o) &&
  rows.all (fun r => !decide (r.name = rowNameFor rows o) || decide (r.value = o.value))

def checkOptions (rows : List OptRow) (obs : List Observed) : Bool := obs.all (checkOption rows)

/-! ### build-definition files -/

/-- intro-buildsystem_files.json lists exactly the files that were read -/
def AgreesBuildFiles (listed read : List Str) : Prop := SameSet listed read

def checkBuildFiles (listed read : List Str) : Bool := sameSetB listed read

end MesonModel.Intro
