import MesonModel.Intro.TestSer
/-
Frame reasoning for `create_test_serialisation` (C15): with `copy.deepcopy` the function only writes to cells it
allocated itself, so it is a function of the *values* the test table reaches (`serPure`).
-/
namespace MesonModel.Intro.TestSer
open MesonModel.Intro

/-- `h'` is `h` after some allocations and writes to fresh cells: every old reference denotes what it denoted -/
def Frame (h h' : Heap) : Prop :=
  h'.wf ∧ h.nObjs ≤ h'.nObjs ∧ ∀ r, r < h.nObjs → h'.envOf r = h.envOf r

theorem Frame.refl {h : Heap} (hw : h.wf) : Frame h h := ⟨hw, Nat.le_refl _, fun _ _ => rfl⟩

theorem Frame.trans {a b c : Heap} (h1 : Frame a b) (h2 : Frame b c) : Frame a c :=
  ⟨h2.1, Nat.le_trans h1.2.1 h2.2.1, fun r hr => by rw [h2.2.2 r (Nat.lt_of_lt_of_le hr h1.2.1), h1.2.2 r hr]⟩

/-- no other object shares the `envvars` list of object `r` -/
def Exclusive (h : Heap) (r : Nat) : Prop :=
  ∀ r', r' < h.nObjs → r' ≠ r → (h.obj r').envvars ≠ (h.obj r).envvars

theorem copy_deep_spec (h : Heap) (r : Nat) (hw : h.wf) :
    (copyEnv .deep h r).1 = h.nObjs ∧ (copyEnv .deep h r).2.wf ∧ (copyEnv .deep h r).2.nObjs = h.nObjs + 1 ∧
    (∀ r', r' < h.nObjs → (copyEnv .deep h r).2.envOf r' = h.envOf r') ∧
    (copyEnv .deep h r).2.envOf h.nObjs = h.envOf r ∧ Exclusive (copyEnv .deep h r).2 h.nObjs := by
  refine ⟨rfl, ?_, rfl, ?_, ?_, ?_⟩
  · intro i hi
    simp only [copyEnv] at hi ⊢
    by_cases hEq : i = h.nObjs
    · simp [hEq]
    · have hlt : i < h.nObjs := by omega
      have := hw i hlt
      simp only [hEq, if_false]
      omega
  · intro i hi
    have hne : i ≠ h.nObjs := by omega
    have := hw i hi
    have h1 : (h.obj i).envvars ≠ h.nCells := by omega
    have h2 : (h.obj i).unset ≠ h.nCells := by omega
    simp [copyEnv, Heap.envOf, hne, h1, h2]
  · simp [copyEnv, Heap.envOf]
  · intro i hi hne
    simp only [copyEnv] at hi ⊢
    have hlt : i < h.nObjs := by omega
    have := hw i hlt
    simp only [hne, if_false, if_true]
    omega

theorem prependOp_spec (h : Heap) (r : Nat) (op : EnvOp) (hw : h.wf) (hx : Exclusive h r) (_hr : r < h.nObjs)
    (hn : op.name ∉ (h.envOf r).2) :
    ∃ h', prependOp h r op = .ok h' ∧ h'.wf ∧ h'.nObjs = h.nObjs ∧ Exclusive h' r ∧
      (∀ r', r' < h.nObjs → r' ≠ r → h'.envOf r' = h.envOf r') ∧
      h'.envOf r = ((h.envOf r).1 ++ [op], (h.envOf r).2) := by
  have hn' : op.name ∉ h.uns (h.obj r).unset := hn
  refine ⟨{ h with ops := fun i => if i = (h.obj r).envvars then h.ops i ++ [op] else h.ops i },
    by simp [prependOp, hn'], ?_, rfl, ?_, ?_, ?_⟩
  · exact hw
  · exact hx
  · intro i hi hne
    have := hx i hi hne
    simp [Heap.envOf, this]
  · simp [Heap.envOf]

theorem prependOp_unset (h : Heap) (r : Nat) (op : EnvOp) (hn : op.name ∈ (h.envOf r).2) :
    prependOp h r op = .error .prependToUnset := by
  have hn' : op.name ∈ h.uns (h.obj r).unset := hn
  simp [prependOp, hn']

theorem prependAll_spec (ops : List EnvOp) : ∀ (h : Heap) (r : Nat), h.wf → Exclusive h r → r < h.nObjs →
    (ops.any (fun op => decide (op.name ∈ (h.envOf r).2)) = true → prependAll h r ops = .error .prependToUnset) ∧
    (ops.any (fun op => decide (op.name ∈ (h.envOf r).2)) = false →
      ∃ h', prependAll h r ops = .ok h' ∧ h'.wf ∧ h'.nObjs = h.nObjs ∧
        (∀ r', r' < h.nObjs → r' ≠ r → h'.envOf r' = h.envOf r') ∧
        h'.envOf r = ((h.envOf r).1 ++ ops, (h.envOf r).2)) := by
  induction ops with
  | nil =>
    intro h r hw _ _
    exact ⟨by simp, fun _ => ⟨h, rfl, hw, rfl, fun _ _ _ => rfl, by simp⟩⟩
  | cons op rest ih =>
    intro h r hw hx hr
    by_cases hn : op.name ∈ (h.envOf r).2
    · refine ⟨fun _ => ?_, fun hf => ?_⟩
      · simp [prependAll, prependOp_unset h r op hn]
      · simp [hn] at hf
    · obtain ⟨h1, e1, w1, n1, x1, f1, v1⟩ := prependOp_spec h r op hw hx hr hn
      have hu : (h1.envOf r).2 = (h.envOf r).2 := by rw [v1]
      have ih' := ih h1 r w1 x1 (by omega)
      rw [hu] at ih'
      refine ⟨fun ht => ?_, fun hf => ?_⟩
      · have : rest.any (fun op => decide (op.name ∈ (h.envOf r).2)) = true := by
          simpa [hn] using ht
        simp [prependAll, e1, ih'.1 this]
      · have : rest.any (fun op => decide (op.name ∈ (h.envOf r).2)) = false := by
          simpa [hn] using hf
        obtain ⟨h2, e2, w2, n2, f2, v2⟩ := ih'.2 this
        refine ⟨h2, by simp [prependAll, e1, e2], w2, by omega, ?_, ?_⟩
        · intro i hi hne
          rw [f2 i (by omega) hne, f1 i hi hne]
        · rw [v2, v1]; simp

theorem serPure_congr (bd : Str) (darwin : Bool) (e1 e2 : Nat → List EnvOp × List Str) (t : Test)
    (h : e1 t.env = e2 t.env) : serPure bd darwin e1 t = serPure bd darwin e2 t := by
  simp [serPure, h]

theorem mapE_congr {α β ε} (f g : α → Except ε β) : ∀ (l : List α), (∀ a ∈ l, f a = g a) → mapE f l = mapE g l
  | [], _ => rfl
  | a :: r, h => by
    have h1 : f a = g a := h a (by simp)
    have h2 := mapE_congr f g r (fun x hx => h x (by simp [hx]))
    simp [mapE, h1, h2]

/-- one loop iteration, with deepcopy: the exception or the record `serPure` computes from the value of the test's
environment; old references keep their meaning -/
theorem createOne_deep (bd : Str) (darwin : Bool) (t : Test) (h : Heap) (hw : h.wf) (_ht : t.env < h.nObjs) :
    match serPure bd darwin h.envOf t with
    | .error e => createOne .deep bd darwin t h = .error e
    | .ok v => ∃ s h', createOne .deep bd darwin t h = .ok (s, h') ∧ Frame h h' ∧ s.env < h'.nObjs ∧ pickleOne h' s = v := by
  unfold serPure createOne
  cases hc : serCore bd t with
  | error e => simp
  | ok core =>
    obtain ⟨c1, cw, cn, cf, cv, cx⟩ := copy_deep_spec h t.env hw
    have sp := prependAll_spec (ldOps darwin (ldPath bd (dependsOf t))) (copyEnv .deep h t.env).2 h.nObjs cw cx (by omega)
    rw [cv] at sp
    cases hb : (ldOps darwin (ldPath bd (dependsOf t))).any (fun op => decide (op.name ∈ (h.envOf t.env).2)) with
    | true =>
      have := sp.1 hb
      simp only [hb, if_true]
      show (match copyEnv .deep h t.env with | (r, h1) => _) = _
      rw [show copyEnv .deep h t.env = ((copyEnv .deep h t.env).1, (copyEnv .deep h t.env).2) from rfl]
      simp only [c1, this]
    | false =>
      obtain ⟨h2, e2, w2, n2, f2, v2⟩ := sp.2 hb
      simp only [hb, if_false, Bool.false_eq_true]
      refine ⟨⟨core, h.nObjs⟩, h2, ?_, ⟨w2, by omega, ?_⟩, by show h.nObjs < h2.nObjs; omega, ?_⟩
      · show (match copyEnv .deep h t.env with | (r, h1) => _) = _
        rw [show copyEnv .deep h t.env = ((copyEnv .deep h t.env).1, (copyEnv .deep h t.env).2) from rfl]
        simp only [c1, e2]
      · intro r hr
        rw [f2 r (by omega) (by omega), cf r hr]
      · simp [pickleOne, v2]

theorem pickleOne_frame {h h' : Heap} (f : Frame h h') (s : Ser) (hs : s.env < h.nObjs) :
    pickleOne h' s = pickleOne h s := by
  simp [pickleOne, f.2.2 s.env hs]

/-- the loop, with deepcopy -/
theorem createAll_deep (bd : Str) (darwin : Bool) : ∀ (ts : List Test) (h : Heap), h.wf → (∀ t ∈ ts, t.env < h.nObjs) →
    match mapE (serPure bd darwin h.envOf) ts with
    | .error e => createAll .deep bd darwin ts h = .error e
    | .ok vs => ∃ ss h', createAll .deep bd darwin ts h = .ok (ss, h') ∧ Frame h h' ∧ (∀ s ∈ ss, s.env < h'.nObjs) ∧
        pickle h' ss = vs := by
  intro ts
  induction ts with
  | nil =>
    intro h hw _
    exact ⟨[], h, rfl, Frame.refl hw, by simp, rfl⟩
  | cons t rest ih =>
    intro h hw hts
    have h1 := createOne_deep bd darwin t h hw (hts t (by simp))
    simp only [mapE]
    cases hp : serPure bd darwin h.envOf t with
    | error e =>
      rw [hp] at h1
      simp [createAll, h1]
    | ok v =>
      rw [hp] at h1
      obtain ⟨s, ha, e1, fr, hs, pv⟩ := h1
      have hrest : ∀ t' ∈ rest, t'.env < ha.nObjs := fun t' ht' =>
        Nat.lt_of_lt_of_le (hts t' (by simp [ht'])) fr.2.1
      have ih' := ih ha fr.1 hrest
      have hcongr : mapE (serPure bd darwin ha.envOf) rest = mapE (serPure bd darwin h.envOf) rest :=
        mapE_congr _ _ rest (fun t' ht' => serPure_congr bd darwin _ _ t' (fr.2.2 t'.env (hts t' (by simp [ht']))))
      rw [hcongr] at ih'
      cases hm : mapE (serPure bd darwin h.envOf) rest with
      | error e =>
        rw [hm] at ih'
        simp [createAll, e1, ih']
      | ok vs =>
        rw [hm] at ih'
        obtain ⟨ss, hb, e2, fr2, hss, pvs⟩ := ih'
        refine ⟨s :: ss, hb, by simp [createAll, e1, e2], fr.trans fr2, ?_, ?_⟩
        · intro s' hs'
          rcases List.mem_cons.mp hs' with rfl | hm'
          · exact Nat.lt_of_lt_of_le hs fr2.2.1
          · exact hss s' hm'
        · simp only [pickle, List.map_cons]
          rw [pickleOne_frame fr2 s hs, pv]
          exact congrArg _ pvs

theorem mem_insertBy {α} (le : α → α → Bool) (x y : α) : ∀ (l : List α), y ∈ insertBy le x l ↔ y = x ∨ y ∈ l
  | [] => by simp [insertBy]
  | z :: r => by
    unfold insertBy
    split
    · simp
    · have := mem_insertBy le x y r
      simp [this]
      constructor
      · rintro (h | h | h) <;> simp [h]
      · rintro (h | h | h) <;> simp [h]

theorem mem_sortBy {α} (le : α → α → Bool) (y : α) : ∀ (l : List α), y ∈ sortBy le l ↔ y ∈ l
  | [] => by simp [sortBy]
  | x :: r => by
    have := mem_sortBy le y r
    simp [sortBy, mem_insertBy, this]

theorem getTestList_eq (h : Heap) (ss : List Ser) : getTestList h ss = (pickle h ss).map introOfPickled := by
  simp [getTestList, pickle, introOfPickled, introOne, pickleOne]

theorem envUsed_nil (ops : List EnvOp) : envUsed ops [] = getEnv ops [] := by
  simp [envUsed]

end MesonModel.Intro.TestSer
