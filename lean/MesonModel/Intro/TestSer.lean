import MesonModel.Intro.Model
/-
C15 — the two consumers of a project's test table, as code.

`Backend.create_test_serialisation` (backend/backends.py) turns the `Test` objects of `build.get_tests()` into
`TestSerialisation` records.  It is called twice per configuration: by `Backend.write_test_file` (pickled into
`meson-private/meson_test_setup.dat`, what `meson test` unpickles) and — later, in the same process, on the same
`Test` objects — by `mintro.list_tests`, whose result `mintro.get_test_list` turns into `intro-tests.json`.

The two calls communicate through the heap: a `Test` holds a reference to a mutable `EnvironmentVariables`
object (`envvars` list, `unset_vars` set; an `environment()` object given to several tests is one object), and the
function *mutates* an environment (`t_env.prepend('LD_LIBRARY_PATH', …)`) — a copy of the test's, made with
`copy.deepcopy`.  The model therefore has an explicit heap of environment objects whose `envvars` / `unset_vars`
fields are references to list / set cells, `copy.deepcopy` and `copy.copy` as two allocation disciplines
(`CopyMode`), and `prepend` as an in-place update of a cell.  `Props/C15.lean` proves that with `deepcopy` the
function is a pure function of the values reachable from the table (frame property), hence the second call
returns what the first returned and `intro-tests.json` describes what was pickled; and that the same code with
`copy.copy` does not have this property.

Not modelled (not among the fields the property lists / not observable in either output): `varnames`,
`can_use_env`, `is_cross_built`, `exe_wrapper`, `needs_exe_wrapper`, `expected_fail`, `expected_exitcode`,
`cmd_is_built`, `cmd_is_exe`, `version`, `verbose`, `project_name`; Windows / Cygwin machines
(`determine_windows_extra_paths`: `extra_paths` is `[]` here).
Core Lean only.
-/
namespace MesonModel.Intro.TestSer
open MesonModel.Intro

/-! ### strings, paths, sorting -/

/-- `a <= b` for Python `str` (code point order, prefix first) -/
def strLe : Str → Str → Bool
  | [], _ => true
  | _ :: _, [] => false
  | a :: as, b :: bs => if a.toNat < b.toNat then true else if b.toNat < a.toNat then false else strLe as bs

def insertBy {α} (le : α → α → Bool) (x : α) : List α → List α
  | [] => [x]
  | y :: r => if le x y then x :: y :: r else y :: insertBy le x r

/-- `sorted(l)` for a total preorder `le`; equal keys keep their order (insertion from the right) -/
def sortBy {α} (le : α → α → Bool) : List α → List α
  | [] => []
  | x :: r => insertBy le x (sortBy le r)

/-- `set(l)` as far as membership goes: first occurrences -/
def dedup {α} [DecidableEq α] : List α → List α
  | [] => []
  | x :: r => if x ∈ r then dedup r else x :: dedup r

def endsWith (s p : Str) : Bool := p.reverse.isPrefixOf s.reverse

/-- `s.split('/')` -/
def splitSlash (s : Str) : List Str :=
  let r := s.foldr (fun c (acc : Str × List Str) => if c = '/' then ([], acc.1 :: acc.2) else (c :: acc.1, acc.2)) ([], [])
  r.1 :: r.2

/-- components of `os.path.normpath(p)` for an absolute `p` that does not start with exactly two slashes:
empty and `.` components dropped, `..` pops (and is dropped at the root) -/
def normComps (p : Str) : List Str :=
  ((splitSlash p).foldl (fun (acc : List Str) c =>
    if c.isEmpty || c = ['.'] then acc
    else if c = ['.', '.'] then acc.drop 1
    else c :: acc) []).reverse

def commonLen : List Str → List Str → Nat
  | a :: as, b :: bs => if a = b then commonLen as bs + 1 else 0
  | _, _ => 0

/-- `os.path.relpath(path, start)` for absolute arguments (posixpath) -/
def relpath (path start : Str) : Str :=
  let sl := normComps start
  let pl := normComps path
  let i := commonLen sl pl
  let rel := List.replicate (sl.length - i) ['.', '.'] ++ pl.drop i
  match rel with
  | [] => ['.']
  | x :: r => r.foldl joinPath x

/-! ### the heap of `EnvironmentVariables` objects -/

/-- an `EnvironmentVariables` object: its `envvars` and `unset_vars` attributes are references to a list and a set -/
structure EnvObj where
  envvars : Nat
  unset : Nat
  deriving DecidableEq, Repr

/-- objects `0 … nObjs-1`, cells `0 … nCells-1` (a list cell and a set cell share the numbering) -/
structure Heap where
  nObjs : Nat
  nCells : Nat
  obj : Nat → EnvObj
  ops : Nat → List EnvOp
  uns : Nat → List Str

/-- what an environment reference denotes: the operations and the unset names -/
def Heap.envOf (h : Heap) (r : Nat) : List EnvOp × List Str :=
  (h.ops (h.obj r).envvars, h.uns (h.obj r).unset)

def Heap.wf (h : Heap) : Prop :=
  ∀ r, r < h.nObjs → (h.obj r).envvars < h.nCells ∧ (h.obj r).unset < h.nCells

inductive CopyMode where
  | deep      -- copy.deepcopy(t.env): the code that exists
  | shallow   -- copy.copy(t.env): a new object whose attributes are the same list and set
  deriving DecidableEq, Repr

/-- `copy.deepcopy(env)` / `copy.copy(env)`: the new reference and the heap after the allocation -/
def copyEnv (mode : CopyMode) (h : Heap) (r : Nat) : Nat × Heap :=
  match mode with
  | .deep =>
    let n := h.nCells
    let src := h.obj r
    (h.nObjs, { nObjs := h.nObjs + 1, nCells := n + 1,
                obj := fun i => if i = h.nObjs then ⟨n, n⟩ else h.obj i,
                ops := fun i => if i = n then h.ops src.envvars else h.ops i,
                uns := fun i => if i = n then h.uns src.unset else h.uns i })
  | .shallow =>
    let src := h.obj r
    (h.nObjs, { h with nObjs := h.nObjs + 1, obj := fun i => if i = h.nObjs then src else h.obj i })

inductive Err where
  | prependToUnset     -- MesonException 'You cannot prepend to unset variable'
  | badObject          -- MesonException 'Bad object in test command.'
  | badExe             -- the program is neither a target nor has get_command()
  | emptyCommand       -- cmd[0] of an empty command
  | noOutput           -- get_outputs()[0] of a custom target without outputs
  deriving DecidableEq, Repr

/-- `env.prepend(name, values, sep)`: raises when the name is unset, else appends the operation to the list the
object's `envvars` attribute refers to (in place: every object sharing the list sees it) -/
def prependOp (h : Heap) (r : Nat) (op : EnvOp) : Except Err Heap :=
  let o := h.obj r
  if op.name ∈ h.uns o.unset then .error .prependToUnset
  else .ok { h with ops := fun i => if i = o.envvars then h.ops i ++ [op] else h.ops i }

def prependAll (h : Heap) (r : Nat) : List EnvOp → Except Err Heap
  | [] => .ok h
  | op :: rest =>
    match prependOp h r op with
    | .error e => .error e
    | .ok h' => prependAll h' r rest

/-! ### the test table -/

inductive TgtKind where
  | executable | sharedLibrary | staticLibrary | otherBuild   -- build.BuildTarget subclasses
  | custom | index                                             -- CustomTarget, CustomTargetIndex
  deriving DecidableEq, Repr

def TgtKind.isBuild : TgtKind → Bool
  | .custom | .index => false
  | _ => true

/-- a target object as the serialisation sees it -/
structure Tgt where
  obj : Nat                        -- object identity (two `ct[0]` expressions are two objects with one id)
  id : Str                         -- get_id()
  kind : TgtKind
  dir : Str                        -- backend.get_target_dir(t)
  filename : Str                   -- BuildTarget.get_filename()
  outputs : List Str               -- get_outputs()
  linkDeps : List (TgtKind × Str)  -- get_all_link_deps(): kind and get_builddir() of each
  deriving DecidableEq, Repr

/-- what can stand as program, argument or dependency of a test -/
inductive Obj where
  | str (s : Str)
  | file (rel : Str)                   -- mesonlib.File; `rel` = rel_to_builddir(build_to_src)
  | target (t : Tgt)
  | external (cmd : List Str)          -- programs.ExternalProgram: get_command()
  | localProg (inner : Obj)            -- build.LocalProgram: `.program`
  | other
  deriving Repr

/-- `if isinstance(x, build.LocalProgram): x = x.program` -/
def unwrap : Obj → Obj
  | .localProg o => o
  | o => o

structure Test where
  name : Str
  suite : List Str
  exe : Obj
  args : List Obj
  depends : List Tgt
  env : Nat                 -- reference to an EnvironmentVariables object
  isParallel : Str
  timeout : Str
  workdir : Option Str
  protocol : Str
  priority : Int

/-- a `TestSerialisation` object: the scalar fields and lists (in `core`, whose `env` is not used) and a reference
to its environment object -/
structure Ser where
  core : SerTest
  env : Nat

/-- `Backend.get_exe_interpreter` on a Linux build machine that needs no wrapper -/
def exeInterpreter (f : Str) : List Str :=
  if endsWith f ".jar".toList then ["java".toList, "-jar".toList]
  else if endsWith f ".exe".toList then ["mono".toList]
  else []

/-- `Backend.get_target_filename` -/
def targetFilename (t : Tgt) : Except Err Str :=
  match t.kind with
  | .custom | .index =>
    match t.outputs with
    | [] => .error .noOutput
    | o :: _ => .ok (joinPath t.dir o)
  | _ => .ok (joinPath t.dir t.filename)

/-- `Backend.construct_target_rel_paths` -/
def targetRelPaths (bd : Str) (t : Tgt) (workdir : Option Str) : List Str :=
  let targetDir := if t.kind = .executable && workdir.isNone then (if t.dir.isEmpty then ['.'] else t.dir) else t.dir
  let outputs := if t.kind.isBuild then [t.filename] else t.outputs
  let outputs := outputs.map (joinPath targetDir)
  match workdir with
  | none => outputs
  | some w => outputs.map (fun x => relpath (joinPath bd x) w)

/-- one argument of the test: the words it contributes -/
def argWords (bd : Str) (workdir : Option Str) (a : Obj) : Except Err (List Str) :=
  match unwrap a with
  | .file rel => .ok [joinPath bd rel]
  | .str s => .ok [s]
  | .target t => .ok (targetRelPaths bd t workdir)
  | .external cmd => .ok cmd
  | _ => .error .badObject

def allArgWords (bd : Str) (workdir : Option Str) : List Obj → Except Err (List Str)
  | [] => .ok []
  | a :: r =>
    match argWords bd workdir a with
    | .error e => .error e
    | .ok ws =>
      match allArgWords bd workdir r with
      | .error e => .error e
      | .ok rest => .ok (ws ++ rest)

def targetOf (o : Obj) : List Tgt :=
  match unwrap o with
  | .target t => [t]
  | _ => []

def dedupObj : List Tgt → List Tgt
  | [] => []
  | t :: r => if r.any (fun u => u.obj = t.obj) then dedupObj r else t :: dedupObj r

/-- the `depends` set: `t.depends`, the program when it is a target, every target among the arguments -/
def dependsOf (t : Test) : List Tgt :=
  dedupObj (t.depends ++ targetOf t.exe ++ t.args.flatMap targetOf)

/-- the directories put on LD_LIBRARY_PATH: the build directories of the shared libraries the build targets among
the dependencies link to (transitively), a sorted set -/
def ldPath (bd : Str) (deps : List Tgt) : List Str :=
  sortBy strLe (dedup ((deps.filter (·.kind.isBuild)).flatMap (fun d =>
    (d.linkDeps.filter (fun l => l.1 = .sharedLibrary)).map (fun l => joinPath bd l.2))))

def ldOps (darwin : Bool) (dirs : List Str) : List EnvOp :=
  if dirs.isEmpty then []
  else ⟨.prepend, "LD_LIBRARY_PATH".toList, dirs, [':']⟩ ::
       (if darwin then [⟨.prepend, "DYLD_LIBRARY_PATH".toList, dirs, [':']⟩] else [])

def renderOpt : Option Str → Str
  | none => "None".toList
  | some s => s

/-- everything of a `TestSerialisation` except its environment (which lives in the heap), or the exception -/
def serCore (bd : Str) (t : Test) : Except Err SerTest :=
  let exe := unwrap t.exe
  let cmd0 : Except Err (List Str) :=
    match exe with
    | .target g => (targetFilename g).map (fun f => [joinPath bd f])
    | .external c => .ok c
    | _ => .error .badExe
  match cmd0 with
  | .error e => .error e
  | .ok [] => .error .emptyCommand
  | .ok (f :: rest) =>
    match allArgWords bd t.workdir t.args with
    | .error e => .error e
    | .ok words =>
      .ok { name := t.name, fname := exeInterpreter f ++ f :: rest, cmdArgs := words, env := [],
            workdir := renderOpt t.workdir, timeout := t.timeout, suite := t.suite, isParallel := t.isParallel,
            priority := (toString t.priority).toList, protocol := t.protocol,
            depends := sortBy strLe ((dependsOf t).map (·.id)), extraPaths := [] }

/-- the body of the loop of `create_test_serialisation` for one test -/
def createOne (mode : CopyMode) (bd : Str) (darwin : Bool) (t : Test) (h : Heap) : Except Err (Ser × Heap) :=
  match serCore bd t with
  | .error e => .error e
  | .ok core =>
    let (r, h1) := copyEnv mode h t.env
    match prependAll h1 r (ldOps darwin (ldPath bd (dependsOf t))) with
    | .error e => .error e
    | .ok h2 => .ok (⟨core, r⟩, h2)

def createAll (mode : CopyMode) (bd : Str) (darwin : Bool) : List Test → Heap → Except Err (List Ser × Heap)
  | [], h => .ok ([], h)
  | t :: rest, h =>
    match createOne mode bd darwin t h with
    | .error e => .error e
    | .ok (s, h1) =>
      match createAll mode bd darwin rest h1 with
      | .error e => .error e
      | .ok (ss, h2) => .ok (s :: ss, h2)

/-- `sorted(tests, key=lambda tst: -1 * tst.priority)` -/
def byPriority (tests : List Test) : List Test := sortBy (fun a b => decide (-a.priority ≤ -b.priority)) tests

/-- `Backend.create_test_serialisation(tests)` -/
def createSer (mode : CopyMode) (bd : Str) (darwin : Bool) (tests : List Test) (h : Heap) : Except Err (List Ser × Heap) :=
  createAll mode bd darwin (byPriority tests) h

/-! ### the two consumers -/

/-- `pickle.dump`: the record with the value of its environment at that moment, and the unset names -/
def pickleOne (h : Heap) (s : Ser) : SerTest × List Str :=
  ({ s.core with env := (h.envOf s.env).1 }, (h.envOf s.env).2)

def pickle (h : Heap) (ss : List Ser) : List (SerTest × List Str) := ss.map (pickleOne h)

/-- `EnvironmentVariables.get_env({})` with its `unset_vars` -/
def envUsed (ops : List EnvOp) (unset : List Str) : List (Str × Str) :=
  (getEnv ops []).filter (fun kv => !decide (kv.1 ∈ unset))

/-- one entry of `mintro.get_test_list` -/
def introOne (h : Heap) (s : Ser) : IntroTest :=
  { name := s.core.name, cmd := s.core.fname ++ s.core.cmdArgs,
    env := envUsed (h.envOf s.env).1 (h.envOf s.env).2,
    workdir := s.core.workdir, timeout := s.core.timeout, suite := s.core.suite, isParallel := s.core.isParallel,
    priority := s.core.priority, protocol := s.core.protocol, depends := s.core.depends, extraPaths := s.core.extraPaths }

def getTestList (h : Heap) (ss : List Ser) : List IntroTest := ss.map (introOne h)

/-- what one configuration produces: the pickled records of the first call (what `meson test` unpickles) and the
entries `mintro` computes from a second call on the heap the first call left -/
def configure (mode : CopyMode) (bd : Str) (darwin : Bool) (tests : List Test) (h : Heap) :
    Except Err (List (SerTest × List Str) × List IntroTest) :=
  match createSer mode bd darwin tests h with
  | .error e => .error e
  | .ok (s1, h1) =>
    match createSer mode bd darwin tests h1 with
    | .error e => .error e
    | .ok (s2, h2) => .ok (pickle h1 s1, getTestList h2 s2)

/-- the value-level reading of one test: what its serialisation is when the environment object holds `(ops, unset)` -/
def serPure (bd : Str) (darwin : Bool) (envOf : Nat → List EnvOp × List Str) (t : Test) : Except Err (SerTest × List Str) :=
  match serCore bd t with
  | .error e => .error e
  | .ok core =>
    let ld := ldOps darwin (ldPath bd (dependsOf t))
    if ld.any (fun op => decide (op.name ∈ (envOf t.env).2)) then .error .prependToUnset
    else .ok ({ core with env := (envOf t.env).1 ++ ld }, (envOf t.env).2)

def mapE {α β ε} (f : α → Except ε β) : List α → Except ε (List β)
  | [] => .ok []
  | a :: r =>
    match f a with
    | .error e => .error e
    | .ok b =>
      match mapE f r with
      | .error e => .error e
      | .ok bs => .ok (b :: bs)

/-- the entry of intro-tests.json that describes a pickled record -/
def introOfPickled (p : SerTest × List Str) : IntroTest :=
  { name := p.1.name, cmd := p.1.fname ++ p.1.cmdArgs, env := envUsed p.1.env p.2,
    workdir := p.1.workdir, timeout := p.1.timeout, suite := p.1.suite, isParallel := p.1.isParallel,
    priority := p.1.priority, protocol := p.1.protocol, depends := p.1.depends, extraPaths := p.1.extraPaths }

end MesonModel.Intro.TestSer
