/-
Build graphs and the executable well-formedness checker (generic in the node type).

`wellFormed g fs reqs` decides the four graph clauses of C04 plus reachability requirements:
  1. every statement's rule is `phony` or defined,
  2. no path is produced twice (implicit outputs included, duplicates inside one statement included),
  3. the dependency relation is acyclic (Kahn rounds on the edge list),
  4. every input (explicit, implicit, order-only, validation) is in `fs` or produced by a statement,
  5. for every `(root, t) ∈ reqs`, `t` is needed by `root` (backward closure along edges),
  6. every pool a statement is bound to is declared or `console`, no pool is declared twice,
  7. every `default` target is produced by a statement,
  8. (`wellFormedInst`) every file the install step copies unconditionally is needed by the `install` target when a
     statement produces it, and exists otherwise.

The declarative counterpart `WellFormed` is at the end; `GraphLemmas.lean` proves `wellFormed … = true ↔ WellFormed …`.
Core Lean only (linked into the driver).
-/
import MesonModel.Py.Str

namespace MesonModel.Ninja

abbrev Str := List Char

structure Edge (α : Type) where
  rule : Str
  /-- explicit ++ implicit outputs -/
  outs : List α
  /-- explicit ++ implicit ++ order-only inputs -/
  ins : List α
  /-- validations (`|@`): must be buildable and are built along, but are not dependencies -/
  vals : List α := []
  /-- the `pool` binding in effect for the statement (its own, else its rule's); empty = the default pool -/
  pool : Str := []
  deriving Repr

structure Graph (α : Type) where
  rules : List Str
  edges : List (Edge α)
  defaults : List α := []
  /-- names of the `pool` declarations, in file order -/
  pools : List Str := []
  deriving Repr

def phony : Str := "phony".toList

/-- the pool Ninja always has -/
def console : Str := "console".toList

variable {α : Type} [DecidableEq α]

/-! ### clause 1: rules -/

def ruleOk (rules : List Str) (e : Edge α) : Bool :=
  decide (e.rule = phony) || decide (e.rule ∈ rules)

def rulesDefined (g : Graph α) : Bool := g.edges.all (ruleOk g.rules)

/-! ### clause 2: unique outputs -/

def allOuts (es : List (Edge α)) : List α := es.flatMap (·.outs)

def nodupB : List α → Bool
  | [] => true
  | x :: xs => !decide (x ∈ xs) && nodupB xs

def outputsDisjoint (es : List (Edge α)) : Bool := nodupB (allOuts es)

/-- first duplicate (for reports) -/
def firstDup : List α → Option α
  | [] => none
  | x :: xs => if x ∈ xs then some x else firstDup xs

/-! ### clause 3: acyclicity (Kahn on edges) -/

def producedBy (es : List (Edge α)) (p : α) : Bool := es.any (fun e => decide (p ∈ e.outs))

/-- an edge is ready w.r.t. the remaining edges when none of its inputs is still to be produced -/
def ready (rest : List (Edge α)) (e : Edge α) : Bool := e.ins.all (fun i => !producedBy rest i)

/-- remove ready edges round by round; acyclic iff everything gets removed -/
def kahn : Nat → List (Edge α) → Bool
  | 0, rest => rest.isEmpty
  | fuel + 1, rest =>
    let nr := rest.filter (fun e => !ready rest e)
    if nr.length < rest.length then kahn fuel nr else rest.isEmpty

/-- the edges left over when Kahn gets stuck (for reports) -/
def kahnStuck : Nat → List (Edge α) → List (Edge α)
  | 0, rest => rest
  | fuel + 1, rest =>
    let nr := rest.filter (fun e => !ready rest e)
    if nr.length < rest.length then kahnStuck fuel nr else rest

def acyclicB (es : List (Edge α)) : Bool := kahn es.length es

/-! ### clause 4: closure -/

def inputOk (fs : List α) (es : List (Edge α)) (i : α) : Bool := decide (i ∈ fs) || producedBy es i

def closedB (fs : List α) (es : List (Edge α)) : Bool :=
  es.all (fun e => (e.ins ++ e.vals).all (inputOk fs es))

def missingInputs (fs : List α) (es : List (Edge α)) : List α :=
  es.flatMap (fun e => (e.ins ++ e.vals).filter (fun i => !inputOk fs es i))

/-! ### clause 5: reachability (what building `root` builds) -/

def fires (S : List α) (e : Edge α) : Bool := e.outs.any (fun o => decide (o ∈ S))

/-- everything an edge that runs touches: its inputs, validations and (sibling) outputs -/
def Edge.touched (e : Edge α) : List α := e.ins ++ e.vals ++ e.outs

/-- fire every not yet fired edge that produces something wanted, until nothing fires -/
def reachLoop : Nat → List (Edge α) → List α → List α
  | 0, _, S => S
  | fuel + 1, rest, S =>
    let f := rest.filter (fires S)
    if f.isEmpty then S
    else reachLoop fuel (rest.filter (fun e => !fires S e)) (S ++ f.flatMap Edge.touched)

def reachSet (es : List (Edge α)) (root : α) : List α := reachLoop es.length es [root]

def reqsOk (es : List (Edge α)) (reqs : List (α × α)) : Bool :=
  reqs.all (fun rt => decide (rt.2 ∈ reachSet es rt.1))

/-! ### clauses 6, 7: the other declarations of a manifest (pools, default targets) -/

def poolOk (pools : List Str) (e : Edge α) : Bool :=
  decide (e.pool = []) || decide (e.pool = console) || decide (e.pool ∈ pools)

/-- every pool a statement is bound to is declared (or `console`); no pool is declared twice; `console` is not redeclared -/
def poolsB (g : Graph α) : Bool :=
  g.edges.all (poolOk g.pools) && nodupB g.pools && !decide (console ∈ g.pools)

/-- every `default` target is produced by a statement -/
def defaultsB (g : Graph α) : Bool := g.defaults.all (fun d => producedBy g.edges d)

/-! ### the checker -/

def wellFormed (g : Graph α) (fs : List α) (reqs : List (α × α)) : Bool :=
  rulesDefined g && outputsDisjoint g.edges && acyclicB g.edges && closedB fs g.edges && reqsOk g.edges reqs
    && poolsB g && defaultsB g

/-! ### clause 8: what the install step copies

`inst` = the files the install step copies unconditionally (the non-optional entries of `install.dat`), `iroot` = the
`install` target.  `meson install --no-rebuild` copies them right after Ninja has brought the prerequisites of `iroot` up to
date: a file that a statement produces must therefore be needed by `iroot`; a file that nothing produces must exist. -/

def instOk (fs : List α) (es : List (Edge α)) (R : List α) (f : α) : Bool :=
  if producedBy es f then decide (f ∈ R) else decide (f ∈ fs)

def installB (fs : List α) (es : List (Edge α)) (iroot : α) (inst : List α) : Bool :=
  let R := reachSet es iroot
  inst.all (instOk fs es R)

/-- the files of `inst` the clause rejects (for reports) -/
def installMissing (fs : List α) (es : List (Edge α)) (iroot : α) (inst : List α) : List α :=
  let R := reachSet es iroot
  inst.filter (fun f => !instOk fs es R f)

/-- the checker with the install clause -/
def wellFormedInst (g : Graph α) (fs : List α) (reqs : List (α × α)) (iroot : α) (inst : List α) : Bool :=
  wellFormed g fs reqs && installB fs g.edges iroot inst

/-! ### declarative specification -/

/-- `u` is a direct prerequisite of `v`: some statement lists `u` as an input and `v` as an output -/
def Dep (es : List (Edge α)) (u v : α) : Prop := ∃ e ∈ es, u ∈ e.ins ∧ v ∈ e.outs

/-- building `x` runs a statement that touches `y` -/
def Need (es : List (Edge α)) (x y : α) : Prop := ∃ e ∈ es, x ∈ e.outs ∧ y ∈ e.touched

/-- non-empty paths -/
inductive Plus {β : Type} (R : β → β → Prop) : β → β → Prop where
  | single {a b} : R a b → Plus R a b
  | tail {a b c} : Plus R a b → R b c → Plus R a c

/-- possibly empty paths -/
inductive Star {β : Type} (R : β → β → Prop) : β → β → Prop where
  | refl {a} : Star R a a
  | tail {a b c} : Star R a b → R b c → Star R a c

def Acyclic (es : List (Edge α)) : Prop := ∀ v, ¬ Plus (Dep es) v v

structure WellFormed (g : Graph α) (fs : List α) (reqs : List (α × α)) : Prop where
  /-- every build statement uses a defined rule -/
  rules : ∀ e ∈ g.edges, e.rule = phony ∨ e.rule ∈ g.rules
  /-- no statement lists a path twice among its outputs … -/
  uniqueIn : ∀ e ∈ g.edges, e.outs.Nodup
  /-- … and no path is produced by two statements -/
  uniqueAcross : g.edges.Pairwise (fun e e' => ∀ p, p ∈ e.outs → p ∈ e'.outs → False)
  /-- no non-empty dependency path from a node to itself -/
  acyclic : Acyclic g.edges
  /-- every input exists or is an output -/
  closed : ∀ e ∈ g.edges, ∀ i, i ∈ e.ins ++ e.vals → i ∈ fs ∨ ∃ e' ∈ g.edges, i ∈ e'.outs
  /-- every required target is reached from its root -/
  reach : ∀ rt ∈ reqs, Star (Need g.edges) rt.1 rt.2
  /-- every pool a statement is bound to is declared (or is the built-in `console`) -/
  poolsBound : ∀ e ∈ g.edges, e.pool = [] ∨ e.pool = console ∨ e.pool ∈ g.pools
  /-- no pool is declared twice, `console` is not redeclared -/
  poolsUnique : g.pools.Nodup ∧ console ∉ g.pools
  /-- every `default` target is produced by a statement -/
  defaultsProduced : ∀ d ∈ g.defaults, ∃ e ∈ g.edges, d ∈ e.outs

/-- `WellFormed` plus the install clause -/
structure WellFormedInst (g : Graph α) (fs : List α) (reqs : List (α × α)) (iroot : α) (inst : List α) : Prop where
  base : WellFormed g fs reqs
  /-- an installed file that some statement produces is brought up to date by building `iroot` -/
  installReach : ∀ f ∈ inst, (∃ e ∈ g.edges, f ∈ e.outs) → Star (Need g.edges) iroot f
  /-- an installed file that no statement produces exists after configuration -/
  installExist : ∀ f ∈ inst, (¬ ∃ e ∈ g.edges, f ∈ e.outs) → f ∈ fs

end MesonModel.Ninja
