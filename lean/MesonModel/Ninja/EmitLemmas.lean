/-
Invariants of the emission state machine (`Emit.lean`) for all operation sequences.
-/
import MesonModel.Ninja.Emit

namespace MesonModel.Ninja.Emit
open MesonModel.Ninja

/-- no backslash in a name -/
def NoBs (s : Str) : Prop := ∀ c ∈ s, c ≠ '\\'

theorem slash_of_noBs {s : Str} (h : NoBs s) : slash s = s := by
  unfold slash
  induction s with
  | nil => rfl
  | cons c r ih =>
    have hc : c ≠ '\\' := h c (by simp)
    have hr : NoBs r := fun d hd => h d (by simp [hd])
    simp [hc, ih hr]

theorem map_slash_of_noBs {l : List Str} (h : ∀ s ∈ l, NoBs s) : l.map slash = l := by
  induction l with
  | nil => rfl
  | cons s r ih =>
    simp [slash_of_noBs (h s (by simp)), ih (fun t ht => h t (by simp [ht]))]

/-! ### check_outputs -/

theorem checkOutputs_spec : ∀ (outs all : List Str) (err : Bool),
    (∀ x, x ∈ (checkOutputs outs all err).1 ↔ x ∈ all ∨ x ∈ outs) ∧
    ((checkOutputs outs all err).2 = false ↔ err = false ∧ outs.Nodup ∧ ∀ o ∈ outs, o ∉ all)
  | [], all, err => by simp [checkOutputs]
  | n :: r, all, err => by
    by_cases hn : n ∈ all
    · have ih := checkOutputs_spec r all true
      simp only [checkOutputs, if_pos hn]
      refine ⟨?_, ?_⟩
      · intro x
        rw [ih.1 x]
        constructor
        · rintro (h | h)
          · exact .inl h
          · exact .inr (by simp [h])
        · rintro (h | h)
          · exact .inl h
          · rcases List.mem_cons.1 h with h | h
            · exact .inl (h ▸ hn)
            · exact .inr h
      · rw [ih.2]
        constructor
        · intro h
          simp at h
        · intro ⟨_, _, h⟩
          exact absurd hn (h n (by simp))
    · have ih := checkOutputs_spec r (n :: all) err
      simp only [checkOutputs, if_neg hn]
      refine ⟨?_, ?_⟩
      · intro x
        rw [ih.1 x]
        simp only [List.mem_cons]
        constructor
        · rintro ((h | h) | h)
          · exact .inr (.inl h)
          · exact .inl h
          · exact .inr (.inr h)
        · rintro (h | h | h)
          · exact .inl (.inr h)
          · exact .inl (.inl h)
          · exact .inr h
      · rw [ih.2]
        simp only [List.nodup_cons, List.mem_cons, not_or]
        constructor
        · intro ⟨he, hnd, hdis⟩
          refine ⟨he, ⟨?_, hnd⟩, ?_⟩
          · intro hmem
            exact (hdis n hmem).1 rfl
          · intro o ho
            rcases ho with ho | ho
            · exact ho ▸ hn
            · exact (hdis o ho).2
        · intro ⟨he, ⟨hnr, hnd⟩, hdis⟩
          refine ⟨he, hnd, ?_⟩
          intro o ho
          refine ⟨?_, hdis o (.inr ho)⟩
          intro heq
          exact hnr (heq ▸ ho)

/-! ### the invariant -/

/-- explicit outputs of the elements whose `check_outputs` recorded no error -/
def goodOuts (elems : List Elem) : List Str := (elems.filter (fun e => !e.outputErrors)).flatMap (·.outs)

structure Inv (st : State) : Prop where
  /-- an attached rule is a registered rule of that name -/
  attached : ∀ e ∈ st.elems, ∀ r, e.attached = some r → r ∈ st.rules ∧ r.name = e.rulename
  /-- outputs accepted without error are pairwise distinct … -/
  nodup : (goodOuts st.elems).Nodup
  /-- … and remembered in `all_outputs` -/
  remembered : ∀ o ∈ goodOuts st.elems, o ∈ st.allOutputs

theorem inv_init : Inv {} := ⟨by simp, by simp [goodOuts], by simp [goodOuts]⟩

theorem findRule_some {rules : List Rule} {n : Str} {r : Rule} (h : findRule rules n = some r) :
    r ∈ rules ∧ r.name = n := by
  unfold findRule at h
  have h1 := List.mem_of_find?_eq_some h
  have h2 := List.find?_some h
  exact ⟨h1, by simpa using h2⟩

theorem inv_step (st : State) (op : Op) (h : Inv st) : Inv (step st op).1 := by
  cases op with
  | addRule n rsp =>
    simp only [step]
    split
    · exact h
    · refine ⟨?_, h.nodup, h.remembered⟩
      intro e he r hr
      obtain ⟨h1, h2⟩ := h.attached e he r hr
      exact ⟨List.mem_append_left _ h1, h2⟩
  | addBuild outs iouts rn ins deps odeps long =>
    simp only [step]
    have spec := checkOutputs_spec outs st.allOutputs false
    refine ⟨?_, ?_, ?_⟩
    · intro e he r hr
      rcases List.mem_append.1 he with he | he
      · exact h.attached e he r hr
      · simp at he
        subst he
        simp only at hr
        split at hr
        · cases hr
        · exact findRule_some hr
    · by_cases herr : (checkOutputs outs st.allOutputs false).2 = false
      · obtain ⟨_, hnd, hdis⟩ := spec.2.1 herr
        simp only [goodOuts, List.filter_append, List.flatMap_append]
        simp only [List.filter_cons, herr, Bool.not_false, if_true, List.filter_nil, List.flatMap_cons, List.flatMap_nil,
          List.append_nil]
        rw [List.nodup_append]
        refine ⟨h.nodup, hnd, ?_⟩
        intro a ha b hb hab
        subst hab
        exact hdis a hb (h.remembered a ha)
      · have herr' : (checkOutputs outs st.allOutputs false).2 = true := by simpa using herr
        simp only [goodOuts, List.filter_append, List.flatMap_append]
        simp only [List.filter_cons, herr', Bool.not_true, List.filter_nil, List.flatMap_nil, List.append_nil]
        simpa [goodOuts] using h.nodup
    · intro o ho
      simp only [goodOuts, List.filter_append, List.flatMap_append, List.mem_append] at ho
      rcases ho with ho | ho
      · exact (spec.1 o).2 (.inl (h.remembered o (by simpa [goodOuts] using ho)))
      · refine (spec.1 o).2 (.inr ?_)
        simp only [List.filter_cons, List.filter_nil] at ho
        split at ho
        · simpa using ho
        · simp at ho

theorem inv_run : ∀ (ops : List Op) (st : State), Inv st → Inv (run ops st)
  | [], _, h => h
  | op :: r, st, h => inv_run r _ (inv_step st op h)

/-! ### write -/

theorem writeElems_ok : ∀ {elems : List Elem} {bs : List OutBuild}, writeElems elems = .ok bs →
    (∀ e ∈ elems, e.outputErrors = false) ∧ bs = elems.map lineOf
  | [], bs, h => by
    simp [writeElems] at h
    cases h
    simp
  | e :: r, bs, h => by
    simp only [writeElems] at h
    cases hw : writeElem e with
    | error x => simp [hw] at h
    | ok b =>
      simp only [hw] at h
      cases hr : writeElems r with
      | error x => simp [hr] at h
      | ok bs' =>
        simp only [hr] at h
        cases h
        obtain ⟨h1, h2⟩ := writeElems_ok hr
        unfold writeElem at hw
        split at hw
        · cases hw
        · next hne =>
          split at hw
          · cases hw
          · cases hw
            refine ⟨?_, by simp [h2]⟩
            intro e' he'
            rcases List.mem_cons.1 he' with he' | he'
            · subst he'
              simpa using hne
            · exact h1 e' he'

theorem countRefs_none : ∀ {elems : List Elem}, countRefs elems = none → ∀ e ∈ elems, usesRsp e ≠ none
  | [], _, e, he => by cases he
  | x :: r, h, e, he => by
    simp only [countRefs] at h
    by_cases hph : x.rulename = phony
    · rw [if_pos hph] at h
      rcases List.mem_cons.1 he with he | he
      · subst he
        simp [usesRsp, hph]
      · exact countRefs_none h e he
    · rw [if_neg hph] at h
      cases hatt : x.attached with
      | none => simp [hatt] at h
      | some ru =>
        simp only [hatt] at h
        have hrest : countRefs r = none := by
          split at h
          · split at h
            · cases h
            · exact h
          · exact h
        rcases List.mem_cons.1 he with he | he
        · subst he
          simp [usesRsp, hph, hatt]
        · exact countRefs_none hrest e he

theorem goodOuts_of_all_good {elems : List Elem} (h : ∀ e ∈ elems, e.outputErrors = false) :
    goodOuts elems = elems.flatMap (·.outs) := by
  unfold goodOuts
  rw [List.filter_eq_self.2]
  intro e he
  simp [h e he]

/-- explicit output names handed to `add_build` over a whole operation sequence -/
def opOuts : Op → List Str
  | .addRule _ _ => []
  | .addBuild outs _ _ _ _ _ _ => outs

def opRuleNames : Op → List Str
  | .addRule _ _ => []
  | .addBuild _ _ rn _ _ _ _ => [rn]

theorem step_elems_outs (st : State) (op : Op) :
    (step st op).1.elems.flatMap (·.outs) = st.elems.flatMap (·.outs) ++ opOuts op := by
  cases op with
  | addRule n rsp =>
    simp only [step]
    split <;> simp [opOuts]
  | addBuild outs iouts rn ins deps odeps long => simp [step, opOuts]

theorem run_elems_outs : ∀ (ops : List Op) (st : State),
    (run ops st).elems.flatMap (·.outs) = st.elems.flatMap (·.outs) ++ ops.flatMap opOuts
  | [], st => by simp [run]
  | op :: r, st => by
    rw [run, run_elems_outs r, step_elems_outs]
    simp

theorem step_elems_rulenames (st : State) (op : Op) :
    (step st op).1.elems.map (·.rulename) = st.elems.map (·.rulename) ++ opRuleNames op := by
  cases op with
  | addRule n rsp =>
    simp only [step]
    split <;> simp [opRuleNames]
  | addBuild outs iouts rn ins deps odeps long => simp [step, opRuleNames]

theorem run_elems_rulenames : ∀ (ops : List Op) (st : State),
    (run ops st).elems.map (·.rulename) = st.elems.map (·.rulename) ++ ops.flatMap opRuleNames
  | [], st => by simp [run]
  | op :: r, st => by
    rw [run, run_elems_rulenames r, step_elems_rulenames]
    simp

/-- if `write` succeeds, the explicit output names given to `add_build` were pairwise distinct -/
theorem write_ok_names_nodup {ops : List Op} {out : Out} (h : emit ops = .ok out) :
    (ops.flatMap opOuts).Nodup := by
  unfold emit write at h
  split at h
  · cases h
  · cases hw : writeElems (run ops {}).elems with
    | error x => simp [hw] at h
    | ok bs =>
      obtain ⟨hgood, _⟩ := writeElems_ok hw
      have hinv := inv_run ops {} inv_init
      have := hinv.nodup
      rw [goodOuts_of_all_good hgood, run_elems_outs] at this
      simpa using this

theorem write_ok_builds {ops : List Op} {out : Out} (h : emit ops = .ok out) :
    out.builds.flatMap (·.outs) = (ops.flatMap opOuts).map slash := by
  unfold emit write at h
  split at h
  · cases h
  · cases hw : writeElems (run ops {}).elems with
    | error x => simp [hw] at h
    | ok bs =>
      simp only [hw] at h
      cases h
      obtain ⟨_, hbs⟩ := writeElems_ok hw
      subst hbs
      simp only [List.flatMap_map]
      have := run_elems_outs ops {}
      simp only [List.flatMap_nil, List.nil_append] at this
      rw [← this]
      simp [List.map_flatMap, lineOf]

theorem slash_phony : slash phony = phony := by decide

theorem write_ok_rules {ops : List Op} {out : Out} (h : emit ops = .ok out) :
    ∀ b ∈ out.builds, ∃ rn ∈ ops.flatMap opRuleNames,
      (rn = phony ∧ b.rule = phony) ∨
      (b.rule = slash rn ∧ rn ∈ out.rules) ∨ (b.rule = slash (rn ++ rspSuffix) ∧ rn ++ rspSuffix ∈ out.rules) := by
  unfold emit write at h
  split at h
  · cases h
  · next hnone =>
    cases hw : writeElems (run ops {}).elems with
    | error x => simp [hw] at h
    | ok bs =>
      simp only [hw] at h
      cases h
      obtain ⟨_, hbs⟩ := writeElems_ok hw
      subst hbs
      intro b hb
      obtain ⟨e, he, hbe⟩ := List.mem_map.1 hb
      subst hbe
      have hinv := inv_run ops {} inv_init
      have hrn : e.rulename ∈ ops.flatMap opRuleNames := by
        have := run_elems_rulenames ops {}
        simp only [List.map_nil, List.nil_append] at this
        rw [← this]
        exact List.mem_map.2 ⟨e, he, rfl⟩
      refine ⟨e.rulename, hrn, ?_⟩
      have hsome : usesRsp e ≠ none := countRefs_none hnone e he
      by_cases hph : e.rulename = phony
      · left
        simp [lineOf, lineRule, usesRsp, hph, slash_phony]
      · right
        cases hatt : e.attached with
        | none => simp [usesRsp, hph, hatt] at hsome
        | some r =>
          obtain ⟨hr, hname⟩ := hinv.attached e he r hatt
          have hu : usesRsp e = some (r.rspable && e.long) := by simp [usesRsp, hph, hatt]
          cases hb' : (r.rspable && e.long) with
          | false =>
            left
            refine ⟨by simp [lineOf, lineRule, hu, hb'], ?_⟩
            simp only [List.mem_flatMap]
            refine ⟨r, hr, ?_⟩
            have : refd (run ops {}).elems r = true := by
              simp only [refd, List.any_eq_true]
              exact ⟨e, he, by simp [hph, hatt, hu, hb']⟩
            simp [ruleBlocks, this, hname]
          | true =>
            right
            refine ⟨by simp [lineOf, lineRule, hu, hb'], ?_⟩
            simp only [List.mem_flatMap]
            refine ⟨r, hr, ?_⟩
            have : rspRefd (run ops {}).elems r = true := by
              simp only [rspRefd, List.any_eq_true]
              exact ⟨e, he, by simp [hph, hatt, hu, hb']⟩
            simp [ruleBlocks, this, hname]

end MesonModel.Ninja.Emit
