/-
The Ninja manifest language (the subset of ninja 1.11's `lexer.in.cc` / `manifest_parser.cc` / `eval_env.cc` /
`util.cc:CanonicalizePath` that a generated `build.ninja` can exercise), written down from the ninja sources
and manual:

* tokens: `build` `rule` `pool` `default` `include` `subninja`, identifiers `[a-zA-Z0-9_.-]+`, `=` `:` `|` `||` `|@`,
  NEWLINE, INDENT (leading blanks of a non-blank, non-comment line), comment lines `[ ]*#…\n`;
* eval strings with the escapes `$$`, `$ `, `$:`, `$\n` (continuation, swallows the next line's leading blanks),
  `$name`, `${name}`; a path ends at blank, `:`, `|` or end of line;
* scoping: top-level `name = value` bindings are evaluated immediately; the bindings of a `build` block are
  evaluated in the file scope, the paths of the statement in the block's scope;
* paths are canonicalised (`.`, `..`, `//`) before they become graph nodes.

Core Lean only (this file is linked into the driver).
-/
import MesonModel.Ninja.Graph

namespace MesonModel.Ninja

/-! ### eval strings -/

inductive Piece where
  | lit (c : Char)
  | var (name : Str)
  deriving Repr, DecidableEq

abbrev EvalStr := List Piece

def lookupVar (env : List (Str × Str)) (n : Str) : Str :=
  match env.find? (fun kv => kv.1 == n) with
  | some kv => kv.2
  | none => []

def evalStr (env : List (Str × Str)) : EvalStr → Str
  | [] => []
  | .lit c :: r => c :: evalStr env r
  | .var n :: r => lookupVar env n ++ evalStr env r

/-! ### syntax tree -/

structure BuildSyn where
  outs : List EvalStr
  implOuts : List EvalStr
  rule : Str
  ins : List EvalStr
  implIns : List EvalStr
  orderIns : List EvalStr
  vals : List EvalStr
  binds : List (Str × EvalStr)
  deriving Repr

inductive Stmt where
  | letS (key : Str) (val : EvalStr)
  | rule (name : Str) (binds : List (Str × EvalStr))
  | pool (name : Str) (binds : List (Str × EvalStr))
  | build (b : BuildSyn)
  | dflt (paths : List EvalStr)
  | incl (path : EvalStr) (sub : Bool)
  deriving Repr

inductive PErr where
  | unexpectedEOF | badEscape | carriageReturn | unexpectedIndent | expectedNewline | expectedEquals
  | expectedColon | expectedIdent | expectedPath | expectedRuleName | unexpectedToken | fuel
  deriving Repr, DecidableEq

def PErr.name : PErr → String
  | .unexpectedEOF => "UnexpectedEOF" | .badEscape => "BadEscape" | .carriageReturn => "CarriageReturn"
  | .unexpectedIndent => "UnexpectedIndent" | .expectedNewline => "ExpectedNewline"
  | .expectedEquals => "ExpectedEquals" | .expectedColon => "ExpectedColon" | .expectedIdent => "ExpectedIdent"
  | .expectedPath => "ExpectedPath" | .expectedRuleName => "ExpectedRuleName"
  | .unexpectedToken => "UnexpectedToken" | .fuel => "Fuel"

/-! ### lexer -/

def isIdentChar (c : Char) : Bool :=
  MesonModel.Py.isAlnum c || c == '_' || c == '.' || c == '-'

/-- `$name` (without braces) does not admit `.` -/
def isSimpleVarChar (c : Char) : Bool :=
  MesonModel.Py.isAlnum c || c == '_' || c == '-'

/-- `Lexer::EatWhitespace`: blanks and `$`-newline -/
def eatWs : Str → Str
  | ' ' :: r => eatWs r
  | '$' :: '\n' :: r => eatWs r
  | '$' :: '\r' :: '\n' :: r => eatWs r
  | s => s

def dropBlanks : Str → Str
  | ' ' :: r => dropBlanks r
  | s => s

/-- rest of the text after the current line (the newline is consumed) -/
def dropLine : Str → Str
  | [] => []
  | '\n' :: r => r
  | _ :: r => dropLine r

def spanP (p : Char → Bool) : Str → Str × Str
  | [] => ([], [])
  | c :: r => if p c then let (a, b) := spanP p r; (c :: a, b) else ([], c :: r)

/-- `Lexer::ReadEvalString`. `skip` = we are just after a `$`-newline and swallow blanks. -/
def readEval (path : Bool) : Nat → Bool → Str → EvalStr → Except PErr (EvalStr × Str)
  | 0, _, _, _ => .error .fuel
  | fuel + 1, skip, s, acc =>
    match s with
    | [] => .error .unexpectedEOF
    | ' ' :: r =>
      if skip then readEval path fuel true r acc
      else if path then .ok (acc.reverse, s) else readEval path fuel false r (.lit ' ' :: acc)
    | '\n' :: r => if path then .ok (acc.reverse, s) else .ok (acc.reverse, r)
    | '\r' :: '\n' :: r => if path then .ok (acc.reverse, s) else .ok (acc.reverse, r)
    | '\r' :: _ => .error .carriageReturn
    | ':' :: r => if path then .ok (acc.reverse, s) else readEval path fuel false r (.lit ':' :: acc)
    | '|' :: r => if path then .ok (acc.reverse, s) else readEval path fuel false r (.lit '|' :: acc)
    | '$' :: '$' :: r => readEval path fuel false r (.lit '$' :: acc)
    | '$' :: ' ' :: r => readEval path fuel false r (.lit ' ' :: acc)
    | '$' :: ':' :: r => readEval path fuel false r (.lit ':' :: acc)
    | '$' :: '\n' :: r => readEval path fuel true r acc
    | '$' :: '\r' :: '\n' :: r => readEval path fuel true r acc
    | '$' :: '{' :: r =>
      let (n, r') := spanP isIdentChar r
      match n, r' with
      | _ :: _, '}' :: r'' => readEval path fuel false r'' (.var n :: acc)
      | _, _ => .error .badEscape
    | '$' :: r =>
      let (n, r') := spanP isSimpleVarChar r
      match n with
      | [] => .error .badEscape
      | _ => readEval path fuel false r' (.var n :: acc)
    | c :: r => readEval path fuel false r (.lit c :: acc)

/-- `Lexer::ReadPath` (+ the trailing `EatWhitespace`) -/
def readPath (n : Nat) (s : Str) : Except PErr (EvalStr × Str) :=
  match readEval true n false s [] with
  | .ok (e, r) => .ok (e, eatWs r)
  | .error e => .error e

/-- `Lexer::ReadVarValue` -/
def readValue (n : Nat) (s : Str) : Except PErr (EvalStr × Str) :=
  readEval false n false s []

/-- paths up to the first empty one (`n` = bound on the length of the whole text, see `parse`) -/
def readPaths (n : Nat) : Nat → Str → List EvalStr → Except PErr (List EvalStr × Str)
  | 0, _, _ => .error .fuel
  | fuel + 1, s, acc =>
    match readPath n s with
    | .error e => .error e
    | .ok ([], r) => .ok (acc.reverse, r)
    | .ok (p, r) => readPaths n fuel r (p :: acc)

inductive Tok where
  | eof | newline | indent | ident (s : Str) | equals | colon | pipe | pipe2 | pipeAt | bad
  deriving Repr, DecidableEq

/-- `Lexer::ReadToken` at an arbitrary position; comment lines are skipped; blanks after the token are eaten. -/
def readToken : Nat → Str → Tok × Str
  | 0, s => (.bad, s)
  | fuel + 1, s =>
    match s with
    | [] => (.eof, [])
    | '\n' :: r => (.newline, r)
    | '\r' :: '\n' :: r => (.newline, r)
    | ' ' :: _ =>
      -- leading blanks: comment line, blank line or INDENT
      match dropBlanks s with
      | '#' :: r => readToken fuel (dropLine r)
      | '\n' :: r => (.newline, r)
      | '\r' :: '\n' :: r => (.newline, r)
      | r => (.indent, eatWs r)
    | '#' :: r => readToken fuel (dropLine r)
    | '=' :: r => (.equals, eatWs r)
    | ':' :: r => (.colon, eatWs r)
    | '|' :: '|' :: r => (.pipe2, eatWs r)
    | '|' :: '@' :: r => (.pipeAt, eatWs r)
    | '|' :: r => (.pipe, eatWs r)
    | c :: _ =>
      if isIdentChar c then
        let (n, r) := spanP isIdentChar s
        (.ident n, eatWs r)
      else (.bad, s)

def tok (n : Nat) (s : Str) : Tok × Str := readToken n s

/-- `ParseLet` after the INDENT / at top level: `ident = value` -/
def parseLet (n : Nat) (s : Str) : Except PErr ((Str × EvalStr) × Str) :=
  match tok n s with
  | (.ident k, r) =>
    match tok n r with
    | (.equals, r') =>
      match readValue n r' with
      | .ok (v, r'') => .ok ((k, v), r'')
      | .error e => .error e
    | _ => .error .expectedEquals
  | _ => .error .expectedIdent

/-- the indented bindings of a block -/
def parseBinds (n : Nat) : Nat → Str → List (Str × EvalStr) → Except PErr (List (Str × EvalStr) × Str)
  | 0, _, _ => .error .fuel
  | fuel + 1, s, acc =>
    match tok n s with
    | (.indent, r) =>
      match parseLet n r with
      | .ok (kv, r') => parseBinds n fuel r' (kv :: acc)
      | .error e => .error e
    | _ => .ok (acc.reverse, s)

def kw (s : String) : Str := s.toList

/-- optional group introduced by token `t` -/
def optGroup (n : Nat) (t : Tok) (s : Str) : Except PErr (List EvalStr × Str) :=
  match tok n s with
  | (t', r) => if t' = t then readPaths n n r [] else .ok ([], s)

def expectNewline (n : Nat) (s : Str) : Except PErr Str :=
  match tok n s with
  | (.newline, r) => .ok r
  | _ => .error .expectedNewline

/-- `ManifestParser::ParseEdge` (syntax part) -/
def parseEdge (n : Nat) (s : Str) : Except PErr (BuildSyn × Str) := do
  let (outs, s) ← readPaths n n s []
  let (iouts, s) ← optGroup n .pipe s
  if outs.isEmpty && iouts.isEmpty then throw .expectedPath
  let s ← (match tok n s with
    | (.colon, r) => pure r
    | _ => throw PErr.expectedColon)
  let (rule, s) ← (match tok n s with
    | (.ident nm, r) => pure (nm, r)
    | _ => throw PErr.expectedRuleName)
  let (ins, s) ← readPaths n n s []
  let (impl, s) ← optGroup n .pipe s
  let (oo, s) ← optGroup n .pipe2 s
  let (vals, s) ← optGroup n .pipeAt s
  let s ← expectNewline n s
  let (binds, s) ← parseBinds n n s []
  return ({ outs := outs, implOuts := iouts, rule := rule, ins := ins, implIns := impl,
            orderIns := oo, vals := vals, binds := binds }, s)

def parseNamedBlock (n : Nat) (s : Str) : Except PErr ((Str × List (Str × EvalStr)) × Str) := do
  let (name, s) ← (match tok n s with
    | (.ident nm, r) => pure (nm, r)
    | _ => throw PErr.expectedIdent)
  let s ← expectNewline n s
  let (binds, s) ← parseBinds n n s []
  return ((name, binds), s)

/-- `ManifestParser::Parse` (syntax part): the statement list -/
def parseTop (n : Nat) : Nat → Str → List Stmt → Except (PErr × Nat) (List Stmt)
  | 0, s, _ => .error (.fuel, s.length)
  | fuel + 1, s, acc =>
    let fail {β} (e : PErr) : Except (PErr × Nat) β := .error (e, s.length)
    match tok n s with
    | (.eof, _) => .ok acc.reverse
    | (.newline, r) => parseTop n fuel r acc
    | (.indent, _) => fail .unexpectedIndent
    | (.ident w, r) =>
      if w = kw "build" then
        match parseEdge n r with
        | .ok (b, r') => parseTop n fuel r' (.build b :: acc)
        | .error e => fail e
      else if w = kw "rule" then
        match parseNamedBlock n r with
        | .ok ((nm, bs), r') => parseTop n fuel r' (.rule nm bs :: acc)
        | .error e => fail e
      else if w = kw "pool" then
        match parseNamedBlock n r with
        | .ok ((nm, bs), r') => parseTop n fuel r' (.pool nm bs :: acc)
        | .error e => fail e
      else if w = kw "default" then
        match readPaths n n r [] with
        | .ok ([], _) => fail .expectedPath
        | .ok (ps, r') =>
          match expectNewline n r' with
          | .ok r'' => parseTop n fuel r'' (.dflt ps :: acc)
          | .error e => fail e
        | .error e => fail e
      else if w = kw "include" || w = kw "subninja" then
        match readPath n r with
        | .ok (p, r') =>
          match expectNewline n r' with
          | .ok r'' => parseTop n fuel r'' (.incl p (w = kw "subninja") :: acc)
          | .error e => fail e
        | .error e => fail e
      else
        match parseLet n s with
        | .ok ((k, v), r') => parseTop n fuel r' (.letS k v :: acc)
        | .error e => fail e
    | _ => fail .unexpectedToken

/-- parse a manifest text; the error carries the number of characters left at the failing statement -/
def parse (s : Str) : Except (PErr × Nat) (List Stmt) :=
  let n := s.length + 1
  parseTop n n s []

/-! ### path canonicalisation (`util.cc:CanonicalizePath`, POSIX) -/

def splitSlash : Str → Str → List Str
  | [], cur => [cur.reverse]
  | '/' :: r, cur => cur.reverse :: splitSlash r []
  | c :: r, cur => splitSlash r (c :: cur)

/-- fold over the components: `ups` = number of leading `..` kept, `stack` = normal components (reversed) -/
def canonComps : List Str → Nat → List Str → Nat × List Str
  | [], ups, stack => (ups, stack)
  | c :: r, ups, stack =>
    if c = [] || c = ['.'] then canonComps r ups stack
    else if c = ['.', '.'] then
      match stack with
      | _ :: st => canonComps r ups st
      | [] => canonComps r (ups + 1) []
    else canonComps r ups (c :: stack)

def joinSlash : List Str → Str
  | [] => []
  | [a] => a
  | a :: r => a ++ '/' :: joinSlash r

def canonPath (p : Str) : Str :=
  match p with
  | [] => []
  | _ =>
    let abs := p.head? == some '/'
    let (ups, stack) := canonComps (splitSlash p []) 0 []
    let comps := List.replicate ups ['.', '.'] ++ stack.reverse
    let body := joinSlash comps
    if abs then '/' :: body else if body.isEmpty then ['.'] else body

/-! ### loading: evaluation, scoping and the loader's own checks -/

structure BuildStmt where
  outs : List Str
  implOuts : List Str
  rule : Str
  ins : List Str
  implIns : List Str
  orderIns : List Str
  vals : List Str
  binds : List (Str × Str)
  /-- the `pool` binding in effect: the statement's own, else its rule's (evaluated in the statement's scope) -/
  pool : Str := []
  deriving Repr

structure Manifest where
  rules : List (Str × List (Str × EvalStr)) := []
  pools : List (Str × List (Str × Str)) := []
  builds : List BuildStmt := []
  defaults : List Str := []
  vars : List (Str × Str) := []
  deriving Repr

inductive LErr where
  | duplicateRule (n : Str) | unexpectedRuleVar (n : Str) | missingCommand (n : Str) | rspfilePair (n : Str)
  | duplicatePool (n : Str) | badPool (n : Str) | unknownRule (n : Str) | unknownPool (n : Str)
  | emptyPath | unknownDefault (n : Str) | includeUnsupported
  deriving Repr, DecidableEq

def LErr.name : LErr → String
  | .duplicateRule _ => "DuplicateRule" | .unexpectedRuleVar _ => "UnexpectedRuleVariable"
  | .missingCommand _ => "MissingCommand" | .rspfilePair _ => "RspfilePair" | .duplicatePool _ => "DuplicatePool"
  | .badPool _ => "BadPool" | .unknownRule _ => "UnknownRule" | .unknownPool _ => "UnknownPool"
  | .emptyPath => "EmptyPath" | .unknownDefault _ => "UnknownDefaultTarget" | .includeUnsupported => "IncludeUnsupported"

def LErr.arg : LErr → Str
  | .duplicateRule n | .unexpectedRuleVar n | .missingCommand n | .rspfilePair n | .duplicatePool n
  | .badPool n | .unknownRule n | .unknownPool n | .unknownDefault n => n
  | _ => []

/-- `Rule::IsReservedBinding` -/
def reservedRuleBindings : List Str :=
  ["command", "depfile", "dyndep", "description", "deps", "generator", "pool", "restat", "rspfile",
   "rspfile_content", "msvc_deps_prefix"].map String.toList

def evalPaths (env : List (Str × Str)) (ps : List EvalStr) : List Str :=
  ps.map (fun p => evalStr env p)

def isNatLit (s : Str) : Bool := !s.isEmpty && s.all MesonModel.Py.isDigit

/-- one statement of `ManifestParser` applied to the loader state -/
def loadStmt (m : Manifest) : Stmt → Except LErr Manifest
  | .letS k v => .ok { m with vars := (k, evalStr m.vars v) :: m.vars }
  | .rule n bs =>
    if (m.rules.any (fun r => r.1 == n)) || n = kw "phony" then .error (.duplicateRule n) else
    match bs.find? (fun kv => !reservedRuleBindings.contains kv.1) with
    | some kv => .error (.unexpectedRuleVar kv.1)
    | none =>
      let has (k : String) := bs.any (fun kv => kv.1 == k.toList && !kv.2.isEmpty)
      if has "rspfile" != has "rspfile_content" then .error (.rspfilePair n)
      else if !has "command" then .error (.missingCommand n)
      else .ok { m with rules := m.rules ++ [(n, bs)] }
  | .pool n bs =>
    -- a second declaration of a pool (or of `console`) is left to clause 6 of the graph checker
    let bs' := bs.map (fun kv => (kv.1, evalStr m.vars kv.2))
    match bs' with
    | [(k, v)] => if k = kw "depth" && isNatLit v then .ok { m with pools := m.pools ++ [(n, bs')] }
                  else .error (.badPool n)
    | _ => .error (.badPool n)
  | .build b =>
    if !(b.rule = kw "phony" || m.rules.any (fun r => r.1 == b.rule)) then .error (.unknownRule b.rule) else
    let binds := b.binds.map (fun kv => (kv.1, evalStr m.vars kv.2))
    -- later bindings of the block shadow earlier ones
    let env := binds.reverse ++ m.vars
    -- `Edge::GetBinding("pool")`: the statement's own binding, else the rule's, evaluated in the statement's scope;
    -- whether that pool is declared is clause 6 of the graph checker
    let pool :=
      if binds.any (fun kv => kv.1 == kw "pool") then lookupVar binds.reverse (kw "pool")
      else match m.rules.find? (fun r => r.1 == b.rule) with
        | some r => match r.2.reverse.find? (fun kv => kv.1 == kw "pool") with
          | some kv => evalStr env kv.2
          | none => []
        | none => []
    let ev (ps : List EvalStr) := evalPaths env ps
    let all := ev b.outs ++ ev b.implOuts ++ ev b.ins ++ ev b.implIns ++ ev b.orderIns ++ ev b.vals
    if all.any (·.isEmpty) then .error .emptyPath else
    let cp (ps : List EvalStr) := (ev ps).map canonPath
    .ok { m with builds := m.builds ++ [{ outs := cp b.outs, implOuts := cp b.implOuts, rule := b.rule,
                                            ins := cp b.ins, implIns := cp b.implIns, orderIns := cp b.orderIns,
                                            vals := cp b.vals, binds := binds, pool := pool }] }
  | .dflt ps =>
    let names := evalPaths m.vars ps
    if names.any (·.isEmpty) then .error .emptyPath else
    -- whether the targets exist is clause 7 of the graph checker
    .ok { m with defaults := m.defaults ++ names.map canonPath }
  | .incl _ _ => .error .includeUnsupported

def loadStmts : List Stmt → Manifest → Except LErr Manifest
  | [], m => .ok m
  | s :: r, m =>
    match loadStmt m s with
    | .ok m' => loadStmts r m'
    | .error e => .error e

def load (ss : List Stmt) : Except LErr Manifest := loadStmts ss {}

/-! ### graph extraction

Graph nodes are the canonicalised paths as `String`s (`String.ofList` of the character list): the checker and its
theorems are generic in the node type, and byte-array strings compare by `memcmp`, which keeps the quadratic
list algorithms fast on manifests whose paths share long prefixes. -/

def nodes (l : List Str) : List String := l.map String.ofList

def BuildStmt.edge (b : BuildStmt) : Edge String :=
  { rule := b.rule, outs := nodes (b.outs ++ b.implOuts), ins := nodes (b.ins ++ b.implIns ++ b.orderIns),
    vals := nodes b.vals, pool := b.pool }

def Manifest.graph (m : Manifest) : Graph String :=
  { rules := m.rules.map (·.1), edges := m.builds.map BuildStmt.edge, defaults := nodes m.defaults,
    pools := m.pools.map (·.1) }

end MesonModel.Ninja
