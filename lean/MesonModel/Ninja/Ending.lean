/-
The aggregate targets of the ninja backend as a function of the abstract target table.

Modelled, construct by construct:
  * `BuildTarget.__init__` (mesonbuild/build.py): `Target.__init__(…, kwargs.get('build_by_default', True), …)` followed by
    `if not self.build_by_default and kwargs.get('install', False): self.build_by_default = True`;
  * `Interpreter.func_custom_target` (mesonbuild/interpreter/interpreter.py): the `build_by_default` / `install` /
    `build_always` remapping;
  * `Backend.get_build_by_default_targets`, `Backend.get_testlike_targets` (mesonbuild/backend/backends.py);
  * `NinjaBackend.generate_ending` — the three phony statements `all`, `meson-test-prereq`, `meson-benchmark-prereq` —
    and `NinjaBackend.generate_install` through `create_phony_target` (mesonbuild/backend/ninjabackend.py);
  * the non-optional entries `Backend.generate_target_install` puts into `install.dat` for a target.
Targets are values (the code holds object references); a test refers to targets directly.
Core Lean only (linked into the driver).
-/
import MesonModel.Ninja.Graph

namespace MesonModel.Ninja.Ending
open MesonModel.Ninja

inductive Kind
  /-- executable, static/shared library, shared module, jar: subclasses of `BuildTarget` -/
  | build
  /-- `custom_target()` -/
  | custom
  deriving DecidableEq, Repr

structure Target where
  kind : Kind
  /-- `get_target_dir(t)` -/
  dir : Str
  /-- `t.get_outputs()[0]` -/
  out0 : Str
  /-- `t.get_outputs()[1:]` -/
  outRest : List Str := []
  /-- the `build_by_default:` keyword as written (`none` = absent) -/
  bbdKw : Option Bool := none
  /-- the `install:` keyword (absent = false) -/
  install : Bool := false
  /-- `custom_target(build_always:)` (deprecated), `none` = absent -/
  buildAlways : Option Bool := none
  /-- custom targets: per output, `install_dir` entry is not `false` (missing entries = installed) -/
  instMask : List Bool := []
  deriving DecidableEq, Repr

/-- `os.path.join(dir, name)` for a relative `name` -/
def joinPath (d o : Str) : Str :=
  if d = [] then o else if d.getLast? = some '/' then d ++ o else d ++ '/' :: o

def Target.outputs (t : Target) : List Str := t.out0 :: t.outRest

/-- the paths of the target's outputs as the backend names them -/
def Target.paths (t : Target) : List Str := t.outputs.map (joinPath t.dir)

def Target.firstPath (t : Target) : Str := joinPath t.dir t.out0

/-- the attribute `build_by_default` the backend reads, as the constructors compute it -/
def Target.buildByDefault (t : Target) : Bool :=
  match t.kind with
  | .build =>
    let b := t.bbdKw.getD true
    if !b && t.install then true else b
  | .custom =>
    let b : Option Bool :=
      if t.bbdKw.isNone && t.install then some true
      else if t.buildAlways.isSome then (if t.bbdKw.isNone then t.buildAlways else t.bbdKw)
      else t.bbdKw
    b.getD false

/-- `Backend.get_build_by_default_targets` (dict order = declaration order) -/
def buildByDefaultTargets (tbl : List Target) : List Target := tbl.filter (·.buildByDefault)

/-- what a test holds as program / argument -/
inductive Ref
  /-- a `BuildTarget` or `CustomTarget` -/
  | target (t : Target)
  /-- a `CustomTargetIndex` of the target -/
  | index (t : Target)
  /-- a `LocalProgram` whose `.program` is a target (find_program() on an overridden name) -/
  | localTarget (t : Target)
  /-- a `LocalProgram` whose `.program` is a custom target index -/
  | localIndex (t : Target)
  /-- string, file, external program, `LocalProgram` of a file -/
  | other
  deriving Repr

/-- an element of `depends:` (the interpreter admits targets and custom target indexes only) -/
inductive DRef
  | target (t : Target)
  | index (t : Target)
  deriving Repr

structure Test where
  exe : Ref
  args : List Ref := []
  depends : List DRef := []
  deriving Repr

/-- `if isinstance(x, LocalProgram): x = x.program` -/
def unwrap : Ref → Ref
  | .localTarget t => .target t
  | .localIndex t => .index t
  | r => r

/-- `if isinstance(x, CustomTargetIndex): yield x.target / elif isinstance(x, (CustomTarget, BuildTarget)): yield x` -/
def yieldOf : Ref → List Target
  | .target t => [t]
  | .index t => [t]
  | _ => []

def yieldDep : DRef → List Target
  | .target t => [t]
  | .index t => [t]

/-- `Backend.get_testlike_targets` -/
def testlikeOne (x : Test) : List Target :=
  yieldOf (unwrap x.exe) ++ x.args.flatMap (fun a => yieldOf (unwrap a)) ++ x.depends.flatMap yieldDep

def testlike (tests : List Test) : List Target := tests.flatMap testlikeOne

def allName : Str := "all".toList
def testPrereqName : Str := "meson-test-prereq".toList
def benchPrereqName : Str := "meson-benchmark-prereq".toList
def installName : Str := "install".toList
def installInternalName : Str := "meson-internal__install".toList
def phonyFileName : Str := "PHONY".toList
def customCommand : Str := "CUSTOM_COMMAND".toList

def phonyEdge (name : Str) (ins : List Str) : Edge Str := { rule := phony, outs := [name], ins := ins }

/-- the first loop of `generate_ending`: one phony statement per aggregate, listing the first output of each target -/
def endingEdges (tbl : List Target) (tests benches : List Test) : List (Edge Str) :=
  [ phonyEdge allName ((buildByDefaultTargets tbl).map (·.firstPath)),
    phonyEdge testPrereqName ((testlike tests).map (·.firstPath)),
    phonyEdge benchPrereqName ((testlike benches).map (·.firstPath)) ]

/-- `generate_install`: `create_phony_target('install', 'CUSTOM_COMMAND', 'PHONY')` + `add_dep('all')` -/
def installEdges : List (Edge Str) :=
  [ phonyEdge installName [installInternalName],
    { rule := customCommand, outs := [installInternalName], ins := [phonyFileName, allName], pool := console } ]

/-- outputs of a custom target whose `install_dir` entry is not `false` -/
def maskedPaths (t : Target) : List Str :=
  (t.outputs.zipIdx.filter (fun oi => (t.instMask[oi.2]?).getD true)).map (fun oi => joinPath t.dir oi.1)

/-- the entries of `install.dat` (`d.targets`) that `generate_target_install` writes for `t` with `optional=False`:
the primary output of an installed build target; the installed outputs of a custom target unless it is not built by
default (`optional=not t.build_by_default`) -/
def mandatoryInstall (t : Target) : List Str :=
  if !t.install then [] else
  match t.kind with
  | .build => [t.firstPath]
  | .custom => if t.buildByDefault then maskedPaths t else []

/-- … and the ones written with `optional=True` -/
def optionalInstall (t : Target) : List Str :=
  if !t.install then [] else
  match t.kind with
  | .build => []
  | .custom => if t.buildByDefault then [] else maskedPaths t

end MesonModel.Ninja.Ending
