/-
Soundness and completeness of the graph checker (`Graph.lean`) against the declarative `WellFormed`.
-/
import MesonModel.Ninja.Graph

namespace MesonModel.Ninja

set_option linter.unusedSectionVars false

variable {α : Type} [DecidableEq α]

/-! ### paths -/

theorem Plus.head {β : Type} {R : β → β → Prop} {a b c : β} (h : R a b) (p : Plus R b c) : Plus R a c := by
  induction p with
  | single h' => exact .tail (.single h) h'
  | tail _ h' ih => exact .tail ih h'

theorem Plus.trans {β : Type} {R : β → β → Prop} {a b c : β} (p : Plus R a b) (q : Plus R b c) : Plus R a c := by
  induction q with
  | single h => exact .tail p h
  | tail _ h ih => exact .tail ih h

theorem Star.tailPlus {β : Type} {R : β → β → Prop} {a b c : β} (p : Star R a b) (h : R b c) : Plus R a c := by
  induction p generalizing c with
  | refl => exact .single h
  | tail _ h' ih => exact .tail (ih h') h

theorem Plus.mono {β : Type} {R S : β → β → Prop} (hRS : ∀ a b, R a b → S a b) {a b : β} (p : Plus R a b) :
    Plus S a b := by
  induction p with
  | single h => exact .single (hRS _ _ h)
  | tail _ h ih => exact .tail ih (hRS _ _ h)

/-- a node on a cycle has a predecessor that is on a cycle -/
theorem Plus.cycle_pred {β : Type} {R : β → β → Prop} {v : β} (p : Plus R v v) : ∃ u, Plus R u u ∧ R u v := by
  cases p with
  | single h => exact ⟨v, .single h, h⟩
  | tail q h => exact ⟨_, Plus.head h q, h⟩

/-! ### clause 1 -/

theorem rulesDefined_iff (g : Graph α) :
    rulesDefined g = true ↔ ∀ e ∈ g.edges, e.rule = phony ∨ e.rule ∈ g.rules := by
  simp [rulesDefined, ruleOk]

/-! ### clause 2 -/

theorem nodupB_iff (l : List α) : nodupB l = true ↔ l.Nodup := by
  induction l with
  | nil => simp [nodupB]
  | cons x xs ih => simp [nodupB, ih]

theorem outputsDisjoint_iff (es : List (Edge α)) :
    outputsDisjoint es = true ↔
      (∀ e ∈ es, e.outs.Nodup) ∧ es.Pairwise (fun e e' => ∀ p, p ∈ e.outs → p ∈ e'.outs → False) := by
  unfold outputsDisjoint allOuts
  rw [nodupB_iff, List.Nodup, List.pairwise_flatMap]
  constructor
  · intro ⟨h1, h2⟩
    refine ⟨h1, h2.imp ?_⟩
    intro a b h p ha hb
    exact h p ha p hb rfl
  · intro ⟨h1, h2⟩
    refine ⟨h1, h2.imp ?_⟩
    intro a b h x hx y hy hxy
    subst hxy
    exact h x hx hy

/-! ### clause 4 -/

theorem producedBy_iff (es : List (Edge α)) (p : α) : producedBy es p = true ↔ ∃ e ∈ es, p ∈ e.outs := by
  simp [producedBy]

theorem producedBy_false_iff (es : List (Edge α)) (p : α) : producedBy es p = false ↔ ∀ e ∈ es, p ∉ e.outs := by
  rw [← Bool.not_eq_true, producedBy_iff]
  simp

theorem closedB_iff (fs : List α) (es : List (Edge α)) :
    closedB fs es = true ↔ ∀ e ∈ es, ∀ i, i ∈ e.ins ++ e.vals → i ∈ fs ∨ ∃ e' ∈ es, i ∈ e'.outs := by
  simp only [closedB, List.all_eq_true, inputOk, Bool.or_eq_true, decide_eq_true_eq, producedBy_iff]

/-! ### clause 3: Kahn -/

theorem Dep.mono {es es' : List (Edge α)} (h : ∀ e ∈ es, e ∈ es') {u v : α} (d : Dep es u v) : Dep es' u v := by
  obtain ⟨e, he, hu, hv⟩ := d
  exact ⟨e, h e he, hu, hv⟩

theorem Acyclic.mono {es es' : List (Edge α)} (h : ∀ e ∈ es, e ∈ es') (a : Acyclic es') : Acyclic es :=
  fun v p => a v (p.mono (fun _ _ d => Dep.mono h d))

theorem ready_false_iff (rest : List (Edge α)) (e : Edge α) :
    ready rest e = false ↔ ∃ i ∈ e.ins, ∃ e' ∈ rest, i ∈ e'.outs := by
  rw [← Bool.not_eq_true]
  simp [ready, producedBy]

/-- soundness, in the form: a set in which every member has a direct prerequisite in the set is empty -/
theorem kahn_sound : ∀ (n : Nat) (rest : List (Edge α)), kahn n rest = true →
    ∀ C : α → Prop, (∀ v, C v → ∃ u, C u ∧ Dep rest u v) → ∀ v, ¬ C v
  | 0, rest, hk, C, hC, v, hv => by
    simp [kahn] at hk
    subst hk
    obtain ⟨u, _, e, he, _⟩ := hC v hv
    cases he
  | n + 1, rest, hk, C, hC, v, hv => by
    simp only [kahn] at hk
    split at hk
    · refine kahn_sound n _ hk C ?_ v hv
      intro w hw
      obtain ⟨u, hu, e, he, hue, hwe⟩ := hC w hw
      refine ⟨u, hu, e, ?_, hue, hwe⟩
      rw [List.mem_filter]
      refine ⟨he, ?_⟩
      -- `e` is not ready: its input `u` is still to be produced, because `u ∈ C`
      obtain ⟨t, _, e', he', _, hue'⟩ := hC u hu
      have : ready rest e = false := (ready_false_iff rest e).2 ⟨u, hue, e', he', hue'⟩
      simp [this]
    · simp at hk
      subst hk
      obtain ⟨u, _, e, he, _⟩ := hC v hv
      cases he

theorem acyclic_of_acyclicB (es : List (Edge α)) (h : acyclicB es = true) : Acyclic es := by
  intro v p
  exact kahn_sound es.length es h (fun v => Plus (Dep es) v v) (fun v hv => Plus.cycle_pred hv) v p

/-- pigeonhole: in a non-empty finite set in which everything has a predecessor, some element precedes itself -/
theorem cycle_of_pred {β : Type} (L : List β) (P : β → β → Prop) (hne : L ≠ [])
    (h : ∀ e ∈ L, ∃ e' ∈ L, P e' e) : ∃ e ∈ L, Plus P e e := by
  -- walks of any length: newest element first, every earlier (= newer) element precedes every later one
  have walk : ∀ k : Nat, ∃ w : List β, w.length = k + 1 ∧ (∀ x ∈ w, x ∈ L) ∧ w.Pairwise (fun a b => Plus P a b) := by
    intro k
    induction k with
    | zero =>
      cases L with
      | nil => exact absurd rfl hne
      | cons x _ => exact ⟨[x], rfl, by simp, by simp⟩
    | succ k ih =>
      obtain ⟨w, hlen, hmem, hpw⟩ := ih
      cases w with
      | nil => simp at hlen
      | cons x w' =>
        obtain ⟨p, hpL, hpx⟩ := h x (hmem x (by simp))
        refine ⟨p :: x :: w', by simp at hlen ⊢; omega, ?_, ?_⟩
        · intro y hy
          cases hy with
          | head => exact hpL
          | tail _ hy' => exact hmem y hy'
        · refine List.Pairwise.cons ?_ hpw
          intro b hb
          cases hb with
          | head => exact .single hpx
          | tail _ hb' =>
            have := List.rel_of_pairwise_cons hpw hb'
            exact Plus.head hpx this
  obtain ⟨w, hlen, hmem, hpw⟩ := walk L.length
  apply Classical.byContradiction
  intro hno
  have hnd : w.Nodup := by
    refine List.Pairwise.imp_of_mem ?_ hpw
    intro a b ha _ hab heq
    subst heq
    exact hno ⟨a, hmem a ha, hab⟩
  have := hnd.length_le_of_subset (fun x hx => hmem x hx)
  omega

/-- statement-level precedence inside `rest` -/
def Feeds (rest : List (Edge α)) (a b : Edge α) : Prop :=
  a ∈ rest ∧ b ∈ rest ∧ ∃ i, i ∈ a.outs ∧ i ∈ b.ins

theorem feeds_path (rest : List (Edge α)) {a b : Edge α} (p : Plus (Feeds rest) a b) :
    ∃ i j, i ∈ a.outs ∧ j ∈ b.ins ∧ Star (Dep rest) i j ∧ b ∈ rest := by
  induction p with
  | single h =>
    obtain ⟨_, hb, i, hia, hib⟩ := h
    exact ⟨i, i, hia, hib, .refl, hb⟩
  | tail _ h ih =>
    obtain ⟨i, j, hi, hj, hs, _⟩ := ih
    obtain ⟨hb, hc, k, hkb, hkc⟩ := h
    exact ⟨i, k, hi, hkc, .tail hs ⟨_, hb, hj, hkb⟩, hc⟩

/-- when Kahn is stuck on a non-empty rest there is a dependency cycle -/
theorem stuck_cycle (rest : List (Edge α)) (hne : rest ≠ []) (hst : ∀ e ∈ rest, ready rest e = false) :
    ∃ v, Plus (Dep rest) v v := by
  have := cycle_of_pred rest (Feeds rest) hne (by
    intro e he
    obtain ⟨i, hi, e', he', hie'⟩ := (ready_false_iff rest e).1 (hst e he)
    exact ⟨e', he', he', he, i, hie', hi⟩)
  obtain ⟨e, he, hp⟩ := this
  obtain ⟨i, j, hi, hj, hs, _⟩ := feeds_path rest hp
  exact ⟨i, Star.tailPlus hs ⟨e, he, hj, hi⟩⟩

theorem kahn_complete : ∀ (n : Nat) (rest : List (Edge α)), Acyclic rest → rest.length ≤ n → kahn n rest = true
  | 0, rest, _, hl => by
    have : rest = [] := List.eq_nil_of_length_eq_zero (by omega)
    simp [kahn, this]
  | n + 1, rest, hac, hl => by
    simp only [kahn]
    split
    · next hlt =>
      refine kahn_complete n _ (hac.mono ?_) (by omega)
      intro e he
      exact (List.mem_filter.1 he).1
    · next hge =>
      have hle := List.length_filter_le (fun e => !ready rest e) rest
      have heq : (rest.filter (fun e => !ready rest e)).length = rest.length := by omega
      have hall := List.length_filter_eq_length_iff.1 heq
      apply Classical.byContradiction
      intro hne
      have hne' : rest ≠ [] := by
        intro h
        subst h
        simp at hne
      obtain ⟨v, hv⟩ := stuck_cycle rest hne' (by
        intro e he
        have := hall e he
        simpa using this)
      exact hac v hv

theorem acyclicB_iff (es : List (Edge α)) : acyclicB es = true ↔ Acyclic es :=
  ⟨acyclic_of_acyclicB es, fun h => kahn_complete es.length es h (Nat.le_refl _)⟩

/-! ### clause 5: reachability -/

theorem fires_iff (S : List α) (e : Edge α) : fires S e = true ↔ ∃ o ∈ e.outs, o ∈ S := by
  simp [fires]

theorem length_filter_lt_of_mem {β : Type} (p : β → Bool) (l : List β) (x : β) (hx : x ∈ l) (hp : p x = false) :
    (l.filter p).length < l.length := by
  have hle := List.length_filter_le p l
  have hne : (l.filter p).length ≠ l.length := by
    intro h
    have := List.length_filter_eq_length_iff.1 h x hx
    simp [hp] at this
  omega

theorem reachLoop_subset : ∀ (n : Nat) (rest : List (Edge α)) (S : List α), ∀ x ∈ S, x ∈ reachLoop n rest S
  | 0, _, _, x, hx => by simpa [reachLoop] using hx
  | n + 1, rest, S, x, hx => by
    simp only [reachLoop]
    split
    · exact hx
    · exact reachLoop_subset n _ _ x (List.mem_append_left _ hx)

/-- soundness: any property that holds on `S` and is inherited along `Need` holds on the result -/
theorem reachLoop_sound (es : List (Edge α)) (Q : α → Prop) (hQ : ∀ x y, Q x → Need es x y → Q y) :
    ∀ (n : Nat) (rest : List (Edge α)) (S : List α), (∀ e ∈ rest, e ∈ es) → (∀ x ∈ S, Q x) →
      ∀ x ∈ reachLoop n rest S, Q x
  | 0, _, _, _, hS, x, hx => hS x (by simpa [reachLoop] using hx)
  | n + 1, rest, S, hsub, hS, x, hx => by
    simp only [reachLoop] at hx
    split at hx
    · exact hS x hx
    · refine reachLoop_sound es Q hQ n _ _ ?_ ?_ x hx
      · intro e he
        exact hsub e (List.mem_filter.1 he).1
      · intro y hy
        rcases List.mem_append.1 hy with hy | hy
        · exact hS y hy
        · obtain ⟨e, he, hye⟩ := List.mem_flatMap.1 hy
          obtain ⟨her, hf⟩ := List.mem_filter.1 he
          obtain ⟨o, hoe, hoS⟩ := (fires_iff S e).1 hf
          exact hQ o y (hS o hoS) ⟨e, hsub e her, hoe, hye⟩

/-- completeness: the result is closed under `Need` -/
theorem reachLoop_closed (es : List (Edge α)) :
    ∀ (n : Nat) (rest : List (Edge α)) (S : List α), rest.length ≤ n →
      (∀ e ∈ es, e ∈ rest ∨ ∀ y ∈ e.touched, y ∈ S) →
      ∀ x ∈ reachLoop n rest S, ∀ y, Need es x y → y ∈ reachLoop n rest S
  | 0, rest, S, hl, hinv, x, hx, y, hn => by
    have hnil : rest = [] := List.eq_nil_of_length_eq_zero (by omega)
    subst hnil
    simp only [reachLoop] at hx ⊢
    obtain ⟨e, he, _, hye⟩ := hn
    rcases hinv e he with h | h
    · cases h
    · exact h y hye
  | n + 1, rest, S, hl, hinv, x, hx, y, hn => by
    simp only [reachLoop] at hx ⊢
    split
    · next hemp =>
      rw [if_pos hemp] at hx
      obtain ⟨e, he, hxe, hye⟩ := hn
      rcases hinv e he with h | h
      · -- `e` is pending but produces `x ∈ S`: it would have fired
        have hf : fires S e = true := (fires_iff S e).2 ⟨x, hxe, hx⟩
        have : e ∈ rest.filter (fires S) := List.mem_filter.2 ⟨h, hf⟩
        rw [List.isEmpty_iff] at hemp
        rw [hemp] at this
        cases this
      · exact h y hye
    · next hemp =>
      rw [if_neg hemp] at hx
      refine reachLoop_closed es n _ _ ?_ ?_ x hx y hn
      · -- at least one edge fired, so the pending list shrinks
        have hex : ∃ e, e ∈ rest.filter (fires S) := by
          cases hf : rest.filter (fires S) with
          | nil => simp [hf] at hemp
          | cons e _ => exact ⟨e, by simp⟩
        obtain ⟨e, he⟩ := hex
        obtain ⟨her, hfe⟩ := List.mem_filter.1 he
        have := length_filter_lt_of_mem (fun e => !fires S e) rest e her (by simp [hfe])
        omega
      · intro e he
        rcases hinv e he with h | h
        · by_cases hf : fires S e = true
          · right
            intro z hz
            exact List.mem_append_right _ (List.mem_flatMap.2 ⟨e, List.mem_filter.2 ⟨h, hf⟩, hz⟩)
          · left
            exact List.mem_filter.2 ⟨h, by simp [hf]⟩
        · right
          intro z hz
          exact List.mem_append_left _ (h z hz)

theorem mem_reachSet_iff (es : List (Edge α)) (root t : α) : t ∈ reachSet es root ↔ Star (Need es) root t := by
  constructor
  · intro h
    refine reachLoop_sound es (fun x => Star (Need es) root x) (fun x y hx hn => .tail hx hn)
      es.length es [root] (fun _ h => h) ?_ t h
    intro x hx
    simp at hx
    subst hx
    exact .refl
  · intro h
    induction h with
    | refl => exact reachLoop_subset _ _ _ _ (by simp)
    | tail _ hn ih =>
      exact reachLoop_closed es es.length es [root] (Nat.le_refl _) (fun e he => .inl he) _ ih _ hn

theorem reqsOk_iff (es : List (Edge α)) (reqs : List (α × α)) :
    reqsOk es reqs = true ↔ ∀ rt ∈ reqs, Star (Need es) rt.1 rt.2 := by
  simp only [reqsOk, List.all_eq_true, decide_eq_true_eq, mem_reachSet_iff]

/-! ### clauses 6, 7 -/

theorem poolsB_iff (g : Graph α) :
    poolsB g = true ↔ (∀ e ∈ g.edges, e.pool = [] ∨ e.pool = console ∨ e.pool ∈ g.pools) ∧
      (g.pools.Nodup ∧ console ∉ g.pools) := by
  simp only [poolsB, poolOk, Bool.and_eq_true, List.all_eq_true, Bool.or_eq_true, decide_eq_true_eq, nodupB_iff,
    Bool.not_eq_true', decide_eq_false_iff_not, or_assoc, and_assoc]

theorem defaultsB_iff (g : Graph α) :
    defaultsB g = true ↔ ∀ d ∈ g.defaults, ∃ e ∈ g.edges, d ∈ e.outs := by
  simp only [defaultsB, List.all_eq_true, producedBy_iff]

/-! ### the checker -/

theorem wellFormed_iff (g : Graph α) (fs : List α) (reqs : List (α × α)) :
    wellFormed g fs reqs = true ↔ WellFormed g fs reqs := by
  simp only [wellFormed, Bool.and_eq_true, rulesDefined_iff, outputsDisjoint_iff, acyclicB_iff, closedB_iff,
    reqsOk_iff, poolsB_iff, defaultsB_iff]
  constructor
  · intro ⟨⟨⟨⟨⟨⟨h1, h2, h2'⟩, h3⟩, h4⟩, h5⟩, h6, h6'⟩, h7⟩
    exact ⟨h1, h2, h2', h3, h4, h5, h6, h6', h7⟩
  · intro h
    exact ⟨⟨⟨⟨⟨⟨h.rules, h.uniqueIn, h.uniqueAcross⟩, h.acyclic⟩, h.closed⟩, h.reach⟩, h.poolsBound, h.poolsUnique⟩,
      h.defaultsProduced⟩

/-! ### clause 8 -/

theorem installB_iff (fs : List α) (es : List (Edge α)) (iroot : α) (inst : List α) :
    installB fs es iroot inst = true ↔
      (∀ f ∈ inst, (∃ e ∈ es, f ∈ e.outs) → Star (Need es) iroot f) ∧
      (∀ f ∈ inst, (¬ ∃ e ∈ es, f ∈ e.outs) → f ∈ fs) := by
  simp only [installB, instOk, List.all_eq_true]
  constructor
  · intro h
    refine ⟨fun f hf hp => ?_, fun f hf hnp => ?_⟩
    · have := h f hf
      rw [if_pos ((producedBy_iff es f).2 hp)] at this
      exact (mem_reachSet_iff es iroot f).1 (of_decide_eq_true this)
    · have := h f hf
      have hpf : ¬ producedBy es f = true := fun hc => hnp ((producedBy_iff es f).1 hc)
      rw [if_neg hpf] at this
      exact of_decide_eq_true this
  · intro ⟨h1, h2⟩ f hf
    by_cases hp : producedBy es f = true
    · rw [if_pos hp]
      exact decide_eq_true ((mem_reachSet_iff es iroot f).2 (h1 f hf ((producedBy_iff es f).1 hp)))
    · rw [if_neg hp]
      exact decide_eq_true (h2 f hf (fun hc => hp ((producedBy_iff es f).2 hc)))

theorem mem_installMissing_iff (fs : List α) (es : List (Edge α)) (iroot : α) (inst : List α) (f : α) :
    f ∈ installMissing fs es iroot inst ↔ f ∈ inst ∧ instOk fs es (reachSet es iroot) f = false := by
  simp [installMissing]

theorem wellFormedInst_iff (g : Graph α) (fs : List α) (reqs : List (α × α)) (iroot : α) (inst : List α) :
    wellFormedInst g fs reqs iroot inst = true ↔ WellFormedInst g fs reqs iroot inst := by
  simp only [wellFormedInst, Bool.and_eq_true, wellFormed_iff, installB_iff]
  exact ⟨fun ⟨h, h1, h2⟩ => ⟨h, h1, h2⟩, fun h => ⟨h.base, h.installReach, h.installExist⟩⟩

end MesonModel.Ninja
