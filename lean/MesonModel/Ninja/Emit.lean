/-
The emission discipline of `mesonbuild/backend/ninjabackend.py`: `NinjaBuild.add_rule`, `NinjaBuild.add_build`,
`NinjaBuildElement.check_outputs`, `NinjaBuildElement.count_rule_references`, `NinjaRule.write` (which blocks are
emitted), `NinjaBuildElement.write` (which line is emitted), `NinjaBuild.write` — as a state machine.

Abstractions: a rule is its name plus `rspable`; the outcome of `NinjaRule._length_estimate(…) >= rsp_threshold` for
an element is an input bit `long` of the operation; rule bodies and element variables are not modelled (they do
not take part in the graph). Everything else follows the code, including
  * `add_build` looks the rule up *when the element is added* (a rule added later is never attached),
  * `check_outputs` only looks at the explicit outputs and only records the error, `write` raises it,
  * `write` replaces every backslash of a build line by `/`.
Core Lean only.
-/
import MesonModel.Ninja.Graph

namespace MesonModel.Ninja.Emit
open MesonModel.Ninja

/-- the substitution of `ninja_quote(text, is_build_line=True)`: `$`, blank and `:` get a `$` in front -/
def quoteChars : Str → Str
  | [] => []
  | c :: r => if c = '$' ∨ c = ' ' ∨ c = ':' then '$' :: c :: quoteChars r else c :: quoteChars r

/-- `ninja_quote(text, is_build_line=True)`: `none` = raises (`MesonException`): Ninja has no way to write a newline,
and on a build line no way to write `|` (it ends a path there) -/
def ninjaQuoteBuild (s : Str) : Option Str :=
  if '\n' ∈ s ∨ '|' ∈ s then none else some (quoteChars s)

structure Rule where
  name : Str
  rspable : Bool
  deriving Repr, DecidableEq

structure Elem where
  outs : List Str
  implOuts : List Str
  rulename : Str
  ins : List Str
  deps : List Str
  orderdeps : List Str
  /-- `rule._length_estimate(...) >= rsp_threshold` -/
  long : Bool
  /-- `build.rule`, set by `add_build` when the rule is known at that moment -/
  attached : Option Rule
  /-- `output_errors != ''` -/
  outputErrors : Bool
  deriving Repr

structure State where
  /-- `NinjaBuild.rules` (comments dropped) = `ruledict.values()` in insertion order -/
  rules : List Rule := []
  /-- `NinjaBuild.build_elements` (comments dropped) -/
  elems : List Elem := []
  /-- the shared set `all_outputs` -/
  allOutputs : List Str := []
  deriving Repr

inductive Op where
  | addRule (name : Str) (rspable : Bool)
  | addBuild (outs implOuts : List Str) (rulename : Str) (ins deps orderdeps : List Str) (long : Bool)
  deriving Repr

/-- `check_outputs`: returns the new `all_outputs` and whether an error was recorded -/
def checkOutputs : List Str → List Str → Bool → List Str × Bool
  | [], all, err => (all, err)
  | n :: r, all, err =>
    if n ∈ all then checkOutputs r all true
    else checkOutputs r (n :: all) err

def findRule (rules : List Rule) (n : Str) : Option Rule := rules.find? (fun r => r.name == n)

/-- one operation; `false` = the operation raised (`Tried to add rule … twice`), state unchanged -/
def step (st : State) : Op → State × Bool
  | .addRule n rsp =>
    if (findRule st.rules n).isSome then (st, false)
    else ({ st with rules := st.rules ++ [{ name := n, rspable := rsp }] }, true)
  | .addBuild outs iouts rn ins deps odeps long =>
    let (all, err) := checkOutputs outs st.allOutputs false
    let att := if rn = phony then none else findRule st.rules rn
    ({ st with allOutputs := all,
               elems := st.elems ++ [{ outs := outs, implOuts := iouts, rulename := rn, ins := ins, deps := deps,
                                       orderdeps := odeps, long := long, attached := att, outputErrors := err }] },
     true)

def run : List Op → State → State
  | [], st => st
  | op :: r, st => run r (step st op).1

/-! ### write -/

inductive WErr where
  /-- `self.rule` was never set: `AttributeError` out of `_should_use_rspfile` -/
  | unmappedRule
  /-- `MesonException(self.output_errors)` -/
  | multipleProducers
  /-- `ninja_quote` refuses newlines -/
  | newline
  /-- `ninja_quote(…, is_build_line=True)` refuses `|` -/
  | pipe
  deriving Repr, DecidableEq

structure OutBuild where
  outs : List Str
  implOuts : List Str
  rule : Str
  ins : List Str
  deps : List Str
  orderdeps : List Str
  deriving Repr, DecidableEq

structure Out where
  /-- names of the emitted `rule` blocks, in order -/
  rules : List Str
  builds : List OutBuild
  deriving Repr

def rspSuffix : Str := "_RSP".toList

/-- `_should_use_rspfile`: `none` = raises -/
def usesRsp (e : Elem) : Option Bool :=
  if e.rulename = phony then some false
  else match e.attached with
    | none => none
    | some r => some (r.rspable && e.long)

/-- the rule name written on the build line -/
def lineRule (e : Elem) : Str :=
  if usesRsp e = some true then e.rulename ++ rspSuffix else e.rulename

/-- `rule.refcount > 0` after `count_rule_references` of all elements -/
def refd (elems : List Elem) (r : Rule) : Bool :=
  elems.any (fun e => e.rulename != phony && e.attached == some r && usesRsp e == some false)

def rspRefd (elems : List Elem) (r : Rule) : Bool :=
  elems.any (fun e => e.rulename != phony && e.attached == some r && usesRsp e == some true)

/-- `NinjaRule.write`: which blocks appear -/
def ruleBlocks (elems : List Elem) (r : Rule) : List Str :=
  (if refd elems r then [r.name] else []) ++ (if rspRefd elems r then [r.name ++ rspSuffix] else [])

def slash (s : Str) : Str := s.map (fun c => if c = '\\' then '/' else c)

def strLt : Str → Str → Bool
  | [], [] => false
  | [], _ :: _ => true
  | _ :: _, [] => false
  | a :: r, b :: s => if a.toNat < b.toNat then true else if b.toNat < a.toNat then false else strLt r s

def insertSorted (x : Str) : List Str → List Str
  | [] => [x]
  | y :: r => if x = y then y :: r else if strLt x y then x :: y :: r else y :: insertSorted x r

/-- `sorted(set(l))` -/
def sortedSet (l : List Str) : List Str := l.foldr insertSorted []

/-- the exception of the first name (in quoting order) that `ninja_quote(name, True)` refuses; the newline test comes first -/
def firstBad : List Str → Option WErr
  | [] => none
  | s :: r => if '\n' ∈ s then some .newline else if '|' ∈ s then some .pipe else firstBad r

/-- the build line of an element -/
def lineOf (e : Elem) : OutBuild :=
  { outs := e.outs.map slash, implOuts := e.implOuts.map slash, rule := slash (lineRule e),
    ins := e.ins.map slash, deps := (sortedSet e.deps).map slash,
    orderdeps := (sortedSet e.orderdeps).map slash }

/-- `NinjaBuildElement.write` (the build line) -/
def writeElem (e : Elem) : Except WErr OutBuild :=
  if e.outputErrors then .error .multipleProducers
  else match firstBad (e.ins ++ e.outs ++ e.implOuts ++ sortedSet e.deps ++ sortedSet e.orderdeps) with
    | some x => .error x
    | none => .ok (lineOf e)

def writeElems : List Elem → Except WErr (List OutBuild)
  | [] => .ok []
  | e :: r =>
    match writeElem e with
    | .error x => .error x
    | .ok b =>
      match writeElems r with
      | .error x => .error x
      | .ok bs => .ok (b :: bs)

/-- the first loop of `NinjaBuild.write`: `count_rule_references` of every element, in order.
`_should_use_rspfile` raises when no rule was attached; for a response-file capable rule
`NinjaRule.should_use_rspfile` already quotes the input and output names, so a newline or `|` surfaces here. -/
def countRefs : List Elem → Option WErr
  | [] => none
  | e :: r =>
    if e.rulename = phony then countRefs r
    else match e.attached with
      | none => some .unmappedRule
      | some ru =>
        if ru.rspable then
          match firstBad (e.ins ++ e.outs) with
          | some x => some x
          | none => countRefs r
        else countRefs r

/-- `NinjaBuild.write` -/
def write (st : State) : Except WErr Out :=
  match countRefs st.elems with
  | some x => .error x
  | none =>
    match writeElems st.elems with
    | .error x => .error x
    | .ok bs => .ok { rules := st.rules.flatMap (ruleBlocks st.elems), builds := bs }

/-! ### the build line as text (`NinjaBuildElement.write`) -/

/-- `' '.join(ninja_quote(i, True) for i in names)` (for names the quoting accepts) -/
def joinQ : List Str → Str
  | [] => []
  | [p] => quoteChars p
  | p :: r => quoteChars p ++ ' ' :: joinQ r

def sepPipe : Str := [' ', '|', ' ']
def sepPipe2 : Str := [' ', '|', '|', ' ']

/-- `sep` + the quoted names, or nothing for an empty list (`' | ' + …`, `' || ' + …`) -/
def group (sep : Str) (ps : List Str) : Str := if ps = [] then [] else sep ++ joinQ ps

/-- what follows the keyword `build ` on the line of `b` (`{outs}{implicit_outs}: {rulename} {ins}` + ` | deps`
+ ` || orderdeps` + newline), followed by `rest` -/
def printEdgeThen (b : OutBuild) (rest : Str) : Str :=
  joinQ b.outs ++ (group sepPipe b.implOuts ++ ':' :: ' ' :: (b.rule ++ ' ' ::
    (joinQ b.ins ++ (group sepPipe b.deps ++ (group sepPipe2 b.orderdeps ++ '\n' :: rest)))))

/-- the build statements as `NinjaBuild.write` lays them out when the elements carry no variables:
every line is followed by an empty line -/
def printBuilds : List OutBuild → Str
  | [] => []
  | b :: r => "build".toList ++ ' ' :: printEdgeThen b ('\n' :: printBuilds r)

def emit (ops : List Op) : Except WErr Out := write (run ops {})

end MesonModel.Ninja.Emit
