/-
The build-line quoting of the backend (`ninja_quote`, model `Emit.ninjaQuoteBuild` / `Emit.quoteChars`) against the manifest lexer
(`Manifest.readEval`): what is written for a name is read back as exactly that name — unless the name holds a `|`.
-/
import MesonModel.Ninja.Manifest
import MesonModel.Ninja.Emit
namespace MesonModel.Ninja
open MesonModel.Ninja.Emit

def PlainChar (c : Char) : Prop := c ≠ '\n' ∧ c ≠ '\r' ∧ c ≠ '|'

def isTerm (c : Char) : Prop := c = ' ' ∨ c = ':' ∨ c = '|' ∨ c = '\n'

theorem readEval_term (fuel : Nat) (c0 : Char) (h0 : isTerm c0) (tail : Str) (acc : EvalStr) :
    readEval true (fuel + 1) false (c0 :: tail) acc = .ok (acc.reverse, c0 :: tail) := by
  rcases h0 with h | h | h | h <;> subst h <;> simp [readEval]

theorem readEval_quote : ∀ (s : Str), (∀ c ∈ s, PlainChar c) → ∀ (c0 : Char), isTerm c0 → ∀ (tail : Str) (acc : EvalStr)
    (fuel : Nat), s.length + 1 ≤ fuel →
    readEval true fuel false (quoteChars s ++ c0 :: tail) acc = .ok (acc.reverse ++ s.map Piece.lit, c0 :: tail)
  | [], _, c0, h0, tail, acc, fuel, hf => by
    obtain ⟨f, rfl⟩ : ∃ f, fuel = f + 1 := ⟨fuel - 1, by simp at hf; omega⟩
    simpa [quoteChars] using readEval_term f c0 h0 tail acc
  | c :: r, hs, c0, h0, tail, acc, fuel, hf => by
    obtain ⟨f, rfl⟩ : ∃ f, fuel = f + 1 := ⟨fuel - 1, by simp at hf; omega⟩
    have hr : ∀ d ∈ r, PlainChar d := fun d hd => hs d (by simp [hd])
    have hf' : r.length + 1 ≤ f := by simp at hf; omega
    obtain ⟨hn, hcr, hp⟩ := hs c (by simp)
    by_cases h1 : c = '$'
    · subst h1
      have := readEval_quote r hr c0 h0 tail (.lit '$' :: acc) f hf'
      simp [quoteChars, readEval, this]
    · by_cases h2 : c = ' '
      · subst h2
        have := readEval_quote r hr c0 h0 tail (.lit ' ' :: acc) f hf'
        simp [quoteChars, readEval, this]
      · by_cases h3 : c = ':'
        · subst h3
          have := readEval_quote r hr c0 h0 tail (.lit ':' :: acc) f hf'
          simp [quoteChars, readEval, this]
        · have := readEval_quote r hr c0 h0 tail (.lit c :: acc) f hf'
          simp only [quoteChars, h1, h2, h3, or_self, if_false, List.cons_append]
          unfold readEval
          split <;> simp_all

theorem evalStr_lits (env : List (Str × Str)) (s : Str) : evalStr env (s.map Piece.lit) = s := by
  induction s with
  | nil => rfl
  | cons c r ih => simp [evalStr, ih]

/-! ## the printed build line is parsed back (`parse_print`) -/

/-- a name the emission can put on a build line and Ninja can read back -/
def GoodName (p : Str) : Prop := p ≠ [] ∧ ∀ c ∈ p, PlainChar c

def blanks (k : Nat) : Str := List.replicate k ' '

def isSep (c : Char) : Prop := c = ':' ∨ c = '|' ∨ c = '\n'

theorem eatWs_blanks_sep (k : Nat) (c1 : Char) (h1 : isSep c1) (t : Str) : eatWs (blanks k ++ c1 :: t) = c1 :: t := by
  induction k with
  | zero => rcases h1 with h | h | h <;> subst h <;> simp [blanks, eatWs]
  | succ k ih => simpa [blanks, List.replicate_succ, eatWs] using ih

theorem eatWs_quote (p : Str) (hp : GoodName p) (t : Str) : eatWs (quoteChars p ++ t) = quoteChars p ++ t := by
  obtain ⟨hne, hpl⟩ := hp
  cases p with
  | nil => exact absurd rfl hne
  | cons c r =>
    obtain ⟨hn, _, _⟩ := hpl c (by simp)
    by_cases h1 : c = '$'
    · subst h1; simp [quoteChars, eatWs]
    · by_cases h2 : c = ' '
      · subst h2; simp [quoteChars, eatWs]
      · by_cases h3 : c = ':'
        · subst h3; simp [quoteChars, eatWs]
        · simp only [quoteChars, h1, h2, h3, or_self, if_false, List.cons_append]
          unfold eatWs
          split <;> simp_all

theorem readPath_quote (n : Nat) (p : Str) (hp : GoodName p) (c0 : Char) (h0 : isTerm c0) (t : Str)
    (hn : p.length + 1 ≤ n) :
    readPath n (quoteChars p ++ c0 :: t) = .ok (p.map Piece.lit, eatWs (c0 :: t)) := by
  unfold readPath
  rw [readEval_quote p hp.2 c0 h0 t [] n hn]
  simp

theorem readPath_empty (n : Nat) (c1 : Char) (h1 : isSep c1) (t : Str) :
    readPath (n + 1) (c1 :: t) = .ok ([], c1 :: t) := by
  rcases h1 with h | h | h <;> subst h <;> simp [readPath, readEval, eatWs]

theorem readPath_blanks_sep (n k : Nat) (c1 : Char) (h1 : isSep c1) (t : Str) :
    readPath (n + 1) (blanks k ++ c1 :: t) = .ok ([], c1 :: t) := by
  cases k with
  | zero => simpa [blanks] using readPath_empty n c1 h1 t
  | succ k =>
    have := eatWs_blanks_sep (k + 1) c1 h1 t
    simp only [blanks, List.replicate_succ, List.cons_append] at this ⊢
    simp [readPath, readEval, this]

theorem blanks_sep_head (k : Nat) (c1 : Char) (h1 : isSep c1) (t : Str) :
    ∃ c0 t0, isTerm c0 ∧ blanks k ++ c1 :: t = c0 :: t0 := by
  cases k with
  | zero =>
    refine ⟨c1, t, ?_, by simp [blanks]⟩
    rcases h1 with h | h | h
    · exact .inr (.inl h)
    · exact .inr (.inr (.inl h))
    · exact .inr (.inr (.inr h))
  | succ k => exact ⟨' ', blanks k ++ c1 :: t, .inl rfl, by simp [blanks, List.replicate_succ]⟩

theorem lits_ne_nil {p : Str} (h : p ≠ []) : p.map Piece.lit ≠ [] := by
  cases p with
  | nil => exact absurd rfl h
  | cons _ _ => simp

theorem readPaths_join (n : Nat) : ∀ (ps : List Str), (∀ p ∈ ps, GoodName p) → (∀ p ∈ ps, p.length + 1 ≤ n) → 1 ≤ n →
    ∀ (k : Nat) (c1 : Char), isSep c1 → ∀ (t : Str) (acc : List EvalStr) (fuel : Nat), ps.length + 1 ≤ fuel →
    readPaths n fuel (joinQ ps ++ blanks k ++ c1 :: t) acc
      = .ok (acc.reverse ++ ps.map (fun p => p.map Piece.lit), c1 :: t)
  | [], _, _, hn1, k, c1, h1, t, acc, fuel, hf => by
    obtain ⟨f, rfl⟩ : ∃ f, fuel = f + 1 := ⟨fuel - 1, by simp at hf; omega⟩
    obtain ⟨m, rfl⟩ : ∃ m, n = m + 1 := ⟨n - 1, by omega⟩
    simp only [joinQ, List.nil_append, readPaths, readPath_blanks_sep m k c1 h1 t]
    simp
  | [p], hg, hl, hn1, k, c1, h1, t, acc, fuel, hf => by
    obtain ⟨f, rfl⟩ : ∃ f, fuel = f + 1 := ⟨fuel - 1, by simp at hf; omega⟩
    have hp := hg p (by simp)
    obtain ⟨c0, t0, hc0, heq⟩ := blanks_sep_head k c1 h1 t
    have hrest : eatWs (c0 :: t0) = c1 :: t := by rw [← heq]; exact eatWs_blanks_sep k c1 h1 t
    have hread := readPath_quote n p hp c0 hc0 t0 (hl p (by simp))
    have hnil := lits_ne_nil hp.1
    simp only [joinQ, List.append_assoc, heq, readPaths, hread, hrest]
    have ih := readPaths_join n [] (by simp) (by simp) hn1 0 c1 h1 t (p.map Piece.lit :: acc) f (by simp at hf ⊢; omega)
    simp only [joinQ, blanks, List.replicate_zero, List.nil_append] at ih
    cases hm : p.map Piece.lit with
    | nil => exact absurd hm hnil
    | cons a b =>
      simp only [hm] at ih ⊢
      rw [ih]
      simp [hm]
  | p :: q :: r, hg, hl, hn1, k, c1, h1, t, acc, fuel, hf => by
    obtain ⟨f, rfl⟩ : ∃ f, fuel = f + 1 := ⟨fuel - 1, by simp at hf; omega⟩
    have hp := hg p (by simp)
    have hq := hg q (by simp)
    have hnil := lits_ne_nil hp.1
    have hread := readPath_quote n p hp ' ' (.inl rfl) (joinQ (q :: r) ++ blanks k ++ c1 :: t) (hl p (by simp))
    have hj : ∃ u, joinQ (q :: r) = quoteChars q ++ u := by
      cases r with
      | nil => exact ⟨[], by simp [joinQ]⟩
      | cons x y => exact ⟨' ' :: joinQ (x :: y), by simp [joinQ]⟩
    obtain ⟨u, hu⟩ := hj
    have hrest : eatWs (' ' :: (joinQ (q :: r) ++ blanks k ++ c1 :: t)) = joinQ (q :: r) ++ blanks k ++ c1 :: t := by
      simp only [eatWs]
      rw [hu]
      simpa [List.append_assoc] using eatWs_quote q hq (u ++ blanks k ++ c1 :: t)
    have ih := readPaths_join n (q :: r) (fun x hx => hg x (by simp [hx])) (fun x hx => hl x (by simp [hx])) hn1 k c1 h1 t
      (p.map Piece.lit :: acc) f (by simp at hf ⊢; omega)
    have htext : joinQ (p :: q :: r) ++ blanks k ++ c1 :: t
        = quoteChars p ++ ' ' :: (joinQ (q :: r) ++ blanks k ++ c1 :: t) := by simp [joinQ, List.append_assoc]
    rw [htext]
    simp only [readPaths, hread, hrest]
    cases hm : p.map Piece.lit with
    | nil => exact absurd hm hnil
    | cons a b =>
      simp only [hm] at ih ⊢
      rw [ih]
      simp [hm]

/-! ### tokens -/

def IdentName (r : Str) : Prop := r ≠ [] ∧ ∀ c ∈ r, isIdentChar c = true

theorem spanP_ident : ∀ (r : Str), (∀ c ∈ r, isIdentChar c = true) → ∀ (t : Str),
    spanP isIdentChar (r ++ ' ' :: t) = (r, ' ' :: t)
  | [], _, t => by simp [spanP, isIdentChar, MesonModel.Py.isAlnum, MesonModel.Py.isDigit, MesonModel.Py.isAlpha]
  | c :: r, h, t => by
    have hc := h c (by simp)
    have ih := spanP_ident r (fun d hd => h d (by simp [hd])) t
    simp [spanP, hc, ih]

theorem tok_colon (n : Nat) (t : Str) : tok (n + 1) (':' :: t) = (.colon, eatWs t) := by
  simp [tok, readToken]

theorem tok_newline (n : Nat) (t : Str) : tok (n + 1) ('\n' :: t) = (.newline, t) := by
  simp [tok, readToken]

theorem tok_pipe_blank (n : Nat) (t : Str) : tok (n + 1) ('|' :: ' ' :: t) = (.pipe, eatWs (' ' :: t)) := by
  simp [tok, readToken]

theorem tok_pipe2 (n : Nat) (t : Str) : tok (n + 1) ('|' :: '|' :: t) = (.pipe2, eatWs t) := by
  simp [tok, readToken]

theorem ident_not_special (c : Char) (hc : isIdentChar c = true) :
    c ≠ '\n' ∧ c ≠ '\r' ∧ c ≠ ' ' ∧ c ≠ '#' ∧ c ≠ '=' ∧ c ≠ ':' ∧ c ≠ '|' ∧ c ≠ '$' := by
  refine ⟨?_, ?_, ?_, ?_, ?_, ?_, ?_, ?_⟩ <;> (intro h; subst h; exact absurd hc (by decide))

theorem tok_ident (n : Nat) (r : Str) (hr : IdentName r) (t : Str) :
    tok (n + 1) (r ++ ' ' :: t) = (.ident r, eatWs (' ' :: t)) := by
  obtain ⟨hne, hall⟩ := hr
  cases r with
  | nil => exact absurd rfl hne
  | cons c r' =>
    have hc : isIdentChar c = true := hall c (by simp)
    have hsp := spanP_ident (c :: r') hall t
    simp only [List.cons_append] at hsp ⊢
    obtain ⟨h1, h2, h3, h4, h5, h6, h7, _⟩ := ident_not_special c hc
    unfold tok readToken
    split <;> simp_all

/-! ### groups of a build line -/

def lits (ps : List Str) : List EvalStr := ps.map (fun p => p.map Piece.lit)

structure Fits (n : Nat) (ps : List Str) : Prop where
  good : ∀ p ∈ ps, GoodName p
  len : ∀ p ∈ ps, p.length + 1 ≤ n
  cnt : ps.length + 1 ≤ n

theorem eatWs_joinQ (ps : List Str) (hne : ps ≠ []) (hg : ∀ p ∈ ps, GoodName p) (t : Str) :
    eatWs (joinQ ps ++ t) = joinQ ps ++ t := by
  match ps, hne, hg with
  | [p], _, hg => simpa [joinQ] using eatWs_quote p (hg p (by simp)) t
  | p :: q :: r, _, hg =>
    simpa [joinQ, List.append_assoc] using eatWs_quote p (hg p (by simp)) (' ' :: joinQ (q :: r) ++ t)

/-- a list of names followed by `blanks k ++ c1 :: t` is read back, whatever its length (possibly empty) -/
theorem readPaths_fits (n : Nat) (ps : List Str) (hf : Fits n ps) (k : Nat) (c1 : Char) (h1 : isSep c1) (t : Str) :
    readPaths n n (joinQ ps ++ blanks k ++ c1 :: t) [] = .ok (lits ps, c1 :: t) := by
  have := readPaths_join n ps hf.good hf.len (by have := hf.cnt; omega) k c1 h1 t [] n hf.cnt
  simpa [lits] using this

/-- an optional group introduced by `|` (after the blank before it has been eaten) -/
theorem optGroup_pipe (n : Nat) (ps : List Str) (hf : Fits n ps) (hne : ps ≠ []) (k : Nat) (c1 : Char) (h1 : isSep c1)
    (t : Str) :
    optGroup n .pipe ('|' :: ' ' :: (joinQ ps ++ blanks k ++ c1 :: t)) = .ok (lits ps, c1 :: t) := by
  obtain ⟨m, rfl⟩ : ∃ m, n = m + 1 := ⟨n - 1, by have := hf.cnt; omega⟩
  have he : eatWs (' ' :: (joinQ ps ++ blanks k ++ c1 :: t)) = joinQ ps ++ blanks k ++ c1 :: t := by
    simp only [eatWs]
    simpa [List.append_assoc] using eatWs_joinQ ps hne hf.good (blanks k ++ c1 :: t)
  simp only [optGroup, tok_pipe_blank, he, if_true]
  exact readPaths_fits (m + 1) ps hf k c1 h1 t

theorem optGroup_pipe2 (n : Nat) (ps : List Str) (hf : Fits n ps) (hne : ps ≠ []) (k : Nat) (c1 : Char) (h1 : isSep c1)
    (t : Str) :
    optGroup n .pipe2 ('|' :: '|' :: ' ' :: (joinQ ps ++ blanks k ++ c1 :: t)) = .ok (lits ps, c1 :: t) := by
  obtain ⟨m, rfl⟩ : ∃ m, n = m + 1 := ⟨n - 1, by have := hf.cnt; omega⟩
  have he : eatWs (' ' :: (joinQ ps ++ blanks k ++ c1 :: t)) = joinQ ps ++ blanks k ++ c1 :: t := by
    simp only [eatWs]
    simpa [List.append_assoc] using eatWs_joinQ ps hne hf.good (blanks k ++ c1 :: t)
  simp only [optGroup, tok_pipe2, he, if_true]
  exact readPaths_fits (m + 1) ps hf k c1 h1 t

theorem optGroup_absent (n : Nat) (g : Tok) (s : Str) (h : (tok n s).1 ≠ g) : optGroup n g s = .ok ([], s) := by
  unfold optGroup
  cases htk : tok n s with
  | mk t' r =>
    simp only [htk] at h ⊢
    simp [h]

theorem fits_nil (n : Nat) (h : 1 ≤ n) : Fits n [] := ⟨by simp, by simp, by simpa using h⟩

theorem readPaths_after_blank (n : Nat) (ps : List Str) (hf : Fits n ps) (k : Nat) (c1 : Char) (h1 : isSep c1) (t : Str) :
    readPaths n n (eatWs (' ' :: (joinQ ps ++ blanks k ++ c1 :: t))) [] = .ok (lits ps, c1 :: t) := by
  by_cases hne : ps = []
  · subst hne
    have : eatWs (' ' :: (joinQ [] ++ blanks k ++ c1 :: t)) = c1 :: t := by
      simpa [joinQ, blanks, List.replicate_succ] using eatWs_blanks_sep (k + 1) c1 h1 t
    rw [this]
    simpa [joinQ, blanks] using readPaths_fits n [] hf 0 c1 h1 t
  · have : eatWs (' ' :: (joinQ ps ++ blanks k ++ c1 :: t)) = joinQ ps ++ blanks k ++ c1 :: t := by
      simp only [eatWs]
      simpa [List.append_assoc] using eatWs_joinQ ps hne hf.good (blanks k ++ c1 :: t)
    rw [this]
    exact readPaths_fits n ps hf k c1 h1 t

/-- the order-only group followed by the end of the line -/
theorem od_form (n : Nat) (od : List Str) (ho : Fits n od) (rest : Str) :
    ∃ k c t, isSep c ∧ group sepPipe2 od ++ '\n' :: rest = blanks k ++ c :: t ∧
      optGroup n .pipe2 (c :: t) = .ok (lits od, '\n' :: rest) ∧ (tok n (c :: t)).1 ≠ .pipe := by
  obtain ⟨m, rfl⟩ : ∃ m, n = m + 1 := ⟨n - 1, by have := ho.cnt; omega⟩
  by_cases hne : od = []
  · subst hne
    refine ⟨0, '\n', rest, .inr (.inr rfl), by simp [group, blanks], ?_, by simp [tok_newline]⟩
    simpa [lits] using optGroup_absent (m + 1) .pipe2 ('\n' :: rest) (by simp [tok_newline])
  · refine ⟨1, '|', '|' :: ' ' :: (joinQ od ++ blanks 0 ++ '\n' :: rest), .inr (.inl rfl), ?_, ?_, by simp [tok_pipe2]⟩
    · simp [group, hne, sepPipe2, blanks]
    · exact optGroup_pipe2 (m + 1) od ho hne 0 '\n' (.inr (.inr rfl)) rest

/-- the implicit-dependency group, the order-only group, the end of the line -/
theorem deps_form (n : Nat) (deps od : List Str) (hd : Fits n deps) (ho : Fits n od) (rest : Str) :
    ∃ k c t, isSep c ∧ group sepPipe deps ++ (group sepPipe2 od ++ '\n' :: rest) = blanks k ++ c :: t ∧
      ∃ s2, optGroup n .pipe (c :: t) = .ok (lits deps, s2) ∧ optGroup n .pipe2 s2 = .ok (lits od, '\n' :: rest) := by
  obtain ⟨k3, c3, t3, h3, e3, hp2, hnp⟩ := od_form n od ho rest
  by_cases hne : deps = []
  · subst hne
    refine ⟨k3, c3, t3, h3, by simpa [group] using e3, c3 :: t3, ?_, hp2⟩
    simpa [lits] using optGroup_absent n .pipe (c3 :: t3) hnp
  · refine ⟨1, '|', ' ' :: (joinQ deps ++ blanks k3 ++ c3 :: t3), .inr (.inl rfl), ?_, c3 :: t3, ?_, hp2⟩
    · rw [e3]
      simp [group, hne, sepPipe, blanks, List.append_assoc]
    · exact optGroup_pipe n deps hd hne k3 c3 h3 t3

theorem eatWs_ident (r : Str) (hr : IdentName r) (u : Str) : eatWs (' ' :: (r ++ u)) = r ++ u := by
  obtain ⟨hne, hall⟩ := hr
  cases r with
  | nil => exact absurd rfl hne
  | cons c r' =>
    obtain ⟨h1, h2, h3, h4, h5, h6, h7, h8⟩ := ident_not_special c (hall c (by simp))
    simp only [eatWs, List.cons_append]
    unfold eatWs
    split <;> simp_all

theorem iouts_form (n : Nat) (io : List Str) (hio : Fits n io) (T : Str) :
    ∃ k c t, isSep c ∧ group sepPipe io ++ ':' :: T = blanks k ++ c :: t ∧
      optGroup n .pipe (c :: t) = .ok (lits io, ':' :: T) := by
  obtain ⟨m, rfl⟩ : ∃ m, n = m + 1 := ⟨n - 1, by have := hio.cnt; omega⟩
  by_cases hne : io = []
  · subst hne
    refine ⟨0, ':', T, .inl rfl, by simp [group, blanks], ?_⟩
    simpa [lits] using optGroup_absent (m + 1) .pipe (':' :: T) (by simp [tok_colon])
  · refine ⟨1, '|', ' ' :: (joinQ io ++ blanks 0 ++ ':' :: T), .inr (.inl rfl), ?_, ?_⟩
    · simp [group, hne, sepPipe, blanks]
    · exact optGroup_pipe (m + 1) io hio hne 0 ':' (.inl rfl) T

theorem parseBinds_none (n : Nat) (rest : Str) (h : (tok (n + 1) rest).1 ≠ .indent) :
    parseBinds (n + 1) (n + 1) rest [] = .ok ([], rest) := by
  unfold parseBinds
  cases htk : tok (n + 1) rest with
  | mk t r =>
    simp only [htk] at h
    cases t <;> simp_all

def synOf (b : OutBuild) : BuildSyn :=
  { outs := lits b.outs, implOuts := lits b.implOuts, rule := b.rule, ins := lits b.ins, implIns := lits b.deps,
    orderIns := lits b.orderdeps, vals := [], binds := [] }

structure GoodLine (n : Nat) (b : OutBuild) : Prop where
  outs : Fits n b.outs
  outsNe : b.outs ≠ []
  implOuts : Fits n b.implOuts
  rule : IdentName b.rule
  ins : Fits n b.ins
  deps : Fits n b.deps
  orderdeps : Fits n b.orderdeps

theorem parseEdge_print (n : Nat) (b : OutBuild) (hb : GoodLine n b) (rest : Str) (hrest : (tok n rest).1 ≠ .indent) :
    parseEdge n (printEdgeThen b rest) = .ok (synOf b, rest) := by
  obtain ⟨m, rfl⟩ : ∃ m, n = m + 1 := ⟨n - 1, by have := hb.outs.cnt; omega⟩
  obtain ⟨k2, c2, t2, h2, e2, s2, hp, hp2⟩ := deps_form (m + 1) b.deps b.orderdeps hb.deps hb.orderdeps rest
  let X := joinQ b.ins ++ (group sepPipe b.deps ++ (group sepPipe2 b.orderdeps ++ '\n' :: rest))
  let T := ' ' :: (b.rule ++ ' ' :: X)
  obtain ⟨k1, c1, t1, h1, e1, hio⟩ := iouts_form (m + 1) b.implOuts hb.implOuts T
  have s1 : readPaths (m + 1) (m + 1) (printEdgeThen b rest) [] = .ok (lits b.outs, c1 :: t1) := by
    have : printEdgeThen b rest = joinQ b.outs ++ blanks k1 ++ c1 :: t1 := by
      simp only [printEdgeThen, List.append_assoc]
      rw [← e1]
    rw [this]
    exact readPaths_fits (m + 1) b.outs hb.outs k1 c1 h1 t1
  have s3 : tok (m + 1) (':' :: T) = (.colon, b.rule ++ ' ' :: X) := by
    rw [tok_colon]
    exact congrArg _ (eatWs_ident b.rule hb.rule (' ' :: X))
  have s4 : tok (m + 1) (b.rule ++ ' ' :: X) = (.ident b.rule, eatWs (' ' :: X)) := tok_ident m b.rule hb.rule X
  have s5 : readPaths (m + 1) (m + 1) (eatWs (' ' :: X)) [] = .ok (lits b.ins, c2 :: t2) := by
    have : X = joinQ b.ins ++ blanks k2 ++ c2 :: t2 := by
      simp only [X, List.append_assoc]
      rw [← e2]
    rw [this]
    exact readPaths_after_blank (m + 1) b.ins hb.ins k2 c2 h2 t2
  have s8 : optGroup (m + 1) .pipeAt ('\n' :: rest) = .ok ([], '\n' :: rest) :=
    optGroup_absent (m + 1) .pipeAt _ (by simp [tok_newline])
  have s9 : expectNewline (m + 1) ('\n' :: rest) = .ok rest := by simp [expectNewline, tok_newline]
  have s10 := parseBinds_none m rest hrest
  have hemp : (lits b.outs).isEmpty = false := by
    cases ho : b.outs with
    | nil => exact absurd ho hb.outsNe
    | cons _ _ => simp [lits]
  simp [parseEdge, bind, Except.bind, pure, Except.pure, s1, hio, hemp, s3, s4, s5, hp, hp2, s8, s9, s10, synOf]

theorem kw_build_ident : IdentName (kw "build") := by
  refine ⟨by decide, ?_⟩
  decide

theorem parseTop_printBuilds (n : Nat) : ∀ (bs : List OutBuild), (∀ b ∈ bs, GoodLine n b) → 1 ≤ n →
    ∀ (acc : List Stmt) (fuel : Nat), 2 * bs.length + 1 ≤ fuel →
    parseTop n fuel (printBuilds bs) acc = .ok (acc.reverse ++ bs.map (fun b => Stmt.build (synOf b)))
  | [], _, hn, acc, fuel, hf => by
    obtain ⟨f, rfl⟩ : ∃ f, fuel = f + 1 := ⟨fuel - 1, by omega⟩
    obtain ⟨m, rfl⟩ : ∃ m, n = m + 1 := ⟨n - 1, by omega⟩
    simp [printBuilds, parseTop, tok, readToken]
  | b :: r, hg, hn, acc, fuel, hf => by
    obtain ⟨f, rfl⟩ : ∃ f, fuel = f + 2 := ⟨fuel - 2, by simp at hf; omega⟩
    obtain ⟨m, rfl⟩ : ∃ m, n = m + 1 := ⟨n - 1, by omega⟩
    have hb := hg b (by simp)
    obtain ⟨X, hXdef⟩ : ∃ X, X = printEdgeThen b ('\n' :: printBuilds r) := ⟨_, rfl⟩
    have hX : eatWs (' ' :: X) = X := by
      rw [hXdef]
      simp only [eatWs]
      exact eatWs_joinQ b.outs hb.outsNe hb.outs.good _
    have htok : tok (m + 1) (kw "build" ++ ' ' :: X) = (.ident (kw "build"), X) := by
      rw [tok_ident m (kw "build") kw_build_ident X, hX]
    have hedge : parseEdge (m + 1) X = .ok (synOf b, '\n' :: printBuilds r) := by
      rw [hXdef]
      exact parseEdge_print (m + 1) b hb ('\n' :: printBuilds r) (by simp [tok_newline])
    have ih := parseTop_printBuilds (m + 1) r (fun x hx => hg x (by simp [hx])) hn (.build (synOf b) :: acc) f
      (by simp at hf ⊢; omega)
    have hnl : tok (m + 1) ('\n' :: printBuilds r) = (.newline, printBuilds r) := tok_newline m _
    simp only [printBuilds]
    rw [← hXdef, show "build".toList = kw "build" from rfl]
    unfold parseTop
    simp only [htok, if_true, hedge]
    unfold parseTop
    simp only [hnl]
    rw [ih]
    simp

/-! ### sizes: the fuel the reader computes from the text is always enough -/

theorem length_quoteChars_ge : ∀ (p : Str), p.length ≤ (quoteChars p).length
  | [] => by simp [quoteChars]
  | c :: r => by
    have := length_quoteChars_ge r
    simp only [quoteChars]
    split <;> simp <;> omega

theorem joinQ_sizes : ∀ (ps : List Str), (∀ p ∈ ps, GoodName p) →
    (∀ p ∈ ps, p.length ≤ (joinQ ps).length) ∧ ps.length ≤ (joinQ ps).length
  | [], _ => by simp [joinQ]
  | [p], hg => by
    have h1 := length_quoteChars_ge p
    have hne : 1 ≤ p.length := by
      have := (hg p (by simp)).1
      cases p with
      | nil => exact absurd rfl this
      | cons _ _ => simp
    refine ⟨?_, ?_⟩
    · intro q hq
      simp at hq
      subst hq
      simpa [joinQ] using h1
    · simp [joinQ]; omega
  | p :: q :: r, hg => by
    have h1 := length_quoteChars_ge p
    obtain ⟨ih1, ih2⟩ := joinQ_sizes (q :: r) (fun x hx => hg x (by simp [hx]))
    refine ⟨?_, ?_⟩
    · intro x hx
      rcases List.mem_cons.1 hx with hx | hx
      · subst hx
        simp [joinQ]; omega
      · have := ih1 x hx
        simp [joinQ] at this ⊢; omega
    · simp [joinQ] at ih2 ⊢; omega

theorem joinQ_le_group (sep : Str) (ps : List Str) : (joinQ ps).length ≤ (group sep ps).length := by
  unfold group
  split
  · next h => subst h; simp [joinQ]
  · simp

def lineSize (b : OutBuild) : Nat :=
  (joinQ b.outs).length + (joinQ b.implOuts).length + (joinQ b.ins).length + (joinQ b.deps).length +
    (joinQ b.orderdeps).length

theorem lineSize_le (b : OutBuild) (rest : Str) : lineSize b + rest.length + 4 ≤ (printEdgeThen b rest).length := by
  have h1 := joinQ_le_group sepPipe b.implOuts
  have h2 := joinQ_le_group sepPipe b.deps
  have h3 := joinQ_le_group sepPipe2 b.orderdeps
  simp only [lineSize, printEdgeThen, List.length_append, List.length_cons]
  omega

theorem printBuilds_sizes : ∀ (bs : List OutBuild),
    (∀ b ∈ bs, lineSize b ≤ (printBuilds bs).length) ∧ 2 * bs.length ≤ (printBuilds bs).length
  | [] => by simp [printBuilds]
  | b :: r => by
    obtain ⟨ih1, ih2⟩ := printBuilds_sizes r
    have h := lineSize_le b ('\n' :: printBuilds r)
    simp only [List.length_cons] at h
    refine ⟨?_, ?_⟩
    · intro x hx
      rcases List.mem_cons.1 hx with hx | hx
      · subst hx
        simp [printBuilds]; omega
      · have := ih1 x hx
        simp [printBuilds]; omega
    · simp [printBuilds]; omega

/-- size-free description of a line the round trip covers -/
structure GoodLine0 (b : OutBuild) : Prop where
  outs : ∀ p ∈ b.outs, GoodName p
  outsNe : b.outs ≠ []
  implOuts : ∀ p ∈ b.implOuts, GoodName p
  rule : IdentName b.rule
  ins : ∀ p ∈ b.ins, GoodName p
  deps : ∀ p ∈ b.deps, GoodName p
  orderdeps : ∀ p ∈ b.orderdeps, GoodName p

theorem fits_of_size (n : Nat) (ps : List Str) (hg : ∀ p ∈ ps, GoodName p) (h : (joinQ ps).length + 1 ≤ n) : Fits n ps := by
  obtain ⟨h1, h2⟩ := joinQ_sizes ps hg
  exact ⟨hg, fun p hp => by have := h1 p hp; omega, by omega⟩

theorem goodLine_of_size (n : Nat) (b : OutBuild) (hb : GoodLine0 b) (h : lineSize b + 1 ≤ n) : GoodLine n b := by
  unfold lineSize at h
  exact ⟨fits_of_size n _ hb.outs (by omega), hb.outsNe, fits_of_size n _ hb.implOuts (by omega), hb.rule,
    fits_of_size n _ hb.ins (by omega), fits_of_size n _ hb.deps (by omega), fits_of_size n _ hb.orderdeps (by omega)⟩

/-- the manifest reader maps the printed build statements back to the statements -/
theorem parse_printBuilds (bs : List OutBuild) (hg : ∀ b ∈ bs, GoodLine0 b) :
    parse (printBuilds bs) = .ok (bs.map (fun b => Stmt.build (synOf b))) := by
  obtain ⟨h1, h2⟩ := printBuilds_sizes bs
  unfold parse
  have := parseTop_printBuilds ((printBuilds bs).length + 1) bs
    (fun b hb => goodLine_of_size _ b (hg b hb) (by have := h1 b hb; omega)) (by omega) [] ((printBuilds bs).length + 1)
    (by omega)
  simpa using this

end MesonModel.Ninja
