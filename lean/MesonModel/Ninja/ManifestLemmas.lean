/-
The build-line quoting of the backend (`ninja_quote`, model `Emit.ninjaQuoteBuild` / `Emit.quoteChars`) against the manifest lexer
(`Manifest.readEval`): what is written for a name is read back as exactly that name — unless the name holds a `|`.
-/
import MesonModel.Ninja.Manifest
import MesonModel.Ninja.Emit
namespace MesonModel.Ninja
open MesonModel.Ninja.Emit

def PlainChar (c : Char) : Prop := c ≠ '\n' ∧ c ≠ '\r' ∧ c ≠ '|'

def isTerm (c : Char) : Prop := c = ' ' ∨ c = ':' ∨ c = '|' ∨ c = '\n'

theorem readEval_term (fuel : Nat) (c0 : Char) (h0 : isTerm c0) (tail : Str) (acc : EvalStr) :
    readEval true (fuel + 1) false (c0 :: tail) acc = .ok (acc.reverse, c0 :: tail) := by
  rcases h0 with h | h | h | h <;> subst h <;> simp [readEval]

theorem readEval_quote : ∀ (s : Str), (∀ c ∈ s, PlainChar c) → ∀ (c0 : Char), isTerm c0 → ∀ (tail : Str) (acc : EvalStr)
    (fuel : Nat), s.length + 1 ≤ fuel →
    readEval true fuel false (quoteChars s ++ c0 :: tail) acc = .ok (acc.reverse ++ s.map Piece.lit, c0 :: tail)
  | [], _, c0, h0, tail, acc, fuel, hf => by
    obtain ⟨f, rfl⟩ : ∃ f, fuel = f + 1 := ⟨fuel - 1, by simp at hf; omega⟩
    simpa [quoteChars] using readEval_term f c0 h0 tail acc
  | c :: r, hs, c0, h0, tail, acc, fuel, hf => by
    obtain ⟨f, rfl⟩ : ∃ f, fuel = f + 1 := ⟨fuel - 1, by simp at hf; omega⟩
    have hr : ∀ d ∈ r, PlainChar d := fun d hd => hs d (by simp [hd])
    have hf' : r.length + 1 ≤ f := by simp at hf; omega
    obtain ⟨hn, hcr, hp⟩ := hs c (by simp)
    by_cases h1 : c = '$'
    · subst h1
      have := readEval_quote r hr c0 h0 tail (.lit '$' :: acc) f hf'
      simp [quoteChars, readEval, this]
    · by_cases h2 : c = ' '
      · subst h2
        have := readEval_quote r hr c0 h0 tail (.lit ' ' :: acc) f hf'
        simp [quoteChars, readEval, this]
      · by_cases h3 : c = ':'
        · subst h3
          have := readEval_quote r hr c0 h0 tail (.lit ':' :: acc) f hf'
          simp [quoteChars, readEval, this]
        · have := readEval_quote r hr c0 h0 tail (.lit c :: acc) f hf'
          simp only [quoteChars, h1, h2, h3, or_self, if_false, List.cons_append]
          unfold readEval
          split <;> simp_all

theorem evalStr_lits (env : List (Str × Str)) (s : Str) : evalStr env (s.map Piece.lit) = s := by
  induction s with
  | nil => rfl
  | cons c r ih => simp [evalStr, ih]

end MesonModel.Ninja
