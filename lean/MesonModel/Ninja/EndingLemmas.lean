/-
Lemmas about the aggregate targets (`Ending.lean`): the attribute the backend reads equals the documented rule, the
prerequisite list of a test is exactly the set of targets it uses, and the statements `generate_ending` /
`generate_install` write satisfy the reachability clauses of C04 for every target table.
-/
import MesonModel.Ninja.Ending
import MesonModel.Ninja.GraphLemmas

namespace MesonModel.Ninja.Ending
open MesonModel.Ninja

/-! ### the documented rule -/

/-- Reference manual: `build_by_default` of a build target defaults to true, and a target that is installed is built by
default; for `custom_target()` an explicit `build_by_default` decides, otherwise `install` does (then the deprecated
`build_always`), otherwise false. -/
def DocBuiltByDefault (t : Target) : Prop :=
  match t.kind with
  | .build => t.bbdKw ≠ some false ∨ t.install = true
  | .custom =>
    match t.bbdKw with
    | some b => b = true
    | none => t.install = true ∨ t.buildAlways = some true

theorem buildByDefault_iff_doc (t : Target) : t.buildByDefault = true ↔ DocBuiltByDefault t := by
  obtain ⟨kind, dir, out0, outRest, bbdKw, install, buildAlways, instMask⟩ := t
  cases kind <;> cases bbdKw with
  | none => cases install <;> cases buildAlways with
    | none => simp [Target.buildByDefault, DocBuiltByDefault]
    | some a => cases a <;> simp [Target.buildByDefault, DocBuiltByDefault]
  | some b => cases b <;> cases install <;> cases buildAlways with
    | none => simp [Target.buildByDefault, DocBuiltByDefault]
    | some a => cases a <;> simp [Target.buildByDefault, DocBuiltByDefault]

/-- whatever the install step copies unconditionally for a target belongs to a target that is built by default -/
theorem mandatoryInstall_builtByDefault (t : Target) (p : Str) (hp : p ∈ mandatoryInstall t) :
    t.buildByDefault = true := by
  unfold mandatoryInstall at hp
  by_cases hi : t.install = true
  · simp only [hi, Bool.not_true, Bool.false_eq_true, if_false] at hp
    cases hk : t.kind with
    | build =>
      rw [buildByDefault_iff_doc]
      simp only [DocBuiltByDefault, hk]
      exact .inr hi
    | custom =>
      rw [hk] at hp
      by_cases hb : t.buildByDefault = true
      · exact hb
      · simp [hb] at hp
  · simp [hi] at hp

theorem firstPath_mem_paths (t : Target) : t.firstPath ∈ t.paths := by
  simp [Target.firstPath, Target.paths, Target.outputs]

theorem maskedPaths_subset (t : Target) (p : Str) (hp : p ∈ maskedPaths t) : p ∈ t.paths := by
  simp only [maskedPaths, List.mem_map, List.mem_filter] at hp
  obtain ⟨⟨o, i⟩, ⟨hmem, _⟩, rfl⟩ := hp
  obtain ⟨_, hlt, heq⟩ := List.mem_zipIdx hmem
  simp only [Target.paths, List.mem_map]
  exact ⟨o, heq ▸ List.getElem_mem _, rfl⟩

theorem mandatoryInstall_subset (t : Target) (p : Str) (hp : p ∈ mandatoryInstall t) : p ∈ t.paths := by
  unfold mandatoryInstall at hp
  by_cases hi : t.install = true
  · simp only [hi, Bool.not_true, Bool.false_eq_true, if_false] at hp
    cases hk : t.kind with
    | build =>
      rw [hk] at hp
      simp only [List.mem_singleton] at hp
      rw [hp]
      exact firstPath_mem_paths t
    | custom =>
      rw [hk] at hp
      by_cases hb : t.buildByDefault = true
      · simp only [hb, if_true] at hp
        exact maskedPaths_subset t p hp
      · simp [hb] at hp
  · simp [hi] at hp

/-! ### what a test uses = what `get_testlike_targets` yields -/

/-- the target a program / argument reference stands for -/
inductive Denotes : Ref → Target → Prop
  | target (t) : Denotes (.target t) t
  | index (t) : Denotes (.index t) t
  | localTarget (t) : Denotes (.localTarget t) t
  | localIndex (t) : Denotes (.localIndex t) t

inductive DDenotes : DRef → Target → Prop
  | target (t) : DDenotes (.target t) t
  | index (t) : DDenotes (.index t) t

/-- the targets a test runs or depends on: its program, the targets among its arguments (directly, as an output index,
or through a `find_program` override), its `depends:` -/
def Uses (x : Test) (t : Target) : Prop :=
  Denotes x.exe t ∨ (∃ a ∈ x.args, Denotes a t) ∨ (∃ d ∈ x.depends, DDenotes d t)

theorem mem_yield_unwrap_iff (r : Ref) (t : Target) : t ∈ yieldOf (unwrap r) ↔ Denotes r t := by
  cases r <;> simp only [unwrap, yieldOf, List.mem_singleton, List.not_mem_nil] <;>
    first
    | (constructor
       · intro h; subst h; constructor
       · intro h; cases h; rfl)
    | (constructor
       · intro h; exact h.elim
       · intro h; cases h)

theorem mem_yieldDep_iff (d : DRef) (t : Target) : t ∈ yieldDep d ↔ DDenotes d t := by
  cases d <;> simp only [yieldDep, List.mem_singleton] <;>
    (constructor
     · intro h; subst h; constructor
     · intro h; cases h; rfl)

theorem mem_testlikeOne_iff (x : Test) (t : Target) : t ∈ testlikeOne x ↔ Uses x t := by
  simp only [testlikeOne, List.mem_append, List.mem_flatMap, mem_yield_unwrap_iff, mem_yieldDep_iff, Uses, or_assoc]

/-- `get_testlike_targets` is sound and complete for `Uses` -/
theorem mem_testlike_iff (tests : List Test) (t : Target) : t ∈ testlike tests ↔ ∃ x ∈ tests, Uses x t := by
  simp only [testlike, List.mem_flatMap, mem_testlikeOne_iff]

/-! ### reachability -/

/-- the statement(s) written for the target itself (`generate_target` / `generate_custom_target`): one statement has
every output of the target among its outputs -/
def Produces (es : List (Edge Str)) (t : Target) : Prop := ∃ e ∈ es, ∀ p ∈ t.paths, p ∈ e.outs

theorem need_of_phony {es : List (Edge Str)} {name : Str} {ins : List Str} (h : phonyEdge name ins ∈ es) {i : Str}
    (hi : i ∈ ins) : Need es name i :=
  ⟨_, h, by simp [phonyEdge], by simp [phonyEdge, Edge.touched, hi]⟩

theorem need_sibling {es : List (Edge Str)} {t : Target} (hp : Produces es t) {p : Str} (hpp : p ∈ t.paths) :
    Need es t.firstPath p := by
  obtain ⟨e, he, hall⟩ := hp
  exact ⟨e, he, hall _ (firstPath_mem_paths t), by simp [Edge.touched, hall _ hpp]⟩

/-- a phony aggregate that lists the first output of `t` makes every output of `t` reachable -/
theorem aggregate_reaches {es : List (Edge Str)} {name : Str} {ts : List Target} (h : phonyEdge name (ts.map (·.firstPath)) ∈ es)
    {t : Target} (ht : t ∈ ts) (hp : Produces es t) {p : Str} (hpp : p ∈ t.paths) : Star (Need es) name p :=
  .tail (.tail .refl (need_of_phony h (List.mem_map.2 ⟨t, ht, rfl⟩))) (need_sibling hp hpp)

theorem star_trans {β : Type} {R : β → β → Prop} {a b c : β} (p : Star R a b) (q : Star R b c) : Star R a c := by
  induction q with
  | refl => exact p
  | tail _ h ih => exact .tail ih h

theorem install_reaches_all {es : List (Edge Str)} (h : ∀ e ∈ installEdges, e ∈ es) : Star (Need es) installName allName := by
  have h1 : Need es installName installInternalName :=
    need_of_phony (ins := [installInternalName]) (h _ (List.mem_cons_self ..)) (List.mem_singleton.2 rfl)
  have h2 : Need es installInternalName allName :=
    ⟨_, h _ (List.mem_cons_of_mem _ (List.mem_singleton.2 rfl)), List.mem_singleton.2 rfl, by simp [Edge.touched]⟩
  exact .tail (.tail .refl h1) h2

theorem allEdge_mem (tbl : List Target) (tests benches : List Test) :
    phonyEdge allName ((buildByDefaultTargets tbl).map (·.firstPath)) ∈ endingEdges tbl tests benches :=
  List.mem_cons_self ..

theorem testEdge_mem (tbl : List Target) (tests benches : List Test) :
    phonyEdge testPrereqName ((testlike tests).map (·.firstPath)) ∈ endingEdges tbl tests benches :=
  List.mem_cons_of_mem _ (List.mem_cons_self ..)

theorem benchEdge_mem (tbl : List Target) (tests benches : List Test) :
    phonyEdge benchPrereqName ((testlike benches).map (·.firstPath)) ∈ endingEdges tbl tests benches :=
  List.mem_cons_of_mem _ (List.mem_cons_of_mem _ (List.mem_cons_self ..))

end MesonModel.Ninja.Ending
