import MesonModel.Life.Model
import MesonModel.Options.MergeLemmas
/-
Helper lemmas for C08: a failing setup / reconfigure / configure never changes the persisted state,
`--wipe` only reads cmd_line.txt and the option files, and the effect of one `update_project_options` entry.
-/
namespace MesonModel.Life
open MesonModel.Options MesonModel.Options.M

/-! ## failures -/

theorem commitFirst_failed (d : Dir) (so user : Dict) (r : Except Err Interp) (e : Err) (l : Bool)
    (h : (commitFirst d so user r).2 = .failed e l) : (commitFirst d so user r).1 = d := by
  cases r with
  | error e' => rfl
  | ok r =>
    simp only [commitFirst] at *
    split at h
    · simp_all
    · split at h <;> simp_all

theorem commitReconf_failed (d : Dir) (nd user : Dict) (r : Except Err Interp) (e : Err) (l : Bool)
    (h : (commitReconf d nd user r).2 = .failed e l) : (commitReconf d nd user r).1 = d := by
  cases r with
  | error e' => rfl
  | ok r =>
    simp only [commitReconf] at *
    split at h
    · simp_all
    · split at h <;> simp_all

theorem commitConf_failed (d : Dir) (c : Core) (args : List (Key × Option Val)) (files : List (Str × Option Bool × Defs))
    (r : Except Err Bool × Store) (e : Err) (l : Bool)
    (h : (commitConf d c args files r).2 = .failed e l) : (commitConf d c args files r).1 = d := by
  obtain ⟨r, s⟩ := r
  cases r with
  | error e' => rfl
  | ok b =>
    simp only [commitConf] at *
    split at h <;> simp_all

theorem firstInvocation_failed (d : Dir) (so : Dict) (e : Err) (l : Bool)
    (h : (firstInvocation d so).2 = .failed e l) : (firstInvocation d so).1 = d :=
  commitFirst_failed _ _ _ _ _ _ h

theorem reconfigure_failed (d : Dir) (c : Core) (nd : Dict) (e : Err) (l : Bool)
    (h : (reconfigure d c nd).2 = .failed e l) : (reconfigure d c nd).1 = d := by
  unfold reconfigure at *
  split at h
  · rfl
  · exact commitReconf_failed _ _ _ _ _ _ h

theorem configure_failed (d : Dir) (args : List (Key × Option Val)) (e : Err) (l : Bool)
    (h : (configure d args).2 = .failed e l) : (configure d args).1 = d := by
  unfold configure at *
  cases hc : d.core with
  | none => simp
  | some c =>
    simp only [hc] at h ⊢
    by_cases hne : args.isEmpty = true
    · simp [hne] at h
    · rw [if_neg hne] at h ⊢
      cases hr : reloadChanged d c.optFiles c.store with
      | mk r s1 =>
        cases r with
        | error e' => simp
        | ok files =>
          simp only [hr] at h ⊢
          exact commitConf_failed _ _ _ _ _ _ _ h

/-! ## cmd_line.txt -/

theorem ainsert_of_mem {κ α : Type} [DecidableEq κ] (k : κ) (v : α) :
    ∀ (l : List (κ × α)), (k, v) ∈ l → (l.map Prod.fst).Nodup → ainsert k v l = l
  | [], h, _ => by cases h
  | (k', v') :: r, h, hn => by
    simp only [List.map_cons, List.nodup_cons] at hn
    by_cases hk : k' = k
    · subst hk
      rcases List.mem_cons.mp h with h | h
      · cases h; simp [ainsert]
      · exact absurd (List.mem_map_of_mem (f := Prod.fst) h) hn.1
    · rcases List.mem_cons.mp h with h | h
      · cases h; exact absurd rfl hk
      · simp [ainsert, hk, ainsert_of_mem k v r h hn.2]

theorem mergeCmd_sub (f : Dict) (hn : (f.map Prod.fst).Nodup) :
    ∀ (l : Dict), (∀ p ∈ l, p ∈ f) → mergeCmd f l = f := by
  intro l
  unfold mergeCmd
  induction l with
  | nil => intro _; rfl
  | cons p r ih =>
    intro h
    simp only [List.foldl_cons]
    rw [ainsert_of_mem p.1 p.2 f (h p (List.mem_cons_self ..)) hn]
    exact ih (fun q hq => h q (List.mem_cons_of_mem _ hq))

/-- re-reading cmd_line.txt over its own content changes nothing -/
theorem mergeCmd_self (f : Dict) (hn : (f.map Prod.fst).Nodup) : mergeCmd f f = f :=
  mergeCmd_sub f hn f (fun _ h => h)

end MesonModel.Life
