import MesonModel.Options.Model
/-
Executable model of the build-directory lifecycle of option state (property C08), on top of the C07 model of
`OptionStore` (`MesonModel.Options`).  Core Lean only.

What is modelled, construct by construct
----------------------------------------
* **The persisted state** `Dir`: the option files of the source tree (`top`, `sub` — a top-level project and a
  subproject `sub` — and any number of further subprojects `more`), `meson-private/coredata.dat` (`core`: the pickled `OptionStore`, `CoreData.options_files`
  — the recorded option-file hashes, rendered as the recorded *content* —, `CoreData.initialized_subprojects`),
  `meson-private/cmd_line.txt` (`cmdline`: the `[options]` section in file order) and
  `meson-info/intro-buildoptions.json` (`intro`: what `meson introspect --buildoptions` prints).
* **The commands** `Cmd` and `step : Dir → Cmd → Dir × Out`:
  `meson setup`, `meson configure -D / -U`, `meson setup --reconfigure`, `meson setup --wipe`
  (msetup.py `MesonApp.__init__`/`validate_dirs`/`generate`/`_generate`, mconf.py `Conf.__init__`/`run_impl`,
  cmdline.py `read_cmd_line_file`/`write_cmd_line_file`/`update_cmd_line_file`, environment.py
  `Environment.__init__` (load or create coredata), coredata.py `save` (+ `.prev`), interpreterbase.py
  `_load_option_file`, interpreter.py `func_project`/`func_get_option`), and edits of an option file.
* **The project** that is configured is the fixed test tree of harness/c08.py: each `meson.build` prints
  `get_option(n)` for every option `n` of its current option file and for `warning_level`; the top-level one then
  runs `if get_option('boom') error() endif`, `if get_option('boom_late') meson.add_postconf_script('false') endif`
  and `subproject('sub')`.  `boom` makes the interpretation fail *before* anything is written, `boom_late` makes
  the command fail in `run_postconf_scripts`, i.e. *after* coredata.dat, cmd_line.txt and the introspection files
  were written (the rollback path of msetup.py:340-348).
* A failing process loses its in-memory store: only files persist.  `coredata.save` copies the old file to
  `coredata.dat.prev` before writing and the rollback moves it back, so a rolled-back `core` is exactly the old
  `core`; when there was no old file the new one is unlinked.  cmd_line.txt and intro-buildoptions.json are
  snapshotted before they are rewritten and restored (or removed) by the same rollback.

`project(default_options:)` / `subproject(default_options:)` are fixed parts of the tree (`Dir.pdoTop`, `pdoSub`,
`spcall`).  Not modelled: machine files and environment variables (empty), `set_backend` (every `setup` command of the harness passes `--backend=none`, for which no backend option
is added), languages/compilers (none), everything else in coredata.
-/
namespace MesonModel.Life
open MesonModel.Options MesonModel.Options.M MesonModel.Py

/-- an option file: option name ↦ constructor arguments, in file order -/
abbrev Defs := List (Str × ObjSpec)

def sSub : Str := "sub".toList
def sBoom : Str := "boom".toList
def sBoomLate : Str := "boom_late".toList
def sWarningLevel : Str := "warning_level".toList

/-- `OptionKey(name, subproject=proj)`; the top-level project is `proj = ""` -/
def projKey (proj name : Str) : Key := { name := name, sub := some proj, machine := .host }

/-- `OptionInterpreter(optstore, proj).process(file)`: the dict `oi.options` (objects are built by `mkObjs`) -/
def fileObjs (proj : Str) (defs : Defs) : List (Key × ObjSpec) := defs.map (fun p => (projKey proj p.1, p.2))

/-- coredata.dat, as far as options are concerned -/
structure Core where
  store : Store
  /-- `CoreData.options_files`: per project the recorded option file (`none`: there was none; `some false` =
  meson.options, `some true` = meson_options.txt) and its content (standing for the sha1) -/
  optFiles : List (Str × Option Bool × Defs) := []
  initialized : List Str := []
  deriving DecidableEq, Repr, Inhabited

/-- a further subproject of the test tree (`subproject(name)` calls after `subproject('sub')`, in list order): its
option file, which file name exists, `project(name, default_options:)` and `subproject(name, default_options:)` -/
structure Extra where
  name : Str
  defs : Defs
  file : Option Bool := some false
  pdo : Dict := []
  spcall : Dict := []
  deriving DecidableEq, Repr, Inhabited

/-- the declarations the interpreter reads: none when the option file does not exist -/
def Extra.eff (x : Extra) : Defs := if x.file.isSome then x.defs else []

structure Dir where
  top : Defs
  sub : Defs
  /-- which option file of the project exists: `none` = none, `some false` = meson.options, `some true` =
  meson_options.txt; its declarations are `top` / `sub` (kept while the file is absent, for a later re-creation) -/
  topFile : Option Bool := some false
  subFile : Option Bool := some false
  /-- `project('top', default_options: …)`, `project('sub', default_options: …)` and
  `subproject('sub', default_options: …)` of the build files (never edited by a history) -/
  pdoTop : Dict := []
  pdoSub : Dict := []
  spcall : Dict := []
  /-- the subprojects after `sub` (any number; several projects may declare options of the same name and the same
  definition) -/
  more : List Extra := []
  core : Option Core := none
  /-- coredata.dat exists but cannot be unpickled (`core = none` then): `Environment.__init__` regenerates the
  configuration from cmd_line.txt on the next `setup --reconfigure` -/
  corrupt : Bool := false
  cmdline : Option Dict := none
  intro : Option Store := none
  deriving DecidableEq, Repr, Inhabited

/-- the declarations the interpreter reads: none when the option file does not exist -/
def Dir.topEff (d : Dir) : Defs := if d.topFile.isSome then d.top else []
def Dir.subEff (d : Dir) : Defs := if d.subFile.isSome then d.sub else []

/-- the same source tree with an empty build directory -/
def Dir.emptied (d : Dir) : Dir := { d with core := none, corrupt := false, cmdline := none, intro := none }

/-- the persisted triple of the property statement: coredata, cmd_line.txt, option files (and the introspection file) -/
def Dir.fresh (top sub : Defs) : Dir := { top := top, sub := sub }

/-- an edit of the option file of a further subproject -/
inductive XEdit where
  | set (name : Str) (sp : ObjSpec)
  | remove (name : Str)
  | file (f : Option Bool)
  deriving Repr, Inhabited

inductive Cmd where
  | setup (d : Dict)
  | configure (args : List (Key × Option Val))
  | reconfigure (d : Dict)
  | wipe (d : Dict)
  | editSet (inSub : Bool) (name : Str) (sp : ObjSpec)
  | editRemove (inSub : Bool) (name : Str)
  /-- coredata.dat is damaged (truncated) behind meson's back -/
  | corrupt
  /-- delete (`none`), re-create or rename (`some false` = meson.options, `some true` = meson_options.txt) the option
  file of the top-level project / the subproject -/
  | fileSet (inSub : Bool) (f : Option Bool)
  /-- the same three edits on the option file of a further subproject (`Dir.more`), addressed by its name -/
  | extra (proj : Str) (e : XEdit)
  deriving Repr, Inhabited

/-- what the user sees: exit status, and for a (re)configuration the `get_option()` values the build files read -/
inductive Out where
  | ok (msgs : List (Str × Str × Val))
  | failed (e : Err) (late : Bool)
  deriving DecidableEq, Repr, Inhabited

def Out.isOk : Out → Bool
  | .ok _ => true
  | .failed _ _ => false

/-! ## interpretation of the test tree -/

/-- `InterpreterBase._load_option_file`: `update_project_options(oi.options, proj)`; for a missing option file the
call is made with no declarations (`defs = []`) — emptiness is not special-cased anywhere -/
def loadOptionFile (proj : Str) (defs : Defs) : M Unit := do
  let os ← ofExcept (mkObjs (fileObjs proj defs))
  updateProjectOptions proj os

/-- `get_option(name)` inside project `proj` (interpreter.py:1161-1186; a `KeyError` becomes a `MesonException`) -/
def getOption (proj name : Str) : M Val := fun s =>
  match getValueFor s (projKey proj name) with
  | .ok v => (.ok v, s)
  | .error .key => (.error .meson, s)
  | .error e => (.error e, s)

/-- the `message(get_option(n))` lines of one `meson.build` -/
def readAll (proj : Str) : List Str → M (List (Str × Str × Val))
  | [] => M.pure []
  | n :: r => M.bind (getOption proj n) (fun v => M.bind (readAll proj r) (fun l => M.pure ((proj, n, v) :: l)))

/-- `if get_option(n)`: anything but a boolean is an interpreter error -/
def condOption (proj name : Str) : M Bool :=
  M.bind (getOption proj name) (fun v => match v with | .bool b => M.pure b | _ => fail .meson)

structure Interp where
  core : Core
  msgs : List (Str × Str × Val)
  late : Bool
  deriving Repr, Inhabited

/-- the `default_options` entries the generated build files carry: those naming an option the option file declares
(and every `sub:…` / builtin entry) -/
def presentPdo (defs : Defs) (pdo : Dict) : Dict :=
  pdo.filter (fun p => p.1.sub.isSome || defs.any (fun q => q.1 == p.1.name))

/-- `if get_option(n) … endif` is generated only when the option file declares `n` -/
def condIfDeclared (defs : Defs) (proj name : Str) : M Bool :=
  if defs.any (fun q => q.1 == name) then condOption proj name else M.pure false

/-- `subproject(x.name)` for the further subprojects, in order: option file, (first time only) default_options and
the command line, the `message(get_option(n))` lines -/
def interpExtras (first : Bool) (initialized : List Str) (cmd : Dict) : List Extra → M (List (Str × Str × Val))
  | [] => M.pure []
  | x :: r =>
    M.bind (loadOptionFile x.name x.eff) (fun _ =>
    M.bind (if first || !(initialized.contains x.name)
            then initSub x.name (presentPdo x.eff x.spcall) (presentPdo x.eff x.pdo) cmd [] else M.pure ()) (fun _ =>
    M.bind (readAll x.name (x.eff.map (·.1) ++ [sWarningLevel])) (fun m =>
    M.bind (interpExtras first initialized cmd r) (fun l => M.pure (m ++ l)))))

/-- `intr.run()` on the test tree as a store computation -/
def interpProg (first : Bool) (initialized : List Str) (top sub : Defs) (pdoTop pdoSub spcall cmd : Dict)
    (more : List Extra := []) : M (List (Str × Str × Val) × Bool) := do
  -- project('top'): option file, then (first invocation only) default_options and the command line
  loadOptionFile [] top
  if first then initTop (presentPdo top pdoTop) cmd [] else M.pure ()
  let m1 ← readAll [] (top.map (·.1) ++ [sWarningLevel])
  let boom ← condIfDeclared top [] sBoom
  if boom then fail .meson else M.pure ()
  let late ← condIfDeclared top [] sBoomLate
  -- subproject('sub')
  loadOptionFile sSub sub
  if first || !(initialized.contains sSub) then initSub sSub (presentPdo sub spcall) (presentPdo sub pdoSub) cmd [] else M.pure ()
  let m2 ← readAll sSub (sub.map (·.1) ++ [sWarningLevel])
  let m3 ← interpExtras first initialized cmd more
  M.pure (m1 ++ m2 ++ m3, late)

def interpret (first : Bool) (c : Core) (d : Dir) (cmd : Dict) : Except Err Interp :=
  let top := d.topEff
  let sub := d.subEff
  match interpProg first c.initialized top sub d.pdoTop d.pdoSub d.spcall cmd d.more c.store with
  | (.ok (msgs, late), s') =>
    .ok { core := { store := s', optFiles := [([], d.topFile, top), (sSub, d.subFile, sub)] ++
                      d.more.map (fun x => (x.name, x.file, x.eff)),
                    initialized := (d.more.map (·.name)).foldl (fun acc n => setAdd n acc) (setAdd sSub c.initialized) },
          msgs := msgs, late := late }
  | (.error e, _) => .error e

/-- one iteration of `MesonApp.check_unused_options` (all subprojects of the test tree are found) -/
def unusedOk (s : Store) (known : List Str) (k : Key) : Bool :=
  ahas (ensureKey s k) s.options || ahas (ensureKey s k.global) s.options || acceptAsPending k false ||
  (match k.sub with
   | some (c :: cs) => !(known.contains (c :: cs))
   | _ => false) ||
  (k.sub.isNone && s.isProjectOption k.asRoot)

def checkUnused (s : Store) (cmd : Dict) (known : List Str := [sSub]) : Bool := cmd.all (fun p => unusedOk s known p.1)

/-- the subprojects of the tree -/
def Dir.known (d : Dir) : List Str := sSub :: d.more.map (·.name)

/-! ## cmd_line.txt -/

/-- `d.update(new)` / `config['options'][k] = v` for every new entry -/
def mergeCmd (file new : Dict) : Dict := new.foldl (fun acc p => ainsert p.1 p.2 acc) file

/-- `update_cmd_line_file`: `-D` sets the entry, `-U` deletes it -/
def updateCmd (file : Dict) (args : List (Key × Option Val)) : Dict :=
  args.foldl (fun acc p => match p.2 with | some v => ainsert p.1 v acc | none => aerase p.1 acc) file

def dArgs (d : Dict) : List (Key × Option Val) := d.map (fun p => (p.1, some p.2))

/-! ## the commands -/

/-- `CoreData.__init__` of a native build -/
def newCore : Core := { store := (initBuiltins (Store.new false)).2 }

/-- the `-D` dict the interpreter sees: `read_cmd_line_file` merges the new arguments over cmd_line.txt -/
def userOpts (d : Dir) (new : Dict) : Dict :=
  match d.cmdline with
  | some f => mergeCmd f new
  | none => new

/-- the part of `_generate` after `intr.run()` on a first invocation: dump coredata, check for unused options,
`write_cmd_line_file(self.options)`, introspection files, postconf scripts; on an exception the new coredata.dat is
unlinked (there is no `.prev`) and cmd_line.txt / intro-buildoptions.json are put back to the content they had
before (`option_records` in `_generate`), or removed -/
def commitFirst (d : Dir) (selfOpts user : Dict) : Except Err Interp → Dir × Out
  | .error e => (d, .failed e false)
  | .ok r =>
    if !(checkUnused r.core.store user d.known) then (d, .failed .meson false)     -- dumped, then unlinked again
    else if r.late then (d, .failed .meson true)     -- everything written is taken back (see below)
    else
      ({ d with core := some r.core, corrupt := false, cmdline := some selfOpts, intro := some r.core.store }, .ok r.msgs)

/-- `Environment.__init__` found no coredata.dat: configuration from scratch.  `selfOpts` is
`self.options.cmd_line_options` (what `write_cmd_line_file` records), the interpreter gets it merged over an
existing cmd_line.txt (`_generate`: `read_cmd_line_file(self.build_dir, user_defined_options)`). -/
def firstInvocation (d : Dir) (selfOpts : Dict) : Dir × Out :=
  commitFirst d selfOpts (userOpts d selfOpts) (interpret true newCore d (userOpts d selfOpts))

/-- the part of `_generate` after `intr.run()` on a reconfiguration: `update_cmd_line_file(self.options)`; on an
exception coredata.dat is restored from coredata.dat.prev -/
def commitReconf (d : Dir) (newD user : Dict) : Except Err Interp → Dir × Out
  | .error e => (d, .failed e false)
  | .ok r =>
    if !(checkUnused r.core.store user d.known) then (d, .failed .meson false)   -- dumped, rolled back from `.prev`
    else
      let cl := match d.cmdline with | some f => updateCmd f (dArgs newD) | none => newD
      if r.late then (d, .failed .meson true)         -- coredata.dat.prev, cmd_line.txt and the intro file are put back
      else
        ({ d with core := some r.core, cmdline := some cl, intro := some r.core.store }, .ok r.msgs)

/-- `meson setup --reconfigure -D…` on a directory with a loadable coredata.dat: the new arguments are applied by
`set_from_configure_command` before the build files (and the option files) are read -/
def reconfigure (d : Dir) (c : Core) (newD : Dict) : Dir × Out :=
  match setFromConfigureCommand (dArgs newD) c.store with
  | (.error e, _) => (d, .failed e false)
  | (.ok _, s1) => commitReconf d newD (userOpts d newD) (interpret false { c with store := s1 } d (userOpts d newD))

/-- file name state / declarations of project `p` (`[]` = top level, a name of `more`, else `sub`) -/
def Dir.fileOf (d : Dir) (p : Str) : Option Bool :=
  if p == [] then d.topFile else match d.more.find? (fun x => x.name == p) with | some x => x.file | none => d.subFile
def Dir.defsOf (d : Dir) (p : Str) : Defs :=
  if p == [] then d.top else match d.more.find? (fun x => x.name == p) with | some x => x.defs | none => d.sub

/-- `Conf.__init__` (mconf.py:92-114), one entry of `options_files`: when the recorded file still exists it is
re-read if its hash differs; otherwise (no file recorded, or the recorded path is gone: deleted or renamed) mconf
looks for `meson.options` / `meson_options.txt` **in the top-level source directory** — also for a subproject — and
re-reads that with the entry's subproject name, or calls `update_project_options({}, sub)` when there is none -/
def reloadChanged (d : Dir) : List (Str × Option Bool × Defs) → M (List (Str × Option Bool × Defs))
  | [] => M.pure []
  | (p, recF, rec) :: r =>
    let curF := d.fileOf p
    let cur := d.defsOf p
    if recF.isSome && curF == recF then
      if cur != rec then
        M.bind (loadOptionFile p cur) (fun _ => M.bind (reloadChanged d r) (fun l => M.pure ((p, recF, cur) :: l)))
      else M.bind (reloadChanged d r) (fun l => M.pure ((p, recF, rec) :: l))
    else
      M.bind (loadOptionFile p d.topEff) (fun _ => M.bind (reloadChanged d r) (fun l =>
        M.pure ((if d.topFile.isSome then (p, d.topFile, d.top) else (p, recF, rec)) :: l)))

/-- `run_impl` after `set_from_configure_command`: `update_cmd_line_file`, and `save` + introspection only when dirty -/
def commitConf (d : Dir) (c : Core) (args : List (Key × Option Val)) (files : List (Str × Option Bool × Defs)) :
    Except Err Bool × Store → Dir × Out
  | (.error e, _) => (d, .failed e false)
  | (.ok dirty, s2) =>
    let cl := match d.cmdline with | some f => updateCmd f args | none => updateCmd [] args
    if dirty then
      ({ d with core := some { c with store := s2, optFiles := files }, cmdline := some cl, intro := some s2 }, .ok [])
    else ({ d with cmdline := some cl }, .ok [])

/-- `meson configure` with -D and -U (mconf.run_impl) -/
def configure (d : Dir) (args : List (Key × Option Val)) : Dir × Out :=
  match d.core with
  | none => (d, .failed .meson false)            -- no build.dat / coredata.dat
  | some c =>
    if args.isEmpty then (d, .ok []) else         -- print only
    match reloadChanged d c.optFiles c.store with
    | (.error e, _) => (d, .failed e false)
    | (.ok files, s1) => commitConf d c args files (setFromConfigureCommand args s1)

def editDefs (defs : Defs) (name : Str) : Option ObjSpec → Defs
  | some sp => ainsert name sp defs
  | none => aerase name defs

def XEdit.apply (x : Extra) : XEdit → Extra
  | .set n sp => { x with defs := editDefs x.defs n (some sp) }
  | .remove n => { x with defs := editDefs x.defs n none }
  | .file f => { x with file := f }

def step (d : Dir) : Cmd → Dir × Out
  | .setup newD =>
    match d.core with
    | some _ => configure d (dArgs newD)        -- "Directory already configured": mconf.run_impl
    | none =>
      if d.corrupt then (d, .failed .meson false)  -- mconf.run_impl -> build.load -> "Coredata file … is corrupted"
      -- `MesonApp.generate`: no coredata.dat — a partial build directory may still hold cmd_line.txt (a `--wipe`
      -- that failed): it is read into `self.options` before the configuration is created
      else firstInvocation d (userOpts d newD)
  | .reconfigure newD =>
    match d.core with
    | some c => reconfigure d c newD
    | none =>
      -- a corrupt coredata.dat: `Environment.__init__` merges cmd_line.txt into `self.options` and starts from scratch;
      -- `coredata.save` copies the corrupt file to `.prev`, so a failure puts the corrupt file back
      -- (and without coredata.dat `MesonApp.generate` reads cmd_line.txt into `self.options` itself)
      firstInvocation d (userOpts d newD)
  | .wipe newD =>
    -- MesonApp.__init__: read_cmd_line_file into self.options, empty the directory, restore cmd_line.txt
    firstInvocation { d with core := none, corrupt := false, intro := none }
      (match d.cmdline with | some f => mergeCmd f newD | none => newD)
  | .corrupt =>
    (if d.core.isSome || d.corrupt then { d with core := none, corrupt := true } else d, .ok [])
  | .fileSet inSub f =>
    (if inSub then { d with subFile := f } else { d with topFile := f }, .ok [])
  | .configure args => configure d args
  | .editSet inSub name sp =>
    (if inSub then { d with sub := editDefs d.sub name (some sp) } else { d with top := editDefs d.top name (some sp) }, .ok [])
  | .editRemove inSub name =>
    (if inSub then { d with sub := editDefs d.sub name none } else { d with top := editDefs d.top name none }, .ok [])
  | .extra proj e =>
    ({ d with more := d.more.map (fun x => if x.name == proj then e.apply x else x) }, .ok [])

/-- directory after a history -/
def runHist (d : Dir) : List Cmd → Dir
  | [] => d
  | c :: r => runHist (step d c).1 r

/-- directory and outcome after every step -/
def trace (d : Dir) : List Cmd → List (Dir × Out)
  | [] => []
  | c :: r => let x := step d c; x :: trace x.1 r

/-! ## observations -/

/-- the effective value `get_option(name)` would return in project `proj` from the persisted store -/
def Dir.eff (d : Dir) (proj name : Str) : Option (Except Err Val) :=
  d.core.map (fun c => getValueFor c.store (projKey proj name))

/-- project-option keys of the persisted store -/
def Core.projectKeys (c : Core) : List Key := (c.store.options.map (·.1)).filter c.store.isProjectOption

end MesonModel.Life
