import MesonModel.Life.ParentCurrent
/-
Frame of `OptionStore.update_project_options` over OBJECT IDENTITIES (property C08).

The store model has a heap: an option object is an index, `parent : Option Nat` is a pointer.  Python's
`child.parent is oldval` is equality of indices.  Two distinct objects may have equal *definitions* (a top-level
option and the non-yielding option of the same name, type, description and choices in some subproject): whatever
`update_project_options(…, P)` does to parent links it may only do to the children of the very objects that were
registered under keys of project `P` (replaced or removed) — never to the children of an *equal* object of another
project.

* `update_project_options_frame`: for ALL stores, projects and declaration lists, an object of the heap is left
  exactly as it was (value, yielding flag, parent link) unless its parent pointer is the id of an object that is —
  at entry or allocated during the call — registered under a key of project `P`.
* `update_project_options_frame_other_project`: under `Wf` (distinct keys own distinct objects), the children of an
  object registered under a key of ANOTHER project are untouched; `…_child_of_top_level`: with `ParentCurrent`, an
  update of a subproject's options never touches an option that inherits from a top-level option.
* `childrenOfEq_counterexample`: the variant that finds the children by `==` on the definition is refuted on a
  three-project witness (top-level option, equal non-yielding twin in `alt`, inheriting child in `sub`): removing or
  re-declaring the twin cuts the child of the OTHER subproject off its parent / re-points it to the twin.
-/
namespace MesonModel.Options
open M
set_option linter.unusedSimpArgs false
set_option linter.unusedVariables false

/-- every object of `s` is unchanged in `s'`, except children of the objects `ids` -/
def ObjsKept (ids : Nat → Prop) (s s' : Store) : Prop :=
  ∀ (i : Nat) (c : Obj), s.heap[i]? = some c → s'.heap[i]? = some c ∨ ∃ pid, c.parent = some pid ∧ ids pid

/-- the ids that belong to project `sub` during an update: registered under one of its keys, or not yet allocated -/
def SubIds (sub : Str) (s : Store) (pid : Nat) : Prop :=
  (∃ k, k.sub = some sub ∧ (k, pid) ∈ s.options) ∨ s.heap.length ≤ pid

theorem ObjsKept.refl (ids : Nat → Prop) (s : Store) : ObjsKept ids s s := fun _ _ h => Or.inl h

theorem ObjsKept.trans {ids ids' : Nat → Prop} {a b c : Store} (h1 : ObjsKept ids a b) (h2 : ObjsKept ids' b c)
    (hm : ∀ p, ids' p → ids p) : ObjsKept ids a c := by
  intro i o ho
  rcases h1 i o ho with h | h
  · rcases h2 i o h with h' | ⟨pid, hp, hi⟩
    · exact Or.inl h'
    · exact Or.inr ⟨pid, hp, hm pid hi⟩
  · exact Or.inr h

theorem getElem?_append_old {α : Type} (l : List α) (x : α) (i : Nat) (c : α) (h : l[i]? = some c) :
    (l ++ [x])[i]? = some c := by
  have hl : i < l.length := (List.getElem?_eq_some_iff.mp h).1
  rw [List.getElem?_append_left hl]; exact h

/-- the store after `alloc; options[key] := nid; repointChildren oid nid` keeps every object whose parent is not `oid` -/
theorem replacedStore_kept (s : Store) (key : Key) (n' : Obj) (oid : Nat) (i : Nat) (c : Obj)
    (h : s.heap[i]? = some c) (hp : c.parent ≠ some oid) : (replacedStore s key n' oid).heap[i]? = some c := by
  simp only [replacedStore, List.getElem?_map, getElem?_append_old s.heap n' i c h, Option.map_some]
  simp [repointFn, hp]

theorem objSetValue_heap_other (id : Nat) (v : Val) (s : Store) (i : Nat) (h : i ≠ id) :
    (objSetValue id v s).2.heap[i]? = s.heap[i]? := by
  unfold objSetValue
  simp only [Bind.bind, M.bind, getObj]
  cases s.heap[id]? with
  | none => rfl
  | some o =>
    simp only
    cases validate o.kind v with
    | error e => rfl
    | ok w => exact updObj_heap_other s id i _ (Ne.symm h)

theorem replacedStore_length (s : Store) (key : Key) (n' : Obj) (oid : Nat) :
    (replacedStore s key n' oid).heap.length = s.heap.length + 1 := by
  simp [replacedStore]

theorem objSetValue_length (id : Nat) (v : Val) (s : Store) : (objSetValue id v s).2.heap.length = s.heap.length := by
  unfold objSetValue
  simp only [Bind.bind, M.bind, getObj]
  cases h : s.heap[id]? with
  | none => rfl
  | some o =>
    simp only
    cases validate o.kind v with
    | error e => rfl
    | ok w => simp [M.ofExcept, M.pure, M.modify, Store.updObj, h]

theorem objSetValue_options (id : Nat) (v : Val) (s : Store) : (objSetValue id v s).2.options = s.options := by
  unfold objSetValue
  simp only [Bind.bind, M.bind, getObj]
  cases h : s.heap[id]? with
  | none => rfl
  | some o =>
    simp only
    cases validate o.kind v with
    | error e => rfl
    | ok w => simp [M.ofExcept, M.pure, M.modify]

/-- the tail of `replaceObj` (`value.set_value(oldval.value)` under `try`) only writes the new object -/
theorem replaceTail_facts (b : Bool) (nid : Nat) (v : Val) (s : Store) :
    let s' := ((if b then M.pure () else catchMeson (objSetValue nid v) (M.pure ())) s).2
    s'.options = s.options ∧ s'.heap.length = s.heap.length ∧ ∀ i, i ≠ nid → s'.heap[i]? = s.heap[i]? := by
  cases b
  · simp only [Bool.false_eq_true, if_false]
    have e : (catchMeson (objSetValue nid v) (M.pure ()) s).2 = (objSetValue nid v s).2 := by
      unfold catchMeson
      cases hr : objSetValue nid v s with
      | mk r s1 => cases r with
        | ok a => rfl
        | error e => cases e <;> rfl
    rw [e]
    exact ⟨objSetValue_options nid v s, objSetValue_length nid v s, fun i hi => objSetValue_heap_other nid v s i hi⟩
  · exact ⟨rfl, rfl, fun _ _ => rfl⟩

/-- the three possible effects of one entry of `update_project_options` on the heap and the key table -/
theorem updateOne_cases (sub : Str) (key : Key) (nobj : Obj) (s : Store) :
    (updateOne sub (key, nobj) s).2 = s ∨
    (alookup key s.options = none ∧ (updateOne sub (key, nobj) s).2 = (addProjectOption key nobj s).2) ∨
    (∃ oid old b, key.sub = some sub ∧ alookup key s.options = some oid ∧
      (updateOne sub (key, nobj) s).2 = (replaceObj key nobj old oid b s).2) := by
  by_cases hm : key.machine = .host
  · have he := ensureKey_of_host s key hm
    cases hk : alookup key s.options with
    | none =>
      refine Or.inr (Or.inl ⟨rfl, ?_⟩)
      simp [updateOne, bind, M.bind, M.assert, M.get, hm, ahas, hk, M.pure]
    | some oid =>
      by_cases hs : key.sub = some sub
      · cases ho : s.heap[oid]? with
        | none =>
          left
          simp [updateOne, bind, M.bind, M.assert, M.get, hm, ahas, hk, M.pure, hs, he, getObj, ho]
        | some old =>
          by_cases hd : (!(old.kind.sameClass nobj.kind) || old.kind.choicesDiffer nobj.kind) = true
          · refine Or.inr (Or.inr ⟨oid, old, !(old.kind.sameClass nobj.kind), hs, rfl, ?_⟩)
            have hd' : old.kind.sameClass nobj.kind = false ∨ old.kind.choicesDiffer nobj.kind = true := by
              simpa using hd
            simp [updateOne, bind, M.bind, M.assert, M.get, hm, ahas, hk, M.pure, hs, he, getObj, ho, hd']
          · left
            simp only [Bool.or_eq_true, not_or, Bool.not_eq_true] at hd
            simp [updateOne, bind, M.bind, M.assert, M.get, hm, ahas, hk, M.pure, hs, he, getObj, ho, hd]
      · left
        simp [updateOne, bind, M.bind, M.assert, M.get, hm, ahas, hk, M.pure, hs, M.fail]
  · left
    have : (key.machine == Machine.host) = false := by simpa using hm
    simp [updateOne, bind, M.bind, M.assert, M.get, this, M.fail]

/-- `add_project_option`: nothing, or one new object at the end of the heap under the new key -/
theorem addProjectOption_cases (k0 : Key) (o : Obj) (s : Store) :
    (addProjectOption k0 o s).2 = s ∨
    ∃ n' po, (addProjectOption k0 o s).2 =
      { s with heap := s.heap ++ [n'], options := ainsert (ensureKey s k0) s.heap.length s.options, projectOptions := po } := by
  by_cases hs : (ensureKey s k0).sub.isSome = true
  · cases hk : alookup (ensureKey s k0) s.options with
    | some id =>
      left
      simp [addProjectOption, bind, M.bind, M.get, M.assert, hs, ahas, hk, M.pure, M.fail]
    | none =>
      right
      refine ⟨{ o with parent := linkParent s (ensureKey s k0) o, yielding := (linkParent s (ensureKey s k0) o).isSome },
        setAdd (ensureKey s k0) s.projectOptions, ?_⟩
      simp [addProjectOption, bind, M.bind, M.get, M.assert, hs, ahas, hk, M.pure, M.fail, alloc, M.modify, linkParent]
      split <;> rfl
  · left
    simp [addProjectOption, bind, M.bind, M.get, M.assert, hs, M.fail]

theorem mem_ainsert_cases {α : Type} (k k' : Key) (v w : α) : ∀ (l : List (Key × α)),
    (k, w) ∈ ainsert k' v l → (k = k' ∧ w = v) ∨ (k, w) ∈ l
  | [], h => by simp [ainsert] at h; exact Or.inl h
  | (a, b) :: r, h => by
    simp only [ainsert] at h
    split at h
    · rcases List.mem_cons.mp h with h | h
      · cases h; exact Or.inl ⟨rfl, rfl⟩
      · exact Or.inr (List.mem_cons_of_mem _ h)
    · rcases List.mem_cons.mp h with h | h
      · cases h; exact Or.inr (List.mem_cons_self ..)
      · rcases mem_ainsert_cases k k' v w r h with h | h
        · exact Or.inl h
        · exact Or.inr (List.mem_cons_of_mem _ h)

/-- one entry: objects are kept except children of the (old) object under the entry's key, a key of project `sub` -/
theorem updateOne_objsKept (sub : Str) (key : Key) (nobj : Obj) (s : Store) :
    ObjsKept (SubIds sub s) s (updateOne sub (key, nobj) s).2 ∧
    (∀ pid, SubIds sub (updateOne sub (key, nobj) s).2 pid → SubIds sub s pid) := by
  rcases updateOne_cases sub key nobj s with h | ⟨hk, h⟩ | ⟨oid, old, b, hs, hk, h⟩
  · rw [h]; exact ⟨ObjsKept.refl _ s, fun _ hp => hp⟩
  · rw [h]
    rcases addProjectOption_cases key nobj s with h2 | ⟨n', po, h2⟩
    · rw [h2]; exact ⟨ObjsKept.refl _ s, fun _ hp => hp⟩
    · rw [h2]
      refine ⟨fun i c hc => Or.inl (getElem?_append_old s.heap n' i c hc), ?_⟩
      intro pid hp
      rcases hp with ⟨k, hks, hl⟩ | hl
      · rcases mem_ainsert_cases k _ _ _ _ hl with ⟨_, e⟩ | hl'
        · exact Or.inr (Nat.le_of_eq e.symm)
        · exact Or.inl ⟨k, hks, hl'⟩
      · exact Or.inr (by simp at hl; omega)
  · rw [h, replaceObj_eq]
    generalize Obj.mk nobj.kind nobj.value nobj.default
      ((linkParent s key nobj).isSome && (b || old.parent.isNone || old.yielding)) nobj.readonly (linkParent s key nobj) = n'
    obtain ⟨t1, t2, t3⟩ := replaceTail_facts b s.heap.length old.value (replacedStore s key n' oid)
    constructor
    · intro i c hc
      by_cases hp : c.parent = some oid
      · exact Or.inr ⟨oid, hp, Or.inl ⟨key, hs, mem_of_alookup key oid _ hk⟩⟩
      · left
        have hi : i ≠ s.heap.length := by
          have := (List.getElem?_eq_some_iff.mp hc).1; omega
        rw [t3 i hi]
        exact replacedStore_kept s key n' oid i c hc hp
    · intro pid hp
      rcases hp with ⟨k, hks, hl⟩ | hl
      · rw [t1] at hl
        simp only [replacedStore] at hl
        rcases mem_ainsert_cases k _ _ _ _ hl with ⟨_, e⟩ | hl'
        · exact Or.inr (Nat.le_of_eq e.symm)
        · exact Or.inl ⟨k, hks, hl'⟩
      · rw [t2, replacedStore_length] at hl
        exact Or.inr (by omega)

/-- the loop over the entries -/
theorem updateLoop_objsKept (sub : Str) : ∀ (objs : List (Key × Obj)) (s : Store),
    ObjsKept (SubIds sub s) s (forEach (updateOne sub) objs s).2 ∧
    (∀ pid, SubIds sub (forEach (updateOne sub) objs s).2 pid → SubIds sub s pid)
  | [], s => ⟨ObjsKept.refl _ s, fun _ h => h⟩
  | kv :: r, s => by
    obtain ⟨h1, m1⟩ := updateOne_objsKept sub kv.1 kv.2 s
    simp only [forEach, M.bind]
    cases hr : updateOne sub kv s with
    | mk res s1 =>
      have e : (updateOne sub (kv.1, kv.2) s).2 = s1 := by simp [hr]
      rw [e] at h1 m1
      cases res with
      | error e => exact ⟨h1, m1⟩
      | ok u =>
        obtain ⟨h2, m2⟩ := updateLoop_objsKept sub r s1
        exact ⟨h1.trans h2 m1, fun pid hp => m1 pid (m2 pid hp)⟩

/-- **frame of `update_project_options` over object ids, for all stores**: re-reading the option file of project
`sub` leaves every object of the heap exactly as it was — value, yielding flag, parent link — unless its parent
pointer is (the id of) an object registered under a key of project `sub` at entry, or allocated during the call,
i.e. a replaced or removed object of this very project.  Equality of definitions plays no role. -/
theorem update_project_options_frame (sub : Str) (objs : List (Key × Obj)) (s : Store) :
    ObjsKept (SubIds sub s) s (updateProjectOptions sub objs s).2 := by
  obtain ⟨h1, m1⟩ := updateLoop_objsKept sub objs s
  simp only [updateProjectOptions, bind, M.bind]
  cases hr : forEach (updateOne sub) objs s with
  | mk res s1 =>
    rw [hr] at h1 m1
    cases res with
    | error e => exact h1
    | ok u =>
      simp only [M.get, M.modify, unlinkChildren]
      refine h1.trans (ids' := SubIds sub s1) ?_ m1
      intro i c hc
      simp only [List.getElem?_map, hc, Option.map_some]
      cases hp : c.parent with
      | none => left; simp [hp]
      | some pid =>
        by_cases hin : ((List.filter (fun p => (!objs.any fun p_1 => p_1.fst == p.fst) && s1.isProjectOption p.fst &&
            p.fst.sub == some sub) s1.options).map (·.2)).contains pid = true
        · right
          refine ⟨pid, rfl, Or.inl ?_⟩
          simp only [List.contains_eq_mem, List.mem_map, List.mem_filter, decide_eq_true_eq, Bool.and_eq_true,
            beq_iff_eq] at hin
          obtain ⟨⟨k, id⟩, ⟨hmem, _, hsub⟩, rfl⟩ := hin
          exact ⟨k, hsub, hmem⟩
        · left
          have hin' := Bool.eq_false_iff.mpr hin
          simp only [hp, hin', Bool.false_eq_true, if_false]

/-- the children of an object that no key of project `sub` holds are untouched by an update of `sub` — however
equal the definition of that object is to the one of an option of `sub` -/
theorem update_project_options_frame_other_project (sub : Str) (objs : List (Key × Obj)) (s : Store)
    (i pid : Nat) (c : Obj) (hc : s.heap[i]? = some c) (hp : c.parent = some pid) (hlt : pid < s.heap.length)
    (hother : ∀ k, (k, pid) ∈ s.options → k.sub ≠ some sub) :
    (updateProjectOptions sub objs s).2.heap[i]? = some c := by
  rcases update_project_options_frame sub objs s i c hc with h | ⟨pid', hp', hi⟩
  · exact h
  · rw [hp] at hp'; cases hp'
    rcases hi with ⟨k, hk, hm⟩ | hl
    · exact absurd hk (hother k hm)
    · omega

/-- … and an object without a parent is never touched at all -/
theorem update_project_options_frame_no_parent (sub : Str) (objs : List (Key × Obj)) (s : Store)
    (i : Nat) (c : Obj) (hc : s.heap[i]? = some c) (hp : c.parent = none) :
    (updateProjectOptions sub objs s).2.heap[i]? = some c := by
  rcases update_project_options_frame sub objs s i c hc with h | ⟨pid', hp', _⟩
  · exact h
  · rw [hp] at hp'; cases hp'

theorem alookup_of_mem_nodup {α : Type} (k : Key) (v : α) : ∀ (l : List (Key × α)), (l.map (·.1)).Nodup → (k, v) ∈ l →
    alookup k l = some v
  | [], _, h => by cases h
  | (a, b) :: r, hn, h => by
    simp only [List.map_cons, List.nodup_cons] at hn
    rcases List.mem_cons.mp h with h | h
    · cases h; simp [alookup]
    · have hne : a ≠ k := by
        intro e; subst e
        exact hn.1 (List.mem_map_of_mem (f := (·.1)) h)
      simp [alookup, hne, alookup_of_mem_nodup k v r hn.2 h]

/-- with well-formedness (`Wf`: distinct keys own distinct objects inside the heap; keys of the dict are unique) and
`ParentCurrent`: re-reading the option file of a SUBPROJECT never touches an option that inherits from a top-level
option — whatever subproject it belongs to, whatever is declared, replaced or removed -/
theorem update_project_options_frame_child_of_top_level (sub : Str) (objs : List (Key × Obj)) (s : Store)
    (hw : Wf s) (hpc : ParentCurrent s) (hnd : (s.options.map (·.1)).Nodup) (hsub : sub ≠ [])
    (ck : Key) (cid pid : Nat) (c : Obj) (hk : alookup ck s.options = some cid) (hc : s.heap[cid]? = some c)
    (hp : c.parent = some pid) :
    (updateProjectOptions sub objs s).2.heap[cid]? = some c := by
  have hroot := hpc ck cid c pid hk hc hp
  refine update_project_options_frame_other_project sub objs s cid pid c hc hp (hw.1 _ _ hroot) ?_
  intro k hm hks
  have hl := alookup_of_mem_nodup k pid s.options hnd hm
  have e := hw.2 _ _ _ hl hroot
  rw [e] at hks
  simp only [Key.asRoot, Option.some.injEq] at hks
  exact hsub hks.symm

/-! ## the variant that compares definitions (`opt.parent == parent`) -/

/-- dataclass `__eq__` of two option objects: the definition (class and choices / range, yielding, readonly, and the
parents — here: both without parent, or the same parent object), NOT the value -/
def sameDef (a b : Obj) : Bool :=
  a.kind == b.kind && a.yielding == b.yielding && a.readonly == b.readonly && a.parent == b.parent

/-- `[opt for opt in self.options.values() if opt.parent == parent]` as a predicate on a child -/
def isChildEq (s : Store) (oid : Nat) (c : Obj) : Bool :=
  match c.parent, s.heap[oid]? with
  | some pid, some old => (match s.heap[pid]? with | some p => sameDef p old | none => false)
  | _, _ => false

def repointChildrenEq (oid nid : Nat) : M Unit :=
  modify (fun s =>
    match s.heap[nid]? with
    | none => s
    | some n =>
      { s with heap := s.heap.map (fun c =>
          if isChildEq s oid c then
            (if n.kind.sameClass c.kind then { c with parent := some nid }
             else { c with parent := none, yielding := false })
          else c) })

def replaceObjEq (key : Key) (nobj old : Obj) (oid : Nat) (retyped : Bool) : M Unit := do
  let s2 ← get
  let nid ← alloc { nobj with parent := linkParent s2 key nobj,
                              yielding := (linkParent s2 key nobj).isSome && (retyped || old.parent.isNone || old.yielding) }
  modify (fun s => { s with options := ainsert key nid s.options })
  repointChildrenEq oid nid
  if retyped then M.pure () else catchMeson (objSetValue nid old.value) (M.pure ())

def unlinkChildrenEq (ids : List Nat) : M Unit :=
  modify (fun s => { s with heap := s.heap.map (fun c =>
    if ids.any (fun oid => isChildEq s oid c) then { c with parent := none, yielding := false } else c) })

def updateOneEq (sub : Str) (kv : Key × Obj) : M Unit := do
  let (key, nobj) := kv
  assert (key.machine == .host)
  let s ← get
  if !(ahas key s.options) then addProjectOption key nobj
  else if key.sub != some sub then fail .bug
  else
    match alookup (ensureKey s key) s.options with
    | none => fail .key
    | some oid => do
      let old ← getObj oid
      let retyped := !(old.kind.sameClass nobj.kind)
      if retyped || old.kind.choicesDiffer nobj.kind then replaceObjEq key nobj old oid retyped
      else M.pure ()

def updateProjectOptionsEq (sub : Str) (objs : List (Key × Obj)) : M Unit := do
  forEach (updateOneEq sub) objs
  let s ← get
  let gone := fun (k : Key) => !(objs.any (fun p => p.1 == k)) && s.isProjectOption k && k.sub == some sub
  modify (fun s' =>
    { s' with options := s'.options.filter (fun p => !(gone p.1)),
              projectOptions := s'.projectOptions.filter (fun k => !(gone k)) })
  unlinkChildrenEq ((s.options.filter (fun p => gone p.1)).map (·.2))

/-- three projects declare `mode` with the same definition: the top-level project, `alt` (its own, non-yielding
twin; the user gave it `c`) and `sub` (`yield: true`, inherits); the user set the top-level one to `b` -/
def kAlt : Key := { name := "mode".toList, sub := some "alt".toList, machine := .host }
def sTwins : Store :=
  run (Store.new false) [.addProject kTop (modeSpec ["a", "b", "c"] "a" false), .addProject kAlt (modeSpec ["a", "b", "c"] "a" false),
    .addProject kSub (modeSpec ["a", "b", "c"] "c" true), .setOption kTop (.str "b".toList) false,
    .setOption kAlt (.str "c".toList) false]

def altGrown : List (Key × Obj) :=
  [(kAlt, { kind := .combo (["a", "b", "c", "d"].map String.toList), value := .str "a".toList,
            default := .str "a".toList, yielding := false, readonly := false, parent := none })]

/-- **the `==` variant refuted**: on `sTwins` the child of `sub` reads the top-level value `b`.  `alt` removes its
twin, or gives it a fourth choice.  The code (identity) leaves `sub:mode` alone in both cases — still `b`, still the
child of the registered top-level object.  The variant (equality of definitions) cuts it off (it falls back to its
own default `c`) resp. re-points it to `alt`'s option (it shows `alt`'s value `c`). -/
theorem childrenOfEq_counterexample :
    (getValueFor sTwins kSub).toOption = some (.str "b".toList) ∧
    -- the twin removed
    (getValueFor (updateProjectOptions "alt".toList [] sTwins).2 kSub).toOption = some (.str "b".toList) ∧
    staleKeys (updateProjectOptions "alt".toList [] sTwins).2 = [] ∧
    (getValueFor (updateProjectOptionsEq "alt".toList [] sTwins).2 kSub).toOption = some (.str "c".toList) ∧
    (getValueFor (setOption kTop (.str "a".toList) false (updateProjectOptionsEq "alt".toList [] sTwins).2).2 kSub).toOption
      = some (.str "c".toList) ∧
    -- the twin re-declared with another choice list
    (getValueFor (updateProjectOptions "alt".toList altGrown sTwins).2 kSub).toOption = some (.str "b".toList) ∧
    (getValueFor (updateProjectOptions "alt".toList altGrown sTwins).2 kAlt).toOption = some (.str "c".toList) ∧
    (getValueFor (updateProjectOptionsEq "alt".toList altGrown sTwins).2 kSub).toOption = some (.str "c".toList) ∧
    staleKeys (updateProjectOptionsEq "alt".toList altGrown sTwins).2 = [kSub] := by
  decide +kernel

/-- the hypotheses of `update_project_options_frame_child_of_top_level` hold of the witness, and its conclusion is
what the variant violates -/
theorem childrenOfEq_breaks_frame :
    (sTwins.options.map (·.1)).Nodup ∧ staleKeys sTwins = [] ∧
    alookup kSub sTwins.options = some 2 ∧ (sTwins.heap[2]?.map (·.parent)) = some (some 0) ∧
    (updateProjectOptions "alt".toList [] sTwins).2.heap[2]? = sTwins.heap[2]? ∧
    (updateProjectOptionsEq "alt".toList [] sTwins).2.heap[2]? ≠ sTwins.heap[2]? := by
  decide +kernel

end MesonModel.Options
