import MesonModel.Life.Lemmas
/-
What one entry of a re-read option file does to the store (`OptionStore.update_project_options`,
options.py:1390-1417), for an arbitrary store: new option, changed choices (keep / reset), unchanged domain
(no-op, whatever the new default is), changed type (replaced, new default), and the removal pass.
-/
namespace MesonModel.Life
open MesonModel.Options MesonModel.Options.M

theorem ensureKey_host (s : Store) (k : Key) (hx : s.isCross = false) (hm : k.machine = .host) : ensureKey s k = k := by
  cases k; simp_all [ensureKey, Key.asHost]

theorem updateOne_new (sub : Str) (key : Key) (nobj : Obj) (s : Store)
    (hx : s.isCross = false) (hm : key.machine = .host) (hs : key.sub = some sub)
    (hk : alookup key s.options = none) (hp : alookup key s.pending = none)
    (hy : nobj.yielding = false) (hpar : nobj.parent = none) :
    updateOne sub (key, nobj) s =
      (.ok (), { s with heap := s.heap ++ [nobj], options := ainsert key s.heap.length s.options,
                        projectOptions := setAdd key s.projectOptions }) := by
  cases nobj
  simp_all [updateOne, addProjectOption, bind, M.bind, M.assert, M.pure, M.get, M.modify, ahas, ensureKey_host s key hx hm, alloc]

/-- an existing option whose type or choices / range changed is replaced (`replaceObj`) -/
theorem updateOne_replace (sub : Str) (key : Key) (nobj old : Obj) (s : Store) (oid : Nat)
    (hx : s.isCross = false) (hm : key.machine = .host) (hs : key.sub = some sub)
    (hk : alookup key s.options = some oid) (ho : s.heap[oid]? = some old)
    (hd : (!(old.kind.sameClass nobj.kind) || old.kind.choicesDiffer nobj.kind) = true) :
    updateOne sub (key, nobj) s = replaceObj key nobj old oid (!(old.kind.sameClass nobj.kind)) s := by
  simp [updateOne, bind, M.bind, M.assert, M.pure, M.get, ahas, hk, hm, hs, ensureKey_host s key hx hm, getObj, ho, hd]

theorem linkParent_plain (s : Store) (k : Key) (o : Obj) (hy : o.yielding = false) (hp : o.parent = none) :
    linkParent s k o = none := by
  simp [linkParent, hy, hp]

/-- replacement of a non-inheriting option: it succeeds, and the option then reads `w` — the new default after a
type change, else the old value when the new choices accept it, else the new default -/
theorem replaceObj_plain (key : Key) (nobj old : Obj) (oid : Nat) (retyped : Bool) (s : Store)
    (hx : s.isCross = false) (hm : key.machine = .host) (ha : alookup key s.augments = none)
    (hy : nobj.yielding = false) (hp : nobj.parent = none) (w : Val)
    (hw : (retyped = true ∧ w = nobj.value) ∨
          (retyped = false ∧ validate nobj.kind old.value = .ok w) ∨
          (retyped = false ∧ validate nobj.kind old.value = .error .meson ∧ w = nobj.value)) :
    (replaceObj key nobj old oid retyped s).1 = .ok () ∧
    getValueFor (replaceObj key nobj old oid retyped s).2 key = .ok w := by
  have he : ∀ (s' : Store), s'.isCross = false → ensureKey s' key = key := fun s' h => ensureKey_host s' key h hm
  have hl := linkParent_plain s key nobj hy hp
  rcases hw with ⟨hr, rfl⟩ | ⟨hr, hv⟩ | ⟨hr, hv, rfl⟩ <;> subst hr
  · simp [replaceObj, bind, M.bind, M.get, alloc, M.modify, repointChildren, hl, M.pure,
      getValueFor, getIdAndValue, resolveId, he, hx, alookup_ainsert, ha, Except.map]
  · simp [replaceObj, bind, M.bind, M.get, alloc, M.modify, repointChildren, hl, M.pure, catchMeson, objSetValue, getObj,
      M.ofExcept, hv, Store.updObj, getValueFor, getIdAndValue, resolveId, he, hx, alookup_ainsert, ha, Except.map]
  · simp [replaceObj, bind, M.bind, M.get, alloc, M.modify, repointChildren, hl, M.pure, catchMeson, objSetValue, getObj,
      M.ofExcept, hv, M.fail, getValueFor, getIdAndValue, resolveId, he, hx, alookup_ainsert, ha, Except.map]

theorem updateOne_same (sub : Str) (key : Key) (nobj old : Obj) (s : Store) (oid : Nat)
    (hx : s.isCross = false) (hm : key.machine = .host) (hs : key.sub = some sub)
    (hk : alookup key s.options = some oid) (ho : s.heap[oid]? = some old)
    (hc : old.kind.sameClass nobj.kind = true) (hd : old.kind.choicesDiffer nobj.kind = false) :
    updateOne sub (key, nobj) s = (.ok (), s) := by
  simp [updateOne, bind, M.bind, M.assert, M.pure, M.get, ahas, hk, hm, hs, ensureKey_host s key hx hm, getObj, ho, hc, hd]


/-- reading an option that was just put under `key` as a fresh, non-inheriting object -/
theorem getValueFor_fresh (s : Store) (key : Key) (o : Obj) (po : List Key)
    (hx : s.isCross = false) (hm : key.machine = .host) (ha : alookup key s.augments = none)
    (hy : o.yielding = false) :
    getValueFor { s with heap := s.heap ++ [o], options := ainsert key s.heap.length s.options, projectOptions := po } key
      = .ok o.value := by
  have he : ∀ (s' : Store), s'.isCross = false → ensureKey s' key = key := fun s' h => ensureKey_host s' key h hm
  simp [getValueFor, getIdAndValue, resolveId, he, hx, alookup_ainsert, ha, hy, Except.map]

/-- the removal pass: after a successful update no project option of this (sub)project that is missing from the
option file is left -/
theorem update_removes (sub : Str) (objs : List (Key × Obj)) (s s' : Store)
    (h : updateProjectOptions sub objs s = (.ok (), s')) (k : Key) (hs : k.sub = some sub)
    (hn : objs.any (fun p => p.1 == k) = false) : s'.isProjectOption k = false := by
  simp only [updateProjectOptions, bind, M.bind] at h
  cases hf : forEach (updateOne sub) objs s with
  | mk r s1 =>
    rw [hf] at h
    cases r with
    | error e => simp at h
    | ok u =>
      simp only [M.get, M.modify, unlinkChildren, Prod.mk.injEq] at h
      obtain ⟨_, h⟩ := h
      subst h
      simp only [Store.isProjectOption]
      by_cases hc : s1.projectOptions.contains k = true
      · simp [Store.isProjectOption, hn, hc, hs]
      · simp only [Bool.not_eq_true] at hc
        simp only [List.contains_eq_mem, List.mem_filter, decide_eq_false_iff_not] at hc ⊢
        simp [hc]

set_option linter.unusedSimpArgs false

theorem linkParent_yield (s : Store) (k : Key) (o p : Obj) (pid : Nat) (hy : o.yielding = true) (hs : k.subTruthy = true)
    (hk : alookup k.asRoot s.options = some pid) (hp : s.heap[pid]? = some p) (hc : p.kind.sameClass o.kind = true) :
    linkParent s k o = some pid := by
  simp [linkParent, hy, hs, hk, hp, hc]

/-- replacement of an inheriting option (changed choices): it is linked to the registered top-level object again and
reads that object's value -/
theorem replaceObj_inheriting (key : Key) (nobj old p : Obj) (oid pid : Nat) (s : Store)
    (hx : s.isCross = false) (hm : key.machine = .host) (ha : alookup key s.augments = none)
    (hy : nobj.yielding = true) (hs : key.subTruthy = true)
    (hk : alookup key.asRoot s.options = some pid) (hp : s.heap[pid]? = some p) (hpp : p.parent = none)
    (hc : p.kind.sameClass nobj.kind = true) (hpo : pid ≠ oid)
    (hold : old.yielding = true) (hv : ∃ e, validate nobj.kind old.value = .ok e ∨ validate nobj.kind old.value = .error .meson) :
    (replaceObj key nobj old oid false s).1 = .ok () ∧
    getValueFor (replaceObj key nobj old oid false s).2 key = .ok p.value := by
  have he : ∀ (s' : Store), s'.isCross = false → ensureKey s' key = key := fun s' h => ensureKey_host s' key h hm
  have hl := linkParent_yield s key nobj p pid hy hs hk hp hc
  have hlt : pid < s.heap.length := (List.getElem?_eq_some_iff.mp hp).1
  have hne : pid ≠ s.heap.length := by omega
  have hp2 : ∀ x : Obj, (s.heap ++ [x])[pid]? = some p := by
    intro x; rw [List.getElem?_append_left hlt]; exact hp
  have hp3 : ∀ (f : Obj → Obj) (x : Obj), (s.heap.map f ++ [x])[pid]? = some (f p) := by
    intro f x; rw [List.getElem?_append_left (by simpa using hlt)]; simp [hp]
  obtain ⟨e, hv | hv⟩ := hv
  · simp [replaceObj, bind, M.bind, M.get, alloc, M.modify, repointChildren, hl, M.pure, catchMeson, objSetValue, getObj,
      M.ofExcept, hv, Store.updObj, getValueFor, getIdAndValue, resolveId, he, hx, alookup_ainsert, ha, Except.map, hold, hp2, hp3, hpp, hpo,
      List.getElem?_set, hne, hlt]
  · simp [replaceObj, bind, M.bind, M.get, alloc, M.modify, repointChildren, hl, M.pure, catchMeson, objSetValue, getObj,
      M.ofExcept, hv, M.fail, getValueFor, getIdAndValue, resolveId, he, hx, alookup_ainsert, ha, Except.map, hold, hp2, hp3, hpp, hpo, hlt]

/-- replacement of a *parent* object: a child that yielded to the old object reads the replacement -/
theorem replaceObj_repoints_child (key ck : Key) (nobj old c : Obj) (oid cid : Nat) (s : Store)
    (hx : s.isCross = false) (hm : ck.machine = .host) (ha : alookup ck s.augments = none) (hkk : key ≠ ck)
    (hy : nobj.yielding = false) (hp : nobj.parent = none)
    (hck : alookup ck s.options = some cid) (hc : s.heap[cid]? = some c)
    (hcy : c.yielding = true) (hcp : c.parent = some oid) (hcc : nobj.kind.sameClass c.kind = true) (w : Val)
    (hw : validate nobj.kind old.value = .ok w ∨ (validate nobj.kind old.value = .error .meson ∧ w = nobj.value)) :
    getValueFor (replaceObj key nobj old oid false s).2 ck = .ok w := by
  have he : ∀ (s' : Store), s'.isCross = false → ensureKey s' ck = ck := fun s' h => ensureKey_host s' ck h hm
  have hl := linkParent_plain s key nobj hy hp
  have hlt : cid < s.heap.length := (List.getElem?_eq_some_iff.mp hc).1
  have hne : cid ≠ s.heap.length := by omega
  have hne' : s.heap.length ≠ cid := by omega
  have hc3 : ∀ (f : Obj → Obj) (x : Obj), (s.heap.map f ++ [x])[cid]? = some (f c) := by
    intro f x; rw [List.getElem?_append_left (by simpa using hlt)]; simp [hc]
  rcases hw with hv | ⟨hv, rfl⟩
  · simp [replaceObj, bind, M.bind, M.get, alloc, M.modify, repointChildren, hl, M.pure, catchMeson, objSetValue, getObj,
      M.ofExcept, hv, Store.updObj, getValueFor, getIdAndValue, resolveId, he, hx, alookup_ainsert, ha, Except.map, hkk, hck,
      hc3, hcy, hcp, hcc, hp, List.getElem?_set, hne, hne', hlt]
  · simp [replaceObj, bind, M.bind, M.get, alloc, M.modify, repointChildren, hl, M.pure, catchMeson, objSetValue, getObj,
      M.ofExcept, hv, M.fail, getValueFor, getIdAndValue, resolveId, he, hx, alookup_ainsert, ha, Except.map, hkk, hck,
      hc3, hcy, hcp, hcc, hp, hne, hne', hlt]

/-- `-Usub:opt` on a project option that has a parent: it yields again and reads the parent's value, whatever that is -/
theorem configureOne_unset_yielding (s : Store) (k : Key) (id pid : Nat) (o p : Obj)
    (hx : s.isCross = false) (hm : k.machine = .host)
    (ha : alookup k s.augments = none) (hk : alookup k s.options = some id) (ho : s.heap[id]? = some o)
    (hp : o.parent = some pid) (hpo : s.heap[pid]? = some p) (hne : pid ≠ id) :
    (configureOne (k, none) s).1 = .ok (!o.yielding) ∧ getValueFor (configureOne (k, none) s).2 k = .ok p.value := by
  have he : ∀ (s' : Store), s'.isCross = false → ensureKey s' k = k := fun s' h => ensureKey_host s' k h hm
  obtain ⟨hlt, ho'⟩ := List.getElem?_eq_some_iff.mp ho
  have hne' : id ≠ pid := Ne.symm hne
  simp [configureOne, bind, M.bind, M.get, M.modify, M.pure, ahas, ha, hk, he, hx, getObj, ho, hp, objSetYielding, Store.updObj,
    getValueFor, getIdAndValue, resolveId, Except.map, List.getElem?_set, hne, hne', hpo, hlt, ho']

end MesonModel.Life
