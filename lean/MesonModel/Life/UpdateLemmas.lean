import MesonModel.Life.Lemmas
/-
What one entry of a re-read option file does to the store (`OptionStore.update_project_options`,
options.py:1390-1417), for an arbitrary store: new option, changed choices (keep / reset), unchanged domain
(no-op, whatever the new default is), changed type, and the removal pass.
-/
namespace MesonModel.Life
open MesonModel.Options MesonModel.Options.M

theorem ensureKey_host (s : Store) (k : Key) (hx : s.isCross = false) (hm : k.machine = .host) : ensureKey s k = k := by
  cases k; simp_all [ensureKey, Key.asHost]

theorem updateOne_new (sub : Str) (key : Key) (nobj : Obj) (s : Store)
    (hx : s.isCross = false) (hm : key.machine = .host) (hs : key.sub = some sub)
    (hk : alookup key s.options = none) (hp : alookup key s.pending = none)
    (hy : nobj.yielding = false) (hpar : nobj.parent = none) :
    updateOne sub (key, nobj) s =
      (.ok (), { s with heap := s.heap ++ [nobj], options := ainsert key s.heap.length s.options,
                        projectOptions := setAdd key s.projectOptions }) := by
  cases nobj
  simp_all [updateOne, addProjectOption, bind, M.bind, M.assert, M.pure, M.get, M.modify, ahas, ensureKey_host s key hx hm, alloc]

theorem updateOne_choices_keep (sub : Str) (key : Key) (nobj old : Obj) (s : Store) (oid : Nat) (v : Val)
    (hx : s.isCross = false) (hm : key.machine = .host) (hs : key.sub = some sub)
    (hk : alookup key s.options = some oid) (ho : s.heap[oid]? = some old)
    (hc : old.kind.sameClass nobj.kind = true) (hd : old.kind.choicesDiffer nobj.kind = true)
    (hv : validate nobj.kind old.value = .ok v) :
    updateOne sub (key, nobj) s =
      (.ok (), { s with heap := s.heap ++ [{ nobj with value := v }], options := ainsert key s.heap.length s.options }) := by
  simp [updateOne, bind, M.bind, M.assert, M.pure, M.get, M.modify, ahas, hk, hm, hs, ensureKey_host s key hx hm, getObj, ho, hc, hd,
    alloc, catchMeson, objSetValue, M.ofExcept, hv, Store.updObj]

theorem updateOne_choices_reset (sub : Str) (key : Key) (nobj old : Obj) (s : Store) (oid : Nat)
    (hx : s.isCross = false) (hm : key.machine = .host) (hs : key.sub = some sub)
    (hk : alookup key s.options = some oid) (ho : s.heap[oid]? = some old)
    (hc : old.kind.sameClass nobj.kind = true) (hd : old.kind.choicesDiffer nobj.kind = true)
    (hv : validate nobj.kind old.value = .error .meson) :
    updateOne sub (key, nobj) s =
      (.ok (), { s with heap := s.heap ++ [nobj], options := ainsert key s.heap.length s.options }) := by
  simp [updateOne, bind, M.bind, M.assert, M.pure, M.get, M.modify, ahas, hk, hm, hs, ensureKey_host s key hx hm, getObj, ho, hc, hd,
    alloc, catchMeson, objSetValue, M.ofExcept, hv, M.fail]

theorem updateOne_same (sub : Str) (key : Key) (nobj old : Obj) (s : Store) (oid : Nat)
    (hx : s.isCross = false) (hm : key.machine = .host) (hs : key.sub = some sub)
    (hk : alookup key s.options = some oid) (ho : s.heap[oid]? = some old)
    (hc : old.kind.sameClass nobj.kind = true) (hd : old.kind.choicesDiffer nobj.kind = false) :
    updateOne sub (key, nobj) s = (.ok (), s) := by
  simp [updateOne, bind, M.bind, M.assert, M.pure, M.get, ahas, hk, hm, hs, ensureKey_host s key hx hm, getObj, ho, hc, hd]


/-- a changed type does not replace the object: the *new default* is assigned to the *old* object -/
theorem updateOne_type_change (sub : Str) (key : Key) (nobj old : Obj) (s : Store) (oid : Nat)
    (hx : s.isCross = false) (hm : key.machine = .host) (hs : key.sub = some sub)
    (hk : alookup key s.options = some oid) (ho : s.heap[oid]? = some old)
    (hc : old.kind.sameClass nobj.kind = false) :
    updateOne sub (key, nobj) s =
      ((setOption key nobj.value false s).1.map (fun _ => ()), (setOption key nobj.value false s).2) := by
  cases h : setOption key nobj.value false s with
  | mk r s' =>
    cases r <;>
      simp [updateOne, bind, M.bind, M.assert, M.pure, M.get, ahas, hk, hm, hs, ensureKey_host s key hx hm, getObj, ho, hc, h,
        Except.map]

/-- reading an option that was just put under `key` as a fresh, non-inheriting object -/
theorem getValueFor_fresh (s : Store) (key : Key) (o : Obj) (po : List Key)
    (hx : s.isCross = false) (hm : key.machine = .host) (ha : alookup key s.augments = none)
    (hy : o.yielding = false) :
    getValueFor { s with heap := s.heap ++ [o], options := ainsert key s.heap.length s.options, projectOptions := po } key
      = .ok o.value := by
  have he : ∀ (s' : Store), s'.isCross = false → ensureKey s' key = key := fun s' h => ensureKey_host s' key h hm
  simp [getValueFor, getIdAndValue, resolveId, he, hx, alookup_ainsert, ha, hy, Except.map]

/-- the removal pass: after a successful update no project option of this (sub)project that is missing from the
option file is left -/
theorem update_removes (sub : Str) (objs : List (Key × Obj)) (s s' : Store)
    (h : updateProjectOptions sub objs s = (.ok (), s')) (k : Key) (hs : k.sub = some sub)
    (hn : objs.any (fun p => p.1 == k) = false) : s'.isProjectOption k = false := by
  simp only [updateProjectOptions, bind, M.bind] at h
  cases hf : forEach (updateOne sub) objs s with
  | mk r s1 =>
    rw [hf] at h
    cases r with
    | error e => simp at h
    | ok u =>
      simp only [M.modify, Prod.mk.injEq] at h
      obtain ⟨_, h⟩ := h
      subst h
      simp only [Store.isProjectOption]
      by_cases hc : s1.projectOptions.contains k = true
      · simp [Store.isProjectOption, hn, hc, hs]
      · simp only [Bool.not_eq_true] at hc
        simp only [List.contains_eq_mem, List.mem_filter, decide_eq_false_iff_not] at hc ⊢
        simp [hc]

end MesonModel.Life
