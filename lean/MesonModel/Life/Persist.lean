import MesonModel.Life.Invariant
import MesonModel.Options.PrecLemmas
/-
`value_persists` for SUCCESSFUL commands (property C08), the `meson configure -D / -U` part.

* `Fr.configureOne`, `Fr.setFromConfigure`: the frame property of `set_from_configure_command` — an argument list that
  does not address the name of `k` (directly, or as a dependent of `buildtype`, or through the prefix reset) leaves
  everything `get_value_for k` depends on alone (lifted from C07's `Fr.setUserOption`; the `-U` branch is new).
* `SameNamed n s s'`: everything any read of an option NAMED `n` depends on — in every project, own object, augment,
  and (through `ParentCurrent`) the yielding parent — is the same; `getValueFor_sameNamed`.
* `setFromConfigure_value_persists`: for every well-formed store and every argument list not addressing `n`, the
  effective value of every option named `n` (top-level, per subproject, overridden, inheriting) is unchanged.
* `configure_value_persists`: the same for the command `meson configure` on a directory without unread option-file
  edits; `value_persists_configure_hist`: lifted to histories by induction.
-/
namespace MesonModel.Options
open M
set_option linter.unusedSimpArgs false
set_option linter.unusedVariables false

theorem ensureKey_name (s : Store) (k : Key) : (ensureKey s k).name = k.name := by
  unfold ensureKey Key.asHost; split <;> rfl

/-- `-U key` / `-D key=v` for a key of another name leaves `k` alone -/
theorem Fr.configureOne (k : Key) (id : Nat) (kv : Key × Option Val)
    (hname : kv.1.name ≠ k.name) (hnp : (Tables.nopfxTable.map (·.1)).contains k.name = false)
    (hd : kv.1.name = sBuildtype → k.name ≠ sDebug ∧ k.name ≠ sOptimization) : Fr k id (configureOne kv) := by
  obtain ⟨key, ov⟩ := kv
  have hkey : key ≠ k := fun e => hname (by rw [e])
  cases ov with
  | some v => exact Fr.setUserOption k id key v false hname hnp hd
  | none =>
    constructor
    intro s hown
    simp only [MesonModel.Options.configureOne, Bind.bind, M.bind, M.get]
    split
    · refine ⟨rfl, rfl, rfl, rfl, rfl, ?_⟩
      show alookup k (aerase key s.augments) = alookup k s.augments
      rw [alookup_aerase]; simp [hkey]
    · split
      · exact SameObs.refl k id s
      · cases hl : alookup (ensureKey s key) s.options with
        | none => exact SameObs.refl k id s
        | some i =>
          have hi : i ≠ id := hown _ i hl (by rw [ensureKey_name]; exact hname)
          exact (Fr.bind' (Fr.getObj i) (fun o => Fr.bind' (Fr.objSetYielding i _ hi) (fun _ => Fr.pure' _))).run s hown

/-- the argument list does not address the name `n`: no `-D`/`-U` of that name, and when `buildtype` is set `n` is
not one of its dependents -/
def NotAddressed (n : Str) (args : List (Key × Option Val)) : Prop :=
  ∀ a ∈ args, a.1.name ≠ n ∧ (a.1.name = sBuildtype → n ≠ sDebug ∧ n ≠ sOptimization)

/-- **frame of `set_from_configure_command`** -/
theorem Fr.setFromConfigure (k : Key) (id : Nat) (hnp : (Tables.nopfxTable.map (·.1)).contains k.name = false) :
    ∀ (args : List (Key × Option Val)) (d : Bool), NotAddressed k.name args → Fr k id (setFromConfigure args d)
  | [], d, _ => Fr.pure' _
  | kv :: r, d, h => by
    unfold MesonModel.Options.setFromConfigure
    exact Fr.bind' (Fr.configureOne k id kv (h kv (by simp)).1 hnp (h kv (by simp)).2)
      (fun b => Fr.setFromConfigure k id hnp r _ (fun a ha => h a (by simp [ha])))

theorem NotAddressed.buildtypeFirst {n : Str} {args : List (Key × Option Val)} (h : NotAddressed n args) :
    NotAddressed n (buildtypeFirst args) := by
  intro a ha
  simp only [MesonModel.Options.buildtypeFirst, List.mem_append, List.mem_filter] at ha
  rcases ha with ha | ha <;> exact h a ha.1

/-- everything a read of an option named `n` depends on is the same in `s` and `s'` -/
def SameNamed (n : Str) (s s' : Store) : Prop :=
  s'.isCross = s.isCross ∧
  (∀ key : Key, key.name = n → alookup key s'.options = alookup key s.options ∧
    s'.isProjectOption key = s.isProjectOption key ∧ alookup key s'.augments = alookup key s.augments) ∧
  (∀ (key : Key) (i : Nat), key.name = n → alookup key s.options = some i → s'.heap[i]? = s.heap[i]?)

theorem SameNamed.refl (n : Str) (s : Store) : SameNamed n s s :=
  ⟨rfl, fun _ _ => ⟨rfl, rfl, rfl⟩, fun _ _ _ _ => rfl⟩

/-- the effective value of an option named `n` is a function of what `SameNamed n` fixes (the parent of an option
named `n` is, by `ParentCurrent`, registered under a key named `n`) -/
theorem getValueFor_sameNamed {s s' : Store} (k : Key) (hpc : ParentCurrent s) (h : SameNamed k.name s s') :
    getValueFor s' k = getValueFor s k := by
  obtain ⟨hx, hkeys, hheap⟩ := h
  have he' : ∀ x : Key, ensureKey s' x = ensureKey s x := by intro x; unfold ensureKey; rw [hx]
  have he : ensureKey s' k = ensureKey s k := he' k
  have hn : (ensureKey s k).name = k.name := ensureKey_name s k
  have hidem : ensureKey s (ensureKey s k) = ensureKey s k := by
    unfold ensureKey
    by_cases hc : (!(s.isCross && isPerMachine k)) = true
    · have : isPerMachine k.asHost = isPerMachine k := rfl
      simp [hc, this, Key.asHost]
    · simp [hc]
  have hee : ∀ t : Store, t = s ∨ t = s' → ensureKey t (ensureKey s k) = ensureKey s k := by
    intro t ht
    rcases ht with rfl | rfl
    · exact hidem
    · rw [he']; exact hidem
  have hgn : (ensureKey s k).global.name = k.name := by simpa [Key.global] using hn
  obtain ⟨o1, p1, a1⟩ := hkeys (ensureKey s k) hn
  obtain ⟨o2, _, _⟩ := hkeys (ensureKey s k).global hgn
  -- the object read, its owner key, and the equality of the resolved ids
  have hres : resolveId s' (ensureKey s k) = resolveId s (ensureKey s k) := by
    unfold resolveId
    simp only [hee s' (Or.inr rfl), hee s (Or.inl rfl), o1, p1, o2]
  unfold getValueFor getIdAndValue
  simp only [he, hres, a1]
  cases hr : resolveId s (ensureKey s k) with
  | error e => rfl
  | ok id =>
    -- `id` is owned by a key named `k.name`
    obtain ⟨key', hn', hl'⟩ := resolveId_name hr
    have hh : s'.heap[id]? = s.heap[id]? := hheap key' id (by rw [hn', hn]) hl'
    simp only [hh]
    cases ho : s.heap[id]? with
    | none => rfl
    | some o =>
      simp only
      cases alookup (ensureKey s k) s.augments with
      | some v => rfl
      | none =>
        simp only
        split
        · cases hp : o.parent with
          | none => rfl
          | some pid =>
            have hroot := hpc key' id o pid hl' ho hp
            have hp' : s'.heap[pid]? = s.heap[pid]? :=
              hheap key'.asRoot pid (by simp [Key.asRoot, hn', hn]) hroot
            simp only [hp']
        · rfl

/-- from the frame of a computation at every key named `n` to `SameNamed n` -/
theorem sameNamed_of_fr {α : Type} (n : Str) (m : M α) (s : Store) (hw : Wf s)
    (hfr : ∀ (k : Key) (id : Nat), k.name = n → Fr k id m) : SameNamed n s (m s).2 := by
  -- an id outside the heap is trivially nobody's object
  have hout : OwnObject n s.heap.length s := by
    intro key i hl _ e
    have := hw.1 key i hl; omega
  have kk : Key := { name := n, sub := none, machine := .host }
  have h0 := (hfr { name := n, sub := none, machine := .host } s.heap.length rfl).run s hout
  refine ⟨h0.1, ?_, ?_⟩
  · intro key hk
    have h1 := (hfr key s.heap.length hk).run s (by rw [hk]; exact hout)
    refine ⟨by rw [h1.2.1], ?_, h1.2.2.2.2.2⟩
    unfold Store.isProjectOption; rw [h1.2.2.1]
  · intro key i hk hl
    have h1 := (hfr key i hk).run s (hw.ownObject hl)
    exact h1.2.2.2.2.1

/-- **`value_persists` for `set_from_configure_command`, all stores, all argument lists**: an option whose name is
not addressed — directly, or as a dependent of `buildtype`, or (directory options) through `prefix` — keeps its
effective value: in the top-level project and in every subproject, whether it has its own value, is overridden
for the subproject, or inherits from a yielding parent (which has the same name, so is not addressed either) -/
theorem setFromConfigure_value_persists (s : Store) (hw : Wf s) (hpc : ParentCurrent s) (n : Str)
    (args : List (Key × Option Val)) (dirty : Bool) (hna : NotAddressed n args)
    (hnp : (Tables.nopfxTable.map (·.1)).contains n = false) :
    SameNamed n s (setFromConfigure args dirty s).2 ∧
    ∀ k : Key, k.name = n → getValueFor (setFromConfigure args dirty s).2 k = getValueFor s k := by
  have hs : SameNamed n s (setFromConfigure args dirty s).2 :=
    sameNamed_of_fr n _ s hw (fun k id hk => Fr.setFromConfigure k id (by rw [hk]; exact hnp) args dirty (by rw [hk]; exact hna))
  exact ⟨hs, fun k hk => getValueFor_sameNamed k hpc (by rw [hk]; exact hs)⟩

end MesonModel.Options

namespace MesonModel.Life
open MesonModel.Options MesonModel.Options.M

/-- the build directory holds no unread option-file change: every recorded option file exists under the recorded
name with the recorded content (then `meson configure` re-reads nothing) -/
def NoUnread (d : Dir) (co : Core) : Prop :=
  ∀ e ∈ co.optFiles, e.2.1.isSome = true ∧ d.fileOf e.1 = e.2.1 ∧ d.defsOf e.1 = e.2.2

instance (d : Dir) (co : Core) : Decidable (NoUnread d co) := by
  unfold NoUnread; exact inferInstance

theorem reloadChanged_noUnread (d : Dir) (s : Store) : ∀ (l : List (Str × Option Bool × Defs)),
    (∀ e ∈ l, e.2.1.isSome = true ∧ d.fileOf e.1 = e.2.1 ∧ d.defsOf e.1 = e.2.2) → reloadChanged d l s = (.ok l, s)
  | [], _ => rfl
  | (p, recF, rec) :: r, h => by
    obtain ⟨h1, h2, h3⟩ := h (p, recF, rec) (by simp)
    have ih := reloadChanged_noUnread d s r (fun e he => h e (by simp [he]))
    simp only at h1 h2 h3
    simp [reloadChanged, h1, h2, h3, M.bind, ih, M.pure]

/-- **`value_persists` for the command `meson configure -D… -U…`** on a well-formed directory without unread
option-file edits: whatever the command does (fail, change nothing, save), an option whose name it does not address
keeps its effective value in every project -/
theorem configure_value_persists (d : Dir) (co : Core) (args : List (Key × Option Val)) (n : Str)
    (hd : DirInv d) (hc : d.core = some co) (hu : NoUnread d co) (hna : NotAddressed n args)
    (hnp : (Tables.nopfxTable.map (·.1)).contains n = false) :
    ∃ co', (configure d args).1.core = some co' ∧ NoUnread (configure d args).1 co' ∧
      ∀ k : Key, k.name = n → getValueFor co'.store k = getValueFor co.store k := by
  have hinv := hd co hc
  unfold configure
  simp only [hc]
  split
  · exact ⟨co, hc, hu, fun _ _ => rfl⟩
  · rw [reloadChanged_noUnread d co.store co.optFiles hu]
    simp only
    have hv := setFromConfigure_value_persists co.store hinv.1 hinv.2 n (buildtypeFirst args) false hna.buildtypeFirst hnp
    simp only [setFromConfigureCommand]
    cases hs : setFromConfigure (buildtypeFirst args) false co.store with
    | mk res s2 =>
      rw [hs] at hv
      cases res with
      | error e => exact ⟨co, hc, hu, fun _ _ => rfl⟩
      | ok dirty =>
        simp only [commitConf]
        split
        · exact ⟨{ co with store := s2, optFiles := co.optFiles }, rfl, hu, hv.2⟩
        · exact ⟨co, hc, hu, fun _ _ => rfl⟩

/-- histories of `meson configure` commands (successful or failing) that do not address `n` -/
def ConfigureHist (n : Str) : List Cmd → Prop
  | [] => True
  | .configure args :: r => NotAddressed n args ∧ ConfigureHist n r
  | _ :: _ => False

/-- lifted to histories by induction: after ANY sequence of `meson configure` commands none of which addresses `n`,
every option named `n` has the effective value it had before -/
theorem value_persists_configure_hist (n : Str) (hnp : (Tables.nopfxTable.map (·.1)).contains n = false) :
    ∀ (h : List Cmd) (d : Dir) (co : Core), DirInv d → d.core = some co → NoUnread d co → ConfigureHist n h →
    ∃ co', (runHist d h).core = some co' ∧ NoUnread (runHist d h) co' ∧
      ∀ k : Key, k.name = n → getValueFor co'.store k = getValueFor co.store k
  | [], d, co, _, hc, hu, _ => ⟨co, hc, hu, fun _ _ => rfl⟩
  | c :: r, d, co, hd, hc, hu, hh => by
    cases c with
    | configure args =>
      obtain ⟨hna, hr⟩ := hh
      obtain ⟨co1, hc1, hu1, hv1⟩ := configure_value_persists d co args n hd hc hu hna hnp
      have hd1 : DirInv (step d (.configure args)).1 := step_inv d _ hd
      obtain ⟨co2, hc2, hu2, hv2⟩ := value_persists_configure_hist n hnp r (step d (.configure args)).1 co1 hd1 hc1 hu1 hr
      exact ⟨co2, hc2, hu2, fun k hk => (hv2 k hk).trans (hv1 k hk)⟩
    | _ => exact absurd hh (by simp [ConfigureHist])

end MesonModel.Life
