import MesonModel.Life.ParentCurrent
/-
The well-formedness invariant of a build directory and its preservation by `step`.

`StoreInv top s` = `Wf s` (ids point into the heap, distinct keys own distinct objects) ∧ `ParentCurrent s` (every
parent pointer is the object registered under the top-level key) ∧ `TopProj top s` (every registered top-level
project option is an option of the top-level option file).  `DirInv d` asks it of the persisted store.

`step_inv`: every command — setup, reconfigure, configure, wipe, regeneration after a corrupt coredata.dat, edits,
and all their failing variants — keeps `DirInv`, except the *deletion of an option from the top-level option file*
(`NoTopRemoval`).  That exception is real: the removal pass of `update_project_options` deletes a top-level option
although subproject options still point at it.
-/
namespace MesonModel.Life
open MesonModel.Options MesonModel.Options.M
set_option linter.unusedSimpArgs false

/-! ## a generic "keeps `P`" framework (P closed under `updObj`) -/

structure Keeps (P : Store → Prop) {α : Type} (m : M α) : Prop where
  run : ∀ s, P s → P (m s).2

namespace Keeps
variable {P : Store → Prop} {α β : Type}
theorem pure' (a : α) : Keeps P (M.pure a) := ⟨fun _ h => h⟩
theorem pure (a : α) : Keeps P (Pure.pure a : M α) := ⟨fun _ h => h⟩
theorem fail (e : Err) : Keeps P (M.fail e : M α) := ⟨fun _ h => h⟩
theorem get : Keeps P M.get := ⟨fun _ h => h⟩
theorem ofExcept (e : Except Err α) : Keeps P (M.ofExcept e) := by
  cases e <;> exact ⟨fun _ h => h⟩
theorem assert (b : Bool) : Keeps P (M.assert b) := by
  cases b <;> exact ⟨fun _ h => h⟩
theorem modify {f : Store → Store} (hf : ∀ s, P s → P (f s)) : Keeps P (M.modify f) := ⟨fun s h => hf s h⟩
theorem bind' {m : M α} {f : α → M β} (hm : Keeps P m) (hf : ∀ a, Keeps P (f a)) : Keeps P (M.bind m f) := by
  constructor
  intro s h
  have h1 := hm.run s h
  unfold M.bind
  cases hr : m s with
  | mk r s' =>
    rw [hr] at h1
    cases r with
    | ok a => exact (hf a).run s' h1
    | error e => exact h1
theorem bind {m : M α} {f : α → M β} (hm : Keeps P m) (hf : ∀ a, Keeps P (f a)) : Keeps P (m >>= f) := bind' hm hf
theorem catchMeson {m h : M α} (hm : Keeps P m) (hh : Keeps P h) : Keeps P (M.catchMeson m h) := by
  constructor
  intro s hs
  have h1 := hm.run s hs
  unfold M.catchMeson
  cases hr : m s with
  | mk r s' =>
    rw [hr] at h1
    cases r with
    | ok a => exact h1
    | error e => cases e <;> first | exact hh.run s' h1 | exact h1
theorem forEach {γ : Type} {f : γ → M Unit} (hf : ∀ x, Keeps P (f x)) : ∀ l, Keeps P (M.forEach f l)
  | [] => pure' ()
  | x :: r => bind' (hf x) (fun _ => forEach hf r)
theorem getObj (id : Nat) : Keeps P (getObj id) := by
  constructor; intro s h; unfold MesonModel.Options.getObj; split <;> exact h
end Keeps

/-- the project-option key set is `po` -/
def POIs (po : List Key) (s : Store) : Prop := s.projectOptions = po

theorem poIs_updObj {po : List Key} {s : Store} (id : Nat) (f : Obj → Obj) (h : POIs po s) : POIs po (s.updObj id f) := by
  unfold Store.updObj; split <;> exact h

theorem Keeps.objSetValuePO {po : List Key} (id : Nat) (v : Val) : Keeps (POIs po) (objSetValue id v) := by
  unfold MesonModel.Options.objSetValue
  apply Keeps.bind (Keeps.getObj id); intro o
  apply Keeps.bind (Keeps.ofExcept _); intro w
  exact Keeps.modify (fun s h => poIs_updObj id _ h)
theorem Keeps.objSetYieldingPO {po : List Key} (id : Nat) (b : Bool) : Keeps (POIs po) (objSetYielding id b) :=
  Keeps.modify (fun s h => poIs_updObj id _ h)

macro "po_core" : tactic => `(tactic| first
  | exact Keeps.pure' _ | exact Keeps.pure _ | exact Keeps.fail _ | exact Keeps.get | exact Keeps.ofExcept _
  | exact Keeps.assert _ | exact Keeps.getObj _ | exact Keeps.objSetValuePO _ _ | exact Keeps.objSetYieldingPO _ _
  | (apply Keeps.modify; intro s hs; exact hs)
  | assumption
  | with_reducible apply Keeps.bind | with_reducible apply Keeps.bind' | with_reducible apply Keeps.forEach
  | with_reducible apply Keeps.catchMeson
  | intro _
  | split
  | (dsimp only))

variable {po : List Key}
theorem KPO.resetPrefixedOptions (a b : Str) : Keeps (POIs po) (resetPrefixedOptions a b) := by
  unfold MesonModel.Options.resetPrefixedOptions; repeat po_core
theorem KPO.setOptionTail (s : Store) (k : Key) (f : Bool) (id : Nat) (v : Val) : Keeps (POIs po) (setOptionTail s k f id v) := by
  unfold MesonModel.Options.setOptionTail; repeat (first | exact KPO.resetPrefixedOptions _ _ | po_core)
theorem KPO.setOptionCore (k : Key) (v : Val) (f : Bool) : Keeps (POIs po) (setOptionCore k v f) := by
  unfold MesonModel.Options.setOptionCore; repeat (first | exact KPO.setOptionTail _ _ _ _ _ | po_core)
theorem KPO.setOption (k : Key) (v : Val) (f : Bool) : Keeps (POIs po) (setOption k v f) := by
  unfold MesonModel.Options.setOption; repeat (first | exact KPO.setOptionCore _ _ _ | po_core)
theorem KPO.setUserOption (k : Key) (v : Val) (f : Bool) : Keeps (POIs po) (setUserOption k v f) := by
  unfold MesonModel.Options.setUserOption; repeat (first | exact KPO.setOption _ _ _ | po_core)
theorem KPO.configureOne (kv : Key × Option Val) : Keeps (POIs po) (configureOne kv) := by
  unfold MesonModel.Options.configureOne; repeat (first | exact KPO.setUserOption _ _ _ | po_core)
theorem KPO.setFromConfigure : ∀ (l : List (Key × Option Val)) (d : Bool), Keeps (POIs po) (setFromConfigure l d)
  | [], d => Keeps.pure' d
  | kv :: r, d => by
    unfold MesonModel.Options.setFromConfigure
    exact Keeps.bind' (KPO.configureOne kv) (fun b => KPO.setFromConfigure r (d || b))
theorem KPO.hardResetFromPrefix (p : Str) : Keeps (POIs po) (hardResetFromPrefix p) := by
  unfold MesonModel.Options.hardResetFromPrefix; repeat po_core
theorem KPO.firstHandlePrefix (a b c : Dict) : Keeps (POIs po) (firstHandlePrefix a b c) := by
  unfold MesonModel.Options.firstHandlePrefix; repeat (first | exact KPO.hardResetFromPrefix _ | po_core)
theorem KPO.initTop (a b c : Dict) : Keeps (POIs po) (initTop a b c) := by
  unfold MesonModel.Options.initTop
  repeat (first | exact KPO.firstHandlePrefix _ _ _ | exact KPO.setUserOption _ _ _ | po_core)
theorem KPO.applyMergedWith (ex : Dict) (sub : Str) (d : Dict) : Keeps (POIs po) (applyMergedWith ex sub d) := by
  unfold MesonModel.Options.applyMergedWith
  repeat (first | exact KPO.setUserOption _ _ _ | po_core)
theorem KPO.applyMerged (sub : Str) (d : Dict) : Keeps (POIs po) (applyMerged sub d) :=
  ⟨fun s h => (KPO.applyMergedWith s.augments sub (buildtypeFirst d)).run s h⟩
theorem KPO.initSub (sub : Str) (a b c d : Dict) : Keeps (POIs po) (initSub sub a b c d) := by
  unfold MesonModel.Options.initSub
  repeat (first | exact KPO.applyMerged _ _ | po_core)


/-! ## the project-option key set through `update_project_options` -/

theorem replaceObj_po (key : Key) (nobj old : Obj) (oid : Nat) (b : Bool) (s : Store) :
    (replaceObj key nobj old oid b s).2.projectOptions = s.projectOptions := by
  rw [replaceObj_eq]
  cases b
  · exact (Keeps.catchMeson (P := POIs s.projectOptions) (Keeps.objSetValuePO _ _) (Keeps.pure' ())).run _ rfl
  · rfl

theorem addProjectOption_po (k0 : Key) (o : Obj) (s : Store) :
    ∀ k ∈ (addProjectOption k0 o s).2.projectOptions, k ∈ s.projectOptions ∨ k = ensureKey s k0 := by
  intro k hk
  by_cases hs : (ensureKey s k0).sub.isSome = true
  · cases hl : alookup (ensureKey s k0) s.options with
    | some id =>
      have : (addProjectOption k0 o s).2 = s := by
        simp [addProjectOption, bind, M.bind, M.get, M.assert, hs, ahas, hl, M.pure, M.fail]
      rw [this] at hk; exact Or.inl hk
    | none =>
      have : (addProjectOption k0 o s).2.projectOptions = setAdd (ensureKey s k0) s.projectOptions := by
        by_cases hpn : (alookup (ensureKey s k0) s.pending).isSome = true <;>
          simp [addProjectOption, bind, M.bind, M.get, M.assert, hs, ahas, hl, M.pure, alloc, M.modify, hpn, M.fail]
      rw [this] at hk
      unfold setAdd at hk
      split at hk
      · exact Or.inl hk
      · simp only [List.mem_append, List.mem_singleton] at hk
        exact hk
  · have : (addProjectOption k0 o s).2 = s := by
      simp [addProjectOption, bind, M.bind, M.get, M.assert, hs, M.pure, M.fail]
    rw [this] at hk; exact Or.inl hk

theorem updateOne_po (sub : Str) (key : Key) (nobj : Obj) (s : Store) :
    ∀ k ∈ (updateOne sub (key, nobj) s).2.projectOptions, k ∈ s.projectOptions ∨ k = key := by
  intro k hk
  by_cases hm : key.machine = .host
  · have he := ensureKey_of_host s key hm
    cases hl : alookup key s.options with
    | none =>
      have : (updateOne sub (key, nobj) s).2 = (addProjectOption key nobj s).2 := by
        simp [updateOne, bind, M.bind, M.assert, M.get, hm, ahas, hl, M.pure]
      rw [this] at hk
      have := addProjectOption_po key nobj s k hk
      rwa [he] at this
    | some oid =>
      by_cases hs : key.sub = some sub
      · cases ho : s.heap[oid]? with
        | none =>
          have : (updateOne sub (key, nobj) s).2 = s := by
            simp [updateOne, bind, M.bind, M.assert, M.get, hm, ahas, hl, M.pure, hs, he, getObj, ho]
          rw [this] at hk; exact Or.inl hk
        | some old =>
          by_cases hd : (!(old.kind.sameClass nobj.kind) || old.kind.choicesDiffer nobj.kind) = true
          · have : (updateOne sub (key, nobj) s).2 = (replaceObj key nobj old oid (!(old.kind.sameClass nobj.kind)) s).2 := by
              have hd' : old.kind.sameClass nobj.kind = false ∨ old.kind.choicesDiffer nobj.kind = true := by
                simpa using hd
              simp [updateOne, bind, M.bind, M.assert, M.get, hm, ahas, hl, M.pure, hs, he, getObj, ho, hd']
            rw [this, replaceObj_po] at hk; exact Or.inl hk
          · have : (updateOne sub (key, nobj) s).2 = s := by
              simp only [Bool.or_eq_true, not_or, Bool.not_eq_true] at hd
              simp [updateOne, bind, M.bind, M.assert, M.get, hm, ahas, hl, M.pure, hs, he, getObj, ho, hd]
            rw [this] at hk; exact Or.inl hk
      · have : (updateOne sub (key, nobj) s).2 = s := by
          simp [updateOne, bind, M.bind, M.assert, M.get, hm, ahas, hl, M.pure, hs, M.fail]
        rw [this] at hk; exact Or.inl hk
  · have : (updateOne sub (key, nobj) s).2 = s := by
      have : (key.machine == Machine.host) = false := by simpa using hm
      simp [updateOne, bind, M.bind, M.assert, M.get, this, M.fail]
    rw [this] at hk; exact Or.inl hk

theorem updateLoop_po (sub : Str) : ∀ (objs : List (Key × Obj)) (s : Store),
    ∀ k ∈ (forEach (updateOne sub) objs s).2.projectOptions, k ∈ s.projectOptions ∨ k ∈ objs.map (·.1)
  | [], s, k, hk => Or.inl hk
  | kv :: r, s, k, hk => by
    simp only [forEach, M.bind] at hk
    cases hr : updateOne sub kv s with
    | mk res s1 =>
      rw [hr] at hk
      have h1 : ∀ k ∈ s1.projectOptions, k ∈ s.projectOptions ∨ k = kv.1 := by
        have := updateOne_po sub kv.1 kv.2 s
        rw [show (kv.1, kv.2) = kv from rfl, hr] at this
        exact this
      cases res with
      | error e =>
        rcases h1 k hk with h | h
        · exact Or.inl h
        · exact Or.inr (by simp [h])
      | ok u =>
        rcases updateLoop_po sub r s1 k hk with h | h
        · rcases h1 k h with h' | h'
          · exact Or.inl h'
          · exact Or.inr (by simp [h'])
        · exact Or.inr (by simp only [List.map_cons, List.mem_cons]; exact Or.inr h)

theorem mkObjs_keys : ∀ {l : List (Key × ObjSpec)} {os : List (Key × Obj)}, mkObjs l = .ok os →
    os.map (·.1) = l.map (·.1)
  | [], os, h => by simp [mkObjs] at h; subst h; rfl
  | (k, sp) :: r, os, h => by
    unfold mkObjs at h
    cases ho : mkObj sp with
    | error e => simp [ho] at h
    | ok o =>
      simp only [ho] at h
      cases hr : mkObjs r with
      | error e => simp [hr, Except.map] at h
      | ok os' =>
        simp only [hr, Except.map, Except.ok.injEq] at h
        subst h
        simp [mkObjs_keys hr]


/-! ## the store invariant of a build directory -/

def topKeys (top : Defs) : List Key := (fileObjs [] top).map (·.1)

/-- every registered top-level project option is an option of the top-level option file -/
def TopProj (top : Defs) (s : Store) : Prop := ∀ k ∈ s.projectOptions, k.sub = some [] → k ∈ topKeys top

/-- distinct keys own distinct objects inside the heap; every parent pointer is the registered top-level object;
the registered top-level project options are those of the top-level option file -/
def StoreInv (top : Defs) (s : Store) : Prop := Wf s ∧ ParentCurrent s ∧ TopProj top s

theorem fileObjs_sub (proj : Str) (defs : Defs) : ∀ k ∈ (fileObjs proj defs).map (·.1), k.sub = some proj := by
  intro k hk
  simp only [fileObjs, List.map_map, List.mem_map, Function.comp] at hk
  obtain ⟨p, _, rfl⟩ := hk
  rfl

theorem loadOptionFile_state (proj : Str) (defs : Defs) (s : Store) :
    (loadOptionFile proj defs s).2 = s ∨
    ∃ os, mkObjs (fileObjs proj defs) = .ok os ∧ (loadOptionFile proj defs s).2 = (updateProjectOptions proj os s).2 := by
  unfold loadOptionFile
  cases h : mkObjs (fileObjs proj defs) with
  | error e => left; simp [bind, M.bind, M.ofExcept, M.fail]
  | ok os => right; exact ⟨os, rfl, by simp [bind, M.bind, M.ofExcept, M.pure]⟩

theorem updateProjectOptions_po_sub (sub : Str) (objs : List (Key × Obj)) (s : Store) :
    ∀ k ∈ (updateProjectOptions sub objs s).2.projectOptions,
      k ∈ (forEach (updateOne sub) objs s).2.projectOptions := by
  intro k hk
  simp only [updateProjectOptions, bind, M.bind] at hk
  cases hr : forEach (updateOne sub) objs s with
  | mk res s1 =>
    rw [hr] at hk
    cases res with
    | error e => exact hk
    | ok u =>
      simp only [M.modify, List.mem_filter] at hk
      exact hk.1

/-- re-reading the top-level option file keeps the invariant (w.r.t. that file) -/
theorem loadTop_keeps (top : Defs) (s : Store) (h : StoreInv top s) : StoreInv top (loadOptionFile [] top s).2 := by
  rcases loadOptionFile_state [] top s with he | ⟨os, hos, he⟩
  · rw [he]; exact h
  · rw [he]
    obtain ⟨hw, hpc, htp⟩ := h
    have hkeys : os.map (·.1) = topKeys top := mkObjs_keys hos
    have hpo : ∀ k ∈ (forEach (updateOne []) os s).2.projectOptions, k.sub = some [] → k ∈ os.map (·.1) := by
      intro k hk hs
      rcases updateLoop_po [] os s k hk with h1 | h1
      · rw [hkeys]; exact htp k h1 hs
      · exact h1
    refine ⟨(PresW.updateProjectOptions [] os).run s hw, ?_, ?_⟩
    · apply update_project_options_keeps_parentCurrent [] os s hw hpc (mkObjs_parent hos)
      intro k id o pid _ _ _
      -- the top-level key of a child is not removed: it is a registered project option only if the file has it
      simp only [goneKey]
      by_cases hp : (forEach (updateOne []) os s).2.isProjectOption k.asRoot = true
      · have hm := hpo k.asRoot (by simpa [Store.isProjectOption] using hp) rfl
        have : (os.any fun p => p.1 == k.asRoot) = true := by
          simp only [List.any_eq_true, beq_iff_eq]
          simp only [List.mem_map] at hm
          obtain ⟨p, hp1, hp2⟩ := hm
          exact ⟨p, hp1, hp2⟩
        simp [this]
      · simp [hp]
    · intro k hk hs
      rw [← hkeys]
      exact hpo k (updateProjectOptions_po_sub [] os s k hk) hs

/-- re-reading the option file of a subproject keeps the invariant -/
theorem loadSub_keeps (top : Defs) (proj : Str) (defs : Defs) (hp : proj ≠ []) (s : Store) (h : StoreInv top s) :
    StoreInv top (loadOptionFile proj defs s).2 := by
  rcases loadOptionFile_state proj defs s with he | ⟨os, hos, he⟩
  · rw [he]; exact h
  · rw [he]
    obtain ⟨hw, hpc, htp⟩ := h
    refine ⟨(PresW.updateProjectOptions proj os).run s hw,
      update_subproject_options_keeps_parentCurrent proj os s hp hw hpc (mkObjs_parent hos), ?_⟩
    intro k hk hs
    rcases updateLoop_po proj os s k (updateProjectOptions_po_sub proj os s k hk) with h1 | h1
    · exact htp k h1 hs
    · rw [mkObjs_keys hos] at h1
      have := fileObjs_sub proj defs k h1
      rw [hs] at this
      exact absurd (Option.some.inj this).symm hp


/-! ## the interpretation of the build files keeps the invariant -/

theorem keeps_of_three {α : Type} {m : M α} (top : Defs) (hw : PresW m) (hp : PresPC m)
    (hpo : ∀ po, Keeps (POIs po) m) : Keeps (StoreInv top) m := by
  constructor
  intro s h
  refine ⟨hw.run s h.1, hp.run s h.2.1, ?_⟩
  have : (m s).2.projectOptions = s.projectOptions := (hpo s.projectOptions).run s rfl
  intro k hk hs
  rw [this] at hk
  exact h.2.2 k hk hs

theorem Keeps.getOption {P : Store → Prop} (proj name : Str) : Keeps P (getOption proj name) := by
  constructor
  intro s h
  unfold MesonModel.Life.getOption
  split <;> exact h

theorem Keeps.readAll {P : Store → Prop} (proj : Str) : ∀ l, Keeps P (readAll proj l)
  | [] => Keeps.pure' _
  | n :: r => by
    unfold MesonModel.Life.readAll
    exact Keeps.bind' (Keeps.getOption proj n) (fun v => Keeps.bind' (Keeps.readAll proj r) (fun l => Keeps.pure' _))

theorem Keeps.condOption {P : Store → Prop} (proj name : Str) : Keeps P (condOption proj name) := by
  unfold MesonModel.Life.condOption
  apply Keeps.bind' (Keeps.getOption proj name)
  intro v
  split
  · exact Keeps.pure' _
  · exact Keeps.fail _

theorem sSub_ne : sSub ≠ [] := by decide

theorem interpProg_keeps (first : Bool) (ini : List Str) (top sub : Defs) (a b c cmd : Dict) :
    Keeps (StoreInv top) (interpProg first ini top sub a b c cmd) := by
  unfold interpProg
  repeat (first
    | exact ⟨loadTop_keeps top⟩
    | exact ⟨loadSub_keeps top sSub sub sSub_ne⟩
    | exact keeps_of_three top (PresW.initTop _ _ _) (PresPC.initTop _ _ _) (fun _ => KPO.initTop _ _ _)
    | exact keeps_of_three top (PresW.initSub _ _ _ _ _) (PresPC.initSub _ _ _ _ _) (fun _ => KPO.initSub _ _ _ _ _)
    | exact Keeps.readAll _ _ | exact Keeps.condOption _ _
    | exact Keeps.pure' _ | exact Keeps.pure _ | exact Keeps.fail _
    | with_reducible apply Keeps.bind | with_reducible apply Keeps.bind'
    | intro _
    | split
    | (dsimp only))

theorem setFromConfigure_keeps (top : Defs) (args : List (Key × Option Val)) (d : Bool) :
    Keeps (StoreInv top) (setFromConfigure args d) :=
  keeps_of_three top (PresW.setFromConfigure args d) (PresPC.setFromConfigure args d) (fun _ => KPO.setFromConfigure args d)


/-! ## the directory invariant and `step` -/

/-- well-formedness of a build directory: the persisted store satisfies `StoreInv` w.r.t. the top-level option file -/
def DirInv (d : Dir) : Prop := ∀ c, d.core = some c → StoreInv d.top c.store

/-- the command does not delete an option from the top-level option file -/
def NoTopRemoval : Cmd → Prop
  | .editRemove false _ => False
  | _ => True

theorem newCore_stale : staleKeys newCore.store = [] := by
  have h : (staleKeys newCore.store).isEmpty = true := by decide +kernel
  exact List.isEmpty_iff.mp h
theorem newCore_po : newCore.store.projectOptions = [] := by
  have h : newCore.store.projectOptions.isEmpty = true := by decide +kernel
  exact List.isEmpty_iff.mp h

theorem newCore_inv (top : Defs) : StoreInv top newCore.store := by
  have hw : Wf newCore.store := by
    have e : newCore.store = (initBuiltins (Store.new false)).2 := by
      simp only [newCore]
    rw [e]
    exact PresW.initBuiltins.run _ (wf_new false)
  refine ⟨hw, parentCurrent_of_staleKeys_nil newCore_stale, ?_⟩
  intro k hk
  rw [newCore_po] at hk
  cases hk

theorem interpret_inv (first : Bool) (c : Core) (d : Dir) (cmd : Dict) (r : Interp)
    (h : interpret first c d cmd = .ok r) (hc : StoreInv d.top c.store) : StoreInv d.top r.core.store := by
  simp only [interpret] at h
  have hk := (interpProg_keeps first c.initialized d.top d.sub d.pdoTop d.pdoSub d.spcall cmd).run c.store hc
  cases hr : interpProg first c.initialized d.top d.sub d.pdoTop d.pdoSub d.spcall cmd c.store with
  | mk res s' =>
    rw [hr] at h hk
    cases res with
    | error e => simp at h
    | ok x =>
      obtain ⟨msgs, late⟩ := x
      simp only [Except.ok.injEq] at h
      subst h
      exact hk

theorem commitFirst_inv (d : Dir) (so user : Dict) (r : Except Err Interp) (hd : DirInv d)
    (hr : ∀ x, r = .ok x → StoreInv d.top x.core.store) : DirInv (commitFirst d so user r).1 := by
  cases r with
  | error e => exact hd
  | ok x =>
    simp only [commitFirst]
    split
    · exact hd
    · split
      · exact hd
      · intro c hc
        simp only [Option.some.injEq] at hc
        subst hc
        exact hr x rfl

theorem commitReconf_inv (d : Dir) (nd user : Dict) (r : Except Err Interp) (hd : DirInv d)
    (hr : ∀ x, r = .ok x → StoreInv d.top x.core.store) : DirInv (commitReconf d nd user r).1 := by
  cases r with
  | error e => exact hd
  | ok x =>
    simp only [commitReconf]
    split
    · exact hd
    · split
      · exact hd
      · intro c hc
        simp only [Option.some.injEq] at hc
        subst hc
        exact hr x rfl

theorem firstInvocation_inv (d : Dir) (so : Dict) (hd : DirInv d) : DirInv (firstInvocation d so).1 :=
  commitFirst_inv d so _ _ hd (fun x hx => interpret_inv true newCore d _ x hx (newCore_inv d.top))

theorem reconfigure_inv (d : Dir) (c : Core) (nd : Dict) (hd : DirInv d) (hc : d.core = some c) :
    DirInv (reconfigure d c nd).1 := by
  unfold reconfigure
  have h0 := (setFromConfigure_keeps d.top (dArgs nd) false).run c.store (hd c hc)
  cases hs : setFromConfigure (dArgs nd) false c.store with
  | mk res s1 =>
    rw [hs] at h0
    cases res with
    | error e => exact hd
    | ok b =>
      exact commitReconf_inv d nd _ _ hd (fun x hx => interpret_inv false { c with store := s1 } d _ x hx h0)

theorem reloadChanged_keeps (d : Dir) : ∀ (l : List (Str × Defs)), Keeps (StoreInv d.top) (reloadChanged d l)
  | [] => Keeps.pure' _
  | (p, rec) :: r => by
    have ih := reloadChanged_keeps d r
    unfold reloadChanged
    by_cases hp : p = []
    · subst hp
      simp only [beq_self_eq_true, if_true]
      split
      · exact Keeps.bind' ⟨loadTop_keeps d.top⟩ (fun _ => Keeps.bind' ih (fun _ => Keeps.pure' _))
      · exact Keeps.bind' ih (fun _ => Keeps.pure' _)
    · have hpf : (p == []) = false := by simpa using hp
      simp only [hpf, Bool.false_eq_true, if_false]
      split
      · exact Keeps.bind' ⟨loadSub_keeps d.top p d.sub hp⟩ (fun _ => Keeps.bind' ih (fun _ => Keeps.pure' _))
      · exact Keeps.bind' ih (fun _ => Keeps.pure' _)

theorem configure_inv (d : Dir) (args : List (Key × Option Val)) (hd : DirInv d) : DirInv (configure d args).1 := by
  unfold configure
  cases hc : d.core with
  | none => exact hd
  | some c =>
    dsimp only
    split
    · exact hd
    · have h1 := (reloadChanged_keeps d c.optFiles).run c.store (hd c hc)
      cases hr : reloadChanged d c.optFiles c.store with
      | mk res s1 =>
        rw [hr] at h1
        cases res with
        | error e => exact hd
        | ok files =>
          dsimp only
          have h2 := (setFromConfigure_keeps d.top args false).run s1 h1
          cases hs : setFromConfigure args false s1 with
          | mk res2 s2 =>
            rw [hs] at h2
            cases res2 with
            | error e => exact hd
            | ok dirty =>
              simp only [commitConf]
              split
              · intro c' hc'
                simp only [Option.some.injEq] at hc'
                subst hc'
                exact h2
              · intro c' hc'
                exact hd c' hc'


theorem names_ainsert (name : Str) (sp : ObjSpec) : ∀ (top : Defs) (n : Str), n ∈ top.map (·.1) →
    n ∈ (ainsert name sp top).map (·.1)
  | [], n, h => by cases h
  | (n', sp') :: r, n, h => by
    simp only [ainsert]
    split
    · rename_i e
      simp only [List.map_cons, List.mem_cons] at h ⊢
      rcases h with h | h
      · left; rw [h, e]
      · right; exact h
    · simp only [List.map_cons, List.mem_cons] at h ⊢
      rcases h with h | h
      · left; exact h
      · right; exact names_ainsert name sp r n h

theorem topKeys_mono (name : Str) (sp : ObjSpec) (top : Defs) (k : Key) (h : k ∈ topKeys top) :
    k ∈ topKeys (ainsert name sp top) := by
  simp only [topKeys, fileObjs, List.map_map, List.mem_map, Function.comp] at h ⊢
  obtain ⟨p, hp, rfl⟩ := h
  have := names_ainsert name sp top p.1 (List.mem_map_of_mem hp)
  simp only [List.mem_map] at this
  obtain ⟨q, hq, hqe⟩ := this
  exact ⟨q, hq, by rw [hqe]⟩

theorem storeInv_mono (name : Str) (sp : ObjSpec) (top : Defs) (s : Store) (h : StoreInv top s) :
    StoreInv (ainsert name sp top) s :=
  ⟨h.1, h.2.1, fun k hk hs => topKeys_mono name sp top k (h.2.2 k hk hs)⟩

/-- **the directory invariant is an invariant of `step`** for every command — setup, reconfigure, configure, wipe,
regeneration after a corrupt coredata, option-file edits, and all their failing variants — except the deletion of an
option from the top-level option file -/
theorem step_inv (d : Dir) (c : Cmd) (hc : NoTopRemoval c) (hd : DirInv d) : DirInv (step d c).1 := by
  cases c with
  | setup nd =>
    simp only [step]
    cases hcore : d.core with
    | some c0 => simp only []; exact configure_inv d _ hd
    | none =>
      simp only []
      split
      · exact hd
      · exact firstInvocation_inv d nd hd
  | configure args => exact configure_inv d args hd
  | reconfigure nd =>
    simp only [step]
    cases hcore : d.core with
    | some c0 => exact reconfigure_inv d c0 nd hd hcore
    | none =>
      simp only []
      split
      · exact firstInvocation_inv d _ hd
      · exact firstInvocation_inv d nd hd
  | wipe nd =>
    simp only [step]
    exact firstInvocation_inv _ _ (fun c h => by simp at h)
  | editSet b n sp =>
    cases b
    · intro c0 h0
      simp only [step, editDefs] at h0 ⊢
      exact storeInv_mono n sp d.top c0.store (hd c0 h0)
    · intro c0 h0
      simp only [step] at h0 ⊢
      exact hd c0 h0
  | editRemove b n =>
    cases b
    · exact absurd hc (by simp [NoTopRemoval])
    · intro c0 h0
      simp only [step] at h0 ⊢
      exact hd c0 h0
  | corrupt =>
    simp only [step]
    split
    · intro c0 h0; simp at h0
    · exact hd

/-- every history that starts from an empty build directory and never deletes an option from the top-level option
file ends in a well-formed directory -/
theorem runHist_inv : ∀ (h : List Cmd) (d : Dir), (∀ c ∈ h, NoTopRemoval c) → DirInv d → DirInv (runHist d h)
  | [], _, _, hd => hd
  | c :: r, d, hn, hd => by
    simp only [runHist]
    exact runHist_inv r _ (fun x hx => hn x (by simp [hx])) (step_inv d c (hn c (by simp)) hd)

theorem dirInv_empty (d : Dir) (h : d.core = none) : DirInv d := fun c hc => by rw [h] at hc; cases hc

end MesonModel.Life
