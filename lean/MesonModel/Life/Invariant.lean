import MesonModel.Life.ParentCurrent
/-
The well-formedness invariant of a build directory and its preservation by `step`.

`StoreInv s` = `Wf s` (ids point into the heap, distinct keys own distinct objects) ∧ `ParentCurrent s` (every
parent pointer is the object registered under the top-level key).  `DirInv d` asks it of the persisted store.

`step_inv`: EVERY command — setup, reconfigure, configure, wipe, regeneration after a corrupt coredata.dat,
option-file edits (incl. removing the last option, deleting / re-creating / renaming the file) and all their failing
variants — keeps `DirInv`.  (Before the removal pass of `update_project_options` unlinked the children of a removed
option this needed the side condition "no top-level option is deleted".)
-/
namespace MesonModel.Life
open MesonModel.Options MesonModel.Options.M
set_option linter.unusedSimpArgs false

/-! ## a generic "keeps `P`" framework -/

structure Keeps (P : Store → Prop) {α : Type} (m : M α) : Prop where
  run : ∀ s, P s → P (m s).2

namespace Keeps
variable {P : Store → Prop} {α β : Type}
theorem pure' (a : α) : Keeps P (M.pure a) := ⟨fun _ h => h⟩
theorem pure (a : α) : Keeps P (Pure.pure a : M α) := ⟨fun _ h => h⟩
theorem fail (e : Err) : Keeps P (M.fail e : M α) := ⟨fun _ h => h⟩
theorem get : Keeps P M.get := ⟨fun _ h => h⟩
theorem ofExcept (e : Except Err α) : Keeps P (M.ofExcept e) := by
  cases e <;> exact ⟨fun _ h => h⟩
theorem assert (b : Bool) : Keeps P (M.assert b) := by
  cases b <;> exact ⟨fun _ h => h⟩
theorem modify {f : Store → Store} (hf : ∀ s, P s → P (f s)) : Keeps P (M.modify f) := ⟨fun s h => hf s h⟩
theorem bind' {m : M α} {f : α → M β} (hm : Keeps P m) (hf : ∀ a, Keeps P (f a)) : Keeps P (M.bind m f) := by
  constructor
  intro s h
  have h1 := hm.run s h
  unfold M.bind
  cases hr : m s with
  | mk r s' =>
    rw [hr] at h1
    cases r with
    | ok a => exact (hf a).run s' h1
    | error e => exact h1
theorem bind {m : M α} {f : α → M β} (hm : Keeps P m) (hf : ∀ a, Keeps P (f a)) : Keeps P (m >>= f) := bind' hm hf
theorem catchMeson {m h : M α} (hm : Keeps P m) (hh : Keeps P h) : Keeps P (M.catchMeson m h) := by
  constructor
  intro s hs
  have h1 := hm.run s hs
  unfold M.catchMeson
  cases hr : m s with
  | mk r s' =>
    rw [hr] at h1
    cases r with
    | ok a => exact h1
    | error e => cases e <;> first | exact hh.run s' h1 | exact h1
theorem forEach {γ : Type} {f : γ → M Unit} (hf : ∀ x, Keeps P (f x)) : ∀ l, Keeps P (M.forEach f l)
  | [] => pure' ()
  | x :: r => bind' (hf x) (fun _ => forEach hf r)
theorem getObj (id : Nat) : Keeps P (getObj id) := by
  constructor; intro s h; unfold MesonModel.Options.getObj; split <;> exact h
end Keeps

def StoreInv (s : Store) : Prop := Wf s ∧ ParentCurrent s

theorem keeps_of_two {α : Type} {m : M α} (hw : PresW m) (hp : PresPC m) : Keeps StoreInv m :=
  ⟨fun s h => ⟨hw.run s h.1, hp.run s h.2⟩⟩

/-- re-reading an option file — any declarations, also none — keeps the invariant -/
theorem loadOptionFile_keeps (proj : Str) (defs : Defs) : Keeps StoreInv (loadOptionFile proj defs) := by
  constructor
  intro s h
  unfold loadOptionFile
  cases hm : mkObjs (fileObjs proj defs) with
  | error e => simpa [bind, M.bind, M.ofExcept, M.fail] using h
  | ok os =>
    have : (M.ofExcept (Except.ok os : Except Err _) >>= fun os => updateProjectOptions proj os) s
        = updateProjectOptions proj os s := by simp [bind, M.bind, M.ofExcept, M.pure]
    rw [this]
    exact ⟨(PresW.updateProjectOptions proj os).run s h.1,
      update_project_options_keeps_parentCurrent proj os s h.1 h.2 (mkObjs_parent hm)⟩

theorem Keeps.getOption {P : Store → Prop} (proj name : Str) : Keeps P (getOption proj name) := by
  constructor
  intro s h
  unfold MesonModel.Life.getOption
  split <;> exact h

theorem Keeps.readAll {P : Store → Prop} (proj : Str) : ∀ l, Keeps P (readAll proj l)
  | [] => Keeps.pure' _
  | n :: r => by
    unfold MesonModel.Life.readAll
    exact Keeps.bind' (Keeps.getOption proj n) (fun v => Keeps.bind' (Keeps.readAll proj r) (fun l => Keeps.pure' _))

theorem Keeps.condOption {P : Store → Prop} (proj name : Str) : Keeps P (condOption proj name) := by
  unfold MesonModel.Life.condOption
  apply Keeps.bind' (Keeps.getOption proj name)
  intro v
  split
  · exact Keeps.pure' _
  · exact Keeps.fail _

theorem Keeps.condIfDeclared {P : Store → Prop} (defs : Defs) (proj name : Str) : Keeps P (condIfDeclared defs proj name) := by
  unfold MesonModel.Life.condIfDeclared
  split
  · exact Keeps.condOption _ _
  · exact Keeps.pure' _

theorem interpExtras_keeps (first : Bool) (ini : List Str) (cmd : Dict) :
    ∀ (l : List Extra), Keeps StoreInv (interpExtras first ini cmd l)
  | [] => Keeps.pure' _
  | x :: r => by
    have ih := interpExtras_keeps first ini cmd r
    unfold interpExtras
    refine Keeps.bind' (loadOptionFile_keeps _ _) (fun _ => Keeps.bind' ?_ (fun _ =>
      Keeps.bind' (Keeps.readAll _ _) (fun _ => Keeps.bind' ih (fun _ => Keeps.pure' _))))
    split
    · exact keeps_of_two (PresW.initSub _ _ _ _ _) (PresPC.initSub _ _ _ _ _)
    · exact Keeps.pure' _

theorem interpProg_keeps (first : Bool) (ini : List Str) (top sub : Defs) (a b c cmd : Dict) (more : List Extra) :
    Keeps StoreInv (interpProg first ini top sub a b c cmd more) := by
  unfold interpProg
  repeat (first
    | exact loadOptionFile_keeps _ _
    | exact interpExtras_keeps _ _ _ _
    | exact keeps_of_two (PresW.initTop _ _ _) (PresPC.initTop _ _ _)
    | exact keeps_of_two (PresW.initSub _ _ _ _ _) (PresPC.initSub _ _ _ _ _)
    | exact Keeps.readAll _ _ | exact Keeps.condIfDeclared _ _ _
    | exact Keeps.pure' _ | exact Keeps.pure _ | exact Keeps.fail _
    | with_reducible apply Keeps.bind | with_reducible apply Keeps.bind'
    | intro _
    | split
    | (dsimp only))

theorem setFromConfigure_keeps (args : List (Key × Option Val)) (d : Bool) : Keeps StoreInv (setFromConfigure args d) :=
  keeps_of_two (PresW.setFromConfigure args d) (PresPC.setFromConfigure args d)

theorem setFromConfigureCommand_keeps (args : List (Key × Option Val)) : Keeps StoreInv (setFromConfigureCommand args) :=
  setFromConfigure_keeps _ false

/-! ## the directory invariant and `step` -/

/-- well-formedness of a build directory: in the persisted store distinct keys own distinct objects inside the heap
and every parent pointer is the object registered under the top-level key -/
def DirInv (d : Dir) : Prop := ∀ c, d.core = some c → StoreInv c.store

theorem newCore_stale : staleKeys newCore.store = [] := by
  have h : (staleKeys newCore.store).isEmpty = true := by decide +kernel
  exact List.isEmpty_iff.mp h

theorem newCore_inv : StoreInv newCore.store := by
  have hw : Wf newCore.store := by
    have e : newCore.store = (initBuiltins (Store.new false)).2 := by
      simp only [newCore]
    rw [e]
    exact PresW.initBuiltins.run _ (wf_new false)
  exact ⟨hw, parentCurrent_of_staleKeys_nil newCore_stale⟩

theorem interpret_inv (first : Bool) (c : Core) (d : Dir) (cmd : Dict) (r : Interp)
    (h : interpret first c d cmd = .ok r) (hc : StoreInv c.store) : StoreInv r.core.store := by
  simp only [interpret] at h
  have hk := (interpProg_keeps first c.initialized d.topEff d.subEff d.pdoTop d.pdoSub d.spcall cmd d.more).run c.store hc
  cases hr : interpProg first c.initialized d.topEff d.subEff d.pdoTop d.pdoSub d.spcall cmd d.more c.store with
  | mk res s' =>
    rw [hr] at h hk
    cases res with
    | error e => simp at h
    | ok x =>
      obtain ⟨msgs, late⟩ := x
      simp only [Except.ok.injEq] at h
      subst h
      exact hk

theorem commitFirst_inv (d : Dir) (so user : Dict) (r : Except Err Interp) (hd : DirInv d)
    (hr : ∀ x, r = .ok x → StoreInv x.core.store) : DirInv (commitFirst d so user r).1 := by
  cases r with
  | error e => exact hd
  | ok x =>
    simp only [commitFirst]
    split
    · exact hd
    · split
      · exact hd
      · intro c hc
        simp only [Option.some.injEq] at hc
        subst hc
        exact hr x rfl

theorem commitReconf_inv (d : Dir) (nd user : Dict) (r : Except Err Interp) (hd : DirInv d)
    (hr : ∀ x, r = .ok x → StoreInv x.core.store) : DirInv (commitReconf d nd user r).1 := by
  cases r with
  | error e => exact hd
  | ok x =>
    simp only [commitReconf]
    split
    · exact hd
    · split
      · exact hd
      · intro c hc
        simp only [Option.some.injEq] at hc
        subst hc
        exact hr x rfl

theorem firstInvocation_inv (d : Dir) (so : Dict) (hd : DirInv d) : DirInv (firstInvocation d so).1 :=
  commitFirst_inv d so _ _ hd (fun x hx => interpret_inv true newCore d _ x hx newCore_inv)

theorem reconfigure_inv (d : Dir) (c : Core) (nd : Dict) (hd : DirInv d) (hc : d.core = some c) :
    DirInv (reconfigure d c nd).1 := by
  unfold reconfigure
  have h0 := (setFromConfigureCommand_keeps (dArgs nd)).run c.store (hd c hc)
  cases hs : setFromConfigureCommand (dArgs nd) c.store with
  | mk res s1 =>
    rw [hs] at h0
    cases res with
    | error e => exact hd
    | ok b =>
      exact commitReconf_inv d nd _ _ hd (fun x hx => interpret_inv false { c with store := s1 } d _ x hx h0)

theorem reloadChanged_keeps (d : Dir) : ∀ (l : List (Str × Option Bool × Defs)), Keeps StoreInv (reloadChanged d l)
  | [] => Keeps.pure' _
  | (p, recF, rec) :: r => by
    have ih := reloadChanged_keeps d r
    unfold reloadChanged
    dsimp only
    repeat (first
      | exact Keeps.bind' (loadOptionFile_keeps _ _) (fun _ => Keeps.bind' ih (fun _ => Keeps.pure' _))
      | exact Keeps.bind' ih (fun _ => Keeps.pure' _)
      | split)

theorem configure_inv (d : Dir) (args : List (Key × Option Val)) (hd : DirInv d) : DirInv (configure d args).1 := by
  unfold configure
  cases hc : d.core with
  | none => exact hd
  | some c =>
    dsimp only
    split
    · exact hd
    · have h1 := (reloadChanged_keeps d c.optFiles).run c.store (hd c hc)
      cases hr : reloadChanged d c.optFiles c.store with
      | mk res s1 =>
        rw [hr] at h1
        cases res with
        | error e => exact hd
        | ok files =>
          dsimp only
          have h2 := (setFromConfigureCommand_keeps args).run s1 h1
          cases hs : setFromConfigureCommand args s1 with
          | mk res2 s2 =>
            rw [hs] at h2
            cases res2 with
            | error e => exact hd
            | ok dirty =>
              simp only [commitConf]
              split
              · intro c' hc'
                simp only [Option.some.injEq] at hc'
                subst hc'
                exact h2
              · intro c' hc'
                exact hd c' hc'

/-- **the directory invariant is an invariant of `step`, for every command** -/
theorem step_inv (d : Dir) (c : Cmd) (hd : DirInv d) : DirInv (step d c).1 := by
  cases c with
  | setup nd =>
    simp only [step]
    cases hcore : d.core with
    | some c0 => simp only []; exact configure_inv d _ hd
    | none =>
      simp only []
      split
      · exact hd
      · exact firstInvocation_inv d _ hd
  | configure args => exact configure_inv d args hd
  | reconfigure nd =>
    simp only [step]
    cases hcore : d.core with
    | some c0 => exact reconfigure_inv d c0 nd hd hcore
    | none =>
      simp only []
      exact firstInvocation_inv d _ hd
  | wipe nd =>
    simp only [step]
    exact firstInvocation_inv _ _ (fun c h => by simp at h)
  | editSet b n sp =>
    cases b <;> (intro c0 h0; simp only [step] at h0; exact hd c0 h0)
  | editRemove b n =>
    cases b <;> (intro c0 h0; simp only [step] at h0; exact hd c0 h0)
  | corrupt =>
    simp only [step]
    split
    · intro c0 h0; simp at h0
    · exact hd
  | fileSet b f =>
    cases b <;> (intro c0 h0; simp only [step] at h0; exact hd c0 h0)
  | extra p e =>
    intro c0 h0; simp only [step] at h0; exact hd c0 h0

/-- every history from a well-formed directory ends in a well-formed directory -/
theorem runHist_inv : ∀ (h : List Cmd) (d : Dir), DirInv d → DirInv (runHist d h)
  | [], _, hd => hd
  | c :: r, d, hd => by
    simp only [runHist]
    exact runHist_inv r _ (step_inv d c hd)

theorem dirInv_empty (d : Dir) (h : d.core = none) : DirInv d := fun c hc => by rw [h] at hc; cases hc

end MesonModel.Life
