import MesonModel.Options.ParentOps
import MesonModel.Life.UpdateLemmas
/-
`ParentCurrent`: every option's parent pointer is the object registered under its top-level key.

This is the invariant behind `yield_follows_current_parent` and `drop_override_returns_inherited`: an inheriting
option reads `heap[parent]`, the user sets `options[key.asRoot]`; they are the same object exactly when the invariant
holds.  `update_project_options` is the operation that replaces objects under existing keys; the repaired code
re-points *all* children of a replaced object (yielding or overridden).  A variant that re-points only the children
that are yielding at that moment (`repointYieldingOnly`) breaks the invariant for an overridden child — nothing is
visible until the override is dropped later.
-/
namespace MesonModel.Options
open M

/-- every parent pointer of a registered option is the object registered under the option's top-level key -/
def ParentCurrent (s : Store) : Prop :=
  ∀ (k : Key) (id : Nat) (o : Obj) (pid : Nat), alookup k s.options = some id → s.heap[id]? = some o →
    o.parent = some pid → alookup k.asRoot s.options = some pid

/-- `m` preserves `ParentCurrent`, whether it returns or raises -/
structure PresPC {α : Type} (m : M α) : Prop where
  run : ∀ s, ParentCurrent s → ParentCurrent (m s).2

namespace PresPC
variable {α β : Type}
theorem pure' (a : α) : PresPC (M.pure a) := ⟨fun _ h => h⟩
theorem pure (a : α) : PresPC (Pure.pure a : M α) := ⟨fun _ h => h⟩
theorem fail (e : Err) : PresPC (M.fail e : M α) := ⟨fun _ h => h⟩
theorem get : PresPC M.get := ⟨fun _ h => h⟩
theorem ofExcept (e : Except Err α) : PresPC (M.ofExcept e) := by
  cases e <;> exact ⟨fun _ h => h⟩
theorem assert (b : Bool) : PresPC (M.assert b) := by
  cases b <;> exact ⟨fun _ h => h⟩
theorem modify {f : Store → Store} (hf : ∀ s, ParentCurrent s → ParentCurrent (f s)) : PresPC (M.modify f) :=
  ⟨fun s h => hf s h⟩
theorem bind' {m : M α} {f : α → M β} (hm : PresPC m) (hf : ∀ a, PresPC (f a)) : PresPC (M.bind m f) := by
  constructor
  intro s h
  have h1 := hm.run s h
  unfold M.bind
  cases hr : m s with
  | mk r s' =>
    rw [hr] at h1
    cases r with
    | ok a => exact (hf a).run s' h1
    | error e => exact h1
theorem bind {m : M α} {f : α → M β} (hm : PresPC m) (hf : ∀ a, PresPC (f a)) : PresPC (m >>= f) := bind' hm hf
theorem catchMeson {m h : M α} (hm : PresPC m) (hh : PresPC h) : PresPC (M.catchMeson m h) := by
  constructor
  intro s hs
  have h1 := hm.run s hs
  unfold M.catchMeson
  cases hr : m s with
  | mk r s' =>
    rw [hr] at h1
    cases r with
    | ok a => exact h1
    | error e => cases e <;> first | exact hh.run s' h1 | exact h1
theorem forEach {γ : Type} {f : γ → M Unit} (hf : ∀ x, PresPC (f x)) : ∀ l, PresPC (M.forEach f l)
  | [] => pure' ()
  | x :: r => bind' (hf x) (fun _ => forEach hf r)
end PresPC

/-- an update of one object that keeps its parent pointer -/
theorem parentCurrent_updObj {s : Store} (id : Nat) (f : Obj → Obj) (hp : ∀ o, (f o).parent = o.parent)
    (h : ParentCurrent s) : ParentCurrent (s.updObj id f) := by
  unfold Store.updObj
  cases hid : s.heap[id]? with
  | none => exact h
  | some o0 =>
    show ParentCurrent { s with heap := s.heap.set id (f o0) }
    intro k i o pid hk hi hpar
    simp only [List.getElem?_set] at hi
    split at hi
    · rename_i heq
      split at hi
      · cases hi
        rw [hp] at hpar
        exact h k i o0 pid hk (by rw [← heq]; exact hid) hpar
      · cases hi
    · exact h k i o pid hk hi hpar

theorem PresPC.getObj (id : Nat) : PresPC (getObj id) := by
  constructor; intro s h; unfold MesonModel.Options.getObj; split <;> exact h

theorem PresPC.objSetValue (id : Nat) (v : Val) : PresPC (objSetValue id v) := by
  unfold MesonModel.Options.objSetValue
  apply PresPC.bind (PresPC.getObj id); intro o
  apply PresPC.bind (PresPC.ofExcept _); intro w
  exact PresPC.modify (fun s h => parentCurrent_updObj id _ (fun _ => rfl) h)

theorem PresPC.objSetYielding (id : Nat) (b : Bool) : PresPC (objSetYielding id b) :=
  PresPC.modify (fun s h => parentCurrent_updObj id _ (fun _ => rfl) h)

macro "pc_core" : tactic => `(tactic| first
  | exact PresPC.pure' _ | exact PresPC.pure _ | exact PresPC.fail _ | exact PresPC.get | exact PresPC.ofExcept _
  | exact PresPC.assert _ | exact PresPC.getObj _ | exact PresPC.objSetValue _ _ | exact PresPC.objSetYielding _ _
  | (apply PresPC.modify; intro s hs; exact hs)
  | assumption
  | with_reducible apply PresPC.bind | with_reducible apply PresPC.bind' | with_reducible apply PresPC.forEach
  | with_reducible apply PresPC.catchMeson
  | intro _
  | split
  | (dsimp only))

/-! ### every way of *setting* a value (`set_option`, `set_user_option`, `set_from_configure_command` incl. `-U`) -/

theorem PresPC.resetPrefixedOptions (a b : Str) : PresPC (resetPrefixedOptions a b) := by
  unfold MesonModel.Options.resetPrefixedOptions; repeat pc_core
theorem PresPC.setOptionTail (s : Store) (k : Key) (f : Bool) (id : Nat) (v : Val) : PresPC (setOptionTail s k f id v) := by
  unfold MesonModel.Options.setOptionTail; repeat (first | exact PresPC.resetPrefixedOptions _ _ | pc_core)
theorem PresPC.setOptionCore (k : Key) (v : Val) (f : Bool) : PresPC (setOptionCore k v f) := by
  unfold MesonModel.Options.setOptionCore; repeat (first | exact PresPC.setOptionTail _ _ _ _ _ | pc_core)
theorem PresPC.setOption (k : Key) (v : Val) (f : Bool) : PresPC (setOption k v f) := by
  unfold MesonModel.Options.setOption; repeat (first | exact PresPC.setOptionCore _ _ _ | pc_core)
theorem PresPC.setUserOption (k : Key) (v : Val) (f : Bool) : PresPC (setUserOption k v f) := by
  unfold MesonModel.Options.setUserOption; repeat (first | exact PresPC.setOption _ _ _ | pc_core)
theorem PresPC.configureOne (kv : Key × Option Val) : PresPC (configureOne kv) := by
  unfold MesonModel.Options.configureOne; repeat (first | exact PresPC.setUserOption _ _ _ | pc_core)
theorem PresPC.setFromConfigure : ∀ (l : List (Key × Option Val)) (d : Bool), PresPC (setFromConfigure l d)
  | [], d => PresPC.pure' d
  | kv :: r, d => by
    unfold MesonModel.Options.setFromConfigure
    exact PresPC.bind' (PresPC.configureOne kv) (fun b => PresPC.setFromConfigure r (d || b))

/-! ### first invocation: command line / default_options / machine-file values are *set*, no key is inserted -/

theorem PresPC.hardResetFromPrefix (p : Str) : PresPC (hardResetFromPrefix p) := by
  unfold MesonModel.Options.hardResetFromPrefix; repeat pc_core
theorem PresPC.firstHandlePrefix (a b c : Dict) : PresPC (firstHandlePrefix a b c) := by
  unfold MesonModel.Options.firstHandlePrefix; repeat (first | exact PresPC.hardResetFromPrefix _ | pc_core)
theorem PresPC.initTop (a b c : Dict) : PresPC (initTop a b c) := by
  unfold MesonModel.Options.initTop
  repeat (first | exact PresPC.firstHandlePrefix _ _ _ | exact PresPC.setUserOption _ _ _ | pc_core)
theorem PresPC.applyMergedWith (ex : Dict) (sub : Str) (d : Dict) : PresPC (applyMergedWith ex sub d) := by
  unfold MesonModel.Options.applyMergedWith
  repeat (first | exact PresPC.setUserOption _ _ _ | pc_core)
theorem PresPC.applyMerged (sub : Str) (d : Dict) : PresPC (applyMerged sub d) :=
  ⟨fun s h => (PresPC.applyMergedWith s.augments sub (buildtypeFirst d)).run s h⟩
theorem PresPC.initSub (sub : Str) (a b c d : Dict) : PresPC (initSub sub a b c d) := by
  unfold MesonModel.Options.initSub
  repeat (first | exact PresPC.applyMerged _ _ | pc_core)

/-! ### `update_project_options`: the operation that replaces objects under existing keys -/

set_option linter.unusedSimpArgs false

def repointFn (n : Obj) (oid nid : Nat) (c : Obj) : Obj :=
  if c.parent = some oid then
    (if n.kind.sameClass c.kind then { c with parent := some nid } else { c with parent := none, yielding := false })
  else c

theorem linkParent_some {s : Store} {k : Key} {o : Obj} {pid : Nat} (ho : o.parent = none)
    (h : linkParent s k o = some pid) : k.subTruthy = true ∧ alookup k.asRoot s.options = some pid := by
  unfold linkParent at h
  split at h
  · rename_i hc
    simp only [Bool.and_eq_true] at hc
    split at h
    · split at h
      · split at h
        · cases h; exact ⟨hc.2, by assumption⟩
        · rw [ho] at h; cases h
      · rw [ho] at h; cases h
    · rw [ho] at h; cases h
  · rw [ho] at h; cases h

theorem asRoot_ne_of_subTruthy {k : Key} (h : k.subTruthy = true) : k.asRoot ≠ k := by
  intro e
  cases k with
  | mk n sb m =>
    simp only [Key.asRoot, Key.mk.injEq] at e
    simp only [Key.subTruthy] at h
    rw [← e.2.1] at h
    simp at h

/-- the store after `alloc n'; options[key] := nid; repointChildren oid nid` -/
def replacedStore (s : Store) (key : Key) (n' : Obj) (oid : Nat) : Store :=
  { s with heap := (s.heap ++ [n']).map (fun c => repointFn n' oid s.heap.length c), options := ainsert key s.heap.length s.options }

theorem parentCurrent_replaced (s : Store) (key : Key) (nobj : Obj) (oid : Nat) (y : Bool)
    (hw : Wf s) (hpc : ParentCurrent s) (hk : alookup key s.options = some oid) (hn : nobj.parent = none) :
    ParentCurrent (replacedStore s key { nobj with parent := linkParent s key nobj, yielding := y } oid) := by
  intro k id o pid hko hio hpar
  simp only [replacedStore] at hko hio ⊢
  rw [alookup_ainsert] at hko
  simp only [List.getElem?_map, Option.map_eq_some_iff] at hio
  obtain ⟨c, hc, rfl⟩ := hio
  by_cases hkk : key = k
  · subst hkk
    simp only [if_true, Option.some.injEq] at hko
    subst hko
    simp at hc
    subst hc
    -- the replacement itself: its parent is the registered top-level object, which is not the replaced object
    cases hl : linkParent s key nobj with
    | none => simp [repointFn, hl] at hpar
    | some p =>
      obtain ⟨hst, hroot⟩ := linkParent_some hn hl
      have hne : key.asRoot ≠ key := asRoot_ne_of_subTruthy hst
      have hpo : p ≠ oid := by
        intro e; subst e
        exact hne (hw.2 _ _ _ hroot hk)
      have hp' : pid = p := by
        simp [repointFn, hl, hpo] at hpar
        exact hpar.symm
      subst hp'
      rw [alookup_ainsert, if_neg (Ne.symm hne)]
      exact hroot
  · rw [if_neg hkk] at hko
    have hlt : id < s.heap.length := hw.1 k id hko
    rw [List.getElem?_append_left hlt] at hc
    by_cases hco : c.parent = some oid
    · -- a child of the replaced object: its top-level key is `key`
      have hr : k.asRoot = key := hw.2 _ _ _ (hpc k id c oid hko hc hco) hk
      rw [hr, alookup_ainsert, if_pos rfl]
      simp only [repointFn, hco, if_true] at hpar
      split at hpar
      · simpa using hpar
      · simp at hpar
    · have hf : repointFn { nobj with parent := linkParent s key nobj, yielding := y } oid s.heap.length c = c := by
        simp [repointFn, hco]
      rw [hf] at hpar
      have h1 := hpc k id c pid hko hc hpar
      rw [alookup_ainsert]
      split
      · rename_i e
        rw [← e, hk] at h1
        cases h1
        exact absurd hpar hco
      · exact h1


theorem replaceObj_eq (key : Key) (nobj old : Obj) (oid : Nat) (b : Bool) (s : Store) :
    replaceObj key nobj old oid b s =
      (if b then M.pure () else catchMeson (objSetValue s.heap.length old.value) (M.pure ()))
        (replacedStore s key { nobj with parent := linkParent s key nobj,
                                         yielding := (linkParent s key nobj).isSome && (b || old.parent.isNone || old.yielding) } oid) := by
  simp [replaceObj, bind, M.bind, M.get, alloc, M.modify, repointChildren, replacedStore, repointFn]

/-- the replacement of an option object keeps every parent pointer current — for *all* children of the replaced
object, yielding or overridden -/
theorem replaceObj_keeps_parentCurrent (key : Key) (nobj old : Obj) (oid : Nat) (b : Bool) (s : Store)
    (hw : Wf s) (hpc : ParentCurrent s) (hk : alookup key s.options = some oid) (hn : nobj.parent = none) :
    ParentCurrent (replaceObj key nobj old oid b s).2 := by
  rw [replaceObj_eq]
  have h := parentCurrent_replaced s key nobj oid
    ((linkParent s key nobj).isSome && (b || old.parent.isNone || old.yielding)) hw hpc hk hn
  cases b
  · exact (PresPC.catchMeson (PresPC.objSetValue _ _) (PresPC.pure' ())).run _ h
  · exact h


/-- a new key with a fresh object whose parent (if any) is the registered top-level object -/
theorem parentCurrent_insertNew (s : Store) (k : Key) (n' : Obj) (po : List Key) (hw : Wf s) (hpc : ParentCurrent s)
    (hnew : alookup k s.options = none)
    (hp : ∀ pid, n'.parent = some pid → alookup k.asRoot s.options = some pid ∧ k.asRoot ≠ k) :
    ParentCurrent { s with heap := s.heap ++ [n'], options := ainsert k s.heap.length s.options, projectOptions := po } := by
  intro k' id o pid hko hio hpar
  simp only at hko hio ⊢
  rw [alookup_ainsert] at hko
  by_cases hkk : k = k'
  · subst hkk
    simp only [if_true, Option.some.injEq] at hko
    subst hko
    simp at hio
    subst hio
    obtain ⟨h1, h2⟩ := hp pid hpar
    rw [alookup_ainsert, if_neg (Ne.symm h2)]
    exact h1
  · rw [if_neg hkk] at hko
    have hlt : id < s.heap.length := hw.1 k' id hko
    rw [List.getElem?_append_left hlt] at hio
    have h1 := hpc k' id o pid hko hio hpar
    rw [alookup_ainsert]
    split
    · rename_i e
      rw [← e, hnew] at h1
      cases h1
    · exact h1

theorem addProjectOption_keeps_parentCurrent (k0 : Key) (o : Obj) (s : Store) (hw : Wf s) (hpc : ParentCurrent s)
    (ho : o.parent = none) : ParentCurrent (addProjectOption k0 o s).2 := by
  have hlink : ∀ pid, linkParent s (ensureKey s k0) o = some pid →
      alookup (ensureKey s k0).asRoot s.options = some pid ∧ (ensureKey s k0).asRoot ≠ ensureKey s k0 := by
    intro pid h
    obtain ⟨h1, h2⟩ := linkParent_some ho h
    exact ⟨h2, asRoot_ne_of_subTruthy h1⟩
  by_cases hs : (ensureKey s k0).sub.isSome = true
  · cases hk : alookup (ensureKey s k0) s.options with
    | some id =>
      have : (addProjectOption k0 o s).2 = s := by
        simp [addProjectOption, bind, M.bind, M.get, M.assert, hs, ahas, hk, M.pure, M.fail]
      rw [this]; exact hpc
    | none =>
      have h := parentCurrent_insertNew s (ensureKey s k0)
        { o with parent := linkParent s (ensureKey s k0) o, yielding := (linkParent s (ensureKey s k0) o).isSome }
        (setAdd (ensureKey s k0) s.projectOptions) hw hpc hk (fun pid hp => hlink pid hp)
      have : (addProjectOption k0 o s).2 =
          { s with heap := s.heap ++ [{ o with parent := linkParent s (ensureKey s k0) o,
                                               yielding := (linkParent s (ensureKey s k0) o).isSome }],
                   options := ainsert (ensureKey s k0) s.heap.length s.options,
                   projectOptions := setAdd (ensureKey s k0) s.projectOptions } := by
        by_cases hpn : (alookup (ensureKey s k0) s.pending).isSome = true <;>
          simp [addProjectOption, bind, M.bind, M.get, M.assert, hs, ahas, hk, M.pure, alloc, M.modify, linkParent, hpn, M.fail]
      rw [this]; exact h
  · have : (addProjectOption k0 o s).2 = s := by
      simp [addProjectOption, bind, M.bind, M.get, M.assert, hs, M.pure, M.fail]
    rw [this]; exact hpc


theorem ensureKey_of_host (s : Store) (k : Key) (hm : k.machine = .host) : ensureKey s k = k := by
  cases k; simp_all [ensureKey, Key.asHost]

/-- one entry of a re-read option file keeps every parent pointer current -/
theorem updateOne_keeps_parentCurrent (sub : Str) (key : Key) (nobj : Obj) (s : Store) (hw : Wf s) (hpc : ParentCurrent s)
    (hn : nobj.parent = none) : ParentCurrent (updateOne sub (key, nobj) s).2 := by
  by_cases hm : key.machine = .host
  · have he := ensureKey_of_host s key hm
    cases hk : alookup key s.options with
    | none =>
      have : (updateOne sub (key, nobj) s).2 = (addProjectOption key nobj s).2 := by
        simp [updateOne, bind, M.bind, M.assert, M.get, hm, ahas, hk, M.pure]
      rw [this]; exact addProjectOption_keeps_parentCurrent key nobj s hw hpc hn
    | some oid =>
      by_cases hs : key.sub = some sub
      · cases ho : s.heap[oid]? with
        | none =>
          have : (updateOne sub (key, nobj) s).2 = s := by
            simp [updateOne, bind, M.bind, M.assert, M.get, hm, ahas, hk, M.pure, hs, he, getObj, ho]
          rw [this]; exact hpc
        | some old =>
          by_cases hd : (!(old.kind.sameClass nobj.kind) || old.kind.choicesDiffer nobj.kind) = true
          · have : (updateOne sub (key, nobj) s).2 = (replaceObj key nobj old oid (!(old.kind.sameClass nobj.kind)) s).2 := by
              have hd' : old.kind.sameClass nobj.kind = false ∨ old.kind.choicesDiffer nobj.kind = true := by
                simpa using hd
              simp [updateOne, bind, M.bind, M.assert, M.get, hm, ahas, hk, M.pure, hs, he, getObj, ho, hd']
            rw [this]; exact replaceObj_keeps_parentCurrent key nobj old oid _ s hw hpc hk hn
          · have : (updateOne sub (key, nobj) s).2 = s := by
              simp only [Bool.or_eq_true, not_or, Bool.not_eq_true] at hd
              simp [updateOne, bind, M.bind, M.assert, M.get, hm, ahas, hk, M.pure, hs, he, getObj, ho, hd]
            rw [this]; exact hpc
      · have : (updateOne sub (key, nobj) s).2 = s := by
          simp [updateOne, bind, M.bind, M.assert, M.get, hm, ahas, hk, M.pure, hs, M.fail]
        rw [this]; exact hpc
  · have : (updateOne sub (key, nobj) s).2 = s := by
      have : (key.machine == Machine.host) = false := by simpa using hm
      simp [updateOne, bind, M.bind, M.assert, M.get, this, M.fail]
    rw [this]; exact hpc

/-- the loop of `update_project_options` (before the removal pass) -/
theorem updateLoop_keeps (sub : Str) : ∀ (objs : List (Key × Obj)) (s : Store), Wf s → ParentCurrent s →
    (∀ kv ∈ objs, kv.2.parent = none) →
    Wf (forEach (updateOne sub) objs s).2 ∧ ParentCurrent (forEach (updateOne sub) objs s).2
  | [], s, hw, hpc, _ => ⟨hw, hpc⟩
  | kv :: r, s, hw, hpc, hn => by
    have hw1 := (PresW.updateOne sub kv).run s hw
    have hp1 := updateOne_keeps_parentCurrent sub kv.1 kv.2 s hw hpc (hn kv (by simp))
    simp only [forEach, M.bind]
    cases hr : updateOne sub kv s with
    | mk res s1 =>
      rw [hr] at hw1 hp1
      cases res with
      | error e => exact ⟨hw1, hp1⟩
      | ok u => exact updateLoop_keeps sub r s1 hw1 hp1 (fun x hx => hn x (by simp [hx]))


theorem mem_of_alookup {α : Type} (k : Key) (v : α) : ∀ (l : List (Key × α)), alookup k l = some v → (k, v) ∈ l
  | [], h => by simp [alookup] at h
  | (k', v') :: r, h => by
    simp only [alookup] at h
    split at h
    · rename_i e; cases h; simp [e]
    · simp [mem_of_alookup k v r h]

/-- `update_project_options` keeps every parent pointer current — for all children (yielding or overridden) of a
replaced object, and, because the removal pass unlinks the children of a removed option, whatever is removed -/
theorem update_project_options_keeps_parentCurrent (sub : Str) (objs : List (Key × Obj)) (s : Store)
    (hw : Wf s) (hpc : ParentCurrent s) (hn : ∀ kv ∈ objs, kv.2.parent = none) :
    ParentCurrent (updateProjectOptions sub objs s).2 := by
  obtain ⟨hw1, hp1⟩ := updateLoop_keeps sub objs s hw hpc hn
  simp only [updateProjectOptions, bind, M.bind]
  cases hr : forEach (updateOne sub) objs s with
  | mk res s1 =>
    rw [hr] at hw1 hp1
    cases res with
    | error e => exact hp1
    | ok u =>
      simp only [M.get, M.modify, unlinkChildren]
      intro k id o pid hk hi hpar
      simp only at hk hi ⊢
      have hf := alookup_filter_key k
        (fun k => !((!objs.any fun p => p.fst == k) && s1.isProjectOption k && k.sub == some sub)) s1.options
      rw [hf] at hk
      by_cases hq : (!((!objs.any fun p => p.fst == k) && s1.isProjectOption k && k.sub == some sub)) = true
      · simp only [hq, if_true] at hk
        simp only [List.getElem?_map, Option.map_eq_some_iff] at hi
        obtain ⟨c, hc, rfl⟩ := hi
        -- the object before the unlinking had the same parent, and that parent is not a removed object
        have hcp : c.parent = some pid ∧
            ((List.filter (fun p => (!objs.any fun p_1 => p_1.fst == p.fst) && s1.isProjectOption p.fst && p.fst.sub == some sub)
              s1.options).map (·.2)).contains pid = false := by
          split at hpar
          · rename_i pid' hp'
            split at hpar
            · cases hpar
            · rename_i hnc
              rw [hp'] at hpar
              cases hpar
              exact ⟨hp', by simpa using hnc⟩
          · rename_i hnone
            rw [hnone] at hpar; cases hpar
        have h1 := hp1 k id c pid hk hc hcp.1
        have hf2 := alookup_filter_key k.asRoot
          (fun k => !((!objs.any fun p => p.fst == k) && s1.isProjectOption k && k.sub == some sub)) s1.options
        rw [hf2]
        by_cases hg : ((!objs.any fun p => p.fst == k.asRoot) && s1.isProjectOption k.asRoot && k.asRoot.sub == some sub) = true
        · -- the top-level key is removed: then its object is among the removed ones
          exfalso
          have hm := mem_of_alookup k.asRoot pid s1.options h1
          have : ((List.filter (fun p => (!objs.any fun p_1 => p_1.fst == p.fst) && s1.isProjectOption p.fst && p.fst.sub == some sub)
              s1.options).map (·.2)).contains pid = true := by
            simp only [List.contains_eq_mem, List.mem_map, List.mem_filter, decide_eq_true_eq]
            exact ⟨(k.asRoot, pid), ⟨hm, hg⟩, rfl⟩
          rw [this] at hcp
          exact Bool.noConfusion hcp.2
        · simp [hg, h1]
      · simp [hq] at hk

/-! ### the computable form, and the variant that re-points only the children that are yielding -/

def isStale (s : Store) (k : Key) : Bool :=
  match alookup k s.options with
  | some id =>
    match s.heap[id]? with
    | some o =>
      match o.parent with
      | some pid => !(alookup k.asRoot s.options == some pid)
      | none => false
    | none => false
  | none => false

/-- registered options whose parent pointer is not the registered top-level object -/
def staleKeys (s : Store) : List Key := (s.options.map (·.1)).filter (isStale s)

theorem staleKeys_nil_of_parentCurrent {s : Store} (h : ParentCurrent s) : staleKeys s = [] := by
  simp only [staleKeys, List.filter_eq_nil_iff, List.mem_map]
  intro k _
  simp only [isStale]
  split
  · rename_i id hk
    split
    · rename_i o ho
      split
      · rename_i pid hp
        simp [h k id o pid hk ho hp]
      · simp
    · simp
  · simp

/-- the seeded variant of the re-pointing loop: `if child.yielding and child.parent is oldval` -/
def repointYieldingOnly (oid nid : Nat) : M Unit :=
  modify (fun s =>
    match s.heap[nid]? with
    | none => s
    | some n =>
      { s with heap := s.heap.map (fun c =>
          if c.yielding && c.parent == some oid then
            (if n.kind.sameClass c.kind then { c with parent := some nid }
             else { c with parent := none, yielding := false })
          else c) })

def replaceObjY (key : Key) (nobj old : Obj) (oid : Nat) (retyped : Bool) : M Unit := do
  let s2 ← get
  let nid ← alloc { nobj with parent := linkParent s2 key nobj,
                              yielding := (linkParent s2 key nobj).isSome && (retyped || old.parent.isNone || old.yielding) }
  modify (fun s => { s with options := ainsert key nid s.options })
  repointYieldingOnly oid nid
  if retyped then M.pure () else catchMeson (objSetValue nid old.value) (M.pure ())

/-- the five-step history of the variant on the store API: an inheriting pair, the child overridden, the parent's
choices changed (object replaced), the parent changed, the override dropped -/
def kTop : Key := { name := "mode".toList, sub := some [], machine := .host }
def kSub : Key := { name := "mode".toList, sub := some "sub".toList, machine := .host }
def modeSpec (c : List String) (d : String) (y : Bool) : ObjSpec :=
  { kind := .combo (c.map String.toList), default := .str d.toList, yielding := y }

def sOverridden : Store :=
  run (Store.new false) [.addProject kTop (modeSpec ["a", "b", "c"] "a" false), .addProject kSub (modeSpec ["a", "b", "c"] "b" true),
    .setOption kSub (.str "c".toList) false]

def newParent : Obj := { kind := .combo (["a", "b", "c", "d"].map String.toList), value := .str "a".toList,
                         default := .str "a".toList, yielding := false, readonly := false, parent := none }
def oldParent : Obj := { kind := .combo (["a", "b", "c"].map String.toList), value := .str "a".toList,
                         default := .str "a".toList, yielding := false, readonly := false, parent := none }

/-- after the replacement by the variant / by the repaired code: parent set to `d`, override dropped -/
def afterVariant : Store :=
  (configureOne (kSub, none) (setOption kTop (.str "d".toList) false (replaceObjY kTop newParent oldParent 0 false sOverridden).2).2).2
def afterRepaired : Store :=
  (configureOne (kSub, none) (setOption kTop (.str "d".toList) false (replaceObj kTop newParent oldParent 0 false sOverridden).2).2).2

theorem repointYieldingOnly_counterexample :
    -- the overridden child keeps pointing at the discarded object …
    staleKeys (replaceObjY kTop newParent oldParent 0 false sOverridden).2 = [kSub] ∧
    -- … invisible while it is overridden …
    (getValueFor (replaceObjY kTop newParent oldParent 0 false sOverridden).2 kSub).toOption = some (.str "c".toList) ∧
    -- … and after the parent is set to `d` and the override is dropped it reads the parent's pre-edit value forever
    (getValueFor afterVariant kTop).toOption = some (.str "d".toList) ∧
    (getValueFor afterVariant kSub).toOption = some (.str "a".toList) := by
  decide +kernel

theorem mem_keys_of_alookup {α : Type} (k : Key) (v : α) : ∀ (l : List (Key × α)), alookup k l = some v → k ∈ l.map (·.1)
  | [], h => by simp [alookup] at h
  | (k', v') :: r, h => by
    simp only [alookup] at h
    split at h
    · rename_i e; simp [← e]
    · simp [mem_keys_of_alookup k v r h]

theorem parentCurrent_of_staleKeys_nil {s : Store} (hs : staleKeys s = []) : ParentCurrent s := by
  intro k id o pid hk hi hp
  simp only [staleKeys, List.filter_eq_nil_iff] at hs
  have := hs k (mem_keys_of_alookup k id _ hk)
  simpa [isStale, hk, hi, hp] using this

theorem repointYieldingOnly_breaks_parentCurrent :
    ParentCurrent sOverridden ∧ ¬ ParentCurrent (replaceObjY kTop newParent oldParent 0 false sOverridden).2 := by
  constructor
  · exact parentCurrent_of_staleKeys_nil (by decide +kernel)
  · intro h
    have := staleKeys_nil_of_parentCurrent h
    revert this
    decide +kernel

/-- the repaired code on the same history: nothing stale, the child follows the parent -/
theorem repaired_on_the_same_history :
    staleKeys (replaceObj kTop newParent oldParent 0 false sOverridden).2 = [] ∧
    (getValueFor afterRepaired kTop).toOption = some (.str "d".toList) ∧
    (getValueFor afterRepaired kSub).toOption = some (.str "d".toList) := by
  decide +kernel


end MesonModel.Options
