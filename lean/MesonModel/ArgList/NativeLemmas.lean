/-
`to_native` of the C-like class: where the `-Wl,--start-group` / `-Wl,--end-group` markers go.
-/
import MesonModel.ArgList.Model

namespace MesonModel.ArgList

def startGroup : Arg := ['-', 'W', 'l', ',', '-', '-', 's', 't', 'a', 'r', 't', '-', 'g', 'r', 'o', 'u', 'p']
def endGroup : Arg := ['-', 'W', 'l', ',', '-', '-', 'e', 'n', 'd', '-', 'g', 'r', 'o', 'u', 'p']

theorem groupBounds_nolib (l : List Arg) (i : Nat) (gs ge : Option Nat)
    (h : ∀ x ∈ l, groupFlags x = false) : groupBounds l i gs ge = (gs, ge) := by
  induction l generalizing i with
  | nil => rfl
  | cons a as ih =>
    simp only [groupBounds, h a List.mem_cons_self, Bool.false_eq_true, if_false]
    exact ih _ (fun x hx => h x (List.mem_cons_of_mem _ hx))

theorem groupBounds_append (l1 l2 : List Arg) (i : Nat) (gs ge : Option Nat) :
    groupBounds (l1 ++ l2) i gs ge =
      groupBounds l2 (i + l1.length) (groupBounds l1 i gs ge).1 (groupBounds l1 i gs ge).2 := by
  induction l1 generalizing i gs ge with
  | nil => simp [groupBounds]
  | cons a as ih =>
    simp only [List.cons_append, groupBounds, List.length_cons]
    split <;> (rw [ih]; congr 1; omega)

theorem groupBounds_fst_some (l : List Arg) (i g : Nat) (ge : Option Nat) :
    (groupBounds l i (some g) ge).1 = some g := by
  induction l generalizing i ge with
  | nil => rfl
  | cons a as ih =>
    simp only [groupBounds]
    split <;> exact ih _ _

theorem split_first (p : Arg → Bool) (l : List Arg) :
    (∀ x ∈ l, p x = false) ∨
    ∃ pre a rest, l = pre ++ a :: rest ∧ p a = true ∧ ∀ x ∈ pre, p x = false := by
  induction l with
  | nil => exact Or.inl (by simp)
  | cons b bs ih =>
    cases hb : p b
    · rcases ih with h | ⟨pre, a, rest, rfl, ha, hpre⟩
      · exact Or.inl (by intro x hx; rcases List.mem_cons.mp hx with rfl | hx; exact hb; exact h x hx)
      · refine Or.inr ⟨b :: pre, a, rest, rfl, ha, ?_⟩
        intro x hx
        rcases List.mem_cons.mp hx with rfl | hx
        · exact hb
        · exact hpre x hx
    · exact Or.inr ⟨[], b, bs, rfl, hb, by simp⟩

theorem split_last (p : Arg → Bool) (l : List Arg) :
    (∀ x ∈ l, p x = false) ∨
    ∃ pre a post, l = pre ++ a :: post ∧ p a = true ∧ ∀ x ∈ post, p x = false := by
  rcases split_first p l.reverse with h | ⟨pre, a, rest, hl, ha, hpre⟩
  · exact Or.inl (fun x hx => h x (List.mem_reverse.mpr hx))
  · refine Or.inr ⟨rest.reverse, a, pre.reverse, ?_, ha, fun x hx => hpre x (List.mem_reverse.mp hx)⟩
    have := congrArg List.reverse hl
    simpa using this

theorem insertAt_split (l X Y : List Arg) (k : Nat) (a : Arg) (hl : l = X ++ Y) (hk : k = X.length) :
    insertAt l (Int.ofNat k) a = X ++ a :: Y := by
  subst hl hk
  have h1 : clampIdx (X ++ Y).length (Int.ofNat X.length) = X.length := by
    simp only [clampIdx, List.length_append]
    have h0 : ¬ ((Int.ofNat X.length) < 0) := by simp
    rw [if_neg h0]
    have h2 : ¬ ((Int.ofNat X.length).toNat > X.length + Y.length) := by simp
    rw [if_neg h2]
    simp
  simp only [insertAt, h1, List.take_left', List.drop_left']

/-- **placement of the group markers**, for every list: either there are fewer than two
library-like arguments and nothing changes, or the list is `pre ++ a :: mid ++ b :: post` with `a`
the first and `b` the last library-like argument, and the result is the same list with
`--start-group` directly before `a` and `--end-group` directly after `b`: every library-like argument
is inside the group, the group is contiguous, nothing else moves. -/
theorem group_placement (l : List Arg) :
    (addGroups l = l ∧ (l.filter groupFlags).length ≤ 1) ∨
    ∃ pre a mid b post, l = pre ++ (a :: (mid ++ (b :: post))) ∧
      groupFlags a = true ∧ groupFlags b = true ∧
      (∀ x ∈ pre, groupFlags x = false) ∧ (∀ x ∈ post, groupFlags x = false) ∧
      addGroups l = pre ++ (startGroup :: a :: (mid ++ (b :: endGroup :: post))) := by
  rcases split_first groupFlags l with h | ⟨pre, a, rest, rfl, ha, hpre⟩
  · left
    constructor
    · simp [addGroups, groupBounds_nolib l 0 none none h]
    · have : l.filter groupFlags = [] := List.filter_eq_nil_iff.mpr (fun x hx => by simp [h x hx])
      simp [this]
  · rcases split_last groupFlags rest with h | ⟨mid, b, post, rfl, hb, hpost⟩
    · left
      have hb : groupBounds (pre ++ a :: rest) 0 none none = (some pre.length, some pre.length) := by
        rw [groupBounds_append, groupBounds_nolib pre 0 none none hpre]
        simp only [groupBounds, ha, if_true]
        rw [groupBounds_nolib rest _ _ _ h]
        simp
      constructor
      · simp [addGroups, hb]
      · have h1 : pre.filter groupFlags = [] := List.filter_eq_nil_iff.mpr (fun x hx => by simp [hpre x hx])
        have h2 : rest.filter groupFlags = [] := List.filter_eq_nil_iff.mpr (fun x hx => by simp [h x hx])
        simp [List.filter_append, List.filter_cons, ha, h1, h2]
    · right
      refine ⟨pre, a, mid, b, post, rfl, ha, hb, hpre, hpost, ?_⟩
      have hbd : groupBounds (pre ++ a :: (mid ++ b :: post)) 0 none none =
          (some pre.length, some (pre.length + 1 + mid.length)) := by
        rw [groupBounds_append, groupBounds_nolib pre 0 none none hpre]
        simp only [groupBounds, ha, if_true]
        rw [groupBounds_append]
        simp only [groupBounds, hb, if_true, groupBounds_fst_some]
        rw [groupBounds_nolib post _ _ _ hpost]
        simp
      simp only [addGroups, hbd]
      show (if pre.length + 1 + mid.length > pre.length then
        insertAt (insertAt (pre ++ a :: (mid ++ b :: post)) (Int.ofNat (pre.length + 1 + mid.length + 1)) endGroup)
          (Int.ofNat pre.length) startGroup else _) = _
      have hgt : pre.length + 1 + mid.length > pre.length := by omega
      simp only [hgt, if_true]
      rw [insertAt_split (pre ++ a :: (mid ++ b :: post)) (pre ++ a :: (mid ++ [b])) post
        (pre.length + 1 + mid.length + 1) endGroup (by simp) (by simp; omega)]
      rw [insertAt_split _ pre (a :: (mid ++ [b]) ++ endGroup :: post) pre.length startGroup (by simp) rfl]
      simp

end MesonModel.ArgList
