/-
Helper lemmas for C13: the loops of `flush_pre_post` and `__iadd__` in closed form, the invariant
of the lazy state, and the key commutation `flush (iadd (flush s) b) = flush (iadd s b)`.
-/
import MesonModel.ArgList.Spec

namespace MesonModel.ArgList

variable {K : Classify}

/-! ### `keepFirst` -/

theorem keepFirst_congr {s1 s2 : List Arg} (l : List Arg) (h : ∀ x, x ∈ s1 ↔ x ∈ s2) :
    keepFirst K s1 l = keepFirst K s2 l := by
  induction l generalizing s1 s2 with
  | nil => rfl
  | cons a as ih =>
    simp only [keepFirst, h a]
    split
    · exact ih h
    · congr 1
      apply ih
      intro x
      split <;> simp [h x]

theorem mem_keepFirst {seen l : List Arg} {x : Arg} :
    x ∈ keepFirst K seen l ↔ x ∈ l ∧ x ∉ seen := by
  induction l generalizing seen with
  | nil => simp [keepFirst]
  | cons a as ih =>
    simp only [keepFirst]
    split
    · rename_i h
      rw [ih]
      constructor
      · rintro ⟨h1, h2⟩; exact ⟨List.mem_cons_of_mem _ h1, h2⟩
      · rintro ⟨h1, h2⟩
        rcases List.mem_cons.mp h1 with rfl | h1
        · exact absurd h h2
        · exact ⟨h1, h2⟩
    · rename_i h
      rw [List.mem_cons, ih]
      constructor
      · rintro (rfl | ⟨h1, h2⟩)
        · exact ⟨List.mem_cons_self, h⟩
        · refine ⟨List.mem_cons_of_mem _ h1, ?_⟩
          split at h2
          · exact fun hx => h2 (List.mem_cons_of_mem _ hx)
          · exact h2
      · rintro ⟨h1, h2⟩
        rcases List.mem_cons.mp h1 with rfl | h1
        · exact Or.inl rfl
        · by_cases hxa : x = a
          · exact Or.inl hxa
          · refine Or.inr ⟨h1, ?_⟩
            split
            · simp [hxa, h2]
            · exact h2

theorem mem_ovOf {l : List Arg} {x : Arg} : x ∈ ovOf K l ↔ x ∈ l ∧ K.dd x = .overridden := by
  simp [ovOf, List.mem_filter]

theorem keepFirst_append (seen l1 l2 : List Arg) :
    keepFirst K seen (l1 ++ l2) = keepFirst K seen l1 ++ keepFirst K (ovOf K l1 ++ seen) l2 := by
  induction l1 generalizing seen with
  | nil => simp [keepFirst, ovOf]
  | cons a as ih =>
    simp only [List.cons_append, keepFirst]
    split
    · rename_i h
      rw [ih]
      congr 1
      apply keepFirst_congr
      intro x
      simp only [List.mem_append, mem_ovOf, List.mem_cons]
      constructor
      · rintro (⟨h1, h2⟩ | h1)
        · exact Or.inl ⟨Or.inr h1, h2⟩
        · exact Or.inr h1
      · rintro (⟨rfl | h1, h2⟩ | h1)
        · exact Or.inr h
        · exact Or.inl ⟨h1, h2⟩
        · exact Or.inr h1
    · rw [ih, List.cons_append]
      congr 2
      apply keepFirst_congr
      intro x
      split <;> rename_i hov
      · simp only [List.mem_append, mem_ovOf, List.mem_cons]
        constructor
        · rintro (⟨h1, h2⟩ | rfl | h1)
          · exact Or.inl ⟨Or.inr h1, h2⟩
          · exact Or.inl ⟨Or.inl rfl, hov⟩
          · exact Or.inr h1
        · rintro (⟨rfl | h1, h2⟩ | h1)
          · exact Or.inr (Or.inl rfl)
          · exact Or.inl ⟨h1, h2⟩
          · exact Or.inr (Or.inr h1)
      · simp only [List.mem_append, mem_ovOf, List.mem_cons]
        constructor
        · rintro (⟨h1, h2⟩ | h1)
          · exact Or.inl ⟨Or.inr h1, h2⟩
          · exact Or.inr h1
        · rintro (⟨rfl | h1, h2⟩ | h1)
          · exact absurd h2 hov
          · exact Or.inl ⟨h1, h2⟩
          · exact Or.inr h1

theorem keepFirst_filter (extra seen l : List Arg) :
    keepFirst K (extra ++ seen) l = (keepFirst K seen l).filter (fun a => a ∉ extra) := by
  induction l generalizing seen with
  | nil => simp [keepFirst]
  | cons a as ih =>
    simp only [keepFirst, List.mem_append]
    by_cases hs : a ∈ seen
    · simp only [hs, or_true, if_true]
      exact ih seen
    · by_cases he : a ∈ extra
      · simp only [he, true_or, if_true, hs, if_false, List.filter_cons, not_true_eq_false, decide_false]
        rw [← ih]
        apply keepFirst_congr
        intro x
        split
        · simp only [List.mem_append, List.mem_cons]
          constructor
          · rintro (h | h)
            · exact Or.inl h
            · exact Or.inr (Or.inr h)
          · rintro (h | rfl | h)
            · exact Or.inl h
            · exact Or.inl he
            · exact Or.inr h
        · rfl
      · simp only [he, hs, or_self, if_false, List.filter_cons, not_false_eq_true, decide_true, if_true]
        congr 1
        rw [← ih]
        apply keepFirst_congr
        intro x
        split
        · simp only [List.mem_append, List.mem_cons]
          constructor
          · rintro (rfl | h | h)
            · exact Or.inr (Or.inl rfl)
            · exact Or.inl h
            · exact Or.inr (Or.inr h)
          · rintro (h | rfl | h)
            · exact Or.inr (Or.inl h)
            · exact Or.inl rfl
            · exact Or.inr (Or.inr h)
        · simp

theorem keepFirst_id {seen l : List Arg} (h : ∀ x ∈ l, K.dd x ≠ .overridden) (hs : ∀ x ∈ l, x ∉ seen) :
    keepFirst K seen l = l := by
  induction l generalizing seen with
  | nil => rfl
  | cons a as ih =>
    have ha : K.dd a ≠ .overridden := h a List.mem_cons_self
    simp only [keepFirst, hs a List.mem_cons_self, if_false, ha]
    congr 1
    exact ih (fun x hx => h x (List.mem_cons_of_mem _ hx)) (fun x hx => hs x (List.mem_cons_of_mem _ hx))

theorem keepFirst_sublist (seen l : List Arg) : (keepFirst K seen l).Sublist l := by
  induction l generalizing seen with
  | nil => exact List.Sublist.slnil
  | cons a as ih =>
    simp only [keepFirst]
    split
    · exact (ih _).cons _
    · exact (ih _).cons_cons _

theorem keepLast_sublist (l : List Arg) : (keepLast K l).Sublist l := by
  unfold keepLast
  have := (keepFirst_sublist (K := K) [] l.reverse).reverse
  simpa using this

theorem mem_keepLast {l : List Arg} {x : Arg} : x ∈ keepLast K l ↔ x ∈ l := by
  simp [keepLast, mem_keepFirst]

/-! ### `flushWalk` in closed form -/

theorem flushWalk_fst (l set : List Arg) : (flushWalk K l set).1 = keepFirst K set l := by
  induction l generalizing set with
  | nil => rfl
  | cons a as ih =>
    simp only [flushWalk, keepFirst]
    split
    · exact ih set
    · simp only [ih]

theorem mem_flushWalk_snd {l set : List Arg} {x : Arg} :
    x ∈ (flushWalk K l set).2 ↔ x ∈ set ∨ (x ∈ l ∧ K.dd x = .overridden) := by
  induction l generalizing set with
  | nil => simp [flushWalk]
  | cons a as ih =>
    simp only [flushWalk]
    split
    · rename_i h
      rw [ih]
      constructor
      · rintro (h1 | ⟨h1, h2⟩)
        · exact Or.inl h1
        · exact Or.inr ⟨List.mem_cons_of_mem _ h1, h2⟩
      · rintro (h1 | ⟨h1, h2⟩)
        · exact Or.inl h1
        · rcases List.mem_cons.mp h1 with rfl | h1
          · exact Or.inl h
          · exact Or.inr ⟨h1, h2⟩
    · simp only [ih]
      split <;> rename_i hov
      · simp only [List.mem_cons]
        constructor
        · rintro ((rfl | h1) | ⟨h1, h2⟩)
          · exact Or.inr ⟨Or.inl rfl, hov⟩
          · exact Or.inl h1
          · exact Or.inr ⟨Or.inr h1, h2⟩
        · rintro (h1 | ⟨rfl | h1, h2⟩)
          · exact Or.inl (Or.inr h1)
          · exact Or.inl (Or.inl rfl)
          · exact Or.inr ⟨h1, h2⟩
      · simp only [List.mem_cons]
        constructor
        · rintro (h1 | ⟨h1, h2⟩)
          · exact Or.inl h1
          · exact Or.inr ⟨Or.inr h1, h2⟩
        · rintro (h1 | ⟨rfl | h1, h2⟩)
          · exact Or.inl h1
          · exact absurd h2 hov
          · exact Or.inr ⟨h1, h2⟩

/-! ### `flush` in closed form -/

/-- what a flush with the override check produces -/
def flushList (K : Classify) (C P Q : List Arg) : List Arg :=
  keepFirst K [] P ++ C.filter (fun a => a ∉ ovOf K Q ∧ a ∉ ovOf K P) ++ keepLast K Q

/-- invariant of the lazy state: `pre` holds prepend-type arguments only, `post` the others, and
`needs_override_check` is set whenever a queue holds an override-type argument -/
structure Inv (K : Classify) (s : State) : Prop where
  pre_pp : ∀ x ∈ s.pre, K.pp x = true
  post_pp : ∀ x ∈ s.post, K.pp x = false
  noc_ov : s.noc = false → ∀ x, x ∈ s.pre ∨ x ∈ s.post → K.dd x ≠ .overridden

theorem ovOf_nil_of {l : List Arg} (h : ∀ x ∈ l, K.dd x ≠ .overridden) : ovOf K l = [] := by
  simp only [ovOf, List.filter_eq_nil_iff]
  intro a ha
  simpa using h a ha

theorem flush_eq (s : State) (hi : Inv K s) :
    flush K s = ⟨flushList K s.container s.pre s.post, [], [], false⟩ := by
  unfold flush flushList
  split
  · rename_i hn
    have hP : ∀ x ∈ s.pre, K.dd x ≠ .overridden := fun x hx => hi.noc_ov hn x (Or.inl hx)
    have hQ : ∀ x ∈ s.post, K.dd x ≠ .overridden := fun x hx => hi.noc_ov hn x (Or.inr hx)
    have hQr : ∀ x ∈ s.post.reverse, K.dd x ≠ .overridden := fun x hx => hQ x (List.mem_reverse.mp hx)
    rw [keepFirst_id hP (by simp), keepLast, keepFirst_id hQr (by simp), ovOf_nil_of hP, ovOf_nil_of hQ]
    have : s.container.filter (fun a => a ∉ ([] : List Arg) ∧ a ∉ ([] : List Arg)) = s.container :=
      List.filter_eq_self.mpr (by simp)
    rw [this]
    simp
  · simp only [flushWalk_fst, keepLast]
    congr 2
    congr 1
    apply List.filter_congr
    intro x _
    simp only [mem_flushWalk_snd, mem_ovOf, List.mem_reverse, List.not_mem_nil, false_or]

theorem inv_flush (s : State) : Inv K (flush K s) := by
  unfold flush
  split <;> exact ⟨by simp, by simp, by simp⟩

theorem flush_pre (s : State) : (flush K s).pre = [] := by unfold flush; split <;> rfl
theorem flush_post (s : State) : (flush K s).post = [] := by unfold flush; split <;> rfl
theorem flush_noc (s : State) : (flush K s).noc = false := by unfold flush; split <;> rfl

theorem flush_of_clean (s : State) (h1 : s.pre = []) (h2 : s.post = []) (h3 : s.noc = false) :
    flush K s = s := by
  cases s
  simp_all [flush]

theorem flush_flush (s : State) : flush K (flush K s) = flush K s :=
  flush_of_clean (flush K s) (flush_pre s) (flush_post s) (flush_noc s)

theorem mem_flushList {C P Q : List Arg} {x : Arg} :
    x ∈ flushList K C P Q ↔ x ∈ C ∨ x ∈ P ∨ x ∈ Q := by
  simp only [flushList, List.mem_append, mem_keepFirst, mem_keepLast, List.mem_filter, mem_ovOf,
    List.not_mem_nil, not_false_eq_true, and_true, decide_eq_true_eq]
  constructor
  · rintro ((h | ⟨h, _⟩) | h)
    · exact Or.inr (Or.inl h)
    · exact Or.inl h
    · exact Or.inr (Or.inr h)
  · rintro (h | h | h)
    · by_cases hq : x ∈ Q
      · exact Or.inr hq
      · by_cases hp : x ∈ P
        · exact Or.inl (Or.inl hp)
        · exact Or.inl (Or.inr ⟨h, by simp [hq], by simp [hp]⟩)
    · exact Or.inl (Or.inl h)
    · exact Or.inr h

/-! ### `__iadd__` in closed form -/

theorem accept_congr {s1 s2 : List Arg} (b : List Arg) (h : ∀ x, x ∈ s1 ↔ x ∈ s2) :
    accept K s1 b = accept K s2 b := by
  induction b generalizing s1 s2 with
  | nil => rfl
  | cons a as ih =>
    simp only [accept, h a]
    split
    · exact ih h
    · congr 1
      apply ih
      intro x
      simp [h x]

theorem extendLeft_eq (d xs : List Arg) : extendLeft d xs = xs.reverse ++ d := by
  unfold extendLeft
  induction xs generalizing d with
  | nil => rfl
  | cons x xs ih => simp [List.foldl_cons, ih]

theorem iaddLoop_eq (cont pre b tmp post seen : List Arg) (noc : Bool)
    (h : ∀ x, x ∈ seen ↔ x ∈ cont ∨ x ∈ pre ∨ x ∈ post ∨ x ∈ tmp) :
    iaddLoop K cont pre b tmp post noc =
      (((accept K seen b).filter (fun a => K.pp a)).reverse ++ tmp,
       post ++ (accept K seen b).filter (fun a => !K.pp a),
       noc || (accept K seen b).any (fun a => decide (K.dd a = .overridden))) := by
  induction b generalizing tmp post seen noc with
  | nil => simp [iaddLoop, accept]
  | cons a as ih =>
    simp only [iaddLoop, accept, ← h a]
    split
    · exact ih tmp post seen noc h
    · by_cases hp : K.pp a = true
      · simp only [hp, if_true]
        rw [ih (a :: tmp) post (a :: seen) _ (by
          intro x
          simp only [List.mem_cons, h x]
          constructor
          · rintro (h1 | h1 | h1 | h1 | h1) <;> simp [h1]
          · rintro (h1 | h1 | h1 | h1 | h1) <;> simp [h1])]
        simp [List.filter_cons, hp, Bool.or_assoc]
      · simp only [hp, if_false]
        have hp' : K.pp a = false := by simpa using hp
        rw [ih tmp (post ++ [a]) (a :: seen) _ (by
          intro x
          simp only [List.mem_cons, List.mem_append, h x, List.not_mem_nil, or_false]
          constructor
          · rintro (h1 | h1 | h1 | h1 | h1) <;> simp [h1]
          · rintro (h1 | h1 | (h1 | h1) | h1) <;> simp [h1])]
        simp [List.filter_cons, hp', Bool.or_assoc]

/-- the accepted arguments of `s += b` -/
def accepted (K : Classify) (s : State) (b : List Arg) : List Arg :=
  accept K (s.container ++ s.pre ++ s.post) b

theorem iadd_eq (s : State) (b : List Arg) :
    iadd K s b =
      { container := s.container,
        pre := (accepted K s b).filter (fun a => K.pp a) ++ s.pre,
        post := s.post ++ (accepted K s b).filter (fun a => !K.pp a),
        noc := s.noc || (accepted K s b).any (fun a => decide (K.dd a = .overridden)) } := by
  unfold iadd accepted
  rw [iaddLoop_eq s.container s.pre b [] s.post (s.container ++ s.pre ++ s.post) s.noc
    (by intro x; simp [or_assoc])]
  simp [extendLeft_eq]

theorem inv_iadd (s : State) (b : List Arg) (hi : Inv K s) : Inv K (iadd K s b) := by
  rw [iadd_eq]
  refine ⟨?_, ?_, ?_⟩
  · intro x hx
    simp only [List.mem_append, List.mem_filter] at hx
    rcases hx with ⟨_, h⟩ | h
    · exact h
    · exact hi.pre_pp x h
  · intro x hx
    simp only [List.mem_append, List.mem_filter] at hx
    rcases hx with h | ⟨_, h⟩
    · exact hi.post_pp x h
    · simpa using h
  · intro hn x hx
    simp only [Bool.or_eq_false_iff, List.any_eq_false, decide_eq_true_eq] at hn
    simp only [List.mem_append, List.mem_filter] at hx
    rcases hx with (⟨h, _⟩ | h) | h | ⟨h, _⟩
    · exact hn.2 x h
    · exact hi.noc_ov hn.1 x (Or.inl h)
    · exact hi.noc_ov hn.1 x (Or.inr h)
    · exact hn.2 x h

theorem inv_mk (l : List Arg) : Inv K (mk l) := ⟨by simp [mk], by simp [mk], by simp [mk]⟩

/-! ### the commutation lemma -/

theorem flushList_compose (C P Q T U : List Arg)
    (hP : ∀ x ∈ P, K.pp x = true) (hQ : ∀ x ∈ Q, K.pp x = false)
    (hT : ∀ x ∈ T, K.pp x = true) (hU : ∀ x ∈ U, K.pp x = false) :
    flushList K (flushList K C P Q) T U = flushList K C (T ++ P) (Q ++ U) := by
  have notTU : ∀ x, x ∈ T → x ∈ U → False := fun x h1 h2 => by
    have := hT x h1; rw [hU x h2] at this; exact Bool.noConfusion this
  have notPU : ∀ x, x ∈ P → x ∈ U → False := fun x h1 h2 => by
    have := hP x h1; rw [hU x h2] at this; exact Bool.noConfusion this
  have notTQ : ∀ x, x ∈ T → x ∈ Q → False := fun x h1 h2 => by
    have := hT x h1; rw [hQ x h2] at this; exact Bool.noConfusion this
  unfold flushList
  simp only [List.filter_append, List.append_assoc]
  -- front block
  have front : keepFirst K [] (T ++ P) =
      keepFirst K [] T ++ (keepFirst K [] P).filter (fun a => a ∉ ovOf K U ∧ a ∉ ovOf K T) := by
    rw [keepFirst_append, keepFirst_filter]
    congr 1
    apply List.filter_congr
    intro x hx
    have hxP : x ∈ P := (mem_keepFirst.mp hx).1
    have : x ∉ ovOf K U := fun h => notPU x hxP (mem_ovOf.mp h).1
    simp [this]
  -- back block
  have back : keepLast K (Q ++ U) =
      (keepLast K Q).filter (fun a => a ∉ ovOf K U ∧ a ∉ ovOf K T) ++ keepLast K U := by
    unfold keepLast
    rw [List.reverse_append, keepFirst_append, List.reverse_append, keepFirst_filter, List.filter_reverse]
    congr 2
    apply List.filter_congr
    intro x hx
    have hxQ : x ∈ Q := List.mem_reverse.mp (mem_keepFirst.mp hx).1
    have h1 : x ∉ ovOf K T := fun h => notTQ x (mem_ovOf.mp h).1 hxQ
    have h2 : x ∈ ovOf K U.reverse ↔ x ∈ ovOf K U := by simp [mem_ovOf]
    simp [h1, h2]
  -- middle block
  have mid : (C.filter (fun a => a ∉ ovOf K Q ∧ a ∉ ovOf K P)).filter (fun a => a ∉ ovOf K U ∧ a ∉ ovOf K T) =
      C.filter (fun a => a ∉ ovOf K (Q ++ U) ∧ a ∉ ovOf K (T ++ P)) := by
    rw [List.filter_filter]
    apply List.filter_congr
    intro x _
    simp only [mem_ovOf, List.mem_append, Bool.and_eq_true, decide_eq_true_eq, Bool.decide_and]
    by_cases h1 : x ∈ Q <;> by_cases h2 : x ∈ P <;> by_cases h3 : x ∈ U <;> by_cases h4 : x ∈ T <;>
      by_cases h5 : K.dd x = .overridden <;> simp [h1, h2, h3, h4, h5]
  rw [front, back, mid]
  simp only [List.append_assoc]

theorem flush_iadd_flush (s : State) (b : List Arg) (hi : Inv K s) :
    flush K (iadd K (flush K s) b) = flush K (iadd K s b) := by
  rw [flush_eq _ (inv_iadd _ b (inv_flush s)), flush_eq _ (inv_iadd _ b hi)]
  rw [flush_eq s hi]
  simp only [iadd_eq]
  have hacc : accepted K ⟨flushList K s.container s.pre s.post, [], [], false⟩ b = accepted K s b := by
    unfold accepted
    apply accept_congr
    intro x
    simp only [List.append_nil, mem_flushList, List.mem_append, or_assoc]
  simp only [hacc, List.append_nil, List.nil_append]
  congr 1
  apply flushList_compose
  · exact hi.pre_pp
  · exact hi.post_pp
  · intro x hx; exact (List.mem_filter.mp hx).2
  · intro x hx; simpa using (List.mem_filter.mp hx).2

end MesonModel.ArgList
