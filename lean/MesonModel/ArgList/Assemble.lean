/-
How the backend assembles the compile command line of one source, as a function of abstract argument
groups: `BuildTarget._generate_single_compile_base_args` (`build.py`), `Backend.generate_basic_compiler_args`
(`backends.py`), `NinjaBackend._generate_single_compile_target_args` and `_generate_single_compile`
(`ninjabackend.py`).  Every `commands += <source>` is one group; the conditions the code tests (`werror`,
kind of target, `pic`/`pie`, `dep.found()`, `implicit_include_directories`, language `d`/`fortran`) are
fields.  The `vala` branches are not modelled (the harness does not generate that language).
Core Lean only.
-/
import MesonModel.ArgList.Spec

namespace MesonModel.ArgList

/-- one `IncludeDirs` object of `target.get_include_dirs()` -/
structure IncDir where
  /-- `generate_inc_dir(compiler, d, basedir, is_system)` = `(sargs, bargs)` for every `d` of `incdirs`, in order -/
  dirs : List (List Arg × List Arg)
  /-- `compiler.get_include_args(d, is_system)` for every `d` of `extra_build_dirs`, in order -/
  extra : List (List Arg)
  deriving Repr

inductive TargetKind where
  | sharedLib
  | staticLib (pic pie : Bool)
  | executable (pie : Bool)
  | other
  deriving Repr, DecidableEq

structure Dep where
  found : Bool
  compileArgs : List Arg
  exeArgs : List Arg
  deriving Repr

structure Sources where
  -- `_generate_single_compile_base_args`
  visibility : List Arg
  baseOpts : List Arg
  -- `generate_basic_compiler_args`
  noStdlib : List Arg
  always : List Arg
  warn : List Arg
  werror : Bool
  werrorArgs : List Arg
  optionCompile : List Arg
  optionStd : List Arg
  optimization : List Arg
  debug : List Arg
  project : List Arg
  globalArgs : List Arg
  ext : List Arg
  kind : TargetKind
  picArgs : List Arg
  pieArgs : List Arg
  deps : List Dep
  fortran : Bool
  fortranIncs : List (List Arg)
  -- `_generate_single_compile_target_args`
  showDep : List Arg
  implicitIncs : Bool
  customTargetDirs : List Arg
  incDirs : List IncDir
  extra : List Arg
  isD : Bool
  dFeatures : List Arg
  srcDirInc : List Arg
  buildDirInc : List Arg
  privateDirInc : List Arg
  deriving Repr

def onlyIf (c : Bool) (g : List Arg) : List (List Arg) := if c then [g] else []

/-- `generate_basic_compiler_args` up to and including the `<lang>_args` option -/
def earlyGroups (s : Sources) : List (List Arg) :=
  [s.noStdlib, s.always, s.warn] ++ onlyIf s.werror s.werrorArgs ++
    [s.optionCompile, s.optionStd, s.optimization, s.debug, s.project, s.globalArgs, s.ext]

def picGroups (s : Sources) : List (List Arg) :=
  match s.kind with
  | .sharedLib => [s.picArgs]
  | .staticLib pic pie => if pic then [s.picArgs] else onlyIf pie s.pieArgs
  | .executable pie => onlyIf pie s.pieArgs
  | .other => []

def isExe (s : Sources) : Bool := match s.kind with | .executable _ => true | _ => false

/-- `for dep in reversed(target.get_external_deps())` -/
def depGroups (s : Sources) : List (List Arg) :=
  s.deps.reverse.flatMap fun d =>
    if d.found then [d.compileArgs] ++ onlyIf (isExe s) d.exeArgs else []

/-- the rest of `generate_basic_compiler_args` -/
def basicLateGroups (s : Sources) : List (List Arg) :=
  picGroups s ++ depGroups s ++ (if s.fortran then s.fortranIncs else [])

/-- `for d in reversed(i.incdirs): += sargs; += bargs`, then `for d in i.extra_build_dirs` -/
def incGroups (i : IncDir) : List (List Arg) :=
  (i.dirs.reverse.flatMap fun p => [p.1, p.2]) ++ i.extra

/-- what `_generate_single_compile_target_args` adds after `generate_basic_compiler_args` -/
def ninjaGroups (s : Sources) : List (List Arg) :=
  [s.showDep] ++ onlyIf s.implicitIncs s.customTargetDirs ++
    s.incDirs.reverse.flatMap incGroups ++
    [s.extra] ++ onlyIf s.isD s.dFeatures ++
    onlyIf s.implicitIncs s.srcDirInc ++ onlyIf s.implicitIncs s.buildDirInc ++ [s.privateDirInc]

def zi : Arg := ['/', 'Z', 'i']
def zI : Arg := ['/', 'Z', 'I']
def z7 : Arg := ['/', 'Z', '7']

/-! ### the code: lazy objects -/

def addAll (K : Classify) (s : State) (gs : List (List Arg)) : State := gs.foldl (iadd K) s

/-- `if ('/Zi' in commands) and (('/ZI' in commands) or ('/Z7' in commands)): commands.remove('/Zi')`
(`in` and `remove` are `MutableSequence` mixins: they iterate, so the object is flushed) -/
def ziFixState (K : Classify) (s : State) : State :=
  if zi ∈ (flush K s).container ∧ (zI ∈ (flush K s).container ∨ z7 ∈ (flush K s).container) then
    { flush K s with container := (flush K s).container.erase zi }
  else flush K s

/-- `generate_basic_compiler_args` -/
def basicArgsLazy (K : Classify) (src : Sources) : State :=
  addAll K (ziFixState K (addAll K (mk []) (earlyGroups src))) (basicLateGroups src)

/-- `_generate_single_compile_target_args` (returns `list(commands)`) -/
def targetArgsLazy (K : Classify) (src : Sources) : List Arg :=
  (flush K (addAll K (basicArgsLazy K src) (ninjaGroups src))).container

/-- `_generate_single_compile_base_args` (returns `list(commands)`) -/
def baseArgsLazy (K : Classify) (src : Sources) : List Arg :=
  (flush K (addAll K (mk []) [src.visibility, src.baseOpts])).container

/-- `_generate_single_compile`: `compiler.compiler_args(base) += target args` -/
def compileLazy (K : Classify) (src : Sources) : State :=
  iadd K (mk (baseArgsLazy K src)) (targetArgsLazy K src)

/-- the list the backend reads from it -/
def compileLine (K : Classify) (src : Sources) : List Arg := (flush K (compileLazy K src)).container

/-! ### the eager meaning -/

/-- groups added one after the other to a list, each with the eager `+=` -/
def assembleFrom (K : Classify) (L0 : List Arg) (gs : List (List Arg)) : List Arg := gs.foldl (specAdd K) L0

def ziFix (L : List Arg) : List Arg :=
  if zi ∈ L ∧ (zI ∈ L ∨ z7 ∈ L) then L.erase zi else L

def targetArgsSpec (K : Classify) (src : Sources) : List Arg :=
  assembleFrom K (ziFix (assembleFrom K [] (earlyGroups src))) (basicLateGroups src ++ ninjaGroups src)

def compileSpec (K : Classify) (src : Sources) : List Arg :=
  specAdd K (assembleFrom K [] [src.visibility, src.baseOpts]) (targetArgsSpec K src)

end MesonModel.ArgList
