/-
The language `dedup1_regex` is meant to recognise -- "a .so of the form path/to/libfoo.so.0.1.0" --
and the recogniser of the model (`dedup1Regex`): every path of the documented form is accepted, for
version components of any length.
-/
import MesonModel.ArgList.Model

namespace MesonModel.ArgList

theorem takeWhile_append_stop {α} (p : α → Bool) (l : List α) (y : α) (r : List α)
    (hl : ∀ x ∈ l, p x = true) (hy : p y = false) : (l ++ y :: r).takeWhile p = l := by
  induction l with
  | nil => simp [List.takeWhile, hy]
  | cons a as ih =>
    simp only [List.cons_append, List.takeWhile, hl a List.mem_cons_self]
    rw [ih (fun x hx => hl x (List.mem_cons_of_mem _ hx))]

theorem dropWhile_append_stop {α} (p : α → Bool) (l : List α) (y : α) (r : List α)
    (hl : ∀ x ∈ l, p x = true) (hy : p y = false) : (l ++ y :: r).dropWhile p = y :: r := by
  induction l with
  | nil => simp [List.dropWhile, hy]
  | cons a as ih =>
    simp only [List.cons_append, List.dropWhile, hl a List.mem_cons_self]
    exact ih (fun x hx => hl x (List.mem_cons_of_mem _ hx))

/-- a version component: one or more ASCII digits -/
def NumComp (c : List Char) : Prop := c ≠ [] ∧ ∀ d ∈ c, isDigitC d = true

/-- one `\.[0-9]+` group is stripped from the end, whatever its length -/
theorem stripVerRev_comp (c rest : List Char) (hc : NumComp c) :
    stripVerRev (c.reverse ++ '.' :: rest) = some rest := by
  have hd : ∀ x ∈ c.reverse, isDigitC x = true := fun x hx => hc.2 x (List.mem_reverse.mp hx)
  have hdot : isDigitC '.' = false := by decide
  unfold stripVerRev
  simp only [takeWhile_append_stop isDigitC _ '.' rest hd hdot, dropWhile_append_stop isDigitC _ '.' rest hd hdot]
  have : c.reverse.isEmpty = false := by
    cases h : c.reverse with
    | nil => exact absurd (List.reverse_eq_nil_iff.mp h) hc.1
    | cons _ _ => rfl
  simp [this]

theorem mem_dollarEnds_self (r : List Char) : r ∈ dollarEnds r := by
  unfold dollarEnds
  split <;> simp

/-- the text before the `.so`: `lib` at the start of a path component, no line break after it -/
theorem libScan_accepts (name dirR : List Char) (hn : ∀ x ∈ name, x ≠ '\n')
    (hb : dirR = [] ∨ ∃ s t, dirR = s :: t ∧ (s = '/' ∨ s = '\\')) :
    libScan (name ++ 'b' :: 'i' :: 'l' :: dirR) = true := by
  induction name with
  | nil =>
    rcases hb with rfl | ⟨s, t, rfl, hs | hs⟩
    · simp [libScan]
    · subst hs; simp [libScan]
    · subst hs; simp [libScan]
  | cons c cs ih =>
    have hc : c ≠ '\n' := hn c List.mem_cons_self
    have := ih (fun x hx => hn x (List.mem_cons_of_mem _ hx))
    simp only [List.cons_append]
    unfold libScan
    simp [this, hc]

/-- a path component separator, or nothing, in front of `lib` -/
def DirOk (dir : List Char) : Prop := dir = [] ∨ ∃ d s, dir = d ++ [s] ∧ (s = '/' ∨ s = '\\')

theorem dirOk_reverse (dir : List Char) (h : DirOk dir) :
    dir.reverse = [] ∨ ∃ s t, dir.reverse = s :: t ∧ (s = '/' ∨ s = '\\') := by
  rcases h with rfl | ⟨d, s, rfl, hs⟩
  · exact Or.inl rfl
  · exact Or.inr ⟨s, d.reverse, by simp, hs⟩

/-- **the recogniser accepts every path of the documented form** `dir/libNAME.so[.N[.N[.N]]]`, with
version components of any length -/
theorem versioned_so_accepted (dir name : List Char) (comps : List (List Char))
    (hd : DirOk dir) (hn : ∀ x ∈ name, x ≠ '\n') (hl : comps.length ≤ 3) (hc : ∀ c ∈ comps, NumComp c) :
    dedup1Regex (dir ++ ['l', 'i', 'b'] ++ name ++ ['.', 's', 'o'] ++ comps.flatMap (fun c => '.' :: c)) = true := by
  have hscan := libScan_accepts name.reverse dir.reverse
    (fun x hx => hn x (List.mem_reverse.mp hx)) (dirOk_reverse dir hd)
  -- the reversed text in front of the version
  have base : ∀ v : List Char,
      (dir ++ ['l', 'i', 'b'] ++ name ++ ['.', 's', 'o'] ++ v).reverse =
        v.reverse ++ ('o' :: 's' :: '.' :: (name.reverse ++ 'b' :: 'i' :: 'l' :: dir.reverse)) := by
    intro v; simp
  unfold dedup1Regex
  rw [List.any_eq_true]
  refine ⟨_, mem_dollarEnds_self _, ?_⟩
  rw [List.any_eq_true]
  rw [base]
  match comps, hl, hc with
  | [], _, _ =>
    refine ⟨'o' :: 's' :: '.' :: (name.reverse ++ 'b' :: 'i' :: 'l' :: dir.reverse), ?_, by simpa using hscan⟩
    simp only [List.flatMap_nil, List.reverse_nil, List.nil_append]
    unfold verTails
    exact List.mem_cons_self
  | [c1], _, hc =>
    have h1 := hc c1 (by simp)
    refine ⟨'o' :: 's' :: '.' :: (name.reverse ++ 'b' :: 'i' :: 'l' :: dir.reverse), ?_, by simpa using hscan⟩
    simp only [List.flatMap_cons, List.flatMap_nil, List.append_nil, List.reverse_cons, List.append_assoc,
      List.cons_append, List.nil_append]
    unfold verTails
    rw [stripVerRev_comp c1 _ h1]
    simp
  | [c1, c2], _, hc =>
    have h1 := hc c1 (by simp)
    have h2 := hc c2 (by simp)
    refine ⟨'o' :: 's' :: '.' :: (name.reverse ++ 'b' :: 'i' :: 'l' :: dir.reverse), ?_, by simpa using hscan⟩
    simp only [List.flatMap_cons, List.flatMap_nil, List.append_nil, List.reverse_cons, List.reverse_append,
      List.append_assoc, List.cons_append, List.nil_append]
    unfold verTails
    rw [stripVerRev_comp c2 _ h2]
    simp only
    rw [stripVerRev_comp c1 _ h1]
    simp
  | [c1, c2, c3], _, hc =>
    have h1 := hc c1 (by simp)
    have h2 := hc c2 (by simp)
    have h3 := hc c3 (by simp)
    refine ⟨'o' :: 's' :: '.' :: (name.reverse ++ 'b' :: 'i' :: 'l' :: dir.reverse), ?_, by simpa using hscan⟩
    simp only [List.flatMap_cons, List.flatMap_nil, List.append_nil, List.reverse_cons, List.reverse_append,
      List.append_assoc, List.cons_append, List.nil_append]
    unfold verTails
    rw [stripVerRev_comp c3 _ h3]
    simp only
    rw [stripVerRev_comp c2 _ h2]
    simp only
    rw [stripVerRev_comp c1 _ h1]
    simp
  | _ :: _ :: _ :: _ :: _, hl, _ => simp at hl

end MesonModel.ArgList
