/-
The eager specification of `+=` on a compiler argument list, stated without queues, and the
decidable table obligation `tablesOk` (core Lean only; the driver evaluates both).
-/
import MesonModel.ArgList.Model

namespace MesonModel.ArgList

/-- keep every element not in `seen`; of an override-type element keep only the first occurrence -/
def keepFirst (K : Classify) : List Arg → List Arg → List Arg
  | _, [] => []
  | seen, a :: as =>
    if a ∈ seen then keepFirst K seen as
    else a :: keepFirst K (if K.dd a = .overridden then a :: seen else seen) as

/-- of an override-type element keep only the last occurrence -/
def keepLast (K : Classify) (l : List Arg) : List Arg := (keepFirst K [] l.reverse).reverse

/-- the override-type elements of `l` -/
def ovOf (K : Classify) (l : List Arg) : List Arg := l.filter (fun a => K.dd a = .overridden)

/-- the batch minus repeats of once-only arguments already present (in the list or earlier in the batch) -/
def accept (K : Classify) : List Arg → List Arg → List Arg
  | _, [] => []
  | seen, a :: as =>
    if K.dd a = .unique ∧ a ∈ seen then accept K seen as
    else a :: accept K (a :: seen) as

/-- **eager meaning of `L += batch`**: the accepted prepend-type arguments in their own order in
front (first occurrence of an override-type argument wins), then `L` without the override-type
arguments that the batch sets again, then the accepted other arguments in order (last occurrence
of an override-type argument wins). -/
def specAdd (K : Classify) (L batch : List Arg) : List Arg :=
  let b := accept K L batch
  keepFirst K [] (b.filter (fun a => K.pp a)) ++
    L.filter (fun a => a ∉ ovOf K b) ++
    keepLast K (b.filter (fun a => !K.pp a))

/-- no argument is both prepend-type and once-only -/
def NoPrependUnique (K : Classify) : Prop := ∀ a, K.pp a = true → K.dd a ≠ .unique

/-- decidable sufficient condition on the class tables: every prepend prefix extends an
override (dedup2) prefix -/
def tablesOk (T : Tables) : Bool :=
  T.prependPrefixes.all (fun p => T.dedup2Prefixes.any (fun q => q.isPrefixOf p))

/-- when `tablesOk` fails: a concrete argument that is prepend-type and once-only, if one is found
among prefix ++ (dedup1 suffix | dedup1 arg) -/
def tablesWitness (T : Tables) : Option Arg :=
  let cands := T.prependPrefixes.flatMap (fun p =>
    (T.dedup1Suffixes ++ T.dedup1Args ++ T.dedup1Prefixes.map (· ++ ['x'])).map (fun s => p ++ ['x'] ++ s))
  cands.find? (fun c => T.pp c && decide (T.dd c = .unique))

end MesonModel.ArgList
