/-
Reference-level model: Python list objects are *locations*.

`Model.lean` treats every `CompilerArgs` as a value.  What that cannot express is sharing: the
`_container` attribute is a reference to a Python list object, several operations write through that
reference in place (`flush_pre_post` on its fast path, `insert`, `append_direct`, `[]=`, `del`,
`to_native(copy=False)`), and the caller of the constructor, of `+=`, `extend_direct`, ... owns list
objects of its own.  Here memory is a store of list cells; an object holds the *address* of its
container cell; caller-owned lists are addresses too.

The constructor `CompilerArgs(compiler, iterable)` does `list(iterable)`: it allocates a fresh cell
(`alias = false`).  The variant that keeps the caller's list (`alias = true`) is what the theorems in
`Props/C13.lean` refute.  Whether a write goes through the old cell or binds `_container` to a fresh
one (slow path of `flush_pre_post`) is a parameter `pol`: the theorems hold for *every* policy.
-/
import MesonModel.ArgList.Model

namespace MesonModel.ArgList

/-- an object at reference level -/
structure RObj where
  cont : Nat
  pre : List Arg
  post : List Arg
  noc : Bool
  deriving Repr, DecidableEq

structure RMem where
  cells : List (List Arg)      -- the Python list objects, by address
  objs : List RObj             -- the CompilerArgs objects
  xs : List Nat                -- addresses of the caller-owned lists
  deriving Repr, DecidableEq

/-- operations whose list parameter can be a caller-owned list -/
inductive LOp where
  | iadd | extendDirect | extendLflags | eqList
  deriving Repr, DecidableEq

def LOp.toOp : LOp → List Arg → Op
  | .iadd, l => .iadd l
  | .extendDirect, l => .extendDirect l
  | .extendLflags, l => .extendLflags l
  | .eqList, l => .eqList l

inductive ROp where
  | xlist (l : List Arg)             -- the caller creates a list
  | xappend (k : Nat) (a : Arg)      -- the caller appends to its own list, in place
  | xclear (k : Nat)                 -- `del L[:]`
  | new (l : List Arg)               -- `Cls(compiler, <temporary list>)`
  | newX (k : Nat)                   -- `Cls(compiler, L_k)`
  | on (i : Nat) (op : Op)           -- an operation with literal parameters
  | onX (i : Nat) (lop : LOp) (k : Nat)   -- `a += L_k`, `a.extend_direct(L_k)`, `a.extend_preserving_lflags(L_k)`, `a == L_k`
  | copy (i : Nat)                   -- `a.copy()`
  deriving Repr

/-- the value an object denotes -/
def load (cells : List (List Arg)) (o : RObj) : State :=
  ⟨cells.getD o.cont [], o.pre, o.post, o.noc⟩

/-- write the result state of an operation back: in place (`rebind = false`) or into a fresh cell -/
def store (m : RMem) (i : Nat) (o : RObj) (s : State) (rebind : Bool) : RMem :=
  if rebind then
    { m with cells := m.cells ++ [s.container],
             objs := m.objs.set i ⟨m.cells.length, s.pre, s.post, s.noc⟩ }
  else
    { m with cells := m.cells.set o.cont s.container,
             objs := m.objs.set i ⟨o.cont, s.pre, s.post, s.noc⟩ }

/-- a new object whose container is a fresh cell holding `l` -/
def allocObj (m : RMem) (l : List Arg) : RMem :=
  { m with cells := m.cells ++ [l], objs := m.objs ++ [⟨m.cells.length, [], [], false⟩] }

def rstep (alias : Bool) (pol : State → Op → Bool) (cfg : Cfg) (m : RMem) (op : ROp) : RMem × Out :=
  match op with
  | .xlist l => ({ m with cells := m.cells ++ [l], xs := m.xs ++ [m.cells.length] }, .none)
  | .xappend k a =>
    match m.xs[k]? with
    | some ad => ({ m with cells := m.cells.set ad (m.cells.getD ad [] ++ [a]) }, .none)
    | none => (m, .none)
  | .xclear k =>
    match m.xs[k]? with
    | some ad => ({ m with cells := m.cells.set ad [] }, .none)
    | none => (m, .none)
  | .new l => (allocObj m l, .none)
  | .newX k =>
    match m.xs[k]? with
    | some ad =>
      if alias then ({ m with objs := m.objs ++ [⟨ad, [], [], false⟩] }, .none)    -- keeps the caller's list
      else (allocObj m (m.cells.getD ad []), .none)                                 -- `list(iterable)`
    | none => (m, .none)
  | .on i op =>
    match m.objs[i]? with
    | some o =>
      let s := load m.cells o
      let r := step cfg s op
      (store m i o r.1 (pol s op), r.2)
    | none => (m, .none)
  | .onX i lop k =>
    match m.objs[i]?, m.xs[k]? with
    | some o, some ad =>
      let s := load m.cells o
      let op := lop.toOp (m.cells.getD ad [])
      let r := step cfg s op
      (store m i o r.1 (pol s op), r.2)
    | _, _ => (m, .none)
  | .copy i =>
    match m.objs[i]? with
    | some o =>
      let s := load m.cells o
      let r := step cfg s .copy
      let m1 := store m i o r.1 (pol s .copy)
      (allocObj m1 r.1.container, .none)
    | none => (m, .none)

def rrun (alias : Bool) (pol : State → Op → Bool) (cfg : Cfg) (m : RMem) : List ROp → List Out
  | [] => []
  | op :: ops => let r := rstep alias pol cfg m op; r.2 :: rrun alias pol cfg r.1 ops

/-! ### the value-level meaning of the same operations -/

/-- values: the objects and the caller's lists -/
structure VMem where
  objs : List State
  xs : List (List Arg)
  deriving Repr, DecidableEq

def absM (m : RMem) : VMem :=
  ⟨m.objs.map (load m.cells), m.xs.map (fun ad => m.cells.getD ad [])⟩

def vstep (cfg : Cfg) (v : VMem) (op : ROp) : VMem × Out :=
  match op with
  | .xlist l => ({ v with xs := v.xs ++ [l] }, .none)
  | .xappend k a =>
    match v.xs[k]? with
    | some l => ({ v with xs := v.xs.set k (l ++ [a]) }, .none)
    | none => (v, .none)
  | .xclear k =>
    match v.xs[k]? with
    | some _ => ({ v with xs := v.xs.set k [] }, .none)
    | none => (v, .none)
  | .new l => ({ v with objs := v.objs ++ [mk l] }, .none)
  | .newX k =>
    match v.xs[k]? with
    | some l => ({ v with objs := v.objs ++ [mk l] }, .none)
    | none => (v, .none)
  | .on i op =>
    match v.objs[i]? with
    | some s => let r := step cfg s op; ({ v with objs := v.objs.set i r.1 }, r.2)
    | none => (v, .none)
  | .onX i lop k =>
    match v.objs[i]?, v.xs[k]? with
    | some s, some l => let r := step cfg s (lop.toOp l); ({ v with objs := v.objs.set i r.1 }, r.2)
    | _, _ => (v, .none)
  | .copy i =>
    match v.objs[i]? with
    | some s => let r := step cfg s .copy; ({ v with objs := v.objs.set i r.1 ++ [mk r.1.container] }, .none)
    | none => (v, .none)

/-- separation: all container addresses and all caller-list addresses are allocated and pairwise
different -/
structure Sep (m : RMem) : Prop where
  objs_lt : ∀ (i : Nat) (o : RObj), m.objs[i]? = some o → o.cont < m.cells.length
  xs_lt : ∀ (k a : Nat), m.xs[k]? = some a → a < m.cells.length
  objs_ne : ∀ (i j : Nat) (oi oj : RObj), m.objs[i]? = some oi → m.objs[j]? = some oj → i ≠ j → oi.cont ≠ oj.cont
  obj_x_ne : ∀ (i k : Nat) (o : RObj) (a : Nat), m.objs[i]? = some o → m.xs[k]? = some a → o.cont ≠ a
  xs_ne : ∀ (k l a b : Nat), m.xs[k]? = some a → m.xs[l]? = some b → k ≠ l → a ≠ b

def emptyMem : RMem := ⟨[], [], []⟩

/-- the write policy of the Python code for the operations that flush once: `flush_pre_post` binds
`_container` to a new list exactly on its slow path (`needs_override_check`), everything else writes
through the existing list object -/
def pyPolicy : State → Op → Bool := fun s _ => s.noc

end MesonModel.ArgList
