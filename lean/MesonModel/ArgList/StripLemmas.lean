/-
`to_native` of the C-like class, second half: removal of `-isystem <default include dir>`.

The code collects indices (`bad_idx_list`) in one pass and pops them back to front.  `stripSpec` is the
index-free meaning: walk the list; a bare `-isystem` followed by a default directory disappears together
with the directory, a joined `-isystem<dir>` / `-isystem=<dir>` naming a default directory disappears,
everything else stays.  `stripDefaults_eq_stripSpec` proves the two equal for every list, provided no
default directory itself starts with `-isystem` (they are `os.path.realpath` results, i.e. absolute).
-/
import MesonModel.ArgList.NativeLemmas

namespace MesonModel.ArgList

def isys : Arg := ['-', 'i', 's', 'y', 's', 't', 'e', 'm']
def isysEq : Arg := ['-', 'i', 's', 'y', 's', 't', 'e', 'm', '=']

/-- a joined form that names a default directory: `-isystem=<dir>` or `-isystem<dir>` (not the bare word) -/
def joinedDefault (dirs : List Arg) (a : Arg) : Bool :=
  isys.isPrefixOf a && !decide (a = isys) &&
    (if isysEq.isPrefixOf a then decide (a.drop 9 ∈ dirs) else decide (a.drop 8 ∈ dirs))

/-- index-free meaning of the default-include pass -/
def stripSpec (dirs : List Arg) : List Arg → List Arg
  | [] => []
  | [a] => if joinedDefault dirs a then [] else [a]
  | a :: nxt :: rest =>
    if a = isys then
      (if nxt ∈ dirs then stripSpec dirs rest else a :: stripSpec dirs (nxt :: rest))
    else if joinedDefault dirs a then stripSpec dirs (nxt :: rest)
    else a :: stripSpec dirs (nxt :: rest)

/-- what position `i` contributes to `bad_idx_list` -/
def hereIdx (dirs : List Arg) (a : Arg) (as : List Arg) (i : Nat) : List Nat :=
  if isys.isPrefixOf a then
    if a = isys then
      (match as with
        | nxt :: _ => if nxt ∈ dirs then [i, i + 1] else []
        | [] => [])
    else if isysEq.isPrefixOf a then
      (if a.drop 9 ∈ dirs then [i] else [])
    else if a.drop 8 ∈ dirs then [i] else []
  else []

theorem badIdx_cons (dirs : List Arg) (a : Arg) (as : List Arg) (i : Nat) :
    badIdx dirs (a :: as) i = hereIdx dirs a as i ++ badIdx dirs as (i + 1) := rfl

theorem hereIdx_shift (dirs : List Arg) (a : Arg) (as : List Arg) (i : Nat) :
    hereIdx dirs a as (i + 1) = (hereIdx dirs a as i).map (· + 1) := by
  unfold hereIdx
  repeat' split
  all_goals simp

theorem badIdx_shift (dirs l : List Arg) (i : Nat) :
    badIdx dirs l (i + 1) = (badIdx dirs l i).map (· + 1) := by
  induction l generalizing i with
  | nil => rfl
  | cons a as ih => rw [badIdx_cons, badIdx_cons, hereIdx_shift, ih (i + 1), List.map_append]

theorem isys_prefix_self : isys.isPrefixOf isys = true := by decide

theorem hereIdx_bare_in (dirs : List Arg) (nxt : Arg) (rest : List Arg) (i : Nat) (h : nxt ∈ dirs) :
    hereIdx dirs isys (nxt :: rest) i = [i, i + 1] := by
  simp [hereIdx, isys_prefix_self, h]

theorem hereIdx_bare_notin (dirs : List Arg) (nxt : Arg) (rest : List Arg) (i : Nat) (h : nxt ∉ dirs) :
    hereIdx dirs isys (nxt :: rest) i = [] := by
  simp [hereIdx, isys_prefix_self, h]

theorem hereIdx_bare_last (dirs : List Arg) (i : Nat) : hereIdx dirs isys [] i = [] := by
  simp [hereIdx, isys_prefix_self]

theorem hereIdx_joined (dirs : List Arg) (a : Arg) (as : List Arg) (i : Nat) (hne : a ≠ isys)
    (h : joinedDefault dirs a = true) : hereIdx dirs a as i = [i] := by
  unfold joinedDefault at h
  unfold hereIdx
  cases hp : isys.isPrefixOf a
  · simp [hp] at h
  · simp only [hp, Bool.true_and, hne, decide_false, Bool.not_false] at h
    simp only [if_true, hne, if_false]
    split
    · rename_i he; simp only [he, if_true, decide_eq_true_eq] at h; simp [h]
    · rename_i he; simp only [he] at h; simp at h; simp [h]

theorem hereIdx_other (dirs : List Arg) (a : Arg) (as : List Arg) (i : Nat) (hne : a ≠ isys)
    (h : joinedDefault dirs a = false) : hereIdx dirs a as i = [] := by
  unfold joinedDefault at h
  unfold hereIdx
  cases hp : isys.isPrefixOf a
  · simp
  · simp only [hp, Bool.true_and, hne, decide_false, Bool.not_false] at h
    simp only [if_true, hne, if_false]
    split
    · rename_i he; simp only [he, if_true, decide_eq_false_iff_not] at h; simp [h]
    · rename_i he; simp only [he] at h; simp at h; simp [h]

/-- pop the listed positions, last one first -/
def eraseAll (is : List Nat) (l : List Arg) : List Arg := is.foldr (fun i l => l.eraseIdx i) l

theorem eraseAll_map_succ (js : List Nat) (a : Arg) (l : List Arg) :
    eraseAll (js.map (· + 1)) (a :: l) = a :: eraseAll js l := by
  induction js with
  | nil => rfl
  | cons j js ih =>
    simp only [eraseAll, List.map_cons, List.foldr_cons] at ih ⊢
    rw [ih]
    rfl

theorem stripDefaults_eq_eraseAll (dirs l : List Arg) (h : dirs.isEmpty = false) :
    stripDefaults dirs l = eraseAll (badIdx dirs l 0) l := by
  simp only [stripDefaults, h, Bool.false_eq_true, if_false, eraseAll, List.foldl_reverse]

/-- a default directory does not itself look like an `-isystem` argument -/
def DirsOk (dirs : List Arg) : Prop := ∀ d ∈ dirs, isys.isPrefixOf d = false

theorem hereIdx_dir (dirs : List Arg) (hd : DirsOk dirs) (d : Arg) (h : d ∈ dirs) (as : List Arg) (i : Nat) :
    hereIdx dirs d as i = [] := by
  simp [hereIdx, hd d h]

theorem eraseAll_badIdx (dirs : List Arg) (hd : DirsOk dirs) (l : List Arg) :
    eraseAll (badIdx dirs l 0) l = stripSpec dirs l := by
  fun_induction stripSpec dirs l with
  | case1 => rfl
  | case2 a h =>
    have hne : a ≠ isys := by
      intro he; subst he; simp [joinedDefault] at h
    rw [badIdx_cons, hereIdx_joined dirs a [] 0 hne h]
    rfl
  | case3 a h =>
    by_cases hne : a = isys
    · subst hne
      rw [badIdx_cons, hereIdx_bare_last]
      rfl
    · have h' : joinedDefault dirs a = false := by simpa using h
      rw [badIdx_cons, hereIdx_other dirs a [] 0 hne h']
      rfl
  | case4 nxt rest hin ih =>
    rw [badIdx_cons, hereIdx_bare_in dirs nxt rest 0 hin, badIdx_cons, hereIdx_dir dirs hd nxt hin,
      List.nil_append, badIdx_shift, badIdx_shift]
    show ((eraseAll (((badIdx dirs rest 0).map (· + 1)).map (· + 1)) (isys :: nxt :: rest)).eraseIdx 1).eraseIdx 0 = _
    rw [eraseAll_map_succ, eraseAll_map_succ, ih]
    rfl
  | case5 nxt rest hnin ih =>
    rw [badIdx_cons, hereIdx_bare_notin dirs nxt rest 0 hnin, List.nil_append, badIdx_shift, eraseAll_map_succ, ih]
  | case6 a nxt rest hne hj ih =>
    rw [badIdx_cons, hereIdx_joined dirs a _ 0 hne hj, badIdx_shift]
    show (eraseAll ((badIdx dirs (nxt :: rest) 0).map (· + 1)) (a :: nxt :: rest)).eraseIdx 0 = _
    rw [eraseAll_map_succ, ih]
    rfl
  | case7 a nxt rest hne hj ih =>
    have h' : joinedDefault dirs a = false := by simpa using hj
    rw [badIdx_cons, hereIdx_other dirs a _ 0 hne h', List.nil_append, badIdx_shift, eraseAll_map_succ, ih]

theorem joinedDefault_nil (a : Arg) : joinedDefault [] a = false := by
  simp [joinedDefault]

theorem stripSpec_nil_dirs (l : List Arg) : stripSpec [] l = l := by
  fun_induction stripSpec [] l <;> simp_all [joinedDefault_nil]

/-- **the index loop of `to_native` is `stripSpec`**, for every list and every set of default directories
none of which starts with `-isystem` -/
theorem stripDefaults_eq_stripSpec (dirs : List Arg) (hd : DirsOk dirs) (l : List Arg) :
    stripDefaults dirs l = stripSpec dirs l := by
  cases h : dirs.isEmpty
  · rw [stripDefaults_eq_eraseAll dirs l h, eraseAll_badIdx dirs hd l]
  · have : dirs = [] := List.isEmpty_iff.mp h
    subst this
    simp [stripDefaults, stripSpec_nil_dirs]

/-! ### what `stripSpec` keeps -/

theorem stripSpec_sublist (dirs l : List Arg) : (stripSpec dirs l).Sublist l := by
  fun_induction stripSpec dirs l with
  | case1 => exact List.Sublist.refl _
  | case2 a h => exact List.nil_sublist _
  | case3 a h => exact List.Sublist.refl _
  | case4 nxt rest hin ih => exact (ih.cons _).cons _
  | case5 nxt rest hnin ih => exact ih.cons_cons _
  | case6 a nxt rest hne hj ih => exact ih.cons _
  | case7 a nxt rest hne hj ih => exact ih.cons_cons _

/-- an argument that is not the bare word `-isystem`, not a joined form naming a default directory and
not itself a default directory -/
def survives (dirs : List Arg) (x : Arg) : Bool :=
  !decide (x = isys) && !joinedDefault dirs x && !decide (x ∈ dirs)

theorem stripSpec_filter (dirs : List Arg) (p : Arg → Bool) (hp : ∀ x, p x = true → survives dirs x = true)
    (l : List Arg) : (stripSpec dirs l).filter p = l.filter p := by
  have hno1 : p isys = false := by
    cases h : p isys
    · rfl
    · have := hp _ h; simp [survives] at this
  have hno2 : ∀ a, joinedDefault dirs a = true → p a = false := by
    intro a ha
    cases h : p a
    · rfl
    · have := hp _ h; simp [survives, ha] at this
  have hno3 : ∀ a, a ∈ dirs → p a = false := by
    intro a ha
    cases h : p a
    · rfl
    · have := hp _ h; simp [survives, ha] at this
  fun_induction stripSpec dirs l with
  | case1 => rfl
  | case2 a h => simp [hno2 a h]
  | case3 a h => rfl
  | case4 nxt rest hin ih => simp [hno1, hno3 nxt hin, ih]
  | case5 nxt rest hnin ih => simp only [List.filter_cons, ih]
  | case6 a nxt rest hne hj ih => rw [ih]; simp [List.filter_cons, hno2 a hj]
  | case7 a nxt rest hne hj ih => simp only [List.filter_cons, ih]

theorem stripSpec_count (dirs l : List Arg) (x : Arg) (hx : survives dirs x = true) :
    (stripSpec dirs l).count x = l.count x := by
  have h := stripSpec_filter dirs (fun y => y == x) (by intro y hy; simp at hy; subst hy; exact hx) l
  have e : ∀ m : List Arg, m.count x = (m.filter (fun y => y == x)).length := by
    intro m; simp [List.count, List.countP_eq_length_filter]
  rw [e, e, h]

/-- an argument that is not a directory and not an `-isystem` form splits the pass -/
theorem stripSpec_cons_keep (dirs : List Arg) (m : Arg) (hm : survives dirs m = true) (rest : List Arg) :
    stripSpec dirs (m :: rest) = m :: stripSpec dirs rest := by
  simp only [survives, Bool.and_eq_true, Bool.not_eq_true', decide_eq_false_iff_not] at hm
  cases rest with
  | nil => simp [stripSpec, hm.1.2]
  | cons b bs => simp [stripSpec, hm.1.1, hm.1.2]

theorem stripSpec_split (dirs : List Arg) (m : Arg) (hm : survives dirs m = true) (pre rest : List Arg) :
    stripSpec dirs (pre ++ m :: rest) = stripSpec dirs pre ++ m :: stripSpec dirs rest := by
  have hm' := hm
  simp only [survives, Bool.and_eq_true, Bool.not_eq_true', decide_eq_false_iff_not] at hm'
  fun_induction stripSpec dirs pre with
  | case1 => exact stripSpec_cons_keep dirs m hm rest
  | case2 a h =>
    have hne : a ≠ isys := by intro he; subst he; simp [joinedDefault] at h
    simp [stripSpec, hne, h, stripSpec_cons_keep dirs m hm rest]
  | case3 a h =>
    by_cases hne : a = isys
    · subst hne
      simp [stripSpec, hm'.2, stripSpec_cons_keep dirs m hm rest]
    · have h' : joinedDefault dirs a = false := by simpa using h
      simp [stripSpec, hne, h', stripSpec_cons_keep dirs m hm rest]
  | case4 nxt rest' hin ih =>
    simp only [List.cons_append]
    rw [stripSpec]
    · simp [hin, ih]
  | case5 nxt rest' hnin ih =>
    simp only [List.cons_append] at ih ⊢
    rw [stripSpec]
    · simp [hnin, ih]
  | case6 a nxt rest' hne hj ih =>
    simp only [List.cons_append] at ih ⊢
    rw [stripSpec]
    · simp [hne, hj, ih]
  | case7 a nxt rest' hne hj ih =>
    simp only [List.cons_append] at ih ⊢
    rw [stripSpec]
    · simp [hne, hj, ih]

end MesonModel.ArgList
