/-
`CLikeCompilerArgs.to_native` as a whole: group markers, then default-include stripping
(`nativeList`), stated through `stripSpec` and `group_placement`.
-/
import MesonModel.ArgList.StripLemmas

namespace MesonModel.ArgList

/-- the default directories are absolute paths (they are `os.path.realpath` results) -/
def DirsAbs (dirs : List Arg) : Prop := ∀ d ∈ dirs, isAbs d = true

theorem isAbs_cases {a : Arg} (h : isAbs a = true) : ∃ t, a = '/' :: t := by
  unfold isAbs at h
  split at h
  · exact ⟨_, rfl⟩
  · cases h

theorem dirsOk_of_abs {dirs : List Arg} (h : DirsAbs dirs) : DirsOk dirs := by
  intro d hd
  obtain ⟨t, rfl⟩ := isAbs_cases (h d hd)
  simp [isys, List.isPrefixOf]

theorem survives_of_plain {dirs : List Arg} (h : DirsAbs dirs) (m : Arg) (h1 : isys.isPrefixOf m = false)
    (h2 : isAbs m = false) : survives dirs m = true := by
  have hne : m ≠ isys := by intro he; subst he; simp [isys_prefix_self] at h1
  have hnd : m ∉ dirs := by intro hm; rw [h m hm] at h2; cases h2
  simp [survives, joinedDefault, h1, hne, hnd]

theorem survives_startGroup {dirs : List Arg} (h : DirsAbs dirs) : survives dirs startGroup = true :=
  survives_of_plain h _ (by decide) (by decide)

theorem survives_endGroup {dirs : List Arg} (h : DirsAbs dirs) : survives dirs endGroup = true :=
  survives_of_plain h _ (by decide) (by decide)

theorem nativeList_clike (gnu : Bool) (dirs l : List Arg) (hd : DirsAbs dirs) :
    nativeList (.clike gnu dirs) l = stripSpec dirs (if gnu then addGroups l else l) := by
  simp only [nativeList]
  exact stripDefaults_eq_stripSpec dirs (dirsOk_of_abs hd) _

theorem mem_stripSpec {dirs l : List Arg} {x : Arg} (h : x ∈ stripSpec dirs l) : x ∈ l :=
  (stripSpec_sublist dirs l).subset h

/-- **shape of the GNU-like result**: fewer than two library-like arguments -- only the default-include pass
runs; otherwise the list is `pre ++ a :: mid ++ b :: post` (`a` first, `b` last library-like argument) and the
result is the three stripped pieces with the start marker before the middle one and the end marker after it -/
theorem nativeList_gnu_shape (dirs l : List Arg) (hd : DirsAbs dirs) :
    ((l.filter groupFlags).length ≤ 1 ∧ nativeList (.clike true dirs) l = stripSpec dirs l) ∨
    ∃ pre a mid b post, l = pre ++ (a :: (mid ++ (b :: post))) ∧
      groupFlags a = true ∧ groupFlags b = true ∧
      (∀ x ∈ pre, groupFlags x = false) ∧ (∀ x ∈ post, groupFlags x = false) ∧
      nativeList (.clike true dirs) l =
        stripSpec dirs pre ++ startGroup :: (stripSpec dirs (a :: (mid ++ [b])) ++ endGroup :: stripSpec dirs post) := by
  rw [nativeList_clike true dirs l hd]
  simp only [if_true]
  rcases group_placement l with ⟨h1, h2⟩ | ⟨pre, a, mid, b, post, hl, ha, hb, hpre, hpost, hg⟩
  · left; rw [h1]; exact ⟨h2, rfl⟩
  · right
    refine ⟨pre, a, mid, b, post, hl, ha, hb, hpre, hpost, ?_⟩
    rw [hg, stripSpec_split dirs startGroup (survives_startGroup hd)]
    have e : a :: (mid ++ b :: endGroup :: post) = (a :: (mid ++ [b])) ++ endGroup :: post := by simp
    rw [e, stripSpec_split dirs endGroup (survives_endGroup hd)]

end MesonModel.ArgList
