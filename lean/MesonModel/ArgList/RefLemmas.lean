/-
The reference-level machine simulates the value-level one as long as list objects are not shared,
and every operation keeps them unshared.
-/
import MesonModel.ArgList.RefModel

namespace MesonModel.ArgList

theorem getD_set_ne' (cells : List (List Arg)) (a b : Nat) (v : List Arg) (h : a ≠ b) :
    (cells.set a v).getD b [] = cells.getD b [] := by
  simp [List.getD_eq_getElem?_getD, List.getElem?_set_ne h]

theorem getD_set_eq' (cells : List (List Arg)) (a : Nat) (v : List Arg) (h : a < cells.length) :
    (cells.set a v).getD a [] = v := by
  simp [List.getD_eq_getElem?_getD, h]

theorem getD_append_lt (cells : List (List Arg)) (b : Nat) (v : List Arg) (h : b < cells.length) :
    (cells ++ [v]).getD b [] = cells.getD b [] := by
  simp [List.getD_eq_getElem?_getD, List.getElem?_append_left h]

theorem getD_append_len (cells : List (List Arg)) (v : List Arg) :
    (cells ++ [v]).getD cells.length [] = v := by
  simp [List.getD_eq_getElem?_getD]

theorem load_set_ne (cells : List (List Arg)) (a : Nat) (v : List Arg) (o : RObj) (h : a ≠ o.cont) :
    load (cells.set a v) o = load cells o := by
  unfold load; rw [getD_set_ne' cells a o.cont v h]

theorem load_append (cells : List (List Arg)) (v : List Arg) (o : RObj) (h : o.cont < cells.length) :
    load (cells ++ [v]) o = load cells o := by
  unfold load; rw [getD_append_lt cells o.cont v h]

/-- writing an object back changes that object's value only, and keeps the memory separated -/
theorem store_spec (m : RMem) (i : Nat) (o : RObj) (s : State) (b : Bool) (hs : Sep m)
    (hi : m.objs[i]? = some o) :
    absM (store m i o s b) = ⟨(absM m).objs.set i s, (absM m).xs⟩ ∧ Sep (store m i o s b) := by
  have hlt := hs.objs_lt i o hi
  have hil : i < m.objs.length := (List.getElem?_eq_some_iff.mp hi).1
  cases b
  · -- in place
    simp only [store, Bool.false_eq_true, if_false]
    constructor
    · simp only [absM, VMem.mk.injEq]
      constructor
      · apply List.ext_getElem?
        intro j
        by_cases hj : j = i
        · subst hj
          have e1 : (m.objs.set j ⟨o.cont, s.pre, s.post, s.noc⟩)[j]? = some ⟨o.cont, s.pre, s.post, s.noc⟩ := by
            simp [hil]
          have e2 : ((List.map (load m.cells) m.objs).set j s)[j]? = some s := by simp [hil]
          rw [List.getElem?_map, e1, e2]
          simp only [Option.map_some, load]
          rw [getD_set_eq' m.cells o.cont s.container hlt]
        · simp only [List.getElem?_map, List.getElem?_set_ne (Ne.symm hj)]
          cases hoj : m.objs[j]? with
          | none => rfl
          | some oj =>
            simp only [Option.map_some]
            rw [load_set_ne _ _ _ _ (hs.objs_ne i j o oj hi hoj (Ne.symm hj))]
      · apply List.map_congr_left
        intro ad had
        obtain ⟨k, hk⟩ := List.getElem?_of_mem had
        exact getD_set_ne' _ _ _ _ (hs.obj_x_ne i k o ad hi hk)
    · refine ⟨?_, ?_, ?_, ?_, ?_⟩
      · intro j oj hj
        simp only [List.length_set]
        by_cases hji : j = i
        · subst hji
          simp [hil] at hj
          rw [← hj]; exact hlt
        · rw [List.getElem?_set_ne (Ne.symm hji)] at hj
          exact hs.objs_lt j oj hj
      · intro k a hk
        simp only [List.length_set]
        exact hs.xs_lt k a hk
      · intro j1 j2 o1 o2 h1 h2 hne
        have key : ∀ (j : Nat) (oj : RObj), (m.objs.set i ⟨o.cont, s.pre, s.post, s.noc⟩)[j]? = some oj →
            ∃ oj' : RObj, m.objs[j]? = some oj' ∧ oj'.cont = oj.cont := by
          intro j oj hj
          by_cases hji : j = i
          · subst hji
            simp [hil] at hj
            exact ⟨o, hi, by rw [← hj]⟩
          · rw [List.getElem?_set_ne (Ne.symm hji)] at hj
            exact ⟨oj, hj, rfl⟩
        obtain ⟨o1', h1', e1⟩ := key j1 o1 h1
        obtain ⟨o2', h2', e2⟩ := key j2 o2 h2
        rw [← e1, ← e2]
        exact hs.objs_ne j1 j2 o1' o2' h1' h2' hne
      · intro j k oj a hj hk
        by_cases hji : j = i
        · subst hji
          simp [hil] at hj
          rw [← hj]
          exact hs.obj_x_ne j k o a hi hk
        · rw [List.getElem?_set_ne (Ne.symm hji)] at hj
          exact hs.obj_x_ne j k oj a hj hk
      · exact hs.xs_ne
  · -- rebind to a fresh cell
    simp only [store, if_true]
    constructor
    · simp only [absM, VMem.mk.injEq]
      constructor
      · apply List.ext_getElem?
        intro j
        by_cases hj : j = i
        · subst hj
          have e1 : (m.objs.set j ⟨m.cells.length, s.pre, s.post, s.noc⟩)[j]? = some ⟨m.cells.length, s.pre, s.post, s.noc⟩ := by
            simp [hil]
          have e2 : ((List.map (load m.cells) m.objs).set j s)[j]? = some s := by simp [hil]
          rw [List.getElem?_map, e1, e2]
          simp only [Option.map_some, load]
          rw [getD_append_len]
        · simp only [List.getElem?_map, List.getElem?_set_ne (Ne.symm hj)]
          cases hoj : m.objs[j]? with
          | none => rfl
          | some oj =>
            simp only [Option.map_some]
            rw [load_append _ _ _ (hs.objs_lt j oj hoj)]
      · apply List.map_congr_left
        intro ad had
        obtain ⟨k, hk⟩ := List.getElem?_of_mem had
        exact getD_append_lt _ _ _ (hs.xs_lt k ad hk)
    · have key : ∀ (j : Nat) (oj : RObj), (m.objs.set i ⟨m.cells.length, s.pre, s.post, s.noc⟩)[j]? = some oj →
          (j = i ∧ oj.cont = m.cells.length) ∨ (j ≠ i ∧ m.objs[j]? = some oj) := by
        intro j oj hj
        by_cases hji : j = i
        · subst hji
          simp [hil] at hj
          exact Or.inl ⟨rfl, by rw [← hj]⟩
        · rw [List.getElem?_set_ne (Ne.symm hji)] at hj
          exact Or.inr ⟨hji, hj⟩
      refine ⟨?_, ?_, ?_, ?_, ?_⟩
      · intro j oj hj
        simp only [List.length_append, List.length_singleton]
        rcases key j oj hj with ⟨_, e⟩ | ⟨_, h'⟩
        · omega
        · have := hs.objs_lt j oj h'; omega
      · intro k a hk
        simp only [List.length_append, List.length_singleton]
        have := hs.xs_lt k a hk; omega
      · intro j1 j2 o1 o2 h1 h2 hne
        rcases key j1 o1 h1 with ⟨e1, c1⟩ | ⟨n1, h1'⟩ <;> rcases key j2 o2 h2 with ⟨e2, c2⟩ | ⟨n2, h2'⟩
        · exact absurd (e1.trans e2.symm) hne
        · have := hs.objs_lt j2 o2 h2'; omega
        · have := hs.objs_lt j1 o1 h1'; omega
        · exact hs.objs_ne j1 j2 o1 o2 h1' h2' hne
      · intro j k oj a hj hk
        rcases key j oj hj with ⟨_, c⟩ | ⟨_, h'⟩
        · have := hs.xs_lt k a hk; omega
        · exact hs.obj_x_ne j k oj a h' hk
      · exact hs.xs_ne

theorem getElem?_append_singleton {α} (l : List α) (x : α) (j : Nat) (y : α)
    (h : (l ++ [x])[j]? = some y) : (j < l.length ∧ l[j]? = some y) ∨ (j = l.length ∧ y = x) := by
  by_cases hj : j < l.length
  · rw [List.getElem?_append_left hj] at h
    exact Or.inl ⟨hj, h⟩
  · have hj' : l.length ≤ j := Nat.le_of_not_lt hj
    rw [List.getElem?_append_right hj'] at h
    by_cases h0 : j - l.length = 0
    · rw [h0] at h
      simp at h
      exact Or.inr ⟨by omega, h.symm⟩
    · have : ([x] : List α)[j - l.length]? = none := by
        apply List.getElem?_eq_none
        simp; omega
      rw [this] at h
      cases h

/-- a new object with a fresh cell: one more value, everything else as before -/
theorem allocObj_spec (m : RMem) (l : List Arg) (hs : Sep m) :
    absM (allocObj m l) = ⟨(absM m).objs ++ [mk l], (absM m).xs⟩ ∧ Sep (allocObj m l) := by
  constructor
  · simp only [absM, allocObj, List.map_append, List.map_cons, List.map_nil, VMem.mk.injEq]
    refine ⟨?_, ?_⟩
    · congr 1
      · apply List.map_congr_left
        intro o ho
        obtain ⟨j, hj⟩ := List.getElem?_of_mem ho
        exact load_append _ _ _ (hs.objs_lt j o hj)
      · simp only [load, mk]; rw [getD_append_len]
    · apply List.map_congr_left
      intro ad had
      obtain ⟨k, hk⟩ := List.getElem?_of_mem had
      exact getD_append_lt _ _ _ (hs.xs_lt k ad hk)
  · simp only [allocObj]
    refine ⟨?_, ?_, ?_, ?_, ?_⟩
    · intro j oj hj
      simp only [List.length_append, List.length_singleton]
      rcases getElem?_append_singleton _ _ _ _ hj with ⟨_, h'⟩ | ⟨_, e⟩
      · have := hs.objs_lt j oj h'; omega
      · subst e; simp
    · intro k a hk
      simp only [List.length_append, List.length_singleton]
      have := hs.xs_lt k a hk; omega
    · intro j1 j2 o1 o2 h1 h2 hne
      rcases getElem?_append_singleton _ _ _ _ h1 with ⟨_, h1'⟩ | ⟨e1, c1⟩ <;>
        rcases getElem?_append_singleton _ _ _ _ h2 with ⟨_, h2'⟩ | ⟨e2, c2⟩
      · exact hs.objs_ne j1 j2 o1 o2 h1' h2' hne
      · subst c2; have := hs.objs_lt j1 o1 h1'; simp; omega
      · subst c1; have := hs.objs_lt j2 o2 h2'; simp; omega
      · omega
    · intro j k oj a hj hk
      rcases getElem?_append_singleton _ _ _ _ hj with ⟨_, h'⟩ | ⟨_, c⟩
      · exact hs.obj_x_ne j k oj a h' hk
      · subst c; have := hs.xs_lt k a hk; simp; omega
    · exact hs.xs_ne

/-- the caller creates a list -/
theorem xlist_spec (m : RMem) (l : List Arg) (hs : Sep m) :
    let m' : RMem := { m with cells := m.cells ++ [l], xs := m.xs ++ [m.cells.length] }
    absM m' = ⟨(absM m).objs, (absM m).xs ++ [l]⟩ ∧ Sep m' := by
  constructor
  · simp only [absM, List.map_append, List.map_cons, List.map_nil, VMem.mk.injEq]
    refine ⟨?_, ?_⟩
    · apply List.map_congr_left
      intro o ho
      obtain ⟨j, hj⟩ := List.getElem?_of_mem ho
      exact load_append _ _ _ (hs.objs_lt j o hj)
    · congr 1
      · apply List.map_congr_left
        intro ad had
        obtain ⟨k, hk⟩ := List.getElem?_of_mem had
        exact getD_append_lt _ _ _ (hs.xs_lt k ad hk)
      · rw [getD_append_len]
  · refine ⟨?_, ?_, ?_, ?_, ?_⟩
    · intro j oj hj
      simp only [List.length_append, List.length_singleton]
      have := hs.objs_lt j oj hj; omega
    · intro k a hk
      simp only [List.length_append, List.length_singleton]
      rcases getElem?_append_singleton _ _ _ _ hk with ⟨_, h'⟩ | ⟨_, e⟩
      · have := hs.xs_lt k a h'; omega
      · omega
    · exact hs.objs_ne
    · intro j k oj a hj hk
      rcases getElem?_append_singleton _ _ _ _ hk with ⟨_, h'⟩ | ⟨_, e⟩
      · exact hs.obj_x_ne j k oj a hj h'
      · have := hs.objs_lt j oj hj; omega
    · intro k1 k2 a b h1 h2 hne
      rcases getElem?_append_singleton _ _ _ _ h1 with ⟨_, h1'⟩ | ⟨e1, c1⟩ <;>
        rcases getElem?_append_singleton _ _ _ _ h2 with ⟨_, h2'⟩ | ⟨e2, c2⟩
      · exact hs.xs_ne k1 k2 a b h1' h2' hne
      · have := hs.xs_lt k1 a h1'; omega
      · have := hs.xs_lt k2 b h2'; omega
      · omega

/-- the caller overwrites its own list in place -/
theorem xwrite_spec (m : RMem) (k ad : Nat) (v : List Arg) (hs : Sep m) (hk : m.xs[k]? = some ad) :
    let m' : RMem := { m with cells := m.cells.set ad v }
    absM m' = ⟨(absM m).objs, (absM m).xs.set k v⟩ ∧ Sep m' := by
  have hlt := hs.xs_lt k ad hk
  have hkl : k < m.xs.length := (List.getElem?_eq_some_iff.mp hk).1
  constructor
  · simp only [absM, VMem.mk.injEq]
    refine ⟨?_, ?_⟩
    · apply List.map_congr_left
      intro o ho
      obtain ⟨j, hj⟩ := List.getElem?_of_mem ho
      exact load_set_ne _ _ _ _ (Ne.symm (hs.obj_x_ne j k o ad hj hk))
    · apply List.ext_getElem?
      intro l
      by_cases hl : l = k
      · subst hl
        have e2 : ((List.map (fun ad => m.cells.getD ad []) m.xs).set l v)[l]? = some v := by simp [hkl]
        rw [List.getElem?_map, hk, e2]
        simp only [Option.map_some]
        rw [getD_set_eq' _ _ _ hlt]
      · simp only [List.getElem?_map, List.getElem?_set_ne (Ne.symm hl)]
        cases hb : m.xs[l]? with
        | none => rfl
        | some b =>
          simp only [Option.map_some]
          rw [getD_set_ne' _ _ _ _ (hs.xs_ne k l ad b hk hb (Ne.symm hl))]
  · exact ⟨by simpa using hs.objs_lt, by simpa using hs.xs_lt, hs.objs_ne, hs.obj_x_ne, hs.xs_ne⟩

theorem absM_objs_get (m : RMem) (i : Nat) : (absM m).objs[i]? = m.objs[i]?.map (load m.cells) := by
  simp [absM]

theorem absM_xs_get (m : RMem) (k : Nat) : (absM m).xs[k]? = m.xs[k]?.map (fun ad => m.cells.getD ad []) := by
  simp [absM]

/-- **the reference-level machine with the copying constructor is the value-level machine**: on a
separated memory every operation has the value-level effect (so it writes its receiver only: the other
objects and all caller-owned lists keep their values), gives the value-level output, and leaves the
memory separated.  For every write policy. -/
theorem rstep_simulates (pol : State → Op → Bool) (cfg : Cfg) (m : RMem) (op : ROp) (hs : Sep m) :
    absM (rstep false pol cfg m op).1 = (vstep cfg (absM m) op).1 ∧
    (rstep false pol cfg m op).2 = (vstep cfg (absM m) op).2 ∧
    Sep (rstep false pol cfg m op).1 := by
  cases op with
  | xlist l =>
    have h := xlist_spec m l hs
    simp only [rstep, vstep]
    exact ⟨h.1, trivial, h.2⟩
  | xappend k a =>
    simp only [rstep, vstep, absM_xs_get]
    cases hk : m.xs[k]? with
    | none => exact ⟨rfl, rfl, hs⟩
    | some ad =>
      have h := xwrite_spec m k ad (m.cells.getD ad [] ++ [a]) hs hk
      exact ⟨h.1, rfl, h.2⟩
  | xclear k =>
    simp only [rstep, vstep, absM_xs_get]
    cases hk : m.xs[k]? with
    | none => exact ⟨rfl, rfl, hs⟩
    | some ad =>
      have h := xwrite_spec m k ad [] hs hk
      exact ⟨h.1, rfl, h.2⟩
  | new l =>
    have h := allocObj_spec m l hs
    simp only [rstep, vstep]
    exact ⟨h.1, trivial, h.2⟩
  | newX k =>
    simp only [rstep, vstep, absM_xs_get, Bool.false_eq_true, if_false]
    cases hk : m.xs[k]? with
    | none => exact ⟨rfl, rfl, hs⟩
    | some ad =>
      have h := allocObj_spec m (m.cells.getD ad []) hs
      exact ⟨h.1, rfl, h.2⟩
  | on i op =>
    simp only [rstep, vstep, absM_objs_get]
    cases hi : m.objs[i]? with
    | none => exact ⟨rfl, rfl, hs⟩
    | some o =>
      have h := store_spec m i o (step cfg (load m.cells o) op).1 (pol (load m.cells o) op) hs hi
      exact ⟨h.1, rfl, h.2⟩
  | onX i lop k =>
    simp only [rstep, vstep, absM_objs_get, absM_xs_get]
    cases hi : m.objs[i]? with
    | none => exact ⟨rfl, rfl, hs⟩
    | some o =>
      cases hk : m.xs[k]? with
      | none => exact ⟨rfl, rfl, hs⟩
      | some ad =>
        have h := store_spec m i o (step cfg (load m.cells o) (lop.toOp (m.cells.getD ad []))).1
          (pol (load m.cells o) (lop.toOp (m.cells.getD ad []))) hs hi
        exact ⟨h.1, rfl, h.2⟩
  | copy i =>
    simp only [rstep, vstep, absM_objs_get]
    cases hi : m.objs[i]? with
    | none => exact ⟨rfl, rfl, hs⟩
    | some o =>
      have h := store_spec m i o (step cfg (load m.cells o) .copy).1 (pol (load m.cells o) .copy) hs hi
      have h2 := allocObj_spec _ (step cfg (load m.cells o) .copy).1.container h.2
      refine ⟨?_, rfl, h2.2⟩
      simp only [Option.map_some]
      rw [h2.1, h.1]

theorem sep_empty : Sep emptyMem :=
  ⟨by intro i o h; simp [emptyMem] at h, by intro k a h; simp [emptyMem] at h,
   by intro i j oi oj h; simp [emptyMem] at h, by intro i k o a h; simp [emptyMem] at h,
   by intro k l a b h; simp [emptyMem] at h⟩

def vrun (cfg : Cfg) (v : VMem) : List ROp → List Out
  | [] => []
  | op :: ops => let r := vstep cfg v op; r.2 :: vrun cfg r.1 ops

theorem rrun_eq_vrun (pol : State → Op → Bool) (cfg : Cfg) (ops : List ROp) (m : RMem) (hs : Sep m) :
    rrun false pol cfg m ops = vrun cfg (absM m) ops := by
  induction ops generalizing m with
  | nil => rfl
  | cons op ops ih =>
    have h := rstep_simulates pol cfg m op hs
    simp only [rrun, vrun]
    rw [h.2.1, ih _ h.2.2, h.1]

end MesonModel.ArgList
