/-
Model of `mesonbuild/arglist.py` (class `CompilerArgs`, whole class) and of
`CLikeCompilerArgs.to_native` (`mesonbuild/compilers/mixins/clike.py:51-123`), written construct by
construct from the Python source.  Core Lean only.

An argument is a `List Char`.  The object state is the four attributes
`_container`, `pre` (a deque), `post`, `needs_override_check`.  The class attributes
(`prepend_prefixes`, `dedup1_*`, `dedup2_*`, `always_dedup_args`) are a `Tables` value; the three
instances (base, CLike, D) are regenerated from the live classes into
`MesonModel/Generated/ArgTables.lean` on every run.

Python quirks that are kept:
* (`__iadd__` tests a once-only argument against `_container`, `pre`, `post` and, since the repair
  661f340, also against the `tmp_pre` deque of the running batch;)
* (`__len__` flushes since the repair of `len()` counting pending duplicates, and `__eq__` flushes the
  other `CompilerArgs` too; the `MutableSequence` mixin methods `reverse`, `pop`, `remove`, `index`,
  `count`, `__contains__`, `__reversed__`, `clear` are built by CPython from `__len__`/`__getitem__`/
  `__setitem__`/`__delitem__`/`__iter__`, each of which flushes first;)
* `to_native(copy=False)` of the C-like class inserts the group markers into `self`.
-/
namespace MesonModel.ArgList

abbrev Arg := List Char

/-- `arglist.Dedup` -/
inductive Dedup where
  | noDedup | unique | overridden
  deriving DecidableEq, Repr

/-- class attributes of `CompilerArgs` and its subclasses -/
structure Tables where
  prependPrefixes : List Arg
  dedup2Prefixes : List Arg
  dedup2Suffixes : List Arg
  dedup2Args : List Arg
  dedup1Prefixes : List Arg
  dedup1Suffixes : List Arg
  dedup1Args : List Arg
  alwaysDedupArgs : List Arg
  deriving Repr, DecidableEq

/-- `arg.startswith(tuple)` -/
def startsWithAny (ps : List Arg) (a : Arg) : Bool := ps.any (fun p => p.isPrefixOf a)
/-- `arg.endswith(tuple)` -/
def endsWithAny (ss : List Arg) (a : Arg) : Bool := ss.any (fun s => s.isSuffixOf a)

/-! ### the two regular expressions (hand matchers, ASCII exact) -/

def isDigitC (c : Char) : Bool := 48 ≤ c.toNat && c.toNat ≤ 57

/-- remove one `\.[0-9]+` group from the end of a string given *reversed* -/
def stripVerRev (r : List Char) : Option (List Char) :=
  let ds := r.takeWhile isDigitC
  if ds.isEmpty then none else
    match r.dropWhile isDigitC with
    | '.' :: t => some t
    | _ => none

/-- all texts (reversed) that can precede `(\.[0-9]+)?(\.[0-9]+)?(\.[0-9]+)?` at the end of `r` -/
def verTails (r : List Char) : List (List Char) :=
  r :: match stripVerRev r with
    | none => []
    | some r1 => r1 :: match stripVerRev r1 with
      | none => []
      | some r2 => r2 :: match stripVerRev r2 with
        | none => []
        | some r3 => [r3]

/-- positions where `$` matches: at the end, or before a final newline (argument reversed) -/
def dollarEnds (r : List Char) : List (List Char) :=
  match r with
  | '\n' :: t => [r, t]
  | _ => [r]

/-- reversed text before `.so`: is there `([\/\\]|\A)lib` followed only by non-newline characters? -/
def libScan : List Char → Bool
  | [] => false
  | c :: t =>
    (match c :: t with
      | 'b' :: 'i' :: 'l' :: u => (match u with
          | [] => true
          | d :: _ => d == '/' || d == '\\')
      | _ => false)
    || (c != '\n' && libScan t)

/-- `re.search(r'([\/\\]|\A)lib.*\.so(\.[0-9]+)?(\.[0-9]+)?(\.[0-9]+)?$', arg)` -/
def dedup1Regex (a : Arg) : Bool :=
  (dollarEnds a.reverse).any fun e =>
    (verTails e).any fun r =>
      match r with
      | 'o' :: 's' :: '.' :: t => libScan t
      | _ => false

/-- `GROUP_FLAGS.search(arg)` of `clike.py` (verbose pattern, three alternatives) -/
def groupFlags (a : Arg) : Bool :=
  let alt1 := !(['-', 'W', 'l', ','].isPrefixOf a) &&
    (dollarEnds a.reverse).any fun e =>
      !e.contains '\n' &&
      (verTails e).any fun r => match r with
        | 'o' :: 's' :: '.' :: _ => true
        | _ => false
  let alt2 := ['-', 'l'].isPrefixOf a || ['-', 'W', 'l', ',', '-', 'l'].isPrefixOf a
  let alt3 := (dollarEnds a.reverse).any fun e => match e with
    | 'a' :: '.' :: _ => true
    | _ => false
  alt1 || alt2 || alt3

/-! ### classification -/

/-- `CompilerArgs._can_dedup` -/
def Tables.dd (T : Tables) (a : Arg) : Dedup :=
  if a ∈ T.dedup1Prefixes ∨ a ∈ T.dedup2Prefixes then .noDedup
  else if a ∈ T.dedup2Args ∨ startsWithAny T.dedup2Prefixes a = true ∨ endsWithAny T.dedup2Suffixes a = true then
    .overridden
  else if a ∈ T.dedup1Args ∨ startsWithAny T.dedup1Prefixes a = true ∨ endsWithAny T.dedup1Suffixes a = true
      ∨ dedup1Regex a = true then
    .unique
  else .noDedup

/-- `CompilerArgs._should_prepend` -/
def Tables.pp (T : Tables) (a : Arg) : Bool := startsWithAny T.prependPrefixes a

/-- the two classifiers the state machine depends on -/
structure Classify where
  dd : Arg → Dedup
  pp : Arg → Bool

def Tables.classify (T : Tables) : Classify := ⟨T.dd, T.pp⟩

/-- which `to_native` the class has -/
inductive Native where
  /-- `CompilerArgs.to_native` (also used by `DCompilerArgs`) -/
  | plain
  /-- `CLikeCompilerArgs.to_native`; `gnu`: the linker is GNU-like; `defaultDirs`: the
  real paths of `compiler.get_default_include_dirs()` (`os.path.realpath` is the identity on the
  validated domain) -/
  | clike (gnu : Bool) (defaultDirs : List Arg)
  deriving Repr

structure Cfg where
  K : Classify
  always : List Arg
  native : Native

/-! ### object state -/

structure State where
  container : List Arg
  pre : List Arg
  post : List Arg
  noc : Bool
  deriving Repr, DecidableEq

/-- `CompilerArgs(compiler, iterable)` for a plain iterable -/
def mk (init : List Arg) : State := ⟨init, [], [], false⟩

/-- first loop of `flush_pre_post` (also used, on the reversed list, for the second):
walk front to back, keep `a` unless it is in the set, add override-type arguments to the set.
Returns (kept, set). -/
def flushWalk (K : Classify) : List Arg → List Arg → List Arg × List Arg
  | [], set => ([], set)
  | a :: as, set =>
    if a ∈ set then flushWalk K as set
    else
      let r := flushWalk K as (if K.dd a = .overridden then a :: set else set)
      (a :: r.1, r.2)

/-- `flush_pre_post` -/
def flush (K : Classify) (s : State) : State :=
  if s.noc = false then
    { container := s.pre ++ s.container ++ s.post, pre := [], post := [], noc := false }
  else
    let p := flushWalk K s.pre []
    let q := flushWalk K s.post.reverse []          -- `for a in reversed(self.post)`
    let postFlush := q.1.reverse                     -- built with `appendleft`
    let mid := s.container.filter (fun a => a ∉ q.2 ∧ a ∉ p.2)
    { container := p.1 ++ mid ++ postFlush, pre := [], post := [], noc := false }

/-- the `for arg in args` loop of `__iadd__`; state threaded: `tmp_pre`, `self.post`,
`self.needs_override_check` -/
def iaddLoop (K : Classify) (cont pre : List Arg) :
    List Arg → List Arg → List Arg → Bool → List Arg × List Arg × Bool
  | [], tmp, post, noc => (tmp, post, noc)
  | a :: as, tmp, post, noc =>
    if K.dd a = .unique ∧ (a ∈ cont ∨ a ∈ pre ∨ a ∈ post ∨ a ∈ tmp) then
      iaddLoop K cont pre as tmp post noc
    else
      let noc' := noc || decide (K.dd a = .overridden)
      if K.pp a = true then iaddLoop K cont pre as (a :: tmp) post noc'   -- `tmp_pre.appendleft`
      else iaddLoop K cont pre as tmp (post ++ [a]) noc'

/-- `deque.extendleft` -/
def extendLeft (d xs : List Arg) : List Arg := xs.foldl (fun d x => x :: d) d

/-- `__iadd__` with a plain iterable -/
def iadd (K : Classify) (s : State) (b : List Arg) : State :=
  let r := iaddLoop K s.container s.pre b [] s.post s.noc
  { s with pre := extendLeft s.pre r.1, post := r.2.1, noc := r.2.2 }

/-- `os.path.isabs` (posix) -/
def isAbs (a : Arg) : Bool := match a with | '/' :: _ => true | _ => false

/-- `append_direct` -/
def appendDirect (K : Classify) (s : State) (a : Arg) : State :=
  let s := flush K s
  if isAbs a then iadd K s [a] else { s with container := s.container ++ [a] }

/-- `extend_direct` -/
def extendDirect (K : Classify) (s : State) (l : List Arg) : State :=
  l.foldl (appendDirect K) (flush K s)

/-- `extend_preserving_lflags` -/
def extendLflags (cfg : Cfg) (s : State) (l : List Arg) : State :=
  let isL := fun (i : Arg) => i ∉ cfg.always ∧ (['-', 'l'].isPrefixOf i = true ∨ ['-', 'L'].isPrefixOf i = true)
  let lflags := l.filter (fun i => decide (isL i))
  let normal := l.filter (fun i => !decide (isL i))
  extendDirect cfg.K (iadd cfg.K s normal) lflags

/-- Python index normalisation for `list.insert` -/
def clampIdx (n : Nat) (i : Int) : Nat :=
  if i < 0 then (if i + n < 0 then 0 else (i + n).toNat) else (if i.toNat > n then n else i.toNat)

def insertAt (l : List Arg) (i : Int) (a : Arg) : List Arg :=
  let k := clampIdx l.length i
  l.take k ++ a :: l.drop k

/-- Python index normalisation for `l[i]`, `l[i] = v`, `del l[i]`: `none` is `IndexError` -/
def normIdx (n : Nat) (i : Int) : Option Nat :=
  if i < 0 then (if i + n < 0 then none else some (i + n).toNat)
  else (if i.toNat < n then some i.toNat else none)

/-! ### `to_native` -/

/-- `group_start`, `group_end` after the `enumerate` loop (`none` = -1) -/
def groupBounds : List Arg → Nat → Option Nat → Option Nat → Option Nat × Option Nat
  | [], _, gs, ge => (gs, ge)
  | a :: as, i, gs, ge =>
    if groupFlags a then groupBounds as (i + 1) (match gs with | none => some i | some g => some g) (some i)
    else groupBounds as (i + 1) gs ge

def addGroups (l : List Arg) : List Arg :=
  match groupBounds l 0 none none with
  | (some gs, some ge) =>
    if ge > gs then
      let l1 := insertAt l (Int.ofNat (ge + 1)) ['-', 'W', 'l', ',', '-', '-', 'e', 'n', 'd', '-', 'g', 'r', 'o', 'u', 'p']
      insertAt l1 (Int.ofNat gs) ['-', 'W', 'l', ',', '-', '-', 's', 't', 'a', 'r', 't', '-', 'g', 'r', 'o', 'u', 'p']
    else l
  | _ => l

/-- `bad_idx_list` of the default-include loop; `n` is `len(new)` -/
def badIdx (dirs : List Arg) : List Arg → Nat → List Nat
  | [], _ => []
  | a :: as, i =>
    let here : List Nat :=
      if ['-', 'i', 's', 'y', 's', 't', 'e', 'm'].isPrefixOf a then
        if a = ['-', 'i', 's', 'y', 's', 't', 'e', 'm'] then
          (match as with
            | nxt :: _ => if nxt ∈ dirs then [i, i + 1] else []
            | [] => [])
        else if ['-', 'i', 's', 'y', 's', 't', 'e', 'm', '='].isPrefixOf a then
          (if a.drop 9 ∈ dirs then [i] else [])
        else if a.drop 8 ∈ dirs then [i] else []
      else []
    here ++ badIdx dirs as (i + 1)

def stripDefaults (dirs : List Arg) (l : List Arg) : List Arg :=
  if dirs.isEmpty then l
  else (badIdx dirs l 0).reverse.foldl (fun l i => l.eraseIdx i) l

/-- the list `to_native` builds (before `unix_args_to_native`, which the stub compiler makes the identity) -/
def nativeList (n : Native) (l : List Arg) : List Arg :=
  match n with
  | .plain => l
  | .clike gnu dirs => stripDefaults dirs (if gnu then addGroups l else l)

/-! ### operations and the step function -/

inductive Op where
  | iadd (b : List Arg)            -- `+=`, `extend`
  | append (a : Arg)
  | appendDirect (a : Arg)
  | extendDirect (l : List Arg)
  | extendLflags (l : List Arg)
  | insert (i : Int) (a : Arg)
  | setItem (i : Int) (a : Arg)
  | delItem (i : Int)
  | getItem (i : Int)
  | iter                            -- `list(a)`
  | copy                            -- `a.copy()`; the output is the container of the new object
  | len
  | eqList (l : List Arg)
  | toNative (copy : Bool)
  -- `collections.abc.MutableSequence` mixin methods
  | reverse
  | reversed                        -- `list(reversed(a))`
  | pop (i : Int)
  | remove (a : Arg)
  | index (a : Arg)                 -- `a.index(v)` with the default bounds
  | count (a : Arg)
  | contains (a : Arg)
  | clear
  deriving Repr

inductive Out where
  | none
  | list (l : List Arg)
  | nat (n : Nat)
  | bool (b : Bool)
  | arg (a : Arg)
  | indexError
  | valueError
  deriving Repr, DecidableEq

def step (cfg : Cfg) (s : State) (op : Op) : State × Out :=
  let K := cfg.K
  match op with
  | .iadd b => (iadd K s b, .none)
  | .append a => (iadd K s [a], .none)
  | .appendDirect a => (appendDirect K s a, .none)
  | .extendDirect l => (extendDirect K s l, .none)
  | .extendLflags l => (extendLflags cfg s l, .none)
  | .insert i a =>
    let s := flush K s
    ({ s with container := insertAt s.container i a }, .none)
  | .setItem i a =>
    let s := flush K s
    match normIdx s.container.length i with
    | some k => ({ s with container := s.container.set k a }, .none)
    | none => (s, .indexError)
  | .delItem i =>
    let s := flush K s
    match normIdx s.container.length i with
    | some k => ({ s with container := s.container.eraseIdx k }, .none)
    | none => (s, .indexError)
  | .getItem i =>
    let s := flush K s
    match normIdx s.container.length i with
    | some k => (s, .arg (s.container.getD k []))
    | none => (s, .indexError)
  | .iter => let s := flush K s; (s, .list s.container)
  | .copy => let s := flush K s; (s, .list s.container)
  | .len =>
    let s := flush K s
    (s, .nat s.container.length)
  | .eqList l => let s := flush K s; (s, .bool (decide (s.container = l)))
  | .toNative copy =>
    let s := flush K s
    let r := nativeList cfg.native s.container
    (if copy then s else { s with container := r }, .list r)
  | .reverse => let s := flush K s; ({ s with container := s.container.reverse }, .none)
  | .reversed => let s := flush K s; (s, .list s.container.reverse)
  | .pop i =>
    let s := flush K s
    match normIdx s.container.length i with
    | some k => ({ s with container := s.container.eraseIdx k }, .arg (s.container.getD k []))
    | none => (s, .indexError)
  | .remove a =>
    let s := flush K s
    if a ∈ s.container then ({ s with container := s.container.erase a }, .none) else (s, .valueError)
  | .index a =>
    let s := flush K s
    if a ∈ s.container then (s, .nat (s.container.idxOf a)) else (s, .valueError)
  | .count a => let s := flush K s; (s, .nat (s.container.count a))
  | .contains a => let s := flush K s; (s, .bool (decide (a ∈ s.container)))
  | .clear => let s := flush K s; ({ s with container := [] }, .none)

/-- outputs of running `ops` on the lazy object -/
def runLazy (cfg : Cfg) (s : State) : List Op → List Out
  | [] => []
  | op :: ops => let r := step cfg s op; r.2 :: runLazy cfg r.1 ops

/-- the eager meaning: every operation is followed by a flush, so the state never has queues -/
def stepEager (cfg : Cfg) (s : State) (op : Op) : State × Out :=
  let r := step cfg s op
  (flush cfg.K r.1, r.2)

def runEager (cfg : Cfg) (s : State) : List Op → List Out
  | [] => []
  | op :: ops => let r := stepEager cfg s op; r.2 :: runEager cfg r.1 ops

/-- the final list (what `list(a)` gives after `ops`) -/
def finalLazy (cfg : Cfg) (s : State) : List Op → List Arg
  | [] => (flush cfg.K s).container
  | op :: ops => finalLazy cfg (step cfg s op).1 ops

def finalEager (cfg : Cfg) (s : State) : List Op → List Arg
  | [] => (flush cfg.K s).container
  | op :: ops => finalEager cfg (stepEager cfg s op).1 ops

/-! ### several objects (copies, `+`, `list + a`, `a += b`, `a == b`)

The methods that involve a second object are compositions of the single-object operations above;
they are spelled out here so that the driver can replay whole scripts. -/

inductive HOp where
  | on (i : Nat) (op : Op)
  | copy (i : Nat)                  -- push `objs[i].copy()`
  | add (i : Nat) (b : List Arg)    -- push `objs[i] + b`
  | radd (b : List Arg) (i : Nat)   -- push `b + objs[i]`
  | iaddObj (i j : Nat)             -- `objs[i] += objs[j]`
  | eqObj (i j : Nat)               -- `objs[i] == objs[j]`
  | new (init : List Arg)           -- push `Cls(compiler, init)`
  | newFrom (i : Nat)               -- push `Cls(compiler, objs[i])`
  deriving Repr

def hstep (cfg : Cfg) (h : List State) (op : HOp) : List State × Out :=
  let K := cfg.K
  match op with
  | .on i op =>
    match h[i]? with
    | some s => let r := step cfg s op; (h.set i r.1, r.2)
    | none => (h, .none)
  | .copy i =>
    match h[i]? with
    | some s => let s := flush K s; (h.set i s ++ [mk s.container], .none)
    | none => (h, .none)
  | .newFrom i =>
    match h[i]? with
    | some s => let s := flush K s; (h.set i s ++ [mk s.container], .none)
    | none => (h, .none)
  | .add i b =>
    match h[i]? with
    | some s => let s := flush K s; (h.set i s ++ [iadd K (mk s.container) b], .none)
    | none => (h, .none)
  | .radd b i =>
    match h[i]? with
    | some s => let s := flush K s; (h.set i s ++ [iadd K (mk b) s.container], .none)
    | none => (h, .none)
  | .iaddObj i j =>
    match h[j]? with
    | some sj =>
      let sj := flush K sj                       -- `for arg in args` calls `iter(args)`
      let h := h.set j sj
      match h[i]? with
      | some si => (h.set i (iadd K si sj.container), .none)
      | none => (h, .none)
    | none => (h, .none)
  | .eqObj i j =>
    match h[i]? with
    | some si =>
      let si := flush K si
      let h := h.set i si
      match h[j]? with
      | some sj =>
        let sj := flush K sj                                   -- `other.flush_pre_post()`
        (h.set j sj, .bool (decide (si.container = sj.container)))
      | none => (h, .none)
    | none => (h, .none)
  | .new init => (h ++ [mk init], .none)

def hrun (cfg : Cfg) (h : List State) : List HOp → List Out
  | [] => []
  | op :: ops => let r := hstep cfg h op; r.2 :: hrun cfg r.1 ops

end MesonModel.ArgList
