/-
The backend's assembly of a compile line: lazy objects = eager meaning, and order facts about a fold of
eager `+=`.
-/
import MesonModel.ArgList.Assemble
import MesonModel.ArgList.SpecLemmas
import MesonModel.ArgList.StepLemmas

namespace MesonModel.ArgList

variable {K : Classify}

theorem flush_eq_mk (s : State) : flush K s = mk (flush K s).container := by
  have h1 := flush_pre (K := K) s
  have h2 := flush_post (K := K) s
  have h3 := flush_noc (K := K) s
  cases h : flush K s with
  | mk c p q n =>
    rw [h] at h1 h2 h3
    simp only at h1 h2 h3
    subst h1 h2 h3
    rfl

theorem flush_iadd_container (s : State) (g : List Arg) (hi : Inv K s) :
    (flush K (iadd K s g)).container = specAdd K (flush K s).container g := by
  rw [← flush_iadd_flush s g hi, flush_eq_mk (K := K) s, eager_iadd_container, ← flush_eq_mk]

theorem inv_addAll (s : State) (gs : List (List Arg)) (hi : Inv K s) : Inv K (addAll K s gs) := by
  induction gs generalizing s with
  | nil => exact hi
  | cons g gs ih => exact ih _ (inv_iadd s g hi)

/-- adding groups to a lazy object and reading it = adding them eagerly to the list it denotes -/
theorem flush_addAll (s : State) (gs : List (List Arg)) (hi : Inv K s) :
    (flush K (addAll K s gs)).container = assembleFrom K (flush K s).container gs := by
  induction gs generalizing s with
  | nil => rfl
  | cons g gs ih =>
    simp only [addAll, assembleFrom, List.foldl_cons] at ih ⊢
    rw [ih _ (inv_iadd s g hi), flush_iadd_container s g hi]

theorem inv_ziFixState (s : State) : Inv K (ziFixState K s) := by
  unfold ziFixState
  split
  · exact inv_clean s _
  · exact inv_flush s

theorem flush_ziFixState (s : State) : (flush K (ziFixState K s)).container = ziFix (flush K s).container := by
  unfold ziFixState ziFix
  split
  · rw [flush_of_clean] <;> simp [flush_pre, flush_post, flush_noc]
  · rw [flush_flush]

theorem assembleFrom_append (L0 : List Arg) (g1 g2 : List (List Arg)) :
    assembleFrom K L0 (g1 ++ g2) = assembleFrom K (assembleFrom K L0 g1) g2 := by
  simp [assembleFrom, List.foldl_append]

theorem targetArgsLazy_eq (src : Sources) : targetArgsLazy K src = targetArgsSpec K src := by
  unfold targetArgsLazy basicArgsLazy targetArgsSpec
  rw [flush_addAll _ _ (inv_addAll _ _ (inv_ziFixState _)), flush_addAll _ _ (inv_ziFixState _), flush_ziFixState,
    flush_addAll _ _ (inv_mk []), flush_mk, assembleFrom_append]
  rfl

theorem baseArgsLazy_eq (src : Sources) :
    baseArgsLazy K src = assembleFrom K [] [src.visibility, src.baseOpts] := by
  unfold baseArgsLazy
  rw [flush_addAll _ _ (inv_mk []), flush_mk]
  rfl

theorem compileLine_eq (src : Sources) : compileLine K src = compileSpec K src := by
  unfold compileLine compileLazy compileSpec
  rw [eager_iadd_container, targetArgsLazy_eq, baseArgsLazy_eq]

/-! ### order facts about the eager `+=` -/

theorem mem_assembleFrom {L0 : List Arg} {gs : List (List Arg)} {x : Arg} :
    x ∈ assembleFrom K L0 gs ↔ x ∈ L0 ∨ ∃ g ∈ gs, x ∈ g := by
  induction gs generalizing L0 with
  | nil => simp [assembleFrom]
  | cons g gs ih =>
    simp only [assembleFrom, List.foldl_cons] at ih ⊢
    rw [ih, mem_specAdd_iff]
    simp only [List.mem_cons, exists_eq_or_imp, or_assoc]

theorem not_mem_accept {L g : List Arg} {x : Arg} (h : x ∉ g) : x ∉ accept K L g :=
  fun hx => h ((accept_sublist L g).subset hx)

/-- arguments a batch does not mention keep their places relative to each other -/
theorem sublist_specAdd_of_untouched (L g m : List Arg) (hm : ∀ z ∈ m, z ∉ g) (h : m.Sublist L) :
    m.Sublist (specAdd K L g) := by
  have hf : m.filter (fun a => a ∉ ovOf K (accept K L g)) = m := by
    apply List.filter_eq_self.mpr
    intro z hz
    simp only [decide_eq_true_eq]
    intro ho
    exact not_mem_accept (hm z hz) (mem_ovOf.mp ho).1
  have h1 := h.filter (fun a => a ∉ ovOf K (accept K L g))
  rw [hf] at h1
  unfold specAdd
  exact (h1.trans (List.sublist_append_right _ _)).trans (List.sublist_append_left _ _)

theorem count_specAdd_of_untouched (L g : List Arg) (x : Arg) (h : x ∉ g) :
    (specAdd K L g).count x = L.count x := by
  have hacc : x ∉ accept K L g := not_mem_accept h
  have h1 : (keepFirst K [] ((accept K L g).filter (fun a => K.pp a))).count x = 0 :=
    List.count_eq_zero.mpr (fun hm => hacc (List.mem_filter.mp (mem_keepFirst.mp hm).1).1)
  have h2 : (keepLast K ((accept K L g).filter (fun a => !K.pp a))).count x = 0 :=
    List.count_eq_zero.mpr (fun hm => hacc (List.mem_filter.mp (mem_keepLast.mp hm)).1)
  have h3 : (L.filter (fun a => a ∉ ovOf K (accept K L g))).count x = L.count x := by
    apply List.count_filter
    simp only [decide_eq_true_eq]
    exact fun ho => hacc (mem_ovOf.mp ho).1
  simp only [specAdd, List.count_append, h1, h2, h3]
  omega

theorem sublist_assembleFrom_of_untouched (L : List Arg) (gs : List (List Arg)) (m : List Arg)
    (hm : ∀ g ∈ gs, ∀ z ∈ m, z ∉ g) (h : m.Sublist L) : m.Sublist (assembleFrom K L gs) := by
  induction gs generalizing L with
  | nil => exact h
  | cons g gs ih =>
    simp only [assembleFrom, List.foldl_cons] at ih ⊢
    exact ih _ (fun g' hg' => hm g' (List.mem_cons_of_mem _ hg'))
      (sublist_specAdd_of_untouched L g m (hm g List.mem_cons_self) h)

theorem count_assembleFrom_of_untouched (L : List Arg) (gs : List (List Arg)) (x : Arg)
    (hx : ∀ g ∈ gs, x ∉ g) : (assembleFrom K L gs).count x = L.count x := by
  induction gs generalizing L with
  | nil => rfl
  | cons g gs ih =>
    simp only [assembleFrom, List.foldl_cons] at ih ⊢
    rw [ih _ (fun g' hg' => hx g' (List.mem_cons_of_mem _ hg')), count_specAdd_of_untouched L g x (hx g List.mem_cons_self)]

/-- an override-type, appended argument of the batch lands behind every argument the list already had -/
theorem pair_specAdd_back (L g : List Arg) (x y : Arg) (hx : x ∈ L) (hxg : x ∉ g) (hy : y ∈ g)
    (hd : K.dd y ≠ .unique) (hp : K.pp y = false) : [x, y].Sublist (specAdd K L g) := by
  have hacc : y ∈ accept K L g := mem_accept_of_not_unique hd hy
  have h1 : [x].Sublist (L.filter (fun a => a ∉ ovOf K (accept K L g))) := by
    apply List.singleton_sublist.mpr
    apply List.mem_filter.mpr
    refine ⟨hx, ?_⟩
    simp only [decide_eq_true_eq]
    exact fun ho => not_mem_accept hxg (mem_ovOf.mp ho).1
  have h2 : [y].Sublist (keepLast K ((accept K L g).filter (fun a => !K.pp a))) :=
    List.singleton_sublist.mpr (mem_keepLast.mpr (List.mem_filter.mpr ⟨hacc, by simp [hp]⟩))
  unfold specAdd
  have := h1.append h2
  rw [List.append_assoc]
  exact this.trans (List.sublist_append_right _ _)

/-- an override-type, prepend-type argument of the batch lands in front of every argument the list already had -/
theorem pair_specAdd_front (L g : List Arg) (x y : Arg) (hx : x ∈ L) (hxg : x ∉ g) (hy : y ∈ g)
    (hd : K.dd y ≠ .unique) (hp : K.pp y = true) : [y, x].Sublist (specAdd K L g) := by
  have hacc : y ∈ accept K L g := mem_accept_of_not_unique hd hy
  have h1 : [x].Sublist (L.filter (fun a => a ∉ ovOf K (accept K L g))) := by
    apply List.singleton_sublist.mpr
    apply List.mem_filter.mpr
    refine ⟨hx, ?_⟩
    simp only [decide_eq_true_eq]
    exact fun ho => not_mem_accept hxg (mem_ovOf.mp ho).1
  have h2 : [y].Sublist (keepFirst K [] ((accept K L g).filter (fun a => K.pp a))) :=
    List.singleton_sublist.mpr (mem_keepFirst.mpr ⟨List.mem_filter.mpr ⟨hacc, hp⟩, by simp⟩)
  unfold specAdd
  have := h2.append h1
  exact this.trans (List.sublist_append_left _ _)

/-- from an empty list the result is a block of prepend-type arguments followed by a block of the others -/
theorem specAdd_blocks (L g A B : List Arg) (hL : L = A ++ B) (hA : ∀ a ∈ A, K.pp a = true)
    (hB : ∀ b ∈ B, K.pp b = false) :
    ∃ A' B', specAdd K L g = A' ++ B' ∧ (∀ a ∈ A', K.pp a = true) ∧ (∀ b ∈ B', K.pp b = false) := by
  subst hL
  refine ⟨keepFirst K [] ((accept K (A ++ B) g).filter (fun a => K.pp a)) ++
      A.filter (fun a => a ∉ ovOf K (accept K (A ++ B) g)),
    B.filter (fun a => a ∉ ovOf K (accept K (A ++ B) g)) ++
      keepLast K ((accept K (A ++ B) g).filter (fun a => !K.pp a)), ?_, ?_, ?_⟩
  · simp [specAdd, List.filter_append]
  · intro a ha
    rcases List.mem_append.mp ha with h | h
    · exact (List.mem_filter.mp (mem_keepFirst.mp h).1).2
    · exact hA a (List.mem_filter.mp h).1
  · intro b hb
    rcases List.mem_append.mp hb with h | h
    · exact hB b (List.mem_filter.mp h).1
    · simpa using (List.mem_filter.mp (mem_keepLast.mp h)).2

theorem assembleFrom_blocks (gs : List (List Arg)) (L A B : List Arg) (hL : L = A ++ B)
    (hA : ∀ a ∈ A, K.pp a = true) (hB : ∀ b ∈ B, K.pp b = false) :
    ∃ A' B', assembleFrom K L gs = A' ++ B' ∧ (∀ a ∈ A', K.pp a = true) ∧ (∀ b ∈ B', K.pp b = false) := by
  induction gs generalizing L A B with
  | nil => exact ⟨A, B, hL, hA, hB⟩
  | cons g gs ih =>
    obtain ⟨A', B', h, hA', hB'⟩ := specAdd_blocks L g A B hL hA hB
    simp only [assembleFrom, List.foldl_cons] at ih ⊢
    exact ih _ A' B' h hA' hB'

end MesonModel.ArgList
