/-
Simulation of the lazy object by the eager one, operation by operation, and its lift to a heap of
objects (copies, `a + b`, `list + a`, `a += b`, `a == b`, constructor from a `CompilerArgs`).
-/
import MesonModel.ArgList.Lemmas

namespace MesonModel.ArgList

variable {K : Classify}

theorem inv_appendDirect (s : State) (a : Arg) : Inv K (appendDirect K s a) := by
  unfold appendDirect
  split
  · exact inv_iadd _ _ (inv_flush s)
  · exact ⟨by simp [flush_pre], by simp [flush_post], by simp [flush_pre, flush_post]⟩

theorem inv_foldl_appendDirect (l : List Arg) (s : State) (h : Inv K s) :
    Inv K (l.foldl (appendDirect K) s) := by
  induction l generalizing s with
  | nil => exact h
  | cons a as ih => exact ih _ (inv_appendDirect s a)

theorem inv_extendDirect (s : State) (l : List Arg) : Inv K (extendDirect K s l) :=
  inv_foldl_appendDirect l _ (inv_flush s)

theorem inv_clean (s : State) (c : List Arg) : Inv K { flush K s with container := c } :=
  ⟨by simp [flush_pre], by simp [flush_post], by simp [flush_pre, flush_post]⟩

theorem inv_step (cfg : Cfg) (s : State) (op : Op) (hi : Inv cfg.K s) : Inv cfg.K (step cfg s op).1 := by
  cases op <;> simp only [step]
  case iadd b => exact inv_iadd s b hi
  case append a => exact inv_iadd s [a] hi
  case appendDirect a => exact inv_appendDirect s a
  case extendDirect l => exact inv_extendDirect s l
  case extendLflags l => exact inv_extendDirect _ _
  all_goals (repeat' split) <;> first | exact inv_clean s _ | exact inv_flush s

theorem extendDirect_flush (s : State) (l : List Arg) :
    extendDirect K (flush K s) l = extendDirect K s l := by
  simp [extendDirect, flush_flush]

/-- **one step of the simulation**: from a state and from its flushed form, every operation gives the
same output and states with the same flushed form -/
theorem step_flush (cfg : Cfg) (s : State) (op : Op) (hi : Inv cfg.K s) :
    (step cfg (flush cfg.K s) op).2 = (step cfg s op).2 ∧
    flush cfg.K (step cfg (flush cfg.K s) op).1 = flush cfg.K (step cfg s op).1 := by
  cases op <;> simp only [step, flush_flush, and_self, true_and]
  case iadd b => exact flush_iadd_flush s b hi
  case append a => exact flush_iadd_flush s [a] hi
  case appendDirect a => simp [appendDirect, flush_flush]
  case extendDirect l => rw [extendDirect_flush]
  case extendLflags l =>
    simp only [extendLflags]
    rw [← extendDirect_flush (iadd cfg.K (flush cfg.K s) _), flush_iadd_flush s _ hi, extendDirect_flush]

theorem runLazy_eq_runEager_flush (cfg : Cfg) (ops : List Op) (s : State) (hi : Inv cfg.K s) :
    runLazy cfg s ops = runEager cfg (flush cfg.K s) ops := by
  induction ops generalizing s with
  | nil => rfl
  | cons op ops ih =>
    have h := step_flush cfg s op hi
    simp only [runLazy, runEager, stepEager]
    rw [h.1, h.2]
    congr 1
    exact ih _ (inv_step cfg s op hi)

theorem finalLazy_eq_finalEager_flush (cfg : Cfg) (ops : List Op) (s : State) (hi : Inv cfg.K s) :
    finalLazy cfg s ops = finalEager cfg (flush cfg.K s) ops := by
  induction ops generalizing s with
  | nil => simp [finalLazy, finalEager, flush_flush]
  | cons op ops ih =>
    have h := step_flush cfg s op hi
    simp only [finalLazy, finalEager, stepEager]
    rw [h.2]
    exact ih _ (inv_step cfg s op hi)

theorem flush_mk (l : List Arg) : flush K (mk l) = mk l := by simp [flush, mk]

/-! ### several objects -/

/-- every object of the heap satisfies the queue invariant -/
def HInv (K : Classify) (h : List State) : Prop := ∀ s ∈ h, Inv K s

/-- the abstraction: flush every object -/
def flushAll (K : Classify) (h : List State) : List State := h.map (flush K)

/-- eager meaning on a heap: every object is flushed after every operation -/
def hstepEager (cfg : Cfg) (h : List State) (op : HOp) : List State × Out :=
  let r := hstep cfg h op
  (flushAll cfg.K r.1, r.2)

def hrunEager (cfg : Cfg) (h : List State) : List HOp → List Out
  | [] => []
  | op :: ops => let r := hstepEager cfg h op; r.2 :: hrunEager cfg r.1 ops

theorem flushAll_flushAll (h : List State) : flushAll K (flushAll K h) = flushAll K h := by
  simp [flushAll, List.map_map, Function.comp_def, flush_flush]

theorem flushAll_set (h : List State) (i : Nat) (s : State) :
    flushAll K (h.set i s) = (flushAll K h).set i (flush K s) := by
  simp [flushAll, List.map_set]

theorem flushAll_append (h g : List State) : flushAll K (h ++ g) = flushAll K h ++ flushAll K g := by
  simp [flushAll]

theorem flushAll_get (h : List State) (i : Nat) : (flushAll K h)[i]? = h[i]?.map (flush K) := by
  simp [flushAll]

theorem hinv_set {h : List State} (hh : HInv K h) (i : Nat) {s : State} (hs : Inv K s) : HInv K (h.set i s) := by
  intro t ht
  rcases List.mem_or_eq_of_mem_set ht with ht | rfl
  · exact hh t ht
  · exact hs

theorem hinv_append {h : List State} (hh : HInv K h) {s : State} (hs : Inv K s) : HInv K (h ++ [s]) := by
  intro t ht
  rcases List.mem_append.mp ht with ht | ht
  · exact hh t ht
  · rw [List.mem_singleton.mp ht]; exact hs

theorem hinv_get {h : List State} (hh : HInv K h) {i : Nat} {s : State} (hs : h[i]? = some s) : Inv K s :=
  hh s (List.mem_of_getElem? hs)

theorem hinv_hstep (cfg : Cfg) (h : List State) (op : HOp) (hh : HInv cfg.K h) : HInv cfg.K (hstep cfg h op).1 := by
  cases op <;> simp only [hstep]
  case on i op =>
    cases hi : h[i]? with
    | none => exact hh
    | some s => exact hinv_set hh i (inv_step cfg s op (hinv_get hh hi))
  case copy i =>
    cases hi : h[i]? with
    | none => exact hh
    | some s => exact hinv_append (hinv_set hh i (inv_flush s)) (inv_mk _)
  case newFrom i =>
    cases hi : h[i]? with
    | none => exact hh
    | some s => exact hinv_append (hinv_set hh i (inv_flush s)) (inv_mk _)
  case add i b =>
    cases hi : h[i]? with
    | none => exact hh
    | some s => exact hinv_append (hinv_set hh i (inv_flush s)) (inv_iadd _ _ (inv_mk _))
  case radd b i =>
    cases hi : h[i]? with
    | none => exact hh
    | some s => exact hinv_append (hinv_set hh i (inv_flush s)) (inv_iadd _ _ (inv_mk _))
  case iaddObj i j =>
    cases hj : h[j]? with
    | none => exact hh
    | some sj =>
      have h1 : HInv cfg.K (h.set j (flush cfg.K sj)) := hinv_set hh j (inv_flush sj)
      simp only
      cases hi : (h.set j (flush cfg.K sj))[i]? with
      | none => exact h1
      | some si => exact hinv_set h1 i (inv_iadd _ _ (hinv_get h1 hi))
  case eqObj i j =>
    cases hi : h[i]? with
    | none => exact hh
    | some si =>
      have h1 : HInv cfg.K (h.set i (flush cfg.K si)) := hinv_set hh i (inv_flush si)
      simp only
      cases hj : (h.set i (flush cfg.K si))[j]? with
      | none => exact h1
      | some sj => exact hinv_set h1 j (inv_flush sj)
  case new init => exact hinv_append hh (inv_mk init)

/-- **one step of the heap simulation** -/
theorem hstep_flush (cfg : Cfg) (h : List State) (op : HOp) (hh : HInv cfg.K h) :
    (hstep cfg (flushAll cfg.K h) op).2 = (hstep cfg h op).2 ∧
    flushAll cfg.K (hstep cfg (flushAll cfg.K h) op).1 = flushAll cfg.K (hstep cfg h op).1 := by
  cases op <;> simp only [hstep, flushAll_get]
  case on i op =>
    cases hi : h[i]? with
    | none => simp [flushAll_flushAll]
    | some s =>
      have hs := step_flush cfg s op (hinv_get hh hi)
      simp only [Option.map_some, flushAll_set, flushAll_flushAll, hs.1, hs.2, and_self]
  case copy i =>
    cases hi : h[i]? with
    | none => simp [flushAll_flushAll]
    | some s => simp [flushAll_set, flushAll_append, flushAll_flushAll, flush_flush]
  case newFrom i =>
    cases hi : h[i]? with
    | none => simp [flushAll_flushAll]
    | some s => simp [flushAll_set, flushAll_append, flushAll_flushAll, flush_flush]
  case add i b =>
    cases hi : h[i]? with
    | none => simp [flushAll_flushAll]
    | some s => simp [flushAll_set, flushAll_append, flushAll_flushAll, flush_flush]
  case radd b i =>
    cases hi : h[i]? with
    | none => simp [flushAll_flushAll]
    | some s => simp [flushAll_set, flushAll_append, flushAll_flushAll, flush_flush]
  case new init => simp [flushAll_append, flushAll_flushAll]
  case iaddObj i j =>
    cases hj : h[j]? with
    | none => simp [flushAll_flushAll]
    | some sj =>
      have h1 : HInv cfg.K (h.set j (flush cfg.K sj)) := hinv_set hh j (inv_flush sj)
      simp only [Option.map_some, ← flushAll_set]
      simp only [flushAll_get, flush_flush]
      cases hi : (h.set j (flush cfg.K sj))[i]? with
      | none => simp [flushAll_flushAll]
      | some si =>
        simp only [Option.map_some, flushAll_set, flushAll_flushAll, flush_flush,
          flush_iadd_flush si _ (hinv_get h1 hi), and_self]
  case eqObj i j =>
    cases hi : h[i]? with
    | none => simp [flushAll_flushAll]
    | some si =>
      simp only [Option.map_some, ← flushAll_set]
      simp only [flushAll_get, flush_flush]
      cases hj : (h.set i (flush cfg.K si))[j]? with
      | none => simp [flushAll_flushAll]
      | some sj => simp [flushAll_set, flushAll_flushAll, flush_flush]

theorem hrun_eq_hrunEager_flush (cfg : Cfg) (ops : List HOp) (h : List State) (hh : HInv cfg.K h) :
    hrun cfg h ops = hrunEager cfg (flushAll cfg.K h) ops := by
  induction ops generalizing h with
  | nil => rfl
  | cons op ops ih =>
    have hs := hstep_flush cfg h op hh
    simp only [hrun, hrunEager, hstepEager]
    rw [hs.1, hs.2]
    congr 1
    exact ih _ (hinv_hstep cfg h op hh)

end MesonModel.ArgList
