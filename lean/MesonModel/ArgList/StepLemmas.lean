/-
Simulation of the lazy object by the eager one, operation by operation.
-/
import MesonModel.ArgList.Lemmas

namespace MesonModel.ArgList

variable {K : Classify}

/-- the operations whose result the property speaks about: everything except `len()`, which counts
the pending queues without flushing -/
def Op.claimed : Op → Bool
  | .len => false
  | _ => true

theorem inv_appendDirect (s : State) (a : Arg) : Inv K (appendDirect K s a) := by
  unfold appendDirect
  split
  · exact inv_iadd _ _ (inv_flush s)
  · exact ⟨by simp [flush_pre], by simp [flush_post], by simp [flush_pre, flush_post]⟩

theorem inv_foldl_appendDirect (l : List Arg) (s : State) (h : Inv K s) :
    Inv K (l.foldl (appendDirect K) s) := by
  induction l generalizing s with
  | nil => exact h
  | cons a as ih => exact ih _ (inv_appendDirect s a)

theorem inv_extendDirect (s : State) (l : List Arg) : Inv K (extendDirect K s l) :=
  inv_foldl_appendDirect l _ (inv_flush s)

theorem inv_clean (s : State) (c : List Arg) : Inv K { flush K s with container := c } :=
  ⟨by simp [flush_pre], by simp [flush_post], by simp [flush_pre, flush_post]⟩

theorem inv_step (cfg : Cfg) (s : State) (op : Op) (hi : Inv cfg.K s) : Inv cfg.K (step cfg s op).1 := by
  cases op <;> simp only [step]
  case iadd b => exact inv_iadd s b hi
  case append a => exact inv_iadd s [a] hi
  case appendDirect a => exact inv_appendDirect s a
  case extendDirect l => exact inv_extendDirect s l
  case extendLflags l => exact inv_extendDirect _ _
  case insert i a => exact inv_clean s _
  case setItem i a => split <;> first | exact inv_clean s _ | exact inv_flush s
  case delItem i => split <;> first | exact inv_clean s _ | exact inv_flush s
  case getItem i => split <;> exact inv_flush s
  case iter => exact inv_flush s
  case copy => exact inv_flush s
  case len => exact hi
  case eqList l => exact inv_flush s
  case toNative c => split <;> first | exact inv_clean s _ | exact inv_flush s

theorem extendDirect_flush (s : State) (l : List Arg) :
    extendDirect K (flush K s) l = extendDirect K s l := by
  simp [extendDirect, flush_flush]

/-- **one step of the simulation**: from a state and from its flushed form, a claimed operation gives
the same output and states with the same flushed form -/
theorem step_flush (cfg : Cfg) (s : State) (op : Op) (hi : Inv cfg.K s) (hc : op.claimed = true) :
    (step cfg (flush cfg.K s) op).2 = (step cfg s op).2 ∧
    flush cfg.K (step cfg (flush cfg.K s) op).1 = flush cfg.K (step cfg s op).1 := by
  cases op <;> simp only [step, flush_flush, and_self, true_and]
  case iadd b => exact flush_iadd_flush s b hi
  case append a => exact flush_iadd_flush s [a] hi
  case appendDirect a => simp [appendDirect, flush_flush]
  case extendDirect l => rw [extendDirect_flush]
  case extendLflags l =>
    simp only [extendLflags]
    rw [← extendDirect_flush (iadd cfg.K (flush cfg.K s) _), flush_iadd_flush s _ hi, extendDirect_flush]
  case len => simp [Op.claimed] at hc

theorem runLazy_eq_runEager_flush (cfg : Cfg) (ops : List Op) (s : State) (hi : Inv cfg.K s)
    (hc : ∀ op ∈ ops, op.claimed = true) :
    runLazy cfg s ops = runEager cfg (flush cfg.K s) ops := by
  induction ops generalizing s with
  | nil => rfl
  | cons op ops ih =>
    have h := step_flush cfg s op hi (hc op List.mem_cons_self)
    simp only [runLazy, runEager, stepEager]
    rw [h.1, h.2]
    congr 1
    exact ih _ (inv_step cfg s op hi) (fun o ho => hc o (List.mem_cons_of_mem _ ho))

theorem finalLazy_eq_finalEager_flush (cfg : Cfg) (ops : List Op) (s : State) (hi : Inv cfg.K s)
    (hc : ∀ op ∈ ops, op.claimed = true) :
    finalLazy cfg s ops = finalEager cfg (flush cfg.K s) ops := by
  induction ops generalizing s with
  | nil => simp [finalLazy, finalEager, flush_flush]
  | cons op ops ih =>
    have h := step_flush cfg s op hi (hc op List.mem_cons_self)
    simp only [finalLazy, finalEager, stepEager]
    rw [h.2]
    exact ih _ (inv_step cfg s op hi) (fun o ho => hc o (List.mem_cons_of_mem _ ho))

theorem flush_mk (l : List Arg) : flush K (mk l) = mk l := by simp [flush, mk]

end MesonModel.ArgList
