/-
The eager `+=` equals the queue-free specification `specAdd`; consequences of the specification;
soundness of the table checker.
-/
import MesonModel.ArgList.StepLemmas

namespace MesonModel.ArgList

variable {K : Classify}

/-! ### `accept` -/

theorem accept_sublist (seen b : List Arg) : (accept K seen b).Sublist b := by
  induction b generalizing seen with
  | nil => exact List.Sublist.slnil
  | cons a as ih =>
    simp only [accept]
    split
    · exact (ih _).cons _
    · exact (ih _).cons_cons _

theorem mem_accept_of {seen b : List Arg} {x : Arg} (h : x ∈ b) : x ∈ accept K seen b ∨ x ∈ seen := by
  induction b generalizing seen with
  | nil => cases h
  | cons a as ih =>
    simp only [accept]
    split
    · rename_i hc
      rcases List.mem_cons.mp h with rfl | h
      · exact Or.inr hc.2
      · exact ih h
    · rcases List.mem_cons.mp h with rfl | h
      · exact Or.inl List.mem_cons_self
      · rcases ih (seen := a :: seen) h with h' | h'
        · exact Or.inl (List.mem_cons_of_mem _ h')
        · rcases List.mem_cons.mp h' with rfl | h'
          · exact Or.inl List.mem_cons_self
          · exact Or.inr h'

theorem mem_accept_of_not_unique {seen b : List Arg} {x : Arg} (hx : K.dd x ≠ .unique) (h : x ∈ b) :
    x ∈ accept K seen b := by
  induction b generalizing seen with
  | nil => cases h
  | cons a as ih =>
    simp only [accept]
    split
    · rename_i hc
      rcases List.mem_cons.mp h with rfl | h
      · exact absurd hc.1 hx
      · exact ih h
    · rcases List.mem_cons.mp h with rfl | h
      · exact List.mem_cons_self
      · exact List.mem_cons_of_mem _ (ih h)

theorem filter_accept_of_not_unique (p : Arg → Bool) (hp : ∀ x, p x = true → K.dd x ≠ .unique) (seen b : List Arg) :
    (accept K seen b).filter p = b.filter p := by
  induction b generalizing seen with
  | nil => rfl
  | cons a as ih =>
    simp only [accept]
    split
    · rename_i hc
      have : p a = false := by
        cases hpa : p a
        · rfl
        · exact absurd hc.1 (hp a hpa)
      simp [List.filter_cons, this, ih]
    · simp [List.filter_cons, ih]

theorem count_accept_unique {seen b : List Arg} {x : Arg} (hu : K.dd x = .unique) :
    (accept K seen b).count x = if x ∈ seen then 0 else if x ∈ b then 1 else 0 := by
  induction b generalizing seen with
  | nil => simp [accept]
  | cons a as ih =>
    simp only [accept]
    split
    · rename_i hc
      rw [ih]
      by_cases hs : x ∈ seen
      · simp [hs]
      · have : x ≠ a := fun e => hs (e ▸ hc.2)
        simp [hs, this]
    · rename_i hc
      rw [List.count_cons, ih]
      by_cases hxa : a = x
      · subst hxa
        have : a ∉ seen := fun hs => hc ⟨hu, hs⟩
        simp [this]
      · have hxa' : x ≠ a := fun e => hxa e.symm
        by_cases hs : x ∈ seen <;> simp [hs, hxa, hxa']

/-! ### the eager `+=` is `specAdd` -/

theorem eager_iadd_container (L b : List Arg) :
    (flush K (iadd K (mk L) b)).container = specAdd K L b := by
  rw [flush_eq _ (inv_iadd _ b (inv_mk L)), iadd_eq]
  have hacc : accepted K (mk L) b = accept K L b := by
    unfold accepted
    apply accept_congr
    intro x
    simp [mk]
  rw [hacc]
  simp only [mk, List.append_nil, List.nil_append, flushList, specAdd]
  have mid : L.filter (fun a => a ∉ ovOf K ((accept K L b).filter (fun a => !K.pp a)) ∧
        a ∉ ovOf K ((accept K L b).filter (fun a => K.pp a))) =
      L.filter (fun a => a ∉ ovOf K (accept K L b)) := by
    apply List.filter_congr
    intro x _
    simp only [mem_ovOf, List.mem_filter, Bool.not_eq_true', decide_eq_decide]
    by_cases hp : K.pp x = true <;> simp [hp]
  rw [mid]

/-! ### consequences of the specification -/

theorem mem_specAdd_iff {L b : List Arg} {x : Arg} : x ∈ specAdd K L b ↔ x ∈ L ∨ x ∈ b := by
  simp only [specAdd, List.mem_append, mem_keepFirst, mem_keepLast, List.mem_filter, mem_ovOf,
    List.not_mem_nil, not_false_eq_true, and_true, decide_eq_true_eq, Bool.not_eq_true']
  constructor
  · rintro ((⟨h, _⟩ | ⟨h, _⟩) | ⟨h, _⟩)
    · exact Or.inr ((accept_sublist L b).subset h)
    · exact Or.inl h
    · exact Or.inr ((accept_sublist L b).subset h)
  · intro h
    have key : x ∈ accept K L b → (x ∈ accept K L b ∧ K.pp x = true ∨ x ∈ L ∧ ¬(x ∈ accept K L b ∧ K.dd x = .overridden)) ∨
        x ∈ accept K L b ∧ K.pp x = false := by
      intro ha
      cases hp : K.pp x
      · exact Or.inr ⟨ha, rfl⟩
      · exact Or.inl (Or.inl ⟨ha, rfl⟩)
    rcases h with h | h
    · by_cases ha : x ∈ accept K L b
      · exact key ha
      · exact Or.inl (Or.inr ⟨h, fun hh => ha hh.1⟩)
    · rcases mem_accept_of (K := K) (seen := L) h with ha | hl
      · exact key ha
      · by_cases ha : x ∈ accept K L b
        · exact key ha
        · exact Or.inl (Or.inr ⟨hl, fun hh => ha hh.1⟩)

theorem count_keepFirst_not_ov {seen l : List Arg} {x : Arg} (hx : K.dd x ≠ .overridden) (hs : x ∉ seen) :
    (keepFirst K seen l).count x = l.count x := by
  induction l generalizing seen with
  | nil => rfl
  | cons a as ih =>
    simp only [keepFirst]
    split
    · rename_i h
      have : a ≠ x := fun e => hs (e ▸ h)
      rw [ih hs, List.count_cons]
      simp [this]
    · rw [List.count_cons, List.count_cons, ih]
      split
      · rename_i hov
        intro hm
        rcases List.mem_cons.mp hm with rfl | hm
        · exact hx hov
        · exact hs hm
      · exact hs

theorem count_keepFirst_ov {seen l : List Arg} {x : Arg} (hx : K.dd x = .overridden) (hs : x ∉ seen) (hl : x ∈ l) :
    (keepFirst K seen l).count x = 1 := by
  induction l generalizing seen with
  | nil => cases hl
  | cons a as ih =>
    simp only [keepFirst]
    split
    · rename_i h
      have hne : x ≠ a := fun e => hs (e ▸ h)
      rcases List.mem_cons.mp hl with rfl | hl
      · exact absurd rfl hne
      · exact ih hs hl
    · rw [List.count_cons]
      by_cases hxa : a = x
      · subst hxa
        simp only [hx, if_true, beq_self_eq_true]
        have : (keepFirst K (a :: seen) as).count a = 0 :=
          List.count_eq_zero.mpr (fun hm => (mem_keepFirst.mp hm).2 List.mem_cons_self)
        omega
      · have hne : x ≠ a := fun e => hxa e.symm
        rcases List.mem_cons.mp hl with rfl | hl
        · exact absurd rfl hne
        · rw [ih _ hl]
          · simp [hxa]
          · split
            · simp [hne, hs]
            · exact hs

theorem count_keepLast_not_ov {l : List Arg} {x : Arg} (hx : K.dd x ≠ .overridden) :
    (keepLast K l).count x = l.count x := by
  simp [keepLast, count_keepFirst_not_ov hx]

theorem count_keepLast_ov {l : List Arg} {x : Arg} (hx : K.dd x = .overridden) (hl : x ∈ l) :
    (keepLast K l).count x = 1 := by
  simp only [keepLast, List.count_reverse]
  exact count_keepFirst_ov hx (by simp) (by simpa using hl)

theorem count_filter_split (p : Arg → Bool) (l : List Arg) (x : Arg) :
    (l.filter p).count x + (l.filter (fun a => !p a)).count x = l.count x := by
  induction l with
  | nil => rfl
  | cons a as ih =>
    cases hp : p a <;> simp [List.filter_cons, hp, List.count_cons] <;> omega

theorem filter_keepFirst_not_ov (p : Arg → Bool) (hp : ∀ x, p x = true → K.dd x ≠ .overridden)
    {seen l : List Arg} (hs : ∀ x ∈ seen, K.dd x = .overridden) :
    (keepFirst K seen l).filter p = l.filter p := by
  induction l generalizing seen with
  | nil => rfl
  | cons a as ih =>
    simp only [keepFirst]
    split
    · rename_i h
      have : p a = false := by
        cases hpa : p a
        · rfl
        · exact absurd (hs a h) (hp a hpa)
      simp [List.filter_cons, this, ih hs]
    · simp only [List.filter_cons]
      rw [ih]
      intro x hx
      split at hx
      · rename_i hov
        rcases List.mem_cons.mp hx with rfl | hx
        · exact hov
        · exact hs x hx
      · exact hs x hx

theorem filter_keepLast_not_ov (p : Arg → Bool) (hp : ∀ x, p x = true → K.dd x ≠ .overridden) (l : List Arg) :
    (keepLast K l).filter p = l.filter p := by
  simp only [keepLast, List.filter_reverse]
  rw [filter_keepFirst_not_ov p hp (by simp), List.filter_reverse, List.reverse_reverse]

/-! ### the table checker -/

theorem isPrefixOf_trans {a b c : List Char} (h1 : a.isPrefixOf b = true) (h2 : b.isPrefixOf c = true) :
    a.isPrefixOf c = true := by
  rw [List.isPrefixOf_iff_prefix] at *
  exact h1.trans h2

theorem tablesOk_sound (T : Tables) (h : tablesOk T = true) : NoPrependUnique T.classify := by
  intro a hp
  simp only [Tables.classify, Tables.pp, startsWithAny, List.any_eq_true] at hp
  obtain ⟨p, hpm, hpa⟩ := hp
  simp only [tablesOk, List.all_eq_true, List.any_eq_true] at h
  obtain ⟨q, hqm, hqp⟩ := h p hpm
  have hqa : q.isPrefixOf a = true := isPrefixOf_trans hqp hpa
  have hs : startsWithAny T.dedup2Prefixes a = true := by
    simp only [startsWithAny, List.any_eq_true]
    exact ⟨q, hqm, hqa⟩
  simp only [Tables.classify, Tables.dd]
  split
  · simp
  · simp [hs]

end MesonModel.ArgList
