/-
C01 — the evaluator: `InterpreterBase.evaluate_statement` / `evaluate_codeblock` and the functions
`message`, `set_variable`, `get_variable`, `is_variable`, `unset_variable`, `range`, `assert` of
`mesonbuild/interpreter/interpreter.py`, as total functions by structural recursion on the tree.

State: the variable table (`InterpreterBase.variables`, insertion ordered), captured `message()` lines,
`current_node.lineno` (what an escaping exception is tagged with in `evaluate_codeblock`),
`argument_depth`, and coverage tags (instrumentation only).
Outcome: a value (`none` = void statement), an error class, or a `break`/`continue` request in flight.
-/
import MesonModel.Eval.Methods

namespace MesonModel.Eval
open MesonModel.Generated

/-- coverage tags (instrumentation: which dispatch branch ended how) -/
inductive Tag where
  | bin (l : Ty) (op : Op) (r : Ty) (plusAssign : Bool) (res : Option ErrK)
  | unary (op : Op) (t : Ty) (res : Option ErrK)
  | method (t : Ty) (name : Str) (res : Option ErrK)
  | func (name : Str)
  | foreach (t : Option Ty) (res : Option ErrK)
  | expandKwargs (res : Option ErrK)
  | note (n : Str)
  deriving Repr, Inhabited

structure St where
  vars : List (Str × Val) := []
  out : List Str := []
  line : Nat := 0
  depth : Nat := 0
  cov : List Tag := []
  /-- `InterpreterBase.subdir`: the directory of the build file being evaluated, relative to the source root -/
  subdir : Str := []
  /-- `processed_buildfiles` of this interpreter (directories whose build file was entered) -/
  visited : List Str := []
  /-- `subproject_stack` -/
  spStack : List Str := []
  /-- `Interpreter.subprojects` (shared by all interpreters of one configuration) -/
  spCache : List (Str × Val) := []
  deriving Repr, Inhabited

inductive Res (α : Type) where
  | ok (a : α) (s : St)
  | err (e : ErrK) (s : St)
  /-- `BreakRequest` (`true`) / `ContinueRequest` (`false`) propagating to the enclosing `foreach` -/
  | sig (brk : Bool) (s : St)
  /-- `SubdirDoneRequest` propagating to the enclosing build file -/
  | done (s : St)
  deriving Repr, Inhabited

abbrev EvalM (α : Type) := St → Res α

@[inline] def EvalM.pure {α} (a : α) : EvalM α := fun s => .ok a s

@[inline] def EvalM.bind {α β} (m : EvalM α) (f : α → EvalM β) : EvalM β := fun s =>
  match m s with
  | .ok a s' => f a s'
  | .err e s' => .err e s'
  | .sig b s' => .sig b s'
  | .done s' => .done s'

instance : Monad EvalM where
  pure := EvalM.pure
  bind := EvalM.bind

def fail {α} (e : ErrK) : EvalM α := fun s => .err e s
def signal {α} (brk : Bool) : EvalM α := fun s => .sig brk s
def subdirDone {α} : EvalM α := fun s => .done s
def setLine (n : Nat) : EvalM Unit := fun s => .ok () { s with line := n }
def tag (t : Tag) : EvalM Unit := fun s => .ok () { s with cov := t :: s.cov }
def getSt : EvalM St := fun s => .ok s s
def incDepth : EvalM Unit := fun s => .ok () { s with depth := s.depth + 1 }
def decDepth : EvalM Unit := fun s => .ok () { s with depth := s.depth - 1 }

/-- lift a pure holder computation, recording which branch (`what`) ended how -/
def liftE {α} (what : Option ErrK → Tag) (r : Except ErrK α) : EvalM α := fun s =>
  match r with
  | .ok a => .ok a { s with cov := what none :: s.cov }
  | .error e => .err e { s with cov := what (some e) :: s.cov }

def isBuiltin (name : Str) : Bool := EvalTables.builtinNames.contains name
def isFunc (name : Str) : Bool := EvalTables.funcNames.contains name

/-- `InterpreterBase.get_variable` -/
def getVar (name : Str) : EvalM Val := fun s =>
  if isBuiltin name then .err .unsupported s           -- `meson`, `host_machine`, … objects
  else match lookup name s.vars with
    | some v => .ok v s
    | none => .err .invalidCode s

/-- `InterpreterBase.set_variable` (the value is never void here) -/
def setVar (name : Str) (v : Val) : EvalM Unit := fun s =>
  if isBuiltin name then .err .invalidCode s
  else .ok () { s with vars := insert name v s.vars }

/-- `evaluate_fstring`: only `self.variables` is consulted (not the builtins) -/
def fstringGo : List FPiece → EvalM Str
  | [] => pure []
  | .lit c :: r => do let t ← fstringGo r; pure (c :: t)
  | .var nm :: r => do
    let s ← getSt
    match lookup nm s.vars with
    | none => fail .invalidCode
    | some v =>
      match stringify false v with
      | none => fail .invalidArguments
      | some txt => do let t ← fstringGo r; pure (txt ++ t)

def fstring (tpl : Str) : EvalM Str := fstringGo (fstringPieces tpl 0)

/-- `expand_default_kwargs`: a `kwargs` entry is popped and its dictionary spliced in -/
def expandKwargs (kw : List (Str × Val)) : Except ErrK (List (Str × Val)) :=
  match lookup cs!"kwargs" kw with
  | none => .ok kw
  | some (.dict d) =>
    let rest := erase cs!"kwargs" kw
    if hasKey cs!"kwargs" d then .error .interpreterException
    else if d.any (fun e => hasKey e.1 rest) then .error .interpreterException
    else .ok (rest ++ d)
  | some _ => .error .interpreterException

def allSome : List (Option Val) → Option (List Val)
  | [] => some []
  | none :: _ => none
  | some v :: r => (allSome r).map (v :: ·)

/-- `reduce_arguments`, given the evaluation of the positional and keyword parts; `expand` is the
`expand_kwargs` parameter (the `kwargs:` splice applies to calls, not to dictionary literals) -/
def reduceArgsWith (evalPos : EvalM (List (Option Val))) (evalKws : EvalM (List (Str × Val)))
    (orderErr : Bool) (expand : Bool := true) : EvalM (List Val × List (Str × Val)) := do
  if orderErr then fail .invalidArguments
  else
    incDepth
    let pos ← evalPos
    match allSome pos with
    | none => fail .invalidArguments
    | some vs =>
      let kw ← evalKws
      decDepth
      if expand then
        let kw' ← liftE .expandKwargs (expandKwargs kw)
        pure (vs, kw')
      else pure (vs, kw)

/-- what a `foreach` iterates over: one tuple of values per iteration -/
def iterItems (v : Option Val) (nvars : Nat) : Except ErrK (List (List Val)) :=
  match v with
  | some (.arr l) => if nvars = 1 then .ok (l.map ([·])) else .error .invalidArguments
  | some (.dict d) => if nvars = 2 then .ok (d.map (fun e => [.str e.1, e.2])) else .error .invalidArguments
  | some (.range a b c) =>
    if nvars = 1 then .ok ((rangeItems a b c).map (fun i => [.int i])) else .error .invalidArguments
  | _ => .error .invalidArguments

def bindVars : List Str → List Val → EvalM Unit
  | n :: ns, v :: vs => do setVar n v; bindVars ns vs
  | _, _ => pure ()

/-- the loop of `evaluate_foreach`; `body` is the evaluation of the loop's code block -/
def forLoop (body : EvalM Unit) (vars : List Str) : List (List Val) → EvalM Unit
  | [] => pure ()
  | vals :: rest => fun s =>
    match bindVars vars vals s with
    | .ok _ s1 =>
      match body s1 with
      | .ok _ s2 => forLoop body vars rest s2
      | .sig true s2 => .ok () { s2 with cov := .note cs!"foreach:break" :: s2.cov }
      | .sig false s2 => forLoop body vars rest { s2 with cov := .note cs!"foreach:continue" :: s2.cov }
      | .err e s2 => .err e s2
      | .done s2 => .done s2          -- `subdir_done()` is not caught by a loop
    | .err e s1 => .err e s1
    | .sig b s1 => .sig b s1
    | .done s1 => .done s1

/-! ### the functions of the core language -/

/-- `del self.variables[varname]` of `func_unset_variable` -/
def unsetVar (name : Str) : EvalM (Option Val) := fun s =>
  if hasKey name s.vars then .ok none { s with vars := erase name s.vars }
  else .err .interpreterException s

/-- `mlog.log('Message:', *args)` -/
def emit (line : Str) : EvalM (Option Val) := fun s => .ok none { s with out := s.out ++ [line] }

def posTypes (req opt : List PyTy) (args : List Val) : EvalM Unit :=
  match typedPos req opt args with
  | .ok _ => pure ()
  | .error e => fail e

def mkRange (start stop step : Int) : EvalM (Option Val) :=
  if start < 0 then fail .interpreterException
  else if stop < start then fail .interpreterException
  else if step < 1 then fail .interpreterException
  else pure (some (.range start stop step))

def callFunc (fn : Str) (raw : List Val) (kw : List (Str × Val)) : EvalM (Option Val) :=
  if fn = cs!"message" then
    -- noArgsFlattening, noKwargs
    if !kw.isEmpty then fail .invalidArguments
    else match stringifyArgs raw with
      | none => fail .invalidArguments
      | some strs => emit (joinStr [' '] strs)
  else if fn = cs!"set_variable" then do
    posTypes [.str, .object] [] raw
    if !kw.isEmpty then fail .invalidArguments
    else match raw with
      | [.str name, v] =>
        if !isIdent name then fail .invalidCode
        else do setVar name v; pure none
      | _ => fail .unsupported
  else if fn = cs!"get_variable" then do
    posTypes [.str] [.object] raw
    if !kw.isEmpty then fail .invalidArguments
    else
      let s ← getSt
      match raw with
      | [.str name] => match lookup name s.vars with
        | some v => pure (some v)
        | none => fail .interpreterException
      | [.str name, dflt] => match lookup name s.vars with
        | some v => pure (some v)
        | none => pure (some dflt)
      | _ => fail .unsupported
  else if fn = cs!"is_variable" then do
    let args := flattenL raw
    posTypes [.str] [] args
    if !kw.isEmpty then fail .invalidArguments
    else
      let s ← getSt
      match args with
      | [.str name] => pure (some (.bool (hasKey name s.vars)))
      | _ => fail .unsupported
  else if fn = cs!"unset_variable" then do
    let args := flattenL raw
    posTypes [.str] [] args
    if !kw.isEmpty then fail .invalidArguments
    else match args with
      | [.str name] => unsetVar name
      | _ => fail .unsupported
  else if fn = cs!"range" then do
    let args := flattenL raw
    if !kw.isEmpty then fail .invalidArguments
    else do
      posTypes [.int] [.int, .int] args
      match args.map asInt with
      | [some a] => mkRange 0 a 1
      | [some a, some b] => mkRange a b 1
      | [some a, some b, some c] => mkRange a b c
      | _ => fail .unsupported
  else if fn = cs!"assert" then do
    let args := flattenL raw
    posTypes [.bool] [.str] args
    if !kw.isEmpty then fail .invalidArguments
    else match args with
      | .bool true :: _ => pure none
      | .bool false :: _ => fail .interpreterException
      | _ => fail .unsupported
  else if fn = cs!"subdir_done" then
    if !(flattenL raw).isEmpty then fail .invalidArguments
    else if !kw.isEmpty then fail .invalidArguments
    else subdirDone
  else fail .unsupported

/-! ### `subdir()` and `subproject()` over a file table

The build files of the source tree are a parameter: `Files` maps a directory (relative to the source
root, `/`-separated) to the parsed block of its `meson.build`.  Entering a file is not structural
recursion on the calling tree, so the evaluator takes the two entry points as `Hooks`; `hooksAt`
ties the knot with explicit fuel (every entry consumes one unit; nesting is bounded by the number
of files because a directory is entered at most once per interpreter and subprojects may not recurse). -/

abbrev Files := List (Str × List Node)

def fileOf (files : Files) (dir : Str) : Option (List Node) :=
  match files.find? (fun e => e.1 = dir) with
  | some e => some e.2
  | none => none

structure Hooks where
  /-- `func_subdir` once the argument is known to be a string -/
  subdir : Str → EvalM (Option Val)
  /-- `func_subproject` / `do_subproject` for a plain name without keyword arguments -/
  subproject : Str → EvalM (Option Val)

/-- only plain relative paths `seg/seg/…` with segments of `[A-Za-z0-9_-]` or dots are inside the model
(anything `os.path.realpath` would normalise is not) -/
def plainPath (p : Str) : Bool :=
  let segs := splitOn p ['/']
  segs.all (fun g => !g.isEmpty && g != ['.'] && g != ['.', '.'] &&
    g.all (fun c => MesonModel.Py.isAlnum c || c == '_' || c == '-' || c == '.'))

def joinPath (a b : Str) : Str := if a.isEmpty then b else a ++ ['/'] ++ b

/-- `finally: self.subdir = prev_subdir` and `except SubdirDoneRequest: pass` of `_evaluate_codeblock` -/
def leaveSubdir {α} (prev : Str) (r : Res α) (dflt : α) : Res α :=
  match r with
  | .ok a s => .ok a { s with subdir := prev }
  | .err e s => .err e { s with subdir := prev }
  | .sig b s => .sig b { s with subdir := prev }
  | .done s => .ok dflt { s with subdir := prev }

/-- `func_subdir` + `_evaluate_subdir`: the file's block runs in the SAME state (variables included) -/
def enterSubdir (run : List Node → EvalM Unit) (files : Files) (arg : Str) : EvalM (Option Val) := fun s =>
  if hasSub ['.', '.'] arg then .err .invalidArguments s
  else if s.subdir.isEmpty && arg = cs!"subprojects" then .err .invalidArguments s
  else if s.subdir.isEmpty && cs!"meson-".isPrefixOf arg then .err .invalidArguments s
  else if arg.isEmpty then .err .invalidArguments s
  else if arg.head? = some '/' then .err .invalidArguments s
  else if !plainPath arg then .err .unsupported s
  else
    let dir := joinPath s.subdir arg
    if s.visited.contains dir then .err .invalidArguments s
    else
      let s1 := { s with visited := dir :: s.visited }
      match fileOf files dir with
      | none => .err .interpreterException s1
      | some block =>
        match leaveSubdir s.subdir (run block { s1 with subdir := dir }) () with
        | .ok _ s2 => .ok none s2
        | .err e s2 => .err e s2
        | .sig b s2 => .sig b s2
        | .done s2 => .done s2

/-- the state a sub-interpreter starts from: nothing of the parent's variable table, its own
directory bookkeeping; the log, the subproject cache and the coverage tags are shared -/
def childState (s : St) (name : Str) : St :=
  { vars := [], out := s.out, line := s.line, depth := 0, cov := s.cov,
    subdir := joinPath cs!"subprojects" name, visited := [], spStack := s.spStack ++ [name],
    spCache := s.spCache }

/-- back in the parent: only the log, the cache and the tags come back, plus the returned object -/
def afterChild (s c : St) : St := { s with out := c.out, cov := c.cov, spCache := c.spCache }

/-- `do_subproject` → `_do_subproject_meson` → `subi.run()` -/
def enterSubproject (run : List Node → EvalM Unit) (files : Files) (name : Str) : EvalM (Option Val) := fun s =>
  if name.isEmpty then .err .interpreterException s
  else if name.head? = some '.' then .err .interpreterException s
  else if hasSub ['.', '.'] name then .err .interpreterException s
  else if name.head? = some '/' then .err .interpreterException s
  else if !plainPath name || name.contains '/' then .err .unsupported s
  else if s.spStack.contains name then .err .invalidCode s
  else match lookup name s.spCache with
    | some obj => .ok (some obj) s
    | none =>
      match fileOf files (joinPath cs!"subprojects" name) with
      | none => .err .unsupported s              -- wrap resolution / download is not modelled
      | some block =>
        match run block (childState s name) with
        | .ok _ c | .done c =>
          let obj := Val.subproj name c.vars
          let s' := afterChild s c
          .ok (some obj) { s' with spCache := insert name obj s'.spCache }
        | .err e c => .err e { afterChild s c with line := c.line }
        | .sig b c => .sig b (afterChild s c)

def modelledFuncs : List Str :=
  [cs!"message", cs!"set_variable", cs!"get_variable", cs!"is_variable", cs!"unset_variable", cs!"range",
   cs!"assert", cs!"subdir_done", cs!"subdir", cs!"subproject"]

/-- `function_call` after `reduce_arguments` -/
def applyFunc (h : Hooks) (ln : Nat) (fn : Str) (pos : List Val) (kw : List (Str × Val)) : EvalM (Option Val) := do
  if !isFunc fn then
    tag (.note cs!"call:unknown-function")
    fail .invalidCode
  else if !modelledFuncs.contains fn then fail .unsupported
  else
    setLine ln
    tag (.func fn)
    if fn = cs!"subdir" then
      if !kw.isEmpty then fail .unsupported            -- `if_found:` needs dependency objects
      else do
        posTypes [.str] [] (flattenL pos)
        match flattenL pos with
        | [.str d] => h.subdir d
        | _ => fail .unsupported
    else if fn = cs!"subproject" then
      if !kw.isEmpty then fail .unsupported            -- required: / default_options: / version:
      else do
        posTypes [.str] [] (flattenL pos)
        match flattenL pos with
        | [.str n] => h.subproject n
        | _ => fail .unsupported
    else callFunc fn pos kw

/-- `method_call` after the object and the arguments have been evaluated -/
def applyMethod (ln : Nat) (obj : Option Val) (name : Str) (pos : List Val) (kw : List (Str × Val)) :
    EvalM (Option Val) := do
  match obj with
  | none => fail .invalidArguments
  | some o =>
    setLine ln
    let r ← liftE (.method o.ty name) (methodCall o name pos kw)
    pure (some r)

/-- array / dict literals may not hold a `RangeHolder` in the model (object identity) -/
def noRange (v : Val) : EvalM Val := if hasRange v then fail .unsupported else pure v

def truth (v : Val) : EvalM Bool := do
  let b ← liftE (.unary .bool v.ty) (operatorCall v .bool none)
  match b with
  | .bool x => pure x
  | _ => fail .unsupported

mutual

/-- `evaluate_statement` -/
def eval (h : Hooks) : Node → EvalM (Option Val)
  | .str ln v => do setLine ln; pure (some (.str v))
  | .fstr ln v => do setLine ln; let r ← fstring v; pure (some (.str r))
  | .bool ln b => do setLine ln; pure (some (.bool b))
  | .num ln n => do setLine ln; pure (some (.int n))
  | .id ln name => do setLine ln; let v ← getVar name; pure (some v)
  | .arr ln pos kw oe => do
    setLine ln
    let (vs, kws) ← reduceArgsWith (evalList h pos) (evalKw h false kw []) oe
    if !kws.isEmpty then fail .invalidCode
    else do let v ← noRange (.arr vs); pure (some v)
  | .dict ln kw => do
    setLine ln
    let (_, kws) ← reduceArgsWith (pure []) (evalKw h true kw []) false false
    let v ← noRange (.dict kws)
    pure (some v)
  | .and_ ln l r => do
    setLine ln
    let lv ← eval h l
    match lv with
    | none => fail .mesonException
    | some lv =>
      let lb ← truth lv
      if !lb then do tag (.note cs!"and:short-circuit"); pure (some (.bool false))
      else
        let rv ← eval h r
        match rv with
        | none => fail .mesonException
        | some rv => do let rb ← truth rv; pure (some (.bool rb))
  | .or_ ln l r => do
    setLine ln
    let lv ← eval h l
    match lv with
    | none => fail .mesonException
    | some lv =>
      let lb ← truth lv
      if lb then do tag (.note cs!"or:short-circuit"); pure (some (.bool true))
      else
        let rv ← eval h r
        match rv with
        | none => fail .mesonException
        | some rv => do let rb ← truth rv; pure (some (.bool rb))
  | .not_ ln v => do
    setLine ln
    let x ← eval h v
    match x with
    | none => fail .invalidCode
    | some x => do let r ← liftE (.unary .not_ x.ty) (operatorCall x .not_ none); pure (some r)
  | .uminus ln v => do
    setLine ln
    let x ← eval h v
    match x with
    | none => fail .invalidCode
    | some x => do let r ← liftE (.unary .uminus x.ty) (operatorCall x .uminus none); pure (some r)
  | .arith ln op l r => do
    setLine ln
    let lv ← eval h l
    let rv ← eval h r
    match lv, rv with
    | some a, some b => do
      let res ← liftE (.bin a.ty (arithOp op) b.ty false) (operatorCall a (arithOp op) (some b))
      pure (some res)
    | _, _ => fail .invalidCode
  | .cmp ln op l r => do
    setLine ln
    let lv ← eval h l
    match lv with
    | none => fail .mesonException
    | some a =>
      let rv ← eval h r
      match rv with
      | none => fail .mesonException
      | some b =>
        -- `in` / `not in` are `contains` on the right operand
        let (x, y) := if op = .in_ ∨ op = .notin then (b, a) else (a, b)
        let res ← liftE (.bin x.ty (cmpOpOf op) y.ty false) (operatorCall x (cmpOpOf op) (some y))
        pure (some res)
  | .index ln obj idx => do
    setLine ln
    let o ← eval h obj
    match o with
    | none => fail .interpreterException
    | some o =>
      let i ← eval h idx
      match i with
      | none => fail .invalidArguments
      | some i => do
        let res ← liftE (.bin o.ty .index i.ty false) (operatorCall o .index (some i))
        pure (some res)
  | .tern ln c t f => do
    setLine ln
    let cv ← eval h c
    match cv with
    | none => fail .mesonException
    | some cv =>
      let b ← truth cv
      if b then eval h t else eval h f
  | .paren ln inner => do setLine ln; eval h inner
  | .assign ln name v => do
    setLine ln
    let s ← getSt
    if s.depth ≠ 0 then fail .invalidArguments
    else
      let x ← eval h v
      match x with
      | none => fail .invalidCode
      | some x => do setVar name x; pure none
  | .plusassign ln name v => do
    setLine ln
    let x ← eval h v
    match x with
    | none => fail .invalidCode
    | some add =>
      let old ← getVar name
      let res ← liftE (.bin old.ty .plus add.ty true) (operatorCall old .plus (some add))
      setVar name res
      pure none
  | .call ln fn pos kw oe => do
    setLine ln
    let (vs, kws) ← reduceArgsWith (evalList h pos) (evalKw h false kw []) oe
    applyFunc h ln fn vs kws
  | .method ln obj name pos kw oe => do
    setLine ln
    let o ← (match obj with
             | .id _ nm => do let v ← getVar nm; pure (some v)
             | _ => eval h obj)
    let (vs, kws) ← reduceArgsWith (evalList h pos) (evalKw h false kw []) oe
    applyMethod ln o name vs kws
  | .ifc ln ifs hasElse els => do
    setLine ln
    let taken ← evalIfs h ifs
    if taken then pure none
    else if hasElse then do tag (.note cs!"if:else"); execBlock h els; pure none
    else pure none
  | .foreach ln vars items block => do
    setLine ln
    let it ← eval h items
    let tuples ← liftE (.foreach (it.map Val.ty)) (iterItems it vars.length)
    forLoop (execBlock h block) vars tuples
    pure none
  | .cont ln => do setLine ln; signal false
  | .brk ln => do setLine ln; signal true
  | .unknown ln => do setLine ln; fail .invalidCode
termination_by structural n => n

/-- positional arguments, left to right -/
def evalList (h : Hooks) : List Node → EvalM (List (Option Val))
  | [] => pure []
  | n :: r => do let v ← eval h n; let vs ← evalList h r; pure (v :: vs)
termination_by structural l => l

/-- keyword arguments / dictionary entries in source order; `dictMode` = `resolve_key` of
`evaluate_dictstatement` (keys are evaluated, duplicates are errors) -/
def evalKw (h : Hooks) (dictMode : Bool) : List (Node × Node) → List (Str × Val) → EvalM (List (Str × Val))
  | [], acc => pure acc
  | (k, v) :: r, acc => do
    let key ← (if dictMode then do
                 let kv ← eval h k
                 match kv with
                 | some (.str s) => pure s
                 | _ => fail .invalidArguments
               else match k with
                 | .id _ nm => pure nm
                 | _ => fail .interpreterException)
    let val ← eval h v
    match val with
    | none => fail .invalidArguments
    | some x =>
      setLine k.line
      if dictMode && hasKey key acc then fail .invalidArguments
      else evalKw h dictMode r (insert key x acc)
termination_by structural l => l

/-- `evaluate_codeblock` -/
def execBlock (h : Hooks) : List Node → EvalM Unit
  | [] => pure ()
  | n :: r => do let _ ← eval h n; execBlock h r
termination_by structural l => l

/-- the `if`/`elif` arms of `evaluate_if`; answers whether an arm was taken -/
def evalIfs (h : Hooks) : List (Node × List Node) → EvalM Bool
  | [] => pure false
  | (c, blk) :: r => do
    let cv ← eval h c
    match cv with
    | none => fail .invalidCode
    | some cv =>
      let b ← truth cv
      if b then do tag (.note cs!"if:taken"); execBlock h blk; pure true
      else evalIfs h r
termination_by structural l => l

end

/-- the entry points for a given source tree; `fuel` bounds the nesting of build files -/
def hooksAt (files : Files) : Nat → Hooks
  | 0 => { subdir := fun _ => fail .unsupported, subproject := fun _ => fail .unsupported }
  | n + 1 => { subdir := enterSubdir (execBlock (hooksAt files n)) files,
               subproject := enterSubproject (execBlock (hooksAt files n)) files }

def hooksFor (files : Files) : Hooks := hooksAt files (2 * files.length + 2)

/-- a whole build definition (top-level `meson.build` after `project()`) on a fresh variable table,
in a source tree with the given other build files -/
def runProgramIn (files : Files) (prog : List Node) : Res Unit := execBlock (hooksFor files) prog {}

/-- a single-file build definition -/
def runProgram (prog : List Node) : Res Unit := runProgramIn [] prog

end MesonModel.Eval
