/-
C01 — frame property of the evaluator: evaluating a tree changes at most the names it assigns.
-/
import MesonModel.Eval.Lemmas

namespace MesonModel.Eval

def Res.st {α} : Res α → St
  | .ok _ s | .err _ s | .sig _ s | .done s => s

/-- `m` never changes the binding of `x` (whatever its outcome) -/
def FrameM {α} (x : Str) (m : EvalM α) : Prop := ∀ s, lookup x (m s).st.vars = lookup x s.vars

namespace FrameM
variable {x : Str}

theorem pure {α} (a : α) : FrameM x (Pure.pure a : EvalM α) := fun _ => rfl
theorem fail {α} (e : ErrK) : FrameM x (fail e : EvalM α) := fun _ => rfl
theorem signal {α} (b : Bool) : FrameM x (signal b : EvalM α) := fun _ => rfl
theorem subdirDone {α} : FrameM x (subdirDone : EvalM α) := fun _ => rfl
theorem setLine (n : Nat) : FrameM x (setLine n) := fun _ => rfl
theorem tag (t : Tag) : FrameM x (tag t) := fun _ => rfl
theorem getSt : FrameM x getSt := fun _ => rfl
theorem incDepth : FrameM x incDepth := fun _ => rfl
theorem decDepth : FrameM x decDepth := fun _ => rfl
theorem emit (l : Str) : FrameM x (emit l) := fun _ => rfl

theorem liftE {α} (w : Option ErrK → Tag) (r : Except ErrK α) : FrameM x (liftE w r) := by
  intro s; unfold Eval.liftE; cases r <;> rfl

theorem getVar (n : Str) : FrameM x (getVar n) := by
  intro s; unfold Eval.getVar; split
  · rfl
  · split <;> rfl

theorem bind {α β} {m : EvalM α} {f : α → EvalM β} (hm : FrameM x m) (hf : ∀ a, FrameM x (f a)) :
    FrameM x (m >>= f) := by
  intro s
  show lookup x ((EvalM.bind m f) s).st.vars = _
  unfold EvalM.bind
  have h1 := hm s
  cases hms : m s with
  | ok a s' => simp only []; rw [hf a s']; rw [hms] at h1; exact h1
  | err e s' => rw [hms] at h1; exact h1
  | sig b s' => rw [hms] at h1; exact h1
  | done s' => rw [hms] at h1; exact h1

theorem setVar {n : Str} (v : Val) (h : n ≠ x) : FrameM x (setVar n v) := by
  intro s; unfold Eval.setVar; split
  · rfl
  · exact lookup_insert_ne v (Ne.symm h) _

theorem unsetVar {n : Str} (h : n ≠ x) : FrameM x (unsetVar n) := by
  intro s; unfold Eval.unsetVar; split
  · exact lookup_erase_ne (Ne.symm h) _
  · rfl

end FrameM

theorem frame_bindVars {x : Str} : ∀ (vars : List Str) (vals : List Val), x ∉ vars →
    FrameM x (bindVars vars vals)
  | [], _, _ => by unfold bindVars; exact FrameM.pure _
  | _ :: _, [], _ => by unfold bindVars; exact FrameM.pure _
  | n :: ns, v :: vs, h => by
    unfold bindVars
    have h1 : n ≠ x := fun e => h (e ▸ List.mem_cons_self)
    have h2 : x ∉ ns := fun e => h (List.mem_cons_of_mem _ e)
    exact FrameM.bind (FrameM.setVar v h1) (fun _ => frame_bindVars ns vs h2)

theorem frame_forLoop {x : Str} (body : EvalM Unit) (vars : List Str) (hb : FrameM x body)
    (hv : x ∉ vars) : ∀ items, FrameM x (forLoop body vars items)
  | [] => by unfold forLoop; exact FrameM.pure _
  | vals :: rest => by
    intro s
    unfold forLoop
    have h1 := frame_bindVars vars vals hv s
    cases hbv : bindVars vars vals s with
    | ok u s1 =>
      rw [hbv] at h1
      simp only []
      have h2 := hb s1
      cases hbd : body s1 with
      | ok u2 s2 =>
        rw [hbd] at h2
        simp only []
        rw [frame_forLoop body vars hb hv rest s2]
        exact h2.trans h1
      | err e s2 => rw [hbd] at h2; exact h2.trans h1
      | sig b s2 =>
        rw [hbd] at h2
        cases b
        · simp only []
          rw [frame_forLoop body vars hb hv rest _]
          exact h2.trans h1
        · exact h2.trans h1
      | done s2 => rw [hbd] at h2; exact h2.trans h1
    | err e s1 => rw [hbv] at h1; exact h1
    | sig b s1 => rw [hbv] at h1; exact h1
    | done s1 => rw [hbv] at h1; exact h1

attribute [irreducible] FrameM

/-- one step of a frame proof: peel a bind / a primitive / a case split -/
macro "frame_step" : tactic => `(tactic| first
  | assumption
  | exact FrameM.pure _ | exact FrameM.fail _ | exact FrameM.signal _ | exact FrameM.setLine _
  | exact FrameM.subdirDone
  | exact FrameM.tag _ | exact FrameM.getSt | exact FrameM.incDepth | exact FrameM.decDepth
  | exact FrameM.emit _ | exact FrameM.liftE _ _ | exact FrameM.getVar _
  | (apply FrameM.setVar; assumption) | (apply FrameM.unsetVar; assumption)
  | contradiction
  | apply FrameM.bind
  | intro _
  | split)

macro "frame" : tactic => `(tactic| repeat (any_goals frame_step))

theorem frame_fstringGo {x : Str} : ∀ ps, FrameM x (fstringGo ps)
  | [] => by unfold fstringGo; exact FrameM.pure _
  | .lit c :: r => by
    unfold fstringGo
    have := frame_fstringGo (x := x) r
    frame
  | .var nm :: r => by
    unfold fstringGo
    have := frame_fstringGo (x := x) r
    frame

theorem frame_fstring {x : Str} (t : Str) : FrameM x (fstring t) := frame_fstringGo _

theorem frame_posTypes {x : Str} (a b : List PyTy) (c : List Val) : FrameM x (posTypes a b c) := by
  unfold posTypes; frame

theorem frame_mkRange {x : Str} (a b c : Int) : FrameM x (mkRange a b c) := by
  unfold mkRange; frame

theorem frame_reduceArgsWith {x : Str} {p : EvalM (List (Option Val))} {k : EvalM (List (Str × Val))}
    (hp : FrameM x p) (hk : FrameM x k) (oe : Bool) (ex : Bool := true) :
    FrameM x (reduceArgsWith p k oe ex) := by
  unfold reduceArgsWith; frame

theorem frame_applyMethod {x : Str} (ln : Nat) (o : Option Val) (name : Str) (pos : List Val)
    (kw : List (Str × Val)) : FrameM x (applyMethod ln o name pos kw) := by
  unfold applyMethod; frame

theorem frame_truth {x : Str} (v : Val) : FrameM x (truth v) := by
  unfold truth; frame

theorem frame_noRange {x : Str} (v : Val) : FrameM x (noRange v) := by
  unfold noRange; frame

/-- `frame_step` extended with the helper-function lemmas above -/
macro "frame_step2" : tactic => `(tactic| first
  | exact frame_posTypes _ _ _ | exact frame_mkRange _ _ _ | exact frame_truth _ | exact frame_noRange _
  | exact frame_fstring _ | exact frame_applyMethod _ _ _ _ _
  | frame_step)

macro "frame2" : tactic => `(tactic| repeat (any_goals frame_step2))

/-- every function except `set_variable` / `unset_variable` leaves the variable table alone -/
theorem frame_callFunc {x : Str} (fn : Str) (pos : List Val) (kw : List (Str × Val))
    (h1 : fn ≠ cs!"set_variable") (h2 : fn ≠ cs!"unset_variable") : FrameM x (callFunc fn pos kw) := by
  unfold callFunc
  frame2

theorem frame_applyFunc {x : Str} (h : Hooks) (hsp : ∀ nm, FrameM x (h.subproject nm))
    (ln : Nat) (fn : Str) (pos : List Val) (kw : List (Str × Val))
    (h1 : fn ≠ cs!"set_variable") (h2 : fn ≠ cs!"unset_variable") (h3 : fn ≠ cs!"subdir") :
    FrameM x (applyFunc h ln fn pos kw) := by
  have hc := frame_callFunc (x := x) fn pos kw h1 h2
  unfold applyFunc
  frame2
  all_goals exact hsp _

/-! ### which names a tree may (re)bind, syntactically -/

mutual
/-- `true` if evaluating the tree might change the binding of `x`: an assignment / `+=` / `foreach`
variable named `x`, any call of `set_variable` / `unset_variable` (whose name is computed), or a
`subdir()` call (the file runs in the same variable table) -/
def mayWrite (x : Str) : Node → Bool
  | .assign _ name v => name == x || mayWrite x v
  | .plusassign _ name v => name == x || mayWrite x v
  | .foreach _ vars items block => vars.contains x || mayWrite x items || mayWriteL x block
  | .call _ fn pos kw _ =>
    fn == cs!"set_variable" || fn == cs!"unset_variable" || fn == cs!"subdir" ||
      mayWriteL x pos || mayWriteK x kw
  | .arr _ pos kw _ => mayWriteL x pos || mayWriteK x kw
  | .dict _ kw => mayWriteK x kw
  | .and_ _ l r => mayWrite x l || mayWrite x r
  | .or_ _ l r => mayWrite x l || mayWrite x r
  | .arith _ _ l r => mayWrite x l || mayWrite x r
  | .cmp _ _ l r => mayWrite x l || mayWrite x r
  | .index _ l r => mayWrite x l || mayWrite x r
  | .not_ _ v => mayWrite x v
  | .uminus _ v => mayWrite x v
  | .paren _ v => mayWrite x v
  | .tern _ c t f => mayWrite x c || mayWrite x t || mayWrite x f
  | .method _ obj _ pos kw _ => mayWrite x obj || mayWriteL x pos || mayWriteK x kw
  | .ifc _ ifs _ els => mayWriteI x ifs || mayWriteL x els
  | _ => false
termination_by structural n => n
def mayWriteL (x : Str) : List Node → Bool
  | [] => false
  | n :: r => mayWrite x n || mayWriteL x r
termination_by structural l => l
def mayWriteK (x : Str) : List (Node × Node) → Bool
  | [] => false
  | (k, v) :: r => mayWrite x k || mayWrite x v || mayWriteK x r
termination_by structural l => l
def mayWriteI (x : Str) : List (Node × List Node) → Bool
  | [] => false
  | (c, b) :: r => mayWrite x c || mayWriteL x b || mayWriteI x r
termination_by structural l => l
end

mutual
theorem frame_eval (x : Str) (hk : Hooks) (hsp : ∀ nm, FrameM x (hk.subproject nm)) :
    ∀ n, mayWrite x n = false → FrameM x (eval hk n)
  | .str _ _, _ => by simp only [eval]; frame2
  | .fstr _ _, _ => by simp only [eval]; frame2
  | .bool _ _, _ => by simp only [eval]; frame2
  | .num _ _, _ => by simp only [eval]; frame2
  | .id _ _, _ => by simp only [eval]; frame2
  | .arr _ pos kw oe, h => by
    simp only [mayWrite, Bool.or_eq_false_iff] at h
    have h1 := frame_evalList x hk hsp pos h.1
    have h2 := frame_evalKw x hk hsp false kw [] h.2
    have h3 := frame_reduceArgsWith h1 h2 oe
    simp only [eval]; frame2
  | .dict _ kw, h => by
    simp only [mayWrite] at h
    have h2 := frame_evalKw x hk hsp true kw [] h
    have h3 := frame_reduceArgsWith (FrameM.pure (x := x) ([] : List (Option Val))) h2 false false
    simp only [eval]; frame2
  | .and_ _ l r, h => by
    simp only [mayWrite, Bool.or_eq_false_iff] at h
    have h1 := frame_eval x hk hsp l h.1
    have h2 := frame_eval x hk hsp r h.2
    simp only [eval]; frame2
  | .or_ _ l r, h => by
    simp only [mayWrite, Bool.or_eq_false_iff] at h
    have h1 := frame_eval x hk hsp l h.1
    have h2 := frame_eval x hk hsp r h.2
    simp only [eval]; frame2
  | .not_ _ v, h => by
    simp only [mayWrite] at h
    have h1 := frame_eval x hk hsp v h
    simp only [eval]; frame2
  | .uminus _ v, h => by
    simp only [mayWrite] at h
    have h1 := frame_eval x hk hsp v h
    simp only [eval]; frame2
  | .arith _ _ l r, h => by
    simp only [mayWrite, Bool.or_eq_false_iff] at h
    have h1 := frame_eval x hk hsp l h.1
    have h2 := frame_eval x hk hsp r h.2
    simp only [eval]; frame2
  | .cmp _ _ l r, h => by
    simp only [mayWrite, Bool.or_eq_false_iff] at h
    have h1 := frame_eval x hk hsp l h.1
    have h2 := frame_eval x hk hsp r h.2
    simp only [eval]; frame2
  | .index _ l r, h => by
    simp only [mayWrite, Bool.or_eq_false_iff] at h
    have h1 := frame_eval x hk hsp l h.1
    have h2 := frame_eval x hk hsp r h.2
    simp only [eval]; frame2
  | .tern _ c t f, h => by
    simp only [mayWrite, Bool.or_eq_false_iff] at h
    have h1 := frame_eval x hk hsp c h.1.1
    have h2 := frame_eval x hk hsp t h.1.2
    have h3 := frame_eval x hk hsp f h.2
    simp only [eval]; frame2
  | .paren _ v, h => by
    simp only [mayWrite] at h
    have h1 := frame_eval x hk hsp v h
    simp only [eval]; frame2
  | .assign _ name v, h => by
    simp only [mayWrite, Bool.or_eq_false_iff, beq_eq_false_iff_ne, ne_eq] at h
    have h1 := frame_eval x hk hsp v h.2
    have h0 : name ≠ x := h.1
    simp only [eval]; frame2
  | .plusassign _ name v, h => by
    simp only [mayWrite, Bool.or_eq_false_iff, beq_eq_false_iff_ne, ne_eq] at h
    have h1 := frame_eval x hk hsp v h.2
    have h0 : name ≠ x := h.1
    simp only [eval]; frame2
  | .call ln fn pos kw oe, h => by
    simp only [mayWrite, Bool.or_eq_false_iff, beq_eq_false_iff_ne, ne_eq] at h
    have h1 := frame_evalList x hk hsp pos h.1.2
    have h2 := frame_evalKw x hk hsp false kw [] h.2
    have h3 := frame_reduceArgsWith h1 h2 oe
    have h4 := fun vs kws => frame_applyFunc (x := x) hk hsp ln fn vs kws h.1.1.1.1 h.1.1.1.2 h.1.1.2
    simp only [eval]
    apply FrameM.bind (FrameM.setLine _); intro _
    apply FrameM.bind h3; intro p
    exact h4 _ _
  | .method ln obj name pos kw oe, h => by
    simp only [mayWrite, Bool.or_eq_false_iff] at h
    have h0 := frame_eval x hk hsp obj h.1.1
    have h1 := frame_evalList x hk hsp pos h.1.2
    have h2 := frame_evalKw x hk hsp false kw [] h.2
    have h3 := frame_reduceArgsWith h1 h2 oe
    simp only [eval]; frame2
  | .ifc _ ifs _ els, h => by
    simp only [mayWrite, Bool.or_eq_false_iff] at h
    have h1 := frame_evalIfs x hk hsp ifs h.1
    have h2 := frame_execBlock x hk hsp els h.2
    simp only [eval]; frame2
  | .foreach _ vars items block, h => by
    simp only [mayWrite, Bool.or_eq_false_iff] at h
    have h1 := frame_eval x hk hsp items h.1.2
    have h2 := frame_execBlock x hk hsp block h.2
    have hv : x ∉ vars := by
      have := h.1.1
      simpa using this
    have h3 := frame_forLoop (execBlock hk block) vars h2 hv
    simp only [eval]; frame2
    all_goals exact h3 _
  | .cont _, _ => by simp only [eval]; frame2
  | .brk _, _ => by simp only [eval]; frame2
  | .unknown _, _ => by simp only [eval]; frame2
termination_by structural n => n
theorem frame_evalList (x : Str) (hk : Hooks) (hsp : ∀ nm, FrameM x (hk.subproject nm)) :
    ∀ l, mayWriteL x l = false → FrameM x (evalList hk l)
  | [], _ => by simp only [evalList]; frame2
  | n :: r, h => by
    simp only [mayWriteL, Bool.or_eq_false_iff] at h
    have h1 := frame_eval x hk hsp n h.1
    have h2 := frame_evalList x hk hsp r h.2
    simp only [evalList]; frame2
termination_by structural l => l
theorem frame_evalKw (x : Str) (hk : Hooks) (hsp : ∀ nm, FrameM x (hk.subproject nm)) (dm : Bool) :
    ∀ l acc, mayWriteK x l = false → FrameM x (evalKw hk dm l acc)
  | [], _, _ => by simp only [evalKw]; frame2
  | (k, v) :: r, acc, h => by
    simp only [mayWriteK, Bool.or_eq_false_iff] at h
    have h1 := frame_eval x hk hsp k h.1.1
    have h2 := frame_eval x hk hsp v h.1.2
    have h3 := fun a => frame_evalKw x hk hsp dm r a h.2
    simp only [evalKw]; frame2
    all_goals exact h3 _
termination_by structural l => l
theorem frame_execBlock (x : Str) (hk : Hooks) (hsp : ∀ nm, FrameM x (hk.subproject nm)) :
    ∀ l, mayWriteL x l = false → FrameM x (execBlock hk l)
  | [], _ => by simp only [execBlock]; frame2
  | n :: r, h => by
    simp only [mayWriteL, Bool.or_eq_false_iff] at h
    have h1 := frame_eval x hk hsp n h.1
    have h2 := frame_execBlock x hk hsp r h.2
    simp only [execBlock]; frame2
termination_by structural l => l
theorem frame_evalIfs (x : Str) (hk : Hooks) (hsp : ∀ nm, FrameM x (hk.subproject nm)) :
    ∀ l, mayWriteI x l = false → FrameM x (evalIfs hk l)
  | [], _ => by simp only [evalIfs]; frame2
  | (c, b) :: r, h => by
    simp only [mayWriteI, Bool.or_eq_false_iff] at h
    have h1 := frame_eval x hk hsp c h.1.1
    have h2 := frame_execBlock x hk hsp b h.1.2
    have h3 := frame_evalIfs x hk hsp r h.2
    simp only [evalIfs]; frame2
termination_by structural l => l
end

/-! ### `subdir()` / `subproject()` -/

theorem enterSubproject_vars (run : List Node → EvalM Unit) (files : Files) (nm : Str) (s : St) :
    (enterSubproject run files nm s).st.vars = s.vars := by
  unfold enterSubproject
  repeat' split
  all_goals simp [Res.st, afterChild]

/-- forget the variable table of the outcome's state -/
def Res.forgetVars {α} : Res α → Res α
  | .ok a s => .ok a { s with vars := [] }
  | .err e s => .err e { s with vars := [] }
  | .sig b s => .sig b { s with vars := [] }
  | .done s => .done { s with vars := [] }

theorem enterSubproject_blind (run : List Node → EvalM Unit) (files : Files) (nm : Str) (s : St)
    (v' : List (Str × Val)) :
    (enterSubproject run files nm s).forgetVars = (enterSubproject run files nm { s with vars := v' }).forgetVars := by
  unfold enterSubproject
  simp only [childState]
  repeat' split
  all_goals simp_all [Res.forgetVars, afterChild]

/-- the preconditions under which `subdir(arg)` enters a file -/
structure SubdirOk (files : Files) (s : St) (arg : Str) (block : List Node) : Prop where
  noDots : hasSub ['.', '.'] arg = false
  notSubprojects : (s.subdir.isEmpty && arg = cs!"subprojects") = false
  notReserved : (s.subdir.isEmpty && cs!"meson-".isPrefixOf arg) = false
  nonEmpty : arg.isEmpty = false
  relative : arg.head? ≠ some '/'
  plain : plainPath arg = true
  fresh : s.visited.contains (joinPath s.subdir arg) = false
  file : fileOf files (joinPath s.subdir arg) = some block

theorem enterSubdir_eq (run : List Node → EvalM Unit) (files : Files) (arg : Str) (block : List Node) (s : St)
    (h : SubdirOk files s arg block) :
    enterSubdir run files arg s =
      (match leaveSubdir s.subdir
          (run block { s with visited := joinPath s.subdir arg :: s.visited, subdir := joinPath s.subdir arg }) () with
        | .ok _ s2 => .ok none s2
        | .err e s2 => .err e s2
        | .sig b s2 => .sig b s2
        | .done s2 => .done s2) := by
  unfold enterSubdir
  have h1 := h.noDots; have h2 := h.notSubprojects; have h3 := h.notReserved; have h4 := h.nonEmpty
  have h5 := h.relative; have h6 := h.plain; have h7 := h.fresh; have h8 := h.file
  simp only [h1, h2, h3, h4, h5, h6, h7, h8, Bool.false_eq_true, ↓reduceIte, Bool.not_true]
  rfl

theorem frame_enterSubproject {x : Str} (run : List Node → EvalM Unit) (files : Files) (nm : Str) :
    FrameM x (enterSubproject run files nm) := by
  unfold FrameM
  intro s
  rw [enterSubproject_vars]

/-- the hooks of every source tree leave the caller's variable table alone in `subproject()` -/
theorem hooksAt_subproject_frame {x : Str} (files : Files) : ∀ n nm, FrameM x ((hooksAt files n).subproject nm)
  | 0, _ => by unfold hooksAt; exact FrameM.fail _
  | n + 1, nm => by unfold hooksAt; exact frame_enterSubproject _ files nm

end MesonModel.Eval
